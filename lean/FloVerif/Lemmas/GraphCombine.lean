import FloVerif.Lemmas.GraphRemove
/-! C03 helper lemmas, part 4: `combine_overlapping_points` keeps the invariant. -/
set_option linter.unusedSectionVars false
set_option linter.unusedVariables false
set_option linter.unusedSimpArgs false
namespace Model.Graph

/-! ### the remap table -/

theorem tblIdx_of_ge {tbl : RemapTable} {i : Nat} (h : tbl.length ≤ i) : tblIdx tbl i = i := by
  simp [tblIdx, List.getElem?_eq_none h]

theorem tblIdx_set (tbl : RemapTable) (i : Nat) (x : Nat × Bool) (j : Nat) :
    tblIdx (tbl.set i x) j = if j = i ∧ i < tbl.length then x.1 else tblIdx tbl j := by
  unfold tblIdx
  rw [List.getElem?_set]
  by_cases hji : j = i
  · subst hji
    by_cases hl : j < tbl.length
    · simp [hl]
    · simp [hl, List.getElem?_eq_none (Nat.le_of_not_lt hl)]
  · have : ¬ i = j := fun h => hji h.symm
    simp [hji, this]

theorem getElem?_set_some {α : Type} {l : List α} {i j : Nat} {a x : α} (h : (l.set i a)[j]? = some x) :
    (j = i ∧ x = a) ∨ (j ≠ i ∧ l[j]? = some x) := by
  rw [List.getElem?_set] at h
  by_cases hij : i = j
  · subst hij
    by_cases hl : i < l.length
    · simp [hl] at h; exact Or.inl ⟨rfl, h.symm⟩
    · simp [hl] at h
  · simp [hij] at h
    exact Or.inr ⟨fun hh => hij hh.symm, h⟩

/-- the facts about `remapped_points` the edge-moving loops rely on -/
structure TblInv (n : Nat) (tbl : RemapTable) : Prop where
  len : tbl.length = n
  le : ∀ i, tblIdx tbl i ≤ i
  unmoved : ∀ (i : Nat) (x : Nat × Bool), tbl[i]? = some x → x.2 = false → x.1 = i

theorem buildTable_inv (n : Nat) (accepted : List (Nat × Nat)) : TblInv n (buildTable n accepted) := by
  unfold buildTable
  apply foldl_inv (TblInv n)
  · intro tbl ab _ h
    have h1 := h.le ab.1
    have h2 := h.le ab.2
    refine ⟨by simp [h.len], ?_, ?_⟩
    · intro i
      rw [tblIdx_set, tblIdx_set]
      simp only [List.length_set]
      split_ifs with c1 c2
      · have := Nat.min_le_right (tblIdx tbl ab.1) (tblIdx tbl ab.2); omega
      · have := Nat.min_le_left (tblIdx tbl ab.1) (tblIdx tbl ab.2); omega
      · exact h.le i
    · intro i x hx hf
      rcases getElem?_set_some hx with ⟨_, rfl⟩ | ⟨_, hx⟩
      · simp at hf
      · rcases getElem?_set_some hx with ⟨_, rfl⟩ | ⟨_, hx⟩
        · simp at hf
        · exact h.unmoved i x hx hf
  · refine ⟨by simp, ?_, ?_⟩
    · intro i
      unfold tblIdx
      rw [List.getElem?_map]
      by_cases hi : i < n
      · simp [List.getElem?_range hi]
      · simp [List.getElem?_eq_none (show (List.range n).length ≤ i by simp; omega)]
    · intro i x hx _
      rw [List.getElem?_map] at hx
      by_cases hi : i < n
      · rw [List.getElem?_range hi] at hx
        simp at hx; rw [← hx]
      · rw [List.getElem?_eq_none (show (List.range n).length ≤ i by simp; omega)] at hx
        simp at hx

/-! ### tracing a remapped index to its final point -/

theorem tblIdx_modify_idx (tbl : RemapTable) (orig v : Nat) (j : Nat) :
    tblIdx (tbl.modify orig fun x => (v, x.2)) j = if j = orig ∧ orig < tbl.length then v else tblIdx tbl j := by
  unfold tblIdx
  rw [List.getElem?_modify]
  by_cases hji : j = orig
  · subst hji
    by_cases hl : j < tbl.length
    · simp [hl, List.getElem?_eq_getElem hl]
    · simp [hl, List.getElem?_eq_none (Nat.le_of_not_lt hl)]
  · have : ¬ orig = j := fun h => hji h.symm
    cases h : tbl[j]? <;> simp [hji, this]

/-- the chain followed by `traceRoot` descends, so it ends at a fixed point before the fuel runs out -/
theorem traceRoot_spec (orig : Nat) : ∀ (fuel : Nat) (tbl : RemapTable) (newIdx : Nat),
    orig < tbl.length → newIdx < orig → newIdx < fuel → (∀ i, tblIdx tbl i ≤ i) → tblIdx tbl orig = newIdx →
    let r := traceRoot orig fuel tbl newIdx
    r.1.length = tbl.length ∧ (∀ i, i ≠ orig → r.1[i]? = tbl[i]?) ∧ tblIdx r.1 orig = r.2 ∧
      tblIdx tbl r.2 = r.2 ∧ r.2 ≤ newIdx ∧
      (∀ x : Nat × Bool, tbl[orig]? = some x → ∃ y : Nat × Bool, r.1[orig]? = some y ∧ y.2 = x.2) := by
  intro fuel
  induction fuel with
  | zero => intro tbl newIdx _ _ h; omega
  | succ fuel ih =>
    intro tbl newIdx ho hn hf hle horig
    unfold traceRoot
    simp only
    split_ifs with hc
    · exact ⟨rfl, fun _ _ => rfl, horig, hc, Nat.le_refl _, fun x hx => ⟨x, hx, rfl⟩⟩
    · have hlt : tblIdx tbl newIdx < newIdx := by
        have := hle newIdx; omega
      set tbl' := tbl.modify orig fun x => (tblIdx tbl newIdx, x.2) with htbl'
      have hlen' : tbl'.length = tbl.length := by simp [htbl']
      have hidx' : ∀ j, tblIdx tbl' j = if j = orig then tblIdx tbl newIdx else tblIdx tbl j := by
        intro j; rw [htbl', tblIdx_modify_idx]; simp [ho]
      have := ih tbl' (tblIdx tbl newIdx) (by omega) (by omega) (by omega)
        (by intro i; rw [hidx']; split_ifs with hi
            · subst hi; omega
            · exact hle i)
        (by rw [hidx']; simp)
      simp only at this
      obtain ⟨r1, r2, r3, r4, r5, r6⟩ := this
      refine ⟨by rw [r1, hlen'], ?_, r3, ?_, by omega, ?_⟩
      · intro i hi
        rw [r2 i hi, htbl', List.getElem?_modify]
        have : ¬ orig = i := fun h => hi h.symm
        cases tbl[i]? <;> simp [this]
      · rw [hidx'] at r4
        split_ifs at r4 with hh
        · omega
        · exact r4
      · intro x hx
        have : tbl'[orig]? = some (tblIdx tbl newIdx, x.2) := by
          rw [htbl', List.getElem?_modify, hx]; simp
        obtain ⟨y, hy1, hy2⟩ := r6 _ this
        exact ⟨y, hy1, hy2⟩

/-! ### the loop that moves the edges of remapped points -/

/-- where the following-edge slot `(e.endIdx, e.fol)` of the original graph is to be found once the points below `k` were processed -/
def slotOf (tbl : RemapTable) (offs : List Nat) (k : Nat) (e : Edge) : Nat × Nat :=
  if e.endIdx < k ∧ tblIdx tbl e.endIdx ≠ e.endIdx then (tblIdx tbl e.endIdx, e.fol + offs.getD e.endIdx 0)
  else (e.endIdx, e.fol)

def vq (tbl : RemapTable) (offs : List Nat) (k p f : Nat) (e : Edge) : Bool := decide (slotOf tbl offs k e = (p, f))

/-- where the lists of original point `t` are once the points below `k` were processed -/
def loc (tbl : RemapTable) (k t : Nat) : Nat := if t < k then tblIdx tbl t else t

structure MoveInv (g : Graph) (k : Nat) (st : MoveState) : Prop where
  tblInv : TblInv g.length st.tbl
  lenG : st.g.length = g.length
  lenO : st.offs.length = g.length
  fixed : ∀ i, i < k → tblIdx st.tbl (tblIdx st.tbl i) = tblIdx st.tbl i
  endValid : ∀ a, ∀ e ∈ edgesAt st.g a, e.endIdx < g.length
  virt : ∀ p f, p < g.length → cntP (vq st.tbl st.offs k p f) st.g = if f < (edgesAt st.g p).length then 1 else 0
  emptied : ∀ x, x < k → tblIdx st.tbl x ≠ x → edgesAt st.g x = [] ∧ connAt st.g x = []
  edgesTo : ∀ t e, e ∈ edgesAt g t → e ∈ edgesAt st.g (loc st.tbl k t)
  edgesFrom : ∀ a e, e ∈ edgesAt st.g a → ∃ t, loc st.tbl k t = a ∧ e ∈ edgesAt g t
  connTo : ∀ t c, c ∈ connAt g t → c ∈ connAt st.g (loc st.tbl k t)
  connFrom : ∀ a c, c ∈ connAt st.g a → ∃ t, loc st.tbl k t = a ∧ c ∈ connAt g t
  cnt : ∀ q, cntP q st.g = cntP q g

theorem MoveInv.init {g : Graph} (h : FolWf g) (accepted : List (Nat × Nat)) :
    MoveInv g 0 { tbl := buildTable g.length accepted, g := g, offs := List.replicate g.length 0 } := by
  refine ⟨buildTable_inv _ _, rfl, by simp, by intro i hi; omega, h.endValid, ?_, by intro x hx; omega,
    ?_, ?_, ?_, ?_, fun _ => rfl⟩
  · intro p f hp
    have : cntP (vq (buildTable g.length accepted) (List.replicate g.length 0) 0 p f) g = cntP (pointsTo p f) g := by
      apply cntP_congr
      intro a e _
      simp [vq, slotOf, pointsTo]
      rw [Bool.eq_iff_iff]; simp
    simp only
    rw [this, ← slotCount_eq]
    exact h.slot p f hp
  · intro t e he; simpa [loc] using he
  · intro a e he; exact ⟨a, by simp [loc], he⟩
  · intro t c hc; simpa [loc] using hc
  · intro a c hc; exact ⟨a, by simp [loc], hc⟩

theorem moveStep_skip {st : MoveState} {orig : Nat}
    (h : ∀ newIdx, st.tbl[orig]? = some (newIdx, true) → newIdx = orig) : moveStep st orig = st := by
  unfold moveStep
  split
  · rename_i newIdx heq
    rw [if_pos (h newIdx heq)]
  · rfl

theorem moveStep_move {st : MoveState} {orig newIdx : Nat} (h : st.tbl[orig]? = some (newIdx, true)) (hne : newIdx ≠ orig) :
    moveStep st orig =
      let r := traceRoot orig st.tbl.length st.tbl newIdx
      let g := updConn (updEdges st.g orig fun _ => []) orig fun _ => []
      { tbl := r.1, g := updConn (updEdges g r.2 (· ++ edgesAt st.g orig)) r.2 (· ++ connAt st.g orig),
        offs := st.offs.set orig (edgesAt g r.2).length } := by
  unfold moveStep
  split
  · rename_i newIdx' heq
    rw [h] at heq
    cases heq
    rw [if_neg hne]
  · rename_i hno
    exact absurd h (hno newIdx)

/-- moving the lists of point `x` to the end of the lists of point `r` -/
def moveLists (G : Graph) (x r : Nat) : Graph :=
  let g := updConn (updEdges G x fun _ => []) x fun _ => []
  updConn (updEdges g r (· ++ edgesAt G x)) r (· ++ connAt G x)

theorem length_moveLists (G : Graph) (x r : Nat) : (moveLists G x r).length = G.length := by
  simp [moveLists]

theorem edgesAt_moveLists (G : Graph) {x r : Nat} (hx : x < G.length) (hr : r < G.length) (hne : r ≠ x) (p : Nat) :
    edgesAt (moveLists G x r) p = if p = x then [] else if p = r then edgesAt G r ++ edgesAt G x else edgesAt G p := by
  unfold moveLists
  simp only
  rw [edgesAt_updConn, edgesAt_updEdges, edgesAt_updConn, edgesAt_updEdges, edgesAt_updConn, edgesAt_updEdges]
  simp only [length_updConn, length_updEdges, hx, hr, and_true]
  by_cases hpx : p = x
  · subst hpx
    have : ¬ p = r := fun h => hne h.symm
    simp [this]
  · by_cases hpr : p = r
    · subst hpr; simp [hne]
    · simp [hpx, hpr]

theorem connAt_moveLists (G : Graph) {x r : Nat} (hx : x < G.length) (hr : r < G.length) (hne : r ≠ x) (p : Nat) :
    connAt (moveLists G x r) p = if p = x then [] else if p = r then connAt G r ++ connAt G x else connAt G p := by
  unfold moveLists
  simp only
  rw [connAt_updConn, connAt_updEdges, connAt_updConn, connAt_updEdges]
  simp only [length_updConn, length_updEdges, hx, hr, and_true, connAt_updEdges, connAt_updConn]
  by_cases hpx : p = x
  · subst hpx
    have : ¬ p = r := fun h => hne h.symm
    simp [this]
  · by_cases hpr : p = r
    · subst hpr; simp [hne]
    · simp [hpx, hpr]

/-- moving edges between points does not change any count over all edges -/
theorem cntP_moveLists (q : Edge → Bool) (G : Graph) {x r : Nat} (hx : x < G.length) (hr : r < G.length) (hne : r ≠ x) :
    cntP q (moveLists G x r) = cntP q G := by
  unfold moveLists
  simp only
  rw [cntP_updConn]
  have h1 := cntP_updEdges q G x (fun _ => []) hx
  have h2 := cntP_updEdges q (updConn (updEdges G x fun _ => []) x fun _ => []) r (· ++ edgesAt G x) (by simpa using hr)
  rw [cntP_updConn] at h2
  have h3 : edgesAt (updConn (updEdges G x fun _ => []) x fun _ => []) r = edgesAt G r := by
    rw [edgesAt_updConn, edgesAt_updEdges]; simp [hne]
  rw [h3] at h2
  simp only [List.countP_append, List.countP_nil] at h1 h2
  omega

theorem getD_set_self {l : List Nat} {i v : Nat} (h : i < l.length) : (l.set i v).getD i 0 = v := by
  simp [List.getD, h]

theorem getD_set_ne {l : List Nat} {i j v : Nat} (h : j ≠ i) : (l.set i v).getD j 0 = l.getD j 0 := by
  simp only [List.getD, List.getElem?_set]
  have : ¬ i = j := fun hh => h hh.symm
  simp [this]

/-- one iteration of the loop that moves the edges of remapped points keeps the loop invariant -/
theorem MoveInv.step {g : Graph} {k : Nat} {st : MoveState} (h : MoveInv g k st) (hk : k < g.length) :
    MoveInv g (k + 1) (moveStep st k) := by
  have hT := h.tblInv
  have hkT : k < st.tbl.length := by rw [hT.len]; exact hk
  obtain ⟨x0, hx0⟩ : ∃ x0, st.tbl[k]? = some x0 := ⟨st.tbl[k], List.getElem?_eq_getElem hkT⟩
  by_cases hmove : x0.2 = true ∧ x0.1 ≠ k
  · ------------------------------------------------------------------ the point is moved
    obtain ⟨hx2, hx1⟩ := hmove
    have hx0' : st.tbl[k]? = some (x0.1, true) := by rw [hx0, ← hx2]
    have hidx : tblIdx st.tbl k = x0.1 := by unfold tblIdx; rw [hx0]
    have hlt : x0.1 < k := by have := hT.le k; omega
    have hnotfix : tblIdx st.tbl k ≠ k := by omega
    rw [moveStep_move hx0' hx1]
    obtain ⟨t1, t2, t3, t4, t5, t6⟩ := traceRoot_spec k st.tbl.length st.tbl x0.1 hkT hlt (by omega) hT.le hidx
    simp only at t1 t2 t3 t4 t5 t6 ⊢
    generalize traceRoot k st.tbl.length st.tbl x0.1 = R at t1 t2 t3 t4 t5 t6 ⊢
    obtain ⟨T', r⟩ := R
    simp only at t1 t2 t3 t4 t5 t6 ⊢
    have hr_lt : r < k := by omega
    have hr_ne : r ≠ k := by omega
    have hrn : r < st.g.length := by rw [h.lenG]; omega
    have hkn : k < st.g.length := by rw [h.lenG]; exact hk
    have hT'idx : ∀ i, tblIdx T' i = if i = k then r else tblIdx st.tbl i := by
      intro i
      by_cases hi : i = k
      · subst hi; simp [t3]
      · simp only [hi, if_false]; unfold tblIdx; rw [t2 i hi]
    have hgm : updConn (updEdges (updConn (updEdges st.g k fun _ => []) k fun _ => []) r (· ++ edgesAt st.g k)) r
        (· ++ connAt st.g k) = moveLists st.g k r := rfl
    rw [hgm]
    have ha : (edgesAt (updConn (updEdges st.g k fun _ => []) k fun _ => []) r).length = (edgesAt st.g r).length := by
      rw [edgesAt_updConn, edgesAt_updEdges]; simp [hr_ne]
    rw [ha]
    set a := (edgesAt st.g r).length with hadef
    have hE := edgesAt_moveLists st.g hkn hrn hr_ne
    have hC := connAt_moveLists st.g hkn hrn hr_ne
    -- a fixed point of the old table is not k
    have hfix_ne : ∀ v, tblIdx st.tbl v = v → v ≠ k := by
      intro v hv hvk; rw [hvk] at hv; exact hnotfix hv
    have hloc : ∀ t, loc T' (k + 1) t = if t = k then r else loc st.tbl k t := by
      intro t
      unfold loc
      by_cases h1 : t < k
      · have : t ≠ k := by omega
        simp [h1, Nat.lt_succ_of_lt h1, hT'idx, this]
      · by_cases h2 : t = k
        · subst h2; simp [hT'idx]
        · have : ¬ t < k + 1 := by omega
          simp [h1, this, h2]
    have hloc_ne : ∀ t, t ≠ k → loc st.tbl k t ≠ k := by
      intro t htk
      unfold loc
      split_ifs with h1
      · exact hfix_ne _ (h.fixed t h1)
      · exact htk
    refine ⟨⟨by rw [t1]; exact hT.len, ?_, ?_⟩, by rw [length_moveLists]; exact h.lenG, by simp [h.lenO], ?_, ?_, ?_, ?_, ?_, ?_, ?_, ?_,
      fun q => by rw [cntP_moveLists q st.g hkn hrn hr_ne]; exact h.cnt q⟩
    · intro i
      rw [hT'idx]
      split_ifs with hi
      · omega
      · exact hT.le i
    · intro i x hx hf
      by_cases hi : i = k
      · subst hi
        obtain ⟨y, hy1, hy2⟩ := t6 _ hx0
        rw [hx] at hy1; cases hy1
        rw [hy2, hx2] at hf; cases hf
      · rw [t2 i hi] at hx; exact hT.unmoved i x hx hf
    · intro i hi
      show tblIdx T' (tblIdx T' i) = tblIdx T' i
      by_cases hik : i = k
      · subst hik
        rw [t3, hT'idx, if_neg hr_ne]; exact t4
      · have h1 := h.fixed i (by omega)
        rw [hT'idx i, if_neg hik, hT'idx, if_neg (hfix_ne _ h1)]; exact h1
    · intro p e he
      rw [hE] at he
      split_ifs at he with h1 h2
      · simp at he
      · rcases List.mem_append.mp he with he | he
        · exact h.endValid _ e he
        · exact h.endValid _ e he
      · exact h.endValid _ e he
    · ---------------------------------------------------------------- the virtual following-edge structure
      intro p f hp
      rw [cntP_moveLists _ st.g hkn hrn hr_ne]
      have hends : ∀ b, ∀ e ∈ edgesAt st.g b, e.endIdx < st.offs.length := by
        intro b e he; rw [h.lenO]; exact h.endValid b e he
      -- (i) an edge that does not end at k is not addressed at k
      have hi : ∀ e j, e.endIdx ≠ k → slotOf st.tbl st.offs k e ≠ (k, j) := by
        intro e j hek
        unfold slotOf
        split_ifs with hc
        · intro hh
          have := (Prod.mk.inj hh).1
          exact hfix_ne _ (h.fixed _ hc.1) this
        · intro hh; exact hek (Prod.mk.inj hh).1
      -- (ii) an edge that ends at k is still addressed where it was
      have hii : ∀ e, e.endIdx = k → slotOf st.tbl st.offs k e = (k, e.fol) := by
        intro e hek
        unfold slotOf
        rw [if_neg (by rw [hek]; omega), hek]
      have hq : ∀ b, ∀ e ∈ edgesAt st.g b, vq T' (st.offs.set k a) (k + 1) p f e =
          ((decide (e.endIdx ≠ k) && vq st.tbl st.offs k p f e) || (decide (e.endIdx = k) && decide (r = p ∧ e.fol + a = f))) := by
        intro b e he
        have hel := hends b e he
        by_cases hek : e.endIdx = k
        · simp only [vq, slotOf, hek, hT'idx, if_true]
          rw [if_pos ⟨by omega, hr_ne⟩, getD_set_self (by rw [← hek]; exact hel)]
          simp [Prod.mk.injEq]
        · simp only [vq, slotOf, hT'idx, if_neg hek, getD_set_ne hek]
          have : e.endIdx < k + 1 ↔ e.endIdx < k := by omega
          simp [this, hek]
      rw [cntP_congr hq, cntP_or_disjoint _ _ _ (by intro x; simp; intro h1 _ h2; exact absurd h2 h1)]
      have hfirst : cntP (fun e => decide (e.endIdx ≠ k) && vq st.tbl st.offs k p f e) st.g =
          if p = k then 0 else if f < (edgesAt st.g p).length then 1 else 0 := by
        split_ifs with hpk hfl
        · apply cntP_eq_zero
          intro b e _
          by_cases hek : e.endIdx = k
          · simp [hek]
          · have := hi e f hek
            simp [vq, hpk, this]
        · rw [← if_pos hfl (t := 1) (e := 0), ← h.virt p f hp]
          apply cntP_congr
          intro b e _
          by_cases hek : e.endIdx = k
          · have := hii e hek
            simp only [vq, this, hek]
            have : ¬ k = p := fun hh => hpk hh.symm
            simp [this]
          · simp [hek]
        · rw [← if_neg hfl (t := 1) (e := 0), ← h.virt p f hp]
          apply cntP_congr
          intro b e _
          by_cases hek : e.endIdx = k
          · have := hii e hek
            simp only [vq, this, hek]
            have : ¬ k = p := fun hh => hpk hh.symm
            simp [this]
          · simp [hek]
      have hsecond : cntP (fun e => decide (e.endIdx = k) && decide (r = p ∧ e.fol + a = f)) st.g =
          if p = r ∧ a ≤ f ∧ f - a < (edgesAt st.g k).length then 1 else 0 := by
        by_cases hc : p = r ∧ a ≤ f
        · have : cntP (fun e => decide (e.endIdx = k) && decide (r = p ∧ e.fol + a = f)) st.g =
              cntP (vq st.tbl st.offs k k (f - a)) st.g := by
            apply cntP_congr
            intro b e _
            by_cases hek : e.endIdx = k
            · have := hii e hek
              simp only [vq, this, hek, Prod.mk.injEq, true_and, decide_true, Bool.true_and]
              rw [Bool.eq_iff_iff]; simp; omega
            · have := hi e (f - a) hek
              simp [vq, this, hek]
          rw [this, h.virt k (f - a) hk]
          split_ifs <;> first | rfl | (exfalso; omega) | (exfalso; tauto)
        · rw [if_neg (by intro hh; exact hc ⟨hh.1, hh.2.1⟩)]
          apply cntP_eq_zero
          intro b e _
          simp only [Bool.and_eq_false_imp, decide_eq_true_eq, decide_eq_false_iff_not]
          intro _ hh
          exact hc ⟨hh.1.symm, by omega⟩
      rw [hfirst, hsecond, hE]
      by_cases hpk : p = k
      · subst hpk
        have : ¬ p = r := fun hh => hr_ne hh.symm
        simp [this]
      · by_cases hpr : p = r
        · subst hpr
          simp only [hpk, if_false, if_true, true_and, List.length_append]
          rw [← hadef]
          split_ifs <;> omega
        · simp [hpk, hpr]
    · intro x hx hne
      rw [hT'idx] at hne
      by_cases hxk : x = k
      · subst hxk
        rw [hE, hC]; simp
      · rw [if_neg hxk] at hne
        have hxr : x ≠ r := fun hh => hne (hh ▸ t4)
        rw [hE, hC, if_neg hxk, if_neg hxr, if_neg hxk, if_neg hxr]
        exact h.emptied x (by omega) hne
    · intro t e he
      have h1 := h.edgesTo t e he
      rw [hloc, hE]
      by_cases htk : t = k
      · subst htk
        have : loc st.tbl t t = t := by simp [loc]
        rw [this] at h1
        simp [hr_ne, h1]
      · rw [if_neg htk, if_neg (hloc_ne t htk)]
        split_ifs with hlr
        · exact List.mem_append_left _ (hlr ▸ h1)
        · exact h1
    · intro b e he
      rw [hE] at he
      split_ifs at he with hbk hbr
      · simp at he
      · rcases List.mem_append.mp he with he | he
        · obtain ⟨t, ht, het⟩ := h.edgesFrom _ e he
          have htk : t ≠ k := by
            intro hh; subst hh
            simp [loc] at ht; omega
          exact ⟨t, by rw [hloc, if_neg htk, ht, hbr], het⟩
        · obtain ⟨t, ht, het⟩ := h.edgesFrom _ e he
          have htk : t = k := by
            by_contra hh; exact hloc_ne t hh ht
          exact ⟨t, by rw [hloc, if_pos htk, hbr], het⟩
      · obtain ⟨t, ht, het⟩ := h.edgesFrom _ e he
        have htk : t ≠ k := by
          intro hh; subst hh
          simp [loc] at ht; exact hbk ht.symm
        exact ⟨t, by rw [hloc, if_neg htk, ht], het⟩
    · intro t c hc
      have h1 := h.connTo t c hc
      rw [hloc, hC]
      by_cases htk : t = k
      · subst htk
        have : loc st.tbl t t = t := by simp [loc]
        rw [this] at h1
        simp [hr_ne, h1]
      · rw [if_neg htk, if_neg (hloc_ne t htk)]
        split_ifs with hlr
        · exact List.mem_append_left _ (hlr ▸ h1)
        · exact h1
    · intro b c hc
      rw [hC] at hc
      split_ifs at hc with hbk hbr
      · simp at hc
      · rcases List.mem_append.mp hc with hc | hc
        · obtain ⟨t, ht, hct⟩ := h.connFrom _ c hc
          have htk : t ≠ k := by
            intro hh; subst hh
            simp [loc] at ht; omega
          exact ⟨t, by rw [hloc, if_neg htk, ht, hbr], hct⟩
        · obtain ⟨t, ht, hct⟩ := h.connFrom _ c hc
          have htk : t = k := by
            by_contra hh; exact hloc_ne t hh ht
          exact ⟨t, by rw [hloc, if_pos htk, hbr], hct⟩
      · obtain ⟨t, ht, hct⟩ := h.connFrom _ c hc
        have htk : t ≠ k := by
          intro hh; subst hh
          simp [loc] at ht; exact hbk ht.symm
        exact ⟨t, by rw [hloc, if_neg htk, ht], hct⟩
  · ------------------------------------------------------------------ the point stays: nothing changes
    have hfix : tblIdx st.tbl k = k := by
      unfold tblIdx; rw [hx0]; simp only
      by_cases h2 : x0.2 = true
      · by_contra hne; exact hmove ⟨h2, hne⟩
      · exact hT.unmoved k x0 hx0 (by simpa using h2)
    have hskip : moveStep st k = st := moveStep_skip (by
      intro newIdx heq
      rw [hx0] at heq; cases heq
      by_contra hne; exact hmove ⟨rfl, hne⟩)
    rw [hskip]
    have hloc : ∀ t, loc st.tbl (k + 1) t = loc st.tbl k t := by
      intro t; unfold loc
      by_cases h1 : t < k
      · simp [h1, Nat.lt_succ_of_lt h1]
      · by_cases h2 : t = k
        · subst h2; simp [hfix]
        · have : ¬ t < k + 1 := by omega
          simp [h1, this]
    have hslot : ∀ e, slotOf st.tbl st.offs (k + 1) e = slotOf st.tbl st.offs k e := by
      intro e; unfold slotOf
      by_cases h2 : e.endIdx = k
      · rw [h2]; simp [hfix]
      · have : e.endIdx < k + 1 ↔ e.endIdx < k := by omega
        simp [this]
    refine ⟨hT, h.lenG, h.lenO, ?_, h.endValid, ?_, ?_, ?_, ?_, ?_, ?_, h.cnt⟩
    · intro i hi
      by_cases h2 : i = k
      · subst h2; rw [hfix, hfix]
      · exact h.fixed i (by omega)
    · intro p f hp
      have : vq st.tbl st.offs (k + 1) p f = vq st.tbl st.offs k p f := by funext e; simp [vq, hslot]
      rw [this]; exact h.virt p f hp
    · intro x hx hne
      by_cases h2 : x = k
      · subst h2; exact absurd hfix hne
      · exact h.emptied x (by omega) hne
    · intro t e he; rw [hloc]; exact h.edgesTo t e he
    · intro a e he; obtain ⟨t, ht, het⟩ := h.edgesFrom a e he; exact ⟨t, by rw [hloc]; exact ht, het⟩
    · intro t c hc; rw [hloc]; exact h.connTo t c hc
    · intro a c hc; obtain ⟨t, ht, hct⟩ := h.connFrom a c hc; exact ⟨t, by rw [hloc]; exact ht, hct⟩

theorem foldl_range_inv {β : Type} (P : Nat → β → Prop) (f : β → Nat → β) (n : Nat) (init : β) (h0 : P 0 init)
    (hs : ∀ k b, k < n → P k b → P (k + 1) (f b k)) : P n ((List.range n).foldl f init) := by
  induction n with
  | zero => simpa using h0
  | succ n ih =>
    rw [List.range_succ, List.foldl_append]
    simp only [List.foldl_cons, List.foldl_nil]
    exact hs n _ (by omega) (ih (fun k b hk hp => hs k b (by omega) hp))

/-! ### retargeting (the second remapping loop) -/

/-- the edge part of `retargetPoint` -/
def retargetEdge (tbl : RemapTable) (offs : List Nat) (e : Edge) : Edge :=
  let newEnd := tblIdx tbl e.endIdx
  if newEnd ≠ e.endIdx then { e with endIdx := newEnd, fol := e.fol + offs.getD e.endIdx 0 } else e

/-- the `connected_from` part of `retargetPoint` -/
def retargetConn (tbl : RemapTable) (c : List Nat) : List Nat :=
  let conn := c.map (tblIdx tbl)
  let remapped := conn != c
  if remapped || c.length > 1 then dedupAdj (sortNat conn) else conn

theorem retarget_eq (tbl : RemapTable) (offs : List Nat) (g : Graph) :
    g.map (retargetPoint tbl offs) = mapPts (retargetEdge tbl offs) (retargetConn tbl) g := rfl

theorem retargetEdge_end (tbl : RemapTable) (offs : List Nat) (e : Edge) :
    (retargetEdge tbl offs e).endIdx = tblIdx tbl e.endIdx := by
  unfold retargetEdge
  simp only
  split_ifs with h
  · rfl
  · simp only [ne_eq, not_not] at h; exact h.symm

theorem retargetEdge_slot (tbl : RemapTable) (offs : List Nat) (n : Nat) (e : Edge) (he : e.endIdx < n) :
    ((retargetEdge tbl offs e).endIdx, (retargetEdge tbl offs e).fol) = slotOf tbl offs n e := by
  unfold retargetEdge slotOf
  simp only
  split_ifs with h1 h2 h2
  · rfl
  · exact absurd ⟨he, h1⟩ h2
  · exact absurd h2.2 h1
  · rfl

theorem mem_retargetConn (tbl : RemapTable) (c : List Nat) (x : Nat) :
    x ∈ retargetConn tbl c ↔ x ∈ c.map (tblIdx tbl) := by
  unfold retargetConn
  simp only
  split_ifs
  · exact mem_sortDedup _ _
  · rfl

theorem nodup_retargetConn (tbl : RemapTable) (c : List Nat) : (retargetConn tbl c).Nodup := by
  unfold retargetConn
  simp only
  split_ifs with h
  · exact nodup_sortDedup _
  · simp only [Bool.or_eq_true, bne_iff_ne, ne_eq, decide_eq_true_eq, not_or, not_not] at h
    rw [h.1]
    have : c.length ≤ 1 := by omega
    match c, this with
    | [], _ => exact List.nodup_nil
    | [a], _ => exact List.nodup_singleton a

/-- `combine_overlapping_points` keeps the invariant, whichever nearby pairs are merged (in any order, chained, repeated,
connected by an edge or not) -/
theorem combine_wf {g : Graph} (h : Wf g) (any : Bool) (accepted : List (Nat × Nat)) :
    Wf (combine g any accepted) ∧ (combine g any accepted).length = g.length ∧
      (ConnExact g → ConnExact (combine g any accepted)) := by
  unfold combine
  split_ifs with hany
  · exact ⟨h, rfl, id⟩
  · simp only
    have hinv := foldl_range_inv (fun k st => MoveInv g k st) moveStep g.length
      { tbl := buildTable g.length accepted, g := g, offs := List.replicate g.length 0 }
      (MoveInv.init h.fol accepted) (fun k st hk hp => hp.step hk)
    generalize (List.range g.length).foldl moveStep
      { tbl := buildTable g.length accepted, g := g, offs := List.replicate g.length 0 } = st at hinv ⊢
    rw [retarget_eq]
    have hT := hinv.tblInv
    have hidx_lt : ∀ i, i < g.length → tblIdx st.tbl i < g.length := by
      intro i hi; have := hT.le i; omega
    have hloc : ∀ t, t < g.length → loc st.tbl g.length t = tblIdx st.tbl t := by
      intro t ht; simp [loc, ht]
    have hconnF : ∀ a, connAt (mapPts (retargetEdge st.tbl st.offs) (retargetConn st.tbl) st.g) a =
        if a < g.length then retargetConn st.tbl (connAt st.g a) else [] := by
      intro a; rw [connAt_mapPts, hinv.lenG]
    refine ⟨⟨⟨?_, ?_⟩, ⟨?_, ?_, ?_⟩⟩, by rw [length_mapPts]; exact hinv.lenG, ?_⟩
    · intro a e he
      rw [edgesAt_mapPts, List.mem_map] at he
      obtain ⟨e0, he0, rfl⟩ := he
      rw [retargetEdge_end, length_mapPts, hinv.lenG]
      exact hidx_lt _ (hinv.endValid a e0 he0)
    · intro p f hp
      rw [length_mapPts, hinv.lenG] at hp
      rw [slotCount_eq, cntP_mapPts, edgesAt_mapPts, List.length_map, ← hinv.virt p f hp]
      apply cntP_congr
      intro a e he
      have := retargetEdge_slot st.tbl st.offs g.length e (hinv.endValid a e he)
      simp only [Function.comp, pointsTo, vq, ← this, Prod.mk.injEq]
      rw [Bool.eq_iff_iff]; simp
    · intro a x hx
      rw [hconnF] at hx
      rw [length_mapPts, hinv.lenG]
      split_ifs at hx with ha
      · rw [mem_retargetConn, List.mem_map] at hx
        obtain ⟨c, hc, rfl⟩ := hx
        obtain ⟨t, _, hct⟩ := hinv.connFrom a c hc
        exact hidx_lt c (h.conn.valid t c hct)
      · simp at hx
    · intro a
      rw [hconnF]
      split_ifs
      · exact nodup_retargetConn _ _
      · exact List.nodup_nil
    · intro a e he
      rw [edgesAt_mapPts, List.mem_map] at he
      obtain ⟨e0, he0, rfl⟩ := he
      obtain ⟨t, hta, het⟩ := hinv.edgesFrom a e0 he0
      have htn := mem_edgesAt_lt het
      rw [hloc t htn] at hta
      have hen := h.fol.endValid t e0 het
      have h1 := hinv.connTo e0.endIdx t (h.conn.complete t e0 het)
      rw [hloc _ hen] at h1
      rw [retargetEdge_end, hconnF, if_pos (hidx_lt _ hen), mem_retargetConn, List.mem_map]
      exact ⟨t, h1, hta⟩
    · intro hex a x hx
      rw [hconnF] at hx
      split_ifs at hx with ha
      · rw [mem_retargetConn, List.mem_map] at hx
        obtain ⟨c, hc, rfl⟩ := hx
        obtain ⟨t, hta, hct⟩ := hinv.connFrom a c hc
        have htn := mem_connAt_lt hct
        rw [hloc t htn] at hta
        obtain ⟨e, he, het⟩ := hex t c hct
        have hcn := h.conn.valid t c hct
        have h1 := hinv.edgesTo c e he
        rw [hloc c hcn] at h1
        refine ⟨retargetEdge st.tbl st.offs e, ?_, ?_⟩
        · rw [edgesAt_mapPts, List.mem_map]; exact ⟨e, h1, rfl⟩
        · rw [retargetEdge_end, het, hta]
      · simp at hx

/-- number of edges carrying label `l` -/
def labelCount (g : Graph) (l : Nat) : Nat := cntP (fun e => e.label == l) g

theorem retargetEdge_label (tbl : RemapTable) (offs : List Nat) (e : Edge) : (retargetEdge tbl offs e).label = e.label := by
  unfold retargetEdge; simp only; split_ifs <;> rfl

/-- merging points moves edges but never relabels, adds or drops one -/
theorem combine_labelCount {g : Graph} (h : Wf g) (any : Bool) (accepted : List (Nat × Nat)) (l : Nat) :
    labelCount (combine g any accepted) l = labelCount g l := by
  unfold combine
  split_ifs with hany
  · rfl
  · simp only
    have hinv := foldl_range_inv (fun k st => MoveInv g k st) moveStep g.length
      { tbl := buildTable g.length accepted, g := g, offs := List.replicate g.length 0 }
      (MoveInv.init h.fol accepted) (fun k st hk hp => hp.step hk)
    generalize (List.range g.length).foldl moveStep
      { tbl := buildTable g.length accepted, g := g, offs := List.replicate g.length 0 } = st at hinv ⊢
    rw [retarget_eq]
    unfold labelCount
    rw [cntP_mapPts, ← hinv.cnt]
    apply cntP_congr
    intro a e _
    simp [Function.comp, retargetEdge_label]

end Model.Graph
