import FloVerif.Lemmas.GraphCheck
/-! C03 helper lemmas, part 6: labels through the dividing stage. -/
set_option linter.unusedSectionVars false
set_option linter.unusedVariables false
set_option linter.unusedSimpArgs false
namespace Model.Graph

theorem labelCount_splitStep {g : Graph} {prev : Nat × Nat} {last x f0 : Nat} (h : SplitInv g prev last x f0)
    (label kind q l : Nat) :
    labelCount (splitStep label kind ⟨g, prev, last⟩ q).g l = labelCount g l + (if label = l then 1 else 0) := by
  obtain ⟨pe, hpe, _⟩ := h.prevEdge
  unfold labelCount splitStep
  simp only
  rw [cntP_pushEdge _ _ _ _ (by simpa using h.lastLt)]
  have := cntP_updEdge (fun e => e.label == l) g prev.1 prev.2 (fun e => { e with fol := (edgesAt g last).length }) pe hpe
  simp only at this
  simp only [beq_iff_eq]
  omega

theorem labelCount_split_fold {x f0 : Nat} (label kind l : Nat) (qs : List Nat) :
    ∀ (st : SplitState), SplitInv st.g st.prev st.last x f0 → (∀ q ∈ qs, q < st.g.length) →
      labelCount (qs.foldl (splitStep label kind) st).g l = labelCount st.g l + (if label = l then qs.length else 0) := by
  induction qs with
  | nil => intro st _ _; simp
  | cons q qs ih =>
    intro st h hq
    obtain ⟨g, prev, last⟩ := st
    have h' : SplitInv g prev last x f0 := h
    have hs := h'.step label kind q (hq q (by simp))
    have hl := length_splitStep label kind ⟨g, prev, last⟩ q
    have := ih (splitStep label kind ⟨g, prev, last⟩ q) (by simpa [splitStep] using hs)
      (by intro q' hq'; rw [hl]; exact hq q' (by simp [hq']))
    have e1 := labelCount_splitStep h' label kind q l
    simp only [List.foldl_cons, List.length_cons]
    rw [this, e1]
    show labelCount g l + _ + _ = labelCount g l + _
    split_ifs <;> omega

/-- dividing an edge at `k` points adds `k` edges, all with the label of the divided edge; no other edge changes its label -/
theorem labelCount_splitEdgeS {g : Graph} (h : FolWf g) (p e : Nat) (qs : List Nat) (hqs : ∀ q ∈ qs, q < g.length) (l : Nat) :
    labelCount (splitEdgeS g p e qs) l = labelCount g l +
      (match edgeAt g p e with | some ed => if ed.label = l then qs.length else 0 | none => 0) := by
  unfold splitEdgeS
  cases he : edgeAt g p e with
  | none => simp
  | some ed =>
    cases qs with
    | nil => simp
    | cons q rest =>
      simp only
      have hq := hqs q (by simp)
      have h0 := SplitInv.init h he q (edgesAt g q).length hq
      have hrest : ∀ q' ∈ rest, q' < (updEdge g p e fun x => { x with endIdx := q, fol := (edgesAt g q).length }).length := by
        intro q' hq'; simp only [length_updEdge]; exact hqs q' (by simp [hq'])
      have hf := SplitInv.fold (x := ed.endIdx) (f0 := ed.fol) ed.label ed.kind rest
        ⟨updEdge g p e fun x => { x with endIdx := q, fol := (edgesAt g q).length }, (p, e), q⟩ h0 hrest
      have hlab := labelCount_split_fold (x := ed.endIdx) (f0 := ed.fol) ed.label ed.kind l rest
        ⟨updEdge g p e fun x => { x with endIdx := q, fol := (edgesAt g q).length }, (p, e), q⟩ h0 hrest
      obtain ⟨pe, hpe, _⟩ := hf.1.prevEdge
      generalize rest.foldl (splitStep ed.label ed.kind)
        ⟨updEdge g p e fun x => { x with endIdx := q, fol := (edgesAt g q).length }, (p, e), q⟩ = st at hf hlab hpe ⊢
      have c0 := cntP_updEdge (fun x => x.label == l) g p e (fun x => { x with endIdx := q, fol := (edgesAt g q).length }) ed he
      have c1 := cntP_updEdge (fun x => x.label == l) st.g st.prev.1 st.prev.2
        (fun x => { x with fol := (edgesAt st.g st.last).length }) pe hpe
      unfold labelCount at hlab ⊢
      rw [cntP_pushEdge _ _ _ _ (by simpa using hf.1.lastLt)]
      simp only [beq_iff_eq, List.length_cons] at c0 c1 hlab ⊢
      split_ifs at hlab ⊢ <;> omega

section Stage
variable {K : Type} [LT K] [LE K] [DecidableLT K] [DecidableLE K] [OfNat K 0] [OfNat K 1]

/-- the dividing stage never introduces a label: a label no edge carried before is carried by no edge afterwards -/
theorem splitStage_no_new_label {g : Graph} (h : FolWf g) (cs : List (Collision K))
    (hcs : ∀ c ∈ cs, c.p1 < g.length ∧ c.p2 < g.length) (l : Nat) (hl : labelCount g l = 0) :
    labelCount (splitStage g cs) l = 0 := by
  show labelCount (splitAll (createCollisionPoints g cs).1 (organize (createCollisionPoints g cs).1 (createCollisionPoints g cs).2)) l = 0
  have h1 := createCollisionPoints_spec h cs hcs
  -- creating the collision points adds no edge
  have hcp : labelCount (createCollisionPoints g cs).1 l = 0 := by
    unfold createCollisionPoints
    apply foldl_inv (fun st : Graph × List (Collision K × Nat) => labelCount st.1 l = 0)
    · intro st c _ hst
      split_ifs
      · exact hst
      · exact hst
      · unfold labelCount at hst ⊢
        simp only
        rw [cntP_append_empty]; exact hst
    · exact hl
  generalize (createCollisionPoints g cs).1 = g1 at h1 hcp ⊢
  generalize (createCollisionPoints g cs).2 = cps at h1 ⊢
  have ht := organize_ok (· < g1.length) g1 cps h1.2.2
  generalize organize g1 cps = tbl at ht ⊢
  unfold splitAll
  have := foldl_inv (fun g' : Graph => (FolWf g' ∧ g'.length = g1.length) ∧ labelCount g' l = 0)
    (fun g rp => match rp.1 with
      | none => g
      | some row => row.zipIdx.foldl (fun g he => if he.1.isEmpty then g else splitEdge g rp.2 he.2 he.1) g)
    tbl.zipIdx g1 ?_ ⟨⟨h1.1, rfl⟩, hcp⟩
  · exact this.2
  · intro g2 rp hrp ⟨⟨w1, w2⟩, w3⟩
    cases hrow : rp.1 with
    | none => exact ⟨⟨w1, w2⟩, w3⟩
    | some row =>
      simp only
      apply foldl_inv (fun g' : Graph => (FolWf g' ∧ g'.length = g1.length) ∧ labelCount g' l = 0)
      · intro g3 he hhe ⟨⟨w4, w5⟩, w6⟩
        split_ifs
        · exact ⟨⟨w4, w5⟩, w6⟩
        · have hmem : rp.1 ∈ tbl := List.fst_mem_of_mem_zipIdx hrp
          have hmem2 : he.1 ∈ row := List.fst_mem_of_mem_zipIdx hhe
          have hq : ∀ x ∈ he.1, x.2 < g3.length := by
            intro x hx; rw [w5]; exact ht rp.1 hmem row hrow he.1 hmem2 x hx
          have hw := splitEdge_folWf w4 rp.2 he.2 he.1 hq
          refine ⟨⟨hw.1, by rw [hw.2, w5]⟩, ?_⟩
          unfold splitEdge
          rw [labelCount_splitEdgeS w4, w6]
          · cases hed : edgeAt g3 rp.2 he.2 with
            | none => rfl
            | some ed =>
              simp only
              split_ifs with hlab
              · -- the divided edge would carry the label
                exfalso
                have : 0 < labelCount g3 l := by
                  unfold labelCount cntP
                  exact List.countP_pos_iff.mpr ⟨ed, mem_allEdges.mpr ⟨_, mem_edgesAt_of_edgeAt hed⟩, by simpa using hlab⟩
                omega
              · rfl
          · intro q hq'
            rw [List.mem_map] at hq'
            obtain ⟨x, hx, rfl⟩ := hq'
            rw [List.mem_filter] at hx
            exact hq x ((mem_sortHits he.1 x).mp hx.1)
      · exact ⟨⟨w1, w2⟩, w3⟩

end Stage

end Model.Graph
