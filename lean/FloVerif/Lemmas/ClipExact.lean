/-
Helper lemmas for C02, part 1: the snapping of `round_y_value` never makes `clip` lose a parameter.

C13 proves `clip_t_sound` with a slack of 0.00001 at either end of the range (the window in which `round_y_value`
moves an ordinate to 0 or 1).  The recursion of `curve_intersects_curve_clip_inner` needs the statement without slack
(an intersection that slips out of a section by 1e-5 of its length is outside the hull of the next section, and
nothing can be said about it any more).  The slack disappears at the level of `clip`:

* `round_y_value` only ever moves an ordinate of [0,1] to 0 or to 1 (`round_y_sharp`), and the values the loop of
  `clip_t` collects are 0, 1, or lie in [0.00001, 0.99999] (`Grid`, `clipLoop_grid`);
* so the upper end of the range can be below a parameter it should contain only if the whole range is `[0,0]`, and the
  lower end above it only if the range is `[1,1]` (`clip_t_exact`);
* and `clip` widens a range of zero length by 0.005 to either side (`clip_keeps_exact`).

Everything here is about the same generated definitions as C13 (`Gen.FatLine`), and reuses its machinery
(`strip_top`, `strip_bottom`, `hull_bracket`, `clipLoop_has`, `clipLoop_tight`, `clipDecide_shape`, the strip theorems).
-/
import FloVerif.Lemmas.FatLine
import FloVerif.Props.C13

set_option linter.unusedSectionVars false
set_option linter.unusedVariables false
namespace ClipExact
open Prelude Gen FatLineLemmas

variable {K : Type} [Field K] [LinearOrder K] [IsStrictOrderedRing K] [Inhabited K]

local instance : FAbs K := ⟨fun a => |a|⟩

/-- the values `clip_t` can collect: 0, 1, or something in [0.00001, 0.99999] -/
def Grid (y : K) : Prop := y = 0 ∨ y = 1 ∨ (1/100000 ≤ y ∧ y ≤ 99999/100000)

theorem grid_zero : Grid (0 : K) := Or.inl rfl
theorem grid_one : Grid (1 : K) := Or.inr (Or.inl rfl)

theorem round_consts : (0.00001 : K) = 1/100000 ∧ (0.001 : K) = 1/1000 ∧ (0.99999 : K) = 99999/100000 ∧
    (1.001 : K) = 1001/1000 := by
  refine ⟨?_, ?_, ?_, ?_⟩ <;> norm_num

/-- `round_y_value` leaves an ordinate of [0,1] alone, or moves one below 0.00001 to 0, or one above 0.99999 to 1 -/
theorem round_y_sharp (y : K) (h0 : 0 ≤ y) (h1 : y ≤ 1) :
    round_y_value y = y ∨ (round_y_value y = 0 ∧ y < 1/100000) ∨ (round_y_value y = 1 ∧ 99999/100000 < y) := by
  obtain ⟨e1, e2, e3, e4⟩ := round_consts (K := K)
  simp only [round_y_value, lit0, lit1, Bool.and_eq_true, decide_eq_true_eq, e1, e2, e3, e4]
  split_ifs with c1 c2
  · exact Or.inr (Or.inl ⟨rfl, c1.1⟩)
  · exact Or.inr (Or.inr ⟨rfl, c2.1⟩)
  · exact Or.inl rfl

/-- whatever its argument: a value of `round_y_value` that passes the `[0,1]` test is on the grid -/
theorem round_y_grid (y : K) (h0 : 0 ≤ round_y_value y) (h1 : round_y_value y ≤ 1) : Grid (round_y_value y) := by
  obtain ⟨e1, e2, e3, e4⟩ := round_consts (K := K)
  simp only [round_y_value, lit0, lit1, Bool.and_eq_true, decide_eq_true_eq, e1, e2, e3, e4] at h0 h1 ⊢
  split_ifs at h0 h1 ⊢ with c1 c2
  · exact grid_zero
  · exact grid_one
  · right; right
    constructor
    · by_contra hlt
      exact c1 ⟨not_le.1 hlt, by linarith⟩
    · by_contra hgt
      exact c2 ⟨not_le.1 hgt, by linarith⟩

/-! ## the loop of `clip_t` only collects grid values -/

section
variable [FConsts K]

/-- loop invariant: each component is still the sentinel, or on the grid -/
def GridInv (st : T2 K K) : Prop :=
  (st.t0 = (fmaxval : K) ∨ Grid st.t0) ∧ (st.t1 = (fminval : K) ∨ Grid st.t1)

theorem inc_grid (c : Bool) (y : K) (st : T2 K K) (hy : c = true → Grid y) (h : GridInv st) : GridInv (inc c y st) := by
  cases c with
  | false => exact h
  | true =>
    have gy := hy rfl
    simp only [inc, fmin_eq_min, fmax_eq_max, if_true, GridInv]
    obtain ⟨ha, hb⟩ := h
    constructor
    · rcases le_total st.t0 y with hle | hle
      · rw [min_eq_left hle]; exact ha
      · rw [min_eq_right hle]; exact Or.inr gy
    · rcases le_total st.t1 y with hle | hle
      · rw [max_eq_right hle]; exact Or.inr gy
      · rw [max_eq_left hle]; exact hb

/-- both results of `solve_line_y` are `none` or a value of `round_y_value` -/
theorem solve_line_y_round (xs : T2 K K) (ps : T2 (V2 K) (V2 K)) :
    (∀ y, (solve_line_y xs ps).t0 = some y → ∃ z, y = round_y_value z) ∧
    (∀ y, (solve_line_y xs ps).t1 = some y → ∃ z, y = round_y_value z) := by
  simp only [solve_line_y]
  constructor
  · intro y hy
    split_ifs at hy
    · exact ⟨_, (Option.some.inj hy).symm⟩
  · intro y hy
    split_ifs at hy
    · exact ⟨_, (Option.some.inj hy).symm⟩

theorem incOpt_grid (o : Option K) (st : T2 K K) (ho : ∀ y, o = some y → ∃ z, y = round_y_value z) (h : GridInv st) :
    GridInv (incOpt o st) := by
  cases o with
  | none => exact h
  | some y =>
    obtain ⟨z, rfl⟩ := ho y rfl
    refine inc_grid _ _ st ?_ h
    intro hc
    simp only [lit0, lit1, Bool.and_eq_true, decide_eq_true_eq] at hc
    exact round_y_grid z hc.1 hc.2

theorem clipStep_grid (dmin dmax : K) (hull : List (V2 K)) (hy : ∀ p ∈ hull, Grid p.y)
    (st : T2 K K) (idx : Nat) (hidx : idx < hull.length) (h : GridInv st) :
    GridInv (clipStep dmin dmax hull st idx) := by
  simp only [clipStep]
  have hpos : 0 < hull.length := lt_of_le_of_lt (Nat.zero_le _) hidx
  have hs := solve_line_y_round (T2.mk dmin dmax) (T2.mk (listGet hull idx) (listGet hull ((idx + 1) % hull.length)))
  refine inc_grid _ _ _ (fun _ => hy _ (listGet_mem hull _ (Nat.mod_lt _ hpos))) ?_
  refine inc_grid _ _ _ (fun _ => hy _ (listGet_mem hull _ hidx)) ?_
  exact incOpt_grid _ _ hs.2 (incOpt_grid _ _ hs.1 h)

theorem clipLoop_grid (fl : FatLineT K) (hull : List (V2 K)) (hy : ∀ p ∈ hull, Grid p.y) :
    GridInv (clipLoop fl hull) := by
  simp only [clipLoop, foldlT]
  refine foldl_inv _ GridInv _ _ ?_ ⟨Or.inl rfl, Or.inl rfl⟩
  intro st i hi h
  simp only [List.mem_range'_1, Nat.sub_zero, Nat.zero_add] at hi
  exact clipStep_grid _ _ hull hy st i hi.2 h

end

/-- the hull vertices of a distance curve have ordinates 0, 1/3, 2/3 or 1: all on the grid -/
theorem hull_grid (fl : FatLineT K) (w1 w2 w3 w4 : V2 K) :
    ∀ p ∈ distance_curve_convex_hull (fat_distance_curve fl w1 w2 w3 w4), Grid p.y := by
  intro p hp
  have h := C13.hull_subset _ p hp
  rw [C13.distance_curve_points] at h
  rcases h with rfl | rfl | rfl | rfl
  · exact grid_zero
  · exact Or.inr (Or.inr ⟨by norm_num, by norm_num⟩)
  · exact Or.inr (Or.inr ⟨by norm_num, by norm_num⟩)
  · exact grid_one

/-! ## the candidates bracket a parameter inside the strip: sharp form -/

section
variable [FConsts K]

/-- sharp form of `crossing_has_min`: the collected ordinate is the crossing itself, or 0 for a crossing below 0.00001,
    or 1 for a crossing above 0.99999 -/
theorem crossing_has_min_sharp (fl : FatLineT K) (hull : List (V2 K)) (hord : ∀ p ∈ hull, 0 ≤ p.y ∧ p.y ≤ 1)
    (l : List (V2 K)) (hedges : ∀ A B, Consec l A B → EdgeOf hull A B) (c : K) (h : Crossing l fl.d_min c) :
    ∃ c', Has (clipLoop fl hull) c' ∧ 0 ≤ c' ∧ c' ≤ 1 ∧
      (c' = c ∨ (c' = 0 ∧ c < 1/100000) ∨ (c' = 1 ∧ 99999/100000 < c)) := by
  obtain ⟨A, B, hc, hne, hlo, hhi, hcA, hcB, rfl⟩ := h
  have he := hedges A B hc
  obtain ⟨mA, mB⟩ := he.mem
  have c0 : 0 ≤ crossY A B fl.d_min := le_trans (hord A mA).1 hcA
  have c1 : crossY A B fl.d_min ≤ 1 := le_trans hcB (hord B mB).2
  obtain ⟨r0, r1, _, _⟩ := round_y_spec _ c0 c1
  refine ⟨round_y_value (crossY A B fl.d_min), ?_, r0, r1, round_y_sharp _ c0 c1⟩
  obtain ⟨i, hi, h⟩ := he
  refine clipLoop_has fl hull i hi _ ?_
  simp only [StepCand]
  left
  refine ⟨?_, r0, r1⟩
  rcases h with ⟨e1, e2⟩ | ⟨e1, e2⟩
  · rw [e1, e2]; exact solve_t0 _ _ A B hlo hhi
  · rw [e1, e2, crossY_symm A B _ hne]
    exact solve_t0 _ _ B A (by rw [min_comm]; exact hlo) (by rw [max_comm]; exact hhi)

/-- … and the same for the upper strip border -/
theorem crossing_has_max_sharp (fl : FatLineT K) (hull : List (V2 K)) (hord : ∀ p ∈ hull, 0 ≤ p.y ∧ p.y ≤ 1)
    (l : List (V2 K)) (hedges : ∀ A B, Consec l A B → EdgeOf hull A B) (c : K) (h : Crossing l fl.d_max c) :
    ∃ c', Has (clipLoop fl hull) c' ∧ 0 ≤ c' ∧ c' ≤ 1 ∧
      (c' = c ∨ (c' = 0 ∧ c < 1/100000) ∨ (c' = 1 ∧ 99999/100000 < c)) := by
  obtain ⟨A, B, hc, hne, hlo, hhi, hcA, hcB, rfl⟩ := h
  have he := hedges A B hc
  obtain ⟨mA, mB⟩ := he.mem
  have c0 : 0 ≤ crossY A B fl.d_max := le_trans (hord A mA).1 hcA
  have c1 : crossY A B fl.d_max ≤ 1 := le_trans hcB (hord B mB).2
  obtain ⟨r0, r1, _, _⟩ := round_y_spec _ c0 c1
  refine ⟨round_y_value (crossY A B fl.d_max), ?_, r0, r1, round_y_sharp _ c0 c1⟩
  obtain ⟨i, hi, h⟩ := he
  refine clipLoop_has fl hull i hi _ ?_
  simp only [StepCand]
  right; left
  refine ⟨?_, r0, r1⟩
  rcases h with ⟨e1, e2⟩ | ⟨e1, e2⟩
  · rw [e1, e2]; exact solve_t1 _ _ A B hlo hhi
  · rw [e1, e2, crossY_symm A B _ hne]
    exact solve_t1 _ _ B A (by rw [min_comm]; exact hlo) (by rw [max_comm]; exact hhi)

/-- sharp form of `bracket_candidates`: the parameter of a curve point inside the strip lies between two collected
    ordinates, except that the upper one may have been snapped to 0 (parameter below 0.00001) and the lower one to 1
    (parameter above 0.99999) -/
theorem bracket_candidates_sharp (fl : FatLineT K) (hull L R : List (V2 K)) (P0 P1 P2 P3 : V2 K)
    (hb : Bracket hull L R P0 P1 P2 P3) (hy0 : P0.y = 0) (hy1 : P1.y = 1/3) (hy2 : P2.y = 2/3) (hy3 : P3.y = 1)
    (hord : ∀ p ∈ hull, 0 ≤ p.y ∧ p.y ≤ 1) (t : K) (h0 : 0 ≤ t) (h1 : t ≤ 1)
    (hin : fl.d_min ≤ bern t P0.x P1.x P2.x P3.x ∧ bern t P0.x P1.x P2.x P3.x ≤ fl.d_max) :
    ∃ cU cL, Has (clipLoop fl hull) cU ∧ Has (clipLoop fl hull) cL ∧ 0 ≤ cU ∧ cU ≤ 1 ∧ 0 ≤ cL ∧ cL ≤ 1 ∧
      (t ≤ cU ∨ (cU = 0 ∧ t < 1/100000)) ∧ (cL ≤ t ∨ (cL = 1 ∧ 99999/100000 < t)) := by
  have s : 0 ≤ 1 - t := by linarith
  have b0 : 0 ≤ (1-t)^3 := by positivity
  have b1 : 0 ≤ 3*(1-t)^2*t := by positivity
  have b2 : 0 ≤ 3*(1-t)*t^2 := by positivity
  have b3 : 0 ≤ t^3 := by positivity
  let Q : V2 K := ⟨bern t P0.x P1.x P2.x P3.x, t⟩
  have hQL : ∀ A B, Consec L A B → chainAt A B Q.y ≤ Q.x * (B.y - A.y) := by
    intro A B hc
    have g0 := hb.halfL A B hc P0 (Or.inl rfl)
    have g1 := hb.halfL A B hc P1 (Or.inr (Or.inl rfl))
    have g2 := hb.halfL A B hc P2 (Or.inr (Or.inr (Or.inl rfl)))
    have g3 := hb.halfL A B hc P3 (Or.inr (Or.inr (Or.inr rfl)))
    have key : Q.x * (B.y - A.y) - chainAt A B Q.y =
        (1-t)^3 * (P0.x * (B.y - A.y) - chainAt A B P0.y) + 3*(1-t)^2*t * (P1.x * (B.y - A.y) - chainAt A B P1.y)
        + 3*(1-t)*t^2 * (P2.x * (B.y - A.y) - chainAt A B P2.y) + t^3 * (P3.x * (B.y - A.y) - chainAt A B P3.y) := by
      simp only [Q, chainAt, bern, hy0, hy1, hy2, hy3]; ring
    have := add_nonneg (add_nonneg (add_nonneg (mul_nonneg b0 (sub_nonneg.2 g0)) (mul_nonneg b1 (sub_nonneg.2 g1)))
      (mul_nonneg b2 (sub_nonneg.2 g2))) (mul_nonneg b3 (sub_nonneg.2 g3))
    linarith
  have hQR : ∀ A B, Consec R A B → Q.x * (B.y - A.y) ≤ chainAt A B Q.y := by
    intro A B hc
    have g0 := hb.halfR A B hc P0 (Or.inl rfl)
    have g1 := hb.halfR A B hc P1 (Or.inr (Or.inl rfl))
    have g2 := hb.halfR A B hc P2 (Or.inr (Or.inr (Or.inl rfl)))
    have g3 := hb.halfR A B hc P3 (Or.inr (Or.inr (Or.inr rfl)))
    have key : chainAt A B Q.y - Q.x * (B.y - A.y) =
        (1-t)^3 * (chainAt A B P0.y - P0.x * (B.y - A.y)) + 3*(1-t)^2*t * (chainAt A B P1.y - P1.x * (B.y - A.y))
        + 3*(1-t)*t^2 * (chainAt A B P2.y - P2.x * (B.y - A.y)) + t^3 * (chainAt A B P3.y - P3.x * (B.y - A.y)) := by
      simp only [Q, chainAt, bern, hy0, hy1, hy2, hy3]; ring
    have := add_nonneg (add_nonneg (add_nonneg (mul_nonneg b0 (sub_nonneg.2 g0)) (mul_nonneg b1 (sub_nonneg.2 g1)))
      (mul_nonneg b2 (sub_nonneg.2 g2))) (mul_nonneg b3 (sub_nonneg.2 g3))
    linarith
  have hQy0 : P0.y ≤ Q.y := by rw [hy0]; exact h0
  have hQy1 : Q.y ≤ P3.y := by rw [hy3]; exact h1
  obtain ⟨cu, hcu, hU⟩ := strip_top L R P0 P3 Q fl.d_min fl.d_max hb.ascL hb.ascR hb.lenL hb.lenR hb.headL hb.headR
    hb.lastL hb.lastR hQL hQR hQy0 hQy1 hin.1 hin.2
  obtain ⟨cl, hcl, hLo⟩ := strip_bottom L R P0 P3 Q fl.d_min fl.d_max hb.ascL hb.ascR hb.lenL hb.lenR hb.headL hb.headR
    hb.lastL hb.lastR hQL hQR hQy0 hQy1 hin.1 hin.2
  have hcu' : t ≤ cu := hcu
  have hcl' : cl ≤ t := hcl
  -- what a (possibly snapped) crossing above `t` gives
  have up : ∀ c' : K, (c' = cu ∨ (c' = 0 ∧ cu < 1/100000) ∨ (c' = 1 ∧ 99999/100000 < cu)) →
      (t ≤ c' ∨ (c' = 0 ∧ t < 1/100000)) := by
    intro c' h
    rcases h with rfl | ⟨e, hlt⟩ | ⟨e, _⟩
    · exact Or.inl hcu'
    · exact Or.inr ⟨e, lt_of_le_of_lt hcu' hlt⟩
    · left; rw [e]; exact h1
  have dn : ∀ c' : K, (c' = cl ∨ (c' = 0 ∧ cl < 1/100000) ∨ (c' = 1 ∧ 99999/100000 < cl)) →
      (c' ≤ t ∨ (c' = 1 ∧ 99999/100000 < t)) := by
    intro c' h
    rcases h with rfl | ⟨e, _⟩ | ⟨e, hgt⟩
    · exact Or.inl hcl'
    · left; rw [e]; exact h0
    · exact Or.inr ⟨e, lt_of_lt_of_le hgt hcl'⟩
  have HU : ∃ cU, Has (clipLoop fl hull) cU ∧ 0 ≤ cU ∧ cU ≤ 1 ∧ (t ≤ cU ∨ (cU = 0 ∧ t < 1/100000)) := by
    rcases hU with ⟨a, b, e⟩ | hcr | hcr
    · refine ⟨P3.y, vertex_has fl hull P3 hb.memT a b, ?_, ?_, ?_⟩
      · rw [hy3]; exact zero_le_one
      · rw [hy3]
      · left; rw [hy3]; exact h1
    · obtain ⟨c', hh, c0, c1, c2⟩ := crossing_has_max_sharp fl hull hord L hb.edgesL cu hcr
      exact ⟨c', hh, c0, c1, up c' c2⟩
    · obtain ⟨c', hh, c0, c1, c2⟩ := crossing_has_min_sharp fl hull hord R hb.edgesR cu hcr
      exact ⟨c', hh, c0, c1, up c' c2⟩
  have HL : ∃ cL, Has (clipLoop fl hull) cL ∧ 0 ≤ cL ∧ cL ≤ 1 ∧ (cL ≤ t ∨ (cL = 1 ∧ 99999/100000 < t)) := by
    rcases hLo with ⟨a, b, e⟩ | hcr | hcr
    · refine ⟨P0.y, vertex_has fl hull P0 hb.memH a b, ?_, ?_, ?_⟩
      · rw [hy0]
      · rw [hy0]; exact zero_le_one
      · left; rw [hy0]; exact h0
    · obtain ⟨c', hh, c0, c1, c2⟩ := crossing_has_max_sharp fl hull hord L hb.edgesL cl hcr
      exact ⟨c', hh, c0, c1, dn c' c2⟩
    · obtain ⟨c', hh, c0, c1, c2⟩ := crossing_has_min_sharp fl hull hord R hb.edgesR cl hcr
      exact ⟨c', hh, c0, c1, dn c' c2⟩
  obtain ⟨cU, u1, u2, u3, u4⟩ := HU
  obtain ⟨cL, l1, l2, l3, l4⟩ := HL
  exact ⟨cU, cL, u1, l1, u2, u3, l2, l3, u4, l4⟩

/-- a range is *lossless* for the parameter `t`: it contains `t`, or it is `[0,0]` with `t` below 0.00001, or `[1,1]`
    with `t` above 0.99999 (the two cases `clip` repairs by widening a range of zero length) -/
def Lossless (r : T2 K K) (t : K) : Prop :=
  (r.t0 ≤ t ∧ t ≤ r.t1) ∨ (r.t0 = 0 ∧ r.t1 = 0 ∧ 0 ≤ t ∧ t < 1/100000) ∨ (r.t0 = 1 ∧ r.t1 = 1 ∧ 99999/100000 < t ∧ t ≤ 1)

/-- CLIP_T, SHARP FORM: a parameter whose curve point lies inside the strip is inside the returned range, unless the range
    is `[0,0]` (parameter below 0.00001) or `[1,1]` (parameter above 0.99999); and the range is a sub-range of [0,1].
    Sentinels: `1 ≤ f64::MAX`, `f64::MIN ≤ 0`. -/
theorem clip_t_exact (hM : 1 ≤ (fmaxval : K)) (hm : (fminval : K) ≤ 0)
    (fl : FatLineT K) (hfl : fl.d_min ≤ fl.d_max) (w1 w2 w3 w4 : V2 K) (t : K) (h0 : 0 ≤ t) (h1 : t ≤ 1)
    (hin : fl.d_min ≤ fat_distance fl (de_casteljau4 t w1 w2 w3 w4) ∧
           fat_distance fl (de_casteljau4 t w1 w2 w3 w4) ≤ fl.d_max) :
    ∃ r, clip_t fl w1 w2 w3 w4 = some r ∧ 0 ≤ r.t0 ∧ r.t0 ≤ r.t1 ∧ r.t1 ≤ 1 ∧ Lossless r t := by
  have hord := C13.hull_ordinates fl w1 w2 w3 w4
  have hgrid := clipLoop_grid fl _ (hull_grid fl w1 w2 w3 w4)
  have htight := clipLoop_tight hM hm fl _ hord
  rw [clip_t_eq]
  rw [C13.distance_curve_points] at hord hgrid htight ⊢
  obtain ⟨L, R, hb⟩ := hull_bracket (fat_distance fl w1) (fat_distance fl w2) (fat_distance fl w3) (fat_distance fl w4)
  rw [C13.distance_affine] at hin
  obtain ⟨cU, cL, hU, hL, u0, u1, l0, l1, hu, hl⟩ :=
    bracket_candidates_sharp fl _ L R _ _ _ _ hb rfl rfl rfl rfl hord t h0 h1 hin
  generalize clipLoop fl _ = st at hU hL hgrid htight ⊢
  -- the loop has seen a candidate, so it is past the sentinels
  have hreal : 0 ≤ st.t0 ∧ st.t0 ≤ st.t1 ∧ st.t1 ≤ 1 := by
    rcases htight with ⟨e0, e1⟩ | h
    · exfalso
      have : (1 : K) ≤ 0 := by
        calc (1 : K) ≤ fmaxval := hM
          _ = st.t0 := e0.symm
          _ ≤ cU := hU.1
          _ ≤ st.t1 := hU.2
          _ = fminval := e1
          _ ≤ 0 := hm
      exact absurd this (not_le.2 zero_lt_one)
    · exact h
  obtain ⟨a0, a1, a2⟩ := hreal
  have g0 : Grid st.t0 := by
    rcases hgrid.1 with e | g
    · have : st.t0 = 1 := le_antisymm (le_trans a1 a2) (by rw [e]; exact hM)
      rw [this]; exact grid_one
    · exact g
  have g1 : Grid st.t1 := by
    rcases hgrid.2 with e | g
    · have : st.t1 = 0 := le_antisymm (by rw [e]; exact hm) (le_trans a0 a1)
      rw [this]; exact grid_zero
    · exact g
  rcases clipDecide_shape hM hm fl _ st (Or.inr ⟨a0, a1, a2⟩) with hn | h01 | ⟨hs, _⟩
  · -- `none` is impossible: the plain soundness theorem already excludes it
    exfalso
    have hle : ¬ (st.t0 > st.t1) := not_lt.2 a1
    have h2 : ¬ st.t0 < 0 := not_lt.2 a0
    have h3 : ¬ st.t0 > 1 := not_lt.2 (le_trans a1 a2)
    simp only [clipDecide, lit0, lit1, decide_eq_true_eq, hle, h2, h3, if_false] at hn
    exact absurd hn (by simp)
  · exact ⟨_, h01, le_rfl, zero_le_one, le_rfl, Or.inl ⟨h0, h1⟩⟩
  · refine ⟨st, hs, a0, a1, a2, ?_⟩
    -- lower end
    have lower : st.t0 ≤ t ∨ (st.t0 = 1 ∧ st.t1 = 1 ∧ 99999/100000 < t) := by
      rcases hl with h | ⟨e, hgt⟩
      · exact Or.inl (le_trans hL.1 h)
      · by_cases hc : st.t0 ≤ t
        · exact Or.inl hc
        · right
          have hlt : t < st.t0 := not_le.1 hc
          have e0 : st.t0 = 1 := by
            rcases g0 with z | o | ⟨_, hi⟩
            · exfalso; rw [z] at hlt; exact absurd h0 (not_le.2 hlt)
            · exact o
            · exfalso; linarith
          exact ⟨e0, le_antisymm a2 (by rw [← e0]; exact a1), hgt⟩
    have upper : t ≤ st.t1 ∨ (st.t0 = 0 ∧ st.t1 = 0 ∧ t < 1/100000) := by
      rcases hu with h | ⟨e, hlt⟩
      · exact Or.inl (le_trans h hU.2)
      · by_cases hc : t ≤ st.t1
        · exact Or.inl hc
        · right
          have hgt : st.t1 < t := not_le.1 hc
          have e1 : st.t1 = 0 := by
            rcases g1 with z | o | ⟨lo, _⟩
            · exact z
            · exfalso; rw [o] at hgt; exact absurd h1 (not_le.2 hgt)
            · exfalso; linarith
          exact ⟨le_antisymm (by rw [← e1]; exact a1) a0, e1, hlt⟩
    rcases lower with hlo | ⟨e0, e1, hgt⟩
    · rcases upper with hup | ⟨z0, z1, hlt⟩
      · exact Or.inl ⟨hlo, hup⟩
      · exact Or.inr (Or.inl ⟨z0, z1, h0, hlt⟩)
    · exact Or.inr (Or.inr ⟨e0, e1, hgt, h1⟩)

end

/-! ## `clip` -/

section
variable [FSqrt K] [FConsts K]

/-- what `clip` does to the range it selected -/
def widen (q : T2 K K) : T2 K K :=
  if q.t0 = q.t1 then T2.mk (max (q.t0 - 0.005) 0) (min (q.t1 + 0.005) 1) else q

theorem widen_lossless (q : T2 K K) (t : K) (h : Lossless q t) (hq0 : 0 ≤ q.t0) (hq1 : q.t1 ≤ 1) :
    (widen q).t0 ≤ t ∧ t ≤ (widen q).t1 := by
  have h5 : (0.005 : K) = 1/200 := by norm_num
  simp only [widen, h5]
  rcases h with ⟨a, b⟩ | ⟨e0, e1, t0, tl⟩ | ⟨e0, e1, tg, t1⟩
  · split_ifs with he
    · simp only
      have ht0 : 0 ≤ t := le_trans hq0 a
      have ht1 : t ≤ 1 := le_trans b hq1
      exact ⟨max_le (by linarith) ht0, le_min (by linarith) ht1⟩
    · exact ⟨a, b⟩
  · rw [if_pos (by rw [e0, e1])]
    simp only [e0, e1]
    exact ⟨max_le (by linarith) t0, le_min (by linarith) (by linarith)⟩
  · rw [if_pos (by rw [e0, e1])]
    simp only [e0, e1]
    exact ⟨max_le (by linarith) (by linarith), le_min (by linarith) t1⟩

theorem widen_range (q : T2 K K) (h0 : 0 ≤ q.t0) (h01 : q.t0 ≤ q.t1) (h1 : q.t1 ≤ 1) :
    0 ≤ (widen q).t0 ∧ (widen q).t0 ≤ (widen q).t1 ∧ (widen q).t1 ≤ 1 := by
  have h5 : (0.005 : K) = 1/200 := by norm_num
  simp only [widen, h5]
  split_ifs with he
  · simp only
    refine ⟨le_max_right _ _, ?_, min_le_right _ _⟩
    exact max_le (le_min (by linarith) (by linarith)) (le_min (by linarith) zero_le_one)
  · exact ⟨h0, h01, h1⟩

/-- the generated `clip` in terms of its two `clip_t` calls and `widen` -/
theorem clip_eq (c1 c2 c3 c4 a1 a2 a3 a4 : V2 K) :
    clip c1 c2 c3 c4 a1 a2 a3 a4 =
      if fat_is_flat (fat_from_curve a1 a2 a3 a4) = true then ClipResult.SecondCurveIsLinear
      else match clip_t (fat_from_curve a1 a2 a3 a4) c1 c2 c3 c4,
                 clip_t (fat_from_curve_perpendicular a1 a2 a3 a4) c1 c2 c3 c4 with
        | some qa, some qb => ClipResult.Some (widen (if qa.t1 - qa.t0 < qb.t1 - qb.t0 then qa else qb))
        | _, _ => ClipResult.None := by
  simp only [clip]
  split
  · rfl
  · cases hA : clip_t (fat_from_curve a1 a2 a3 a4) c1 c2 c3 c4 with
    | none => rfl
    | some qa =>
      cases hB : clip_t (fat_from_curve_perpendicular a1 a2 a3 a4) c1 c2 c3 c4 with
      | none => rfl
      | some qb =>
        simp only [decide_eq_true_eq]
        have key : ∀ q : T2 K K,
            (match ClipResult.Some q with
              | ClipResult.Some { t0 := t1, t1 := t2 } =>
                if (t1 == t2) = true then
                  ClipResult.Some { t0 := fmax (t1 - (0.005 : K)) (0.0 : K), t1 := fmin (t2 + (0.005 : K)) (1.0 : K) }
                else ClipResult.Some { t0 := t1, t1 := t2 }
              | other => other) = ClipResult.Some (widen q) := by
          intro q
          obtain ⟨qa, qb⟩ := q
          simp only [widen, fmin_eq_min, fmax_eq_max, lit0, lit1, beq_iff_eq]
          split_ifs <;> rfl
        split_ifs with hc
        · exact key qa
        · exact key qb

/-- every range `clip` returns is a sub-range of [0,1] (`0 ≤ t1 ≤ t2 ≤ 1`); sentinels `1 ≤ f64::MAX`, `f64::MIN ≤ 0` -/
theorem clip_range (hM : 1 ≤ (fmaxval : K)) (hm : (fminval : K) ≤ 0) (c1 c2 c3 c4 a1 a2 a3 a4 : V2 K) (r : T2 K K)
    (h : clip c1 c2 c3 c4 a1 a2 a3 a4 = ClipResult.Some r) : 0 ≤ r.t0 ∧ r.t0 ≤ r.t1 ∧ r.t1 ≤ 1 := by
  rw [clip_eq] at h
  split_ifs at h
  have shape : ∀ (fl : FatLineT K) (q : T2 K K), clip_t fl c1 c2 c3 c4 = some q → 0 ≤ q.t0 ∧ q.t0 ≤ q.t1 ∧ q.t1 ≤ 1 := by
    intro fl q hq
    rcases C13.clip_t_shape hM hm fl c1 c2 c3 c4 with hn | h01 | ⟨q', hq', a, b, c⟩
    · rw [hn] at hq; exact absurd hq (by simp)
    · rw [h01] at hq; cases hq; exact ⟨le_rfl, zero_le_one, le_rfl⟩
    · rw [hq'] at hq; cases hq; exact ⟨a, b, c⟩
  cases hA : clip_t (fat_from_curve a1 a2 a3 a4) c1 c2 c3 c4 with
  | none => rw [hA] at h; exact absurd h (by simp)
  | some qa =>
    cases hB : clip_t (fat_from_curve_perpendicular a1 a2 a3 a4) c1 c2 c3 c4 with
    | none => rw [hA, hB] at h; exact absurd h (by simp)
    | some qb =>
      rw [hA, hB] at h
      simp only [ClipResult.Some.injEq] at h
      subst h
      obtain ⟨x0, x1, x2⟩ := shape _ qa hA
      obtain ⟨y0, y1, y2⟩ := shape _ qb hB
      split_ifs
      · exact widen_range qa x0 x1 x2
      · exact widen_range qb y0 y1 y2

/-- CLIP NEVER LOSES A MEETING POINT, WITHOUT SLACK.  If the point of the first curve at parameter `t ∈ [0,1]` lies on the
    second curve (at a parameter `s ∈ [0,1]`; end points of the second curve more than 1e-7 apart), then `clip` answers
    `SecondCurveIsLinear`, or a range `0 ≤ t1 ≤ t ≤ t2 ≤ 1`; it does not answer `None`.
    (C13's `clip_keeps_intersections` has a slack of 0.00001 here; the widening of zero-length ranges removes it.) -/
theorem clip_keeps_exact (hM : 1 ≤ (fmaxval : K)) (hm : (fminval : K) ≤ 0) (c1 c2 c3 c4 a1 a2 a3 a4 : V2 K)
    (hfar : is_near_to a1 a4 (0.0000001 : K) = false) (t s : K) (ht0 : 0 ≤ t) (ht1 : t ≤ 1) (hs0 : 0 ≤ s) (hs1 : s ≤ 1)
    (hmeet : de_casteljau4 t c1 c2 c3 c4 = de_casteljau4 s a1 a2 a3 a4) :
    clip c1 c2 c3 c4 a1 a2 a3 a4 = ClipResult.SecondCurveIsLinear ∨
    ∃ r, clip c1 c2 c3 c4 a1 a2 a3 a4 = ClipResult.Some r ∧ r.t0 ≤ t ∧ t ≤ r.t1 := by
  have hA := C13.strip_contains_curve a1 a2 a3 a4 hfar s hs0 hs1
  have hB := C13.perp_strip_contains_curve a1 a2 a3 a4 hfar s hs0 hs1
  simp only at hA hB
  rw [← hmeet] at hA hB
  obtain ⟨qa, hqa, qa0, qa01, qa1, la⟩ := clip_t_exact hM hm _ (le_trans hA.1 hA.2) c1 c2 c3 c4 t ht0 ht1 hA
  obtain ⟨qb, hqb, qb0, qb01, qb1, lb⟩ := clip_t_exact hM hm _ (le_trans hB.1 hB.2) c1 c2 c3 c4 t ht0 ht1 hB
  rw [clip_eq]
  split_ifs with hflat
  · exact Or.inl rfl
  · right
    rw [hqa, hqb]
    simp only
    split_ifs
    · exact ⟨_, rfl, widen_lossless qa t la qa0 qa1⟩
    · exact ⟨_, rfl, widen_lossless qb t lb qb0 qb1⟩

end

end ClipExact
