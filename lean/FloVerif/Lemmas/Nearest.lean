/-
Helper lemmas for C09 (nearest point): the degree-5 Bernstein form, de Casteljau evaluation and subdivision of a
six-point section as the generated code computes them, sign lemmas (Bernstein positivity), the crossing count.
-/
import FloVerif.Model.Nearest
import Mathlib.Tactic.Ring
import Mathlib.Tactic.NormNum.OfScientific
import Mathlib.Tactic.Linarith
import Mathlib.Tactic.Positivity
import Mathlib.Tactic.FieldSimp
import Mathlib.Algebra.Order.Field.Basic

set_option linter.unusedSectionVars false
set_option linter.unusedVariables false
namespace C09L
open Prelude Gen Model.Nearest

variable {K : Type} [Field K] [LinearOrder K] [IsStrictOrderedRing K] [Inhabited K]
local instance fabsNearest : FAbs K := ⟨fun a => |a|⟩

@[simp] theorem v2_add_x (a b : V2 K) : (a + b).x = a.x + b.x := rfl
@[simp] theorem v2_add_y (a b : V2 K) : (a + b).y = a.y + b.y := rfl
@[simp] theorem v2_sub_x (a b : V2 K) : (a - b).x = a.x - b.x := rfl
@[simp] theorem v2_sub_y (a b : V2 K) : (a - b).y = a.y - b.y := rfl
@[simp] theorem v2_mul_x (a : V2 K) (k : K) : (a * k).x = a.x * k := rfl
@[simp] theorem v2_mul_y (a : V2 K) (k : K) : (a * k).y = a.y * k := rfl
theorem v2_ext {a b : V2 K} (hx : a.x = b.x) (hy : a.y = b.y) : a = b := by
  cases a; cases b; simp_all

/-- the degree-5 Bernstein polynomial with coefficients `c0 … c5` -/
def bern5 (c0 c1 c2 c3 c4 c5 t : K) : K :=
  c0 * (1 - t) ^ 5 + 5 * c1 * t * (1 - t) ^ 4 + 10 * c2 * t ^ 2 * (1 - t) ^ 3 + 10 * c3 * t ^ 3 * (1 - t) ^ 2 +
    5 * c4 * t ^ 4 * (1 - t) + c5 * t ^ 5

/-- the generated `de_casteljau_n` on six points evaluates the two coordinate polynomials in Bernstein form -/
theorem dcn6 (t : K) (q0 q1 q2 q3 q4 q5 : V2 K) :
    de_casteljau_n t [q0, q1, q2, q3, q4, q5] =
      V2.mk (bern5 q0.x q1.x q2.x q3.x q4.x q5.x t) (bern5 q0.y q1.y q2.y q3.y q4.y q5.y t) := by
  have h1 : (1.0 : K) = 1 := by norm_num
  apply v2_ext <;>
  · simp [de_casteljau_n, iterFuel, foldlT, List.range', listGet, bern5, h1]
    ring

/-- one step of de Casteljau's construction -/
def lerp (t a b : K) : K := a * (1 - t) + b * t

/-- the control points of the left half after subdividing at `t` (one coordinate) -/
def leftC (t c0 c1 c2 c3 c4 c5 : K) : List K :=
  [c0, lerp t c0 c1, lerp t (lerp t c0 c1) (lerp t c1 c2),
   lerp t (lerp t (lerp t c0 c1) (lerp t c1 c2)) (lerp t (lerp t c1 c2) (lerp t c2 c3)),
   lerp t (lerp t (lerp t (lerp t c0 c1) (lerp t c1 c2)) (lerp t (lerp t c1 c2) (lerp t c2 c3)))
     (lerp t (lerp t (lerp t c1 c2) (lerp t c2 c3)) (lerp t (lerp t c2 c3) (lerp t c3 c4))),
   bern5 c0 c1 c2 c3 c4 c5 t]

/-- the control points of the right half after subdividing at `t` (one coordinate) -/
def rightC (t c0 c1 c2 c3 c4 c5 : K) : List K :=
  [bern5 c0 c1 c2 c3 c4 c5 t,
   lerp t (lerp t (lerp t (lerp t c1 c2) (lerp t c2 c3)) (lerp t (lerp t c2 c3) (lerp t c3 c4)))
     (lerp t (lerp t (lerp t c2 c3) (lerp t c3 c4)) (lerp t (lerp t c3 c4) (lerp t c4 c5))),
   lerp t (lerp t (lerp t c2 c3) (lerp t c3 c4)) (lerp t (lerp t c3 c4) (lerp t c4 c5)),
   lerp t (lerp t c3 c4) (lerp t c4 c5), lerp t c4 c5, c5]

/-- a section from its lists of x and y coordinates -/
def mkSec (xs ys : List K) : List (V2 K) := List.zipWith V2.mk xs ys

/-- the generated `subdivide_n` on six points: coordinate-wise the two edges of the de Casteljau triangle -/
theorem subdivide6 (t : K) (q0 q1 q2 q3 q4 q5 : V2 K) :
    subdivide_n 6 t [q0, q1, q2, q3, q4, q5] =
      T2.mk (mkSec (leftC t q0.x q1.x q2.x q3.x q4.x q5.x) (leftC t q0.y q1.y q2.y q3.y q4.y q5.y))
            (mkSec (rightC t q0.x q1.x q2.x q3.x q4.x q5.x) (rightC t q0.y q1.y q2.y q3.y q4.y q5.y)) := by
  have h1 : (1.0 : K) = 1 := by norm_num
  simp only [subdivide_n, foldlT, List.range', listGet, mkSec, leftC, rightC, List.reverse_cons, List.reverse_nil,
    List.nil_append, List.cons_append, List.foldl_cons, List.foldl_nil, List.zipWith_cons_cons, List.zipWith_nil_left,
    T2.mk.injEq, List.cons.injEq, and_true]
  simp [lerp, bern5, h1]
  and_intros <;> apply v2_ext <;> simp <;> ring

/-! ### Reparametrisation identities (what subdivision means for the polynomial) -/

theorem bern5_left (t c0 c1 c2 c3 c4 c5 u : K) :
    (match leftC t c0 c1 c2 c3 c4 c5 with
      | [l0, l1, l2, l3, l4, l5] => bern5 l0 l1 l2 l3 l4 l5 u
      | _ => 0) = bern5 c0 c1 c2 c3 c4 c5 (t * u) := by
  simp only [leftC, lerp, bern5]; ring

theorem bern5_right (t c0 c1 c2 c3 c4 c5 u : K) :
    (match rightC t c0 c1 c2 c3 c4 c5 with
      | [r0, r1, r2, r3, r4, r5] => bern5 r0 r1 r2 r3 r4 r5 u
      | _ => 0) = bern5 c0 c1 c2 c3 c4 c5 (t + (1 - t) * u) := by
  simp only [rightC, lerp, bern5]; ring

/-! ### Signs: Bernstein positivity -/

theorem bern5_partition (m c0 c1 c2 c3 c4 c5 t : K) :
    bern5 c0 c1 c2 c3 c4 c5 t - m = bern5 (c0 - m) (c1 - m) (c2 - m) (c3 - m) (c4 - m) (c5 - m) t := by
  simp only [bern5]; ring

/-- non-negative coefficients give a non-negative polynomial on [0,1] -/
theorem bern5_nonneg {c0 c1 c2 c3 c4 c5 t : K} (h0 : 0 ≤ c0) (h1 : 0 ≤ c1) (h2 : 0 ≤ c2) (h3 : 0 ≤ c3) (h4 : 0 ≤ c4)
    (h5 : 0 ≤ c5) (ht0 : 0 ≤ t) (ht1 : t ≤ 1) : 0 ≤ bern5 c0 c1 c2 c3 c4 c5 t := by
  have hs : 0 ≤ 1 - t := by linarith
  simp only [bern5]
  positivity

/-- convex hull property, lower side -/
theorem bern5_ge {m c0 c1 c2 c3 c4 c5 t : K} (h0 : m ≤ c0) (h1 : m ≤ c1) (h2 : m ≤ c2) (h3 : m ≤ c3) (h4 : m ≤ c4)
    (h5 : m ≤ c5) (ht0 : 0 ≤ t) (ht1 : t ≤ 1) : m ≤ bern5 c0 c1 c2 c3 c4 c5 t := by
  have := bern5_nonneg (sub_nonneg.2 h0) (sub_nonneg.2 h1) (sub_nonneg.2 h2) (sub_nonneg.2 h3) (sub_nonneg.2 h4)
    (sub_nonneg.2 h5) ht0 ht1
  rw [← bern5_partition] at this
  linarith

/-- convex hull property, upper side -/
theorem bern5_le {m c0 c1 c2 c3 c4 c5 t : K} (h0 : c0 ≤ m) (h1 : c1 ≤ m) (h2 : c2 ≤ m) (h3 : c3 ≤ m) (h4 : c4 ≤ m)
    (h5 : c5 ≤ m) (ht0 : 0 ≤ t) (ht1 : t ≤ 1) : bern5 c0 c1 c2 c3 c4 c5 t ≤ m := by
  have := bern5_ge (m := -m) (c0 := -c0) (c1 := -c1) (c2 := -c2) (c3 := -c3) (c4 := -c4) (c5 := -c5) (t := t)
    (by linarith) (by linarith) (by linarith) (by linarith) (by linarith) (by linarith) ht0 ht1
  have e : bern5 (-c0) (-c1) (-c2) (-c3) (-c4) (-c5) t = - bern5 c0 c1 c2 c3 c4 c5 t := by simp only [bern5]; ring
  rw [e] at this
  linarith

/-- negative coefficients give a negative polynomial on the closed interval [0,1] -/
theorem bern5_neg {c0 c1 c2 c3 c4 c5 t : K} (h0 : c0 < 0) (h1 : c1 < 0) (h2 : c2 < 0) (h3 : c3 < 0) (h4 : c4 < 0)
    (h5 : c5 < 0) (ht0 : 0 ≤ t) (ht1 : t ≤ 1) : bern5 c0 c1 c2 c3 c4 c5 t < 0 := by
  have hm : max c0 (max c1 (max c2 (max c3 (max c4 c5)))) < 0 := by simp [h0, h1, h2, h3, h4, h5]
  refine lt_of_le_of_lt (bern5_le (m := max c0 (max c1 (max c2 (max c3 (max c4 c5))))) ?_ ?_ ?_ ?_ ?_ ?_ ht0 ht1) hm <;>
    simp

/-- non-negative coefficients, not all zero: the polynomial is positive on the OPEN interval (0,1) -/
theorem bern5_pos {c0 c1 c2 c3 c4 c5 t : K} (h0 : 0 ≤ c0) (h1 : 0 ≤ c1) (h2 : 0 ≤ c2) (h3 : 0 ≤ c3) (h4 : 0 ≤ c4)
    (h5 : 0 ≤ c5) (hne : 0 < c0 ∨ 0 < c1 ∨ 0 < c2 ∨ 0 < c3 ∨ 0 < c4 ∨ 0 < c5) (ht0 : 0 < t) (ht1 : t < 1) :
    0 < bern5 c0 c1 c2 c3 c4 c5 t := by
  have hs : 0 < 1 - t := by linarith
  have t0 : 0 ≤ c0 * (1 - t) ^ 5 := by positivity
  have t1 : 0 ≤ 5 * c1 * t * (1 - t) ^ 4 := by positivity
  have t2 : 0 ≤ 10 * c2 * t ^ 2 * (1 - t) ^ 3 := by positivity
  have t3 : 0 ≤ 10 * c3 * t ^ 3 * (1 - t) ^ 2 := by positivity
  have t4 : 0 ≤ 5 * c4 * t ^ 4 * (1 - t) := by positivity
  have t5 : 0 ≤ c5 * t ^ 5 := by positivity
  simp only [bern5]
  rcases hne with h | h | h | h | h | h
  · have : 0 < c0 * (1 - t) ^ 5 := by positivity
    linarith
  · have : 0 < 5 * c1 * t * (1 - t) ^ 4 := by positivity
    linarith
  · have : 0 < 10 * c2 * t ^ 2 * (1 - t) ^ 3 := by positivity
    linarith
  · have : 0 < 10 * c3 * t ^ 3 * (1 - t) ^ 2 := by positivity
    linarith
  · have : 0 < 5 * c4 * t ^ 4 * (1 - t) := by positivity
    linarith
  · have : 0 < c5 * t ^ 5 := by positivity
    linarith

/-- bound by the largest coefficient in absolute value -/
theorem bern5_abs_le {M c0 c1 c2 c3 c4 c5 t : K} (h0 : |c0| ≤ M) (h1 : |c1| ≤ M) (h2 : |c2| ≤ M) (h3 : |c3| ≤ M)
    (h4 : |c4| ≤ M) (h5 : |c5| ≤ M) (ht0 : 0 ≤ t) (ht1 : t ≤ 1) : |bern5 c0 c1 c2 c3 c4 c5 t| ≤ M := by
  rw [abs_le] at *
  exact ⟨bern5_ge h0.1 h1.1 h2.1 h3.1 h4.1 h5.1 ht0 ht1, bern5_le h0.2 h1.2 h2.2 h3.2 h4.2 h5.2 ht0 ht1⟩

/-! ### The crossing count of `find_roots.rs` -/

/-- the test of one polygon edge in `count_x_axis_crossings` -/
def cross (a b : K) : Nat := if (a < 0 ∧ 0 ≤ b) ∨ (0 ≤ a ∧ b < 0) then 1 else 0

theorem step_cross (n : Nat) (a b : K) :
    (if (decide (a < (0.0 : K)) && decide (b ≥ (0.0 : K))) then n + 1
     else if (decide (a ≥ (0.0 : K)) && decide (b < (0.0 : K))) then n + 1 else n) = n + cross a b := by
  have h0 : (0.0 : K) = 0 := by norm_num
  simp only [h0, cross, ge_iff_le, Bool.and_eq_true, decide_eq_true_eq]
  by_cases h1 : a < 0 ∧ 0 ≤ b
  · simp [h1]
  · by_cases h2 : 0 ≤ a ∧ b < 0
    · simp [h1, h2]
    · simp [h1, h2]

theorem count_eq (N : Nat) (pts : List (V2 K)) : count_x_axis_crossings N pts =
    List.foldl (fun acc idx => acc + cross (listGet pts idx).y (listGet pts (idx + 1)).y) 0
      (List.range' 0 (N - 1 - 0)) := by
  unfold count_x_axis_crossings foldlT
  show List.foldl _ 0 _ = _
  congr 1
  funext acc idx
  exact step_cross _ _ _

theorem count6 (q0 q1 q2 q3 q4 q5 : V2 K) : count_x_axis_crossings 6 [q0, q1, q2, q3, q4, q5] =
    cross q0.y q1.y + cross q1.y q2.y + cross q2.y q3.y + cross q3.y q4.y + cross q4.y q5.y := by
  rw [count_eq]
  simp [List.range', listGet]

theorem cross_zero {a b : K} (h : cross a b = 0) : (a < 0 ↔ b < 0) := by
  unfold cross at h
  have hc : ¬ ((a < 0 ∧ 0 ≤ b) ∨ (0 ≤ a ∧ b < 0)) := by
    intro hc; simp [hc] at h
  · constructor
    · intro ha
      by_contra hb
      exact hc (Or.inl ⟨ha, not_lt.1 hb⟩)
    · intro hb
      by_contra ha
      exact hc (Or.inr ⟨not_lt.1 ha, hb⟩)

/-- no crossing: the six coefficients are all negative or all non-negative -/
theorem count6_zero {q0 q1 q2 q3 q4 q5 : V2 K} (h : count_x_axis_crossings 6 [q0, q1, q2, q3, q4, q5] = 0) :
    (q0.y < 0 ∧ q1.y < 0 ∧ q2.y < 0 ∧ q3.y < 0 ∧ q4.y < 0 ∧ q5.y < 0) ∨
    (0 ≤ q0.y ∧ 0 ≤ q1.y ∧ 0 ≤ q2.y ∧ 0 ≤ q3.y ∧ 0 ≤ q4.y ∧ 0 ≤ q5.y) := by
  rw [count6] at h
  have e1 := cross_zero (a := q0.y) (b := q1.y) (by omega)
  have e2 := cross_zero (a := q1.y) (b := q2.y) (by omega)
  have e3 := cross_zero (a := q2.y) (b := q3.y) (by omega)
  have e4 := cross_zero (a := q3.y) (b := q4.y) (by omega)
  have e5 := cross_zero (a := q4.y) (b := q5.y) (by omega)
  by_cases h0 : q0.y < 0
  · left
    have h1 := e1.1 h0
    have h2 := e2.1 h1
    have h3 := e3.1 h2
    have h4 := e4.1 h3
    exact ⟨h0, h1, h2, h3, h4, e5.1 h4⟩
  · right
    have h1 : ¬ q1.y < 0 := fun x => h0 (e1.2 x)
    have h2 : ¬ q2.y < 0 := fun x => h1 (e2.2 x)
    have h3 : ¬ q3.y < 0 := fun x => h2 (e3.2 x)
    have h4 : ¬ q4.y < 0 := fun x => h3 (e4.2 x)
    have h5 : ¬ q5.y < 0 := fun x => h4 (e5.2 x)
    exact ⟨not_lt.1 h0, not_lt.1 h1, not_lt.1 h2, not_lt.1 h3, not_lt.1 h4, not_lt.1 h5⟩

/-! ### The quintic of `distance_in_bezier_form` -/

/-- the tangent of the cubic at `t`: the generated `derivative4` evaluated by the generated `de_casteljau3` -/
def tangentAt (w1 w2 w3 w4 : V2 K) (t : K) : V2 K :=
  de_casteljau3 t (derivative4 w1 w2 w3 w4).t0 (derivative4 w1 w2 w3 w4).t1 (derivative4 w1 w2 w3 w4).t2

/-- `(C(t) − point)·C'(t)`: half the derivative of the squared distance -/
def perpDot (w1 w2 w3 w4 point : V2 K) (t : K) : K :=
  dot (curve_point_at_pos w1 w2 w3 w4 t - point) (tangentAt w1 w2 w3 w4 t)

/-- the model of `distance_in_bezier_form` with its loops unrolled (same operations, same order) -/
theorem dbf_explicit (w1 w2 w3 w4 p : V2 K) :
    distance_in_bezier_form w1 w2 w3 w4 p =
      [{ x := 0.0 / 5.0, y := 0.0 + dot ((w2 - w1) * (3.0 : K)) (w1 - p) * 1.0 },
       { x := 1.0 / 5.0, y := 0.0 + dot ((w3 - w2) * (3.0 : K)) (w1 - p) * 0.4 + dot ((w2 - w1) * (3.0 : K)) (w2 - p) * 0.6 },
       { x := 2.0 / 5.0, y := 0.0 + dot ((w4 - w3) * (3.0 : K)) (w1 - p) * 0.1 + dot ((w3 - w2) * (3.0 : K)) (w2 - p) * 0.6 +
            dot ((w2 - w1) * (3.0 : K)) (w3 - p) * 0.3 },
       { x := 3.0 / 5.0, y := 0.0 + dot ((w4 - w3) * (3.0 : K)) (w2 - p) * 0.3 + dot ((w3 - w2) * (3.0 : K)) (w3 - p) * 0.6 +
            dot ((w2 - w1) * (3.0 : K)) (w4 - p) * 0.1 },
       { x := 4.0 / 5.0, y := 0.0 + dot ((w4 - w3) * (3.0 : K)) (w3 - p) * 0.6 + dot ((w3 - w2) * (3.0 : K)) (w4 - p) * 0.4 },
       { x := 5.0 / 5.0, y := 0.0 + dot ((w4 - w3) * (3.0 : K)) (w4 - p) * 1.0 }] := by
  simp [distance_in_bezier_form, foldlT, List.range', listGet, addY, windows2, Z]

/-- the `k`-th y-coefficient of the model of `distance_in_bezier_form` -/
def quinticY (w1 w2 w3 w4 p : V2 K) (k : Nat) : K := (listGet (distance_in_bezier_form w1 w2 w3 w4 p) k).y

/-- the model of `distance_in_bezier_form` returns six points with x = k/5 -/
theorem quintic_points (w1 w2 w3 w4 p : V2 K) :
    distance_in_bezier_form w1 w2 w3 w4 p =
      [⟨0, quinticY w1 w2 w3 w4 p 0⟩, ⟨1 / 5, quinticY w1 w2 w3 w4 p 1⟩, ⟨2 / 5, quinticY w1 w2 w3 w4 p 2⟩,
       ⟨3 / 5, quinticY w1 w2 w3 w4 p 3⟩, ⟨4 / 5, quinticY w1 w2 w3 w4 p 4⟩, ⟨1, quinticY w1 w2 w3 w4 p 5⟩] := by
  have h0 : (0.0 : K) = 0 := by norm_num
  have h1 : (1.0 : K) = 1 := by norm_num
  have h2 : (2.0 : K) = 2 := by norm_num
  have h3 : (3.0 : K) = 3 := by norm_num
  have h4 : (4.0 : K) = 4 := by norm_num
  have h5 : (5.0 : K) = 5 := by norm_num
  simp only [quinticY, dbf_explicit, listGet]
  simp [h0, h1, h2, h3, h4, h5]

/-- THE QUINTIC IDENTITY: the degree-5 Bernstein polynomial with the model's y-coefficients is `(C(t) − p)·C'(t)` -/
theorem quintic_bern (w1 w2 w3 w4 p : V2 K) (t : K) :
    bern5 (quinticY w1 w2 w3 w4 p 0) (quinticY w1 w2 w3 w4 p 1) (quinticY w1 w2 w3 w4 p 2) (quinticY w1 w2 w3 w4 p 3)
      (quinticY w1 w2 w3 w4 p 4) (quinticY w1 w2 w3 w4 p 5) t = perpDot w1 w2 w3 w4 p t := by
  have h0 : (0.0 : K) = 0 := by norm_num
  have h1 : (1.0 : K) = 1 := by norm_num
  have h3 : (3.0 : K) = 3 := by norm_num
  have z1 : (0.6 : K) = 3 / 5 := by norm_num
  have z2 : (0.3 : K) = 3 / 10 := by norm_num
  have z3 : (0.1 : K) = 1 / 10 := by norm_num
  have z4 : (0.4 : K) = 2 / 5 := by norm_num
  simp only [quinticY, dbf_explicit, listGet]
  simp [perpDot, tangentAt, derivative4, de_casteljau3, de_casteljau2, curve_point_at_pos, basis, dot, bern5,
    h0, h1, h3, z1, z2, z3, z4]
  ring

end C09L
