import FloVerif.Model.Graph
import Mathlib.Tactic.SplitIfs
import Mathlib.Data.List.Basic
import Mathlib.Data.List.Nodup
/-!
Helper lemmas for C03 (`Props/C03.lean`): access and counting lemmas for the `GraphPath` model, the well-formedness
invariant and its preservation by every structural operation of the collision stage.
-/
set_option linter.unusedSectionVars false
set_option linter.unusedVariables false
set_option linter.unusedSimpArgs false
namespace Model.Graph

/-! ### access -/

theorem edgesAt_of_lt {g : Graph} {p : Nat} (h : p < g.length) : edgesAt g p = g[p].edges := by
  simp [edgesAt, List.getElem?_eq_getElem h]

theorem edgesAt_of_ge {g : Graph} {p : Nat} (h : g.length ≤ p) : edgesAt g p = [] := by
  simp [edgesAt, List.getElem?_eq_none h]

theorem connAt_of_lt {g : Graph} {p : Nat} (h : p < g.length) : connAt g p = g[p].conn := by
  simp [connAt, List.getElem?_eq_getElem h]

theorem connAt_of_ge {g : Graph} {p : Nat} (h : g.length ≤ p) : connAt g p = [] := by
  simp [connAt, List.getElem?_eq_none h]

@[simp] theorem length_updEdges (g : Graph) (p : Nat) (f) : (updEdges g p f).length = g.length := by
  simp [updEdges]

@[simp] theorem length_updConn (g : Graph) (p : Nat) (f) : (updConn g p f).length = g.length := by
  simp [updConn]

@[simp] theorem length_pushEdge (g : Graph) (p : Nat) (ed) : (pushEdge g p ed).length = g.length := by
  simp [pushEdge]

@[simp] theorem length_updEdge (g : Graph) (p e : Nat) (f) : (updEdge g p e f).length = g.length := by
  simp [updEdge]

theorem edgesAt_updEdges (g : Graph) (p : Nat) (f) (q : Nat) :
    edgesAt (updEdges g p f) q = if q = p ∧ p < g.length then f (edgesAt g p) else edgesAt g q := by
  unfold edgesAt updEdges
  rw [List.getElem?_modify]
  by_cases hq : q = p
  · subst hq
    by_cases hl : q < g.length
    · simp [hl, List.getElem?_eq_getElem hl]
    · simp [hl, List.getElem?_eq_none (Nat.le_of_not_lt hl)]
  · have : ¬ p = q := fun h => hq h.symm
    cases h : g[q]? <;> simp [hq, this]

theorem connAt_updEdges (g : Graph) (p : Nat) (f) (q : Nat) : connAt (updEdges g p f) q = connAt g q := by
  unfold connAt updEdges
  rw [List.getElem?_modify]
  cases h : g[q]? <;> simp
  split_ifs <;> rfl

theorem connAt_updConn (g : Graph) (p : Nat) (f) (q : Nat) :
    connAt (updConn g p f) q = if q = p ∧ p < g.length then f (connAt g p) else connAt g q := by
  unfold connAt updConn
  rw [List.getElem?_modify]
  by_cases hq : q = p
  · subst hq
    by_cases hl : q < g.length
    · simp [hl, List.getElem?_eq_getElem hl]
    · simp [hl, List.getElem?_eq_none (Nat.le_of_not_lt hl)]
  · have : ¬ p = q := fun h => hq h.symm
    cases h : g[q]? <;> simp [hq, this]

theorem edgesAt_updConn (g : Graph) (p : Nat) (f) (q : Nat) : edgesAt (updConn g p f) q = edgesAt g q := by
  unfold edgesAt updConn
  rw [List.getElem?_modify]
  cases h : g[q]? <;> simp
  split_ifs <;> rfl

theorem edgesAt_pushEdge (g : Graph) (p : Nat) (ed : Edge) (q : Nat) :
    edgesAt (pushEdge g p ed) q = if q = p ∧ p < g.length then edgesAt g p ++ [ed] else edgesAt g q := by
  simp [pushEdge, edgesAt_updEdges]

theorem edgesAt_updEdge (g : Graph) (p e : Nat) (f) (q : Nat) :
    edgesAt (updEdge g p e f) q = if q = p ∧ p < g.length then (edgesAt g p).modify e f else edgesAt g q := by
  simp [updEdge, edgesAt_updEdges]

theorem connAt_pushEdge (g : Graph) (p : Nat) (ed : Edge) (q : Nat) : connAt (pushEdge g p ed) q = connAt g q := by
  simp [pushEdge, connAt_updEdges]

theorem connAt_updEdge (g : Graph) (p e : Nat) (f) (q : Nat) : connAt (updEdge g p e f) q = connAt g q := by
  simp [updEdge, connAt_updEdges]

/-- two graphs with the same number of points, the same edges and the same connections at every point are equal -/
theorem graph_ext {g h : Graph} (hl : g.length = h.length) (he : ∀ p, edgesAt g p = edgesAt h p)
    (hc : ∀ p, connAt g p = connAt h p) : g = h := by
  apply List.ext_getElem hl
  intro i h1 h2
  have e := he i
  have c := hc i
  rw [edgesAt_of_lt h1, edgesAt_of_lt h2] at e
  rw [connAt_of_lt h1, connAt_of_lt h2] at c
  cases hx : g[i]; cases hy : h[i]
  simp_all

/-! ### counting edges -/

/-- number of edges of the graph satisfying `q` -/
def cntP (q : Edge → Bool) (g : Graph) : Nat := (allEdges g).countP q

theorem cntP_nil (q : Edge → Bool) : cntP q [] = 0 := rfl

theorem cntP_cons (q : Edge → Bool) (pt : Point) (g : Graph) : cntP q (pt :: g) = pt.edges.countP q + cntP q g := by
  simp [cntP, allEdges, List.countP_append]

theorem cntP_append (q : Edge → Bool) (g h : Graph) : cntP q (g ++ h) = cntP q g + cntP q h := by
  simp [cntP, allEdges, List.countP_append]

/-- changing the edge list of one point changes the count by the difference on that list -/
theorem cntP_updEdges (q : Edge → Bool) (g : Graph) (p : Nat) (f) (hp : p < g.length) :
    cntP q (updEdges g p f) + (edgesAt g p).countP q = cntP q g + (f (edgesAt g p)).countP q := by
  induction g generalizing p with
  | nil => simp at hp
  | cons pt g ih =>
    cases p with
    | zero =>
      simp [updEdges, List.modify, cntP_cons, edgesAt]
      omega
    | succ p =>
      have hp' : p < g.length := by simpa using hp
      have := ih p hp'
      simp only [updEdges, List.modify_succ_cons, cntP_cons] at this ⊢
      have e1 : edgesAt (pt :: g) (p + 1) = edgesAt g p := by simp [edgesAt]
      rw [e1]
      omega

theorem cntP_updEdges_ge (q : Edge → Bool) (g : Graph) (p : Nat) (f) (hp : g.length ≤ p) :
    updEdges g p f = g := by
  apply List.ext_getElem? 
  intro i
  simp only [updEdges, List.getElem?_modify]
  by_cases h : p = i
  · subst h; simp [List.getElem?_eq_none hp]
  · cases g[i]? <;> simp [h]

theorem cntP_updConn (q : Edge → Bool) (g : Graph) (p : Nat) (f) : cntP q (updConn g p f) = cntP q g := by
  induction g generalizing p with
  | nil => simp [updConn]
  | cons pt g ih =>
    cases p with
    | zero => simp [updConn, List.modify, cntP_cons]
    | succ p =>
      have := ih p
      simp only [updConn, List.modify_succ_cons, cntP_cons] at this ⊢
      omega

theorem countP_modify (q : Edge → Bool) (l : List Edge) (e : Nat) (f : Edge → Edge) (old : Edge) (h : l[e]? = some old) :
    (l.modify e f).countP q + (if q old then 1 else 0) = l.countP q + (if q (f old) then 1 else 0) := by
  induction l generalizing e with
  | nil => simp at h
  | cons a l ih =>
    cases e with
    | zero =>
      simp at h; subst h
      simp [List.modify, List.countP_cons]
      omega
    | succ e =>
      have := ih e (by simpa using h)
      simp only [List.modify_succ_cons, List.countP_cons]
      omega

theorem countP_eraseIdx (q : Edge → Bool) (l : List Edge) (e : Nat) (old : Edge) (h : l[e]? = some old) :
    (l.eraseIdx e).countP q + (if q old then 1 else 0) = l.countP q := by
  induction l generalizing e with
  | nil => simp at h
  | cons a l ih =>
    cases e with
    | zero =>
      simp at h; subst h
      simp [List.countP_cons]
    | succ e =>
      have := ih e (by simpa using h)
      simp only [List.eraseIdx_cons_succ, List.countP_cons]
      omega

theorem cntP_pushEdge (q : Edge → Bool) (g : Graph) (p : Nat) (ed : Edge) (hp : p < g.length) :
    cntP q (pushEdge g p ed) = cntP q g + (if q ed then 1 else 0) := by
  have := cntP_updEdges q g p (· ++ [ed]) hp
  simp only [List.countP_append, List.countP_cons, List.countP_nil] at this
  unfold pushEdge
  omega

theorem cntP_updEdge (q : Edge → Bool) (g : Graph) (p e : Nat) (f) (old : Edge) (h : edgeAt g p e = some old) :
    cntP q (updEdge g p e f) + (if q old then 1 else 0) = cntP q g + (if q (f old) then 1 else 0) := by
  have hp : p < g.length := by
    by_contra hc
    simp [edgeAt, edgesAt_of_ge (Nat.le_of_not_lt hc)] at h
  have h1 := cntP_updEdges q g p (·.modify e f) hp
  have h2 := countP_modify q (edgesAt g p) e f old h
  unfold updEdge
  omega

/-! ### the invariant -/

/-- the edge names edge `f` of point `p` as its following edge -/
def pointsTo (p f : Nat) (e : Edge) : Bool := e.endIdx == p && e.fol == f

@[simp] theorem pointsTo_iff (p f : Nat) (e : Edge) : pointsTo p f e = true ↔ e.endIdx = p ∧ e.fol = f := by
  simp [pointsTo]

theorem slotCount_eq (g : Graph) (p f : Nat) : slotCount g p f = cntP (pointsTo p f) g := rfl

/-- following-edge structure: every edge ends at a point of the graph, and every edge `(p, f)` is named as the following edge
by exactly one edge (which then ends at `p`); no edge names a following edge that does not exist -/
structure FolWf (g : Graph) : Prop where
  endValid : ∀ p, ∀ e ∈ edgesAt g p, e.endIdx < g.length
  slot : ∀ p f, p < g.length → slotCount g p f = if f < (edgesAt g p).length then 1 else 0

/-- `connected_from`: lists only points of the graph, no point twice, and every point that has an edge to this one -/
structure ConnOk (g : Graph) : Prop where
  valid : ∀ p, ∀ c ∈ connAt g p, c < g.length
  nodup : ∀ p, (connAt g p).Nodup
  complete : ∀ p, ∀ e ∈ edgesAt g p, p ∈ connAt g e.endIdx

/-- every entry of `connected_from` is justified by an edge -/
def ConnExact (g : Graph) : Prop := ∀ p, ∀ c ∈ connAt g p, ∃ e ∈ edgesAt g c, e.endIdx = p

/-- the invariant of the collision stage -/
structure Wf (g : Graph) : Prop where
  fol : FolWf g
  conn : ConnOk g

theorem mem_edgesAt_of_edgeAt {g : Graph} {p e : Nat} {ed : Edge} (h : edgeAt g p e = some ed) : ed ∈ edgesAt g p :=
  List.mem_of_getElem? h

theorem lt_of_edgeAt {g : Graph} {p e : Nat} {ed : Edge} (h : edgeAt g p e = some ed) : p < g.length := by
  by_contra hc
  simp [edgeAt, edgesAt_of_ge (Nat.le_of_not_lt hc)] at h

theorem idx_lt_of_edgeAt {g : Graph} {p e : Nat} {ed : Edge} (h : edgeAt g p e = some ed) : e < (edgesAt g p).length := by
  unfold edgeAt at h
  exact (List.getElem?_eq_some_iff.mp h).1

/-- an edge of a well-formed graph names an existing following edge -/
theorem FolWf.folValid {g : Graph} (h : FolWf g) {p : Nat} {e : Edge} (he : e ∈ edgesAt g p) :
    e.fol < (edgesAt g e.endIdx).length := by
  have hv := h.endValid p e he
  have hs := h.slot e.endIdx e.fol hv
  by_contra hc
  rw [if_neg hc] at hs
  have hp : p < g.length := by
    by_contra hp
    rw [edgesAt_of_ge (Nat.le_of_not_lt hp)] at he
    simp at he
  have : e ∈ allEdges g := by
    unfold allEdges
    rw [List.mem_flatMap]
    refine ⟨g[p], List.getElem_mem hp, ?_⟩
    rwa [edgesAt_of_lt hp] at he
  rw [slotCount_eq, cntP] at hs
  have hpos : 0 < List.countP (pointsTo e.endIdx e.fol) (allEdges g) :=
    List.countP_pos_iff.mpr ⟨e, this, by simp [pointsTo]⟩
  omega

/-! ### dividing an edge (path_collision.rs:328-415) -/

/-- loop invariant of the edge-dividing loops: the graph is well formed except that the slot `(x, f0)` (the following edge of
the edge being divided) is not named by anybody and the edge `prev`, which ends at `last`, has no meaningful following index yet -/
structure SplitInv (g : Graph) (prev : Nat × Nat) (last x f0 : Nat) : Prop where
  endValid : ∀ p, ∀ e ∈ edgesAt g p, e.endIdx < g.length
  prevEdge : ∃ pe, edgeAt g prev.1 prev.2 = some pe ∧ pe.endIdx = last
  lastLt : last < g.length
  xLt : x < g.length
  slot : ∀ p f pe, p < g.length → edgeAt g prev.1 prev.2 = some pe →
    slotCount g p f + (if p = x ∧ f = f0 then 1 else 0) =
      (if f < (edgesAt g p).length then 1 else 0) + (if pe.endIdx = p ∧ pe.fol = f then 1 else 0)
  f0Lt : f0 < (edgesAt g x).length

theorem edgeAt_updEdge_same {g : Graph} {p e : Nat} {f} {ed : Edge} (h : edgeAt g p e = some ed) :
    edgeAt (updEdge g p e f) p e = some (f ed) := by
  have hp := lt_of_edgeAt h
  unfold edgeAt at *
  rw [edgesAt_updEdge]
  simp [hp, List.getElem?_modify, h]

theorem mem_edgesAt_updEdge {g : Graph} {p e : Nat} {f} {q : Nat} {x : Edge} (h : x ∈ edgesAt (updEdge g p e f) q) :
    x ∈ edgesAt g q ∨ ∃ old, edgeAt g p e = some old ∧ x = f old ∧ q = p := by
  rw [edgesAt_updEdge] at h
  split_ifs at h with hc
  · obtain ⟨rfl, hp⟩ := hc
    rw [List.mem_iff_getElem?] at h
    obtain ⟨i, hi⟩ := h
    rw [List.getElem?_modify] at hi
    cases hq : (edgesAt g q)[i]? with
    | none => simp [hq] at hi
    | some a =>
      simp [hq] at hi
      by_cases hei : e = i
      · subst hei
        right
        exact ⟨a, hq, by simpa using hi.symm, rfl⟩
      · left
        simp [hei] at hi
        subst hi
        exact List.mem_of_getElem? hq
  · left; exact h

theorem SplitInv.step {g : Graph} {prev : Nat × Nat} {last x f0 : Nat} (h : SplitInv g prev last x f0)
    (label kind q : Nat) (hq : q < g.length) :
    SplitInv (splitStep label kind ⟨g, prev, last⟩ q).g (splitStep label kind ⟨g, prev, last⟩ q).prev q x f0 := by
  obtain ⟨pe, hpe, hpl⟩ := h.prevEdge
  have hlast := h.lastLt
  simp only [splitStep]
  set L := (edgesAt g last).length with hL
  set g1 := updEdge g prev.1 prev.2 (fun e => { e with fol := L }) with hg1
  set E : Edge := { endIdx := q, fol := 0, label := label, kind := kind } with hE
  have hlen1 : g1.length = g.length := by simp [hg1]
  have hpp := lt_of_edgeAt hpe
  -- the length of every edge list in g1 is the one in g
  have hlen_e1 : ∀ a, (edgesAt g1 a).length = (edgesAt g a).length := by
    intro a
    rw [hg1, edgesAt_updEdge]
    split_ifs with hc
    · rw [hc.1]; simp
    · rfl
  have hedges' : ∀ a, edgesAt (pushEdge g1 last E) a = if a = last then edgesAt g1 last ++ [E] else edgesAt g1 a := by
    intro a
    rw [edgesAt_pushEdge]
    simp [hlen1, hlast]
  have hnew : edgeAt (pushEdge g1 last E) last L = some E := by
    unfold edgeAt
    rw [hedges']
    simp [hlen_e1, hL]
  refine ⟨?_, ⟨E, hnew, rfl⟩, by simpa [hlen1] using hq, by simpa [hlen1] using h.xLt, ?_, ?_⟩
  · intro a e he
    rw [hedges'] at he
    simp only [length_pushEdge, hlen1]
    have h1 : ∀ y, y ∈ edgesAt g1 a → y.endIdx < g.length := by
      intro y hy
      rcases mem_edgesAt_updEdge hy with hy | ⟨old, ho, rfl, _⟩
      · exact h.endValid a y hy
      · exact h.endValid _ old (mem_edgesAt_of_edgeAt ho)
    split_ifs at he with hc
    · subst hc
      rw [List.mem_append] at he
      rcases he with he | he
      · exact h1 e he
      · simp at he; subst he; exact hq
    · exact h1 e he
  · intro p f pe' hp hpe'
    rw [hnew] at hpe'
    cases hpe'
    simp only [length_pushEdge, hlen1] at hp
    have hs := h.slot p f pe hp hpe
    have c1 := cntP_pushEdge (pointsTo p f) g1 last E (by omega)
    have c2 := cntP_updEdge (pointsTo p f) g prev.1 prev.2 (fun e => { e with fol := L }) pe hpe
    rw [slotCount_eq] at hs ⊢
    rw [hedges', c1]
    rw [← hg1] at c2
    simp only [pointsTo_iff, hE] at c1 c2 hs ⊢
    by_cases hpl' : p = last
    · subst hpl'
      simp only [if_true, List.length_append, List.length_singleton, hlen_e1]
      split_ifs at c1 c2 hs ⊢ <;> omega
    · simp only [if_neg hpl', hlen_e1]
      split_ifs at c1 c2 hs ⊢ <;> omega
  · rw [hedges']
    have := h.f0Lt
    split_ifs with hc
    · subst hc; simp [hlen_e1]; omega
    · simpa [hlen_e1] using this

theorem length_splitStep (label kind : Nat) (st : SplitState) (q : Nat) : (splitStep label kind st q).g.length = st.g.length := by
  simp [splitStep]

theorem SplitInv.fold {x f0 : Nat} (label kind : Nat) (qs : List Nat) :
    ∀ (st : SplitState), SplitInv st.g st.prev st.last x f0 → (∀ q ∈ qs, q < st.g.length) →
      SplitInv (qs.foldl (splitStep label kind) st).g (qs.foldl (splitStep label kind) st).prev
        (qs.foldl (splitStep label kind) st).last x f0 ∧ (qs.foldl (splitStep label kind) st).g.length = st.g.length := by
  induction qs with
  | nil => intro st h _; exact ⟨h, rfl⟩
  | cons q qs ih =>
    intro st h hq
    obtain ⟨g, prev, last⟩ := st
    have hs := h.step label kind q (hq q (by simp))
    have hl := length_splitStep label kind ⟨g, prev, last⟩ q
    have := ih (splitStep label kind ⟨g, prev, last⟩ q) (by simpa [splitStep] using hs)
      (by intro q' hq'; rw [hl]; exact hq q' (by simp [hq']))
    simp only [List.foldl_cons]
    exact ⟨this.1, by rw [this.2, hl]⟩

/-- the state after the first collision of an edge was applied satisfies the loop invariant -/
theorem SplitInv.init {g : Graph} (h : FolWf g) {p e : Nat} {ed : Edge} (he : edgeAt g p e = some ed) (q F : Nat)
    (hq : q < g.length) :
    SplitInv (updEdge g p e fun x => { x with endIdx := q, fol := F }) (p, e) q ed.endIdx ed.fol := by
  have hp := lt_of_edgeAt he
  have hnew := edgeAt_updEdge_same (f := fun x : Edge => { x with endIdx := q, fol := F }) he
  have hlen_e : ∀ a, (edgesAt (updEdge g p e fun x => { x with endIdx := q, fol := F }) a).length = (edgesAt g a).length := by
    intro a
    rw [edgesAt_updEdge]
    split_ifs with hc
    · rw [hc.1]; simp
    · rfl
  refine ⟨?_, ⟨_, hnew, rfl⟩, by simpa using hq, by simpa using h.endValid p ed (mem_edgesAt_of_edgeAt he), ?_, ?_⟩
  · intro a y hy
    simp only [length_updEdge]
    rcases mem_edgesAt_updEdge hy with hy | ⟨old, ho, rfl, _⟩
    · exact h.endValid a y hy
    · exact hq
  · intro p' f pe hp' hpe
    simp only at hpe
    rw [hnew] at hpe
    cases hpe
    simp only [length_updEdge] at hp'
    have c := cntP_updEdge (pointsTo p' f) g p e (fun x => { x with endIdx := q, fol := F }) ed he
    have hs := h.slot p' f hp'
    rw [slotCount_eq] at hs ⊢
    rw [hlen_e]
    simp only [pointsTo_iff] at c
    split_ifs at c hs ⊢ <;> omega
  · rw [hlen_e]
    exact h.folValid (mem_edgesAt_of_edgeAt he)

/-- adding the final edge re-establishes well-formedness -/
theorem SplitInv.final {g : Graph} {prev : Nat × Nat} {last x f0 : Nat} (h : SplitInv g prev last x f0) (label kind : Nat) :
    FolWf (pushEdge (updEdge g prev.1 prev.2 fun e => { e with fol := (edgesAt g last).length }) last
      { endIdx := x, fol := f0, label := label, kind := kind }) := by
  obtain ⟨pe, hpe, hpl⟩ := h.prevEdge
  have hlast := h.lastLt
  set L := (edgesAt g last).length with hL
  set g1 := updEdge g prev.1 prev.2 (fun e => { e with fol := L }) with hg1
  set E : Edge := { endIdx := x, fol := f0, label := label, kind := kind } with hE
  have hlen1 : g1.length = g.length := by simp [hg1]
  have hlen_e1 : ∀ a, (edgesAt g1 a).length = (edgesAt g a).length := by
    intro a
    rw [hg1, edgesAt_updEdge]
    split_ifs with hc
    · rw [hc.1]; simp
    · rfl
  have hedges' : ∀ a, edgesAt (pushEdge g1 last E) a = if a = last then edgesAt g1 last ++ [E] else edgesAt g1 a := by
    intro a
    rw [edgesAt_pushEdge]
    simp [hlen1, hlast]
  refine ⟨?_, ?_⟩
  · intro a e he
    rw [hedges'] at he
    simp only [length_pushEdge, hlen1]
    have h1 : ∀ y, y ∈ edgesAt g1 a → y.endIdx < g.length := by
      intro y hy
      rcases mem_edgesAt_updEdge hy with hy | ⟨old, ho, rfl, _⟩
      · exact h.endValid a y hy
      · exact h.endValid _ old (mem_edgesAt_of_edgeAt ho)
    split_ifs at he with hc
    · subst hc
      rw [List.mem_append] at he
      rcases he with he | he
      · exact h1 e he
      · simp at he; subst he; exact h.xLt
    · exact h1 e he
  · intro p f hp
    simp only [length_pushEdge, hlen1] at hp
    have hs := h.slot p f pe hp hpe
    have c1 := cntP_pushEdge (pointsTo p f) g1 last E (by omega)
    have c2 := cntP_updEdge (pointsTo p f) g prev.1 prev.2 (fun e => { e with fol := L }) pe hpe
    rw [slotCount_eq] at hs ⊢
    rw [hedges', c1]
    rw [← hg1] at c2
    simp only [pointsTo_iff, hE] at c1 c2 hs ⊢
    by_cases hpl' : p = last
    · subst hpl'
      simp only [if_true, List.length_append, List.length_singleton, hlen_e1]
      split_ifs at c1 c2 hs ⊢ <;> omega
    · simp only [if_neg hpl', hlen_e1]
      split_ifs at c1 c2 hs ⊢ <;> omega

/-- dividing one edge at any list of existing points keeps the following-edge structure well formed -/
theorem splitEdgeS_folWf {g : Graph} (h : FolWf g) (p e : Nat) (qs : List Nat) (hqs : ∀ q ∈ qs, q < g.length) :
    FolWf (splitEdgeS g p e qs) ∧ (splitEdgeS g p e qs).length = g.length := by
  unfold splitEdgeS
  cases he : edgeAt g p e with
  | none => exact ⟨h, rfl⟩
  | some ed =>
    cases qs with
    | nil => exact ⟨h, rfl⟩
    | cons q rest =>
      simp only
      have hq := hqs q (by simp)
      have h0 := SplitInv.init h he q (edgesAt g q).length hq
      have hf := SplitInv.fold (x := ed.endIdx) (f0 := ed.fol) ed.label ed.kind rest
        ⟨updEdge g p e fun x => { x with endIdx := q, fol := (edgesAt g q).length }, (p, e), q⟩ h0
        (by intro q' hq'; simp only [length_updEdge]; exact hqs q' (by simp [hq']))
      refine ⟨hf.1.final ed.label ed.kind, ?_⟩
      simp only [length_pushEdge, length_updEdge]
      rw [hf.2]
      simp

/-! ### sort + dedup -/

theorem mem_dedupAdj (l : List Nat) (x : Nat) : x ∈ dedupAdj l ↔ x ∈ l := by
  fun_induction dedupAdj l with
  | case1 => simp
  | case2 a => simp
  | case3 a r ih => simp only [ih]; simp
  | case4 a b r hab ih => simp only [List.mem_cons, ih]

theorem pairwise_lt_dedupAdj (l : List Nat) (h : l.Pairwise (· ≤ ·)) : (dedupAdj l).Pairwise (· < ·) := by
  fun_induction dedupAdj l with
  | case1 => simp
  | case2 a => simp
  | case3 a r ih => exact ih (List.Pairwise.of_cons h)
  | case4 a b r hab ih =>
    rw [List.pairwise_cons] at h ⊢
    refine ⟨?_, ih h.2⟩
    intro x hx
    rw [mem_dedupAdj] at hx
    have h2 := h.2
    rw [List.pairwise_cons] at h2
    have hab' : a ≤ b := h.1 b (by simp)
    rcases List.mem_cons.mp hx with rfl | hx
    · omega
    · have := h2.1 x hx
      omega

theorem mem_insertNat (a : Nat) (l : List Nat) (x : Nat) : x ∈ insertNat a l ↔ x = a ∨ x ∈ l := by
  induction l with
  | nil => simp [insertNat]
  | cons b l ih =>
    unfold insertNat
    split_ifs
    · simp
    · simp only [List.mem_cons, ih]
      constructor
      · rintro (h | h | h)
        · exact Or.inr (Or.inl h)
        · exact Or.inl h
        · exact Or.inr (Or.inr h)
      · rintro (h | h | h)
        · exact Or.inr (Or.inl h)
        · exact Or.inl h
        · exact Or.inr (Or.inr h)

theorem pairwise_insertNat (a : Nat) (l : List Nat) (h : l.Pairwise (· ≤ ·)) : (insertNat a l).Pairwise (· ≤ ·) := by
  induction l with
  | nil => simp [insertNat]
  | cons b l ih =>
    unfold insertNat
    rw [List.pairwise_cons] at h
    split_ifs with hab
    · rw [List.pairwise_cons]
      refine ⟨?_, List.pairwise_cons.mpr h⟩
      intro x hx
      rcases List.mem_cons.mp hx with rfl | hx
      · exact hab
      · have := h.1 x hx; omega
    · rw [List.pairwise_cons]
      refine ⟨?_, ih h.2⟩
      intro x hx
      rcases (mem_insertNat a l x).mp hx with rfl | hx
      · omega
      · exact h.1 x hx

theorem pairwise_le_sortNat (l : List Nat) : (sortNat l).Pairwise (· ≤ ·) := by
  unfold sortNat
  induction l with
  | nil => simp
  | cons a l ih => exact pairwise_insertNat a _ ih

theorem mem_sortNat (l : List Nat) (x : Nat) : x ∈ sortNat l ↔ x ∈ l := by
  unfold sortNat
  induction l with
  | nil => simp
  | cons a l ih => simp only [List.foldr_cons, mem_insertNat, ih, List.mem_cons]

theorem mem_sortDedup (l : List Nat) (x : Nat) : x ∈ dedupAdj (sortNat l) ↔ x ∈ l := by
  rw [mem_dedupAdj, mem_sortNat]

theorem nodup_sortDedup (l : List Nat) : (dedupAdj (sortNat l)).Nodup :=
  (pairwise_lt_dedupAdj _ (pairwise_le_sortNat l)).imp (by intro a b h; omega)

/-! ### generic fold invariant -/

theorem foldl_inv {α β : Type} (P : β → Prop) (f : β → α → β) (l : List α) (init : β)
    (h : ∀ b a, a ∈ l → P b → P (f b a)) (h0 : P init) : P (l.foldl f init) := by
  induction l generalizing init with
  | nil => exact h0
  | cons a l ih =>
    simp only [List.foldl_cons]
    exact ih _ (fun b a' ha' => h b a' (by simp [ha'])) (h init a (by simp) h0)

theorem mem_modify {α : Type} {l : List α} {i : Nat} {f : α → α} {x : α} (h : x ∈ l.modify i f) :
    x ∈ l ∨ ∃ y ∈ l, x = f y := by
  rw [List.mem_iff_getElem?] at h
  obtain ⟨j, hj⟩ := h
  rw [List.getElem?_modify] at hj
  cases hq : l[j]? with
  | none => simp [hq] at hj
  | some a =>
    simp [hq] at hj
    have ha : a ∈ l := List.mem_of_getElem? hq
    split_ifs at hj with hc
    · right; exact ⟨a, ha, hj.symm⟩
    · left; rw [← hj]; exact ha

/-! ### the whole dividing stage -/

theorem edgesAt_append_empty (g : Graph) (a : Nat) : edgesAt (g ++ [Point.empty]) a = edgesAt g a := by
  unfold edgesAt
  rw [List.getElem?_append]
  split_ifs with h
  · rfl
  · rw [List.getElem?_eq_none (Nat.le_of_not_lt h)]
    by_cases h2 : a - g.length = 0
    · simp [h2, Point.empty]
    · have : ([Point.empty] : List Point)[a - g.length]? = none := by
        apply List.getElem?_eq_none; simp; omega
      rw [this]

theorem FolWf.append_empty {g : Graph} (h : FolWf g) : FolWf (g ++ [Point.empty]) := by
  refine ⟨?_, ?_⟩
  · intro p e he
    rw [edgesAt_append_empty] at he
    have := h.endValid p e he
    simp; omega
  · intro p f hp
    rw [edgesAt_append_empty, slotCount_eq, cntP_append]
    have hz : cntP (pointsTo p f) [Point.empty] = 0 := by simp [cntP, allEdges, Point.empty]
    rw [hz, Nat.add_zero]
    by_cases hp' : p < g.length
    · rw [← slotCount_eq]; exact h.slot p f hp'
    · -- the new point: nobody points to it, and it has no edges
      have hlen : p = g.length := by simp at hp; omega
      rw [edgesAt_of_ge (by omega)]
      simp only [List.length_nil, Nat.not_lt_zero, if_false]
      unfold cntP
      rw [List.countP_eq_zero]
      intro e he
      simp only [pointsTo_iff, not_and]
      intro h1
      unfold allEdges at he
      rw [List.mem_flatMap] at he
      obtain ⟨pt, hpt, hept⟩ := he
      obtain ⟨i, hi, rfl⟩ := List.mem_iff_getElem.mp hpt
      have := h.endValid i e (by rw [edgesAt_of_lt hi]; exact hept)
      omega

section Stage
variable {K : Type} [LT K] [LE K] [DecidableLT K] [DecidableLE K] [OfNat K 0] [OfNat K 1]

/-- `create_collision_points` appends edge-less points; every end point it names exists afterwards -/
theorem createCollisionPoints_spec {g : Graph} (h : FolWf g) (cs : List (Collision K))
    (hcs : ∀ c ∈ cs, c.p1 < g.length ∧ c.p2 < g.length) :
    FolWf (createCollisionPoints g cs).1 ∧ g.length ≤ (createCollisionPoints g cs).1.length ∧
      ∀ cq ∈ (createCollisionPoints g cs).2, cq.2 < (createCollisionPoints g cs).1.length := by
  unfold createCollisionPoints
  apply foldl_inv (fun st : Graph × List (Collision K × Nat) =>
    FolWf st.1 ∧ g.length ≤ st.1.length ∧ ∀ cq ∈ st.2, cq.2 < st.1.length)
  · intro st c hc ⟨h1, h2, h3⟩
    have hv := hcs c hc
    split_ifs
    · refine ⟨h1, h2, ?_⟩
      intro cq hcq
      rcases List.mem_append.mp hcq with hcq | hcq
      · exact h3 cq hcq
      · simp at hcq; subst hcq; simp; omega
    · refine ⟨h1, h2, ?_⟩
      intro cq hcq
      rcases List.mem_append.mp hcq with hcq | hcq
      · exact h3 cq hcq
      · simp at hcq; subst hcq; simp; omega
    · refine ⟨h1.append_empty, by simp; omega, ?_⟩
      intro cq hcq
      rcases List.mem_append.mp hcq with hcq | hcq
      · have := h3 cq hcq; simp; omega
      · simp at hcq; subst hcq; simp
  · exact ⟨h, Nat.le_refl _, by simp⟩

/-- every end point in the table of `organize_collisions_by_edge` satisfies `P` -/
def TblOk (P : Nat → Prop) (tbl : HitTable K) : Prop :=
  ∀ o ∈ tbl, ∀ row, o = some row → ∀ hits ∈ row, ∀ h ∈ hits, P h.2

theorem TblOk.pushHit {P : Nat → Prop} {tbl : HitTable K} (h : TblOk P tbl) (g : Graph) (p e : Nat) (hit : K × Nat)
    (hp : P hit.2) : TblOk P (pushHit g tbl p e hit) := by
  intro o ho row hrow hits hhits x hx
  unfold Model.Graph.pushHit at ho
  rcases mem_modify ho with ho | ⟨o', ho', rfl⟩
  · exact h o ho row hrow hits hhits x hx
  · simp only [Option.some.injEq] at hrow
    subst hrow
    rcases mem_modify hhits with hh | ⟨hits', hh', rfl⟩
    · cases o' with
      | none => simp only at hh; rw [List.mem_replicate] at hh; rw [hh.2] at hx; simp at hx
      | some row' => exact h _ ho' row' rfl hits hh x hx
    · rcases List.mem_append.mp hx with hx | hx
      · cases o' with
        | none => simp only at hh'; rw [List.mem_replicate] at hh'; rw [hh'.2] at hx; simp at hx
        | some row' => exact h _ ho' row' rfl hits' hh' x hx
      · simp at hx; subst hx; exact hp

theorem organize_ok (P : Nat → Prop) (g : Graph) (cps : List (Collision K × Nat)) (h : ∀ cq ∈ cps, P cq.2) :
    TblOk P (organize g cps) := by
  unfold organize
  apply foldl_inv (TblOk P)
  · intro tbl cq hcq ht
    exact (ht.pushHit g _ _ _ (h cq hcq)).pushHit g _ _ _ (h cq hcq)
  · intro o ho row hrow
    rw [List.mem_replicate] at ho
    rw [ho.2] at hrow
    cases hrow

theorem mem_insertHit (a : K × Nat) (l : List (K × Nat)) (x : K × Nat) : x ∈ insertHit a l ↔ x = a ∨ x ∈ l := by
  induction l with
  | nil => simp [insertHit]
  | cons b l ih =>
    unfold insertHit
    split_ifs
    · simp only [List.mem_cons, ih]
      constructor
      · rintro (h | h | h)
        · exact Or.inr (Or.inl h)
        · exact Or.inl h
        · exact Or.inr (Or.inr h)
      · rintro (h | h | h)
        · exact Or.inr (Or.inl h)
        · exact Or.inl h
        · exact Or.inr (Or.inr h)
    · simp

theorem mem_sortHits (l : List (K × Nat)) (x : K × Nat) : x ∈ sortHits l ↔ x ∈ l := by
  unfold sortHits
  induction l with
  | nil => simp
  | cons a l ih => simp only [List.foldr_cons, mem_insertHit, ih, List.mem_cons]

theorem splitEdge_folWf {g : Graph} (h : FolWf g) (p e : Nat) (hits : List (K × Nat)) (hh : ∀ x ∈ hits, x.2 < g.length) :
    FolWf (splitEdge g p e hits) ∧ (splitEdge g p e hits).length = g.length := by
  unfold splitEdge
  apply splitEdgeS_folWf h
  intro q hq
  rw [List.mem_map] at hq
  obtain ⟨x, hx, rfl⟩ := hq
  rw [List.mem_filter] at hx
  exact hh x ((mem_sortHits hits x).mp hx.1)

theorem splitAll_folWf {g : Graph} (h : FolWf g) (tbl : HitTable K) (ht : TblOk (· < g.length) tbl) :
    FolWf (splitAll g tbl) ∧ (splitAll g tbl).length = g.length := by
  unfold splitAll
  apply foldl_inv (fun g' : Graph => FolWf g' ∧ g'.length = g.length)
  · intro g1 rp hrp ⟨h1, h2⟩
    cases hrow : rp.1 with
    | none => exact ⟨h1, h2⟩
    | some row =>
      simp only
      apply foldl_inv (fun g' : Graph => FolWf g' ∧ g'.length = g.length)
      · intro g2 he hhe ⟨h3, h4⟩
        split_ifs
        · exact ⟨h3, h4⟩
        · have hmem : rp.1 ∈ tbl := List.fst_mem_of_mem_zipIdx hrp
          have hmem2 : he.1 ∈ row := List.fst_mem_of_mem_zipIdx hhe
          have := splitEdge_folWf h3 rp.2 he.2 he.1 (by
            intro x hx
            rw [h4]
            exact ht rp.1 hmem row hrow he.1 hmem2 x hx)
          exact ⟨this.1, by rw [this.2, h4]⟩
      · exact ⟨h1, h2⟩
  · exact ⟨h, rfl⟩

/-- the whole dividing stage keeps the following-edge structure well formed, for every list of collisions between existing points -/
theorem splitStage_folWf {g : Graph} (h : FolWf g) (cs : List (Collision K))
    (hcs : ∀ c ∈ cs, c.p1 < g.length ∧ c.p2 < g.length) :
    FolWf (splitStage g cs) ∧ g.length ≤ (splitStage g cs).length := by
  unfold splitStage
  have h1 := createCollisionPoints_spec h cs hcs
  have h2 := splitAll_folWf h1.1 (organize (createCollisionPoints g cs).1 (createCollisionPoints g cs).2)
    (organize_ok _ _ _ h1.2.2)
  exact ⟨h2.1, by rw [h2.2]; exact h1.2.1⟩

end Stage

/-! ### recalculate_reverse_connections -/

/-- changing only `connected_from` lists keeps the following-edge structure -/
theorem FolWf.of_same_edges {g h : Graph} (hw : FolWf g) (hl : h.length = g.length) (he : ∀ a, edgesAt h a = edgesAt g a)
    (hc : ∀ q, cntP q h = cntP q g) : FolWf h := by
  refine ⟨?_, ?_⟩
  · intro p e hpe; rw [he] at hpe; rw [hl]; exact hw.endValid p e hpe
  · intro p f hp; rw [slotCount_eq, hc, he, ← slotCount_eq]; exact hw.slot p f (by omega)

theorem edgesAt_map_conn (g : Graph) (F : Point → List Nat) (a : Nat) :
    edgesAt (g.map fun pt => { pt with conn := F pt }) a = edgesAt g a := by
  unfold edgesAt
  rw [List.getElem?_map]
  cases g[a]? <;> rfl

theorem connAt_map_conn (g : Graph) (F : Point → List Nat) (a : Nat) (ha : a < g.length) :
    connAt (g.map fun pt => { pt with conn := F pt }) a = F g[a] := by
  unfold connAt
  rw [List.getElem?_map, List.getElem?_eq_getElem ha]
  rfl

theorem cntP_map_conn (q : Edge → Bool) (g : Graph) (F : Point → List Nat) :
    cntP q (g.map fun pt => { pt with conn := F pt }) = cntP q g := by
  induction g with
  | nil => rfl
  | cons pt g ih => simp only [List.map_cons, cntP_cons, ih]

/-- the inner loop of `recalculate_reverse_connections` for the edges of point `k` -/
theorem recalc_inner (k : Nat) (es : List Edge) : ∀ (acc : Graph),
    let r := es.foldl (fun acc ed => updConn acc ed.endIdx (· ++ [k])) acc
    r.length = acc.length ∧ (∀ a, edgesAt r a = edgesAt acc a) ∧ (∀ q, cntP q r = cntP q acc) ∧
    ∀ p c, c ∈ connAt r p ↔ c ∈ connAt acc p ∨ (c = k ∧ p < acc.length ∧ ∃ e ∈ es, e.endIdx = p) := by
  induction es with
  | nil => intro acc; simp
  | cons ed es ih =>
    intro acc
    simp only [List.foldl_cons]
    have := ih (updConn acc ed.endIdx (· ++ [k]))
    simp only at this
    obtain ⟨h1, h2, h3, h4⟩ := this
    refine ⟨by rw [h1]; simp, ?_, ?_, ?_⟩
    · intro a; rw [h2, edgesAt_updConn]
    · intro q; rw [h3, cntP_updConn]
    · intro p c
      rw [h4, connAt_updConn]
      simp only [length_updConn, List.mem_cons, exists_eq_or_imp]
      by_cases hc : p = ed.endIdx ∧ ed.endIdx < acc.length
      · rw [if_pos hc]
        obtain ⟨hc1, hc2⟩ := hc
        simp only [List.mem_append, List.mem_singleton]
        constructor
        · rintro ((h | h) | h)
          · exact Or.inl (hc1 ▸ h)
          · exact Or.inr ⟨h, hc1 ▸ hc2, Or.inl hc1.symm⟩
          · exact Or.inr ⟨h.1, h.2.1, Or.inr h.2.2⟩
        · rintro (h | ⟨h1, h2, (h3 | h3)⟩)
          · exact Or.inl (Or.inl (hc1 ▸ h))
          · exact Or.inl (Or.inr h1)
          · exact Or.inr ⟨h1, h2, h3⟩
      · rw [if_neg hc]
        constructor
        · rintro (h | h)
          · exact Or.inl h
          · exact Or.inr ⟨h.1, h.2.1, Or.inr h.2.2⟩
        · rintro (h | ⟨h1, h2, (h3 | h3)⟩)
          · exact Or.inl h
          · exact absurd ⟨h3.symm, h3 ▸ h2⟩ hc
          · exact Or.inr ⟨h1, h2, h3⟩

theorem recalc_outer (g : Graph) (ks : List Nat) : ∀ (acc : Graph),
    let r := ks.foldl (fun acc p => (edgesAt g p).foldl (fun acc ed => updConn acc ed.endIdx (· ++ [p])) acc) acc
    r.length = acc.length ∧ (∀ a, edgesAt r a = edgesAt acc a) ∧ (∀ q, cntP q r = cntP q acc) ∧
    ∀ p c, c ∈ connAt r p ↔ c ∈ connAt acc p ∨ (c ∈ ks ∧ p < acc.length ∧ ∃ e ∈ edgesAt g c, e.endIdx = p) := by
  induction ks with
  | nil => intro acc; simp
  | cons k ks ih =>
    intro acc
    simp only [List.foldl_cons]
    have hin := recalc_inner k (edgesAt g k) acc
    simp only at hin
    obtain ⟨i1, i2, i3, i4⟩ := hin
    have := ih ((edgesAt g k).foldl (fun acc ed => updConn acc ed.endIdx (· ++ [k])) acc)
    simp only at this
    obtain ⟨h1, h2, h3, h4⟩ := this
    refine ⟨by rw [h1, i1], fun a => by rw [h2, i2], fun q => by rw [h3, i3], ?_⟩
    intro p c
    rw [h4, i4, i1]
    simp only [List.mem_cons]
    constructor
    · rintro ((h | ⟨rfl, h2, h3⟩) | ⟨h1, h2, h3⟩)
      · exact Or.inl h
      · exact Or.inr ⟨Or.inl rfl, h2, h3⟩
      · exact Or.inr ⟨Or.inr h1, h2, h3⟩
    · rintro (h | ⟨(rfl | h1), h2, h3⟩)
      · exact Or.inl (Or.inl h)
      · exact Or.inl (Or.inr ⟨rfl, h2, h3⟩)
      · exact Or.inr ⟨h1, h2, h3⟩

theorem length_recalc (g : Graph) : (recalc g).length = g.length := by
  unfold recalc
  have := recalc_outer g (List.range g.length) (g.map fun pt => { pt with conn := [] })
  simp only at this
  simp only [List.length_map]
  rw [this.1]; simp

theorem edgesAt_recalc (g : Graph) (a : Nat) : edgesAt (recalc g) a = edgesAt g a := by
  unfold recalc
  have := recalc_outer g (List.range g.length) (g.map fun pt => { pt with conn := [] })
  simp only at this
  simp only
  rw [edgesAt_map_conn (F := fun pt => dedupAdj (sortNat pt.conn)), this.2.1, edgesAt_map_conn (F := fun _ => [])]

theorem cntP_recalc (q : Edge → Bool) (g : Graph) : cntP q (recalc g) = cntP q g := by
  unfold recalc
  have := recalc_outer g (List.range g.length) (g.map fun pt => { pt with conn := [] })
  simp only at this
  simp only
  rw [cntP_map_conn (F := fun pt => dedupAdj (sortNat pt.conn)), this.2.2.1, cntP_map_conn (F := fun _ => [])]

/-- after `recalculate_reverse_connections`, `connected_from` of `p` holds exactly the points with an edge to `p` -/
theorem mem_connAt_recalc (g : Graph) (p c : Nat) :
    c ∈ connAt (recalc g) p ↔ p < g.length ∧ c < g.length ∧ ∃ e ∈ edgesAt g c, e.endIdx = p := by
  by_cases hp : p < g.length
  · unfold recalc
    have := recalc_outer g (List.range g.length) (g.map fun pt => { pt with conn := [] })
    simp only at this
    obtain ⟨h1, _, _, h4⟩ := this
    simp only
    have hp' : p < (List.foldl (fun acc p => List.foldl (fun acc ed => updConn acc ed.endIdx fun x => x ++ [p]) acc (edgesAt g p))
        (List.map (fun pt => ({ edges := pt.edges, conn := [] } : Point)) g) (List.range g.length)).length := by
      rw [h1]; simpa using hp
    rw [connAt_map_conn (F := fun pt => dedupAdj (sortNat pt.conn)) _ _ hp', mem_sortDedup, ← connAt_of_lt hp', h4]
    have hz : connAt (List.map (fun pt => ({ edges := pt.edges, conn := [] } : Point)) g) p = [] := by
      rw [connAt_map_conn (F := fun _ => []) _ _ hp]
    rw [hz]
    simp [hp]
  · have : connAt (recalc g) p = [] := connAt_of_ge (by rw [length_recalc]; omega)
    rw [this]
    simp [hp]

theorem nodup_connAt_recalc (g : Graph) (p : Nat) : (connAt (recalc g) p).Nodup := by
  by_cases hp : p < g.length
  · unfold recalc
    have := recalc_outer g (List.range g.length) (g.map fun pt => { pt with conn := [] })
    simp only at this
    obtain ⟨h1, _, _, _⟩ := this
    simp only
    rw [connAt_map_conn (F := fun pt => dedupAdj (sortNat pt.conn)) _ _ (by rw [h1]; simpa using hp)]
    exact nodup_sortDedup _
  · rw [connAt_of_ge (by rw [length_recalc]; omega)]
    exact List.nodup_nil

theorem recalc_folWf {g : Graph} (h : FolWf g) : FolWf (recalc g) :=
  h.of_same_edges (length_recalc g) (edgesAt_recalc g) (fun q => cntP_recalc q g)

/-- `recalculate_reverse_connections` establishes the `connected_from` part of the invariant, exactly -/
theorem recalc_connOk {g : Graph} (h : FolWf g) : ConnOk (recalc g) ∧ ConnExact (recalc g) := by
  refine ⟨⟨?_, nodup_connAt_recalc g, ?_⟩, ?_⟩
  · intro p c hc
    rw [length_recalc]
    exact ((mem_connAt_recalc g p c).mp hc).2.1
  · intro p e he
    rw [edgesAt_recalc] at he
    rw [mem_connAt_recalc]
    have hp : p < g.length := by
      by_contra hp
      rw [edgesAt_of_ge (Nat.le_of_not_lt hp)] at he
      simp at he
    exact ⟨h.endValid p e he, hp, e, he, rfl⟩
  · intro p c hc
    rw [mem_connAt_recalc] at hc
    obtain ⟨_, _, e, he, hep⟩ := hc
    exact ⟨e, by rw [edgesAt_recalc]; exact he, hep⟩

theorem recalc_wf {g : Graph} (h : FolWf g) : Wf (recalc g) := ⟨recalc_folWf h, (recalc_connOk h).1⟩

/-! ### mapping every point -/

/-- apply `fe` to every edge and `fc` to every `connected_from` list -/
def mapPts (fe : Edge → Edge) (fc : List Nat → List Nat) (g : Graph) : Graph :=
  g.map fun pt => { edges := pt.edges.map fe, conn := fc pt.conn }

@[simp] theorem length_mapPts (fe fc) (g : Graph) : (mapPts fe fc g).length = g.length := by simp [mapPts]

theorem edgesAt_mapPts (fe fc) (g : Graph) (a : Nat) : edgesAt (mapPts fe fc g) a = (edgesAt g a).map fe := by
  unfold edgesAt mapPts
  rw [List.getElem?_map]
  cases g[a]? <;> rfl

theorem connAt_mapPts (fe fc) (g : Graph) (a : Nat) :
    connAt (mapPts fe fc g) a = if a < g.length then fc (connAt g a) else [] := by
  unfold connAt mapPts
  rw [List.getElem?_map]
  split_ifs with h
  · rw [List.getElem?_eq_getElem h]; rfl
  · rw [List.getElem?_eq_none (Nat.le_of_not_lt h)]; rfl

theorem cntP_mapPts (q : Edge → Bool) (fe fc) (g : Graph) : cntP q (mapPts fe fc g) = cntP (q ∘ fe) g := by
  induction g with
  | nil => rfl
  | cons pt g ih =>
    have : mapPts fe fc (pt :: g) = { edges := pt.edges.map fe, conn := fc pt.conn } :: mapPts fe fc g := rfl
    rw [this, cntP_cons, cntP_cons, ih, List.countP_map]

theorem mem_allEdges {g : Graph} {e : Edge} : e ∈ allEdges g ↔ ∃ a, e ∈ edgesAt g a := by
  unfold allEdges
  rw [List.mem_flatMap]
  constructor
  · rintro ⟨pt, hpt, he⟩
    obtain ⟨i, hi, rfl⟩ := List.mem_iff_getElem.mp hpt
    exact ⟨i, by rw [edgesAt_of_lt hi]; exact he⟩
  · rintro ⟨a, he⟩
    have ha : a < g.length := by
      by_contra ha
      rw [edgesAt_of_ge (Nat.le_of_not_lt ha)] at he
      simp at he
    exact ⟨g[a], List.getElem_mem ha, by rwa [edgesAt_of_lt ha] at he⟩

theorem cntP_congr {g : Graph} {q q' : Edge → Bool} (h : ∀ a, ∀ e ∈ edgesAt g a, q e = q' e) : cntP q g = cntP q' g := by
  unfold cntP
  apply List.countP_congr
  intro e he
  obtain ⟨a, ha⟩ := mem_allEdges.mp he
  rw [h a e ha]

theorem cntP_eq_zero {g : Graph} {q : Edge → Bool} (h : ∀ a, ∀ e ∈ edgesAt g a, q e = false) : cntP q g = 0 := by
  unfold cntP
  rw [List.countP_eq_zero]
  intro e he
  obtain ⟨a, ha⟩ := mem_allEdges.mp he
  simp [h a e ha]

theorem mem_edgesAt_lt {g : Graph} {a : Nat} {e : Edge} (h : e ∈ edgesAt g a) : a < g.length := by
  by_contra ha
  rw [edgesAt_of_ge (Nat.le_of_not_lt ha)] at h
  simp at h

theorem mem_connAt_lt {g : Graph} {a c : Nat} (h : c ∈ connAt g a) : a < g.length := by
  by_contra ha
  rw [connAt_of_ge (Nat.le_of_not_lt ha)] at h
  simp at h

/-! ### merge -/

theorem merge_eq (g h : Graph) :
    merge g h = g ++ mapPts (fun e => { e with endIdx := e.endIdx + g.length }) (fun c => c.map (· + g.length)) h := rfl

theorem length_merge (g h : Graph) : (merge g h).length = g.length + h.length := by
  simp [merge]

theorem edgesAt_merge (g h : Graph) (a : Nat) :
    edgesAt (merge g h) a = if a < g.length then edgesAt g a
      else (edgesAt h (a - g.length)).map fun e => { e with endIdx := e.endIdx + g.length } := by
  rw [merge_eq]
  split_ifs with ha
  · unfold edgesAt; rw [List.getElem?_append_left ha]
  · rw [← edgesAt_mapPts (fc := fun c => c.map (· + g.length))]
    unfold edgesAt; rw [List.getElem?_append_right (Nat.le_of_not_lt ha)]

theorem connAt_merge (g h : Graph) (a : Nat) :
    connAt (merge g h) a = if a < g.length then connAt g a else (connAt h (a - g.length)).map (· + g.length) := by
  rw [merge_eq]
  split_ifs with ha
  · unfold connAt; rw [List.getElem?_append_left ha]
  · have := connAt_mapPts (fun e => { e with endIdx := e.endIdx + g.length }) (fun c => c.map (· + g.length)) h (a - g.length)
    by_cases hb : a - g.length < h.length
    · rw [if_pos hb] at this
      rw [← this]
      unfold connAt; rw [List.getElem?_append_right (Nat.le_of_not_lt ha)]
    · rw [connAt_of_ge (by simp only [List.length_append, length_mapPts]; omega), connAt_of_ge (Nat.le_of_not_lt hb)]
      rfl

/-- `merge` keeps the invariant: the second graph's indices are offset consistently -/
theorem merge_folWf {g h : Graph} (hg : FolWf g) (hh : FolWf h) : FolWf (merge g h) := by
  refine ⟨?_, ?_⟩
  · intro p e he
    rw [edgesAt_merge] at he
    rw [length_merge]
    split_ifs at he with hp
    · have := hg.endValid p e he; omega
    · rw [List.mem_map] at he
      obtain ⟨e', he', rfl⟩ := he
      have := hh.endValid _ e' he'
      simp only; omega
  · intro p f hp
    rw [length_merge] at hp
    rw [edgesAt_merge, slotCount_eq, merge_eq, cntP_append, cntP_mapPts]
    by_cases hpg : p < g.length
    · -- a point of the first graph: no edge of the second one ends there
      rw [if_pos hpg]
      have hz : cntP (pointsTo p f ∘ fun e => { e with endIdx := e.endIdx + g.length }) h = 0 := by
        apply cntP_eq_zero
        intro a e _
        simp only [Function.comp, pointsTo, Bool.and_eq_false_imp, beq_iff_eq]
        intro h1; omega
      rw [hz, Nat.add_zero, ← slotCount_eq]
      exact hg.slot p f hpg
    · rw [if_neg hpg]
      have hz : cntP (pointsTo p f) g = 0 := by
        apply cntP_eq_zero
        intro a e he
        have := hg.endValid a e he
        simp only [pointsTo, Bool.and_eq_false_imp, beq_iff_eq]
        intro h1; omega
      have hc : cntP (pointsTo p f ∘ fun e => { e with endIdx := e.endIdx + g.length }) h = cntP (pointsTo (p - g.length) f) h := by
        apply cntP_congr
        intro a e _
        simp only [Function.comp, pointsTo]
        congr 1
        simp only [beq_eq_beq]
        omega
      rw [hz, Nat.zero_add, hc, ← slotCount_eq, List.length_map]
      exact hh.slot _ f (by omega)

theorem merge_connOk {g h : Graph} (hg : ConnOk g) (hh : ConnOk h) (hge : ∀ p, ∀ e ∈ edgesAt g p, e.endIdx < g.length) :
    ConnOk (merge g h) := by
  refine ⟨?_, ?_, ?_⟩
  · intro p c hc
    rw [connAt_merge] at hc
    rw [length_merge]
    split_ifs at hc with hp
    · have := hg.valid p c hc; omega
    · rw [List.mem_map] at hc
      obtain ⟨c', hc', rfl⟩ := hc
      have := hh.valid _ c' hc'
      omega
  · intro p
    rw [connAt_merge]
    split_ifs with hp
    · exact hg.nodup p
    · exact List.Nodup.map (fun a b hab => by simpa using hab) (hh.nodup _)
  · intro p e he
    rw [edgesAt_merge] at he
    rw [connAt_merge]
    split_ifs at he with hp
    · have h1 := hge p e he
      rw [if_pos h1]
      exact hg.complete p e he
    · rw [List.mem_map] at he
      obtain ⟨e', he', rfl⟩ := he
      simp only
      rw [if_neg (by omega)]
      rw [List.mem_map]
      refine ⟨p - g.length, ?_, by omega⟩
      have := hh.complete _ e' he'
      simpa using this

theorem merge_wf {g h : Graph} (hg : Wf g) (hh : Wf h) : Wf (merge g h) :=
  ⟨merge_folWf hg.fol hh.fol, merge_connOk hg.conn hh.conn hg.fol.endValid⟩

theorem merge_connExact {g h : Graph} (hg : ConnExact g) (hh : ConnExact h) (hgv : ∀ p, ∀ c ∈ connAt g p, c < g.length) :
    ConnExact (merge g h) := by
  intro p c hc
  rw [connAt_merge] at hc
  split_ifs at hc with hp
  · obtain ⟨e, he, hep⟩ := hg p c hc
    have := hgv p c hc
    exact ⟨e, by rw [edgesAt_merge, if_pos this]; exact he, hep⟩
  · rw [List.mem_map] at hc
    obtain ⟨c', hc', rfl⟩ := hc
    obtain ⟨e, he, hep⟩ := hh _ c' hc'
    refine ⟨{ e with endIdx := e.endIdx + g.length }, ?_, by simp only; omega⟩
    rw [edgesAt_merge, if_neg (by omega)]
    rw [List.mem_map]
    exact ⟨e, by simpa using he, rfl⟩

end Model.Graph
