/-
Helper lemmas for C09: the fold of `path_closest_point` (generated, `Gen.path_closest_point`) as an arg-min over the
curves of the path.
-/
import FloVerif.Lemmas.Nearest

set_option linter.unusedSectionVars false
set_option linter.unusedVariables false
namespace C09L
open Prelude Gen Model.Nearest

variable {K : Type} [Field K] [LinearOrder K] [IsStrictOrderedRing K] [Inhabited K]
local instance fabsNearestPath : FAbs K := ⟨fun a => |a|⟩
variable [FSqrt K] [FConsts K]

/-- a cubic as its four control points -/
abbrev Cv (K : Type) := T4 (V2 K) (V2 K) (V2 K) (V2 K)

/-- squared distance from the query to the point of curve `c` at the parameter `nt` reports -/
def curveDistSq (nt : Cv K → V2 K → K) (point : V2 K) (c : Cv K) : K :=
  dot (point - curve_point_at_pos c.t0 c.t1 c.t2 c.t3 (nt c point)) (point - curve_point_at_pos c.t0 c.t1 c.t2 c.t3 (nt c point))

/-- the state after seeing curve `c` with index `i` -/
def pcStep (nt : Cv K → V2 K → K) (point : V2 K) (st : T4 Nat K K (V2 K)) (i : Nat) (c : Cv K) : T4 Nat K K (V2 K) :=
  if curveDistSq nt point c < st.t2 then ⟨i, nt c point, curveDistSq nt point c, curve_point_at_pos c.t0 c.t1 c.t2 c.t3 (nt c point)⟩ else st

def pcFold (nt : Cv K → V2 K → K) (point : V2 K) : Nat → List (Cv K) → T4 Nat K K (V2 K) → T4 Nat K K (V2 K)
  | _, [], st => st
  | n, c :: rest, st => pcFold nt point (n + 1) rest (pcStep nt point st n c)

theorem path_unfold (nt : Cv K → V2 K → K) (curves : List (Cv K)) (point : V2 K) :
    path_closest_point nt curves point =
      let r := pcFold nt point 0 curves ⟨0, 0, fmaxval, ⟨0, 0⟩⟩
      ⟨r.t0, r.t1, fsqrt r.t2, r.t3⟩ := by
  have h0 : (0.0 : K) = 0 := by norm_num
  have key : ∀ (F : T4 Nat K K (V2 K) → T2 Nat (Cv K) → T4 Nat K K (V2 K)),
      (∀ st i c, F st ⟨i, c⟩ = pcStep nt point st i c) →
      ∀ (l : List (Cv K)) (n : Nat) (st : T4 Nat K K (V2 K)),
        List.foldl F st (List.map (fun p_ => T2.mk p_.2 p_.1) (List.zipIdx l n)) = pcFold nt point n l st := by
    intro F hF l
    induction l with
    | nil => intro n st; rfl
    | cons c rest ih =>
      intro n st
      simp only [List.zipIdx_cons, List.map_cons, List.foldl_cons, pcFold, hF, ih]
  simp only [path_closest_point, foldlT, h0]
  rw [key]
  intro st i c
  by_cases h : curveDistSq nt point c < st.t2
  · simp only [pcStep, if_pos h]
    have h' := h
    unfold curveDistSq at h'
    simp [h', curveDistSq]
  · simp only [pcStep, if_neg h]
    have h' := h
    unfold curveDistSq at h'
    simp [h']

/-- what the fold computes: nothing better than the start, or the FIRST curve of least distance -/
theorem pcFold_spec (nt : Cv K → V2 K → K) (point : V2 K) :
    ∀ (l : List (Cv K)) (n : Nat) (st : T4 Nat K K (V2 K)),
      (pcFold nt point n l st = st ∧ ∀ c ∈ l, st.t2 ≤ curveDistSq nt point c) ∨
      (∃ j c, l[j]? = some c ∧
        pcFold nt point n l st = ⟨n + j, nt c point, curveDistSq nt point c,
          curve_point_at_pos c.t0 c.t1 c.t2 c.t3 (nt c point)⟩ ∧
        curveDistSq nt point c < st.t2 ∧ (∀ c' ∈ l, curveDistSq nt point c ≤ curveDistSq nt point c') ∧
        ∀ i c', i < j → l[i]? = some c' → curveDistSq nt point c < curveDistSq nt point c')
  | [], n, st => Or.inl ⟨rfl, by simp⟩
  | c :: rest, n, st => by
    simp only [pcFold]
    by_cases h : curveDistSq nt point c < st.t2
    · have hs : pcStep nt point st n c = ⟨n, nt c point, curveDistSq nt point c,
          curve_point_at_pos c.t0 c.t1 c.t2 c.t3 (nt c point)⟩ := by simp [pcStep, h]
      rcases pcFold_spec nt point rest (n + 1) (pcStep nt point st n c) with ⟨e, hall⟩ | ⟨j, c2, hj, e, hlt, hall, hfirst⟩
      · right
        refine ⟨0, c, by simp, ?_, h, ?_, ?_⟩
        · rw [e, hs]; simp
        · intro c' hc'
          rcases List.mem_cons.1 hc' with rfl | hc'
          · exact le_refl _
          · have := hall c' hc'; rw [hs] at this; exact this
        · intro i c' hi; omega
      · right
        rw [hs] at hlt
        refine ⟨j + 1, c2, by simpa using hj, ?_, lt_trans hlt h, ?_, ?_⟩
        · rw [e]; congr 1; omega
        · intro c' hc'
          rcases List.mem_cons.1 hc' with rfl | hc'
          · exact hlt.le
          · exact hall c' hc'
        · intro i c' hi hc'
          cases i with
          | zero => simp at hc'; rw [← hc']; exact hlt
          | succ i => exact hfirst i c' (by omega) (by simpa using hc')
    · have hs : pcStep nt point st n c = st := by simp [pcStep, h]
      rw [hs]
      rcases pcFold_spec nt point rest (n + 1) st with ⟨e, hall⟩ | ⟨j, c2, hj, e, hlt, hall, hfirst⟩
      · left
        refine ⟨e, ?_⟩
        intro c' hc'
        rcases List.mem_cons.1 hc' with rfl | hc'
        · exact not_lt.1 h
        · exact hall c' hc'
      · right
        refine ⟨j + 1, c2, by simpa using hj, ?_, hlt, ?_, ?_⟩
        · rw [e]; congr 1; omega
        · intro c' hc'
          rcases List.mem_cons.1 hc' with rfl | hc'
          · exact le_trans hlt.le (not_lt.1 h)
          · exact hall c' hc'
        · intro i c' hi hc'
          cases i with
          | zero => simp at hc'; rw [← hc']; exact lt_of_lt_of_le hlt (not_lt.1 h)
          | succ i => exact hfirst i c' (by omega) (by simpa using hc')

end C09L
