/-
A concrete instance over ℝ for the non-vacuity of C14's assembled theorems (`ray_collisions_even`, `collision_on_edge_and_ray`):
the rectangle (0,-1)-(1,1) with straight edges, the ray along the x axis, and the exact solver of linear polynomials.  Facts only;
the `example` is in `Props/C14.lean`.
-/
import FloVerif.Lemmas.RayParity
import FloVerif.Lemmas.RayPipeline
import FloVerif.Lemmas.RayHits
import FloVerif.Lemmas.RayCoeffs
import FloVerif.Lemmas.RaySort
open Prelude Gen C04 Polynomial RaySide Model.Ray RayPipeline RayParity
set_option linter.unusedSectionVars false
namespace RayExample
section
variable [FSqrt ℝ] [FConsts ℝ]
noncomputable local instance : FAbs ℝ := ⟨fun a => |a|⟩
noncomputable local instance : FSignum ℝ := ⟨fun a => if a < 0 then -1 else 1⟩
noncomputable local instance : OfInt ℝ := ⟨fun n => (n : ℝ)⟩

/-- a rectangle with straight edges -/
noncomputable def rect : GraphPathM ℝ := { points := [
  { position := ⟨0, -1⟩, forward_edges := [{ cp1 := ⟨0, -1/3⟩, cp2 := ⟨0, 1/3⟩, end_idx := 1, following_edge_idx := 0 }], connected_from := [3] },
  { position := ⟨0, 1⟩, forward_edges := [{ cp1 := ⟨1/3, 1⟩, cp2 := ⟨2/3, 1⟩, end_idx := 2, following_edge_idx := 0 }], connected_from := [0] },
  { position := ⟨1, 1⟩, forward_edges := [{ cp1 := ⟨1, 1/3⟩, cp2 := ⟨1, -1/3⟩, end_idx := 3, following_edge_idx := 0 }], connected_from := [1] },
  { position := ⟨1, -1⟩, forward_edges := [{ cp1 := ⟨2/3, -1⟩, cp2 := ⟨1/3, -1⟩, end_idx := 0, following_edge_idx := 0 }], connected_from := [2] }] }

noncomputable def ray : T2 (V2 ℝ) (V2 ℝ) := T2.mk ⟨-1, 0⟩ ⟨1, 0⟩
noncomputable def solve (p : T4 ℝ ℝ ℝ ℝ) : List ℝ := if p.t2 = 0 then [] else [-p.t3 / p.t2]

theorem refs : allEdgeRefs (rayPathOf rect) = [⟨0, 0, false⟩, ⟨1, 0, false⟩, ⟨2, 0, false⟩, ⟨3, 0, false⟩] := by
  simp [allEdgeRefs, rayPathOf, gp_num_points, gp_num_edges, rect, listGet, List.range, List.range.loop]

theorem e0 : (rayPathOf rect).get_edge ⟨0, 0, false⟩ = T4.mk ⟨0, -1⟩ ⟨0, -1/3⟩ ⟨0, 1/3⟩ ⟨0, 1⟩ := by
  simp [rayPathOf, curveOf, gp_get_edge, ge_start_point, ge_end_point, ge_control_points, ge_start_point_index, ge_end_point_index, ge_edge, rect, listGet]
theorem e1 : (rayPathOf rect).get_edge ⟨1, 0, false⟩ = T4.mk ⟨0, 1⟩ ⟨1/3, 1⟩ ⟨2/3, 1⟩ ⟨1, 1⟩ := by
  simp [rayPathOf, curveOf, gp_get_edge, ge_start_point, ge_end_point, ge_control_points, ge_start_point_index, ge_end_point_index, ge_edge, rect, listGet]
theorem e2 : (rayPathOf rect).get_edge ⟨2, 0, false⟩ = T4.mk ⟨1, 1⟩ ⟨1, 1/3⟩ ⟨1, -1/3⟩ ⟨1, -1⟩ := by
  simp [rayPathOf, curveOf, gp_get_edge, ge_start_point, ge_end_point, ge_control_points, ge_start_point_index, ge_end_point_index, ge_edge, rect, listGet]
theorem e3 : (rayPathOf rect).get_edge ⟨3, 0, false⟩ = T4.mk ⟨1, -1⟩ ⟨2/3, -1⟩ ⟨1/3, -1⟩ ⟨0, -1⟩ := by
  simp [rayPathOf, curveOf, gp_get_edge, ge_start_point, ge_end_point, ge_control_points, ge_start_point_index, ge_end_point_index, ge_edge, rect, listGet]

theorem co (hs1 : fsqrt (1 : ℝ) = 1) : line_coefficients_2d ray = T3.mk 0 1 0 := by
  have hu : line_coefficients_2d_unnormalized ray = T3.mk 0 1 0 := by
    simp only [ray, line_coefficients_2d_unnormalized, FatLineLemmas.V2_sub_x, FatLineLemmas.V2_sub_y, fabs]; norm_num
  simp only [line_coefficients_2d, hu]; norm_num [hs1]

theorem bal : Balanced (edgeList (rayPathOf rect)) := by
  have : edgeList (rayPathOf rect) = [(0, 1), (1, 2), (2, 3), (3, 0)] := by
    rw [edgeList, refs]
    simp [rayPathOf, gp_edge_start_point_idx, gp_edge_end_point_idx, rect, listGet]
  rw [this]; decide
theorem p0 : distPoly (K := ℝ) ⟨0, -1⟩ ⟨0, -1/3⟩ ⟨0, 1/3⟩ ⟨0, 1⟩ ray = T4.mk 0 0 (-4) 2 := by
  simp only [ray, distPoly, bezier_coefficients, lineA, lineB, lineC]; norm_num
theorem p1 : distPoly (K := ℝ) ⟨0, 1⟩ ⟨1/3, 1⟩ ⟨2/3, 1⟩ ⟨1, 1⟩ ray = T4.mk 0 0 0 (-2) := by
  simp only [ray, distPoly, bezier_coefficients, lineA, lineB, lineC]; norm_num
theorem p2 : distPoly (K := ℝ) ⟨1, 1⟩ ⟨1, 1/3⟩ ⟨1, -1/3⟩ ⟨1, -1⟩ ray = T4.mk 0 0 4 (-2) := by
  simp only [ray, distPoly, bezier_coefficients, lineA, lineB, lineC]; norm_num
theorem p3 : distPoly (K := ℝ) ⟨1, -1⟩ ⟨2/3, -1⟩ ⟨1/3, -1⟩ ⟨0, -1⟩ ray = T4.mk 0 0 0 2 := by
  simp only [ray, distPoly, bezier_coefficients, lineA, lineB, lineC]; norm_num

theorem nosnap (hs4 : fsqrt (4 : ℝ) = 2) (a b : V2 ℝ) (ha : a.y = 1 ∨ a.y = -1) (hb : b.y = 1 ∨ b.y = -1) : RayHits.NoSnap a b ray := by
  have h4 : (0 * 0 + (-1 - 1) * (-1 - 1) : ℝ) = 4 := by norm_num
  simp only [RayHits.NoSnap, ray, lineA, lineB, lineC, SMALL_DISTANCE, sub_self, h4, hs4]
  rcases ha with ha | ha <;> rcases hb with hb | hb <;> rw [ha, hb] <;> norm_num [abs_of_pos]


theorem s0 : solve (T4.mk 0 0 (-4) 2) = [1 / 2] := by simp only [solve]; norm_num
theorem s1 : solve (T4.mk 0 0 0 (-2)) = [] := by simp [solve]
theorem s2 : solve (T4.mk 0 0 4 (-2)) = [1 / 2] := by simp only [solve]; norm_num
theorem s3 : solve (T4.mk 0 0 0 2) = [] := by simp [solve]

theorem r0 : (rayPathOf rect).get_edge ⟨0, 0, true⟩ = T4.mk ⟨0, 1⟩ ⟨0, 1/3⟩ ⟨0, -1/3⟩ ⟨0, -1⟩ := by
  simp [rayPathOf, curveOf, gp_get_edge, ge_start_point, ge_end_point, ge_control_points, ge_start_point_index, ge_end_point_index, ge_edge, rect, listGet]
theorem r1 : (rayPathOf rect).get_edge ⟨1, 0, true⟩ = T4.mk ⟨1, 1⟩ ⟨2/3, 1⟩ ⟨1/3, 1⟩ ⟨0, 1⟩ := by
  simp [rayPathOf, curveOf, gp_get_edge, ge_start_point, ge_end_point, ge_control_points, ge_start_point_index, ge_end_point_index, ge_edge, rect, listGet]
theorem r2 : (rayPathOf rect).get_edge ⟨2, 0, true⟩ = T4.mk ⟨1, -1⟩ ⟨1, -1/3⟩ ⟨1, 1/3⟩ ⟨1, 1⟩ := by
  simp [rayPathOf, curveOf, gp_get_edge, ge_start_point, ge_end_point, ge_control_points, ge_start_point_index, ge_end_point_index, ge_edge, rect, listGet]
theorem r3 : (rayPathOf rect).get_edge ⟨3, 0, true⟩ = T4.mk ⟨0, -1⟩ ⟨1/3, -1⟩ ⟨2/3, -1⟩ ⟨1, -1⟩ := by
  simp [rayPathOf, curveOf, gp_get_edge, ge_start_point, ge_end_point, ge_control_points, ge_start_point_index, ge_end_point_index, ge_edge, rect, listGet]

/-- an edge that starts at height ±1 is not collinear with the ray y = 0 -/
theorem nc (hs1 : fsqrt (1 : ℝ) = 1) (c : Curve4 ℝ) (h : c.t0.y = 1 ∨ c.t0.y = -1) : curve_is_collinear c (line_coefficients_2d ray) = false := by
  apply not_collinear_of_far_start
  rw [co hs1]
  simp only [sdist, SMALL_DISTANCE]
  rcases h with h | h <;> rw [h] <;> norm_num [abs_of_pos]

theorem mem_refs (e : EdgeRef) (he : e ∈ allEdgeRefs (rayPathOf rect)) :
    e = ⟨0, 0, false⟩ ∨ e = ⟨1, 0, false⟩ ∨ e = ⟨2, 0, false⟩ ∨ e = ⟨3, 0, false⟩ := by
  rw [refs] at he
  simpa using he


theorem next_of (e : EdgeRef) (he : e ∈ allEdgeRefs (rayPathOf rect)) (e' : EdgeRef)
    (he' : e' ∈ (rayPathOf rect).edges_for_point ((rayPathOf rect).edge_end_point_idx e)) :
    e' = ⟨0, 0, false⟩ ∨ e' = ⟨1, 0, false⟩ ∨ e' = ⟨2, 0, false⟩ ∨ e' = ⟨3, 0, false⟩ := by
  rcases mem_refs e he with rfl | rfl | rfl | rfl <;>
    simp [rayPathOf, gp_edges_for_point, gp_edge_end_point_idx, rect, listGet, List.range, List.range.loop] at he' <;> simp [he']

theorem prev_of (e : EdgeRef) (he : e ∈ allEdgeRefs (rayPathOf rect)) (e' : EdgeRef)
    (he' : e' ∈ (rayPathOf rect).reverse_edges_for_point ((rayPathOf rect).edge_start_point_idx e)) :
    e' = ⟨0, 0, true⟩ ∨ e' = ⟨1, 0, true⟩ ∨ e' = ⟨2, 0, true⟩ ∨ e' = ⟨3, 0, true⟩ := by
  rcases mem_refs e he with rfl | rfl | rfl | rfl <;>
    simp [rayPathOf, gp_reverse_edges_for_point, gp_edge_start_point_idx, rect, listGet, List.range, List.range.loop] at he' <;> simp [he']

/-- the hits on the four edges: parameter 1/2 on the two vertical edges, none on the horizontal ones -/
theorem hit_half (hs4 : fsqrt (4 : ℝ) = 2) (e : EdgeRef) (he : e ∈ allEdgeRefs (rayPathOf rect)) (h : T3 ℝ ℝ (V2 ℝ))
    (hh : h ∈ RayHits.cirOf solve (rayPathOf rect) ray e) : h.t0 = 1 / 2 ∧ (e = ⟨0, 0, false⟩ ∨ e = ⟨2, 0, false⟩) := by
  unfold RayHits.cirOf at hh
  rcases mem_refs e he with rfl | rfl | rfl | rfl
  · rw [e0] at hh
    have := (RayHits.hit_t_eq_root solve _ _ _ _ ray (nosnap hs4 _ _ (Or.inr rfl) (Or.inl rfl))
      (by rw [p0, s0]; intro r hr; rw [List.mem_singleton.1 hr]; simp only [polyEval]; norm_num) h hh).1
    rw [p0, s0] at this
    exact ⟨List.mem_singleton.1 this, Or.inl rfl⟩
  · rw [e1] at hh
    have := (RayHits.hit_t_eq_root solve _ _ _ _ ray (nosnap hs4 _ _ (Or.inl rfl) (Or.inl rfl))
      (by rw [p1, s1]; intro r hr; exact absurd hr (by simp)) h hh).1
    rw [p1, s1] at this
    exact absurd this (by simp)
  · rw [e2] at hh
    have := (RayHits.hit_t_eq_root solve _ _ _ _ ray (nosnap hs4 _ _ (Or.inl rfl) (Or.inr rfl))
      (by rw [p2, s2]; intro r hr; rw [List.mem_singleton.1 hr]; simp only [polyEval]; norm_num) h hh).1
    rw [p2, s2] at this
    exact ⟨List.mem_singleton.1 this, Or.inr rfl⟩
  · rw [e3] at hh
    have := (RayHits.hit_t_eq_root solve _ _ _ _ ray (nosnap hs4 _ _ (Or.inr rfl) (Or.inr rfl))
      (by rw [p3, s3]; intro r hr; exact absurd hr (by simp)) h hh).1
    rw [p3, s3] at this
    exact absurd this (by simp)

theorem pre (hs1 : fsqrt (1 : ℝ) = 1) (hs4 : fsqrt (4 : ℝ) = 2) :
    RayPipeline.Precondition (rayPathOf rect) ray (RayHits.cirOf solve (rayPathOf rect) ray) where
  ends := fun e he => rayPathOf_ends rect e (allEdgeRefs_reverse_false _ e he)
  not_collinear := by
    intro e he
    rcases mem_refs e he with rfl | rfl | rfl | rfl
    · rw [e0]; exact nc hs1 _ (Or.inr rfl)
    · rw [e1]; exact nc hs1 _ (Or.inl rfl)
    · rw [e2]; exact nc hs1 _ (Or.inl rfl)
    · rw [e3]; exact nc hs1 _ (Or.inr rfl)
  not_collinear_next := by
    intro e he e' he'
    rcases next_of e he e' he' with rfl | rfl | rfl | rfl
    · rw [e0]; exact nc hs1 _ (Or.inr rfl)
    · rw [e1]; exact nc hs1 _ (Or.inl rfl)
    · rw [e2]; exact nc hs1 _ (Or.inl rfl)
    · rw [e3]; exact nc hs1 _ (Or.inr rfl)
  not_collinear_prev := by
    intro e he e' he'
    rcases prev_of e he e' he' with rfl | rfl | rfl | rfl
    · rw [r0]; exact nc hs1 _ (Or.inl rfl)
    · rw [r1]; exact nc hs1 _ (Or.inl rfl)
    · rw [r2]; exact nc hs1 _ (Or.inr rfl)
    · rw [r3]; exact nc hs1 _ (Or.inr rfl)
  not_at_vertex := by
    intro e he h hh
    obtain ⟨ht, _⟩ := hit_half hs4 e he h hh
    rw [ht]
    exact ⟨not_at_start_of_mid _ _ _ _ (by norm_num), not_at_end_of_mid _ _ _ _ (by norm_num)⟩
  not_tangent := by
    intro e he h hh
    obtain ⟨ht, hcase⟩ := hit_half hs4 e he h hh
    have h0 : (0.0 : ℝ) = 0 := by norm_num
    have h4 : ((0 : ℝ) + 2 * 2 + 0 * 0) = 4 := by norm_num
    have h4' : ((0 : ℝ) + 0 * 0 + 2 * 2) = 4 := by norm_num
    have h4'' : ((0 : ℝ) + 0 * 0 + (-2) * (-2)) = 4 := by norm_num
    rw [tangent_keep_iff]
    simp only [mkHit, ht]
    rcases hcase with rfl | rfl
    · rw [e0]
      simp only [ray, line_point_at_pos, to_unit_vector, ray_tangent_at_pos, derivative4, de_casteljau3, de_casteljau2, magnitude, dot, h0]
      norm_num [hs4, h4, h4']
    · rw [e2]
      simp only [ray, line_point_at_pos, to_unit_vector, ray_tangent_at_pos, derivative4, de_casteljau3, de_casteljau2, magnitude, dot, h0]
      norm_num [hs4, h4, h4'']

theorem nf (hs1 : fsqrt (1 : ℝ) = 1) : RayCoeffs.normFactor ray = 1 := by
  have hu : line_coefficients_2d_unnormalized ray = T3.mk 0 1 0 := by
    simp only [ray, line_coefficients_2d_unnormalized, FatLineLemmas.V2_sub_x, FatLineLemmas.V2_sub_y, fabs]; norm_num
  simp only [RayCoeffs.normFactor, hu]; norm_num [hs1]

theorem linear_nodup (c d : ℝ) : (RayHits.toPoly (T4.mk 0 0 c d)).roots.Nodup := by
  have : RayHits.toPoly (T4.mk (0 : ℝ) 0 c d) = C c * X + C d := by simp [RayHits.toPoly]
  rw [this, Multiset.nodup_iff_count_le_one]
  intro a
  calc Multiset.count a (C c * X + C d).roots ≤ Multiset.card (C c * X + C d).roots := Multiset.count_le_card _ _
    _ ≤ (C c * X + C d).natDegree := card_roots' _
    _ ≤ 1 := natDegree_linear_le


theorem off (hs1 : fsqrt (1 : ℝ) = 1) (e : EdgeRef) (he : e ∈ allEdgeRefs (rayPathOf rect)) :
    sdist (line_coefficients_2d ray) ((rayPathOf rect).get_edge e).t0 ≠ 0 ∧ sdist (line_coefficients_2d ray) ((rayPathOf rect).get_edge e).t3 ≠ 0 := by
  rw [co hs1]
  rcases mem_refs e he with rfl | rfl | rfl | rfl
  · rw [e0]; simp only [sdist]; norm_num
  · rw [e1]; simp only [sdist]; norm_num
  · rw [e2]; simp only [sdist]; norm_num
  · rw [e3]; simp only [sdist]; norm_num

theorem nosnap_all (hs4 : fsqrt (4 : ℝ) = 2) (e : EdgeRef) (he : e ∈ allEdgeRefs (rayPathOf rect)) :
    RayHits.NoSnap ((rayPathOf rect).get_edge e).t0 ((rayPathOf rect).get_edge e).t3 ray := by
  rcases mem_refs e he with rfl | rfl | rfl | rfl
  · rw [e0]; exact nosnap hs4 _ _ (Or.inr rfl) (Or.inl rfl)
  · rw [e1]; exact nosnap hs4 _ _ (Or.inl rfl) (Or.inl rfl)
  · rw [e2]; exact nosnap hs4 _ _ (Or.inl rfl) (Or.inr rfl)
  · rw [e3]; exact nosnap hs4 _ _ (Or.inr rfl) (Or.inr rfl)

theorem solve_all (e : EdgeRef) (he : e ∈ allEdgeRefs (rayPathOf rect)) (r : ℝ) :
    r ∈ solve (distPoly ((rayPathOf rect).get_edge e).t0 ((rayPathOf rect).get_edge e).t1 ((rayPathOf rect).get_edge e).t2
        ((rayPathOf rect).get_edge e).t3 ray) ↔
      polyEval (distPoly ((rayPathOf rect).get_edge e).t0 ((rayPathOf rect).get_edge e).t1 ((rayPathOf rect).get_edge e).t2
        ((rayPathOf rect).get_edge e).t3 ray) r = 0 := by
  rcases mem_refs e he with rfl | rfl | rfl | rfl
  · rw [e0, p0, s0]; simp only [polyEval, List.mem_singleton]; constructor <;> intro h <;> [rw [h]; skip] <;> [norm_num; linarith]
  · rw [e1, p1, s1]; simp only [polyEval]; norm_num
  · rw [e2, p2, s2]; simp only [polyEval, List.mem_singleton]; constructor <;> intro h <;> [rw [h]; skip] <;> [norm_num; linarith]
  · rw [e3, p3, s3]; simp only [polyEval]; norm_num

theorem nodup_all (e : EdgeRef) (he : e ∈ allEdgeRefs (rayPathOf rect)) :
    (solve (distPoly ((rayPathOf rect).get_edge e).t0 ((rayPathOf rect).get_edge e).t1 ((rayPathOf rect).get_edge e).t2
        ((rayPathOf rect).get_edge e).t3 ray)).Nodup := by
  rcases mem_refs e he with rfl | rfl | rfl | rfl
  · rw [e0, p0, s0]; exact List.nodup_singleton _
  · rw [e1, p1, s1]; exact List.nodup_nil
  · rw [e2, p2, s2]; exact List.nodup_singleton _
  · rw [e3, p3, s3]; exact List.nodup_nil

theorem simple_all (e : EdgeRef) (he : e ∈ allEdgeRefs (rayPathOf rect)) :
    (RayHits.toPoly (distPoly ((rayPathOf rect).get_edge e).t0 ((rayPathOf rect).get_edge e).t1 ((rayPathOf rect).get_edge e).t2
        ((rayPathOf rect).get_edge e).t3 ray)).roots.Nodup := by
  rcases mem_refs e he with rfl | rfl | rfl | rfl
  · rw [e0, p0]; exact linear_nodup _ _
  · rw [e1, p1]; exact linear_nodup _ _
  · rw [e2, p2]; exact linear_nodup _ _
  · rw [e3, p3]; exact linear_nodup _ _

theorem ray_not_point : lineA ray ≠ 0 ∨ lineB ray ≠ 0 := by
  right; simp only [ray, lineB]; norm_num

/-- the model returns a collision (the crossing of the left edge at parameter 1/2) -/
theorem has_collision (hs1 : fsqrt (1 : ℝ) = 1) (hs4 : fsqrt (4 : ℝ) = 2) :
    ∃ c, c ∈ ray_collisions (rayPathOf rect) ray (RayHits.cirOf solve (rayPathOf rect) ray) := by
  -- a hit on edge 0
  obtain ⟨h, hh, _, _⟩ := hit_complete solve ⟨0, -1⟩ ⟨0, -1/3⟩ ⟨0, 1/3⟩ ⟨0, 1⟩ ray ray_not_point
    (by intro t ht; rw [p0] at ht ⊢; rw [s0]; simp only [polyEval] at ht; rw [List.mem_singleton]; linarith)
    (1 / 2) (by norm_num) (by norm_num)
    (by rw [← poly_is_signed_distance, p0]; simp only [polyEval]; norm_num)
  have hside : ray_can_intersect ((rayPathOf rect).get_edge ⟨0, 0, false⟩) (line_coefficients_2d ray) = RayCanIntersect.CrossesRay := by
    rw [rci_unfold, e0, co hs1]
    simp only [sdist, SMALL_DISTANCE, fsignum]
    norm_num [abs_of_pos]
  have hraw : mkHit ⟨0, 0, false⟩ h ∈ (allEdgeRefs (rayPathOf rect)).flatMap (rawOf (rayPathOf rect) (line_coefficients_2d ray)
      (RayHits.cirOf solve (rayPathOf rect) ray)) := by
    rw [List.mem_flatMap]
    refine ⟨⟨0, 0, false⟩, by rw [refs]; simp, ?_⟩
    unfold rawOf
    rw [if_pos hside, List.mem_map]
    refine ⟨h, ?_, rfl⟩
    unfold RayHits.cirOf
    rw [e0]
    exact hh
  refine ⟨flagOne (rayPathOf rect) (mkHit ⟨0, 0, false⟩ h), ?_⟩
  unfold ray_collisions
  rw [RaySort.mem_sortBy, unsorted_inert _ _ _ (pre hs1 hs4), flag_eq_map, List.mem_map]
  exact ⟨_, hraw, rfl⟩
end
end RayExample
