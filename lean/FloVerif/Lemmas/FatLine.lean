/-
Helper lemmas for C13 (fat-line clipping).  Everything here is about the *generated* definitions in
`Gen/FatLine.lean`, `Gen/Lines.lean`, `Gen/Basis.lean`, or about plain ordered-field facts.

Parts: 1 min/max, points, the Bernstein inequalities behind the 3/4 and 4/9 factors;
       2 plane geometry of y-monotone chains against a vertical strip (no generated code);
       3 the generated `clip_t` as loop + decision tree (`clip_t_eq` is `rfl`), loop invariants;
       4 the loop's candidates bracket every hull point inside the strip;
       5 every branch of `distance_curve_convex_hull` is a polygon bracketed by two chains of walked edges.
-/
import FloVerif.Gen.FatLine
import FloVerif.Gen.Basis
import Mathlib.Tactic.Ring
import Mathlib.Tactic.NormNum.OfScientific
import Mathlib.Tactic.FieldSimp
import Mathlib.Tactic.Linarith
import Mathlib.Tactic.Positivity
import Mathlib.Tactic.LinearCombination
import Mathlib.Algebra.Order.Field.Basic
import Mathlib.Algebra.Order.AbsoluteValue.Basic

set_option linter.unusedSectionVars false
set_option linter.unusedVariables false
namespace FatLineLemmas
open Prelude Gen

variable {K : Type} [Field K] [LinearOrder K] [IsStrictOrderedRing K] [Inhabited K]

/-- in exact arithmetic `f64::abs` is the absolute value -/
local instance : FAbs K := ⟨fun a => |a|⟩

/-! ## min / max -/

theorem fmin_eq_min (a b : K) : fmin a b = min a b := by
  simp only [fmin, beq_self_eq_true, if_true]
  rcases lt_or_ge b a with h | h
  · rw [if_pos h, min_eq_right (le_of_lt h)]
  · rw [if_neg (not_lt.2 h), min_eq_left h]

theorem fmax_eq_max (a b : K) : fmax a b = max a b := by
  simp only [fmax, beq_self_eq_true, if_true]
  rcases lt_or_ge a b with h | h
  · rw [if_pos h, max_eq_right (le_of_lt h)]
  · rw [if_neg (not_lt.2 h), max_eq_left h]

/-! ## component-wise point arithmetic -/

@[simp] theorem V2_add_x (a b : V2 K) : (a + b).x = a.x + b.x := rfl
@[simp] theorem V2_add_y (a b : V2 K) : (a + b).y = a.y + b.y := rfl
@[simp] theorem V2_sub_x (a b : V2 K) : (a - b).x = a.x - b.x := rfl
@[simp] theorem V2_sub_y (a b : V2 K) : (a - b).y = a.y - b.y := rfl
@[simp] theorem V2_mul_x (a : V2 K) (k : K) : (a * k).x = a.x * k := rfl
@[simp] theorem V2_mul_y (a : V2 K) (k : K) : (a * k).y = a.y * k := rfl

/-- Bernstein form of the generated de Casteljau evaluation (scalar) -/
theorem dc4_bernstein (t a b c d : K) :
    de_casteljau4 t a b c d = (1-t)^3 * a + 3*(1-t)^2*t * b + 3*(1-t)*t^2 * c + t^3 * d := by
  simp only [de_casteljau4, de_casteljau3, de_casteljau2]
  norm_num
  ring

theorem dc4_x (t : K) (a b c d : V2 K) : (de_casteljau4 t a b c d).x = de_casteljau4 t a.x b.x c.x d.x := rfl
theorem dc4_y (t : K) (a b c d : V2 K) : (de_casteljau4 t a b c d).y = de_casteljau4 t a.y b.y c.y d.y := rfl

/-! ## the Bernstein inequalities behind the 3/4 and 4/9 factors -/

theorem fat_same_side (t d1 d2 : K) (ht0 : 0 ≤ t) (ht1 : t ≤ 1) (h1 : 0 ≤ d1) (h2 : 0 ≤ d2) :
    3*(1-t)^2*t*d1 + 3*(1-t)*t^2*d2 ≤ (3/4) * max d1 d2 := by
  have hm1 : d1 ≤ max d1 d2 := le_max_left _ _
  have hm2 : d2 ≤ max d1 d2 := le_max_right _ _
  have key : 3*(1-t)^2*t + 3*(1-t)*t^2 ≤ 3/4 := by nlinarith [sq_nonneg (t - 1/2)]
  have a1 : 0 ≤ 3*(1-t)^2*t := by positivity
  have a2 : 0 ≤ 3*(1-t)*t^2 := by
    have : 0 ≤ 1 - t := by linarith
    positivity
  nlinarith [mul_le_mul_of_nonneg_left hm1 a1, mul_le_mul_of_nonneg_left hm2 a2]

theorem fat_opp_side (t d1 d2 : K) (ht0 : 0 ≤ t) (ht1 : t ≤ 1) (h1 : 0 ≤ d1) (h2 : d2 ≤ 0) :
    3*(1-t)^2*t*d1 + 3*(1-t)*t^2*d2 ≤ (4/9) * d1 := by
  have a2 : 0 ≤ 3*(1-t)*t^2 := by
    have : 0 ≤ 1 - t := by linarith
    positivity
  have key : 3*(1-t)^2*t ≤ 4/9 := by
    nlinarith [sq_nonneg (t - 1/3), mul_nonneg ht0 (sq_nonneg (t-1/3)), mul_nonneg (sub_nonneg.2 ht1) (sq_nonneg (t-1/3))]
  nlinarith [mul_nonneg a2 (neg_nonneg.2 h2), mul_le_mul_of_nonneg_right key h1]

theorem fat_opp_side' (t d1 d2 : K) (ht0 : 0 ≤ t) (ht1 : t ≤ 1) (h1 : d1 ≤ 0) (h2 : 0 ≤ d2) :
    3*(1-t)^2*t*d1 + 3*(1-t)*t^2*d2 ≤ (4/9) * d2 := by
  have a1 : 0 ≤ 3*(1-t)^2*t := by positivity
  have key : 3*(1-t)*t^2 ≤ 4/9 := by
    nlinarith [sq_nonneg (t - 2/3), mul_nonneg ht0 (sq_nonneg (t-2/3)), mul_nonneg (sub_nonneg.2 ht1) (sq_nonneg (t-2/3))]
  nlinarith [mul_nonneg a1 (neg_nonneg.2 h1), mul_le_mul_of_nonneg_right key h2]

/-- the inner Bernstein terms -/
def inner (t d1 d2 : K) : K := 3*(1-t)^2*t*d1 + 3*(1-t)*t^2*d2

theorem inner_neg (t d1 d2 : K) : inner t (-d1) (-d2) = - inner t d1 d2 := by
  simp only [inner]; ring

/-- the estimate of Sederberg–Nishita as the code applies it: factor 3/4 if `d1*d2 > 0`, else 4/9 -/
theorem inner_bounds (t d1 d2 : K) (ht0 : 0 ≤ t) (ht1 : t ≤ 1) :
    (if d1 * d2 > 0 then (3/4 : K) else 4/9) * min (min d1 d2) 0 ≤ inner t d1 d2 ∧
    inner t d1 d2 ≤ (if d1 * d2 > 0 then (3/4 : K) else 4/9) * max (max d1 d2) 0 := by
  have a1 : 0 ≤ 3*(1-t)^2*t := by positivity
  have a2 : 0 ≤ 3*(1-t)*t^2 := by
    have : 0 ≤ 1 - t := by linarith
    positivity
  by_cases hp : d1 * d2 > 0
  · rw [if_pos hp]
    rcases (mul_pos_iff.1 hp) with ⟨p1, p2⟩ | ⟨n1, n2⟩
    · have hmax : max (max d1 d2) 0 = max d1 d2 := max_eq_left (le_trans (le_of_lt p1) (le_max_left _ _))
      have hmin : min (min d1 d2) 0 = 0 := min_eq_right (le_min (le_of_lt p1) (le_of_lt p2))
      rw [hmax, hmin]
      refine ⟨?_, fat_same_side t d1 d2 ht0 ht1 (le_of_lt p1) (le_of_lt p2)⟩
      simp only [inner]
      nlinarith [mul_nonneg a1 (le_of_lt p1), mul_nonneg a2 (le_of_lt p2)]
    · have hmax : max (max d1 d2) 0 = 0 := max_eq_right (max_le (le_of_lt n1) (le_of_lt n2))
      have hmin : min (min d1 d2) 0 = min d1 d2 := min_eq_left (le_trans (min_le_left _ _) (le_of_lt n1))
      rw [hmax, hmin]
      have h := fat_same_side t (-d1) (-d2) ht0 ht1 (by linarith) (by linarith)
      have hm : max (-d1) (-d2) = - min d1 d2 := by
        rcases le_total d1 d2 with h12 | h12
        · rw [min_eq_left h12, max_eq_left (neg_le_neg h12)]
        · rw [min_eq_right h12, max_eq_right (neg_le_neg h12)]
      refine ⟨?_, ?_⟩
      · simp only [inner]; rw [hm] at h; linarith
      · simp only [inner]
        nlinarith [mul_nonneg a1 (le_of_lt (neg_pos.2 n1)), mul_nonneg a2 (le_of_lt (neg_pos.2 n2))]
  · rw [if_neg hp]
    have hp' : d1 * d2 ≤ 0 := not_lt.1 hp
    rcases le_total 0 d1 with p1 | n1
    · rcases le_total 0 d2 with p2 | n2
      · -- both ≥ 0 and product ≤ 0: one of them is 0
        have hz : d1 = 0 ∨ d2 = 0 := by
          have : d1 * d2 = 0 := le_antisymm hp' (mul_nonneg p1 p2)
          exact mul_eq_zero.1 this
        have hmin : min (min d1 d2) 0 = 0 := min_eq_right (le_min p1 p2)
        rw [hmin]
        refine ⟨by simp only [inner]; nlinarith [mul_nonneg a1 p1, mul_nonneg a2 p2], ?_⟩
        rcases hz with rfl | rfl
        · have := fat_opp_side' t 0 d2 ht0 ht1 le_rfl p2
          rw [max_eq_right p2, max_eq_left p2]; simpa [inner] using this
        · have := fat_opp_side t d1 0 ht0 ht1 p1 le_rfl
          rw [max_eq_left p1, max_eq_left p1]; simpa [inner] using this
      · have hmax : max (max d1 d2) 0 = d1 := by rw [max_eq_left (le_trans n2 p1), max_eq_left p1]
        have hmin : min (min d1 d2) 0 = d2 := by rw [min_eq_right (le_trans n2 p1), min_eq_left n2]
        rw [hmax, hmin]
        refine ⟨?_, fat_opp_side t d1 d2 ht0 ht1 p1 n2⟩
        have := fat_opp_side' t (-d1) (-d2) ht0 ht1 (by linarith) (by linarith)
        simp only [inner]; linarith
    · rcases le_total 0 d2 with p2 | n2
      · have hmax : max (max d1 d2) 0 = d2 := by rw [max_eq_right (le_trans n1 p2), max_eq_left p2]
        have hmin : min (min d1 d2) 0 = d1 := by rw [min_eq_left (le_trans n1 p2), min_eq_left n1]
        rw [hmax, hmin]
        refine ⟨?_, fat_opp_side' t d1 d2 ht0 ht1 n1 p2⟩
        have := fat_opp_side t (-d1) (-d2) ht0 ht1 (by linarith) (by linarith)
        simp only [inner]; linarith
      · have hz : d1 = 0 ∨ d2 = 0 := by
          have : d1 * d2 = 0 := le_antisymm hp' (mul_nonneg_of_nonpos_of_nonpos n1 n2)
          exact mul_eq_zero.1 this
        have hmax : max (max d1 d2) 0 = 0 := max_eq_right (max_le n1 n2)
        rw [hmax]
        refine ⟨?_, by simp only [inner]; nlinarith [mul_nonneg a1 (neg_nonneg.2 n1), mul_nonneg a2 (neg_nonneg.2 n2)]⟩
        rcases hz with rfl | rfl
        · have := fat_opp_side' t 0 (-d2) ht0 ht1 le_rfl (by linarith)
          rw [min_eq_right n2, min_eq_left n2]; simp only [inner] at *; linarith
        · have := fat_opp_side t (-d1) 0 ht0 ht1 (by linarith) le_rfl
          rw [min_eq_left n1, min_eq_left n1]; simp only [inner] at *; linarith

/-! # Part 2: y-monotone chains against a vertical strip -/

/-- `(A, B)` are neighbours (in this order) in the list -/
def Consec : List (V2 K) → V2 K → V2 K → Prop
  | A' :: B' :: rest, A, B => (A = A' ∧ B = B') ∨ Consec (B' :: rest) A B
  | _, _, _ => False

theorem consec_cons (A' B' : V2 K) (rest : List (V2 K)) (A B : V2 K) :
    Consec (A' :: B' :: rest) A B ↔ (A = A' ∧ B = B') ∨ Consec (B' :: rest) A B := Iff.rfl
theorem consec_nil (A B : V2 K) : ¬ Consec ([] : List (V2 K)) A B := fun h => h
theorem consec_single (C A B : V2 K) : ¬ Consec [C] A B := fun h => h

/-- ordinates strictly increase along the list -/
def Ascending (l : List (V2 K)) : Prop := ∀ A B, Consec l A B → A.y < B.y

theorem Ascending.tail {A : V2 K} {l : List (V2 K)} (h : Ascending (A :: l)) : Ascending l := by
  intro X Y hc
  cases l with
  | nil => exact absurd hc (consec_nil _ _)
  | cons B rest => exact h X Y (Or.inr hc)

/-- every edge of an ascending chain starts at or above the chain's first point -/
theorem Ascending.head_le : ∀ (l : List (V2 K)) (C : V2 K), Ascending (C :: l) → ∀ A B, Consec (C :: l) A B → C.y ≤ A.y
  | [], C, _, A, B, hc => absurd hc (consec_single _ _ _)
  | D :: rest, C, hasc, A, B, hc => by
    rcases hc with ⟨rfl, rfl⟩ | hc
    · exact le_rfl
    · have h1 : C.y < D.y := hasc C D (Or.inl ⟨rfl, rfl⟩)
      exact le_trans (le_of_lt h1) (Ascending.head_le rest D hasc.tail A B hc)

/-- the abscissa of the edge `A → B` at height `y`, scaled by `B.y − A.y` -/
def chainAt (A B : V2 K) (y : K) : K := A.x * (B.y - y) + B.x * (y - A.y)

/-- the ordinate at which the line through `A`, `B` has abscissa `d`, as `solve_line_y` computes it (`m·d + c`) -/
def crossY (A B : V2 K) (d : K) : K := (B.y - A.y) / (B.x - A.x) * d + (A.y - (B.y - A.y) / (B.x - A.x) * A.x)

theorem crossY_eq (A B : V2 K) (d : K) : crossY A B d = A.y + ((d - A.x) * (B.y - A.y)) / (B.x - A.x) := by
  simp only [crossY]; ring

theorem crossY_symm (A B : V2 K) (d : K) (h : A.x ≠ B.x) : crossY A B d = crossY B A d := by
  have h1 : B.x - A.x ≠ 0 := sub_ne_zero.2 (Ne.symm h)
  have h2 : A.x - B.x ≠ 0 := sub_ne_zero.2 h
  simp only [crossY]
  field_simp
  ring

/-- `c` is the crossing ordinate of some non-vertical edge of the chain with the vertical line `x = d` -/
def Crossing (l : List (V2 K)) (d c : K) : Prop :=
  ∃ A B, Consec l A B ∧ A.x ≠ B.x ∧ min A.x B.x ≤ d ∧ d ≤ max A.x B.x ∧ A.y ≤ c ∧ c ≤ B.y ∧ c = crossY A B d

theorem Crossing.cons {l : List (V2 K)} {d c : K} (C : V2 K) (h : Crossing l d c) : Crossing (C :: l) d c := by
  obtain ⟨A, B, hc, rest⟩ := h
  cases l with
  | nil => exact absurd hc (consec_nil _ _)
  | cons D l' => exact ⟨A, B, Or.inr hc, rest⟩

/-! ### single edges -/

/-- going up, the chain is left of `d` at height `y` and its upper end is right of `d`: it crosses `d` above `y` -/
theorem edge_up_left (A B : V2 K) (y d : K) (hAB : A.y < B.y) (hy0 : A.y ≤ y) (hy1 : y ≤ B.y)
    (hch : chainAt A B y ≤ d * (B.y - A.y)) (hB : d < B.x) :
    A.x ≤ d ∧ y ≤ crossY A B d ∧ crossY A B d ≤ B.y := by
  simp only [chainAt] at hch
  have hA : A.x ≤ d := by
    rcases lt_or_eq_of_le hy1 with hlt | heq
    · have hpos : 0 < B.y - y := sub_pos.2 hlt
      have h1 : A.x * (B.y - y) ≤ d * (B.y - y) := by
        nlinarith [mul_nonneg (le_of_lt (sub_pos.2 hB)) (sub_nonneg.2 hy0)]
      exact le_of_mul_le_mul_right h1 hpos
    · exfalso
      subst heq
      have : B.x * (B.y - A.y) ≤ d * (B.y - A.y) := by linarith
      have := le_of_mul_le_mul_right this (sub_pos.2 hAB)
      exact absurd hB (not_lt.2 this)
  have hΔ : 0 < B.x - A.x := by linarith
  refine ⟨hA, ?_, ?_⟩
  · rw [crossY_eq, ← sub_le_iff_le_add', le_div_iff₀ hΔ]
    linarith
  · rw [crossY_eq, ← le_sub_iff_add_le', div_le_iff₀ hΔ]
    nlinarith [mul_nonneg (le_of_lt (sub_pos.2 hB)) (le_of_lt (sub_pos.2 hAB))]

/-- going down, the chain is left of `d` at height `y` and its lower end is right of `d`: it crosses `d` below `y` -/
theorem edge_down_left (A B : V2 K) (y d : K) (hAB : A.y < B.y) (hy0 : A.y ≤ y) (hy1 : y ≤ B.y)
    (hch : chainAt A B y ≤ d * (B.y - A.y)) (hA : d < A.x) :
    B.x ≤ d ∧ A.y ≤ crossY A B d ∧ crossY A B d ≤ y := by
  simp only [chainAt] at hch
  have hB : B.x ≤ d := by
    rcases lt_or_eq_of_le hy0 with hlt | heq
    · have hpos : 0 < y - A.y := sub_pos.2 hlt
      have h1 : B.x * (y - A.y) ≤ d * (y - A.y) := by
        nlinarith [mul_nonneg (le_of_lt (sub_pos.2 hA)) (sub_nonneg.2 hy1)]
      exact le_of_mul_le_mul_right h1 hpos
    · exfalso
      subst heq
      have : A.x * (B.y - A.y) ≤ d * (B.y - A.y) := by linarith
      have := le_of_mul_le_mul_right this (sub_pos.2 hAB)
      exact absurd hA (not_lt.2 this)
  have hΔ : B.x - A.x < 0 := by linarith
  refine ⟨hB, ?_, ?_⟩
  · rw [crossY_eq, ← sub_le_iff_le_add', le_div_iff_of_neg hΔ]
    nlinarith [mul_nonneg (le_of_lt (sub_pos.2 hA)) (le_of_lt (sub_pos.2 hAB))]
  · rw [crossY_eq, ← le_sub_iff_add_le', div_le_iff_of_neg hΔ]
    linarith

/-- mirror image of `edge_up_left` -/
theorem edge_up_right (A B : V2 K) (y d : K) (hAB : A.y < B.y) (hy0 : A.y ≤ y) (hy1 : y ≤ B.y)
    (hch : d * (B.y - A.y) ≤ chainAt A B y) (hB : B.x < d) :
    d ≤ A.x ∧ y ≤ crossY A B d ∧ crossY A B d ≤ B.y := by
  simp only [chainAt] at hch
  have hA : d ≤ A.x := by
    rcases lt_or_eq_of_le hy1 with hlt | heq
    · have hpos : 0 < B.y - y := sub_pos.2 hlt
      have h1 : d * (B.y - y) ≤ A.x * (B.y - y) := by
        nlinarith [mul_nonneg (le_of_lt (sub_pos.2 hB)) (sub_nonneg.2 hy0)]
      exact le_of_mul_le_mul_right h1 hpos
    · exfalso
      subst heq
      have : d * (B.y - A.y) ≤ B.x * (B.y - A.y) := by linarith
      have := le_of_mul_le_mul_right this (sub_pos.2 hAB)
      exact absurd hB (not_lt.2 this)
  have hΔ : B.x - A.x < 0 := by linarith
  refine ⟨hA, ?_, ?_⟩
  · rw [crossY_eq, ← sub_le_iff_le_add', le_div_iff_of_neg hΔ]
    linarith
  · rw [crossY_eq, ← le_sub_iff_add_le', div_le_iff_of_neg hΔ]
    nlinarith [mul_nonneg (le_of_lt (sub_pos.2 hB)) (le_of_lt (sub_pos.2 hAB))]

/-- mirror image of `edge_down_left` -/
theorem edge_down_right (A B : V2 K) (y d : K) (hAB : A.y < B.y) (hy0 : A.y ≤ y) (hy1 : y ≤ B.y)
    (hch : d * (B.y - A.y) ≤ chainAt A B y) (hA : A.x < d) :
    d ≤ B.x ∧ A.y ≤ crossY A B d ∧ crossY A B d ≤ y := by
  simp only [chainAt] at hch
  have hB : d ≤ B.x := by
    rcases lt_or_eq_of_le hy0 with hlt | heq
    · have hpos : 0 < y - A.y := sub_pos.2 hlt
      have h1 : d * (y - A.y) ≤ B.x * (y - A.y) := by
        nlinarith [mul_nonneg (le_of_lt (sub_pos.2 hA)) (sub_nonneg.2 hy1)]
      exact le_of_mul_le_mul_right h1 hpos
    · exfalso
      subst heq
      have : d * (B.y - A.y) ≤ A.x * (B.y - A.y) := by linarith
      have := le_of_mul_le_mul_right this (sub_pos.2 hAB)
      exact absurd hA (not_lt.2 this)
  have hΔ : 0 < B.x - A.x := by linarith
  refine ⟨hB, ?_, ?_⟩
  · rw [crossY_eq, ← sub_le_iff_le_add', le_div_iff₀ hΔ]
    nlinarith [mul_nonneg (le_of_lt (sub_pos.2 hA)) (le_of_lt (sub_pos.2 hAB))]
  · rw [crossY_eq, ← le_sub_iff_add_le', div_le_iff₀ hΔ]
    linarith

/-! ### chains -/

/-- at height `y` the chain is (weakly) left of the vertical line `x = d` -/
def LeftAt (l : List (V2 K)) (y d : K) : Prop :=
  ∃ A B, Consec l A B ∧ A.y ≤ y ∧ y ≤ B.y ∧ chainAt A B y ≤ d * (B.y - A.y)

/-- at height `y` the chain is (weakly) right of the vertical line `x = d` -/
def RightAt (l : List (V2 K)) (y d : K) : Prop :=
  ∃ A B, Consec l A B ∧ A.y ≤ y ∧ y ≤ B.y ∧ d * (B.y - A.y) ≤ chainAt A B y

theorem chain_up_left : ∀ (l : List (V2 K)), Ascending l → ∀ y d : K, LeftAt l y d →
    (∃ T, l.getLast? = some T ∧ d < T.x) → ∃ c, Crossing l d c ∧ y ≤ c
  | [], _, _, _, ⟨_, _, hc, _⟩, _ => absurd hc (consec_nil _ _)
  | [_], _, _, _, ⟨_, _, hc, _⟩, _ => absurd hc (consec_single _ _ _)
  | A :: B :: rest, hasc, y, d, ⟨A', B', hc, hy0, hy1, hch⟩, ⟨T, hT, hTx⟩ => by
    have hABy : A.y < B.y := hasc A B (Or.inl ⟨rfl, rfl⟩)
    rcases hc with ⟨rfl, rfl⟩ | hc
    · by_cases hB : d < B'.x
      · obtain ⟨h1, h2, h3⟩ := edge_up_left A' B' y d hABy hy0 hy1 hch hB
        exact ⟨crossY A' B' d, ⟨A', B', Or.inl ⟨rfl, rfl⟩, ne_of_lt (lt_of_le_of_lt h1 hB), min_le_of_left_le h1,
          le_max_of_le_right (le_of_lt hB), le_trans hy0 h2, h3, rfl⟩, h2⟩
      · have hB' : B'.x ≤ d := not_lt.1 hB
        cases rest with
        | nil =>
          simp only [List.getLast?_cons_cons, List.getLast?_singleton, Option.some.injEq] at hT
          subst hT
          exact absurd hTx hB
        | cons C rest' =>
          have hBC : B'.y < C.y := hasc B' C (Or.inr (Or.inl ⟨rfl, rfl⟩))
          have hl : LeftAt (B' :: C :: rest') B'.y d :=
            ⟨B', C, Or.inl ⟨rfl, rfl⟩, le_rfl, le_of_lt hBC, by
              simp only [chainAt, sub_self, mul_zero, add_zero]
              exact mul_le_mul_of_nonneg_right hB' (le_of_lt (sub_pos.2 hBC))⟩
          obtain ⟨c, hcr, hyc⟩ := chain_up_left (B' :: C :: rest') hasc.tail B'.y d hl
            ⟨T, by simpa only [List.getLast?_cons_cons] using hT, hTx⟩
          exact ⟨c, hcr.cons A', le_trans hy1 hyc⟩
    · obtain ⟨c, hcr, hyc⟩ := chain_up_left (B :: rest) hasc.tail y d ⟨A', B', hc, hy0, hy1, hch⟩
        ⟨T, by simpa only [List.getLast?_cons_cons] using hT, hTx⟩
      exact ⟨c, hcr.cons A, hyc⟩

theorem chain_up_right : ∀ (l : List (V2 K)), Ascending l → ∀ y d : K, RightAt l y d →
    (∃ T, l.getLast? = some T ∧ T.x < d) → ∃ c, Crossing l d c ∧ y ≤ c
  | [], _, _, _, ⟨_, _, hc, _⟩, _ => absurd hc (consec_nil _ _)
  | [_], _, _, _, ⟨_, _, hc, _⟩, _ => absurd hc (consec_single _ _ _)
  | A :: B :: rest, hasc, y, d, ⟨A', B', hc, hy0, hy1, hch⟩, ⟨T, hT, hTx⟩ => by
    have hABy : A.y < B.y := hasc A B (Or.inl ⟨rfl, rfl⟩)
    rcases hc with ⟨rfl, rfl⟩ | hc
    · by_cases hB : B'.x < d
      · obtain ⟨h1, h2, h3⟩ := edge_up_right A' B' y d hABy hy0 hy1 hch hB
        exact ⟨crossY A' B' d, ⟨A', B', Or.inl ⟨rfl, rfl⟩, ne_of_gt (lt_of_lt_of_le hB h1), min_le_of_right_le (le_of_lt hB),
          le_max_of_le_left h1, le_trans hy0 h2, h3, rfl⟩, h2⟩
      · have hB' : d ≤ B'.x := not_lt.1 hB
        cases rest with
        | nil =>
          simp only [List.getLast?_cons_cons, List.getLast?_singleton, Option.some.injEq] at hT
          subst hT
          exact absurd hTx hB
        | cons C rest' =>
          have hBC : B'.y < C.y := hasc B' C (Or.inr (Or.inl ⟨rfl, rfl⟩))
          have hl : RightAt (B' :: C :: rest') B'.y d :=
            ⟨B', C, Or.inl ⟨rfl, rfl⟩, le_rfl, le_of_lt hBC, by
              simp only [chainAt, sub_self, mul_zero, add_zero]
              exact mul_le_mul_of_nonneg_right hB' (le_of_lt (sub_pos.2 hBC))⟩
          obtain ⟨c, hcr, hyc⟩ := chain_up_right (B' :: C :: rest') hasc.tail B'.y d hl
            ⟨T, by simpa only [List.getLast?_cons_cons] using hT, hTx⟩
          exact ⟨c, hcr.cons A', le_trans hy1 hyc⟩
    · obtain ⟨c, hcr, hyc⟩ := chain_up_right (B :: rest) hasc.tail y d ⟨A', B', hc, hy0, hy1, hch⟩
        ⟨T, by simpa only [List.getLast?_cons_cons] using hT, hTx⟩
      exact ⟨c, hcr.cons A, hyc⟩

theorem chain_down_left : ∀ (l : List (V2 K)), Ascending l → ∀ y d : K, LeftAt l y d →
    (∃ H, l.head? = some H ∧ d < H.x) → ∃ c, Crossing l d c ∧ c ≤ y
  | [], _, _, _, ⟨_, _, hc, _⟩, _ => absurd hc (consec_nil _ _)
  | [_], _, _, _, ⟨_, _, hc, _⟩, _ => absurd hc (consec_single _ _ _)
  | A :: B :: rest, hasc, y, d, ⟨A', B', hc, hy0, hy1, hch⟩, ⟨H, hH, hHx⟩ => by
    have hABy : A.y < B.y := hasc A B (Or.inl ⟨rfl, rfl⟩)
    simp only [List.head?_cons, Option.some.injEq] at hH
    subst hH
    rcases hc with ⟨rfl, rfl⟩ | hc
    · obtain ⟨h1, h2, h3⟩ := edge_down_left A' B' y d hABy hy0 hy1 hch hHx
      exact ⟨crossY A' B' d, ⟨A', B', Or.inl ⟨rfl, rfl⟩, ne_of_gt (lt_of_le_of_lt h1 hHx), min_le_of_right_le h1,
        le_max_of_le_left (le_of_lt hHx), h2, le_trans h3 hy1, rfl⟩, h3⟩
    · by_cases hB : d < B.x
      · obtain ⟨c, hcr, hyc⟩ := chain_down_left (B :: rest) hasc.tail y d ⟨A', B', hc, hy0, hy1, hch⟩
          ⟨B, rfl, hB⟩
        exact ⟨c, hcr.cons A, hyc⟩
      · have hB' : B.x ≤ d := not_lt.1 hB
        have hch' : chainAt A B B.y ≤ d * (B.y - A.y) := by
          simp only [chainAt, sub_self, mul_zero, zero_add]
          exact mul_le_mul_of_nonneg_right hB' (le_of_lt (sub_pos.2 hABy))
        obtain ⟨h1, h2, h3⟩ := edge_down_left A B B.y d hABy (le_of_lt hABy) le_rfl hch' hHx
        have hBy : B.y ≤ A'.y := Ascending.head_le rest B hasc.tail A' B' hc
        exact ⟨crossY A B d, ⟨A, B, Or.inl ⟨rfl, rfl⟩, ne_of_gt (lt_of_le_of_lt h1 hHx), min_le_of_right_le h1,
          le_max_of_le_left (le_of_lt hHx), h2, h3, rfl⟩, le_trans h3 (le_trans hBy hy0)⟩

theorem chain_down_right : ∀ (l : List (V2 K)), Ascending l → ∀ y d : K, RightAt l y d →
    (∃ H, l.head? = some H ∧ H.x < d) → ∃ c, Crossing l d c ∧ c ≤ y
  | [], _, _, _, ⟨_, _, hc, _⟩, _ => absurd hc (consec_nil _ _)
  | [_], _, _, _, ⟨_, _, hc, _⟩, _ => absurd hc (consec_single _ _ _)
  | A :: B :: rest, hasc, y, d, ⟨A', B', hc, hy0, hy1, hch⟩, ⟨H, hH, hHx⟩ => by
    have hABy : A.y < B.y := hasc A B (Or.inl ⟨rfl, rfl⟩)
    simp only [List.head?_cons, Option.some.injEq] at hH
    subst hH
    rcases hc with ⟨rfl, rfl⟩ | hc
    · obtain ⟨h1, h2, h3⟩ := edge_down_right A' B' y d hABy hy0 hy1 hch hHx
      exact ⟨crossY A' B' d, ⟨A', B', Or.inl ⟨rfl, rfl⟩, ne_of_lt (lt_of_lt_of_le hHx h1), min_le_of_left_le (le_of_lt hHx),
        le_max_of_le_right h1, h2, le_trans h3 hy1, rfl⟩, h3⟩
    · by_cases hB : B.x < d
      · obtain ⟨c, hcr, hyc⟩ := chain_down_right (B :: rest) hasc.tail y d ⟨A', B', hc, hy0, hy1, hch⟩
          ⟨B, rfl, hB⟩
        exact ⟨c, hcr.cons A, hyc⟩
      · have hB' : d ≤ B.x := not_lt.1 hB
        have hch' : d * (B.y - A.y) ≤ chainAt A B B.y := by
          simp only [chainAt, sub_self, mul_zero, zero_add]
          exact mul_le_mul_of_nonneg_right hB' (le_of_lt (sub_pos.2 hABy))
        obtain ⟨h1, h2, h3⟩ := edge_down_right A B B.y d hABy (le_of_lt hABy) le_rfl hch' hHx
        have hBy : B.y ≤ A'.y := Ascending.head_le rest B hasc.tail A' B' hc
        exact ⟨crossY A B d, ⟨A, B, Or.inl ⟨rfl, rfl⟩, ne_of_lt (lt_of_lt_of_le hHx h1), min_le_of_left_le (le_of_lt hHx),
          le_max_of_le_right h1, h2, h3, rfl⟩, le_trans h3 (le_trans hBy hy0)⟩

/-- a chain from `H` up to `T` has an edge at every height in between -/
theorem chain_edge_at : ∀ (A B : V2 K) (rest : List (V2 K)) (T : V2 K) (y : K),
    (A :: B :: rest).getLast? = some T → A.y ≤ y → y ≤ T.y →
    ∃ X Y, Consec (A :: B :: rest) X Y ∧ X.y ≤ y ∧ y ≤ Y.y
  | A, B, [], T, y, hT, h0, h1 => by
    simp only [List.getLast?_cons_cons, List.getLast?_singleton, Option.some.injEq] at hT
    subst hT
    exact ⟨A, B, Or.inl ⟨rfl, rfl⟩, h0, h1⟩
  | A, B, C :: rest, T, y, hT, h0, h1 => by
    by_cases hy : y ≤ B.y
    · exact ⟨A, B, Or.inl ⟨rfl, rfl⟩, h0, hy⟩
    · obtain ⟨X, Y, hc, hx, hy'⟩ := chain_edge_at B C rest T y (by simpa only [List.getLast?_cons_cons] using hT)
        (le_of_lt (not_le.1 hy)) h1
      exact ⟨X, Y, Or.inr hc, hx, hy'⟩

/-! ### a point between a left chain and a right chain, inside a vertical strip -/

/-- Setting: two ascending chains `L` (left) and `R` (right) from a common bottom `H` to a common top `T`; the point `Q`
    is on the right of every edge line of `L` and on the left of every edge line of `R` (as every point of the convex
    polygon bounded by the two chains is), and lies in the strip `dmin ≤ x ≤ dmax`.
    Then an ordinate at least `Q.y` is found at `T` (if `T` is in the strip), or where `L` crosses `dmax`, or where `R`
    crosses `dmin`. -/
theorem strip_top (L R : List (V2 K)) (H T Q : V2 K) (dmin dmax : K)
    (hL : Ascending L) (hR : Ascending R) (hL2 : 2 ≤ L.length) (hR2 : 2 ≤ R.length)
    (hLH : L.head? = some H) (hRH : R.head? = some H) (hLT : L.getLast? = some T) (hRT : R.getLast? = some T)
    (hQL : ∀ A B, Consec L A B → chainAt A B Q.y ≤ Q.x * (B.y - A.y))
    (hQR : ∀ A B, Consec R A B → Q.x * (B.y - A.y) ≤ chainAt A B Q.y)
    (hy0 : H.y ≤ Q.y) (hy1 : Q.y ≤ T.y) (hx0 : dmin ≤ Q.x) (hx1 : Q.x ≤ dmax) :
    ∃ c, Q.y ≤ c ∧ ((dmin ≤ T.x ∧ T.x ≤ dmax ∧ c = T.y) ∨ Crossing L dmax c ∨ Crossing R dmin c) := by
  by_cases h1 : dmax < T.x
  · -- the left chain crosses dmax
    match L, hL2, hLH, hLT with
    | A :: B :: rest, _, hLH, hLT =>
      simp only [List.head?_cons, Option.some.injEq] at hLH
      subst hLH
      obtain ⟨X, Y, hc, hX, hY⟩ := chain_edge_at A B rest T Q.y hLT hy0 hy1
      have hXY : X.y < Y.y := hL X Y hc
      have hl : LeftAt (A :: B :: rest) Q.y dmax :=
        ⟨X, Y, hc, hX, hY, le_trans (hQL X Y hc) (mul_le_mul_of_nonneg_right hx1 (le_of_lt (sub_pos.2 hXY)))⟩
      obtain ⟨c, hcr, hyc⟩ := chain_up_left _ hL Q.y dmax hl ⟨T, hLT, h1⟩
      exact ⟨c, hyc, Or.inr (Or.inl hcr)⟩
  · by_cases h2 : T.x < dmin
    · match R, hR2, hRH, hRT with
      | A :: B :: rest, _, hRH, hRT =>
        simp only [List.head?_cons, Option.some.injEq] at hRH
        subst hRH
        obtain ⟨X, Y, hc, hX, hY⟩ := chain_edge_at A B rest T Q.y hRT hy0 hy1
        have hXY : X.y < Y.y := hR X Y hc
        have hl : RightAt (A :: B :: rest) Q.y dmin :=
          ⟨X, Y, hc, hX, hY, le_trans (mul_le_mul_of_nonneg_right hx0 (le_of_lt (sub_pos.2 hXY))) (hQR X Y hc)⟩
        obtain ⟨c, hcr, hyc⟩ := chain_up_right _ hR Q.y dmin hl ⟨T, hRT, h2⟩
        exact ⟨c, hyc, Or.inr (Or.inr hcr)⟩
    · exact ⟨T.y, hy1, Or.inl ⟨not_lt.1 h2, not_lt.1 h1, rfl⟩⟩

/-- the same at the lower end -/
theorem strip_bottom (L R : List (V2 K)) (H T Q : V2 K) (dmin dmax : K)
    (hL : Ascending L) (hR : Ascending R) (hL2 : 2 ≤ L.length) (hR2 : 2 ≤ R.length)
    (hLH : L.head? = some H) (hRH : R.head? = some H) (hLT : L.getLast? = some T) (hRT : R.getLast? = some T)
    (hQL : ∀ A B, Consec L A B → chainAt A B Q.y ≤ Q.x * (B.y - A.y))
    (hQR : ∀ A B, Consec R A B → Q.x * (B.y - A.y) ≤ chainAt A B Q.y)
    (hy0 : H.y ≤ Q.y) (hy1 : Q.y ≤ T.y) (hx0 : dmin ≤ Q.x) (hx1 : Q.x ≤ dmax) :
    ∃ c, c ≤ Q.y ∧ ((dmin ≤ H.x ∧ H.x ≤ dmax ∧ c = H.y) ∨ Crossing L dmax c ∨ Crossing R dmin c) := by
  by_cases h1 : dmax < H.x
  · match L, hL2, hLH, hLT with
    | A :: B :: rest, _, hLH, hLT =>
      simp only [List.head?_cons, Option.some.injEq] at hLH
      subst hLH
      obtain ⟨X, Y, hc, hX, hY⟩ := chain_edge_at A B rest T Q.y hLT hy0 hy1
      have hXY : X.y < Y.y := hL X Y hc
      have hl : LeftAt (A :: B :: rest) Q.y dmax :=
        ⟨X, Y, hc, hX, hY, le_trans (hQL X Y hc) (mul_le_mul_of_nonneg_right hx1 (le_of_lt (sub_pos.2 hXY)))⟩
      obtain ⟨c, hcr, hyc⟩ := chain_down_left _ hL Q.y dmax hl ⟨A, rfl, h1⟩
      exact ⟨c, hyc, Or.inr (Or.inl hcr)⟩
  · by_cases h2 : H.x < dmin
    · match R, hR2, hRH, hRT with
      | A :: B :: rest, _, hRH, hRT =>
        simp only [List.head?_cons, Option.some.injEq] at hRH
        subst hRH
        obtain ⟨X, Y, hc, hX, hY⟩ := chain_edge_at A B rest T Q.y hRT hy0 hy1
        have hXY : X.y < Y.y := hR X Y hc
        have hl : RightAt (A :: B :: rest) Q.y dmin :=
          ⟨X, Y, hc, hX, hY, le_trans (mul_le_mul_of_nonneg_right hx0 (le_of_lt (sub_pos.2 hXY))) (hQR X Y hc)⟩
        obtain ⟨c, hcr, hyc⟩ := chain_down_right _ hR Q.y dmin hl ⟨A, rfl, h2⟩
        exact ⟨c, hyc, Or.inr (Or.inr hcr)⟩
    · exact ⟨H.y, hy0, Or.inl ⟨not_lt.1 h2, not_lt.1 h1, rfl⟩⟩

/-! # Part 3: the structure of the generated `clip_t` -/

theorem fmin_fun : (fmin : K → K → K) = min := by funext a b; exact fmin_eq_min a b
theorem fmax_fun : (fmax : K → K → K) = max := by funext a b; exact fmax_eq_max a b

/-- fold a candidate ordinate into the running (min, max) pair if the condition holds -/
def inc (c : Bool) (y : K) (st : T2 K K) : T2 K K := if c then T2.mk (fmin st.t0 y) (fmax st.t1 y) else st

/-- fold an optional crossing ordinate in, if it lies in [0,1] -/
def incOpt (o : Option K) (st : T2 K K) : T2 K K :=
  match o with
  | some y => inc (decide ((0.0 : K) ≤ y) && decide (y ≤ (1.0 : K))) y st
  | _ => st

/-- one iteration of the loop of `clip_t` -/
def clipStep (dmin dmax : K) (hull : List (V2 K)) (st : T2 K K) (idx : Nat) : T2 K K :=
  let p1 := listGet hull idx
  let p2 := listGet hull ((idx + 1) % hull.length)
  let s := solve_line_y (T2.mk dmin dmax) (T2.mk p1 p2)
  inc (decide (p2.x ≤ dmax) && decide (p2.x ≥ dmin)) p2.y
    (inc (decide (p1.x ≤ dmax) && decide (p1.x ≥ dmin)) p1.y (incOpt s.t1 (incOpt s.t0 st)))

section
variable [FConsts K]

/-- the decision tree at the end of `clip_t` -/
def clipDecide (fl : FatLineT K) (hull : List (V2 K)) (st : T2 K K) : Option (T2 K K) :=
  if decide (st.t0 > st.t1) then
    if st.t0 == (fmaxval : K) then
      if st.t1 != (fminval : K) then some (T2.mk (0.0 : K) st.t1)
      else if decide (fl.d_min > List.foldl fmax (fneginf : K) (hull.map (fun p => p.x))) ||
              decide (fl.d_max < List.foldl fmin (finf : K) (hull.map (fun p => p.x))) then none
      else some (T2.mk (0.0 : K) (1.0 : K))
    else some (T2.mk st.t0 (1.0 : K))
  else if decide (st.t0 < (0.0 : K)) then
    (if decide (st.t1 < (0.0 : K)) then none else if decide (st.t1 > (1.0 : K)) then some (T2.mk (0.0 : K) (1.0 : K))
      else some (T2.mk (0.0 : K) st.t1))
  else if decide (st.t0 > (1.0 : K)) then none
  else some (T2.mk st.t0 st.t1)

/-- the loop of `clip_t` -/
def clipLoop (fl : FatLineT K) (hull : List (V2 K)) : T2 K K :=
  foldlT (List.range' 0 (hull.length - 0)) (T2.mk (fmaxval : K) (fminval : K)) (clipStep fl.d_min fl.d_max hull)

/-- the generated `clip_t` is: distance curve, hull, loop, decision tree -/
theorem clip_t_eq (fl : FatLineT K) (w1 w2 w3 w4 : V2 K) :
    clip_t fl w1 w2 w3 w4 =
      clipDecide fl (distance_curve_convex_hull (fat_distance_curve fl w1 w2 w3 w4))
        (clipLoop fl (distance_curve_convex_hull (fat_distance_curve fl w1 w2 w3 w4))) := by
  rfl

end

/-! ## the loop: running minimum / maximum of the candidate ordinates -/

theorem lit0 : (0.0 : K) = 0 := by norm_num
theorem lit1 : (1.0 : K) = 1 := by norm_num

/-- `st'` is at least as wide as `st` -/
def Wider (st st' : T2 K K) : Prop := st'.t0 ≤ st.t0 ∧ st.t1 ≤ st'.t1
/-- the pair `st` (running min, running max) has seen the value `y` -/
def Has (st : T2 K K) (y : K) : Prop := st.t0 ≤ y ∧ y ≤ st.t1

theorem Wider.refl (st : T2 K K) : Wider st st := ⟨le_rfl, le_rfl⟩
theorem Wider.trans {a b c : T2 K K} (h1 : Wider a b) (h2 : Wider b c) : Wider a c :=
  ⟨le_trans h2.1 h1.1, le_trans h1.2 h2.2⟩
theorem Has.wider {a b : T2 K K} {y : K} (h : Has a y) (w : Wider a b) : Has b y :=
  ⟨le_trans w.1 h.1, le_trans h.2 w.2⟩

theorem inc_wider (c : Bool) (y : K) (st : T2 K K) : Wider st (inc c y st) := by
  simp only [inc, fmin_eq_min, fmax_eq_max]
  split
  · exact ⟨min_le_left _ _, le_max_left _ _⟩
  · exact Wider.refl st

theorem inc_has (y : K) (st : T2 K K) : Has (inc true y st) y := by
  simp only [inc, fmin_eq_min, fmax_eq_max, if_true]
  exact ⟨min_le_right _ _, le_max_right _ _⟩

theorem incOpt_wider (o : Option K) (st : T2 K K) : Wider st (incOpt o st) := by
  cases o with
  | none => exact Wider.refl st
  | some y => exact inc_wider _ y st

theorem incOpt_has (y : K) (st : T2 K K) (h0 : 0 ≤ y) (h1 : y ≤ 1) : Has (incOpt (some y) st) y := by
  have hc : (decide ((0.0 : K) ≤ y) && decide (y ≤ (1.0 : K))) = true := by
    simp only [lit0, lit1, Bool.and_eq_true, decide_eq_true_eq]; exact ⟨h0, h1⟩
  show Has (inc _ y st) y
  rw [hc]; exact inc_has y st

theorem listGet_mem (l : List (V2 K)) (i : Nat) (hi : i < l.length) : listGet l i ∈ l := by
  simp only [listGet]
  rw [getElem!_pos l i hi]
  exact List.getElem_mem hi

/-- the candidates of iteration `idx`: crossings with the two strip borders that pass the [0,1] test, and the two
    edge end points if they are inside the strip -/
def StepCand (dmin dmax : K) (hull : List (V2 K)) (idx : Nat) (y : K) : Prop :=
  let p1 := listGet hull idx
  let p2 := listGet hull ((idx + 1) % hull.length)
  let s := solve_line_y (T2.mk dmin dmax) (T2.mk p1 p2)
  (s.t0 = some y ∧ 0 ≤ y ∧ y ≤ 1) ∨ (s.t1 = some y ∧ 0 ≤ y ∧ y ≤ 1) ∨
  (dmin ≤ p1.x ∧ p1.x ≤ dmax ∧ y = p1.y) ∨ (dmin ≤ p2.x ∧ p2.x ≤ dmax ∧ y = p2.y)

theorem clipStep_wider (dmin dmax : K) (hull : List (V2 K)) (st : T2 K K) (idx : Nat) :
    Wider st (clipStep dmin dmax hull st idx) := by
  simp only [clipStep]
  exact ((incOpt_wider _ st).trans (incOpt_wider _ _)).trans ((inc_wider _ _ _).trans (inc_wider _ _ _))

theorem clipStep_has (dmin dmax : K) (hull : List (V2 K)) (st : T2 K K) (idx : Nat) (y : K)
    (h : StepCand dmin dmax hull idx y) : Has (clipStep dmin dmax hull st idx) y := by
  simp only [StepCand] at h
  simp only [clipStep]
  rcases h with ⟨e, h0, h1⟩ | ⟨e, h0, h1⟩ | ⟨a, b, e⟩ | ⟨a, b, e⟩
  · rw [e]
    exact (incOpt_has y st h0 h1).wider ((incOpt_wider _ _).trans ((inc_wider _ _ _).trans (inc_wider _ _ _)))
  · rw [e]
    exact (incOpt_has y _ h0 h1).wider ((inc_wider _ _ _).trans (inc_wider _ _ _))
  · have hc : (decide ((listGet hull idx).x ≤ dmax) && decide ((listGet hull idx).x ≥ dmin)) = true := by
      simp only [Bool.and_eq_true, decide_eq_true_eq]; exact ⟨b, a⟩
    rw [hc, e]
    exact (inc_has _ _).wider (inc_wider _ _ _)
  · have hc : (decide ((listGet hull ((idx + 1) % hull.length)).x ≤ dmax) &&
        decide ((listGet hull ((idx + 1) % hull.length)).x ≥ dmin)) = true := by
      simp only [Bool.and_eq_true, decide_eq_true_eq]; exact ⟨b, a⟩
    rw [hc, e]
    exact inc_has _ _

theorem foldl_wider (f : T2 K K → Nat → T2 K K) (hf : ∀ st i, Wider st (f st i)) (l : List Nat) (st : T2 K K) :
    Wider st (List.foldl f st l) := by
  induction l generalizing st with
  | nil => exact Wider.refl st
  | cons a l ih => exact (hf st a).trans (ih (f st a))

theorem foldl_has (f : T2 K K → Nat → T2 K K) (hf : ∀ st i, Wider st (f st i)) (l : List Nat) (st : T2 K K)
    (i : Nat) (hi : i ∈ l) (y : K) (hy : ∀ st, Has (f st i) y) : Has (List.foldl f st l) y := by
  induction l generalizing st with
  | nil => exact absurd hi (by simp)
  | cons a l ih =>
    rcases List.mem_cons.1 hi with rfl | hi'
    · exact (hy st).wider (foldl_wider f hf l _)
    · exact ih (f st a) hi'

section
variable [FConsts K]

/-- every candidate of every iteration is inside the pair the loop returns -/
theorem clipLoop_has (fl : FatLineT K) (hull : List (V2 K)) (idx : Nat) (hidx : idx < hull.length) (y : K)
    (h : StepCand fl.d_min fl.d_max hull idx y) : Has (clipLoop fl hull) y := by
  simp only [clipLoop, foldlT]
  refine foldl_has _ (clipStep_wider _ _ _) _ _ idx ?_ y (fun st => clipStep_has _ _ _ st idx y h)
  simp only [List.mem_range'_1, Nat.sub_zero, Nat.zero_add]
  exact ⟨Nat.zero_le _, hidx⟩

/-- loop invariant: each component is still the sentinel or lies in [0,1] -/
def RangeInv (st : T2 K K) : Prop :=
  (st.t0 = (fmaxval : K) ∨ (0 ≤ st.t0 ∧ st.t0 ≤ 1)) ∧ (st.t1 = (fminval : K) ∨ (0 ≤ st.t1 ∧ st.t1 ≤ 1))

theorem inc_inv (c : Bool) (y : K) (st : T2 K K) (hy : c = true → 0 ≤ y ∧ y ≤ 1) (h : RangeInv st) :
    RangeInv (inc c y st) := by
  cases c with
  | false => exact h
  | true =>
    obtain ⟨y0, y1⟩ := hy rfl
    simp only [inc, fmin_eq_min, fmax_eq_max, if_true, RangeInv]
    obtain ⟨ha, hb⟩ := h
    constructor
    · rcases le_total st.t0 y with hle | hle
      · rw [min_eq_left hle]; exact ha
      · rw [min_eq_right hle]; exact Or.inr ⟨y0, y1⟩
    · rcases le_total st.t1 y with hle | hle
      · rw [max_eq_right hle]; exact Or.inr ⟨y0, y1⟩
      · rw [max_eq_left hle]; exact hb

theorem incOpt_inv (o : Option K) (st : T2 K K) (h : RangeInv st) : RangeInv (incOpt o st) := by
  cases o with
  | none => exact h
  | some y =>
    refine inc_inv _ y st ?_ h
    intro hc
    simpa only [lit0, lit1, Bool.and_eq_true, decide_eq_true_eq] using hc

theorem clipStep_inv (dmin dmax : K) (hull : List (V2 K)) (hy : ∀ p ∈ hull, 0 ≤ p.y ∧ p.y ≤ 1)
    (st : T2 K K) (idx : Nat) (hidx : idx < hull.length) (h : RangeInv st) :
    RangeInv (clipStep dmin dmax hull st idx) := by
  simp only [clipStep]
  have hpos : 0 < hull.length := lt_of_le_of_lt (Nat.zero_le _) hidx
  refine inc_inv _ _ _ (fun _ => hy _ (listGet_mem hull _ (Nat.mod_lt _ hpos))) ?_
  refine inc_inv _ _ _ (fun _ => hy _ (listGet_mem hull _ hidx)) ?_
  exact incOpt_inv _ _ (incOpt_inv _ _ h)

theorem foldl_inv (f : T2 K K → Nat → T2 K K) (P : T2 K K → Prop) (l : List Nat) (st : T2 K K)
    (hf : ∀ st, ∀ i ∈ l, P st → P (f st i)) (h : P st) : P (List.foldl f st l) := by
  induction l generalizing st with
  | nil => exact h
  | cons a l ih =>
    exact ih (f st a) (fun st i hi => hf st i (List.mem_cons_of_mem _ hi)) (hf st a List.mem_cons_self h)

theorem clipLoop_inv (fl : FatLineT K) (hull : List (V2 K)) (hy : ∀ p ∈ hull, 0 ≤ p.y ∧ p.y ≤ 1) :
    RangeInv (clipLoop fl hull) := by
  simp only [clipLoop, foldlT]
  refine foldl_inv _ RangeInv _ _ ?_ ⟨Or.inl rfl, Or.inl rfl⟩
  intro st i hi h
  simp only [List.mem_range'_1, Nat.sub_zero, Nat.zero_add] at hi
  exact clipStep_inv _ _ hull hy st i hi.2 h

/-- what the decision tree can return, given the loop invariant: a sub-range of [0,1] -/
theorem clipDecide_range (fl : FatLineT K) (hull : List (V2 K)) (st : T2 K K) (hinv : RangeInv st)
    (hminval : (fminval : K) ≤ 1) (q : T2 K K) (h : clipDecide fl hull st = some q) :
    0 ≤ q.t0 ∧ q.t1 ≤ 1 := by
  obtain ⟨ha, hb⟩ := hinv
  simp only [clipDecide, lit0, lit1, decide_eq_true_eq, beq_iff_eq, bne_iff_ne, Bool.or_eq_true] at h
  split_ifs at h with c1 c2 c3 c4 c5 c6 c7 c8 <;> simp only [Option.some.injEq] at h <;> subst h <;>
    simp only
  · rcases hb with hb | hb
    · exact absurd hb c3
    · exact ⟨le_rfl, hb.2⟩
  · exact ⟨le_rfl, le_rfl⟩
  · rcases ha with ha | ha
    · exact absurd ha c2
    · exact ⟨ha.1, le_rfl⟩
  · exact ⟨le_rfl, le_rfl⟩
  · exact ⟨le_rfl, not_lt.1 c7⟩
  · refine ⟨not_lt.1 c5, ?_⟩
    rcases hb with hb | hb
    · rw [hb]; exact hminval
    · exact hb.2

/-- whatever the loop produced: a returned range of zero length lies in [0,1] (pure decision-tree fact) -/
theorem clipDecide_degenerate (fl : FatLineT K) (hull : List (V2 K)) (st q : T2 K K)
    (h : clipDecide fl hull st = some q) (he : q.t0 = q.t1) : 0 ≤ q.t0 ∧ q.t1 ≤ 1 := by
  simp only [clipDecide, lit0, lit1, decide_eq_true_eq, beq_iff_eq, bne_iff_ne, Bool.or_eq_true] at h
  split_ifs at h with c1 c2 c3 c4 c5 c6 c7 c8 <;> simp only [Option.some.injEq] at h <;> subst h <;>
    simp only at he ⊢
  · exact ⟨le_rfl, by rw [← he]; exact zero_le_one⟩
  · exact ⟨le_rfl, le_rfl⟩
  · exact ⟨by rw [he]; exact zero_le_one, le_rfl⟩
  · exact ⟨le_rfl, le_rfl⟩
  · exact ⟨le_rfl, by rw [← he]; exact zero_le_one⟩
  · exact ⟨not_lt.1 c5, by rw [← he]; exact not_lt.1 c8⟩

/-- the stronger invariant that holds when the sentinels lie outside [0,1] on their own sides: nothing seen yet, or
    `0 ≤ t1 ≤ t2 ≤ 1` -/
def TightInv (st : T2 K K) : Prop :=
  (st.t0 = (fmaxval : K) ∧ st.t1 = (fminval : K)) ∨ (0 ≤ st.t0 ∧ st.t0 ≤ st.t1 ∧ st.t1 ≤ 1)

theorem inc_tight (hM : 1 ≤ (fmaxval : K)) (hm : (fminval : K) ≤ 0) (c : Bool) (y : K) (st : T2 K K)
    (hy : c = true → 0 ≤ y ∧ y ≤ 1) (h : TightInv st) : TightInv (inc c y st) := by
  cases c with
  | false => exact h
  | true =>
    obtain ⟨y0, y1⟩ := hy rfl
    simp only [inc, fmin_eq_min, fmax_eq_max, if_true, TightInv]
    right
    rcases h with ⟨e0, e1⟩ | ⟨a0, a1, a2⟩
    · rw [e0, e1, min_eq_right (le_trans y1 hM), max_eq_right (le_trans hm y0)]
      exact ⟨y0, le_rfl, y1⟩
    · exact ⟨le_min a0 y0, le_trans (min_le_left _ _) (le_trans a1 (le_max_left _ _)), max_le a2 y1⟩

theorem incOpt_tight (hM : 1 ≤ (fmaxval : K)) (hm : (fminval : K) ≤ 0) (o : Option K) (st : T2 K K)
    (h : TightInv st) : TightInv (incOpt o st) := by
  cases o with
  | none => exact h
  | some y =>
    refine inc_tight hM hm _ y st ?_ h
    intro hc
    simpa only [lit0, lit1, Bool.and_eq_true, decide_eq_true_eq] using hc

theorem clipStep_tight (hM : 1 ≤ (fmaxval : K)) (hm : (fminval : K) ≤ 0) (dmin dmax : K) (hull : List (V2 K))
    (hy : ∀ p ∈ hull, 0 ≤ p.y ∧ p.y ≤ 1) (st : T2 K K) (idx : Nat) (hidx : idx < hull.length) (h : TightInv st) :
    TightInv (clipStep dmin dmax hull st idx) := by
  simp only [clipStep]
  have hpos : 0 < hull.length := lt_of_le_of_lt (Nat.zero_le _) hidx
  refine inc_tight hM hm _ _ _ (fun _ => hy _ (listGet_mem hull _ (Nat.mod_lt _ hpos))) ?_
  refine inc_tight hM hm _ _ _ (fun _ => hy _ (listGet_mem hull _ hidx)) ?_
  exact incOpt_tight hM hm _ _ (incOpt_tight hM hm _ _ h)

theorem clipLoop_tight (hM : 1 ≤ (fmaxval : K)) (hm : (fminval : K) ≤ 0) (fl : FatLineT K) (hull : List (V2 K))
    (hy : ∀ p ∈ hull, 0 ≤ p.y ∧ p.y ≤ 1) : TightInv (clipLoop fl hull) := by
  simp only [clipLoop, foldlT]
  refine foldl_inv _ TightInv _ _ ?_ (Or.inl ⟨rfl, rfl⟩)
  intro st i hi h
  simp only [List.mem_range'_1, Nat.sub_zero, Nat.zero_add] at hi
  exact clipStep_tight hM hm _ _ hull hy st i hi.2 h

/-- with sentinels outside [0,1] the decision tree has three live outcomes only -/
theorem clipDecide_shape (hM : 1 ≤ (fmaxval : K)) (hm : (fminval : K) ≤ 0) (fl : FatLineT K) (hull : List (V2 K))
    (st : T2 K K) (h : TightInv st) :
    clipDecide fl hull st = none ∨ clipDecide fl hull st = some (T2.mk 0 1) ∨
    (clipDecide fl hull st = some st ∧ 0 ≤ st.t0 ∧ st.t0 ≤ st.t1 ∧ st.t1 ≤ 1) := by
  rcases h with ⟨e0, e1⟩ | ⟨a0, a1, a2⟩
  · obtain ⟨a, b⟩ := st
    simp only at e0 e1
    subst e0 e1
    have hgt : (fmaxval : K) > fminval := lt_of_le_of_lt hm (lt_of_lt_of_le zero_lt_one hM)
    simp only [clipDecide, lit0, lit1, decide_eq_true_eq, beq_iff_eq, bne_iff_ne, Bool.or_eq_true, hgt,
      if_true, ne_eq, not_true_eq_false, if_false]
    split_ifs
    · exact Or.inl rfl
    · exact Or.inr (Or.inl rfl)
  · have h1 : ¬ st.t0 > st.t1 := not_lt.2 a1
    have h2 : ¬ st.t0 < 0 := not_lt.2 a0
    have h3 : ¬ st.t0 > 1 := not_lt.2 (le_trans a1 a2)
    simp only [clipDecide, lit0, lit1, decide_eq_true_eq, h1, h2, h3, if_false]
    exact Or.inr (Or.inr ⟨trivial, a0, a1, a2⟩)

end

/-! # Part 4: the candidates bracket the hull points inside the strip -/

/-- `round_y_value` moves an ordinate of [0,1] by at most 0.00001 and keeps it in [0,1] -/
theorem round_y_spec (y : K) (h0 : 0 ≤ y) (h1 : y ≤ 1) :
    0 ≤ round_y_value y ∧ round_y_value y ≤ 1 ∧ y - 0.00001 ≤ round_y_value y ∧ round_y_value y ≤ y + 0.00001 := by
  have e1 : (0.00001 : K) = 1/100000 := by norm_num
  have e2 : (0.001 : K) = 1/1000 := by norm_num
  have e3 : (0.99999 : K) = 99999/100000 := by norm_num
  have e4 : (1.001 : K) = 1001/1000 := by norm_num
  simp only [round_y_value, lit0, lit1, Bool.and_eq_true, decide_eq_true_eq, e1, e2, e3, e4]
  split_ifs with c1 c2
  · refine ⟨le_rfl, zero_le_one, ?_, ?_⟩ <;> linarith [c1.1]
  · refine ⟨zero_le_one, le_rfl, ?_, ?_⟩ <;> linarith [c2.1]
  · refine ⟨h0, h1, ?_, ?_⟩ <;> linarith

/-- `solve_line_y`, first component: the crossing with `x = d1` -/
theorem solve_t0 (d1 d2 : K) (A B : V2 K) (hlo : min A.x B.x ≤ d1) (hhi : d1 ≤ max A.x B.x) :
    (solve_line_y (T2.mk d1 d2) (T2.mk A B)).t0 = some (round_y_value (crossY A B d1)) := by
  have hc : (decide (d1 ≥ min A.x B.x) && decide (d1 ≤ max A.x B.x)) = true := by
    simp only [Bool.and_eq_true, decide_eq_true_eq]; exact ⟨hlo, hhi⟩
  simp only [solve_line_y, fmin_eq_min, fmax_eq_max, crossY, hc, if_true]

/-- `solve_line_y`, second component: the crossing with `x = d2` -/
theorem solve_t1 (d1 d2 : K) (A B : V2 K) (hlo : min A.x B.x ≤ d2) (hhi : d2 ≤ max A.x B.x) :
    (solve_line_y (T2.mk d1 d2) (T2.mk A B)).t1 = some (round_y_value (crossY A B d2)) := by
  have hc : (decide (d2 ≥ min A.x B.x) && decide (d2 ≤ max A.x B.x)) = true := by
    simp only [Bool.and_eq_true, decide_eq_true_eq]; exact ⟨hlo, hhi⟩
  simp only [solve_line_y, fmin_eq_min, fmax_eq_max, crossY, hc, if_true]

/-- `(A, B)` is an edge the loop walks (in one of the two directions) -/
def EdgeOf (hull : List (V2 K)) (A B : V2 K) : Prop :=
  ∃ i, i < hull.length ∧
    ((listGet hull i = A ∧ listGet hull ((i + 1) % hull.length) = B) ∨
     (listGet hull i = B ∧ listGet hull ((i + 1) % hull.length) = A))

theorem edgeOf_fwd (hull : List (V2 K)) (i : Nat) (hi : i < hull.length) :
    EdgeOf hull (listGet hull i) (listGet hull ((i + 1) % hull.length)) := ⟨i, hi, Or.inl ⟨rfl, rfl⟩⟩
theorem edgeOf_rev (hull : List (V2 K)) (i : Nat) (hi : i < hull.length) :
    EdgeOf hull (listGet hull ((i + 1) % hull.length)) (listGet hull i) := ⟨i, hi, Or.inr ⟨rfl, rfl⟩⟩

theorem EdgeOf.mem {hull : List (V2 K)} {A B : V2 K} (h : EdgeOf hull A B) : A ∈ hull ∧ B ∈ hull := by
  obtain ⟨i, hi, h⟩ := h
  have hpos : 0 < hull.length := lt_of_le_of_lt (Nat.zero_le _) hi
  have m1 := listGet_mem hull i hi
  have m2 := listGet_mem hull ((i + 1) % hull.length) (Nat.mod_lt _ hpos)
  rcases h with ⟨rfl, rfl⟩ | ⟨rfl, rfl⟩
  · exact ⟨m1, m2⟩
  · exact ⟨m2, m1⟩

section
variable [FConsts K]

/-- a hull vertex inside the strip contributes its ordinate -/
theorem vertex_has (fl : FatLineT K) (hull : List (V2 K)) (p : V2 K) (hp : p ∈ hull)
    (h0 : fl.d_min ≤ p.x) (h1 : p.x ≤ fl.d_max) : Has (clipLoop fl hull) p.y := by
  obtain ⟨i, hi, rfl⟩ := List.getElem_of_mem hp
  have e : listGet hull i = hull[i] := by simp only [listGet]; exact getElem!_pos hull i hi
  refine clipLoop_has fl hull i hi _ ?_
  simp only [StepCand]
  exact Or.inr (Or.inr (Or.inl ⟨by rw [e]; exact h0, by rw [e]; exact h1, by rw [e]⟩))

/-- a crossing of a walked edge with the lower strip border contributes its (snapped) ordinate -/
theorem crossing_has_min (fl : FatLineT K) (hull : List (V2 K)) (hord : ∀ p ∈ hull, 0 ≤ p.y ∧ p.y ≤ 1)
    (l : List (V2 K)) (hedges : ∀ A B, Consec l A B → EdgeOf hull A B) (c : K) (h : Crossing l fl.d_min c) :
    ∃ c', Has (clipLoop fl hull) c' ∧ 0 ≤ c' ∧ c' ≤ 1 ∧ c - 0.00001 ≤ c' ∧ c' ≤ c + 0.00001 := by
  obtain ⟨A, B, hc, hne, hlo, hhi, hcA, hcB, rfl⟩ := h
  have he := hedges A B hc
  obtain ⟨mA, mB⟩ := he.mem
  have c0 : 0 ≤ crossY A B fl.d_min := le_trans (hord A mA).1 hcA
  have c1 : crossY A B fl.d_min ≤ 1 := le_trans hcB (hord B mB).2
  obtain ⟨r0, r1, r2, r3⟩ := round_y_spec _ c0 c1
  refine ⟨round_y_value (crossY A B fl.d_min), ?_, r0, r1, r2, r3⟩
  obtain ⟨i, hi, h⟩ := he
  refine clipLoop_has fl hull i hi _ ?_
  simp only [StepCand]
  left
  refine ⟨?_, r0, r1⟩
  rcases h with ⟨e1, e2⟩ | ⟨e1, e2⟩
  · rw [e1, e2]; exact solve_t0 _ _ A B hlo hhi
  · rw [e1, e2, crossY_symm A B _ hne]
    exact solve_t0 _ _ B A (by rw [min_comm]; exact hlo) (by rw [max_comm]; exact hhi)

/-- … and the same for the upper strip border -/
theorem crossing_has_max (fl : FatLineT K) (hull : List (V2 K)) (hord : ∀ p ∈ hull, 0 ≤ p.y ∧ p.y ≤ 1)
    (l : List (V2 K)) (hedges : ∀ A B, Consec l A B → EdgeOf hull A B) (c : K) (h : Crossing l fl.d_max c) :
    ∃ c', Has (clipLoop fl hull) c' ∧ 0 ≤ c' ∧ c' ≤ 1 ∧ c - 0.00001 ≤ c' ∧ c' ≤ c + 0.00001 := by
  obtain ⟨A, B, hc, hne, hlo, hhi, hcA, hcB, rfl⟩ := h
  have he := hedges A B hc
  obtain ⟨mA, mB⟩ := he.mem
  have c0 : 0 ≤ crossY A B fl.d_max := le_trans (hord A mA).1 hcA
  have c1 : crossY A B fl.d_max ≤ 1 := le_trans hcB (hord B mB).2
  obtain ⟨r0, r1, r2, r3⟩ := round_y_spec _ c0 c1
  refine ⟨round_y_value (crossY A B fl.d_max), ?_, r0, r1, r2, r3⟩
  obtain ⟨i, hi, h⟩ := he
  refine clipLoop_has fl hull i hi _ ?_
  simp only [StepCand]
  right; left
  refine ⟨?_, r0, r1⟩
  rcases h with ⟨e1, e2⟩ | ⟨e1, e2⟩
  · rw [e1, e2]; exact solve_t1 _ _ A B hlo hhi
  · rw [e1, e2, crossY_symm A B _ hne]
    exact solve_t1 _ _ B A (by rw [min_comm]; exact hlo) (by rw [max_comm]; exact hhi)

end

/-- Bernstein combination -/
def bern (t a b c d : K) : K := (1-t)^3 * a + 3*(1-t)^2*t * b + 3*(1-t)*t^2 * c + t^3 * d

/-- the hull polygon `hull` is bounded by the left chain `L` and the right chain `R`, both running from `P0` up to `P3`
    along walked edges, and all four control points lie between the chains' edge lines -/
structure Bracket (hull L R : List (V2 K)) (P0 P1 P2 P3 : V2 K) : Prop where
  ascL : Ascending L
  ascR : Ascending R
  lenL : 2 ≤ L.length
  lenR : 2 ≤ R.length
  headL : L.head? = some P0
  headR : R.head? = some P0
  lastL : L.getLast? = some P3
  lastR : R.getLast? = some P3
  edgesL : ∀ A B, Consec L A B → EdgeOf hull A B
  edgesR : ∀ A B, Consec R A B → EdgeOf hull A B
  halfL : ∀ A B, Consec L A B → ∀ P, (P = P0 ∨ P = P1 ∨ P = P2 ∨ P = P3) → chainAt A B P.y ≤ P.x * (B.y - A.y)
  halfR : ∀ A B, Consec R A B → ∀ P, (P = P0 ∨ P = P1 ∨ P = P2 ∨ P = P3) → P.x * (B.y - A.y) ≤ chainAt A B P.y
  memH : P0 ∈ hull
  memT : P3 ∈ hull

section
variable [FConsts K]

/-- the loop's running (min, max) brackets the parameter of every curve point inside the strip, up to the snapping slack -/
theorem bracket_candidates (fl : FatLineT K) (hull L R : List (V2 K)) (P0 P1 P2 P3 : V2 K)
    (hb : Bracket hull L R P0 P1 P2 P3) (hy0 : P0.y = 0) (hy1 : P1.y = 1/3) (hy2 : P2.y = 2/3) (hy3 : P3.y = 1)
    (hord : ∀ p ∈ hull, 0 ≤ p.y ∧ p.y ≤ 1) (t : K) (h0 : 0 ≤ t) (h1 : t ≤ 1)
    (hin : fl.d_min ≤ bern t P0.x P1.x P2.x P3.x ∧ bern t P0.x P1.x P2.x P3.x ≤ fl.d_max) :
    ∃ cU cL, Has (clipLoop fl hull) cU ∧ Has (clipLoop fl hull) cL ∧ 0 ≤ cU ∧ cU ≤ 1 ∧ 0 ≤ cL ∧ cL ≤ 1 ∧
      t ≤ cU + 0.00001 ∧ cL - 0.00001 ≤ t := by
  have s : 0 ≤ 1 - t := by linarith
  have b0 : 0 ≤ (1-t)^3 := by positivity
  have b1 : 0 ≤ 3*(1-t)^2*t := by positivity
  have b2 : 0 ≤ 3*(1-t)*t^2 := by positivity
  have b3 : 0 ≤ t^3 := by positivity
  have hρ : (0 : K) ≤ 0.00001 := by norm_num
  let Q : V2 K := ⟨bern t P0.x P1.x P2.x P3.x, t⟩
  have hQL : ∀ A B, Consec L A B → chainAt A B Q.y ≤ Q.x * (B.y - A.y) := by
    intro A B hc
    have g0 := hb.halfL A B hc P0 (Or.inl rfl)
    have g1 := hb.halfL A B hc P1 (Or.inr (Or.inl rfl))
    have g2 := hb.halfL A B hc P2 (Or.inr (Or.inr (Or.inl rfl)))
    have g3 := hb.halfL A B hc P3 (Or.inr (Or.inr (Or.inr rfl)))
    have key : Q.x * (B.y - A.y) - chainAt A B Q.y =
        (1-t)^3 * (P0.x * (B.y - A.y) - chainAt A B P0.y) + 3*(1-t)^2*t * (P1.x * (B.y - A.y) - chainAt A B P1.y)
        + 3*(1-t)*t^2 * (P2.x * (B.y - A.y) - chainAt A B P2.y) + t^3 * (P3.x * (B.y - A.y) - chainAt A B P3.y) := by
      simp only [Q, chainAt, bern, hy0, hy1, hy2, hy3]; ring
    have := add_nonneg (add_nonneg (add_nonneg (mul_nonneg b0 (sub_nonneg.2 g0)) (mul_nonneg b1 (sub_nonneg.2 g1)))
      (mul_nonneg b2 (sub_nonneg.2 g2))) (mul_nonneg b3 (sub_nonneg.2 g3))
    linarith
  have hQR : ∀ A B, Consec R A B → Q.x * (B.y - A.y) ≤ chainAt A B Q.y := by
    intro A B hc
    have g0 := hb.halfR A B hc P0 (Or.inl rfl)
    have g1 := hb.halfR A B hc P1 (Or.inr (Or.inl rfl))
    have g2 := hb.halfR A B hc P2 (Or.inr (Or.inr (Or.inl rfl)))
    have g3 := hb.halfR A B hc P3 (Or.inr (Or.inr (Or.inr rfl)))
    have key : chainAt A B Q.y - Q.x * (B.y - A.y) =
        (1-t)^3 * (chainAt A B P0.y - P0.x * (B.y - A.y)) + 3*(1-t)^2*t * (chainAt A B P1.y - P1.x * (B.y - A.y))
        + 3*(1-t)*t^2 * (chainAt A B P2.y - P2.x * (B.y - A.y)) + t^3 * (chainAt A B P3.y - P3.x * (B.y - A.y)) := by
      simp only [Q, chainAt, bern, hy0, hy1, hy2, hy3]; ring
    have := add_nonneg (add_nonneg (add_nonneg (mul_nonneg b0 (sub_nonneg.2 g0)) (mul_nonneg b1 (sub_nonneg.2 g1)))
      (mul_nonneg b2 (sub_nonneg.2 g2))) (mul_nonneg b3 (sub_nonneg.2 g3))
    linarith
  have hQy0 : P0.y ≤ Q.y := by rw [hy0]; exact h0
  have hQy1 : Q.y ≤ P3.y := by rw [hy3]; exact h1
  obtain ⟨cu, hcu, hU⟩ := strip_top L R P0 P3 Q fl.d_min fl.d_max hb.ascL hb.ascR hb.lenL hb.lenR hb.headL hb.headR
    hb.lastL hb.lastR hQL hQR hQy0 hQy1 hin.1 hin.2
  obtain ⟨cl, hcl, hLo⟩ := strip_bottom L R P0 P3 Q fl.d_min fl.d_max hb.ascL hb.ascR hb.lenL hb.lenR hb.headL hb.headR
    hb.lastL hb.lastR hQL hQR hQy0 hQy1 hin.1 hin.2
  have hcu' : t ≤ cu := hcu
  have hcl' : cl ≤ t := hcl
  -- upper candidate
  have HU : ∃ cU, Has (clipLoop fl hull) cU ∧ 0 ≤ cU ∧ cU ≤ 1 ∧ t ≤ cU + 0.00001 := by
    rcases hU with ⟨a, b, e⟩ | hcr | hcr
    · refine ⟨P3.y, vertex_has fl hull P3 hb.memT a b, ?_, ?_, ?_⟩
      · rw [hy3]; exact zero_le_one
      · rw [hy3]
      · rw [hy3]; linarith
    · obtain ⟨c', hh, c0, c1, c2, c3⟩ := crossing_has_max fl hull hord L hb.edgesL cu hcr
      exact ⟨c', hh, c0, c1, by linarith⟩
    · obtain ⟨c', hh, c0, c1, c2, c3⟩ := crossing_has_min fl hull hord R hb.edgesR cu hcr
      exact ⟨c', hh, c0, c1, by linarith⟩
  have HL : ∃ cL, Has (clipLoop fl hull) cL ∧ 0 ≤ cL ∧ cL ≤ 1 ∧ cL - 0.00001 ≤ t := by
    rcases hLo with ⟨a, b, e⟩ | hcr | hcr
    · refine ⟨P0.y, vertex_has fl hull P0 hb.memH a b, ?_, ?_, ?_⟩
      · rw [hy0]
      · rw [hy0]; exact zero_le_one
      · rw [hy0]; linarith
    · obtain ⟨c', hh, c0, c1, c2, c3⟩ := crossing_has_max fl hull hord L hb.edgesL cl hcr
      exact ⟨c', hh, c0, c1, by linarith⟩
    · obtain ⟨c', hh, c0, c1, c2, c3⟩ := crossing_has_min fl hull hord R hb.edgesR cl hcr
      exact ⟨c', hh, c0, c1, by linarith⟩
  obtain ⟨cU, u1, u2, u3, u4⟩ := HU
  obtain ⟨cL, l1, l2, l3, l4⟩ := HL
  exact ⟨cU, cL, u1, l1, u2, u3, l2, l3, u4, l4⟩

/-- the decision tree keeps every parameter bracketed by two candidates of [0,1] -/
theorem clipDecide_sound (fl : FatLineT K) (hull : List (V2 K)) (st : T2 K K) (t cU cL ρ : K) (hρ : 0 ≤ ρ)
    (h0 : 0 ≤ t) (h1 : t ≤ 1) (hU : Has st cU) (hL : Has st cL) (u0 : 0 ≤ cU) (u1 : cU ≤ 1) (l0 : 0 ≤ cL) (l1 : cL ≤ 1)
    (hu : t ≤ cU + ρ) (hl : cL - ρ ≤ t) :
    ∃ r, clipDecide fl hull st = some r ∧ r.t0 - ρ ≤ t ∧ t ≤ r.t1 + ρ := by
  have hle : ¬ (st.t0 > st.t1) := not_lt.2 (le_trans hU.1 hU.2)
  simp only [clipDecide, lit0, lit1, decide_eq_true_eq, hle, if_false]
  split_ifs with c1 c2 c3 c4
  · exact absurd (le_trans u0 hU.2) (not_le.2 c2)
  · exact ⟨_, rfl, by simp only; linarith, by simp only; linarith⟩
  · exact ⟨_, rfl, by simp only; linarith, by simp only; linarith [hU.2]⟩
  · exact absurd (le_trans hL.1 l1) (not_le.2 c4)
  · exact ⟨_, rfl, by simp only; linarith [hL.1], by simp only; linarith [hU.2]⟩

end

/-! # Part 5: the hull polygons -/

theorem forall_consec2 {p : V2 K → V2 K → Prop} (X Y : V2 K) :
    (∀ A B, Consec [X, Y] A B → p A B) ↔ p X Y := by
  constructor
  · intro h; exact h X Y (Or.inl ⟨rfl, rfl⟩)
  · intro h A B hc
    rcases hc with ⟨rfl, rfl⟩ | hc
    · exact h
    · exact absurd hc (consec_single _ _ _)

theorem forall_consec3 {p : V2 K → V2 K → Prop} (X Y Z : V2 K) :
    (∀ A B, Consec [X, Y, Z] A B → p A B) ↔ p X Y ∧ p Y Z := by
  constructor
  · intro h; exact ⟨h X Y (Or.inl ⟨rfl, rfl⟩), h Y Z (Or.inr (Or.inl ⟨rfl, rfl⟩))⟩
  · intro h A B hc
    rcases hc with ⟨rfl, rfl⟩ | hc
    · exact h.1
    · exact (forall_consec2 Y Z).2 h.2 A B hc

theorem forall_consec4 {p : V2 K → V2 K → Prop} (X Y Z W : V2 K) :
    (∀ A B, Consec [X, Y, Z, W] A B → p A B) ↔ p X Y ∧ p Y Z ∧ p Z W := by
  constructor
  · intro h
    exact ⟨h X Y (Or.inl ⟨rfl, rfl⟩), h Y Z (Or.inr (Or.inl ⟨rfl, rfl⟩)), h Z W (Or.inr (Or.inr (Or.inl ⟨rfl, rfl⟩)))⟩
  · intro h A B hc
    rcases hc with ⟨rfl, rfl⟩ | hc
    · exact h.1
    · exact (forall_consec3 Y Z W).2 h.2 A B hc

theorem forall_pts {q : V2 K → Prop} (P0 P1 P2 P3 : V2 K) :
    (∀ P, (P = P0 ∨ P = P1 ∨ P = P2 ∨ P = P3) → q P) ↔ q P0 ∧ q P1 ∧ q P2 ∧ q P3 := by
  constructor
  · intro h
    exact ⟨h _ (Or.inl rfl), h _ (Or.inr (Or.inl rfl)), h _ (Or.inr (Or.inr (Or.inl rfl))), h _ (Or.inr (Or.inr (Or.inr rfl)))⟩
  · rintro ⟨h0, h1, h2, h3⟩ P (rfl | rfl | rfl | rfl) <;> assumption

/-! walked edges of 3- and 4-vertex polygons -/
theorem edge3_01 (X Y Z : V2 K) : EdgeOf [X, Y, Z] X Y := ⟨0, by simp, Or.inl ⟨by simp [listGet], by simp [listGet]⟩⟩
theorem edge3_12 (X Y Z : V2 K) : EdgeOf [X, Y, Z] Y Z := ⟨1, by simp, Or.inl ⟨by simp [listGet], by simp [listGet]⟩⟩
theorem edge3_20 (X Y Z : V2 K) : EdgeOf [X, Y, Z] Z X := ⟨2, by simp, Or.inl ⟨by simp [listGet], by simp [listGet]⟩⟩
theorem edge3_10 (X Y Z : V2 K) : EdgeOf [X, Y, Z] Y X := ⟨0, by simp, Or.inr ⟨by simp [listGet], by simp [listGet]⟩⟩
theorem edge3_21 (X Y Z : V2 K) : EdgeOf [X, Y, Z] Z Y := ⟨1, by simp, Or.inr ⟨by simp [listGet], by simp [listGet]⟩⟩
theorem edge3_02 (X Y Z : V2 K) : EdgeOf [X, Y, Z] X Z := ⟨2, by simp, Or.inr ⟨by simp [listGet], by simp [listGet]⟩⟩
theorem edge4_01 (X Y Z W : V2 K) : EdgeOf [X, Y, Z, W] X Y := ⟨0, by simp, Or.inl ⟨by simp [listGet], by simp [listGet]⟩⟩
theorem edge4_12 (X Y Z W : V2 K) : EdgeOf [X, Y, Z, W] Y Z := ⟨1, by simp, Or.inl ⟨by simp [listGet], by simp [listGet]⟩⟩
theorem edge4_23 (X Y Z W : V2 K) : EdgeOf [X, Y, Z, W] Z W := ⟨2, by simp, Or.inl ⟨by simp [listGet], by simp [listGet]⟩⟩
theorem edge4_30 (X Y Z W : V2 K) : EdgeOf [X, Y, Z, W] W X := ⟨3, by simp, Or.inl ⟨by simp [listGet], by simp [listGet]⟩⟩
theorem edge4_10 (X Y Z W : V2 K) : EdgeOf [X, Y, Z, W] Y X := ⟨0, by simp, Or.inr ⟨by simp [listGet], by simp [listGet]⟩⟩
theorem edge4_21 (X Y Z W : V2 K) : EdgeOf [X, Y, Z, W] Z Y := ⟨1, by simp, Or.inr ⟨by simp [listGet], by simp [listGet]⟩⟩
theorem edge4_32 (X Y Z W : V2 K) : EdgeOf [X, Y, Z, W] W Z := ⟨2, by simp, Or.inr ⟨by simp [listGet], by simp [listGet]⟩⟩
theorem edge4_03 (X Y Z W : V2 K) : EdgeOf [X, Y, Z, W] X W := ⟨3, by simp, Or.inr ⟨by simp [listGet], by simp [listGet]⟩⟩

macro "split_consec" : tactic => `(tactic| first
  | refine (forall_consec2 _ _).2 ?_
  | refine (forall_consec3 _ _ _).2 ⟨?_, ?_⟩
  | refine (forall_consec4 _ _ _ _).2 ⟨?_, ?_, ?_⟩)

macro "find_edge" : tactic => `(tactic| first
  | exact edge3_01 _ _ _ | exact edge3_12 _ _ _ | exact edge3_20 _ _ _
  | exact edge3_10 _ _ _ | exact edge3_21 _ _ _ | exact edge3_02 _ _ _
  | exact edge4_01 _ _ _ _ | exact edge4_12 _ _ _ _ | exact edge4_23 _ _ _ _ | exact edge4_30 _ _ _ _
  | exact edge4_10 _ _ _ _ | exact edge4_21 _ _ _ _ | exact edge4_32 _ _ _ _ | exact edge4_03 _ _ _ _)

macro "bracket_tac" : tactic => `(tactic| (
  refine ⟨?_, ?_, by simp, by simp, rfl, rfl, rfl, rfl, ?_, ?_, ?_, ?_, by simp, by simp⟩
  · (split_consec <;> norm_num)
  · (split_consec <;> norm_num)
  · (split_consec <;> find_edge)
  · (split_consec <;> find_edge)
  · (split_consec <;> refine (forall_pts _ _ _ _).2 ⟨?_, ?_, ?_, ?_⟩ <;> simp only [chainAt] <;> linarith)
  · (split_consec <;> refine (forall_pts _ _ _ _).2 ⟨?_, ?_, ?_, ?_⟩ <;> simp only [chainAt] <;> linarith)))

/-- in every branch of `distance_curve_convex_hull` the returned polygon is bracketed by two chains of walked edges -/
theorem hull_bracket (D0 D1 D2 D3 : K) :
    ∃ L R, Bracket (distance_curve_convex_hull (T4.mk (⟨D0, 0⟩ : V2 K) ⟨D1, 1/3⟩ ⟨D2, 2/3⟩ ⟨D3, 1⟩)) L R
      ⟨D0, 0⟩ ⟨D1, 1/3⟩ ⟨D2, 2/3⟩ ⟨D3, 1⟩ := by
  have l2 : (2.0 : K) = 2 := by norm_num
  have l3 : (3.0 : K) = 3 := by norm_num
  simp only [distance_curve_convex_hull, lit0, lit1, l2, l3, fabs, decide_eq_true_eq]
  generalize hu : D1 - ((D3 - D0) * (1/3) + D0) = u
  generalize hv : D2 - ((D3 - D0) * (2/3) + D0) = v
  split_ifs with c1 c2 c3
  · -- same side, cp2 inside: [start, cp1, end]
    rcases mul_nonneg_iff.1 c1 with ⟨u0, v0⟩ | ⟨u0, v0⟩
    · rw [abs_of_nonneg u0, abs_of_nonneg v0] at c2
      refine ⟨[⟨D0, 0⟩, ⟨D3, 1⟩], [⟨D0, 0⟩, ⟨D1, 1/3⟩, ⟨D3, 1⟩], ?_⟩
      bracket_tac
    · rw [abs_of_nonpos u0, abs_of_nonpos v0] at c2
      refine ⟨[⟨D0, 0⟩, ⟨D1, 1/3⟩, ⟨D3, 1⟩], [⟨D0, 0⟩, ⟨D3, 1⟩], ?_⟩
      bracket_tac
  · -- same side, cp1 inside: [start, cp2, end]
    rcases mul_nonneg_iff.1 c1 with ⟨u0, v0⟩ | ⟨u0, v0⟩
    · rw [abs_of_nonneg u0, abs_of_nonneg v0] at c2 c3
      refine ⟨[⟨D0, 0⟩, ⟨D3, 1⟩], [⟨D0, 0⟩, ⟨D2, 2/3⟩, ⟨D3, 1⟩], ?_⟩
      bracket_tac
    · rw [abs_of_nonpos u0, abs_of_nonpos v0] at c2 c3
      refine ⟨[⟨D0, 0⟩, ⟨D2, 2/3⟩, ⟨D3, 1⟩], [⟨D0, 0⟩, ⟨D3, 1⟩], ?_⟩
      bracket_tac
  · -- same side, all four on the hull: [start, cp1, cp2, end]
    rcases mul_nonneg_iff.1 c1 with ⟨u0, v0⟩ | ⟨u0, v0⟩
    · rw [abs_of_nonneg u0, abs_of_nonneg v0] at c2 c3
      refine ⟨[⟨D0, 0⟩, ⟨D3, 1⟩], [⟨D0, 0⟩, ⟨D1, 1/3⟩, ⟨D2, 2/3⟩, ⟨D3, 1⟩], ?_⟩
      bracket_tac
    · rw [abs_of_nonpos u0, abs_of_nonpos v0] at c2 c3
      refine ⟨[⟨D0, 0⟩, ⟨D1, 1/3⟩, ⟨D2, 2/3⟩, ⟨D3, 1⟩], [⟨D0, 0⟩, ⟨D3, 1⟩], ?_⟩
      bracket_tac
  · -- opposite sides: [start, cp1, end, cp2]
    rcases mul_neg_iff.1 (not_le.1 c1) with ⟨u0, v0⟩ | ⟨u0, v0⟩
    · refine ⟨[⟨D0, 0⟩, ⟨D2, 2/3⟩, ⟨D3, 1⟩], [⟨D0, 0⟩, ⟨D1, 1/3⟩, ⟨D3, 1⟩], ?_⟩
      bracket_tac
    · refine ⟨[⟨D0, 0⟩, ⟨D1, 1/3⟩, ⟨D3, 1⟩], [⟨D0, 0⟩, ⟨D2, 2/3⟩, ⟨D3, 1⟩], ?_⟩
      bracket_tac

end FatLineLemmas
