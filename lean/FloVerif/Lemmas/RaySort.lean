/-
Helper lemmas for C14 (the final sort of `ray_collisions`): the stable insertion sort of the model and the
generated comparator `Gen.collision_order`.
-/
import FloVerif.Model.Ray
import Mathlib.Data.List.Perm.Basic
import Mathlib.Tactic.Ring
import Mathlib.Tactic.Linarith
import Mathlib.Tactic.SplitIfs
import Mathlib.Tactic.NormNum.OfScientific
import Mathlib.Algebra.Order.Field.Basic
import Mathlib.Algebra.Order.AbsoluteValue.Basic

set_option linter.unusedSectionVars false
namespace RaySort
open Prelude Gen Model.Ray

section SortLemmas
variable {α : Type} (cmp : α → α → Ordering)

theorem insertBy_perm (x : α) : ∀ l : List α, (insertBy cmp x l).Perm (x :: l)
  | [] => List.Perm.refl _
  | y :: ys => by
    simp only [insertBy]
    split_ifs
    · exact List.Perm.refl _
    · exact ((insertBy_perm x ys).cons y).trans (List.Perm.swap x y ys)

theorem sortBy_perm : ∀ l : List α, (sortBy cmp l).Perm l
  | [] => List.Perm.refl _
  | x :: xs => by
    have : sortBy cmp (x :: xs) = insertBy cmp x (sortBy cmp xs) := rfl
    rw [this]
    exact (insertBy_perm cmp x _).trans ((sortBy_perm xs).cons x)

theorem mem_insertBy {x z : α} {l : List α} : z ∈ insertBy cmp x l ↔ z = x ∨ z ∈ l := by
  rw [(insertBy_perm cmp x l).mem_iff, List.mem_cons]

theorem mem_sortBy {z : α} {l : List α} : z ∈ sortBy cmp l ↔ z ∈ l := (sortBy_perm cmp l).mem_iff

/-- inserting into a sorted list keeps it sorted, when `cmp · · ≠ gt` is total and transitive ON the elements involved -/
theorem insertBy_sorted (P : α → Prop)
    (total : ∀ a b, P a → P b → cmp a b ≠ .gt ∨ cmp b a ≠ .gt)
    (trans : ∀ a b c, P a → P b → P c → cmp a b ≠ .gt → cmp b c ≠ .gt → cmp a c ≠ .gt)
    (x : α) (hx : P x) : ∀ l : List α, (∀ y ∈ l, P y) → l.Pairwise (fun a b => cmp a b ≠ .gt) →
      (insertBy cmp x l).Pairwise (fun a b => cmp a b ≠ .gt)
  | [], _, _ => by simp [insertBy]
  | y :: ys, hP, hs => by
    have hy : P y := hP y (by simp)
    have hys : ∀ z ∈ ys, P z := fun z hz => hP z (List.mem_cons_of_mem _ hz)
    rw [List.pairwise_cons] at hs
    simp only [insertBy]
    split_ifs with hc
    · have hxy : cmp x y ≠ .gt := by simpa using hc
      refine List.pairwise_cons.2 ⟨?_, List.pairwise_cons.2 hs⟩
      intro z hz
      rcases List.mem_cons.1 hz with rfl | hz
      · exact hxy
      · exact trans x y z hx hy (hys z hz) hxy (hs.1 z hz)
    · have hxy : ¬ cmp x y ≠ .gt := by simpa using hc
      have hyx : cmp y x ≠ .gt := (total x y hx hy).resolve_left hxy
      refine List.pairwise_cons.2 ⟨?_, insertBy_sorted P total trans x hx ys hys hs.2⟩
      intro z hz
      rcases (mem_insertBy cmp).1 hz with rfl | hz
      · exact hyx
      · exact hs.1 z hz

/-- the stable sort returns a list ordered by the comparator, when the comparator is a total preorder on the elements -/
theorem sortBy_sorted (P : α → Prop)
    (total : ∀ a b, P a → P b → cmp a b ≠ .gt ∨ cmp b a ≠ .gt)
    (trans : ∀ a b c, P a → P b → P c → cmp a b ≠ .gt → cmp b c ≠ .gt → cmp a c ≠ .gt) :
    ∀ l : List α, (∀ y ∈ l, P y) → (sortBy cmp l).Pairwise (fun a b => cmp a b ≠ .gt)
  | [], _ => by simp [sortBy]
  | x :: xs, hP => by
    have : sortBy cmp (x :: xs) = insertBy cmp x (sortBy cmp xs) := rfl
    rw [this]
    refine insertBy_sorted cmp P total trans x (hP x (by simp)) _ ?_ (sortBy_sorted P total trans xs fun y hy => hP y (List.mem_cons_of_mem _ hy))
    intro y hy
    exact hP y (List.mem_cons_of_mem _ ((mem_sortBy cmp).1 hy))

/-- a list that is already ordered by the comparator is a fixed point of the stable sort -/
theorem sortBy_fixed : ∀ l : List α, l.Pairwise (fun a b => cmp a b ≠ .gt) → sortBy cmp l = l
  | [], _ => rfl
  | x :: xs, h => by
    rw [List.pairwise_cons] at h
    have : sortBy cmp (x :: xs) = insertBy cmp x (sortBy cmp xs) := rfl
    rw [this, sortBy_fixed xs h.2]
    cases xs with
    | nil => rfl
    | cons y ys =>
      have hxy : cmp x y ≠ .gt := h.1 y (by simp)
      simp [insertBy, hxy]

end SortLemmas

section Cmp
variable {K : Type} [Field K] [LinearOrder K] [IsStrictOrderedRing K] [Inhabited K] [FSqrt K] [FConsts K]

local instance : FAbs K := ⟨fun a => |a|⟩
local instance : FSignum K := ⟨fun a => if a < 0 then -1 else 1⟩
local instance : OfInt K := ⟨fun n => (n : K)⟩

/-- three-way comparison of two numbers of a linear order (what `partial_cmp` is without NaN) -/
def cmpKey (a b : K) : Ordering := if a < b then .lt else if a = b then .eq else .gt

theorem fpartialCmp_eq (a b : K) : fpartialCmp a b = some (cmpKey a b) := by
  unfold fpartialCmp cmpKey
  rcases lt_trichotomy a b with h | h | h
  · simp [h]
  · subst h; simp
  · have h1 : ¬ a < b := not_lt.2 (le_of_lt h)
    have h2 : a ≠ b := ne_of_gt h
    simp [h1, h2, h]

theorem cmpKey_ne_gt (a b : K) : cmpKey a b ≠ .gt ↔ a ≤ b := by
  unfold cmpKey
  split_ifs with h1 h2
  · simp [le_of_lt h1]
  · simp [le_of_eq h2]
  · simp only [ne_eq, not_true_eq_false, false_iff, not_le]
    rcases lt_trichotomy a b with h | h | h
    · exact absurd h h1
    · exact absurd h h2
    · exact h

theorem cmpKey_swap (a b : K) : (cmpKey b a).swap = cmpKey a b := by
  unfold cmpKey
  rcases lt_trichotomy a b with h | h | h
  · simp [h, not_lt.2 (le_of_lt h), ne_of_gt h]
  · simp [h]
  · simp [h, not_lt.2 (le_of_lt h), ne_of_gt h]

/-- the two collisions are within `SMALL_DISTANCE` of each other in both coordinates (ray.rs:730-733) -/
def near (ca cb : Collision K) : Prop :=
  |ca.t3.x - cb.t3.x| ≤ (SMALL_DISTANCE : K) ∧ |ca.t3.y - cb.t3.y| ≤ (SMALL_DISTANCE : K)

/-- the comparator takes its edge-priority branch -/
def tie (path : RayPathI K) (ca cb : Collision K) : Prop :=
  near ca cb ∧ edges_overlap path ca.t0.edge cb.t0.edge = true

instance (ca cb : Collision K) : Decidable (near ca cb) := by unfold near; infer_instance
instance (path : RayPathI K) (ca cb : Collision K) : Decidable (tie path ca cb) := by unfold tie; infer_instance

/-- outside the tie-break window the generated comparator is the comparison of the line positions -/
theorem order_outside_window (path : RayPathI K) (dir : V2 K) (ca cb : Collision K) (h : ¬ tie path ca cb) :
    collision_order path dir ca cb = cmpKey ca.t2 cb.t2 := by
  unfold collision_order
  simp only [fpartialCmp_eq, Option.getD_some, fabs]
  by_cases h1 : (decide (|ca.t3.x - cb.t3.x| > (SMALL_DISTANCE : K)) || decide (|ca.t3.y - cb.t3.y| > (SMALL_DISTANCE : K))) = true
  · rw [if_pos h1]
  · rw [if_neg h1]
    by_cases h2 : (!edges_overlap path ca.t0.edge cb.t0.edge) = true
    · rw [if_pos h2]
    · exfalso
      apply h
      simp only [Bool.or_eq_true, decide_eq_true_eq, not_or, not_lt, gt_iff_lt] at h1
      exact ⟨⟨h1.1, h1.2⟩, by simpa using h2⟩

/-- the edge-priority branch of the comparator (ray.rs:740-772) -/
def priority (path : RayPathI K) (dir : V2 K) (ca cb : Collision K) : Ordering :=
  if compare ca.t0.edge.start_idx cb.t0.edge.start_idx ≠ .eq then compare ca.t0.edge.start_idx cb.t0.edge.start_idx
  else match compare ca.t0.edge.edge_idx cb.t0.edge.edge_idx with
    | .gt => if dot dir (ray_normal_at_pos (path.get_edge cb.t0.edge) cb.t1) < 0 then .lt else .gt
    | .lt => if dot dir (ray_normal_at_pos (path.get_edge ca.t0.edge) ca.t1) < 0 then .gt else .lt
    | .eq => .eq

/-- inside the window the generated comparator is the edge priority -/
theorem order_inside_window (path : RayPathI K) (dir : V2 K) (ca cb : Collision K) (h : tie path ca cb) :
    collision_order path dir ca cb = priority path dir ca cb := by
  obtain ⟨⟨hx, hy⟩, ho⟩ := h
  have h0 : (0.0 : K) = 0 := by norm_num
  unfold collision_order priority
  simp only [fabs, gt_iff_lt, not_lt.2 hx, not_lt.2 hy, decide_false, Bool.or_self, Bool.false_eq_true, if_false, ho, Bool.not_true,
    bne_iff_ne, ne_eq, h0, decide_eq_true_eq]
  by_cases h1 : compare ca.t0.edge.start_idx cb.t0.edge.start_idx = .eq
  · simp only [h1, not_true_eq_false, if_false]
    generalize compare ca.t0.edge.edge_idx cb.t0.edge.edge_idx = o
    cases o <;> simp only [Ordering.swap]
  · simp only [h1, not_false_eq_true, if_true]

/-- a collision compares `Equal` to itself whatever branch is taken -/
theorem order_self (path : RayPathI K) (dir : V2 K) (ca : Collision K) : collision_order path dir ca ca = .eq := by
  by_cases h : tie path ca ca
  · rw [order_inside_window path dir ca ca h]
    simp [priority]
  · rw [order_outside_window path dir ca ca h]
    simp [cmpKey]

end Cmp
end RaySort
