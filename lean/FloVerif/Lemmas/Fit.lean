/-
Helper lemmas for C08 (curve fitting): loops with fuel, folds that append, slices, and chains of curves.
Nothing here mentions the generated code except the combinators of `Prelude`.
-/
import FloVerif.Prelude.Num
import Mathlib.Data.List.Chain
import Mathlib.Tactic.Common

namespace C08
open Prelude

/-! ### `iterFuel` -/

/-- invariant rule for `while` loops translated with `iterFuel`: whatever the fuel is -/
theorem iterFuel_inv {σ ρ : Type} (Inv : σ → Prop) (Q : ρ → Prop) (step : σ → Sum σ ρ) (fin : σ → ρ)
    (hinl : ∀ s s', Inv s → step s = .inl s' → Inv s')
    (hinr : ∀ s r, Inv s → step s = .inr r → Q r)
    (hfin : ∀ s, Inv s → Q (fin s)) :
    ∀ (fuel : Nat) (s : σ), Inv s → Q (iterFuel fuel step fin s)
  | 0, s, h => by simpa [iterFuel] using hfin s h
  | fuel + 1, s, h => by
    unfold iterFuel
    cases hs : step s with
    | inl s' => simpa using iterFuel_inv Inv Q step fin hinl hinr hfin fuel s' (hinl s s' h hs)
    | inr r => simpa using hinr s r h hs

/-- total-correctness rule: with a measure that decreases on every `inl` and fuel above the measure the loop leaves through
    an `inr` (the fuel is not exhausted), so `fin` is never consulted -/
theorem iterFuel_variant {σ ρ : Type} (Inv : σ → Prop) (Q : ρ → Prop) (μ : σ → Nat) (step : σ → Sum σ ρ) (fin : σ → ρ)
    (hinl : ∀ s s', Inv s → step s = .inl s' → Inv s' ∧ μ s' < μ s)
    (hinr : ∀ s r, Inv s → step s = .inr r → Q r) :
    ∀ (fuel : Nat) (s : σ), Inv s → μ s < fuel → Q (iterFuel fuel step fin s)
  | 0, s, _, hμ => by omega
  | fuel + 1, s, h, hμ => by
    unfold iterFuel
    cases hs : step s with
    | inl s' =>
      obtain ⟨h', hlt⟩ := hinl s s' h hs
      simpa using iterFuel_variant Inv Q μ step fin hinl hinr fuel s' h' (by omega)
    | inr r => simpa using hinr s r h hs

/-! ### folds that append -/

/-- `for curve in fit { curves.push(curve) }` -/
theorem foldlT_push {α : Type} (fit curves : List α) :
    foldlT fit curves (fun st it => st ++ [it]) = curves ++ fit := by
  unfold foldlT
  induction fit generalizing curves with
  | nil => simp
  | cons x xs ih => simp [ih]

/-- a loop whose body appends `g i` to the state is a `flatMap` -/
theorem foldlT_append {ι α : Type} (l : List ι) (init : List α) (g : ι → List α) :
    foldlT l init (fun st it => st ++ g it) = init ++ l.flatMap g := by
  unfold foldlT
  induction l generalizing init with
  | nil => simp
  | cons x xs ih => simp [ih]

/-- a loop whose body either leaves the state alone or appends to it is a `flatMap` -/
theorem foldlT_flatMap {ι α : Type} (l : List ι) (init : List α) (body : List α → ι → List α) (G : ι → List α)
    (hbody : ∀ st k, k ∈ l → body st k = st ++ G k) :
    foldlT l init body = init ++ l.flatMap G := by
  unfold foldlT
  induction l generalizing init with
  | nil => simp
  | cons x xs ih =>
    simp only [List.foldl_cons, List.flatMap_cons]
    rw [hbody init x (by simp), ih _ (fun st k hk => hbody st k (List.mem_cons_of_mem _ hk))]
    simp

/-- skipping (`continue`) is filtering -/
theorem flatMap_map_filter {ι β α : Type} (l : List ι) (f : ι → β) (p : β → Bool) (g : β → List α) :
    ((l.map f).filter p).flatMap g = l.flatMap (fun i => if p (f i) then g (f i) else []) := by
  induction l with
  | nil => simp
  | cons x xs ih =>
    simp only [List.map_cons, List.flatMap_cons, List.filter_cons]
    split <;> simp [ih]

/-! ### slices -/

theorem listSlice_length {α : Type} (l : List α) (lo hi : Nat) (h : hi ≤ l.length) :
    (listSlice l lo hi).length = hi - lo := by
  simp only [listSlice, List.length_take, List.length_drop]; omega

/-- the first element of `&l[lo..hi]` is `l[lo]` -/
theorem listSlice_head? {α : Type} (l : List α) (lo hi : Nat) (h : lo < hi) :
    (listSlice l lo hi).head? = l[lo]? := by
  simp only [listSlice, List.head?_eq_getElem?, List.getElem?_take, List.getElem?_drop]
  rw [if_pos (by omega)]; simp

/-- the last element of `&l[lo..hi]` is `l[hi-1]` -/
theorem listSlice_getLast? {α : Type} (l : List α) (lo hi : Nat) (h : lo < hi) (hh : hi ≤ l.length) :
    (listSlice l lo hi).getLast? = l[hi - 1]? := by
  have hlen := listSlice_length l lo hi hh
  rw [List.getLast?_eq_getElem?, hlen]
  simp only [listSlice, List.getElem?_take, List.getElem?_drop]
  rw [if_pos (by omega)]
  congr 1; omega

/-- a slice is a contiguous part of the list -/
theorem listSlice_infix {α : Type} (l : List α) (lo hi : Nat) : listSlice l lo hi <:+: l :=
  (List.take_prefix _ _).isInfix.trans (List.drop_suffix _ _).isInfix

theorem head?_eq_getElem?_zero {α : Type} (l : List α) : l.head? = l[0]? := List.head?_eq_getElem?

theorem exists_head?_getLast? {α : Type} (l : List α) (h : l ≠ []) :
    ∃ a b, l.head? = some a ∧ l.getLast? = some b :=
  ⟨_, _, List.head?_eq_some_head h, List.getLast?_eq_some_getLast h⟩

/-! ### chains of curves -/

/-- `cs` is a non-empty connected chain of curves from `a` to `b`.  The ends are `Option`s because they are read off lists with
    `head?` / `getLast?`; since `cs ≠ []` they are `some`. `IsChain` is Mathlib's `List.IsChain`. -/
structure ChainFromTo {P C : Type} (startOf endOf : C → P) (a b : Option P) (cs : List C) : Prop where
  ne : cs ≠ []
  head : cs.head?.map startOf = a
  last : cs.getLast?.map endOf = b
  chain : cs.IsChain (fun c c' => endOf c = startOf c')

/-- a single curve -/
theorem ChainFromTo.single {P C : Type} (startOf endOf : C → P) (c : C) :
    ChainFromTo startOf endOf (some (startOf c)) (some (endOf c)) [c] :=
  ⟨by simp, by simp, by simp, List.isChain_singleton _⟩

/-- THE GLUEING LEMMA: a chain that ends at `m` followed by a chain that starts at the same `m` is a chain.
    This is where a shared boundary point is needed. -/
theorem ChainFromTo.append {P C : Type} {startOf endOf : C → P} {a m b : Option P} {xs ys : List C}
    (hx : ChainFromTo startOf endOf a m xs) (hy : ChainFromTo startOf endOf m b ys) :
    ChainFromTo startOf endOf a b (xs ++ ys) := by
  obtain ⟨xne, xh, xl, xc⟩ := hx
  obtain ⟨yne, yh, yl, yc⟩ := hy
  refine ⟨by simp [xne], ?_, ?_, ?_⟩
  · rw [List.head?_append_of_ne_nil _ xne]; exact xh
  · rw [List.getLast?_append_of_ne_nil _ yne]; exact yl
  · rw [List.isChain_append]
    refine ⟨xc, yc, ?_⟩
    intro x hxm y hym
    have h1 : xs.getLast? = some x := by simpa using hxm
    have h2 : ys.head? = some y := by simpa using hym
    rw [h1] at xl; rw [h2] at yh
    rw [← yh] at xl
    simpa using xl

/-- glueing a whole list of chains: block `i` yields a chain from `p i` to `q i`, and consecutive blocks share a point -/
theorem ChainFromTo.flatMap {P C B : Type} {startOf endOf : C → P} (p q : B → Option P) (g : B → List C) :
    ∀ (bs : List B), bs ≠ [] →
      (∀ b ∈ bs, ChainFromTo startOf endOf (p b) (q b) (g b)) →
      bs.IsChain (fun b b' => q b = p b') →
      ChainFromTo startOf endOf (bs.head?.bind p) (bs.getLast?.bind q) (bs.flatMap g)
  | [], h, _, _ => absurd rfl h
  | [b], _, hb, _ => by
    simpa using hb b (by simp)
  | b :: b' :: rest, _, hb, hc => by
    rw [List.isChain_cons_cons] at hc
    have ih := ChainFromTo.flatMap p q g (b' :: rest) (by simp)
      (fun x hx => hb x (List.mem_cons_of_mem _ hx)) hc.2
    have h0 := hb b (by simp)
    rw [hc.1] at h0
    have := ChainFromTo.append h0 (by simpa using ih)
    simpa [List.getLast?_cons_cons] using this

end C08
