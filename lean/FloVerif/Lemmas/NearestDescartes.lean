/-
Helper lemmas for C09: the one-sign-change case of the variation diminishing property (Descartes' rule for the
Bernstein basis): a degree-n Bernstein polynomial whose coefficients are `≤ 0` up to some index and `≥ 0` from it on,
not all zero, has at most one zero in the open interval (0,1).
-/
import Mathlib.Algebra.Order.BigOperators.Group.Finset
import Mathlib.Algebra.BigOperators.Group.Finset.Basic
import Mathlib.Algebra.BigOperators.Ring.Finset
import Mathlib.Algebra.Order.Field.Basic
import Mathlib.Data.Nat.Choose.Basic
import Mathlib.Tactic.Ring
import Mathlib.Tactic.Linarith
import Mathlib.Tactic.Positivity

namespace C09L
open Finset

variable {K : Type} [Field K] [LinearOrder K] [IsStrictOrderedRing K]

/-- the `i`-th Bernstein basis function of degree `n` -/
def bernB (n i : ℕ) (t : K) : K := (n.choose i : K) * t ^ i * (1 - t) ^ (n - i)

theorem bernB_pos {n i : ℕ} (hi : i ≤ n) {t : K} (h0 : 0 < t) (h1 : t < 1) : 0 < bernB n i t := by
  have hs : 0 < 1 - t := by linarith
  have hc : (0 : K) < (n.choose i : K) := by exact_mod_cast Nat.choose_pos hi
  unfold bernB
  positivity

/-- the 2×2 determinant of basis functions at two parameters has the sign of `i − k` -/
theorem bernB_det_pos {n i k : ℕ} (hki : k < i) (hi : i ≤ n) {t1 t2 : K} (h0 : 0 < t1) (h12 : t1 < t2) (h1 : t2 < 1) :
    0 < bernB n i t2 * bernB n k t1 - bernB n i t1 * bernB n k t2 := by
  obtain ⟨m, rfl⟩ : ∃ m, i = k + m := ⟨i - k, by omega⟩
  obtain ⟨l, rfl⟩ : ∃ l, n = k + m + l := ⟨n - (k + m), by omega⟩
  have hm : 0 < m := by omega
  have hs1 : 0 < 1 - t1 := by linarith
  have hs2 : 0 < 1 - t2 := by linarith
  have ht2 : 0 < t2 := by linarith
  have e1 : k + m + l - (k + m) = l := by omega
  have e2 : k + m + l - k = l + m := by omega
  have hc1 : (0 : K) < ((k + m + l).choose (k + m) : K) := by exact_mod_cast Nat.choose_pos (by omega)
  have hc2 : (0 : K) < ((k + m + l).choose k : K) := by exact_mod_cast Nat.choose_pos (by omega)
  have hpow : (t1 * (1 - t2)) ^ m < (t2 * (1 - t1)) ^ m := by
    apply pow_lt_pow_left₀ _ (by positivity) (by omega)
    nlinarith
  have key : bernB (k + m + l) (k + m) t2 * bernB (k + m + l) k t1 - bernB (k + m + l) (k + m) t1 * bernB (k + m + l) k t2 =
      ((k + m + l).choose (k + m) : K) * ((k + m + l).choose k : K) * t1 ^ k * t2 ^ k * (1 - t1) ^ l * (1 - t2) ^ l *
        (t2 ^ m * (1 - t1) ^ m - t1 ^ m * (1 - t2) ^ m) := by
    unfold bernB
    rw [e1, e2]
    generalize 1 - t1 = s1
    generalize 1 - t2 = s2
    ring
  rw [key]
  have : 0 < t2 ^ m * (1 - t1) ^ m - t1 ^ m * (1 - t2) ^ m := by
    rw [← mul_pow, ← mul_pow]; exact sub_pos.2 hpow
  positivity

/-- ONE SIGN CHANGE, AT MOST ONE ZERO: coefficients `≤ 0` below index `k` and `≥ 0` from `k` on; two different zeros in
    (0,1) force all coefficients to vanish -/
theorem bern_one_change {n k : ℕ} (hk : k ≤ n) (c : ℕ → K) (hneg : ∀ i, i < k → c i ≤ 0)
    (hpos : ∀ i, k ≤ i → i ≤ n → 0 ≤ c i) {t1 t2 : K} (h0 : 0 < t1) (h12 : t1 < t2) (h1 : t2 < 1)
    (hz1 : ∑ i ∈ range (n + 1), c i * bernB n i t1 = 0) (hz2 : ∑ i ∈ range (n + 1), c i * bernB n i t2 = 0) :
    ∀ i, i ≤ n → c i = 0 := by
  have ht1 : t1 < 1 := by linarith
  have ht2 : 0 < t2 := by linarith
  -- the combination that kills the k-th term
  have hE : ∑ i ∈ range (n + 1), c i * (bernB n i t2 * bernB n k t1 - bernB n i t1 * bernB n k t2) = 0 := by
    have : ∑ i ∈ range (n + 1), c i * (bernB n i t2 * bernB n k t1 - bernB n i t1 * bernB n k t2) =
        (∑ i ∈ range (n + 1), c i * bernB n i t2) * bernB n k t1 -
        (∑ i ∈ range (n + 1), c i * bernB n i t1) * bernB n k t2 := by
      rw [sum_mul, sum_mul, ← sum_sub_distrib]
      apply sum_congr rfl
      intro i _
      ring
    rw [this, hz1, hz2]; ring
  have hterm : ∀ i ∈ range (n + 1), 0 ≤ c i * (bernB n i t2 * bernB n k t1 - bernB n i t1 * bernB n k t2) := by
    intro i hi
    have hin : i ≤ n := by simpa [Nat.lt_succ_iff] using hi
    rcases lt_trichotomy i k with h | h | h
    · have hd := bernB_det_pos (n := n) h hk h0 h12 h1
      have : bernB n i t2 * bernB n k t1 - bernB n i t1 * bernB n k t2 ≤ 0 := by linarith
      exact mul_nonneg_of_nonpos_of_nonpos (hneg i h) this
    · subst h
      have : bernB n i t2 * bernB n i t1 - bernB n i t1 * bernB n i t2 = 0 := by ring
      rw [this, mul_zero]
    · have hd := bernB_det_pos (n := n) h hin h0 h12 h1
      exact mul_nonneg (hpos i h.le hin) hd.le
  have hall := (sum_eq_zero_iff_of_nonneg hterm).1 hE
  have hne : ∀ i, i ≤ n → i ≠ k → c i = 0 := by
    intro i hin hik
    have := hall i (by simpa [Nat.lt_succ_iff] using hin)
    rcases mul_eq_zero.1 this with h | h
    · exact h
    · exfalso
      rcases lt_or_gt_of_ne hik with h' | h'
      · have hd := bernB_det_pos (n := n) h' hk h0 h12 h1
        linarith
      · have hd := bernB_det_pos (n := n) h' hin h0 h12 h1
        linarith
  have hck : c k = 0 := by
    have hs : ∑ i ∈ range (n + 1), c i * bernB n i t1 = c k * bernB n k t1 := by
      apply sum_eq_single k
      · intro b hb hbk
        rw [hne b (by simpa [Nat.lt_succ_iff] using hb) hbk, zero_mul]
      · intro hk'
        exact absurd (by simpa [Nat.lt_succ_iff] using hk) hk'
    rw [hs] at hz1
    rcases mul_eq_zero.1 hz1 with h | h
    · exact h
    · exact absurd h (ne_of_gt (bernB_pos hk h0 ht1))
  intro i hin
  by_cases hik : i = k
  · rw [hik]; exact hck
  · exact hne i hin hik

end C09L
