/-
Helper lemmas for C09: the loop of `find_bezier_roots::<_, 6>` (generated, `Gen.find_bezier_roots`) as a step
function on (stack of sections, roots so far), its invariant (the sections still on the stack and the leaves already
decided tile the parameter range; every section's polynomial is the restriction of the root polynomial), and what
the tiling says about the zeros of the polynomial.
-/
import FloVerif.Lemmas.Nearest

set_option linter.unusedSectionVars false
set_option linter.unusedVariables false
namespace C09L
open Prelude Gen Model.Nearest

variable {K : Type} [Field K] [LinearOrder K] [IsStrictOrderedRing K] [Inhabited K]
local instance fabsNearestRoots : FAbs K := ⟨fun a => |a|⟩
variable [FSqrt K] [FSignum K] [OfInt K]

/-! ### The loop body as a step function -/

/-- what the loop does with the section on top of the stack -/
inductive Kind | pruned | flat | capped | split
deriving DecidableEq, Repr

/-- the three tests of the loop body, in the order of the code -/
def classify (s : List (V2 K)) (d : Nat) : Kind :=
  if count_x_axis_crossings 6 s = 0 then .pruned
  else if count_x_axis_crossings 6 s = 1 ∧ flat_enough 6 s = true then .flat
  else if 48 ≤ d then .capped else .split

/-- loop state: (stack of (section, depth), roots) -/
abbrev St (K : Type) := T2 (List (T2 (List (V2 K)) Nat)) (List K)

/-- the value pushed for a flat section with one crossing -/
def flatValue (s : List (V2 K)) : K := (de_casteljau_n (find_x_intercept 6 s) s).x
/-- the value pushed for a section at the depth limit -/
def capValue (s : List (V2 K)) : K := ((listGet s 0).x + (listGet s 5).x) * (0.5 : K)

def specStep (st : St K) : Sum (St K) (LoopExit (St K) (List K)) :=
  match st.t0.getLast? with
  | none => .inr (.ret st.t1)
  | some top =>
    match classify top.t0 top.t1 with
    | .pruned => .inl ⟨st.t0.dropLast, st.t1⟩
    | .flat => .inl ⟨st.t0.dropLast, st.t1 ++ [flatValue top.t0]⟩
    | .capped => .inl ⟨st.t0.dropLast, st.t1 ++ [capValue top.t0]⟩
    | .split => .inl ⟨st.t0.dropLast ++ [⟨(subdivide_n 6 (0.5 : K) top.t0).t1, top.t1 + 1⟩,
                                           ⟨(subdivide_n 6 (0.5 : K) top.t0).t0, top.t1 + 1⟩], st.t1⟩

/-- the loop with `fuel` iterations: `ret roots` when the stack ran empty, `brk state` when the fuel ran out first -/
def runSpec (fuel : Nat) (pts : List (V2 K)) : LoopExit (St K) (List K) :=
  iterFuel fuel specStep (fun s => .brk s) ⟨[⟨pts, 0⟩], []⟩

/-- the generated `find_bezier_roots 6` IS this loop (fuel 100000; the roots so far if the fuel runs out) -/
theorem find_bezier_roots_spec (pts : List (V2 K)) :
    find_bezier_roots 6 pts = match runSpec 100000 pts with | .brk b => b.t1 | .ret r => r := by
  unfold find_bezier_roots runSpec
  have key : ∀ (f : St K → Sum (St K) (LoopExit (St K) (List K))), f = specStep →
      (match iterFuel 100000 f (fun s => LoopExit.brk s) ⟨[⟨pts, 0⟩], []⟩ with | .brk b => b.t1 | .ret r => r) =
      (match iterFuel 100000 specStep (fun s => LoopExit.brk s) ⟨[⟨pts, 0⟩], []⟩ with
        | .brk b => b.t1 | .ret r => r) := by
    intro f hf; rw [hf]
  refine key _ ?_
  funext st
  simp only [specStep]
  cases h : st.t0.getLast? with
  | none => rfl
  | some top =>
    simp only [classify]
    split_ifs <;> simp_all [flatValue, capValue]

/-- invariant rule for `iterFuel` -/
theorem iterFuel_inv {σ ρ : Type} (Inv : σ → Prop) (Post : ρ → Prop) (step : σ → Sum σ ρ) (fin : σ → ρ)
    (hstep : ∀ s s', Inv s → step s = .inl s' → Inv s') (hret : ∀ s r, Inv s → step s = .inr r → Post r)
    (hfin : ∀ s, Inv s → Post (fin s)) : ∀ (n : Nat) (s : σ), Inv s → Post (iterFuel n step fin s)
  | 0, s, h => hfin s h
  | n + 1, s, h => by
    simp only [iterFuel]
    cases hst : step s with
    | inl s' => exact iterFuel_inv Inv Post step fin hstep hret hfin n s' (hstep s s' h hst)
    | inr r => exact hret s r h hst

/-! ### Sections -/

/-- x-coordinates of a section over [a,b]: the code keeps them affine in the index -/
def affX (a b : K) : List K := [a, a + (b - a) / 5, a + (b - a) * 2 / 5, a + (b - a) * 3 / 5, a + (b - a) * 4 / 5, b]

/-- `s` is a six-point section over the parameter range [a,b] whose y-polynomial is `p` restricted to [a,b] -/
def IsSec (p : K → K) (s : List (V2 K)) (a b : K) : Prop :=
  ∃ c0 c1 c2 c3 c4 c5 : K, s = mkSec (affX a b) [c0, c1, c2, c3, c4, c5] ∧
    ∀ u, bern5 c0 c1 c2 c3 c4 c5 u = p (a + (b - a) * u)

theorem half_lit : (0.5 : K) = 1 / 2 := by norm_num

/-- subdividing at 1/2 gives the sections over the two halves of the range, for the same polynomial -/
theorem sec_split {p : K → K} {s : List (V2 K)} {a b : K} (h : IsSec p s a b) :
    IsSec p (subdivide_n 6 (0.5 : K) s).t0 a ((a + b) / 2) ∧ IsSec p (subdivide_n 6 (0.5 : K) s).t1 ((a + b) / 2) b := by
  obtain ⟨c0, c1, c2, c3, c4, c5, rfl, hp⟩ := h
  have e : mkSec (affX a b) [c0, c1, c2, c3, c4, c5] =
      [⟨a, c0⟩, ⟨a + (b - a) / 5, c1⟩, ⟨a + (b - a) * 2 / 5, c2⟩, ⟨a + (b - a) * 3 / 5, c3⟩,
       ⟨a + (b - a) * 4 / 5, c4⟩, ⟨b, c5⟩] := by simp [mkSec, affX]
  rw [e, subdivide6, half_lit]
  constructor
  · have hx : leftC (1 / 2) a (a + (b - a) / 5) (a + (b - a) * 2 / 5) (a + (b - a) * 3 / 5) (a + (b - a) * 4 / 5) b =
        affX a ((a + b) / 2) := by
      simp only [leftC, lerp, bern5, affX, List.cons.injEq, and_true, true_and]
      and_intros <;> ring
    have hl := bern5_left (1 / 2 : K) c0 c1 c2 c3 c4 c5
    simp only [leftC] at hl
    show IsSec p (mkSec (leftC (1 / 2) a (a + (b - a) / 5) (a + (b - a) * 2 / 5) (a + (b - a) * 3 / 5)
      (a + (b - a) * 4 / 5) b) (leftC (1 / 2) c0 c1 c2 c3 c4 c5)) a ((a + b) / 2)
    rw [hx]
    exact ⟨_, _, _, _, _, _, rfl, fun u => by rw [hl u, hp]; congr 1; ring⟩
  · have hx : rightC (1 / 2) a (a + (b - a) / 5) (a + (b - a) * 2 / 5) (a + (b - a) * 3 / 5) (a + (b - a) * 4 / 5) b =
        affX ((a + b) / 2) b := by
      simp only [rightC, lerp, bern5, affX, List.cons.injEq, and_true]
      and_intros <;> ring
    have hr := bern5_right (1 / 2 : K) c0 c1 c2 c3 c4 c5
    simp only [rightC] at hr
    show IsSec p (mkSec (rightC (1 / 2) a (a + (b - a) / 5) (a + (b - a) * 2 / 5) (a + (b - a) * 3 / 5)
      (a + (b - a) * 4 / 5) b) (rightC (1 / 2) c0 c1 c2 c3 c4 c5)) ((a + b) / 2) b
    rw [hx]
    exact ⟨_, _, _, _, _, _, rfl, fun u => by rw [hr u, hp]; congr 1; ring⟩

/-- a section without crossing: the polynomial is negative on the whole closed range, or non-negative on it -/
theorem sec_pruned {p : K → K} {s : List (V2 K)} {a b : K} (h : IsSec p s a b) (hab : a < b)
    (hc : count_x_axis_crossings 6 s = 0) :
    (∀ x, a ≤ x → x ≤ b → p x < 0) ∨ (∀ x, a ≤ x → x ≤ b → 0 ≤ p x) := by
  obtain ⟨c0, c1, c2, c3, c4, c5, rfl, hp⟩ := h
  have e : mkSec (affX a b) [c0, c1, c2, c3, c4, c5] =
      [⟨a, c0⟩, ⟨a + (b - a) / 5, c1⟩, ⟨a + (b - a) * 2 / 5, c2⟩, ⟨a + (b - a) * 3 / 5, c3⟩,
       ⟨a + (b - a) * 4 / 5, c4⟩, ⟨b, c5⟩] := by simp [mkSec, affX]
  rw [e] at hc
  have hba : 0 < b - a := sub_pos.2 hab
  have key : ∀ x, a ≤ x → x ≤ b → p x = bern5 c0 c1 c2 c3 c4 c5 ((x - a) / (b - a)) ∧
      0 ≤ (x - a) / (b - a) ∧ (x - a) / (b - a) ≤ 1 := by
    intro x hax hxb
    refine ⟨?_, div_nonneg (sub_nonneg.2 hax) hba.le, ?_⟩
    · rw [hp]; congr 1; field_simp; ring
    · rw [div_le_one hba]; linarith
  rcases count6_zero hc with ⟨h0, h1, h2, h3, h4, h5⟩ | ⟨h0, h1, h2, h3, h4, h5⟩
  · left
    intro x hax hxb
    obtain ⟨e1, e2, e3⟩ := key x hax hxb
    rw [e1]
    exact bern5_neg h0 h1 h2 h3 h4 h5 e2 e3
  · right
    intro x hax hxb
    obtain ⟨e1, e2, e3⟩ := key x hax hxb
    rw [e1]
    exact bern5_nonneg h0 h1 h2 h3 h4 h5 e2 e3

/-- the value pushed at the depth limit is the middle of the section's range -/
theorem sec_capValue {p : K → K} {s : List (V2 K)} {a b : K} (h : IsSec p s a b) : capValue s = (a + b) / 2 := by
  obtain ⟨c0, c1, c2, c3, c4, c5, rfl, hp⟩ := h
  simp [capValue, mkSec, affX, listGet, half_lit]
  ring

/-! ### Leaves and the tiling invariant -/

/-- a section the loop has finished with (not subdivided): its range, its points, what was done with it -/
structure Leaf (K : Type) where
  a : K
  b : K
  sec : List (V2 K)
  kind : Kind

/-- what is known about a leaf, given the polynomial `p` and the roots reported so far -/
def LeafOK (p : K → K) (roots : List K) (l : Leaf K) : Prop :=
  l.a < l.b ∧ IsSec p l.sec l.a l.b ∧
  match l.kind with
  | .pruned => count_x_axis_crossings 6 l.sec = 0
  | .flat => count_x_axis_crossings 6 l.sec = 1 ∧ flat_enough 6 l.sec = true ∧ flatValue l.sec ∈ roots
  | .capped => l.b - l.a = (1 / 2 : K) ^ 48 ∧ (l.a + l.b) / 2 ∈ roots
  | .split => False

theorem LeafOK_mono {p : K → K} {roots roots' : List K} {l : Leaf K} (h : LeafOK p roots l)
    (hsub : ∀ v ∈ roots, v ∈ roots') : LeafOK p roots' l := by
  obtain ⟨h1, h2, h3⟩ := h
  refine ⟨h1, h2, ?_⟩
  cases hk : l.kind with
  | pruned => rw [hk] at h3; exact h3
  | flat => rw [hk] at h3; exact ⟨h3.1, h3.2.1, hsub _ h3.2.2⟩
  | capped => rw [hk] at h3; exact ⟨h3.1, hsub _ h3.2⟩
  | split => rw [hk] at h3; exact h3

/-- consecutive leaves from `a` to `c` -/
def tiles : K → List (Leaf K) → K → Prop
  | a, [], c => a = c
  | a, l :: rest, c => l.a = a ∧ tiles l.b rest c

theorem tiles_append {a c : K} {ls : List (Leaf K)} {l : Leaf K} (h : tiles a ls c) (hl : l.a = c) :
    tiles a (ls ++ [l]) l.b := by
  induction ls generalizing a with
  | nil => simp only [tiles] at h; subst h; exact ⟨hl, rfl⟩
  | cons x xs ih => exact ⟨h.1, ih h.2⟩

/-- the leaves of a tiling of [a,c] lie inside [a,c] -/
theorem tiles_bounds : ∀ (leaves : List (Leaf K)) (a c : K), tiles a leaves c → (∀ l ∈ leaves, l.a < l.b) →
    a ≤ c ∧ ∀ l ∈ leaves, a ≤ l.a ∧ l.b ≤ c
  | [], a, c, h, _ => by simp only [tiles] at h; subst h; exact ⟨le_refl _, by simp⟩
  | l :: rest, a, c, h, hlt => by
    obtain ⟨hla, hrest⟩ := h
    obtain ⟨h1, h2⟩ := tiles_bounds rest l.b c hrest (fun l' hl' => hlt l' (List.mem_cons_of_mem _ hl'))
    have hl := hlt l (by simp)
    refine ⟨by rw [← hla]; exact le_trans hl.le h1, ?_⟩
    intro l' hl'
    rcases List.mem_cons.1 hl' with rfl | hl'
    · exact ⟨hla.ge, h1⟩
    · obtain ⟨g1, g2⟩ := h2 l' hl'
      exact ⟨by rw [← hla]; exact le_trans hl.le g1, g2⟩

/-- the stack (bottom first = rightmost range first) covers [c, hi]; every entry is a section of `p` over a range of
    width 2^-depth, depth ≤ 48 -/
def stackOK (p : K → K) : K → List (T2 (List (V2 K)) Nat) → K → Prop
  | hi, [], c => c = hi
  | hi, e :: rest, c => ∃ a, a < hi ∧ IsSec p e.t0 a hi ∧ hi - a = (1 / 2 : K) ^ e.t1 ∧ e.t1 ≤ 48 ∧ stackOK p a rest c

theorem stackOK_concat {p : K → K} {hi c : K} {init : List (T2 (List (V2 K)) Nat)} {top : T2 (List (V2 K)) Nat} :
    stackOK p hi (init ++ [top]) c ↔
      ∃ m, stackOK p hi init m ∧ c < m ∧ IsSec p top.t0 c m ∧ m - c = (1 / 2 : K) ^ top.t1 ∧ top.t1 ≤ 48 := by
  induction init generalizing hi with
  | nil =>
    simp only [List.nil_append, stackOK]
    constructor
    · rintro ⟨a, h1, h2, h3, h4, rfl⟩
      exact ⟨hi, rfl, h1, h2, h3, h4⟩
    · rintro ⟨m, rfl, h1, h2, h3, h4⟩
      exact ⟨c, h1, h2, h3, h4, rfl⟩
  | cons x xs ih =>
    simp only [List.cons_append, stackOK]
    constructor
    · rintro ⟨a, h1, h2, h3, h4, h5⟩
      obtain ⟨m, g1, g2⟩ := ih.1 h5
      exact ⟨m, ⟨a, h1, h2, h3, h4, g1⟩, g2⟩
    · rintro ⟨m, ⟨a, h1, h2, h3, h4, g1⟩, g2⟩
      exact ⟨a, h1, h2, h3, h4, ih.2 ⟨m, g1, g2⟩⟩

/-- loop invariant -/
def Inv (p : K → K) (st : St K) : Prop :=
  ∃ (leaves : List (Leaf K)) (c : K), tiles 0 leaves c ∧ (∀ l ∈ leaves, LeafOK p st.t1 l) ∧ stackOK p 1 st.t0 c

/-- what holds when the loop returns because the stack is empty -/
def Post (p : K → K) : LoopExit (St K) (List K) → Prop
  | .brk _ => True
  | .ret roots => ∃ leaves : List (Leaf K), tiles 0 leaves 1 ∧ ∀ l ∈ leaves, LeafOK p roots l

theorem specStep_inv (p : K → K) (st : St K) (h : Inv p st) :
    match specStep st with | .inl s' => Inv p s' | .inr r => Post p r := by
  obtain ⟨leaves, c, ht, hl, hs⟩ := h
  unfold specStep
  cases hg : st.t0.getLast? with
  | none =>
    simp only []
    have : st.t0 = [] := List.getLast?_eq_none_iff.1 hg
    rw [this] at hs
    simp only [stackOK] at hs
    subst hs
    exact ⟨leaves, ht, hl⟩
  | some top =>
    simp only []
    obtain ⟨init, hinit⟩ := List.getLast?_eq_some_iff.1 hg
    rw [hinit] at hs
    obtain ⟨m, hm, hcm, hsec, hw, hd⟩ := stackOK_concat.1 hs
    have hdrop : st.t0.dropLast = init := by rw [hinit]; exact List.dropLast_concat
    cases hk : classify top.t0 top.t1 with
    | pruned =>
      simp only []
      have hc0 : count_x_axis_crossings 6 top.t0 = 0 := by
        unfold classify at hk
        split_ifs at hk with h1
        exact h1
      refine ⟨leaves ++ [⟨c, m, top.t0, .pruned⟩], m, tiles_append ht rfl, ?_, ?_⟩
      · intro l hl'
        rcases List.mem_append.1 hl' with hl' | hl'
        · exact hl l hl'
        · rw [List.mem_singleton.1 hl']
          exact ⟨hcm, hsec, hc0⟩
      · rw [hdrop]; exact hm
    | flat =>
      simp only []
      have hc1 : count_x_axis_crossings 6 top.t0 = 1 ∧ flat_enough 6 top.t0 = true := by
        unfold classify at hk
        split_ifs at hk with h1 h2
        exact h2
      refine ⟨leaves ++ [⟨c, m, top.t0, .flat⟩], m, tiles_append ht rfl, ?_, ?_⟩
      · intro l hl'
        rcases List.mem_append.1 hl' with hl' | hl'
        · exact LeafOK_mono (hl l hl') (fun v hv => List.mem_append_left _ hv)
        · rw [List.mem_singleton.1 hl']
          exact ⟨hcm, hsec, hc1.1, hc1.2, by simp⟩
      · rw [hdrop]; exact hm
    | capped =>
      simp only []
      have hd48 : 48 ≤ top.t1 := by
        unfold classify at hk
        split_ifs at hk with h1 h2 h3
        exact h3
      have hde : top.t1 = 48 := le_antisymm hd hd48
      refine ⟨leaves ++ [⟨c, m, top.t0, .capped⟩], m, tiles_append ht rfl, ?_, ?_⟩
      · intro l hl'
        rcases List.mem_append.1 hl' with hl' | hl'
        · exact LeafOK_mono (hl l hl') (fun v hv => List.mem_append_left _ hv)
        · rw [List.mem_singleton.1 hl']
          refine ⟨hcm, hsec, ?_, ?_⟩
          · show m - c = _
            rw [hw, hde]
          · show (c + m) / 2 ∈ _
            rw [sec_capValue hsec]
            simp
      · rw [hdrop]; exact hm
    | split =>
      simp only []
      have hd48 : ¬ 48 ≤ top.t1 := by
        unfold classify at hk
        split_ifs at hk with h1 h2 h3
        exact h3
      obtain ⟨hL, hR⟩ := sec_split hsec
      refine ⟨leaves, c, ht, hl, ?_⟩
      rw [hdrop]
      have e : init ++ [(⟨(subdivide_n 6 (0.5 : K) top.t0).t1, top.t1 + 1⟩ : T2 (List (V2 K)) Nat),
          ⟨(subdivide_n 6 (0.5 : K) top.t0).t0, top.t1 + 1⟩] =
          (init ++ [⟨(subdivide_n 6 (0.5 : K) top.t0).t1, top.t1 + 1⟩]) ++
            [⟨(subdivide_n 6 (0.5 : K) top.t0).t0, top.t1 + 1⟩] := by simp
      rw [e]
      have hmid1 : c < (c + m) / 2 := by linarith
      have hmid2 : (c + m) / 2 < m := by linarith
      have hwid : ∀ x y : K, y - x = (m - c) / 2 → y - x = (1 / 2 : K) ^ (top.t1 + 1) := by
        intro x y hxy; rw [hxy, hw, pow_succ]; ring
      have hd1 : top.t1 + 1 ≤ 48 := by omega
      refine stackOK_concat.2 ⟨(c + m) / 2, stackOK_concat.2 ⟨m, hm, hmid2, hR, hwid _ _ (by ring), hd1⟩,
        hmid1, hL, hwid _ _ (by ring), hd1⟩

/-- MAIN INVARIANT THEOREM: started on a section of `p` over [0,1], whenever the loop returns (with any fuel) the
    sections it did not subdivide tile [0,1] and each of them is a valid leaf -/
theorem runSpec_post (p : K → K) (pts : List (V2 K)) (h : IsSec p pts 0 1) (fuel : Nat) :
    Post p (runSpec fuel pts) := by
  unfold runSpec
  apply iterFuel_inv (Inv p) (Post p) specStep (fun s => LoopExit.brk s)
  · intro s s' hs hst
    have := specStep_inv p s hs
    rw [hst] at this
    exact this
  · intro s r hs hst
    have := specStep_inv p s hs
    rw [hst] at this
    exact this
  · intro s _
    trivial
  · refine ⟨[], 0, rfl, by simp, ?_⟩
    show stackOK p 1 [⟨pts, 0⟩] 0
    exact ⟨0, zero_lt_one, h, by simp, Nat.zero_le _, rfl⟩

/-! ### What a tiling by valid leaves says about a zero of the polynomial -/

/-- the leaf was examined (not pruned) -/
def Leaf.examined (l : Leaf K) : Prop := l.kind = .flat ∨ l.kind = .capped

theorem tiles_zero_aux (p : K → K) (roots : List K) (x : K) (hx : p x = 0) :
    ∀ (leaves : List (Leaf K)) (a c : K), tiles a leaves c → (∀ l ∈ leaves, LeafOK p roots l) → a ≤ x → x ≤ c →
      (∃ l ∈ leaves, l.examined ∧ l.a ≤ x ∧ x ≤ l.b) ∨
      (∃ lo hi, lo ≤ x ∧ x ≤ hi ∧ (lo < x ∨ x = a) ∧ (x < hi ∨ x = c) ∧ ∀ y, lo ≤ y → y ≤ hi → 0 ≤ p y)
  | [], a, c, ht, _, hax, hxc => by
    simp only [tiles] at ht
    subst ht
    have : x = a := le_antisymm hxc hax
    exact Or.inr ⟨x, x, le_refl _, le_refl _, Or.inr this, Or.inr this, fun y h1 h2 => by
      have : y = x := le_antisymm h2 h1
      rw [this, hx]⟩
  | l :: rest, a, c, ht, hok, hax, hxc => by
    obtain ⟨hla, hrest⟩ := ht
    have hl := hok l (by simp)
    have hokr : ∀ l' ∈ rest, LeafOK p roots l' := fun l' h' => hok l' (List.mem_cons_of_mem _ h')
    obtain ⟨hab, hsec, hkind⟩ := hl
    -- either this leaf was examined, or it is pruned and (as p x = 0 may happen in it) non-negative
    have hcase : l.examined ∨ (l.a ≤ x → x ≤ l.b → ∀ y, l.a ≤ y → y ≤ l.b → 0 ≤ p y) := by
      cases hk : l.kind with
      | pruned =>
        right
        rw [hk] at hkind
        intro h1 h2
        rcases sec_pruned hsec hab hkind with hneg | hpos
        · exact absurd hx (ne_of_lt (hneg x h1 h2))
        · exact hpos
      | flat => exact Or.inl (Or.inl hk)
      | capped => exact Or.inl (Or.inr hk)
      | split => rw [hk] at hkind; exact absurd hkind (by simp)
    rcases lt_trichotomy x l.b with hlt | heq | hgt
    · -- x inside [l.a, l.b)
      rcases hcase with hex | hnn
      · exact Or.inl ⟨l, by simp, hex, by rw [hla]; exact hax, hlt.le⟩
      · refine Or.inr ⟨l.a, l.b, by rw [hla]; exact hax, hlt.le, ?_, Or.inl hlt, hnn (by rw [hla]; exact hax) hlt.le⟩
        rcases lt_or_eq_of_le hax with h | h
        · exact Or.inl (by rw [hla]; exact h)
        · exact Or.inr h.symm
    · -- x is the right end of this leaf
      rcases hcase with hex | hnn
      · exact Or.inl ⟨l, by simp, hex, by rw [hla]; exact hax, heq.le⟩
      · have hxc' : l.b ≤ x := heq.ge
        rcases tiles_zero_aux p roots x hx rest l.b c hrest hokr hxc' hxc with ⟨l', hl', h'⟩ | ⟨lo, hi, h1, h2, h3, h4, h5⟩
        · exact Or.inl ⟨l', List.mem_cons_of_mem _ hl', h'⟩
        · refine Or.inr ⟨l.a, hi, by rw [hla]; exact hax, h2, ?_, h4, ?_⟩
          · left; rw [heq]; exact hab
          · intro y hy1 hy2
            rcases le_total y l.b with hyb | hyb
            · exact hnn (by rw [hla]; exact hax) heq.le y hy1 hyb
            · exact h5 y (by rw [← heq] at hyb; exact le_trans h1 hyb) hy2
    · -- x beyond this leaf
      rcases tiles_zero_aux p roots x hx rest l.b c hrest hokr hgt.le hxc with ⟨l', hl', h'⟩ | ⟨lo, hi, h1, h2, h3, h4, h5⟩
      · exact Or.inl ⟨l', List.mem_cons_of_mem _ hl', h'⟩
      · refine Or.inr ⟨max lo l.b, hi, max_le h1 hgt.le, h2, Or.inl ?_, h4, fun y hy1 hy2 => h5 y (le_trans (le_max_left _ _) hy1) hy2⟩
        rcases h3 with h3 | h3
        · exact max_lt h3 hgt
        · exact absurd h3 (ne_of_gt hgt)

end C09L
