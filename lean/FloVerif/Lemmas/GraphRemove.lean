import FloVerif.Lemmas.Graph
/-! C03 helper lemmas, part 3: `remove_edge` / `remove_all_very_short_edges` keep the invariant (for self-loops). -/
set_option linter.unusedSectionVars false
set_option linter.unusedVariables false
set_option linter.unusedSimpArgs false
namespace Model.Graph

/-! ### counting helpers -/

theorem countP_or_disjoint {α : Type} (a b : α → Bool) (l : List α) (h : ∀ x ∈ l, ¬ (a x = true ∧ b x = true)) :
    l.countP (fun x => a x || b x) = l.countP a + l.countP b := by
  induction l with
  | nil => rfl
  | cons x l ih =>
    have hx := h x (by simp)
    have := ih (fun y hy => h y (by simp [hy]))
    simp only [List.countP_cons, this]
    cases ha : a x <;> cases hb : b x <;> simp_all <;> omega

theorem cntP_or_disjoint (a b : Edge → Bool) (g : Graph) (h : ∀ x, ¬ (a x = true ∧ b x = true)) :
    cntP (fun x => a x || b x) g = cntP a g + cntP b g :=
  countP_or_disjoint a b _ (fun x _ => h x)

theorem cntP_and_const (a : Edge → Bool) (c : Bool) (g : Graph) :
    cntP (fun x => a x && c) g = if c then cntP a g else 0 := by
  cases c
  · simp [cntP]
  · simp

theorem cntP_eraseIdx (q : Edge → Bool) (g : Graph) (p e : Nat) (old : Edge) (h : edgeAt g p e = some old) :
    cntP q (updEdges g p (·.eraseIdx e)) + (if q old then 1 else 0) = cntP q g := by
  have hp := lt_of_edgeAt h
  have h1 := cntP_updEdges q g p (·.eraseIdx e) hp
  have h2 := countP_eraseIdx q (edgesAt g p) e old h
  omega

/-! ### the search for the preceding edge -/

theorem findPrev_some {g : Graph} {s e : Nat} {prev : Nat × Nat} (h : findPrev g s e = some prev) :
    prev.1 ∈ connAt g s ∧ ∃ pe, edgeAt g prev.1 prev.2 = some pe ∧ pe.endIdx = s ∧ pe.fol = e := by
  unfold findPrev at h
  obtain ⟨c, hc, hf⟩ := List.exists_of_findSome?_eq_some h
  rw [Option.map_eq_some_iff] at hf
  obtain ⟨x, hx, rfl⟩ := hf
  have hmem := List.mem_of_find?_eq_some hx
  have hprop := List.find?_some hx
  refine ⟨hc, x.1, ?_, ?_⟩
  · have := List.mem_zipIdx_iff_getElem?.mp hmem
    exact this
  · simpa using hprop

theorem findPrev_isSome {g : Graph} {s e a : Nat} {x : Edge} (ha : a ∈ connAt g s) (hx : x ∈ edgesAt g a)
    (h1 : x.endIdx = s) (h2 : x.fol = e) : ∃ prev, findPrev g s e = some prev := by
  unfold findPrev
  rw [← Option.isSome_iff_exists, List.findSome?_isSome_iff]
  refine ⟨a, ha, ?_⟩
  rw [Option.isSome_map, List.find?_isSome]
  obtain ⟨i, hi⟩ := List.mem_iff_getElem?.mp hx
  exact ⟨(x, i), List.mem_zipIdx_iff_getElem?.mpr hi, by simp [h1, h2]⟩

/-! ### the loop that adjusts the following-edge indices -/

theorem adjustFol_end (s e : Nat) (x : Edge) : (adjustFol s e x).endIdx = x.endIdx := by
  unfold adjustFol; split_ifs <;> rfl

theorem edgesAt_updEdges_map (g : Graph) (c : Nat) (f : Edge → Edge) (a : Nat) :
    edgesAt (updEdges g c (·.map f)) a = if a = c then (edgesAt g a).map f else edgesAt g a := by
  rw [edgesAt_updEdges]
  by_cases hac : a = c
  · subst hac
    by_cases hl : a < g.length
    · simp [hl]
    · simp [hl, edgesAt_of_ge (Nat.le_of_not_lt hl)]
  · simp [hac]

theorem adjust_fold (s e : Nat) (L : List Nat) (hL : L.Nodup) : ∀ (g : Graph) (b : Bool),
    let r := L.foldl (fun (st : Graph × Bool) c =>
      (updEdges st.1 c (·.map (adjustFol s e)), st.2 || (edgesAt st.1 c).any (·.endIdx == s))) (g, b)
    r.1.length = g.length ∧ (∀ a, connAt r.1 a = connAt g a) ∧
    (∀ a, edgesAt r.1 a = if a ∈ L then (edgesAt g a).map (adjustFol s e) else edgesAt g a) ∧
    (r.2 = true ↔ b = true ∨ ∃ c ∈ L, ∃ x ∈ edgesAt g c, x.endIdx = s) := by
  induction L with
  | nil => intro g b; simp
  | cons c L ih =>
    intro g b
    simp only [List.foldl_cons]
    rw [List.nodup_cons] at hL
    have := ih hL.2 (updEdges g c (·.map (adjustFol s e))) (b || (edgesAt g c).any (·.endIdx == s))
    simp only at this
    obtain ⟨h1, h2, h3, h4⟩ := this
    refine ⟨by rw [h1]; simp, fun a => by rw [h2, connAt_updEdges], ?_, ?_⟩
    · intro a
      rw [h3, edgesAt_updEdges_map]
      by_cases hac : a = c
      · subst hac; simp [hL.1]
      · simp [hac]
    · rw [h4]
      simp only [Bool.or_eq_true, List.any_eq_true, beq_iff_eq, List.mem_cons, exists_eq_or_imp]
      constructor
      · rintro ((hb | hx) | ⟨c', hc', x, hx, hxs⟩)
        · exact Or.inl hb
        · exact Or.inr (Or.inl hx)
        · refine Or.inr (Or.inr ⟨c', hc', ?_⟩)
          rw [edgesAt_updEdges_map] at hx
          have : c' ≠ c := fun hh => hL.1 (hh ▸ hc')
          rw [if_neg this] at hx
          exact ⟨x, hx, hxs⟩
      · rintro (hb | hx | ⟨c', hc', x, hx, hxs⟩)
        · exact Or.inl (Or.inl hb)
        · exact Or.inl (Or.inr hx)
        · refine Or.inr ⟨c', hc', x, ?_, hxs⟩
          rw [edgesAt_updEdges_map]
          have : c' ≠ c := fun hh => hL.1 (hh ▸ hc')
          rw [if_neg this]
          exact hx

/-! ### counting through a point-wise description of the edges -/

theorem cntP_eq_sum (q : Edge → Bool) (g : Graph) : cntP q g = (g.map fun pt => pt.edges.countP q).sum := by
  induction g with
  | nil => rfl
  | cons pt g ih => rw [cntP_cons, ih]; simp

theorem cntP_eq_sum_range (q : Edge → Bool) (g : Graph) :
    cntP q g = ((List.range g.length).map fun a => (edgesAt g a).countP q).sum := by
  rw [cntP_eq_sum]
  congr 1
  apply List.ext_getElem
  · simp
  · intro i h1 h2
    simp only [List.getElem_map, List.getElem_range]
    rw [edgesAt_of_lt (by simpa using h1)]

/-- if the edge lists of `h` are the images of those of `g` under `fe`, point by point, counting in `h` is counting in `g` -/
theorem cntP_of_edgesAt_map {g h : Graph} (fe : Edge → Edge) (hl : h.length = g.length)
    (he : ∀ a, edgesAt h a = (edgesAt g a).map fe) (q : Edge → Bool) : cntP q h = cntP (q ∘ fe) g := by
  rw [cntP_eq_sum_range, cntP_eq_sum_range, hl]
  congr 1
  apply List.map_congr_left
  intro a _
  rw [he, List.countP_map]

theorem edgeAt_updEdge_ne {g : Graph} {p i s e : Nat} (f : Edge → Edge) (h : ¬ (p = s ∧ i = e)) :
    edgeAt (updEdge g p i f) s e = edgeAt g s e := by
  unfold edgeAt
  rw [edgesAt_updEdge]
  split_ifs with hc
  · rw [List.getElem?_modify]
    have : ¬ i = e := fun hh => h ⟨hc.1.symm, hh⟩
    simp only [this, if_false]
    rw [hc.1]
    cases (edgesAt g p)[e]? <;> rfl
  · rfl

/-- what `remove_edge` does to the edge lists, before the following indices are adjusted -/
theorem removeEdge_core {g : Graph} (h : Wf g) {s e : Nat} {ed pe : Edge} {prev : Nat × Nat}
    (he : edgeAt g s e = some ed) (hloop : ed.endIdx = s)
    (hpe : edgeAt g prev.1 prev.2 = some pe) (hpe1 : pe.endIdx = s) (hpe2 : pe.fol = e) :
    let F : Edge → Edge := fun x => { x with endIdx := ed.endIdx, fol := ed.fol }
    let g2 := updEdges (updEdge g prev.1 prev.2 F) s (·.eraseIdx e)
    g2.length = g.length ∧
    (∀ a, connAt g2 a = connAt g a) ∧
    (∀ a, (edgesAt g2 a).length + (if a = s then 1 else 0) = (edgesAt g a).length) ∧
    (∀ a x, x ∈ edgesAt g2 a → x ∈ edgesAt g a ∨ (x = F pe ∧ a = prev.1)) ∧
    (∀ p f, p < g.length → cntP (pointsTo p f) g2 = if p = s then (if f < (edgesAt g s).length ∧ f ≠ e then 1 else 0)
        else (if f < (edgesAt g p).length then 1 else 0)) ∧
    (∀ q : Edge → Bool, (∀ x, q (F x) = q x) → cntP q g2 + (if q ed then 1 else 0) = cntP q g) := by
  intro F g2
  have hs := lt_of_edgeAt he
  have hem := idx_lt_of_edgeAt he
  set g1 := updEdge g prev.1 prev.2 F with hg1
  -- the edge that is erased
  have hed1 : ∃ ed1, edgeAt g1 s e = some ed1 ∧ ed1.endIdx = s ∧ ed1.fol = ed.fol := by
    by_cases hp : prev.1 = s ∧ prev.2 = e
    · have : pe = ed := by
        rw [hp.1, hp.2, he] at hpe; exact (Option.some.inj hpe).symm
      subst this
      refine ⟨F pe, ?_, hloop, rfl⟩
      have := edgeAt_updEdge_same (f := F) hpe
      rw [hp.1, hp.2] at this
      rw [hg1, hp.1, hp.2]; exact this
    · exact ⟨ed, by rw [hg1, edgeAt_updEdge_ne F hp]; exact he, hloop, rfl⟩
  have hed1q : ∀ q : Edge → Bool, (∀ x, q (F x) = q x) → ∀ ed1, edgeAt g1 s e = some ed1 → q ed1 = q ed := by
    intro q hq ed1 h1
    by_cases hp : prev.1 = s ∧ prev.2 = e
    · have : pe = ed := by
        rw [hp.1, hp.2, he] at hpe; exact (Option.some.inj hpe).symm
      subst this
      have := edgeAt_updEdge_same (f := F) hpe
      rw [hp.1, hp.2] at this
      rw [hg1, hp.1, hp.2, this] at h1
      cases h1; exact hq pe
    · rw [hg1, edgeAt_updEdge_ne F hp, he] at h1
      cases h1; rfl
  obtain ⟨ed1, hed1, hed1a, hed1b⟩ := hed1
  have hlen1 : g1.length = g.length := by simp [hg1]
  have hlen_e1 : ∀ a, (edgesAt g1 a).length = (edgesAt g a).length := by
    intro a
    rw [hg1, edgesAt_updEdge]
    split_ifs with hc
    · rw [hc.1]; simp
    · rfl
  have hedges2 : ∀ a, edgesAt g2 a = if a = s then (edgesAt g1 s).eraseIdx e else edgesAt g1 a := by
    intro a
    show edgesAt (updEdges g1 s _) a = _
    rw [edgesAt_updEdges]
    simp [hlen1, hs]
  refine ⟨by simp [g2, hlen1], ?_, ?_, ?_, ?_, ?_⟩
  rotate_left 4
  · intro q hq
    have c1 := cntP_eraseIdx q g1 s e ed1 hed1
    have c2 := cntP_updEdge q g prev.1 prev.2 F pe hpe
    rw [← hg1] at c2
    rw [hq pe] at c2
    rw [hed1q q hq ed1 hed1] at c1
    show cntP q (updEdges g1 s _) + _ = _
    omega
  · intro a
    show connAt (updEdges g1 s _) a = _
    rw [connAt_updEdges, hg1, connAt_updEdge]
  · intro a
    rw [hedges2]
    split_ifs with hc
    · subst hc
      rw [List.length_eraseIdx, hlen_e1]
      simp [hem]
      omega
    · rw [hlen_e1]; rfl
  · intro a x hx
    rw [hedges2] at hx
    have hx1 : x ∈ edgesAt g1 a := by
      split_ifs at hx with hc
      · subst hc; exact (List.eraseIdx_sublist _ _).subset hx
      · exact hx
    rcases mem_edgesAt_updEdge hx1 with hx2 | ⟨old, ho, rfl, ha⟩
    · exact Or.inl hx2
    · right
      rw [hpe] at ho
      cases ho
      exact ⟨rfl, ha⟩
  · intro p f hp
    have c1 := cntP_eraseIdx (pointsTo p f) g1 s e ed1 hed1
    have c2 := cntP_updEdge (pointsTo p f) g prev.1 prev.2 F pe hpe
    have hsl := h.fol.slot p f hp
    rw [slotCount_eq] at hsl
    rw [← hg1] at c2
    show cntP (pointsTo p f) (updEdges g1 s _) = _
    simp only [pointsTo_iff, F] at c1 c2
    rw [hed1a, hed1b] at c1
    rw [hpe1, hpe2, hloop] at c2
    by_cases hps : p = s
    · subst hps
      rw [if_pos rfl]
      split_ifs at c1 c2 hsl ⊢ <;> omega
    · rw [if_neg hps]
      have : ¬ s = p := fun hh => hps hh.symm
      split_ifs at c1 c2 hsl ⊢ <;> omega

/-- the body of `remove_edge` once the edge and its preceding edge are known -/
def removeEdgeBody (g : Graph) (s e : Nat) (ed : Edge) (prev : Nat × Nat) : Graph :=
  let g := updEdge g prev.1 prev.2 fun x => { x with endIdx := ed.endIdx, fol := ed.fol }
  let g := updEdges g s (·.eraseIdx e)
  let g := updConn g s fun c => dedupAdj (sortNat c)
  let r := (connAt g s).foldl (fun (st : Graph × Bool) c =>
      (updEdges st.1 c (·.map (adjustFol s e)), st.2 || (edgesAt st.1 c).any (·.endIdx == s))) (g, false)
  if !r.2 then updConn r.1 s (·.filter (· != s)) else r.1

theorem removeEdge_eq {g : Graph} {s e : Nat} {ed : Edge} {prev : Nat × Nat} (he : edgeAt g s e = some ed)
    (hprev : findPrev g s e = some prev) : removeEdge g s e = some (removeEdgeBody g s e ed prev) := by
  unfold removeEdge removeEdgeBody
  rw [he]
  simp only [hprev]

theorem map_adjust_id {s e : Nat} {l : List Edge} (h : ∀ x ∈ l, x.endIdx ≠ s) : l.map (adjustFol s e) = l := by
  conv_rhs => rw [← List.map_id l]
  apply List.map_congr_left
  intro x hx
  unfold adjustFol
  rw [if_neg (by intro hh; exact h x hx hh.1)]
  rfl

theorem removeEdgeBody_wf {g : Graph} (h : Wf g) {s e : Nat} {ed pe : Edge} {prev : Nat × Nat}
    (he : edgeAt g s e = some ed) (hloop : ed.endIdx = s) (hpc : prev.1 ∈ connAt g s)
    (hpe : edgeAt g prev.1 prev.2 = some pe) (hpe1 : pe.endIdx = s) (hpe2 : pe.fol = e) :
    Wf (removeEdgeBody g s e ed prev) ∧ (removeEdgeBody g s e ed prev).length = g.length ∧
      (∀ a, (edgesAt (removeEdgeBody g s e ed prev) a).length + (if a = s then 1 else 0) = (edgesAt g a).length) ∧
      (∀ q : Edge → Bool, (∀ x y z, q { x with endIdx := y, fol := z } = q x) →
        cntP q (removeEdgeBody g s e ed prev) + (if q ed then 1 else 0) = cntP q g) := by
  have hs := lt_of_edgeAt he
  have hem := idx_lt_of_edgeAt he
  obtain ⟨c1, c2, c3, c4, c5, c6⟩ := removeEdge_core h he hloop hpe hpe1 hpe2
  set g2 := updEdges (updEdge g prev.1 prev.2 fun x => { x with endIdx := ed.endIdx, fol := ed.fol }) s (·.eraseIdx e) with hg2
  set g3 := updConn g2 s (fun c => dedupAdj (sortNat c)) with hg3
  set r := (connAt g3 s).foldl (fun (st : Graph × Bool) c =>
      (updEdges st.1 c (·.map (adjustFol s e)), st.2 || (edgesAt st.1 c).any (·.endIdx == s))) (g3, false) with hr
  have hbody : removeEdgeBody g s e ed prev = if !r.2 then updConn r.1 s (·.filter (· != s)) else r.1 := rfl
  rw [hbody]
  have hlen3 : g3.length = g.length := by simp [g3]; exact c1
  have hedges3 : ∀ a, edgesAt g3 a = edgesAt g2 a := fun a => edgesAt_updConn _ _ _ _
  have hconn3 : ∀ a, connAt g3 a = if a = s then dedupAdj (sortNat (connAt g s)) else connAt g a := by
    intro a
    show connAt (updConn g2 s _) a = _
    rw [connAt_updConn, c1]
    by_cases has : a = s
    · subst has; simp [hs, c2]
    · simp [has, c2]
  set L := connAt g3 s with hL
  have hLeq : L = dedupAdj (sortNat (connAt g s)) := by rw [hL, hconn3, if_pos rfl]
  have hLnodup : L.Nodup := by rw [hLeq]; exact nodup_sortDedup _
  have hLmem : ∀ a, a ∈ L ↔ a ∈ connAt g s := by intro a; rw [hLeq, mem_sortDedup]
  obtain ⟨r1, r2, r3, r4⟩ := adjust_fold s e L hLnodup g3 false
  rw [← hr] at r1 r2 r3 r4
  -- an edge of g2 that ends at s starts at a point of L
  have hsrc : ∀ a x, x ∈ edgesAt g2 a → x.endIdx = s → a ∈ L := by
    intro a x hx hxs
    rw [hLmem]
    rcases c4 a x hx with hx1 | ⟨_, ha⟩
    · have := h.conn.complete a x hx1; rwa [hxs] at this
    · rw [ha]; exact hpc
  have hedgesR : ∀ a, edgesAt r.1 a = (edgesAt g2 a).map (adjustFol s e) := by
    intro a
    rw [r3, hedges3]
    split_ifs with ha
    · rfl
    · exact (map_adjust_id (fun x hx hxs => ha (hsrc a x hx hxs))).symm
  -- the result: only connected_from of s may still change
  have hlenF : (if !r.2 then updConn r.1 s (·.filter (· != s)) else r.1).length = g.length := by
    split_ifs <;> simp [r1, hlen3]
  have hedgesF : ∀ a, edgesAt (if !r.2 then updConn r.1 s (·.filter (· != s)) else r.1) a = (edgesAt g2 a).map (adjustFol s e) := by
    intro a
    split_ifs
    · rw [edgesAt_updConn, hedgesR]
    · exact hedgesR a
  have hconnF : ∀ a, connAt (if !r.2 then updConn r.1 s (·.filter (· != s)) else r.1) a =
      if a = s then (if r.2 then L else L.filter (· != s)) else connAt g a := by
    intro a
    by_cases hr : r.2 = true
    · simp only [hr, Bool.not_true, Bool.false_eq_true, if_false, if_true]
      rw [r2, hconn3]
      split_ifs with has
      · rw [hLeq]
      · rfl
    · have hr' : r.2 = false := by simpa using hr
      simp only [hr', Bool.not_false, if_true, Bool.false_eq_true, if_false]
      rw [connAt_updConn, r1, hlen3, r2, r2]
      by_cases has : a = s
      · subst has; simp [hs, hL]
      · simp [has, hconn3]
  have hcnt : ∀ q, cntP q (if !r.2 then updConn r.1 s (·.filter (· != s)) else r.1) = cntP (q ∘ adjustFol s e) g2 :=
    fun q => cntP_of_edgesAt_map (adjustFol s e) (by rw [hlenF, c1]) hedgesF q
  refine ⟨⟨⟨?_, ?_⟩, ⟨?_, ?_, ?_⟩⟩, hlenF, ?_, ?_⟩
  rotate_left 6
  · -- counts of predicates that do not look at end / following index
    intro q hq
    rw [hcnt, ← c6 q (fun x => hq x _ _)]
    congr 1
    apply cntP_congr
    intro a x _
    simp only [Function.comp, adjustFol]
    split_ifs
    · exact hq x x.endIdx (x.fol - 1)
    · rfl
  · -- ends
    intro a x hx
    rw [hedgesF, List.mem_map] at hx
    obtain ⟨y, hy, rfl⟩ := hx
    rw [adjustFol_end, hlenF]
    rcases c4 a y hy with hy1 | ⟨rfl, _⟩
    · exact h.fol.endValid a y hy1
    · simp only; rw [hloop]; exact hs
  · -- slots
    intro p f hp
    rw [hlenF] at hp
    rw [slotCount_eq, hcnt, hedgesF, List.length_map]
    by_cases hps : p = s
    · subst hps
      have hq : (pointsTo p f ∘ adjustFol p e) = fun x => (pointsTo p (f + 1) x && decide (e < f + 1)) || (pointsTo p f x && decide (f ≤ e)) := by
        funext x
        simp only [Function.comp, adjustFol]
        rw [Bool.eq_iff_iff]
        simp only [Bool.or_eq_true, Bool.and_eq_true, pointsTo_iff, decide_eq_true_eq]
        split_ifs with hc
        · simp only; omega
        · omega
      rw [hq, cntP_or_disjoint _ _ _ (by
        intro x
        simp only [Bool.and_eq_true, pointsTo_iff, decide_eq_true_eq]
        omega), cntP_and_const, cntP_and_const, c5 p (f + 1) hp, c5 p f hp]
      have := c3 p
      simp only [if_true, decide_eq_true_eq] at this ⊢
      split_ifs <;> omega
    · have hq : cntP (pointsTo p f ∘ adjustFol s e) g2 = cntP (pointsTo p f) g2 := by
        apply cntP_congr
        intro a x _
        simp only [Function.comp, adjustFol]
        split_ifs with hc
        · have : (x.endIdx == p) = false := by
            rw [beq_eq_false_iff_ne, hc.1]; exact fun hh => hps hh.symm
          simp only [pointsTo, this, Bool.false_and]
        · rfl
      rw [hq, c5 p f hp, if_neg hps]
      have := c3 p
      rw [if_neg hps] at this
      rw [← Nat.add_zero (edgesAt g2 p).length, this]
  · -- connected_from lists existing points
    intro a c hc
    rw [hconnF] at hc
    rw [hlenF]
    split_ifs at hc with has hr
    · exact h.conn.valid s c ((hLmem c).mp hc)
    · exact h.conn.valid s c ((hLmem c).mp (List.mem_filter.mp hc).1)
    · exact h.conn.valid a c hc
  · -- no point twice
    intro a
    rw [hconnF]
    split_ifs with has hr
    · exact hLnodup
    · exact hLnodup.filter _
    · exact h.conn.nodup a
  · -- complete
    intro a x hx
    rw [hedgesF, List.mem_map] at hx
    obtain ⟨y, hy, rfl⟩ := hx
    rw [adjustFol_end, hconnF]
    by_cases hys : y.endIdx = s
    · rw [if_pos hys]
      have haL := hsrc a y hy hys
      have hr : r.2 = true := by
        rw [r4]
        exact Or.inr ⟨a, haL, y, by rw [hedges3]; exact hy, hys⟩
      rw [if_pos hr]
      exact haL
    · rw [if_neg hys]
      rcases c4 a y hy with hy1 | ⟨rfl, _⟩
      · exact h.conn.complete a y hy1
      · exact absurd hloop hys
  · -- lengths
    intro a
    rw [hedgesF, List.length_map]
    exact c3 a

/-- `remove_edge` applied to a self-loop of a well-formed graph finds the preceding edge and keeps the invariant -/
theorem removeEdge_wf {g : Graph} (h : Wf g) {s e : Nat} {ed : Edge} (he : edgeAt g s e = some ed) (hloop : ed.endIdx = s) :
    ∃ g', removeEdge g s e = some g' ∧ Wf g' ∧ g'.length = g.length ∧
      (∀ a, (edgesAt g' a).length + (if a = s then 1 else 0) = (edgesAt g a).length) ∧
      (∀ q : Edge → Bool, (∀ x y z, q { x with endIdx := y, fol := z } = q x) →
        cntP q g' + (if q ed then 1 else 0) = cntP q g) := by
  have hs := lt_of_edgeAt he
  have hem := idx_lt_of_edgeAt he
  have hex : ∃ prev, findPrev g s e = some prev := by
    have hsl := h.fol.slot s e hs
    rw [if_pos hem, slotCount_eq, cntP] at hsl
    have : 0 < List.countP (pointsTo s e) (allEdges g) := by omega
    obtain ⟨x, hx, hxp⟩ := List.countP_pos_iff.mp this
    obtain ⟨a, ha⟩ := mem_allEdges.mp hx
    rw [pointsTo_iff] at hxp
    exact findPrev_isSome (by have := h.conn.complete a x ha; rwa [hxp.1] at this) ha hxp.1 hxp.2
  obtain ⟨prev, hprev⟩ := hex
  obtain ⟨hpc, pe, hpe, hpe1, hpe2⟩ := findPrev_some hprev
  exact ⟨_, removeEdge_eq he hprev, removeEdgeBody_wf h he hloop hpc hpe hpe1 hpe2⟩

/-! ### remove_all_very_short_edges -/

/-- the `while` loop for one point: every removal is the removal of a self-loop, so the invariant is kept and the loop
never meets a missing preceding edge -/
theorem removeShortAt_wf (p : Nat) : ∀ (k : Nat) (g : Graph) (e : Nat) (dec : List (Nat × Nat)), Wf g →
    ∃ g' dec', removeShortAt p k g e dec = some (g', dec') ∧ Wf g' ∧ g'.length = g.length := by
  intro k
  induction k with
  | zero => intro g e dec h; exact ⟨g, dec, rfl, h, rfl⟩
  | succ k ih =>
    intro g e dec h
    unfold removeShortAt
    cases he : edgeAt g p e with
    | none => exact ⟨g, dec, rfl, h, rfl⟩
    | some ed =>
      simp only
      split_ifs with hc
      · obtain ⟨g', hg', hw, hl, _, _⟩ := removeEdge_wf h he hc.1
        rw [hg']
        simp only
        obtain ⟨g'', dec'', h1, h2, h3⟩ := ih g' e dec.tail hw
        exact ⟨g'', dec'', h1, h2, by rw [h3, hl]⟩
      · exact ih g (e + 1) dec h

theorem foldlM_option_inv {α β : Type} (P : β → Prop) (f : β → α → Option β) (l : List α) :
    ∀ (init : β), (∀ b a, a ∈ l → P b → ∃ b', f b a = some b' ∧ P b') → P init →
      ∃ r, l.foldlM f init = some r ∧ P r := by
  induction l with
  | nil => intro init _ h0; exact ⟨init, rfl, h0⟩
  | cons a l ih =>
    intro init h h0
    obtain ⟨b', hb', hp'⟩ := h init a (by simp) h0
    obtain ⟨r, hr, hpr⟩ := ih b' (fun b a' ha' => h b a' (by simp [ha'])) hp'
    refine ⟨r, ?_, hpr⟩
    rw [List.foldlM_cons, hb']
    exact hr

/-- `remove_all_very_short_edges` terminates normally and keeps the invariant, whichever self-loops are judged "very short" -/
theorem removeAllVeryShort_wf {g : Graph} (h : Wf g) (dec : List (Nat × Nat)) :
    ∃ g' dec', removeAllVeryShort g dec = some (g', dec') ∧ Wf g' ∧ g'.length = g.length := by
  unfold removeAllVeryShort
  obtain ⟨r, hr, hp⟩ := foldlM_option_inv (fun st : Graph × List (Nat × Nat) => Wf st.1 ∧ st.1.length = g.length)
    (fun (st : Graph × List (Nat × Nat)) p => removeShortAt p (edgesAt st.1 p).length st.1 0 st.2)
    (List.range g.length) (g, dec)
    (by
      intro st p _ ⟨hw, hl⟩
      obtain ⟨g', dec', h1, h2, h3⟩ := removeShortAt_wf p (edgesAt st.1 p).length st.1 0 st.2 hw
      exact ⟨(g', dec'), h1, h2, by rw [h3, hl]⟩)
    ⟨h, rfl⟩
  exact ⟨r.1, r.2, hr, hp.1, hp.2⟩

end Model.Graph
