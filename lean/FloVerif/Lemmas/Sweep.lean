/-
Helper lemmas for C18 (sweep-line pair enumeration).

Everything here is about the hand model `Model.Sweep` and the generated `Gen.bounds_overlaps`.
The specification lists are phrased with `pairsWith` / `cross` / `selfPairs`; `Props/C18.lean` shows that its
`crossPairs` / `allPairs` are the same lists.
-/
import FloVerif.Model.Sweep
import Mathlib.Data.List.Perm.Basic
import Mathlib.Order.Basic

set_option linter.unusedSectionVars false
namespace Lemmas.Sweep
open Prelude Gen Model Model.Sweep

variable {K : Type} [LinearOrder K]

/-! ### the overlap test -/

/-- the generated test, as four inequalities -/
theorem overlaps_iff (a b : Bounds2 K) :
    bounds_overlaps a b = true ↔
      (a.min_.x ≤ b.max_.x ∧ b.min_.x ≤ a.max_.x) ∧ (a.min_.y ≤ b.max_.y ∧ b.min_.y ≤ a.max_.y) := by
  simp only [bounds_overlaps, getc]
  by_cases h1 : a.min_.x ≤ b.max_.x <;> by_cases h2 : b.min_.x ≤ a.max_.x <;>
    by_cases h3 : a.min_.y ≤ b.max_.y <;> by_cases h4 : b.min_.y ≤ a.max_.y <;>
    simp [h1, h2, h3, h4, not_lt.2, lt_of_not_ge]

/-- a box that ends (in x) before the other one starts does not overlap it -/
theorem overlaps_false_of_max_lt_min {a b : Bounds2 K} (h : a.max_.x < b.min_.x) :
    bounds_overlaps a b = false := by
  rw [Bool.eq_false_iff]
  intro ht
  exact absurd ((overlaps_iff a b).1 ht).1.2 (not_le.2 h)

/-- a box that starts (in x) after the other one ends does not overlap it -/
theorem overlaps_false_of_max_lt_min' {a b : Bounds2 K} (h : b.max_.x < a.min_.x) :
    bounds_overlaps a b = false := by
  rw [Bool.eq_false_iff]
  intro ht
  exact absurd ((overlaps_iff a b).1 ht).1.1 (not_le.2 h)

/-! ### the stack operations -/

theorem insertByMax_perm (x : Item K) (l : List (Item K)) : (insertByMax x l).Perm (x :: l) := by
  induction l with
  | nil => exact List.Perm.refl _
  | cons t r ih =>
    simp only [insertByMax]
    split
    · exact (List.Perm.cons t ih).trans (List.Perm.swap x t r)
    · exact List.Perm.refl _

/-- `popLoop m` only removes items whose maximum x is below `m` -/
theorem popLoop_split (m : K) (l : List (Item K)) :
    ∃ dropped, l.Perm (popLoop m l ++ dropped) ∧ ∀ d ∈ dropped, maxx d < m := by
  induction l with
  | nil => exact ⟨[], List.Perm.refl _, fun _ h => absurd h List.not_mem_nil⟩
  | cons t r ih =>
    simp only [popLoop]
    split
    · obtain ⟨dr, hp, hd⟩ := ih
      refine ⟨t :: dr, (List.Perm.cons t hp).trans List.perm_middle.symm, ?_⟩
      intro d hdm
      rcases List.mem_cons.1 hdm with rfl | h
      · assumption
      · exact hd d h
    · exact ⟨[], by rw [List.append_nil], fun _ h => absurd h List.not_mem_nil⟩

/-! ### specification lists -/

/-- the pairs of one target `t` with the overlapping members of `src` -/
def pairsWith (src : List (Item K)) (t : Item K) : List (Item K × Item K) :=
  (src.filter (fun s => bounds_overlaps s.b t.b)).map (fun s => (s, t))

/-- every overlapping (source, target) pair -/
def cross (src tgt : List (Item K)) : List (Item K × Item K) := tgt.flatMap (pairsWith src)

/-- every overlapping pair inside one list, earlier item first -/
def selfPairs : List (Item K) → List (Item K × Item K)
  | [] => []
  | x :: rest => (rest.filter (fun y => bounds_overlaps x.b y.b)).map (fun y => (x, y)) ++ selfPairs rest

theorem cross_nil (src : List (Item K)) : cross src [] = [] := rfl

theorem cross_cons (src : List (Item K)) (t : Item K) (tgt : List (Item K)) :
    cross src (t :: tgt) = pairsWith src t ++ cross src tgt := by
  simp only [cross, List.flatMap_cons]

theorem cross_nil_src (tgt : List (Item K)) : cross ([] : List (Item K)) tgt = [] := by
  induction tgt with
  | nil => rfl
  | cons t tgt ih => rw [cross_cons, ih]; rfl

theorem hits_reverse_perm (active : List (Item K)) (x : Item K) :
    ((hits active x).reverse).Perm (pairsWith active x) := by
  refine (List.reverse_perm _).trans ?_
  simp only [hits, pairsWith]
  exact ((List.reverse_perm active).filter _).map _

/-- sources that do not overlap `t` can be left out -/
theorem pairsWith_perm_drop {src src' dropped : List (Item K)} {t : Item K}
    (hp : src.Perm (src' ++ dropped)) (hd : ∀ d ∈ dropped, bounds_overlaps d.b t.b = false) :
    (pairsWith src t).Perm (pairsWith src' t) := by
  have h1 : (src.filter (fun s => bounds_overlaps s.b t.b)).Perm
      ((src' ++ dropped).filter (fun s => bounds_overlaps s.b t.b)) := hp.filter _
  have h2 : dropped.filter (fun s => bounds_overlaps s.b t.b) = [] := by
    rw [List.filter_eq_nil_iff]
    intro d hdm
    rw [hd d hdm]
    exact Bool.false_ne_true
  rw [List.filter_append, h2, List.append_nil] at h1
  exact h1.map _

/-- sources that overlap no target can be left out -/
theorem cross_perm_drop {src src' dropped : List (Item K)} (tgt : List (Item K))
    (hp : src.Perm (src' ++ dropped))
    (hd : ∀ d ∈ dropped, ∀ t ∈ tgt, bounds_overlaps d.b t.b = false) :
    (cross src tgt).Perm (cross src' tgt) := by
  induction tgt with
  | nil => exact List.Perm.refl _
  | cons t tgt ih =>
    rw [cross_cons, cross_cons]
    refine List.Perm.append ?_ (ih ?_)
    · exact pairsWith_perm_drop hp (fun d hdm => hd d hdm t List.mem_cons_self)
    · exact fun d hdm t' ht' => hd d hdm t' (List.mem_cons_of_mem _ ht')

theorem cross_perm {src src' : List (Item K)} (tgt : List (Item K)) (hp : src.Perm src') :
    (cross src tgt).Perm (cross src' tgt) :=
  cross_perm_drop (dropped := []) tgt (by rw [List.append_nil]; exact hp)
    (fun _ h => absurd h List.not_mem_nil)

/-- one more source adds its own row of pairs -/
theorem cross_cons_src (x : Item K) (src tgt : List (Item K)) :
    (cross (x :: src) tgt).Perm
      (cross src tgt ++ (tgt.filter (fun y => bounds_overlaps x.b y.b)).map (fun y => (x, y))) := by
  induction tgt with
  | nil => exact List.Perm.refl _
  | cons y tgt ih =>
    rw [cross_cons, cross_cons]
    by_cases h : bounds_overlaps x.b y.b = true
    · have e1 : pairsWith (x :: src) y = (x, y) :: pairsWith src y := by
        simp only [pairsWith, List.filter_cons, h, if_true, List.map_cons]
      have e2 : ((y :: tgt).filter (fun y => bounds_overlaps x.b y.b)).map (fun y => (x, y))
          = (x, y) :: (tgt.filter (fun y => bounds_overlaps x.b y.b)).map (fun y => (x, y)) := by
        simp only [List.filter_cons, h, if_true, List.map_cons]
      rw [e1, e2, List.cons_append]
      refine ((List.Perm.append_left _ ih).cons (x, y)).trans ?_
      rw [← List.append_assoc]
      exact List.perm_middle.symm
    · have e1 : pairsWith (x :: src) y = pairsWith src y := by
        simp only [pairsWith, List.filter_cons, h, if_false, Bool.false_eq_true]
      have e2 : ((y :: tgt).filter (fun y => bounds_overlaps x.b y.b)).map (fun y => (x, y))
          = (tgt.filter (fun y => bounds_overlaps x.b y.b)).map (fun y => (x, y)) := by
        simp only [List.filter_cons, h, if_false, Bool.false_eq_true]
      rw [e1, e2, List.append_assoc]
      exact List.Perm.append_left _ ih

/-! ### sweep_self -/

/-- invariant of the `sweep_self` loop: what is still to be emitted are the pairs of the stack with the pending
items plus the pairs among the pending items -/
theorem sweepSelfGo_perm (active rest : List (Item K))
    (hs : rest.Pairwise (fun a b => minx a ≤ minx b)) :
    (sweepSelfGo active rest).Perm (cross active rest ++ selfPairs rest) := by
  induction rest generalizing active with
  | nil => exact List.Perm.refl _
  | cons x rest ih =>
    obtain ⟨hx, hs'⟩ := List.pairwise_cons.1 hs
    obtain ⟨dr, hp, hd⟩ := popLoop_split (minx x) active
    -- dropped items overlap neither `x` nor anything after it
    have hdx : ∀ d ∈ dr, bounds_overlaps d.b x.b = false :=
      fun d hdm => overlaps_false_of_max_lt_min (hd d hdm)
    have hdr : ∀ d ∈ dr, ∀ y ∈ rest, bounds_overlaps d.b y.b = false :=
      fun d hdm y hy => overlaps_false_of_max_lt_min (lt_of_lt_of_le (hd d hdm) (hx y hy))
    simp only [sweepSelfGo, selfPairs]
    rw [cross_cons]
    have hA : ((hits (popLoop (minx x) active) x).reverse).Perm (pairsWith active x) :=
      (hits_reverse_perm _ x).trans (pairsWith_perm_drop hp hdx).symm
    have hB : (sweepSelfGo (insertByMax x (popLoop (minx x) active)) rest).Perm
        ((cross active rest ++ (rest.filter (fun y => bounds_overlaps x.b y.b)).map (fun y => (x, y)))
          ++ selfPairs rest) := by
      refine (ih _ hs').trans (List.Perm.append_right _ ?_)
      refine (cross_perm rest (insertByMax_perm x _)).trans ?_
      refine (cross_cons_src x _ rest).trans (List.Perm.append_right _ ?_)
      exact (cross_perm_drop rest hp hdr).symm
    refine (List.Perm.append hA hB).trans ?_
    simp only [List.append_assoc]
    exact List.Perm.refl _

/-! ### sweep_against -/

/-- what the source-reading loop guarantees: it moves a prefix of the unread sources onto the stack, the unread
sources stay sorted and not below `lastMin`, and every source left unread starts after `tgtMax` -/
def ReadPost (tgtMax : K) (active rest : List (Item K)) (r : Option K × List (Item K) × List (Item K)) : Prop :=
  (r.2.1 ++ r.2.2).Perm (active ++ rest) ∧
    r.2.2.Pairwise (fun a b => minx a ≤ minx b) ∧
    (∀ l, r.1 = some l → ∀ s ∈ r.2.2, l ≤ minx s) ∧
    (∀ s ∈ r.2.2, tgtMax < minx s)

/-- with more fuel than unread sources the loop never stops because of the fuel -/
theorem readSrc_spec (tgtMax : K) (fuel : Nat) (lastMin : Option K) (active rest : List (Item K))
    (hfuel : rest.length < fuel)
    (hs : rest.Pairwise (fun a b => minx a ≤ minx b))
    (hinv : ∀ l, lastMin = some l → ∀ s ∈ rest, l ≤ minx s) :
    ReadPost tgtMax active rest (readSrc tgtMax fuel lastMin active rest) := by
  induction fuel generalizing lastMin active rest with
  | zero => exact absurd hfuel (Nat.not_lt_zero _)
  | succ fuel ih =>
    by_cases hstop : (match (generalizing := false) lastMin with
        | some l => decide (l > tgtMax) | none => false) = true
    · -- stopped by `last_min_x > target_max_x`
      have e : readSrc tgtMax (fuel + 1) lastMin active rest = (lastMin, active, rest) := by
        simp only [readSrc]
        exact if_pos hstop
      rw [e]
      refine ⟨List.Perm.refl _, hs, hinv, ?_⟩
      intro s hsm
      cases lastMin with
      | none => exact absurd hstop Bool.false_ne_true
      | some l =>
        have hlt : tgtMax < l := of_decide_eq_true hstop
        exact lt_of_lt_of_le hlt (hinv l rfl s hsm)
    · cases rest with
      | nil =>
        have e : readSrc tgtMax (fuel + 1) lastMin active [] = (lastMin, active, []) := by
          simp only [readSrc]
          exact if_neg hstop
        rw [e]
        exact ⟨List.Perm.refl _, List.Pairwise.nil, fun _ _ _ h => absurd h List.not_mem_nil,
          fun _ h => absurd h List.not_mem_nil⟩
      | cons s rest' =>
        have e : readSrc tgtMax (fuel + 1) lastMin active (s :: rest')
            = readSrc tgtMax fuel (some (minx s)) (insertByMax s active) rest' := by
          simp only [readSrc]
          exact if_neg hstop
        rw [e]
        obtain ⟨hsx, hs'⟩ := List.pairwise_cons.1 hs
        have hlen : rest'.length < fuel := by
          simp only [List.length_cons] at hfuel
          omega
        obtain ⟨h1, h2, h3, h4⟩ := ih (some (minx s)) (insertByMax s active) rest' hlen hs'
          (fun l hl => by cases hl; exact hsx)
        refine ⟨h1.trans ?_, h2, h3, h4⟩
        exact (List.Perm.append_right _ (insertByMax_perm s active)).trans List.perm_middle.symm

/-- invariant of the `sweep_against` loop: what is still to be emitted are the pairs of the pending targets with the
stack and with the unread sources -/
theorem sweepAgainstGo_perm (lastMin : Option K) (active rest tgts : List (Item K))
    (hs : rest.Pairwise (fun a b => minx a ≤ minx b))
    (ht : tgts.Pairwise (fun a b => minx a ≤ minx b))
    (hinv : ∀ l, lastMin = some l → ∀ s ∈ rest, l ≤ minx s) :
    (sweepAgainstGo lastMin active rest tgts).Perm (cross (active ++ rest) tgts) := by
  induction tgts generalizing lastMin active rest with
  | nil => exact List.Perm.refl _
  | cons t tgts ih =>
    obtain ⟨htx, ht'⟩ := List.pairwise_cons.1 ht
    obtain ⟨dr, hp, hd⟩ := popLoop_split (minx t) active
    have hspec := readSrc_spec (maxx t) (rest.length + 1) lastMin (popLoop (minx t) active) rest
      (Nat.lt_succ_self _) hs hinv
    simp only [sweepAgainstGo]
    generalize readSrc (maxx t) (rest.length + 1) lastMin (popLoop (minx t) active) rest = r at hspec
    obtain ⟨lm', a2, r'⟩ := r
    obtain ⟨h1, h2, h3, h4⟩ := hspec
    simp only at h1 h2 h3 h4 ⊢
    -- popped items overlap neither `t` nor any later target
    have hdt : ∀ d ∈ dr, bounds_overlaps d.b t.b = false :=
      fun d hdm => overlaps_false_of_max_lt_min (hd d hdm)
    have hdr : ∀ d ∈ dr, ∀ y ∈ tgts, bounds_overlaps d.b y.b = false :=
      fun d hdm y hy => overlaps_false_of_max_lt_min (lt_of_lt_of_le (hd d hdm) (htx y hy))
    -- unread sources do not overlap `t`
    have hrt : ∀ s ∈ r', bounds_overlaps s.b t.b = false :=
      fun s hsm => overlaps_false_of_max_lt_min' (h4 s hsm)
    -- all sources = stack after reading ++ unread ++ popped
    have hall : (active ++ rest).Perm ((a2 ++ r') ++ dr) := by
      refine (List.Perm.append_right rest hp).trans ?_
      rw [List.append_assoc]
      refine (List.Perm.append_left _ List.perm_append_comm).trans ?_
      rw [← List.append_assoc]
      exact List.Perm.append_right _ h1.symm
    rw [cross_cons]
    refine List.Perm.append ?_ ?_
    · refine (hits_reverse_perm a2 t).trans (pairsWith_perm_drop (dropped := r' ++ dr) ?_ ?_).symm
      · rw [← List.append_assoc]; exact hall
      · intro d hdm
        rcases List.mem_append.1 hdm with h | h
        · exact hrt d h
        · exact hdt d h
    · exact (ih lm' a2 r' h2 ht' h3).trans (cross_perm_drop tgts hall hdr).symm

end Lemmas.Sweep
