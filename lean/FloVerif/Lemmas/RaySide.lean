/-
Helper lemmas for C14 (the per-edge side test `ray_can_intersect`, `curve_is_collinear`, and the signed distance of
a cubic in Bernstein form).  Everything is about the generated definitions in `Gen/Ray.lean`.
-/
import FloVerif.Gen.Ray
import FloVerif.Lemmas.FatLine
import Mathlib.Tactic.Ring
import Mathlib.Tactic.NormNum.OfScientific
import Mathlib.Tactic.Linarith
import Mathlib.Tactic.Positivity
import Mathlib.Tactic.SplitIfs
import Mathlib.Algebra.Order.Field.Basic
import Mathlib.Algebra.Order.AbsoluteValue.Basic

set_option linter.unusedSectionVars false
set_option linter.unusedVariables false
namespace RaySide
open Prelude Gen FatLineLemmas

variable {K : Type} [Field K] [LinearOrder K] [IsStrictOrderedRing K] [Inhabited K] [FSqrt K] [FConsts K]

local instance : FAbs K := ⟨fun a => |a|⟩
/-- `f64::signum` is `1.0` for `+0.0` and every positive number, `-1.0` for `-0.0` and every negative number; an ordered
    field has one zero, which is given the sign `+1` -/
local instance : FSignum K := ⟨fun a => if a < 0 then -1 else 1⟩
local instance : OfInt K := ⟨fun n => (n : K)⟩

/-- `a x + b y + c` for the coefficient triple of a line -/
def sdist (co : T3 K K K) (p : V2 K) : K := co.t0 * p.x + co.t1 * p.y + co.t2

/-- the point of the edge at parameter `t` -/
def pointAt (e : Curve4 K) (t : K) : V2 K := de_casteljau4 t e.t0 e.t1 e.t2 e.t3

/-- the distance of a curve point is the Bernstein combination of the control points' distances -/
theorem dist_pointAt (co : T3 K K K) (e : Curve4 K) (t : K) :
    sdist co (pointAt e t) =
      (1-t)^3 * sdist co e.t0 + 3*(1-t)^2*t * sdist co e.t1 + 3*(1-t)*t^2 * sdist co e.t2 + t^3 * sdist co e.t3 := by
  simp only [sdist, pointAt, dc4_x, dc4_y, dc4_bernstein]
  ring

theorem bernstein_nonneg (t a b c d : K) (h0 : 0 ≤ t) (h1 : t ≤ 1) (ha : 0 ≤ a) (hb : 0 ≤ b) (hc : 0 ≤ c) (hd : 0 ≤ d) :
    0 ≤ (1-t)^3 * a + 3*(1-t)^2*t * b + 3*(1-t)*t^2 * c + t^3 * d := by
  have s : 0 ≤ 1 - t := by linarith
  positivity

theorem bernstein_neg (t a b c d : K) (h0 : 0 ≤ t) (h1 : t ≤ 1) (ha : a < 0) (hb : b < 0) (hc : c < 0) (hd : d < 0) :
    (1-t)^3 * a + 3*(1-t)^2*t * b + 3*(1-t)*t^2 * c + t^3 * d < 0 := by
  have s : 0 ≤ 1 - t := by linarith
  have b0 : 0 ≤ (1-t)^3 := by positivity
  have b1 : 0 ≤ 3*(1-t)^2*t := by positivity
  have b2 : 0 ≤ 3*(1-t)*t^2 := by positivity
  have b3 : 0 ≤ t^3 := by positivity
  have hs : (1-t)^3 + 3*(1-t)^2*t + 3*(1-t)*t^2 + t^3 = 1 := by ring
  -- every term is ≤ m·Bᵢ with m the largest of the four negative values
  obtain ⟨m, hm, hma, hmb, hmc, hmd⟩ : ∃ m : K, m < 0 ∧ a ≤ m ∧ b ≤ m ∧ c ≤ m ∧ d ≤ m :=
    ⟨max (max a b) (max c d), by simp [ha, hb, hc, hd], by simp, by simp, by simp, by simp⟩
  nlinarith [mul_le_mul_of_nonneg_left hma b0, mul_le_mul_of_nonneg_left hmb b1,
    mul_le_mul_of_nonneg_left hmc b2, mul_le_mul_of_nonneg_left hmd b3]

/-- the sign function takes the values ±1 only -/
theorem sg_cases (x : K) : (x < 0 ∧ fsignum x = -1) ∨ (0 ≤ x ∧ fsignum x = 1) := by
  simp only [fsignum]
  by_cases h : x < 0
  · left; exact ⟨h, if_pos h⟩
  · right; exact ⟨not_lt.1 h, if_neg h⟩

/-- what the generated `ray_can_intersect` computes, with the four control distances named -/
theorem rci_unfold (e : Curve4 K) (co : T3 K K K) :
    ray_can_intersect e co =
      if |sdist co e.t0| < (SMALL_DISTANCE : K) ∧ |sdist co e.t3| < (SMALL_DISTANCE : K) ∧ |sdist co e.t1| < (SMALL_DISTANCE : K) ∧
          |sdist co e.t2| < (SMALL_DISTANCE : K) then RayCanIntersect.Collinear
      else if ¬ (-3.99 ≤ fsignum (sdist co e.t0) + fsignum (sdist co e.t3) + fsignum (sdist co e.t1) + fsignum (sdist co e.t2) ∧
          fsignum (sdist co e.t0) + fsignum (sdist co e.t3) + fsignum (sdist co e.t1) + fsignum (sdist co e.t2) ≤ (3.99 : K))
        then RayCanIntersect.WrongSide else RayCanIntersect.CrossesRay := by
  simp only [ray_can_intersect, sdist, fabs, Bool.and_eq_true, decide_eq_true_eq, Bool.not_eq_true', and_assoc]
  congr 1
  by_cases h : -3.99 ≤ fsignum (co.t0 * e.t0.x + co.t1 * e.t0.y + co.t2) + fsignum (co.t0 * e.t3.x + co.t1 * e.t3.y + co.t2) +
        fsignum (co.t0 * e.t1.x + co.t1 * e.t1.y + co.t2) + fsignum (co.t0 * e.t2.x + co.t1 * e.t2.y + co.t2) ∧
      fsignum (co.t0 * e.t0.x + co.t1 * e.t0.y + co.t2) + fsignum (co.t0 * e.t3.x + co.t1 * e.t3.y + co.t2) +
        fsignum (co.t0 * e.t1.x + co.t1 * e.t1.y + co.t2) + fsignum (co.t0 * e.t2.x + co.t1 * e.t2.y + co.t2) ≤ (3.99 : K)
  · simp [h]
  · simp [h]

/-- `WrongSide` is only reported when the four control distances have one sign (a zero counts as positive) -/
theorem wrong_side_signs (e : Curve4 K) (co : T3 K K K) (h : ray_can_intersect e co = RayCanIntersect.WrongSide) :
    (0 ≤ sdist co e.t0 ∧ 0 ≤ sdist co e.t1 ∧ 0 ≤ sdist co e.t2 ∧ 0 ≤ sdist co e.t3) ∨
    (sdist co e.t0 < 0 ∧ sdist co e.t1 < 0 ∧ sdist co e.t2 < 0 ∧ sdist co e.t3 < 0) := by
  rw [rci_unfold] at h
  split_ifs at h with h1 h2
  rcases sg_cases (sdist co e.t0) with ⟨a0, s0⟩ | ⟨a0, s0⟩ <;> rcases sg_cases (sdist co e.t1) with ⟨a1, s1⟩ | ⟨a1, s1⟩ <;>
    rcases sg_cases (sdist co e.t2) with ⟨a2, s2⟩ | ⟨a2, s2⟩ <;> rcases sg_cases (sdist co e.t3) with ⟨a3, s3⟩ | ⟨a3, s3⟩ <;>
    first
      | exact Or.inl ⟨a0, a1, a2, a3⟩
      | exact Or.inr ⟨a0, a1, a2, a3⟩
      | (exfalso; apply h2; rw [s0, s1, s2, s3]; constructor <;> norm_num)

/-- conversely an edge whose control distances do not all have one sign is never `WrongSide` -/
theorem mixed_signs_not_wrong_side (e : Curve4 K) (co : T3 K K K)
    (hneg : sdist co e.t0 < 0 ∨ sdist co e.t1 < 0 ∨ sdist co e.t2 < 0 ∨ sdist co e.t3 < 0)
    (hpos : 0 ≤ sdist co e.t0 ∨ 0 ≤ sdist co e.t1 ∨ 0 ≤ sdist co e.t2 ∨ 0 ≤ sdist co e.t3) :
    ray_can_intersect e co ≠ RayCanIntersect.WrongSide := by
  intro h
  rcases wrong_side_signs e co h with ⟨a0, a1, a2, a3⟩ | ⟨a0, a1, a2, a3⟩
  · rcases hneg with h | h | h | h <;> linarith
  · rcases hpos with h | h | h | h <;> linarith

/-- `Collinear` needs both end points within `SMALL_DISTANCE` of the line -/
theorem collinear_ends (e : Curve4 K) (co : T3 K K K) (h : ray_can_intersect e co = RayCanIntersect.Collinear) :
    |sdist co e.t0| < (SMALL_DISTANCE : K) ∧ |sdist co e.t3| < (SMALL_DISTANCE : K) := by
  rw [rci_unfold] at h
  split_ifs at h with h1 h2
  exact ⟨h1.1, h1.2.1⟩

/-- `curve_is_collinear` is the same four-distance test -/
theorem cic_unfold (e : Curve4 K) (co : T3 K K K) :
    curve_is_collinear e co = true ↔
      |sdist co e.t0| < (SMALL_DISTANCE : K) ∧ |sdist co e.t3| < (SMALL_DISTANCE : K) ∧ |sdist co e.t1| < (SMALL_DISTANCE : K) ∧
          |sdist co e.t2| < (SMALL_DISTANCE : K) := by
  have e0 : e.t0.x * co.t0 + e.t0.y * co.t1 + co.t2 = sdist co e.t0 := by simp only [sdist]; ring
  have e1 : e.t1.x * co.t0 + e.t1.y * co.t1 + co.t2 = sdist co e.t1 := by simp only [sdist]; ring
  have e2 : e.t2.x * co.t0 + e.t2.y * co.t1 + co.t2 = sdist co e.t2 := by simp only [sdist]; ring
  have e3 : e.t3.x * co.t0 + e.t3.y * co.t1 + co.t2 = sdist co e.t3 := by simp only [sdist]; ring
  simp only [curve_is_collinear, fabs, e0, e1, e2, e3, Bool.and_eq_true, decide_eq_true_eq, and_assoc]
  split_ifs with h
  · simp [h]
  · simp [h]

/-- an edge with an end point at least `SMALL_DISTANCE` from the line is not collinear -/
theorem not_collinear_of_far_start (e : Curve4 K) (co : T3 K K K) (h : (SMALL_DISTANCE : K) ≤ |sdist co e.t0|) :
    curve_is_collinear e co = false := by
  rw [Bool.eq_false_iff]
  intro hc
  exact absurd ((cic_unfold e co).1 hc).1 (not_lt.2 h)

theorem rci_ne_collinear_of_far_start (e : Curve4 K) (co : T3 K K K) (h : (SMALL_DISTANCE : K) ≤ |sdist co e.t0|) :
    ray_can_intersect e co ≠ RayCanIntersect.Collinear := by
  intro hc
  exact absurd (collinear_ends e co hc).1 (not_lt.2 h)

end RaySide
