/-
Helper lemmas for C14 (parity of the number of ray collisions): pure list combinatorics.
-/
import Mathlib.Data.List.Rotate
import Mathlib.Data.List.Perm.Basic
import Mathlib.Tactic.Common
import FloVerif.Model.Ray

namespace RayParity

/-- number of list elements whose two components are on different sides -/
def changes (side : Nat → Bool) (edges : List (Nat × Nat)) : Nat :=
  edges.countP fun e => side e.1 != side e.2

/-- a directed multigraph is balanced when every vertex is the start of as many edges as it is the end of -/
def Balanced (edges : List (Nat × Nat)) : Prop :=
  ∀ v : Nat, (edges.map Prod.fst).count v = (edges.map Prod.snd).count v

instance (edges : List (Nat × Nat)) : Decidable (Balanced edges) :=
  decidable_of_iff ((edges.map Prod.fst).Perm (edges.map Prod.snd)) (by
    unfold Balanced; exact List.perm_iff_count)

theorem split_fst (side : Nat → Bool) (l : List (Nat × Nat)) :
    l.countP (fun e => side e.1) = l.countP (fun e => side e.1 && side e.2) + l.countP (fun e => side e.1 && !side e.2) := by
  induction l with
  | nil => simp
  | cons e l ih =>
    simp only [List.countP_cons, ih]
    cases side e.1 <;> cases side e.2 <;> simp <;> omega

theorem split_snd (side : Nat → Bool) (l : List (Nat × Nat)) :
    l.countP (fun e => side e.2) = l.countP (fun e => side e.1 && side e.2) + l.countP (fun e => !side e.1 && side e.2) := by
  induction l with
  | nil => simp
  | cons e l ih =>
    simp only [List.countP_cons, ih]
    cases side e.1 <;> cases side e.2 <;> simp <;> omega

theorem split_changes (side : Nat → Bool) (l : List (Nat × Nat)) :
    changes side l = l.countP (fun e => side e.1 && !side e.2) + l.countP (fun e => !side e.1 && side e.2) := by
  unfold changes
  induction l with
  | nil => simp
  | cons e l ih =>
    simp only [List.countP_cons, ih]
    cases side e.1 <;> cases side e.2 <;> simp <;> omega

/-- in a balanced graph as many edges go from side `false` to side `true` as the other way -/
theorem up_eq_down (side : Nat → Bool) (edges : List (Nat × Nat)) (h : Balanced edges) :
    edges.countP (fun e => side e.1 && !side e.2) = edges.countP (fun e => !side e.1 && side e.2) := by
  have hp : (edges.map Prod.fst).Perm (edges.map Prod.snd) := List.perm_iff_count.2 h
  have hc := hp.countP_eq side
  rw [List.countP_map, List.countP_map] at hc
  have h1 := split_fst side edges
  have h2 := split_snd side edges
  simp only [Function.comp_def] at hc
  omega

/-- the number of edges of a balanced graph whose end points lie on different sides is even -/
theorem changes_even (side : Nat → Bool) (edges : List (Nat × Nat)) (h : Balanced edges) :
    changes side edges % 2 = 0 := by
  rw [split_changes, up_eq_down side edges h]; omega

/-- the edges of a closed path through the vertices `vs` -/
def cyclicEdges (vs : List Nat) : List (Nat × Nat) := vs.zip (vs.rotate 1)

theorem cyclic_balanced (vs : List Nat) : Balanced (cyclicEdges vs) := by
  intro v
  have hlen : vs.length = (vs.rotate 1).length := by simp
  have h1 : (cyclicEdges vs).map Prod.fst = vs := by
    unfold cyclicEdges; rw [List.map_fst_zip]; omega
  have h2 : (cyclicEdges vs).map Prod.snd = vs.rotate 1 := by
    unfold cyclicEdges; rw [List.map_snd_zip]; omega
  rw [h1, h2]
  exact ((List.rotate_perm vs 1).count_eq v).symm

/-- parity of a sum is the parity of the number of odd summands -/
theorem sum_parity {α : Type} (n : α → Nat) (l : List α) :
    (l.map n).sum % 2 = (l.countP fun e => n e % 2 == 1) % 2 := by
  induction l with
  | nil => simp
  | cons e l ih =>
    simp only [List.map_cons, List.sum_cons, List.countP_cons]
    by_cases h : n e % 2 = 1
    · simp [h]; omega
    · have : n e % 2 = 0 := by omega
      simp [this]; omega

/-- the executable balance test of the driver is sound -/
theorem balancedB_sound (edges : List (Nat × Nat)) (h : Model.Ray.balancedB edges = true) : Balanced edges := by
  intro v
  unfold Model.Ray.balancedB at h
  rw [List.all_eq_true] at h
  by_cases hv : v ∈ edges.map Prod.fst ++ edges.map Prod.snd
  · exact beq_iff_eq.1 (h v hv)
  · rw [List.mem_append, not_or] at hv
    rw [List.count_eq_zero_of_not_mem hv.1, List.count_eq_zero_of_not_mem hv.2]

end RayParity
