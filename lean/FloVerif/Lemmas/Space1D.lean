/-
Helper lemmas for C18Space: the sweep of `Space1D::from_data` (model `Model.Space1D`) establishes the
divided-space specification; facts about `search`, `dedup`.
-/
import FloVerif.Model.Space1D
import Mathlib.Order.Basic
import Mathlib.Order.Lattice
import Mathlib.Data.List.TakeWhile

set_option linter.unusedSectionVars false
set_option linter.unusedVariables false
namespace C18Space
open Model.Space1D

variable {K : Type} [LinearOrder K]

/-! ### basic notions -/

/-- each piece starts exactly where the previous one ends -/
def Contig : List (Piece K) → Prop
  | [] => True
  | p :: l => (∀ q ∈ l.head?, p.e = q.s) ∧ Contig l

/-- the specification relative to a list of processed `(range, handle)` pairs -/
structure Good (done : List ((K × K) × Nat)) (sp : List (Piece K)) : Prop where
  nonempty : ∀ p ∈ sp, p.s < p.e
  sorted   : sp.Pairwise (fun p q => p.e ≤ q.s)
  handles  : ∀ p ∈ sp, ∀ x, p.s ≤ x → x < p.e → ∀ i, i ∈ p.hs ↔ ∃ r, (r, i) ∈ done ∧ r.1 ≤ x ∧ x < r.2
  nodup    : ∀ p ∈ sp, p.hs.Nodup
  cover    : ∀ r i x, (r, i) ∈ done → r.1 ≤ x → x < r.2 → ∃ p ∈ sp, p.s ≤ x ∧ x < p.e

theorem lower_of_head {L : List (Piece K)} {m : K} (hne : ∀ p ∈ L, p.s < p.e)
    (hs : L.Pairwise (fun p q => p.e ≤ q.s)) (hh : ∀ a ∈ L.head?, m ≤ a.s) : ∀ p ∈ L, m ≤ p.s := by
  cases L with
  | nil => intro p hp; cases hp
  | cons a l =>
    have ha : m ≤ a.s := hh a (by simp)
    intro p hp
    rcases List.mem_cons.mp hp with rfl | hp
    · exact ha
    · have := (List.pairwise_cons.mp hs).1 p hp
      exact le_trans ha (le_trans (le_of_lt (hne a (by simp))) this)

/-! ### pushCombined / popLoop -/

theorem pushCombined_eq (cr : List (Piece K)) (top : Piece K) (h : ∀ l ∈ cr, l.s ≠ top.s) :
    pushCombined cr top = top :: cr := by
  cases cr with
  | nil => rfl
  | cons last more =>
    have := h last (by simp)
    simp [pushCombined, this]

theorem popLoop_spec (rs : K) : ∀ (rem cr : List (Piece K)),
    (∀ p ∈ cr.reverse ++ rem, p.s < p.e) → (cr.reverse ++ rem).Pairwise (fun p q => p.e ≤ q.s) →
    Contig rem → (∀ p ∈ cr, p.e ≤ rs) → (∀ a ∈ rem.head?, a.s ≤ rs) →
    (popLoop rs cr rem).1.reverse ++ (popLoop rs cr rem).2 = cr.reverse ++ rem ∧
    Contig (popLoop rs cr rem).2 ∧ (∀ q ∈ (popLoop rs cr rem).1, q.e ≤ rs) ∧
    (∀ a ∈ (popLoop rs cr rem).2.head?, a.s ≤ rs ∧ rs < a.e)
  | [], cr, _, _, _, hC, _ => by
    have e : popLoop rs cr [] = (cr, []) := rfl
    rw [e]
    exact ⟨rfl, trivial, hC, by simp⟩
  | top :: rest, cr, hne, hs, hct, hC, hH => by
    by_cases hlt : rs < top.e
    · have e : popLoop rs cr (top :: rest) = (cr, top :: rest) := by simp [popLoop, hlt]
      rw [e]
      refine ⟨rfl, hct, hC, ?_⟩
      intro a ha
      simp only [List.head?_cons, Option.mem_def, Option.some.injEq] at ha
      subst ha
      exact ⟨hH _ (by simp), hlt⟩
    · have hle : top.e ≤ rs := not_lt.mp hlt
      have hpush : pushCombined cr top = top :: cr := by
        apply pushCombined_eq
        intro l hl
        have h1 : l.e ≤ top.s := by
          have := (List.pairwise_append.mp hs).2.2 l (by simpa using hl) top (by simp)
          exact this
        have h2 : l.s < l.e := hne l (by simp [hl])
        exact ne_of_lt (lt_of_lt_of_le h2 h1)
      have e : popLoop rs cr (top :: rest) = popLoop rs (top :: cr) rest := by
        simp [popLoop, hlt, hpush]
      rw [e]
      have heq : (top :: cr).reverse ++ rest = cr.reverse ++ top :: rest := by simp
      have ih := popLoop_spec rs rest (top :: cr) (by rw [heq]; exact hne) (by rw [heq]; exact hs) hct.2
        (by
          intro p hp
          rcases List.mem_cons.mp hp with rfl | hp
          · exact hle
          · exact hC p hp)
        (by
          intro a ha
          rw [← hct.1 a ha]; exact hle)
      rw [heq] at ih
      exact ih

/-! ### unfolding equations for `drain` -/

theorem drain_nil (h : Nat) (rs re : K) : drain h rs re ([] : List (Piece K)) = ([], [], rs) := rfl

theorem drain_cons_eq (h : Nat) (rs : K) (a : Piece K) (rest : List (Piece K)) (hnc : ¬ a.s < rs) :
    drain h rs rs (a :: rest) =
      ((drain h rs rs rest).1, a :: (drain h rs rs rest).2.1, (drain h rs rs rest).2.2) := by
  simp [drain, hnc]

theorem drain_cons_le (h : Nat) (rs re : K) (a : Piece K) (rest : List (Piece K)) (hnc : ¬ a.s < rs)
    (hne : rs ≠ re) (hle : a.e ≤ re) :
    drain h rs re (a :: rest) =
      ((drain h a.e re rest).1, { a with hs := a.hs ++ [h] } :: (drain h a.e re rest).2.1,
        (drain h a.e re rest).2.2) := by
  simp [drain, hnc, hne, hle]

theorem drain_cons_gt (h : Nat) (rs re : K) (a : Piece K) (rest : List (Piece K)) (hnc : ¬ a.s < rs)
    (hne : rs ≠ re) (hgt : re < a.e) :
    drain h rs re (a :: rest) =
      ((drain h re re rest).1,
        { s := rs, e := re, hs := a.hs ++ [h] } :: { a with s := re } :: (drain h re re rest).2.1,
        (drain h re re rest).2.2) := by
  simp [drain, hnc, hne, not_le.mpr hgt]

theorem drain_cons_cut (h : Nat) (rs re : K) (a : Piece K) (rest : List (Piece K)) (hc1 : rs < a.e)
    (hc2 : a.s < rs) :
    drain h rs re (a :: rest) =
      ({ s := a.s, e := rs, hs := a.hs } :: (drain h rs re ({ a with s := rs } :: rest)).1,
        (drain h rs re ({ a with s := rs } :: rest)).2.1,
        (drain h rs re ({ a with s := rs } :: rest)).2.2) := by
  by_cases h1 : rs = re
  · subst h1
    simp [drain, hc1, hc2]
  · by_cases h2 : a.e ≤ re
    · simp [drain, hc1, hc2, h1, h2]
    · simp [drain, hc1, hc2, h1, h2]

/-! ### the drain loop on a list whose head starts at the new range's start (no cut) -/

/-- the new `remaining` list produced by an iteration: drained pieces plus the uncovered tail -/
def drainOut (h : Nat) (rs re : K) (L : List (Piece K)) : List (Piece K) :=
  (drain h rs re L).2.1 ++
    (if (drain h rs re L).2.2 != re then [{ s := (drain h rs re L).2.2, e := re, hs := [h] }] else [])

theorem drain_eq_self (h : Nat) (rs : K) : ∀ L : List (Piece K), (∀ p ∈ L, rs ≤ p.s) →
    drain h rs rs L = ([], L, rs)
  | [], _ => rfl
  | a :: rest, hl => by
    have hnc : ¬ a.s < rs := not_lt.mpr (hl a (by simp))
    rw [drain_cons_eq h rs a rest hnc, drain_eq_self h rs rest (fun p hp => hl p (by simp [hp]))]

structure DrainPost (h : Nat) (rs re : K) (L out : List (Piece K)) : Prop where
  nonempty : ∀ q ∈ out, q.s < q.e
  sorted : out.Pairwise (fun p q => p.e ≤ q.s)
  contig : Contig out
  lower : ∀ q ∈ out, rs ≤ q.s
  head_cons : ∀ q ∈ out.head?, ∀ a ∈ L.head?, q.s = a.s
  head_nil : L = [] → ∀ q ∈ out.head?, q.s = rs
  hs : ∀ q ∈ out, ∀ x, q.s ≤ x → x < q.e →
        (∃ p ∈ L, p.s ≤ x ∧ x < p.e ∧ q.hs = if x < re then p.hs ++ [h] else p.hs) ∨
        ((∀ p ∈ L, p.e ≤ x) ∧ x < re ∧ q.hs = [h])
  cover : ∀ x, ((∃ p ∈ L, p.s ≤ x ∧ x < p.e) ∨ (rs ≤ x ∧ x < re)) → ∃ q ∈ out, q.s ≤ x ∧ x < q.e

theorem drain_spec (h : Nat) (re : K) : ∀ (L : List (Piece K)) (rs : K), rs ≤ re →
    (∀ p ∈ L, p.s < p.e) → L.Pairwise (fun p q => p.e ≤ q.s) → Contig L →
    (∀ a ∈ L.head?, rs ≤ a.s ∧ (rs < re → a.s = rs)) →
    (drain h rs re L).1 = [] ∧ DrainPost h rs re L (drainOut h rs re L)
  | [], rs, hle, _, _, _, _ => by
    refine ⟨rfl, ?_⟩
    by_cases heq : rs = re
    · have e : drainOut h rs re ([] : List (Piece K)) = [] := by simp [drainOut, drain_nil, heq]
      rw [e]
      exact ⟨by simp, by simp, trivial, by simp, by simp, by simp, by simp,
        fun x hx => by
          rcases hx with ⟨p, hp, _⟩ | ⟨h1, h2⟩
          · cases hp
          · exact absurd (lt_of_le_of_lt h1 h2) (heq ▸ lt_irrefl _)⟩
    · have hlt : rs < re := lt_of_le_of_ne hle heq
      have e : drainOut h rs re ([] : List (Piece K)) = [{ s := rs, e := re, hs := [h] }] := by
        simp [drainOut, drain_nil, heq]
      rw [e]
      refine ⟨by simpa using hlt, by simp, ⟨by simp, trivial⟩, by simp, by simp, by simp, ?_, ?_⟩
      · intro q hq x h1 h2
        simp only [List.mem_singleton] at hq
        subst hq
        exact Or.inr ⟨by simp, h2, rfl⟩
      · intro x hx
        rcases hx with ⟨p, hp, _⟩ | ⟨h1, h2⟩
        · cases hp
        · exact ⟨{ s := rs, e := re, hs := [h] }, by simp, h1, h2⟩
  | a :: rest, rs, hle, hne, hs, hct, hh => by
    have ha := hh a (by simp)
    have hane : a.s < a.e := hne a (by simp)
    have hrest_ne : ∀ p ∈ rest, p.s < p.e := fun p hp => hne p (by simp [hp])
    have hrest_s := (List.pairwise_cons.mp hs).2
    have ha_le : ∀ p ∈ rest, a.e ≤ p.s := (List.pairwise_cons.mp hs).1
    by_cases heq : rs = re
    · subst heq
      have hall : ∀ p ∈ a :: rest, rs ≤ p.s := lower_of_head hne hs (fun b hb => (hh b hb).1)
      have e1 := drain_eq_self h rs (a :: rest) hall
      have e : drainOut h rs rs (a :: rest) = a :: rest := by simp [drainOut, e1]
      rw [e, e1]
      refine ⟨rfl, hne, hs, hct, hall, ?_, by simp, ?_, ?_⟩
      · intro q hq b hb
        simp only [List.head?_cons, Option.mem_def, Option.some.injEq] at hq hb
        rw [← hq, ← hb]
      · intro q hq x h1 h2
        refine Or.inl ⟨q, hq, h1, h2, ?_⟩
        rw [if_neg (not_lt.mpr (le_trans (hall q hq) h1))]
      · intro x hx
        rcases hx with ⟨p, hp, h1, h2⟩ | ⟨h1, h2⟩
        · exact ⟨p, hp, h1, h2⟩
        · exact absurd (lt_of_le_of_lt h1 h2) (lt_irrefl _)
    · have hlt : rs < re := lt_of_le_of_ne hle heq
      have has : a.s = rs := ha.2 hlt
      have hnc : ¬ a.s < rs := by rw [has]; exact lt_irrefl _
      by_cases hae : a.e ≤ re
      · -- the piece is covered by the new range
        have ih := drain_spec h re rest a.e hae hrest_ne hrest_s hct.2
          (fun b hb => by rw [← hct.1 b hb]; exact ⟨le_refl _, fun _ => rfl⟩)
        have e1 := drain_cons_le h rs re a rest hnc heq hae
        have e : drainOut h rs re (a :: rest) =
            { a with hs := a.hs ++ [h] } :: drainOut h a.e re rest := by
          simp [drainOut, e1]
        rw [e, e1]
        obtain ⟨ih1, ih⟩ := ih
        refine ⟨ih1, ?_, ?_, ?_, ?_, ?_, by simp, ?_, ?_⟩
        · intro q hq
          rcases List.mem_cons.mp hq with rfl | hq
          · exact hane
          · exact ih.nonempty q hq
        · exact List.pairwise_cons.mpr ⟨fun q hq => ih.lower q hq, ih.sorted⟩
        · refine ⟨?_, ih.contig⟩
          intro q hq
          cases rest with
          | nil => exact (ih.head_nil rfl q hq).symm
          | cons b rest' =>
            rw [ih.head_cons q hq b (by simp)]
            exact hct.1 b (by simp)
        · intro q hq
          rcases List.mem_cons.mp hq with rfl | hq
          · exact ha.1
          · exact le_trans (le_trans ha.1 (le_of_lt hane)) (ih.lower q hq)
        · intro q hq b hb
          simp only [List.head?_cons, Option.mem_def, Option.some.injEq] at hq hb
          rw [← hq, ← hb]
        · intro q hq x h1 h2
          rcases List.mem_cons.mp hq with rfl | hq
          · refine Or.inl ⟨a, by simp, h1, h2, ?_⟩
            rw [if_pos (lt_of_lt_of_le h2 hae)]
          · rcases ih.hs q hq x h1 h2 with ⟨p, hp, h3, h4, h5⟩ | ⟨h3, h4, h5⟩
            · exact Or.inl ⟨p, by simp [hp], h3, h4, h5⟩
            · refine Or.inr ⟨?_, h4, h5⟩
              intro p hp
              rcases List.mem_cons.mp hp with rfl | hp
              · exact le_trans (ih.lower q hq) h1
              · exact h3 p hp
        · intro x hx
          rcases hx with ⟨p, hp, h1, h2⟩ | ⟨h1, h2⟩
          · rcases List.mem_cons.mp hp with rfl | hp
            · exact ⟨_, List.mem_cons_self .., h1, h2⟩
            · obtain ⟨q, hq, h3, h4⟩ := ih.cover x (Or.inl ⟨p, hp, h1, h2⟩)
              exact ⟨q, by simp [hq], h3, h4⟩
          · by_cases hx : x < a.e
            · exact ⟨_, List.mem_cons_self .., by rw [has]; exact h1, hx⟩
            · obtain ⟨q, hq, h3, h4⟩ := ih.cover x (Or.inr ⟨not_lt.mp hx, h2⟩)
              exact ⟨q, by simp [hq], h3, h4⟩
      · -- the new range ends inside the piece
        have hgt : re < a.e := not_le.mp hae
        have hall : ∀ p ∈ rest, re ≤ p.s := fun p hp => le_trans (le_of_lt hgt) (ha_le p hp)
        have e0 := drain_eq_self h re rest hall
        have e1 := drain_cons_gt h rs re a rest hnc heq hgt
        rw [e0] at e1
        have e : drainOut h rs re (a :: rest) =
            { s := rs, e := re, hs := a.hs ++ [h] } :: { a with s := re } :: rest := by
          simp [drainOut, e1]
        rw [e, e1]
        refine ⟨rfl, ?_, ?_, ?_, ?_, ?_, by simp, ?_, ?_⟩
        · intro q hq
          rcases List.mem_cons.mp hq with rfl | hq
          · exact hlt
          rcases List.mem_cons.mp hq with rfl | hq
          · exact hgt
          · exact hrest_ne q hq
        · refine List.pairwise_cons.mpr ⟨?_, List.pairwise_cons.mpr ⟨ha_le, hrest_s⟩⟩
          intro q hq
          rcases List.mem_cons.mp hq with rfl | hq
          · exact le_refl _
          · exact hall q hq
        · exact ⟨by simp, hct⟩
        · intro q hq
          rcases List.mem_cons.mp hq with rfl | hq
          · exact le_refl _
          rcases List.mem_cons.mp hq with rfl | hq
          · exact hle
          · exact le_trans hle (hall q hq)
        · intro q hq b hb
          simp only [List.head?_cons, Option.mem_def, Option.some.injEq] at hq hb
          rw [← hq, ← hb, has]
        · intro q hq x h1 h2
          rcases List.mem_cons.mp hq with rfl | hq
          · refine Or.inl ⟨a, by simp, by rw [has]; exact h1, lt_trans h2 hgt, ?_⟩
            rw [if_pos h2]
          rcases List.mem_cons.mp hq with rfl | hq
          · refine Or.inl ⟨a, by simp, by rw [has]; exact le_trans hle h1, h2, ?_⟩
            rw [if_neg (not_lt.mpr h1)]
          · refine Or.inl ⟨q, by simp [hq], h1, h2, ?_⟩
            rw [if_neg (not_lt.mpr (le_trans (hall q hq) h1))]
        · intro x hx
          rcases hx with ⟨p, hp, h1, h2⟩ | ⟨h1, h2⟩
          · rcases List.mem_cons.mp hp with rfl | hp
            · by_cases hx : x < re
              · exact ⟨_, List.mem_cons_self .., by rw [← has]; exact h1, hx⟩
              · exact ⟨_, List.mem_cons_of_mem _ (List.mem_cons_self ..), not_lt.mp hx, h2⟩
            · exact ⟨p, by simp [hp], h1, h2⟩
          · exact ⟨_, List.mem_cons_self .., h1, h2⟩

/-! ### splitting a piece preserves the specification -/

theorem Good.split {done : List ((K × K) × Nat)} {A B : List (Piece K)} {a : Piece K} {m : K}
    (hg : Good done (A ++ a :: B)) (h1 : a.s < m) (h2 : m < a.e) :
    Good done (A ++ { s := a.s, e := m, hs := a.hs } :: { s := m, e := a.e, hs := a.hs } :: B) := by
  have hmem : ∀ p, p ∈ A ++ { s := a.s, e := m, hs := a.hs } :: { s := m, e := a.e, hs := a.hs } :: B →
      p ∈ A ++ a :: B ∨ p = { s := a.s, e := m, hs := a.hs } ∨ p = { s := m, e := a.e, hs := a.hs } := by
    intro p hp
    simp only [List.mem_append, List.mem_cons] at hp ⊢
    rcases hp with hp | hp | hp | hp
    · exact Or.inl (Or.inl hp)
    · exact Or.inr (Or.inl hp)
    · exact Or.inr (Or.inr hp)
    · exact Or.inl (Or.inr (Or.inr hp))
  have ha : a ∈ A ++ a :: B := by simp
  obtain ⟨hsA, hsB, hsAB⟩ := List.pairwise_append.mp hg.sorted
  have haB := (List.pairwise_cons.mp hsB).1
  refine ⟨?_, ?_, ?_, ?_, ?_⟩
  · intro p hp
    rcases hmem p hp with hp | rfl | rfl
    · exact hg.nonempty p hp
    · exact h1
    · exact h2
  · refine List.pairwise_append.mpr ⟨hsA, ?_, ?_⟩
    · refine List.pairwise_cons.mpr ⟨?_, List.pairwise_cons.mpr ⟨haB, (List.pairwise_cons.mp hsB).2⟩⟩
      intro q hq
      rcases List.mem_cons.mp hq with rfl | hq
      · exact le_refl _
      · exact le_trans (le_of_lt h2) (haB q hq)
    · intro p hp q hq
      rcases List.mem_cons.mp hq with rfl | hq
      · exact hsAB p hp a (by simp)
      rcases List.mem_cons.mp hq with rfl | hq
      · exact le_trans (hsAB p hp a (by simp)) (le_of_lt h1)
      · exact hsAB p hp q (by simp [hq])
  · intro p hp x hx1 hx2
    rcases hmem p hp with hp | rfl | rfl
    · exact hg.handles p hp x hx1 hx2
    · exact hg.handles a ha x hx1 (lt_trans hx2 h2)
    · exact hg.handles a ha x (le_trans (le_of_lt h1) hx1) hx2
  · intro p hp
    rcases hmem p hp with hp | rfl | rfl
    · exact hg.nodup p hp
    · exact hg.nodup a ha
    · exact hg.nodup a ha
  · intro r i x hr hx1 hx2
    obtain ⟨p, hp, h3, h4⟩ := hg.cover r i x hr hx1 hx2
    simp only [List.mem_append, List.mem_cons] at hp
    rcases hp with hp | rfl | hp
    · exact ⟨p, by simp [hp], h3, h4⟩
    · by_cases hxm : x < m
      · exact ⟨{ s := p.s, e := m, hs := p.hs }, by simp, h3, hxm⟩
      · exact ⟨{ s := m, e := p.e, hs := p.hs }, by simp, not_lt.mp hxm, h4⟩
    · exact ⟨p, by simp [hp], h3, h4⟩

/-! ### one iteration of the main loop -/

/-- adding the range `[rs, re)` with a fresh handle `h`, when the in-flight list starts at `rs` -/
theorem advance {done : List ((K × K) × Nat)} {cr L : List (Piece K)} {rs re : K} {h : Nat}
    (hg : Good done (cr.reverse ++ L)) (hct : Contig L) (hC : ∀ p ∈ cr, p.e ≤ rs)
    (hH : ∀ a ∈ L.head?, a.s = rs) (hle : rs ≤ re) (hfresh : ∀ d ∈ done, d.2 ≠ h) :
    (drain h rs re L).1 = [] ∧
    Good (done ++ [((rs, re), h)]) (cr.reverse ++ drainOut h rs re L) ∧
    Contig (drainOut h rs re L) ∧ (∀ a ∈ (drainOut h rs re L).head?, a.s ≤ rs) := by
  have hneL : ∀ p ∈ L, p.s < p.e := fun p hp => hg.nonempty p (by simp [hp])
  obtain ⟨hsC, hsL, hsCL⟩ := List.pairwise_append.mp hg.sorted
  obtain ⟨hd1, hd⟩ := drain_spec h re L rs hle hneL hsL hct
    (fun a ha => by rw [hH a ha]; exact ⟨le_refl _, fun _ => rfl⟩)
  have hin : ∀ p ∈ L, ∀ i ∈ p.hs, i ≠ h := by
    intro p hp i hi
    obtain ⟨r, hr, _⟩ := (hg.handles p (by simp [hp]) p.s (le_refl _) (hneL p hp) i).mp hi
    exact hfresh _ hr
  refine ⟨hd1, ⟨?_, ?_, ?_, ?_, ?_⟩, hd.contig, ?_⟩
  · intro p hp
    rcases List.mem_append.mp hp with hp | hp
    · exact hg.nonempty p (by simp [hp])
    · exact hd.nonempty p hp
  · refine List.pairwise_append.mpr ⟨hsC, hd.sorted, ?_⟩
    intro p hp q hq
    exact le_trans (hC p (by simpa using hp)) (hd.lower q hq)
  · intro p hp x hx1 hx2 i
    rcases List.mem_append.mp hp with hp | hp
    · have hxr : x < rs := lt_of_lt_of_le hx2 (hC p (by simpa using hp))
      rw [hg.handles p (by simp [hp]) x hx1 hx2 i]
      constructor
      · rintro ⟨r, hr, h1, h2⟩
        exact ⟨r, by simp [hr], h1, h2⟩
      · rintro ⟨r, hr, h1, h2⟩
        rcases List.mem_append.mp hr with hr | hr
        · exact ⟨r, hr, h1, h2⟩
        · simp only [List.mem_singleton, Prod.mk.injEq] at hr
          obtain ⟨rfl, _⟩ := hr
          exact absurd (lt_of_le_of_lt h1 hxr) (lt_irrefl _)
    · have hrx : rs ≤ x := le_trans (hd.lower p hp) hx1
      rcases hd.hs p hp x hx1 hx2 with ⟨q, hq, h3, h4, h5⟩ | ⟨h3, h4, h5⟩
      · have hq' := hg.handles q (by simp [hq]) x h3 h4 i
        rw [h5]
        constructor
        · intro hi
          by_cases hxe : x < re
          · rw [if_pos hxe] at hi
            rcases List.mem_append.mp hi with hi | hi
            · obtain ⟨r, hr, h1, h2⟩ := hq'.mp hi
              exact ⟨r, by simp [hr], h1, h2⟩
            · simp only [List.mem_singleton] at hi
              subst hi
              exact ⟨(rs, re), by simp, hrx, hxe⟩
          · rw [if_neg hxe] at hi
            obtain ⟨r, hr, h1, h2⟩ := hq'.mp hi
            exact ⟨r, by simp [hr], h1, h2⟩
        · rintro ⟨r, hr, h1, h2⟩
          rcases List.mem_append.mp hr with hr | hr
          · have := hq'.mpr ⟨r, hr, h1, h2⟩
            split
            · exact List.mem_append_left _ this
            · exact this
          · simp only [List.mem_singleton, Prod.mk.injEq] at hr
            obtain ⟨rfl, rfl⟩ := hr
            rw [if_pos h2]
            simp
      · rw [h5]
        constructor
        · intro hi
          simp only [List.mem_singleton] at hi
          subst hi
          exact ⟨(rs, re), by simp, hrx, h4⟩
        · rintro ⟨r, hr, h1, h2⟩
          rcases List.mem_append.mp hr with hr | hr
          · exfalso
            obtain ⟨q, hq, h6, h7⟩ := hg.cover r i x hr h1 h2
            rcases List.mem_append.mp hq with hq | hq
            · exact absurd (lt_of_lt_of_le h7 (hC q (by simpa using hq))) (not_lt.mpr hrx)
            · exact absurd (lt_of_lt_of_le h7 (h3 q hq)) (lt_irrefl _)
          · simp only [List.mem_singleton, Prod.mk.injEq] at hr
            simp [hr.2]
  · intro p hp
    rcases List.mem_append.mp hp with hp | hp
    · exact hg.nodup p (by simp [hp])
    · rcases hd.hs p hp p.s (le_refl _) (hd.nonempty p hp) with ⟨q, hq, h3, h4, h5⟩ | ⟨h3, h4, h5⟩
      · rw [h5]
        have hqn := hg.nodup q (by simp [hq])
        split
        · refine List.nodup_append.mpr ⟨hqn, by simp, ?_⟩
          intro i hi j hj
          simp only [List.mem_singleton] at hj
          subst hj
          exact hin q hq i hi
        · exact hqn
      · rw [h5]; simp
  · intro r i x hr h1 h2
    rcases List.mem_append.mp hr with hr | hr
    · obtain ⟨q, hq, h6, h7⟩ := hg.cover r i x hr h1 h2
      rcases List.mem_append.mp hq with hq | hq
      · exact ⟨q, by simp [hq], h6, h7⟩
      · obtain ⟨q', hq', h8, h9⟩ := hd.cover x (Or.inl ⟨q, hq, h6, h7⟩)
        exact ⟨q', by simp [hq'], h8, h9⟩
    · simp only [List.mem_singleton, Prod.mk.injEq] at hr
      obtain ⟨rfl, _⟩ := hr
      obtain ⟨q', hq', h8, h9⟩ := hd.cover x (Or.inr ⟨h1, h2⟩)
      exact ⟨q', by simp [hq'], h8, h9⟩
  · intro a ha
    cases L with
    | nil => exact le_of_eq (hd.head_nil rfl a ha)
    | cons b L' =>
      rw [hd.head_cons a ha b (by simp), hH b (by simp)]

theorem step_rem (st : St K) (rs re : K) (h : Nat) :
    (step st ((rs, re), h)).rem = drainOut h rs re (popLoop rs st.combinedRev st.rem).2 := by
  simp only [step, drainOut]
  split <;> simp

theorem step_combinedRev (st : St K) (rs re : K) (h : Nat) :
    (step st ((rs, re), h)).combinedRev =
      (drain h rs re (popLoop rs st.combinedRev st.rem).2).1.reverse ++ (popLoop rs st.combinedRev st.rem).1 :=
  rfl

theorem step_spec {done : List ((K × K) × Nat)} {st : St K} {rs re : K} {h : Nat}
    (hg : Good done (st.combinedRev.reverse ++ st.rem)) (hct : Contig st.rem)
    (hC : ∀ p ∈ st.combinedRev, p.e ≤ rs) (hH : ∀ a ∈ st.rem.head?, a.s ≤ rs) (hle : rs ≤ re)
    (hfresh : ∀ d ∈ done, d.2 ≠ h) :
    Good (done ++ [((rs, re), h)])
      ((step st ((rs, re), h)).combinedRev.reverse ++ (step st ((rs, re), h)).rem) ∧
    Contig (step st ((rs, re), h)).rem ∧ (∀ p ∈ (step st ((rs, re), h)).combinedRev, p.e ≤ rs) ∧
    (∀ a ∈ (step st ((rs, re), h)).rem.head?, a.s ≤ rs) := by
  rw [step_rem, step_combinedRev]
  obtain ⟨hp1, hp2, hp3, hp4⟩ := popLoop_spec rs st.rem st.combinedRev hg.nonempty hg.sorted hct hC hH
  rw [← hp1] at hg
  generalize (popLoop rs st.combinedRev st.rem).1 = cr1 at *
  generalize (popLoop rs st.combinedRev st.rem).2 = rem1 at *
  cases rem1 with
  | nil =>
    obtain ⟨a1, a2, a3, a4⟩ := advance (rs := rs) (re := re) (h := h) hg hp2 hp3 (by simp) hle hfresh
    rw [a1]
    exact ⟨by simpa using a2, a3, by simpa using hp3, a4⟩
  | cons a rest =>
    obtain ⟨ha1, ha2⟩ := hp4 a (by simp)
    by_cases hcut : a.s < rs
    · have hg2 := Good.split hg hcut ha2
      have hg3 : Good done (({ s := a.s, e := rs, hs := a.hs } :: cr1).reverse ++
          ({ a with s := rs } :: rest)) := by
        simpa using hg2
      have hC2 : ∀ p ∈ ({ s := a.s, e := rs, hs := a.hs } :: cr1 : List (Piece K)), p.e ≤ rs := by
        intro p hp
        rcases List.mem_cons.mp hp with rfl | hp
        · exact le_refl _
        · exact hp3 p hp
      obtain ⟨a1, a2, a3, a4⟩ := advance (rs := rs) (re := re) (h := h) hg3 (L := { a with s := rs } :: rest)
        ⟨hp2.1, hp2.2⟩ hC2 (by simp) hle hfresh
      have e := drain_cons_cut h rs re a rest ha2 hcut
      have e2 : drainOut h rs re (a :: rest) = drainOut h rs re ({ a with s := rs } :: rest) := by
        simp only [drainOut, e]
      rw [e2, e, a1]
      exact ⟨by simpa using a2, a3, by simpa using hC2, a4⟩
    · have has : a.s = rs := le_antisymm ha1 (not_lt.mp hcut)
      obtain ⟨a1, a2, a3, a4⟩ := advance (rs := rs) (re := re) (h := h) hg hp2 hp3
        (by simpa using has) hle hfresh
      rw [a1]
      exact ⟨by simpa using a2, a3, by simpa using hp3, a4⟩

/-! ### the whole sweep -/

theorem fold_spec (sorted : List ((K × K) × Nat))
    (hsort : sorted.Pairwise (fun a b => a.1.1 ≤ b.1.1))
    (hnd : sorted.Pairwise (fun a b => a.2 ≠ b.2))
    (hle : ∀ r ∈ sorted, r.1.1 ≤ r.1.2) :
    ∀ (todo done : List ((K × K) × Nat)) (st : St K), sorted = done ++ todo →
      Good done (st.combinedRev.reverse ++ st.rem) → Contig st.rem →
      (∀ r ∈ todo, (∀ p ∈ st.combinedRev, p.e ≤ r.1.1) ∧ (∀ a ∈ st.rem.head?, a.s ≤ r.1.1)) →
      Good sorted ((todo.foldl step st).combinedRev.reverse ++ (todo.foldl step st).rem)
  | [], done, st, hsplit, hg, _, _ => by
    rw [hsplit]
    simpa using hg
  | r :: rest, done, st, hsplit, hg, hct, hB => by
    obtain ⟨⟨rs, re⟩, h⟩ := r
    simp only [List.foldl_cons]
    rw [hsplit] at hsort hnd hle
    obtain ⟨_, hs2, _⟩ := List.pairwise_append.mp hsort
    obtain ⟨_, _, hn3⟩ := List.pairwise_append.mp hnd
    have hrest : ∀ r' ∈ rest, rs ≤ r'.1.1 := (List.pairwise_cons.mp hs2).1
    have hB0 := hB ((rs, re), h) (by simp)
    obtain ⟨s1, s2, s3, s4⟩ := step_spec (rs := rs) (re := re) (h := h) hg hct hB0.1
      hB0.2 (hle ((rs, re), h) (by simp)) (fun d hd => hn3 d hd ((rs, re), h) (by simp))
    refine fold_spec sorted (hsplit ▸ hsort) (hsplit ▸ hnd) (hsplit ▸ hle) rest (done ++ [((rs, re), h)])
      (step st ((rs, re), h)) (by simp [hsplit]) s1 s2 ?_
    intro r' hr'
    exact ⟨fun p hp => le_trans (s3 p hp) (hrest r' hr'), fun a ha => le_trans (s4 a ha) (hrest r' hr')⟩

theorem mem_sortByStart {data : List (K × K)} {r : K × K} {i : Nat} :
    (r, i) ∈ sortByStart data.zipIdx ↔ data[i]? = some r := by
  unfold sortByStart
  rw [(List.mergeSort_perm _ _).mem_iff, List.mem_zipIdx_iff_getElem?]

theorem fromData_good (data : List (K × K)) (hle : ∀ r ∈ data, r.1 ≤ r.2) :
    Good (sortByStart data.zipIdx) (fromData data) := by
  have hperm : (sortByStart data.zipIdx).Perm data.zipIdx := List.mergeSort_perm _ _
  have hsort : (sortByStart data.zipIdx).Pairwise (fun a b => a.1.1 ≤ b.1.1) := by
    have := List.pairwise_mergeSort (le := fun (a b : (K × K) × Nat) => decide (a.1.1 ≤ b.1.1))
      (fun a b c hab hbc => by
        simp only [decide_eq_true_eq] at hab hbc ⊢
        exact le_trans hab hbc)
      (fun a b => by
        simp only [Bool.or_eq_true, decide_eq_true_eq]
        exact le_total _ _)
      data.zipIdx
    exact this.imp (fun h => by simpa using h)
  have hnd : (sortByStart data.zipIdx).Pairwise (fun a b => a.2 ≠ b.2) := by
    have h1 : ((sortByStart data.zipIdx).map Prod.snd).Nodup := by
      rw [(hperm.map Prod.snd).nodup_iff, List.zipIdx_map_snd]
      exact List.nodup_range' _
    exact List.pairwise_map.mp h1
  have hle' : ∀ r ∈ sortByStart data.zipIdx, r.1.1 ≤ r.1.2 := by
    intro r hr
    have := (mem_sortByStart (r := r.1) (i := r.2)).mp hr
    exact hle r.1 (List.mem_of_getElem? this)
  have := fold_spec (sortByStart data.zipIdx) hsort hnd hle' (sortByStart data.zipIdx) []
    { combinedRev := [], rem := [] } (by simp)
    ⟨by simp, by simp, by simp, by simp, by simp⟩ trivial (fun r _ => ⟨by simp, by simp⟩)
  exact this

/-! ### queries on a sorted list of non-empty pieces -/

section Query
variable {sp : List (Piece K)}

theorem dropWhile_lower (hne : ∀ p ∈ sp, p.s < p.e) (hs : sp.Pairwise (fun p q => p.e ≤ q.s)) (x : K) :
    ∀ p ∈ sp.dropWhile (fun p => decide (p.s < x)), x ≤ p.s := by
  induction sp with
  | nil => simp
  | cons a l ih =>
    by_cases ha : a.s < x
    · rw [List.dropWhile_cons_of_pos (by simpa using ha)]
      exact ih (fun p hp => hne p (by simp [hp])) (List.pairwise_cons.mp hs).2
    · rw [List.dropWhile_cons_of_neg (by simpa using ha)]
      refine lower_of_head hne hs ?_
      intro b hb
      simp only [List.head?_cons, Option.mem_def, Option.some.injEq] at hb
      rw [← hb]; exact not_lt.mp ha

theorem takeWhile_eq_filter_of_sorted (hne : ∀ p ∈ sp, p.s < p.e)
    (hs : sp.Pairwise (fun p q => p.e ≤ q.s)) (x : K) :
    sp.takeWhile (fun p => decide (p.s < x)) = sp.filter (fun p => decide (p.s < x)) := by
  induction sp with
  | nil => simp
  | cons a l ih =>
    have ih' := ih (fun p hp => hne p (by simp [hp])) (List.pairwise_cons.mp hs).2
    by_cases ha : a.s < x
    · rw [List.takeWhile_cons_of_pos (by simpa using ha), List.filter_cons_of_pos (by simpa using ha), ih']
    · rw [List.takeWhile_cons_of_neg (by simpa using ha), List.filter_cons_of_neg (by simpa using ha)]
      symm
      rw [List.filter_eq_nil_iff]
      intro q hq
      have h1 : a.e ≤ q.s := (List.pairwise_cons.mp hs).1 q hq
      have h2 : a.s < a.e := hne a (by simp)
      simp only [decide_eq_true_eq, not_lt]
      exact le_trans (not_lt.mp ha) (le_trans (le_of_lt h2) h1)

theorem search_spec (hne : ∀ p ∈ sp, p.s < p.e) (hs : sp.Pairwise (fun p q => p.e ≤ q.s)) (x : K) :
    (∀ i, search sp x = .inl i → ∃ p, sp[i]? = some p ∧ p.s ≤ x ∧ x < p.e) ∧
    (∀ k, search sp x = .inr k → k = (sp.takeWhile (fun p => decide (p.s < x))).length ∧
      ∀ p ∈ sp, ¬ (p.s ≤ x ∧ x < p.e)) := by
  cases hf : sp.findIdx? (fun p => p.s == x) with
  | some i =>
    have e : search sp x = .inl i := by simp [search, hf]
    rw [e]
    obtain ⟨hlt, hp, _⟩ := List.findIdx?_eq_some_iff_getElem.mp hf
    have hpx : sp[i].s = x := by simpa using hp
    refine ⟨?_, fun k hk => by cases hk⟩
    intro j hj
    cases hj
    exact ⟨sp[i], List.getElem?_eq_getElem hlt, le_of_eq hpx, hpx ▸ hne _ (List.getElem_mem hlt)⟩
  | none =>
    have hnone : ∀ p ∈ sp, p.s ≠ x := by
      intro p hp
      have := List.findIdx?_eq_none_iff.mp hf p hp
      simpa using this
    have happ : sp.takeWhile (fun p => decide (p.s < x)) ++ sp.dropWhile (fun p => decide (p.s < x)) = sp :=
      List.takeWhile_append_dropWhile
    have hdw := dropWhile_lower hne hs x
    have htw : ∀ p ∈ sp.takeWhile (fun p => decide (p.s < x)), p.s < x := by
      intro p hp
      simpa using List.mem_takeWhile_imp hp
    have hstw : (sp.takeWhile (fun p => decide (p.s < x))).Pairwise (fun p q => p.e ≤ q.s) := by
      rw [← happ] at hs
      exact (List.pairwise_append.mp hs).1
    have hdw' : ∀ p ∈ sp.dropWhile (fun p => decide (p.s < x)), ¬ (p.s ≤ x ∧ x < p.e) := by
      intro p hp ⟨h1, _⟩
      have hp' : p ∈ sp := (List.dropWhile_sublist _).subset hp
      exact hnone p hp' (le_antisymm h1 (hdw p hp))
    generalize htwdef : sp.takeWhile (fun p => decide (p.s < x)) = tw at *
    generalize sp.dropWhile (fun p => decide (p.s < x)) = dw at *
    by_cases h0 : tw = []
    · have e : search sp x = .inr 0 := by simp [search, hf, htwdef, h0]
      rw [e]
      refine ⟨fun i hi => (by cases hi), ?_⟩
      intro k hk
      cases hk
      refine ⟨by simp [h0], ?_⟩
      intro p hp
      rw [← happ, h0] at hp
      exact hdw' p (by simpa using hp)
    · have hlen : tw.length ≠ 0 := by simpa using h0
      have hget : sp[tw.length - 1]? = some (tw.getLast h0) := by
        rw [← happ, List.getElem?_append_left (by omega), ← List.getLast?_eq_getElem?,
          List.getLast?_eq_some_getLast h0]
      have hl1 : (tw.getLast h0).s < x := htw _ (List.getLast_mem h0)
      by_cases hx : x < (tw.getLast h0).e
      · have e : search sp x = .inl (tw.length - 1) := by
          simp [search, hf, htwdef, hlen, hget, hx]
        rw [e]
        refine ⟨?_, fun k hk => by cases hk⟩
        intro j hj
        cases hj
        exact ⟨_, hget, le_of_lt hl1, hx⟩
      · have e : search sp x = .inr tw.length := by
          simp [search, hf, htwdef, hlen, hget, hx]
        rw [e]
        refine ⟨fun i hi => (by cases hi), ?_⟩
        intro k hk
        cases hk
        refine ⟨rfl, ?_⟩
        intro p hp
        rw [← happ] at hp
        rcases List.mem_append.mp hp with hp | hp
        · rintro ⟨_, h2⟩
          rw [← List.dropLast_concat_getLast h0] at hp hstw
          rcases List.mem_append.mp hp with hp | hp
          · have := (List.pairwise_append.mp hstw).2.2 p hp (tw.getLast h0) (by simp)
            exact absurd (lt_of_lt_of_le h2 (le_trans this (le_of_lt hl1))) (lt_irrefl _)
          · simp only [List.mem_singleton] at hp
            subst hp
            exact hx h2
        · exact hdw' p hp

theorem startIdx_spec (hne : ∀ p ∈ sp, p.s < p.e) (hs : sp.Pairwise (fun p q => p.e ≤ q.s)) (x : K) :
    (∀ p ∈ sp.take (startIdx sp x), p.e ≤ x) ∧ (∀ p ∈ sp.drop (startIdx sp x), x < p.e) := by
  obtain ⟨hl, hr⟩ := search_spec hne hs x
  cases hsr : search sp x with
  | inl i =>
    have e : startIdx sp x = i := by simp [startIdx, hsr]
    rw [e]
    obtain ⟨p, hpi, h1, h2⟩ := hl i hsr
    have hs' := hs
    rw [← List.take_append_drop i sp] at hs'
    obtain ⟨_, hsd, hcross⟩ := List.pairwise_append.mp hs'
    have hhead : (sp.drop i).head? = some p := by rw [List.head?_drop]; exact hpi
    cases hd : sp.drop i with
    | nil => rw [hd] at hhead; cases hhead
    | cons p' rest =>
      rw [hd] at hhead hsd hcross
      simp only [List.head?_cons, Option.some.injEq] at hhead
      subst hhead
      refine ⟨fun q hq => le_trans (hcross q hq p' (by simp)) h1, ?_⟩
      intro q hq
      rcases List.mem_cons.mp hq with rfl | hq
      · exact h2
      · have hq' : q ∈ sp := by
          have : q ∈ sp.drop i := by rw [hd]; simp [hq]
          exact List.mem_of_mem_drop this
        exact lt_of_lt_of_le h2 (le_trans ((List.pairwise_cons.mp hsd).1 q hq) (le_of_lt (hne q hq')))
  | inr k =>
    have e : startIdx sp x = k := by simp [startIdx, hsr]
    rw [e]
    obtain ⟨hk, hno⟩ := hr k hsr
    have happ : sp.takeWhile (fun p => decide (p.s < x)) ++ sp.dropWhile (fun p => decide (p.s < x)) = sp :=
      List.takeWhile_append_dropWhile
    have hdw := dropWhile_lower hne hs x
    have ht : sp.take k = sp.takeWhile (fun p => decide (p.s < x)) := by
      conv_lhs => rw [← happ]
      exact List.take_left' hk.symm
    have hd : sp.drop k = sp.dropWhile (fun p => decide (p.s < x)) := by
      conv_lhs => rw [← happ]
      exact List.drop_left' hk.symm
    rw [ht, hd]
    constructor
    · intro p hp
      have h1 : p.s < x := by simpa using List.mem_takeWhile_imp hp
      have hp' : p ∈ sp := (List.takeWhile_sublist _).subset hp
      exact not_lt.mp (fun h2 => hno p hp' ⟨le_of_lt h1, h2⟩)
    · intro p hp
      have hp' : p ∈ sp := (List.dropWhile_sublist _).subset hp
      exact lt_of_le_of_lt (hdw p hp) (hne p hp')

theorem regionsInRange_eq (hne : ∀ p ∈ sp, p.s < p.e) (hs : sp.Pairwise (fun p q => p.e ≤ q.s))
    (rs re : K) :
    regionsInRange sp rs re = sp.filter (fun p => decide (rs < p.e) && decide (p.s < re)) := by
  obtain ⟨h1, h2⟩ := startIdx_spec hne hs rs
  unfold regionsInRange
  conv_rhs => rw [← List.take_append_drop (startIdx sp rs) sp, List.filter_append]
  have e1 : (sp.take (startIdx sp rs)).filter (fun p => decide (rs < p.e) && decide (p.s < re)) = [] := by
    rw [List.filter_eq_nil_iff]
    intro p hp
    have := h1 p hp
    simp [not_lt.mpr this]
  have e2 : (sp.drop (startIdx sp rs)).filter (fun p => decide (rs < p.e) && decide (p.s < re)) =
      (sp.drop (startIdx sp rs)).filter (fun p => decide (p.s < re)) := by
    apply List.filter_congr
    intro p hp
    simp [h2 p hp]
  rw [e1, e2, List.nil_append]
  exact takeWhile_eq_filter_of_sorted (fun p hp => hne p (List.mem_of_mem_drop hp))
    (hs.sublist (List.drop_sublist _ _)) re

theorem dataAtPoint_cases (hne : ∀ p ∈ sp, p.s < p.e) (hs : sp.Pairwise (fun p q => p.e ≤ q.s)) (x : K) :
    (∃ p ∈ sp, p.s ≤ x ∧ x < p.e ∧ dataAtPoint sp x = p.hs) ∨
    ((∀ p ∈ sp, ¬ (p.s ≤ x ∧ x < p.e)) ∧ dataAtPoint sp x = []) := by
  obtain ⟨hl, hr⟩ := search_spec hne hs x
  cases hsr : search sp x with
  | inl i =>
    obtain ⟨p, hpi, h1, h2⟩ := hl i hsr
    exact Or.inl ⟨p, List.mem_of_getElem? hpi, h1, h2, by simp [dataAtPoint, hsr, hpi]⟩
  | inr k =>
    exact Or.inr ⟨(hr k hsr).2, by simp [dataAtPoint, hsr]⟩

end Query

theorem dedup_spec : ∀ (l seen : List Nat),
    (∀ i, i ∈ dedup seen l ↔ i ∈ l ∧ i ∉ seen) ∧ (dedup seen l).Nodup
  | [], seen => by simp [dedup]
  | h :: t, seen => by
    by_cases hc : h ∈ seen
    · have e : dedup seen (h :: t) = dedup seen t := by simp [dedup, hc]
      rw [e]
      obtain ⟨ih1, ih2⟩ := dedup_spec t seen
      refine ⟨?_, ih2⟩
      intro i
      rw [ih1 i]
      constructor
      · rintro ⟨h1, h2⟩; exact ⟨by simp [h1], h2⟩
      · rintro ⟨h1, h2⟩
        rcases List.mem_cons.mp h1 with rfl | h1
        · exact absurd hc h2
        · exact ⟨h1, h2⟩
    · have e : dedup seen (h :: t) = h :: dedup (h :: seen) t := by simp [dedup, hc]
      rw [e]
      obtain ⟨ih1, ih2⟩ := dedup_spec t (h :: seen)
      refine ⟨?_, List.nodup_cons.mpr ⟨?_, ih2⟩⟩
      · intro i
        rw [List.mem_cons, ih1 i]
        constructor
        · rintro (rfl | ⟨h1, h2⟩)
          · exact ⟨by simp, hc⟩
          · exact ⟨by simp [h1], fun h3 => h2 (by simp [h3])⟩
        · rintro ⟨h1, h2⟩
          by_cases hi : i = h
          · exact Or.inl hi
          · rcases List.mem_cons.mp h1 with rfl | h1
            · exact absurd rfl hi
            · exact Or.inr ⟨h1, by simp [hi, h2]⟩
      · intro hm
        exact ((ih1 h).mp hm).2 (by simp)

end C18Space
