/-
Helper lemmas for C02, part 3: the two inductions over the recursion of `curve_intersects_curve_clip_inner`
(loop fuel inside recursion depth): where a reported pair comes from (`Origin`), and what can happen to a true
intersection (`Covered` or `LostCall`).
-/
import FloVerif.Lemmas.CurveClip

set_option linter.unusedSectionVars false
set_option linter.unusedVariables false
namespace CurveClipLemmas
open Prelude Gen FatLineLemmas ClipExact Model.CurveClip

variable {K : Type} [Field K] [LinearOrder K] [IsStrictOrderedRing K] [Inhabited K] [FSqrt K] [FConsts K]

local instance : FAbs K := ⟨fun a => |a|⟩

variable (cx : Ctx K) (acc acc2 : K)

/-! # the clip step in terms of sections -/

/-- the end points of the section `S` of the first curve are within 1e-7 of each other (`FatLine::from_curve` then takes
    its coincident-end-points branch, for which C13 has no exact containment theorem) -/
def nearEnds1 (S : SectionT K) : Bool :=
  is_near_to (section_start_point cx.a1 cx.a2 cx.a3 cx.a4 S) (section_end_point cx.a1 cx.a2 cx.a3 cx.a4 S) (0.0000001 : K)
/-- the same for a section of the second curve -/
def nearEnds2 (S : SectionT K) : Bool :=
  is_near_to (section_start_point cx.b1 cx.b2 cx.b3 cx.b4 S) (section_end_point cx.b1 cx.b2 cx.b3 cx.b4 S) (0.0000001 : K)

/-- clipping the second curve's section against the first curve's section keeps a true intersection -/
theorem clipBA_keeps (hM : 1 ≤ (fmaxval : K)) (hm : (fminval : K) ≤ 0) (c1 c2 : SectionT K) (h1 : Sub01 c1) (h2 : Sub01 c2)
    (s1 s2 : K) (hmeet : ptA cx s1 = ptB cx s2) (i1 : InSec c1 s1) (i2 : InSec c2 s2) (hfar : nearEnds1 cx c1 = false) :
    clipBA cx c2 c1 = ClipResult.SecondCurveIsLinear ∨
    ∃ r, clipBA cx c2 c1 = ClipResult.Some r ∧ InSec (section_subsection c2 r.t0 r.t1) s2 := by
  obtain ⟨u1, a0, a1, e1⟩ := i1
  obtain ⟨u2, b0, b1, e2⟩ := i2
  have hm' : de_casteljau4 u2 (section_start_point cx.b1 cx.b2 cx.b3 cx.b4 c2) (section_control_points cx.b1 cx.b2 cx.b3 cx.b4 c2).t0
      (section_control_points cx.b1 cx.b2 cx.b3 cx.b4 c2).t1 (section_end_point cx.b1 cx.b2 cx.b3 cx.b4 c2) =
      de_casteljau4 u1 (section_start_point cx.a1 cx.a2 cx.a3 cx.a4 c1) (section_control_points cx.a1 cx.a2 cx.a3 cx.a4 c1).t0
      (section_control_points cx.a1 cx.a2 cx.a3 cx.a4 c1).t1 (section_end_point cx.a1 cx.a2 cx.a3 cx.a4 c1) := by
    rw [sec_point' _ _ _ _ c2 h2 u2, sec_point' _ _ _ _ c1 h1 u1, e1, e2]
    exact hmeet.symm
  rcases clip_keeps_exact hM hm _ _ _ _ _ _ _ _ hfar u2 u1 b0 b1 a0 a1 hm' with h | ⟨r, hr, r0, r1⟩
  · exact Or.inl h
  · refine Or.inr ⟨r, hr, ?_⟩
    rw [← e2]
    exact inSec_subsection c2 r.t0 r.t1 u2 r0 r1

/-- clipping the first curve's section against the second curve's section keeps a true intersection -/
theorem clipAB_keeps (hM : 1 ≤ (fmaxval : K)) (hm : (fminval : K) ≤ 0) (c1 c2 : SectionT K) (h1 : Sub01 c1) (h2 : Sub01 c2)
    (s1 s2 : K) (hmeet : ptA cx s1 = ptB cx s2) (i1 : InSec c1 s1) (i2 : InSec c2 s2) (hfar : nearEnds2 cx c2 = false) :
    clipAB cx c1 c2 = ClipResult.SecondCurveIsLinear ∨
    ∃ r, clipAB cx c1 c2 = ClipResult.Some r ∧ InSec (section_subsection c1 r.t0 r.t1) s1 := by
  obtain ⟨u1, a0, a1, e1⟩ := i1
  obtain ⟨u2, b0, b1, e2⟩ := i2
  have hm' : de_casteljau4 u1 (section_start_point cx.a1 cx.a2 cx.a3 cx.a4 c1) (section_control_points cx.a1 cx.a2 cx.a3 cx.a4 c1).t0
      (section_control_points cx.a1 cx.a2 cx.a3 cx.a4 c1).t1 (section_end_point cx.a1 cx.a2 cx.a3 cx.a4 c1) =
      de_casteljau4 u2 (section_start_point cx.b1 cx.b2 cx.b3 cx.b4 c2) (section_control_points cx.b1 cx.b2 cx.b3 cx.b4 c2).t0
      (section_control_points cx.b1 cx.b2 cx.b3 cx.b4 c2).t1 (section_end_point cx.b1 cx.b2 cx.b3 cx.b4 c2) := by
    rw [sec_point' _ _ _ _ c2 h2 u2, sec_point' _ _ _ _ c1 h1 u1, e1, e2]
    exact hmeet
  rcases clip_keeps_exact hM hm _ _ _ _ _ _ _ _ hfar u1 u2 a0 a1 b0 b1 hm' with h | ⟨r, hr, r0, r1⟩
  · exact Or.inl h
  · refine Or.inr ⟨r, hr, ?_⟩
    rw [← e1]
    exact inSec_subsection c1 r.t0 r.t1 u1 r0 r1

/-- a clipped section of [0,1] is a section of [0,1] -/
theorem clipBA_sub01 (hM : 1 ≤ (fmaxval : K)) (hm : (fminval : K) ≤ 0) (c1 c2 : SectionT K) (h2 : Sub01 c2) (r : T2 K K)
    (hr : clipBA cx c2 c1 = ClipResult.Some r) : Sub01 (section_subsection c2 r.t0 r.t1) := by
  obtain ⟨a, b, c⟩ := clip_range hM hm _ _ _ _ _ _ _ _ r hr
  exact sub01_subsection c2 h2 _ _ a b c

theorem clipAB_sub01 (hM : 1 ≤ (fmaxval : K)) (hm : (fminval : K) ≤ 0) (c1 c2 : SectionT K) (h1 : Sub01 c1) (r : T2 K K)
    (hr : clipAB cx c1 c2 = ClipResult.Some r) : Sub01 (section_subsection c1 r.t0 r.t1) := by
  obtain ⟨a, b, c⟩ := clip_range hM hm _ _ _ _ _ _ _ _ r hr
  exact sub01_subsection c1 h1 _ _ a b c

/-! # Part 5: where a reported pair comes from -/

/-- ORIGIN of a reported pair: (1) the loop's own convergence exit - the mid-parameters of two sections of [0,1] whose
    hull lengths passed the test and whose boxes overlap; (2) the overlap shortcut, taken once for the two whole curves; (3), (4) the linear fall-back, taken
    because `clip` found the fat line of one section flat. -/
inductive Origin : T2 K K → Prop
  | converged (F1 F2 : SectionT K) : Sub01 F1 → Sub01 F2 → len1 cx F1 ≤ acc2 → len2 cx F2 ≤ acc2 →
      bounds_overlaps (box1 cx F1) (box2 cx F2) = true → Origin (T2.mk (midT F1) (midT F2))
  | overlap (o : T2 (T2 K K) (T2 K K)) (h : T2 K K) :
      cx.ovl (section_new (0.0 : K) (1.0 : K)) (section_new (0.0 : K) (1.0 : K)) = some o →
      h ∈ overlapHits (section_new (0.0 : K) (1.0 : K)) (section_new (0.0 : K) (1.0 : K)) o → Origin h
  | linear12 (c1 c2 : SectionT K) (g : T2 K K) : Sub01 c1 → Sub01 c2 → clipBA cx c2 c1 = ClipResult.SecondCurveIsLinear →
      g ∈ cx.lin12 c1 c2 acc → Origin (T2.mk (section_t_for_t c1 g.t0) (section_t_for_t c2 g.t1))
  | linear21 (c1 c2 : SectionT K) (g : T2 K K) : Sub01 c1 → Sub01 c2 → clipAB cx c1 c2 = ClipResult.SecondCurveIsLinear →
      g ∈ cx.lin21 c2 c1 acc → Origin (T2.mk (section_t_for_t c1 g.t1) (section_t_for_t c2 g.t0))

variable (rec_ : SectionT K → SectionT K → K → K → Hits K)

/-- loop invariant of the origin induction -/
def SubInv (st : St K) : Prop := Sub01 st.t1 ∧ Sub01 st.t0 ∧ st.t2 = len1 cx st.t1 ∧ st.t3 = len2 cx st.t0

theorem phase2_sub (hM : 1 ≤ (fmaxval : K)) (hm : (fminval : K) ≤ 0) (st : St K) (hi : SubInv cx st) (c2' : SectionT K) (l2 : K)
    (h : Phase2 cx acc2 st c2' l2) : Sub01 c2' ∧ l2 = len2 cx c2' := by
  rcases h with ⟨_, rfl, rfl⟩ | ⟨_, r, hr, rfl, rfl⟩
  · exact ⟨hi.2.1, hi.2.2.2⟩
  · exact ⟨clipBA_sub01 cx hM hm _ _ hi.2.1 r hr, rfl⟩

theorem phase1_sub (hM : 1 ≤ (fmaxval : K)) (hm : (fminval : K) ≤ 0) (st : St K) (hi : SubInv cx st) (c2' c1' : SectionT K) (l1 : K)
    (h : Phase1 cx acc2 st c2' c1' l1) : Sub01 c1' ∧ l1 = len1 cx c1' := by
  rcases h with ⟨_, rfl, rfl⟩ | ⟨_, r, hr, rfl, rfl⟩
  · exact ⟨hi.1, hi.2.2.1⟩
  · exact ⟨clipAB_sub01 cx hM hm _ _ hi.1 r hr, rfl⟩

theorem convB_iff (l1 l2 : K) : convB acc2 l1 l2 = true ↔ l1 ≤ acc2 ∧ l2 ≤ acc2 := by
  simp only [convB, Bool.and_eq_true, decide_eq_true_eq]

/-- origin, loop level: every pair the loop returns has an origin, if the pairs of the recursive calls have -/
theorem loop_origin (hM : 1 ≤ (fmaxval : K)) (hm : (fminval : K) ≤ 0)
    (hrec : ∀ k1 k2, Sub01 k1 → Sub01 k2 → ∀ h ∈ rec_ k1 k2 acc acc2, Origin cx acc acc2 h) :
    ∀ (n : Nat) (st : St K), SubInv cx st → ∀ r, loopRun rec_ cx acc acc2 n st = LoopExit.ret r →
      ∀ h ∈ r, Origin cx acc acc2 h := by
  intro n
  induction n with
  | zero => intro st _ r hr; rw [loopRun_zero] at hr; exact absurd hr (by simp)
  | succ n ih =>
    intro st hi r hr h hh
    rw [loopRun_succ] at hr
    have hso := step_out rec_ cx acc acc2 st
    generalize hstep : step rec_ cx acc acc2 st = e at hso hr
    cases hso with
    | none2 _ _ => simp only [LoopExit.ret.injEq] at hr; subst hr; exact absurd hh (by simp)
    | lin12 hc hl =>
      simp only [LoopExit.ret.injEq] at hr; subst hr
      obtain ⟨g, hg, rfl⟩ := List.mem_map.1 hh
      exact Origin.linear12 st.t1 st.t0 g hi.1 hi.2.1 hl hg
    | none1 _ _ _ _ _ => simp only [LoopExit.ret.injEq] at hr; subst hr; exact absurd hh (by simp)
    | lin21 c2' l2 h2 hc hl =>
      simp only [LoopExit.ret.injEq] at hr; subst hr
      obtain ⟨g, hg, rfl⟩ := List.mem_map.1 hh
      exact Origin.linear21 st.t1 c2' g hi.1 (phase2_sub cx acc2 hM hm st hi c2' l2 h2).1 hl hg
    | tail c2' c1' l2 l1 h2 h1 =>
      obtain ⟨s2, e2⟩ := phase2_sub cx acc2 hM hm st hi c2' l2 h2
      obtain ⟨s1, e1⟩ := phase1_sub cx acc2 hM hm st hi c2' c1' l1 h1
      have hto := tail_out rec_ cx acc acc2 c1' c2' l1 l2 st.t2 st.t3
      generalize htail : tail rec_ cx acc acc2 c1' c2' l1 l2 st.t2 st.t3 = e' at hto hr
      cases hto with
      | hit hconv hov =>
        simp only [LoopExit.ret.injEq] at hr; subst hr
        simp only [List.mem_singleton] at hh; subst hh
        obtain ⟨a, b⟩ := (convB_iff acc2 l1 l2).1 hconv
        exact Origin.converged c1' c2' s1 s2 (by rw [← e1]; exact a) (by rw [← e2]; exact b) hov
      | reject _ _ => simp only [LoopExit.ret.injEq] at hr; subst hr; exact absurd hh (by simp)
      | split1 _ _ _ =>
        simp only [LoopExit.ret.injEq] at hr; subst hr
        obtain ⟨sl, sr⟩ := sub01_halves c1' s1
        rcases join_subset _ _ _ _ _ _ _ _ h hh with hl | hr'
        · exact hrec _ _ sl s2 h hl
        · exact hrec _ _ sr s2 h hr'
      | split2 _ _ _ =>
        simp only [LoopExit.ret.injEq] at hr; subst hr
        obtain ⟨sl, sr⟩ := sub01_halves c2' s2
        rcases join_subset _ _ _ _ _ _ _ _ h hh with hl | hr'
        · exact hrec _ _ s1 sl h hl
        · exact hrec _ _ s1 sr h hr'
      | next _ _ =>
        simp only at hr
        exact ih _ ⟨s1, s2, e1, e2⟩ r hr h hh

/-- origin, call level -/
theorem inner_origin (hM : 1 ≤ (fmaxval : K)) (hm : (fminval : K) ≤ 0)
    (hrec : ∀ k1 k2, Sub01 k1 → Sub01 k2 → ∀ h ∈ rec_ k1 k2 acc acc2, Origin cx acc acc2 h)
    (n : Nat) (c1 c2 : SectionT K) (h1 : Sub01 c1) (h2 : Sub01 c2) :
    ∀ h ∈ innerSpec rec_ cx acc acc2 n c1 c2, Origin cx acc acc2 h := by
  intro h hh
  unfold innerSpec at hh
  split_ifs at hh with z1 z2
  · exact absurd hh (by simp)
  · exact absurd hh (by simp)
  · cases hl : loopRun rec_ cx acc acc2 n (T4.mk c2 c1 (len1 cx c1) (len2 cx c2)) with
    | brk b => rw [hl] at hh; exact absurd hh (by simp)
    | ret r =>
      rw [hl] at hh
      exact loop_origin cx acc acc2 rec_ hM hm hrec n _ ⟨h1, h2, rfl, rfl⟩ r hl h hh

/-- ORIGIN THEOREM for the model with recursion depth `d` -/
theorem clipInner_origin (hM : 1 ≤ (fmaxval : K)) (hm : (fminval : K) ≤ 0) (d : Nat) :
    ∀ c1 c2, Sub01 c1 → Sub01 c2 → ∀ h ∈ clipInner cx d c1 c2 acc acc2, Origin cx acc acc2 h := by
  induction d with
  | zero => intro c1 c2 _ _ h hh; simp only [clipInner] at hh; exact absurd hh (by simp)
  | succ d ih =>
    intro c1 c2 h1 h2 h hh
    simp only [clipInner] at hh
    rw [inner_eq] at hh
    exact inner_origin cx acc acc2 _ hM hm ih genFuel c1 c2 h1 h2 h hh

/-! # Part 6: what can happen to a true intersection -/

variable (s1 s2 : K)

/-- the result COVERS the intersection `(s1, s2)`: it contains the pair of mid-parameters of two sections of [0,1] that
    contain `s1` resp. `s2` and whose hull lengths passed the convergence test -/
def Covered (res : Hits K) : Prop :=
  ∃ F1 F2 : SectionT K, T2.mk (midT F1) (midT F2) ∈ res ∧ Sub01 F1 ∧ Sub01 F2 ∧ InSec F1 s1 ∧ InSec F2 s2 ∧
    len1 cx F1 ≤ acc2 ∧ len2 cx F2 ≤ acc2

/-- the children of a split -/
def IsChild (c1' c2' : SectionT K) (l1 l2 last1 last2 : K) (k1 k2 : SectionT K) : Prop :=
  (l1 / last1 > l2 / last2 ∧ k2 = c2' ∧
    (k1 = section_subsection c1' (0.0 : K) (0.5 : K) ∨ k1 = section_subsection c1' (0.5 : K) (1.0 : K))) ∨
  (¬ l1 / last1 > l2 / last2 ∧ k1 = c1' ∧
    (k2 = section_subsection c2' (0.0 : K) (0.5 : K) ∨ k2 = section_subsection c2' (0.5 : K) (1.0 : K)))

/-- THE NAMED WAYS THE LOOP CAN LOSE THE INTERSECTION `(s1, s2)`, following the actual execution from the loop state `st`
    with `n` iterations of fuel.  `LC k1 k2` says that the recursive call on `(k1, k2)` may lose it. -/
inductive LostLoop (LC : SectionT K → SectionT K → Prop) : Nat → St K → Prop
  /-- the loop does not terminate within the fuel (in Rust: does not terminate) -/
  | loopFuel (st : St K) : LostLoop LC 0 st
  /-- the first curve's section is flat: the answer comes from `intersections_with_linear_section(&curve1, &curve2)` -/
  | linear12 (n : Nat) (st : St K) : st.t3 > acc2 → clipBA cx st.t0 st.t1 = ClipResult.SecondCurveIsLinear →
      LostLoop LC (n + 1) st
  /-- the second curve's section is flat: the answer comes from `intersections_with_linear_section(&curve2, &curve1)` -/
  | linear21 (n : Nat) (st : St K) (c2' : SectionT K) (l2 : K) : Phase2 cx acc2 st c2' l2 → st.t2 > acc2 →
      clipAB cx st.t1 c2' = ClipResult.SecondCurveIsLinear → LostLoop LC (n + 1) st
  /-- the second curve is clipped against a section of the first whose end points are within 1e-7 of each other -/
  | nearEnds1 (n : Nat) (st : St K) : st.t3 > acc2 → nearEnds1 cx st.t1 = true → LostLoop LC (n + 1) st
  /-- the first curve is clipped against a section of the second whose end points are within 1e-7 of each other -/
  | nearEnds2 (n : Nat) (st : St K) (c2' : SectionT K) (l2 : K) : Phase2 cx acc2 st c2' l2 → st.t2 > acc2 →
      nearEnds2 cx c2' = true → LostLoop LC (n + 1) st
  /-- the iteration continues with the clipped sections, and the intersection is lost later -/
  | next (n : Nat) (st : St K) (c2' c1' : SectionT K) (l2 l1 : K) : Phase2 cx acc2 st c2' l2 → Phase1 cx acc2 st c2' c1' l1 →
      convB acc2 l1 l2 = false → stuckB l1 l2 st.t2 st.t3 = false → LostLoop LC n (T4.mk c2' c1' l1 l2) →
      LostLoop LC (n + 1) st
  /-- a section is split, and the recursive call on the half that contains the intersection loses it -/
  | descend (n : Nat) (st : St K) (c2' c1' : SectionT K) (l2 l1 : K) (k1 k2 : SectionT K) : Phase2 cx acc2 st c2' l2 →
      Phase1 cx acc2 st c2' c1' l1 → convB acc2 l1 l2 = false → stuckB l1 l2 st.t2 st.t3 = true →
      IsChild c1' c2' l1 l2 st.t2 st.t3 k1 k2 → InSec k1 s1 → InSec k2 s2 → LC k1 k2 → LostLoop LC (n + 1) st
  /-- a section is split, the call on the second half covers the intersection, and `join_subsections` drops that hit -/
  | joinDrop (n : Nat) (st : St K) (c2' c1' : SectionT K) (l2 l1 : K) (left right : Hits K) : Phase2 cx acc2 st c2' l2 →
      Phase1 cx acc2 st c2' c1' l1 → convB acc2 l1 l2 = false → stuckB l1 l2 st.t2 st.t3 = true →
      step rec_ cx acc acc2 st = Sum.inr (LoopExit.ret (join_subsections cx.a1 cx.a2 cx.a3 cx.a4 c1' left right acc2)) →
      Covered cx acc2 s1 s2 right → ¬ Covered cx acc2 s1 s2 (join_subsections cx.a1 cx.a2 cx.a3 cx.a4 c1' left right acc2) →
      LostLoop LC (n + 1) st

/-- loop invariant of the completeness induction: both sections are sections of [0,1] that contain the intersection,
    and the two remembered lengths are the hull lengths of the current sections -/
def Inv (st : St K) : Prop :=
  Sub01 st.t1 ∧ Sub01 st.t0 ∧ InSec st.t1 s1 ∧ InSec st.t0 s2 ∧ st.t2 = len1 cx st.t1 ∧ st.t3 = len2 cx st.t0

theorem Inv.sub {st : St K} (h : Inv cx s1 s2 st) : SubInv cx st := ⟨h.1, h.2.1, h.2.2.2.2.1, h.2.2.2.2.2⟩

/-- COMPLETENESS OF THE SEARCH STRUCTURE, loop level: from a state whose two sections contain the intersection the loop
    returns a result that covers it, or loses it in one of the named ways -/
theorem loop_complete (hM : 1 ≤ (fmaxval : K)) (hm : (fminval : K) ≤ 0) (hmeet : ptA cx s1 = ptB cx s2)
    (LC : SectionT K → SectionT K → Prop)
    (hrec : ∀ k1 k2, Sub01 k1 → Sub01 k2 → InSec k1 s1 → InSec k2 s2 →
      Covered cx acc2 s1 s2 (rec_ k1 k2 acc acc2) ∨ LC k1 k2) :
    ∀ (n : Nat) (st : St K), Inv cx s1 s2 st →
      (∃ r, loopRun rec_ cx acc acc2 n st = LoopExit.ret r ∧ Covered cx acc2 s1 s2 r) ∨
      LostLoop cx acc acc2 rec_ s1 s2 LC n st := by
  intro n
  induction n with
  | zero => intro st _; exact Or.inr (LostLoop.loopFuel st)
  | succ n ih =>
    intro st hi
    obtain ⟨sb1, sb2, in1, in2, el1, el2⟩ := hi
    have hsub : SubInv cx st := ⟨sb1, sb2, el1, el2⟩
    rw [loopRun_succ]
    have hso := step_out rec_ cx acc acc2 st
    generalize hstep : step rec_ cx acc acc2 st = e at hso
    -- the first clip phase keeps the intersection
    have keep2 : ∀ c2' l2, Phase2 cx acc2 st c2' l2 → nearEnds1 cx st.t1 = false ∨ ¬ st.t3 > acc2 → InSec c2' s2 := by
      intro c2' l2 h2 hn
      rcases h2 with ⟨_, rfl, rfl⟩ | ⟨hc, r, hr, rfl, rfl⟩
      · exact in2
      · rcases hn with hn | hn
        · rcases clipBA_keeps cx hM hm st.t1 st.t0 sb1 sb2 s1 s2 hmeet in1 in2 hn with h | ⟨r', hr', hin⟩
          · rw [h] at hr; exact absurd hr (by simp)
          · rw [hr'] at hr; cases hr; exact hin
        · exact absurd hc hn
    cases hso with
    | none2 hc hn =>
      cases hne : nearEnds1 cx st.t1 with
      | true => exact Or.inr (LostLoop.nearEnds1 n st hc hne)
      | false =>
        exfalso
        rcases clipBA_keeps cx hM hm st.t1 st.t0 sb1 sb2 s1 s2 hmeet in1 in2 hne with h | ⟨r', hr', _⟩
        · rw [h] at hn; exact absurd hn (by simp)
        · rw [hr'] at hn; exact absurd hn (by simp)
    | lin12 hc hl => exact Or.inr (LostLoop.linear12 n st hc hl)
    | none1 c2' l2 h2 hc hn =>
      by_cases hgt : st.t3 > acc2
      · cases hne1 : nearEnds1 cx st.t1 with
        | true => exact Or.inr (LostLoop.nearEnds1 n st hgt hne1)
        | false =>
          have in2' := keep2 c2' l2 h2 (Or.inl hne1)
          obtain ⟨sb2', _⟩ := phase2_sub cx acc2 hM hm st hsub c2' l2 h2
          cases hne2 : nearEnds2 cx c2' with
          | true => exact Or.inr (LostLoop.nearEnds2 n st c2' l2 h2 hc hne2)
          | false =>
            exfalso
            rcases clipAB_keeps cx hM hm st.t1 c2' sb1 sb2' s1 s2 hmeet in1 in2' hne2 with h | ⟨r', hr', _⟩
            · rw [h] at hn; exact absurd hn (by simp)
            · rw [hr'] at hn; exact absurd hn (by simp)
      · have in2' := keep2 c2' l2 h2 (Or.inr hgt)
        obtain ⟨sb2', _⟩ := phase2_sub cx acc2 hM hm st hsub c2' l2 h2
        cases hne2 : nearEnds2 cx c2' with
        | true => exact Or.inr (LostLoop.nearEnds2 n st c2' l2 h2 hc hne2)
        | false =>
          exfalso
          rcases clipAB_keeps cx hM hm st.t1 c2' sb1 sb2' s1 s2 hmeet in1 in2' hne2 with h | ⟨r', hr', _⟩
          · rw [h] at hn; exact absurd hn (by simp)
          · rw [hr'] at hn; exact absurd hn (by simp)
    | lin21 c2' l2 h2 hc hl => exact Or.inr (LostLoop.linear21 n st c2' l2 h2 hc hl)
    | tail c2' c1' l2 l1 h2 h1 =>
      obtain ⟨sb2', e2⟩ := phase2_sub cx acc2 hM hm st hsub c2' l2 h2
      obtain ⟨sb1', e1⟩ := phase1_sub cx acc2 hM hm st hsub c2' c1' l1 h1
      -- unless a clip was made against a section with coincident end points, both new sections contain the intersection
      by_cases hbad1 : st.t3 > acc2 ∧ nearEnds1 cx st.t1 = true
      · exact Or.inr (LostLoop.nearEnds1 n st hbad1.1 hbad1.2)
      have in2' : InSec c2' s2 := by
        refine keep2 c2' l2 h2 ?_
        by_cases hgt : st.t3 > acc2
        · left
          cases hne : nearEnds1 cx st.t1 with
          | true => exact absurd ⟨hgt, hne⟩ hbad1
          | false => rfl
        · exact Or.inr hgt
      by_cases hbad2 : st.t2 > acc2 ∧ nearEnds2 cx c2' = true
      · exact Or.inr (LostLoop.nearEnds2 n st c2' l2 h2 hbad2.1 hbad2.2)
      have in1' : InSec c1' s1 := by
        rcases h1 with ⟨_, rfl, rfl⟩ | ⟨hc, r, hr, rfl, rfl⟩
        · exact in1
        · have hne : nearEnds2 cx c2' = false := by
            cases hne : nearEnds2 cx c2' with
            | true => exact absurd ⟨hc, hne⟩ hbad2
            | false => rfl
          rcases clipAB_keeps cx hM hm st.t1 c2' sb1 sb2' s1 s2 hmeet in1 in2' hne with h | ⟨r', hr', hin⟩
          · rw [h] at hr; exact absurd hr (by simp)
          · rw [hr'] at hr; cases hr; exact hin
      have hto := tail_out rec_ cx acc acc2 c1' c2' l1 l2 st.t2 st.t3
      generalize htail : tail rec_ cx acc acc2 c1' c2' l1 l2 st.t2 st.t3 = e' at hto
      cases hto with
      | hit hconv hov =>
        left
        obtain ⟨a, b⟩ := (convB_iff acc2 l1 l2).1 hconv
        exact ⟨_, rfl, c1', c2', by simp, sb1', sb2', in1', in2', by rw [← e1]; exact a, by rw [← e2]; exact b⟩
      | reject hconv hov =>
        -- impossible: the common point lies in both boxes
        exfalso
        have hb1 := sec_point_in_box cx.a1 cx.a2 cx.a3 cx.a4 c1' sb1' s1 in1'
        have hb2 := sec_point_in_box cx.b1 cx.b2 cx.b3 cx.b4 c2' sb2' s2 in2'
        have hq : ptOf cx.a1 cx.a2 cx.a3 cx.a4 s1 = ptOf cx.b1 cx.b2 cx.b3 cx.b4 s2 := hmeet
        rw [hq] at hb1
        have := overlaps_of_common _ _ _ hb1 hb2
        simp only [box1, box2] at hov
        rw [this] at hov
        exact absurd hov (by simp)
      | split1 hconv hst hgt =>
        obtain ⟨sl, sr⟩ := sub01_halves c1' sb1'
        have hstep' : step rec_ cx acc acc2 st = Sum.inr (LoopExit.ret (join_subsections cx.a1 cx.a2 cx.a3 cx.a4 c1'
            (rec_ (section_subsection c1' (0.0 : K) (0.5 : K)) c2' acc acc2)
            (rec_ (section_subsection c1' (0.5 : K) (1.0 : K)) c2' acc acc2) acc2)) := by
          rw [hstep, htail]; rfl
        rcases inSec_halves c1' s1 in1' with hl | hr
        · rcases hrec _ _ sl sb2' hl in2' with ⟨F1, F2, hmem, rest⟩ | hlc
          · left
            exact ⟨_, rfl, F1, F2, join_mem_left _ _ _ _ _ _ _ _ _ hmem, rest⟩
          · exact Or.inr (LostLoop.descend n st c2' c1' l2 l1 _ _ h2 h1 hconv hst (Or.inl ⟨hgt, rfl, Or.inl rfl⟩) hl in2' hlc)
        · rcases hrec _ _ sr sb2' hr in2' with hcov | hlc
          · by_cases hj : Covered cx acc2 s1 s2 (split1 rec_ cx acc acc2 c1' c2')
            · exact Or.inl ⟨_, rfl, hj⟩
            · exact Or.inr (LostLoop.joinDrop n st c2' c1' l2 l1 _ _ h2 h1 hconv hst hstep' hcov hj)
          · exact Or.inr (LostLoop.descend n st c2' c1' l2 l1 _ _ h2 h1 hconv hst (Or.inl ⟨hgt, rfl, Or.inr rfl⟩) hr in2' hlc)
      | split2 hconv hst hgt =>
        obtain ⟨sl, sr⟩ := sub01_halves c2' sb2'
        have hstep' : step rec_ cx acc acc2 st = Sum.inr (LoopExit.ret (join_subsections cx.a1 cx.a2 cx.a3 cx.a4 c1'
            (rec_ c1' (section_subsection c2' (0.0 : K) (0.5 : K)) acc acc2)
            (rec_ c1' (section_subsection c2' (0.5 : K) (1.0 : K)) acc acc2) acc2)) := by
          rw [hstep, htail]; rfl
        rcases inSec_halves c2' s2 in2' with hl | hr
        · rcases hrec _ _ sb1' sl in1' hl with ⟨F1, F2, hmem, rest⟩ | hlc
          · left
            exact ⟨_, rfl, F1, F2, join_mem_left _ _ _ _ _ _ _ _ _ hmem, rest⟩
          · exact Or.inr (LostLoop.descend n st c2' c1' l2 l1 _ _ h2 h1 hconv hst (Or.inr ⟨hgt, rfl, Or.inl rfl⟩) in1' hl hlc)
        · rcases hrec _ _ sb1' sr in1' hr with hcov | hlc
          · by_cases hj : Covered cx acc2 s1 s2 (split2 rec_ cx acc acc2 c1' c2')
            · exact Or.inl ⟨_, rfl, hj⟩
            · exact Or.inr (LostLoop.joinDrop n st c2' c1' l2 l1 _ _ h2 h1 hconv hst hstep' hcov hj)
          · exact Or.inr (LostLoop.descend n st c2' c1' l2 l1 _ _ h2 h1 hconv hst (Or.inr ⟨hgt, rfl, Or.inr rfl⟩) in1' hr hlc)
      | next hconv hst =>
        simp only
        rcases ih (T4.mk c2' c1' l1 l2) ⟨sb1', sb2', in1', in2', e1, e2⟩ with h | h
        · exact Or.inl h
        · exact Or.inr (LostLoop.next n st c2' c1' l2 l1 h2 h1 hconv hst h)

/-- THE NAMED WAYS A CALL OF `curve_intersects_curve_clip_inner` (recursion depth `d`) CAN LOSE THE INTERSECTION:
    depth exhausted (in Rust: unbounded recursion); one of the two sections has hull length 0 at entry, i.e. is `is_tiny`
    (parameter length below 0.001) or a point; or the loop loses it (`LostLoop`). -/
def LostCall : Nat → SectionT K → SectionT K → Prop
  | 0, _, _ => True
  | d + 1, c1, c2 =>
    (len1 cx c1 = 0 ∨ len2 cx c2 = 0) ∨
    LostLoop cx acc acc2 (clipInner cx d) s1 s2 (LostCall d) genFuel (T4.mk c2 c1 (len1 cx c1) (len2 cx c2))

/-- COMPLETENESS OF THE SEARCH STRUCTURE, call level -/
theorem clipInner_complete (hM : 1 ≤ (fmaxval : K)) (hm : (fminval : K) ≤ 0) (hmeet : ptA cx s1 = ptB cx s2) (d : Nat) :
    ∀ c1 c2, Sub01 c1 → Sub01 c2 → InSec c1 s1 → InSec c2 s2 →
      Covered cx acc2 s1 s2 (clipInner cx d c1 c2 acc acc2) ∨ LostCall cx acc acc2 s1 s2 d c1 c2 := by
  induction d with
  | zero => intro c1 c2 _ _ _ _; exact Or.inr trivial
  | succ d ih =>
    intro c1 c2 h1 h2 i1 i2
    simp only [clipInner]
    rw [inner_eq]
    unfold innerSpec
    by_cases z1 : len1 cx c1 = 0
    · exact Or.inr (Or.inl (Or.inl z1))
    by_cases z2 : len2 cx c2 = 0
    · exact Or.inr (Or.inl (Or.inr z2))
    rw [if_neg (by rw [lit0]; simpa using z1), if_neg (by rw [lit0]; simpa using z2)]
    rcases loop_complete cx acc acc2 (clipInner cx d) s1 s2 hM hm hmeet (LostCall cx acc acc2 s1 s2 d) ih genFuel
        (T4.mk c2 c1 (len1 cx c1) (len2 cx c2)) ⟨h1, h2, i1, i2, rfl, rfl⟩ with ⟨r, hr, hcov⟩ | hl
    · left; rw [hr]; exact hcov
    · exact Or.inr (Or.inr hl)

end CurveClipLemmas
