/-
Helper lemmas for the work-bound theorems of C20: fuel independence of loops with a decreasing measure, the weights of
the stack entries of `tot_section_length` (halvings down to MIN_ERROR) and of `find_bezier_roots` (depth cap).
-/
import FloVerif.Lemmas.XQFin
import Mathlib.Data.Nat.Log
import Mathlib.Algebra.Order.Floor.Semiring
import Mathlib.Data.Rat.Floor

namespace C20
open Prelude XQ

/-- fuel independence of a loop with a decreasing measure -/
theorem iterFuel_stable {σ ρ : Type} (μ : σ → Nat) (step : σ → Sum σ ρ) (fin : σ → ρ)
    (hdec : ∀ s s', step s = .inl s' → μ s' < μ s) :
    ∀ (n m : Nat) (s : σ), μ s < n → μ s < m → iterFuel n step fin s = iterFuel m step fin s := by
  intro n
  induction n with
  | zero => intro m s h; omega
  | succ n ih =>
    intro m s hn hm
    cases m with
    | zero => omega
    | succ m =>
      simp only [iterFuel]
      cases hs : step s with
      | inl s' =>
        have := hdec s s' hs
        exact ih m s' (by omega) (by omega)
      | inr r => rfl


/-- fuel independence of a loop with an invariant and a decreasing measure -/
theorem iterFuel_stable_inv {σ ρ : Type} (Inv : σ → Prop) (μ : σ → Nat) (step : σ → Sum σ ρ) (fin : σ → ρ)
    (hdec : ∀ s s', Inv s → step s = .inl s' → Inv s' ∧ μ s' < μ s) :
    ∀ (n m : Nat) (s : σ), Inv s → μ s < n → μ s < m → iterFuel n step fin s = iterFuel m step fin s := by
  intro n
  induction n with
  | zero => intro m s _ h; omega
  | succ n ih =>
    intro m s hs hn hm
    cases m with
    | zero => omega
    | succ m =>
      simp only [iterFuel]
      cases hst : step s with
      | inl s' =>
        have := hdec s s' hs hst
        exact ih m s' this.1 (by omega) (by omega)
      | inr r => rfl

/-- number of halvings that take a tolerance to `MIN_ERROR = 1e-12` or below -/
noncomputable def halvings (e : XQ) : Nat := Nat.clog 2 ⌈val e * 10 ^ 12⌉₊

theorem halvings_le (e : XQ) (k : Nat) (h : val e ≤ 2 ^ k / 10 ^ 12) : halvings e ≤ k := by
  unfold halvings
  apply Nat.clog_le_of_le_pow
  apply Nat.ceil_le.2
  have : val e * 10 ^ 12 ≤ 2 ^ k := by
    rw [le_div_iff₀ (by positivity)] at h; exact h
  exact_mod_cast this

theorem halvings_half (e : XQ) (he : Fin e) (hbig : ¬ e ≤ (1e-12 : XQ)) :
    1 ≤ halvings e ∧ halvings (e / (2.0 : XQ)) ≤ halvings e - 1 := by
  have h12 : val (1e-12 : XQ) = 1 / 10 ^ 12 := by rw [val_ofScientific]; norm_num
  have h2 : val (2.0 : XQ) = 2 := by rw [val_ofScientific]; norm_num
  rw [le_iff he (fin_ofScientific ..), h12, not_le] at hbig
  have hx : 1 < val e * 10 ^ 12 := by
    rw [div_lt_iff₀ (by positivity)] at hbig; exact hbig
  have hn : 2 ≤ ⌈val e * 10 ^ 12⌉₊ := by
    have : 1 < ⌈val e * 10 ^ 12⌉₊ := Nat.lt_ceil.2 (by exact_mod_cast hx)
    omega
  have hc1 : 1 ≤ Nat.clog 2 ⌈val e * 10 ^ 12⌉₊ := Nat.clog_pos (by omega) hn
  refine ⟨hc1, ?_⟩
  unfold halvings
  apply Nat.clog_le_of_le_pow
  apply Nat.ceil_le.2
  rw [val_div he (fin_ofScientific ..) (by rw [h2]; norm_num), h2]
  have hle : (⌈val e * 10 ^ 12⌉₊ : ℚ) ≤ 2 ^ (Nat.clog 2 ⌈val e * 10 ^ 12⌉₊) := by
    exact_mod_cast Nat.le_pow_clog (by omega) _
  have hceil : val e * 10 ^ 12 ≤ (⌈val e * 10 ^ 12⌉₊ : ℚ) := Nat.le_ceil _
  set c := Nat.clog 2 ⌈val e * 10 ^ 12⌉₊ with hc
  have hpow : (2 : ℚ) ^ c = 2 * 2 ^ (c - 1) := by
    rw [← pow_succ']; congr 1; omega
  push_cast
  have : val e * 10 ^ 12 ≤ 2 * 2 ^ (c - 1) := by rw [← hpow]; linarith
  linarith


/-- weight of a stack entry of `tot_section_length` with tolerance `e`: the size of the full binary tree of halvings below it -/
noncomputable def lenWeight (e : XQ) : Nat := 2 ^ (halvings e + 1) - 1

noncomputable def lenMeasure (st : List (T2 (SectionT XQ) XQ)) : Nat := (st.map (fun x => lenWeight x.t1)).sum

theorem lenWeight_pos (e : XQ) : 1 ≤ lenWeight e := by
  unfold lenWeight
  have : 2 ≤ 2 ^ (halvings e + 1) := by
    calc 2 = 2 ^ 1 := rfl
      _ ≤ 2 ^ (halvings e + 1) := Nat.pow_le_pow_right (by omega) (by omega)
  omega

theorem lenWeight_half (e : XQ) (he : Fin e) (hbig : ¬ e ≤ (1e-12 : XQ)) :
    2 * lenWeight (e / (2.0 : XQ)) + 1 ≤ lenWeight e := by
  obtain ⟨h1, h2⟩ := halvings_half e he hbig
  unfold lenWeight
  have hmono : 2 ^ (halvings (e / (2.0 : XQ)) + 1) ≤ 2 ^ (halvings e - 1 + 1) := Nat.pow_le_pow_right (by omega) (by omega)
  have e1 : halvings e + 1 = (halvings e - 1 + 1) + 1 := by omega
  rw [e1, pow_succ]
  have : 1 ≤ 2 ^ (halvings (e / (2.0 : XQ)) + 1) := Nat.one_le_two_pow
  omega


/-- weight of a stack entry of `find_bezier_roots` at `depth`: the size of the full binary tree below it -/
def rootsWeight (maxDepth depth : Nat) : Nat := 2 ^ (maxDepth - depth + 1) - 1

def rootsMeasure {S : Type} (maxDepth : Nat) (st : List (S × Nat)) : Nat := (st.map (fun e => rootsWeight maxDepth e.2)).sum

theorem rootsWeight_pos (m d : Nat) : 1 ≤ rootsWeight m d := by
  unfold rootsWeight
  have : 2 ≤ 2 ^ (m - d + 1) := by
    calc 2 = 2 ^ 1 := rfl
      _ ≤ 2 ^ (m - d + 1) := Nat.pow_le_pow_right (by omega) (by omega)
  omega

theorem rootsWeight_split (m d : Nat) (h : d < m) : 2 * rootsWeight m (d + 1) + 1 = rootsWeight m d := by
  unfold rootsWeight
  have e : m - d + 1 = (m - (d + 1) + 1) + 1 := by omega
  rw [e, pow_succ]
  have : 1 ≤ 2 ^ (m - (d + 1) + 1) := Nat.one_le_two_pow
  omega


end C20
