/-
Helper definitions and lemmas for C10 (offsets): tilings of a parameter range by sections, the sample parameters of
`offset_lms_sampling`, small facts about `V2`.  Nothing here mentions the generated code.
-/
import FloVerif.Prelude.Features
import FloVerif.Lemmas.Fit
import Mathlib.Data.List.Chain
import Mathlib.Data.List.Pairwise
import Mathlib.Data.List.Range
import Mathlib.Tactic.Ring
import Mathlib.Tactic.Linarith
import Mathlib.Tactic.FieldSimp
import Mathlib.Tactic.Positivity
import Mathlib.Algebra.Order.Field.Basic

set_option linter.unusedSectionVars false
namespace C10
open Prelude

/-! ### tilings -/

/-- `secs` TILES `[a, b]`: the first section starts at `a`, each section starts where the previous one ends, the last one ends at
    `b` (the empty list tiles only the empty range `a = b`) -/
def Tiles {K : Type} : K → K → List (T2 K K) → Prop
  | a, b, [] => a = b
  | a, b, s :: rest => s.t0 = a ∧ Tiles s.t1 b rest

theorem Tiles.append {K : Type} {a m b : K} {xs ys : List (T2 K K)} (hx : Tiles a m xs) (hy : Tiles m b ys) :
    Tiles a b (xs ++ ys) := by
  induction xs generalizing a with
  | nil => simp only [Tiles] at hx; subst hx; simpa using hy
  | cons s rest ih => exact ⟨hx.1, ih hx.2⟩

/-- the same in terms of `head?` / `getLast?` / Mathlib's `IsChain` (for a non-empty list) -/
theorem Tiles.chainFromTo {K : Type} {a b : K} {secs : List (T2 K K)} (h : Tiles a b secs) (hne : secs ≠ []) :
    C08.ChainFromTo T2.t0 T2.t1 (some a) (some b) secs := by
  induction secs generalizing a with
  | nil => exact absurd rfl hne
  | cons s rest ih =>
    obtain ⟨h0, hr⟩ := h
    cases rest with
    | nil =>
      simp only [Tiles] at hr
      exact ⟨by simp, by simp [h0], by simp [hr], List.isChain_singleton _⟩
    | cons s' rest' =>
      have := ih hr (by simp)
      refine ⟨by simp, by simp [h0], ?_, ?_⟩
      · simpa [List.getLast?_cons_cons] using this.last
      · rw [List.isChain_cons_cons]
        exact ⟨by have := this.head; simpa using this.symm, this.chain⟩

/-- dropping the degenerate sections (`t0 = t1`, what `.filter(|(t1, t2)| t1 != t2)` does) keeps a tiling -/
theorem Tiles.filter_ne {K : Type} [DecidableEq K] {a b : K} {secs : List (T2 K K)} (h : Tiles a b secs) :
    Tiles a b (secs.filter (fun s => s.t0 != s.t1)) := by
  induction secs generalizing a with
  | nil => exact h
  | cons s rest ih =>
    obtain ⟨h0, hr⟩ := h
    rw [List.filter_cons]
    by_cases e : s.t0 = s.t1
    · simp only [e, bne_self_eq_false, Bool.false_eq_true, if_false]
      rw [← h0, e]; exact ih hr
    · have : (s.t0 != s.t1) = true := by simpa using e
      rw [if_pos this]
      exact ⟨h0, ih hr⟩

/-- a tiling of a non-empty range has a section left after the filter -/
theorem Tiles.ne_nil {K : Type} {a b : K} {secs : List (T2 K K)} (h : Tiles a b secs) (hab : a ≠ b) : secs ≠ [] := by
  intro e; subst e; exact hab h

/-! ### sample parameters -/

section samples
variable {K : Type} [Field K] [LinearOrder K] [IsStrictOrderedRing K]

/-- the parameters `t1 + step * x`, `x = 0 … n-1`, `step = (t2 - t1)/n`, that `offset_lms_sampling` takes inside one section -/
def sectionTs (n : Nat) (s : T2 K K) : List K :=
  (List.range' 0 n).map (fun (x : Nat) => s.t0 + (s.t1 - s.t0) / (n : K) * (x : K))

/-- all sample parameters: those of every section, then `1` -/
def sampleTs (secs : List (T2 K K)) (n : Nat) : List K := secs.flatMap (sectionTs n) ++ [1]

theorem sectionTs_length (n : Nat) (s : T2 K K) : (sectionTs n s).length = n := by simp [sectionTs]

theorem mem_sectionTs {n : Nat} {s : T2 K K} {t : K} (h : t ∈ sectionTs n s) :
    ∃ x : Nat, x < n ∧ t = s.t0 + (s.t1 - s.t0) / (n : K) * (x : K) := by
  simp only [sectionTs, List.mem_map, List.mem_range'_1] at h
  obtain ⟨x, hx, rfl⟩ := h
  exact ⟨x, by omega, rfl⟩

/-- inside a section with `t0 < t1` the parameters lie in `[t0, t1)` -/
theorem sectionTs_range {n : Nat} {s : T2 K K} (hs : s.t0 < s.t1) {t : K} (h : t ∈ sectionTs n s) : s.t0 ≤ t ∧ t < s.t1 := by
  obtain ⟨x, hx, rfl⟩ := mem_sectionTs h
  have hn : (0 : K) < n := by exact_mod_cast (by omega : 0 < n)
  have hxn : (x : K) < n := by exact_mod_cast hx
  have hx0 : (0 : K) ≤ x := by exact_mod_cast Nat.zero_le x
  have hd : 0 < s.t1 - s.t0 := sub_pos.2 hs
  have hstep : 0 < (s.t1 - s.t0) / (n : K) := div_pos hd hn
  constructor
  · have := mul_nonneg hstep.le hx0; linarith
  · have h1 : (s.t1 - s.t0) / (n : K) * (x : K) < (s.t1 - s.t0) / (n : K) * (n : K) := mul_lt_mul_of_pos_left hxn hstep
    have h2 : (s.t1 - s.t0) / (n : K) * (n : K) = s.t1 - s.t0 := by field_simp
    linarith

/-- inside a section with `t0 < t1` the parameters increase strictly -/
theorem sectionTs_sorted (n : Nat) {s : T2 K K} (hs : s.t0 < s.t1) : (sectionTs n s).Pairwise (· < ·) := by
  unfold sectionTs
  rw [List.pairwise_map]
  by_cases hn0 : n = 0
  · subst hn0; simp
  have hn : (0 : K) < n := by exact_mod_cast (by omega : 0 < n)
  have hstep : 0 < (s.t1 - s.t0) / (n : K) := div_pos (sub_pos.2 hs) hn
  refine List.Pairwise.imp ?_ (List.pairwise_lt_range' (s := 0) (n := n) 1)
  intro a b hab
  have : (a : K) < b := by exact_mod_cast hab
  have := mul_lt_mul_of_pos_left this hstep
  linarith

/-- the first parameter of a section is exactly its start (`t1 + step * 0`) -/
theorem sectionTs_head (n : Nat) (hn : 0 < n) (s : T2 K K) : (sectionTs n s).head? = some s.t0 := by
  obtain ⟨m, rfl⟩ : ∃ m, n = m + 1 := ⟨n - 1, by omega⟩
  simp [sectionTs, List.range'_succ]

/-- over a tiling of `[a, b]` by sections with `t0 < t1`, the parameters of all sections increase strictly and lie in `[a, b)`;
    the first one is `a` -/
theorem flatMap_sectionTs (n : Nat) (hn : 0 < n) : ∀ (secs : List (T2 K K)) (a b : K), Tiles a b secs → (∀ s ∈ secs, s.t0 < s.t1) →
    (secs.flatMap (sectionTs n)).Pairwise (· < ·) ∧ (∀ t ∈ secs.flatMap (sectionTs n), a ≤ t ∧ t < b) ∧
    (secs ≠ [] → (secs.flatMap (sectionTs n)).head? = some a)
  | [], a, b, _, _ => by simp
  | s :: rest, a, b, h, hlt => by
    obtain ⟨h0, hr⟩ := h
    have hs : s.t0 < s.t1 := hlt s (by simp)
    obtain ⟨ih1, ih2, _⟩ := flatMap_sectionTs n hn rest s.t1 b hr (fun x hx => hlt x (List.mem_cons_of_mem _ hx))
    have hab : s.t1 ≤ b := by
      cases rest with
      | nil => simp only [Tiles] at hr; exact hr.le
      | cons s' r' =>
        have h' : s'.t0 < s'.t1 := hlt s' (by simp)
        have hh : (s'.t0 + (s'.t1 - s'.t0) / (n : K) * ((0 : Nat) : K)) ∈ (s' :: r').flatMap (sectionTs n) := by
          simp only [List.flatMap_cons, List.mem_append]
          left
          simp only [sectionTs, List.mem_map, List.mem_range'_1]
          exact ⟨0, by omega, rfl⟩
        have := (ih2 _ hh).1
        have := (ih2 _ hh).2
        linarith
    rw [List.flatMap_cons]
    refine ⟨?_, ?_, ?_⟩
    · rw [List.pairwise_append]
      refine ⟨sectionTs_sorted n hs, ih1, ?_⟩
      intro x hx y hy
      have := (sectionTs_range hs hx).2
      have := (ih2 y hy).1
      linarith
    · intro t ht
      rw [List.mem_append] at ht
      rcases ht with ht | ht
      · have := sectionTs_range hs ht
        rw [← h0]; exact ⟨this.1, lt_of_lt_of_le this.2 hab⟩
      · have := ih2 t ht
        rw [← h0]; exact ⟨by linarith [this.1], this.2⟩
    · intro _
      have hne : sectionTs n s ≠ [] := by
        intro e; have := sectionTs_length (K := K) n s; rw [e] at this; simp at this; omega
      rw [List.head?_append_of_ne_nil _ hne, sectionTs_head n hn, h0]

/-- THE SAMPLE PARAMETERS over a tiling of `[0, 1]` by non-degenerate increasing sections: strictly increasing, the first is exactly
    `0`, the last exactly `1`, all in `[0, 1]`, `n` per section plus one -/
theorem sampleTs_spec (n : Nat) (hn : 0 < n) (secs : List (T2 K K)) (h : Tiles 0 1 secs) (hlt : ∀ s ∈ secs, s.t0 < s.t1) :
    (sampleTs secs n).Pairwise (· < ·) ∧ (sampleTs secs n).head? = some 0 ∧ (sampleTs secs n).getLast? = some 1 ∧
    (∀ t ∈ sampleTs secs n, 0 ≤ t ∧ t ≤ 1) ∧ (sampleTs secs n).length = n * secs.length + 1 := by
  obtain ⟨h1, h2, h3⟩ := flatMap_sectionTs n hn secs 0 1 h hlt
  have hne : secs ≠ [] := h.ne_nil (by norm_num)
  unfold sampleTs
  refine ⟨?_, ?_, by simp, ?_, ?_⟩
  · rw [List.pairwise_append]
    exact ⟨h1, by simp, fun x hx y hy => by simp only [List.mem_singleton] at hy; rw [hy]; exact (h2 x hx).2⟩
  · have hh := h3 hne
    have : secs.flatMap (sectionTs n) ≠ [] := by intro e; rw [e] at hh; simp at hh
    rw [List.head?_append_of_ne_nil _ this, hh]
  · intro t ht
    rw [List.mem_append] at ht
    rcases ht with ht | ht
    · exact ⟨(h2 t ht).1, (h2 t ht).2.le⟩
    · simp only [List.mem_singleton] at ht; rw [ht]; exact ⟨zero_le_one, le_refl _⟩
  · rw [List.length_append, List.length_flatMap]
    simp only [sectionTs_length, List.map_const', List.sum_replicate_nat, List.length_singleton]
    ring

end samples

/-! ### the stable sort and the windows of `subdivide_offset` -/

section sorting
variable {K : Type} [LinearOrder K]

/-- the comparison `sort_by(|a, b| a.partial_cmp(b).unwrap_or(Ordering::Equal))` hands to the stable sort: "not greater" -/
def notGreater (a b : K) : Bool := !(decide (a > b))

theorem insertSorted_perm (x : K) : ∀ l : List K, (insertSorted notGreater x l).Perm (x :: l)
  | [] => List.Perm.refl _
  | y :: ys => by
    unfold insertSorted
    split
    · exact ((insertSorted_perm x ys).cons y).trans (List.Perm.swap x y ys)
    · exact List.Perm.refl _

theorem insertSorted_sorted (x : K) : ∀ l : List K, l.Pairwise (· ≤ ·) → (insertSorted notGreater x l).Pairwise (· ≤ ·)
  | [], _ => by simp [insertSorted]
  | y :: ys, h => by
    unfold insertSorted
    rw [List.pairwise_cons] at h
    split
    · rename_i hyx
      have hyx' : y ≤ x := by simpa [notGreater] using hyx
      rw [List.pairwise_cons]
      refine ⟨?_, insertSorted_sorted x ys h.2⟩
      intro z hz
      have := (insertSorted_perm x ys).mem_iff.1 hz
      rw [List.mem_cons] at this
      rcases this with rfl | hz
      · exact hyx'
      · exact h.1 z hz
    · rename_i hyx
      have hxy : x < y := by simpa [notGreater] using hyx
      rw [List.pairwise_cons]
      refine ⟨?_, List.pairwise_cons.2 h⟩
      intro z hz
      rw [List.mem_cons] at hz
      rcases hz with rfl | hz
      · exact hxy.le
      · exact hxy.le.trans (h.1 z hz)

theorem foldl_insertSorted (l : List K) : ∀ acc : List K, acc.Pairwise (· ≤ ·) →
    (l.foldl (fun acc x => insertSorted notGreater x acc) acc).Perm (l ++ acc) ∧
    (l.foldl (fun acc x => insertSorted notGreater x acc) acc).Pairwise (· ≤ ·) := by
  induction l with
  | nil => intro acc h; exact ⟨List.Perm.refl _, h⟩
  | cons x xs ih =>
    intro acc h
    obtain ⟨p, s⟩ := ih (insertSorted notGreater x acc) (insertSorted_sorted x acc h)
    refine ⟨?_, s⟩
    refine p.trans ?_
    refine ((insertSorted_perm x acc).append_left xs).trans ?_
    simp

/-- the sort of `subdivide_offset` (`Prelude.listSortBy` with "not greater", as the translator renders
    `sort_by(|a, b| a.partial_cmp(b).unwrap_or(Ordering::Equal))`) returns the same elements in non-decreasing order -/
theorem sortPartialCmp_spec (l : List K) :
    (listSortBy (fun a b => !(decide (a > b))) l).Perm l ∧ (listSortBy (fun a b => !(decide (a > b))) l).Pairwise (· ≤ ·) := by
  obtain ⟨p, s⟩ := foldl_insertSorted l [] List.Pairwise.nil
  rw [List.append_nil] at p
  exact ⟨p, s⟩

/-- a sorted list that contains `lo` and `hi` and whose elements all lie in `[lo, hi]` starts with `lo` and ends with `hi` -/
theorem sorted_ends {l : List K} {lo hi : K} (hs : l.Pairwise (· ≤ ·)) (hlo : lo ∈ l) (hhi : hi ∈ l) (hr : ∀ x ∈ l, lo ≤ x ∧ x ≤ hi) :
    l.head? = some lo ∧ l.getLast? = some hi := by
  constructor
  · cases l with
    | nil => simp at hlo
    | cons h tl =>
      rw [List.pairwise_cons] at hs
      have h1 : lo ≤ h := (hr h (by simp)).1
      have h2 : h ≤ lo := by
        rw [List.mem_cons] at hlo
        rcases hlo with rfl | hm
        · exact le_refl _
        · exact hs.1 lo hm
      simp [le_antisymm h2 h1]
  · have hne : l ≠ [] := by intro e; rw [e] at hlo; simp at hlo
    rw [List.getLast?_eq_some_getLast hne]
    congr 1
    have hmem := List.getLast_mem hne
    have h1 : l.getLast hne ≤ hi := (hr _ hmem).2
    have h2 : hi ≤ l.getLast hne := by
      obtain ⟨init, hinit⟩ : ∃ init, l = init ++ [l.getLast hne] := ⟨l.dropLast, (List.dropLast_append_getLast hne).symm⟩
      rw [hinit, List.pairwise_append] at hs
      rw [hinit, List.mem_append] at hhi
      rcases hhi with hm | hm
      · exact hs.2.2 hi hm _ (by simp)
      · simp only [List.mem_singleton] at hm; exact hm.le
    exact le_antisymm h1 h2

/-! #### `dedup_by` (the repair of `subdivide_offset`: `extremities.dedup_by(|a, b| (*a - *b).abs() < 0.01)` after the sort) -/

theorem dedupGo_sublist {α : Type} (same : α → α → Bool) : ∀ (l : List α) (last : α), (listDedupByGo same last l).Sublist (last :: l)
  | [], last => by simp [listDedupByGo]
  | x :: xs, last => by
    unfold listDedupByGo
    split
    · exact (dedupGo_sublist same xs last).trans ((List.sublist_cons_self x xs).cons_cons last)
    · exact (dedupGo_sublist same xs x).cons_cons last

theorem dedupGo_head {α : Type} (same : α → α → Bool) : ∀ (l : List α) (last : α), (listDedupByGo same last l).head? = some last
  | [], last => by simp [listDedupByGo]
  | x :: xs, last => by
    unfold listDedupByGo
    split
    · exact dedupGo_head same xs last
    · simp

/-- in the result every element fails `same` against its predecessor (that is why it was kept) -/
theorem dedupGo_chain {α : Type} (same : α → α → Bool) : ∀ (l : List α) (last : α),
    (listDedupByGo same last l).IsChain (fun a b => same b a = false)
  | [], last => by simp [listDedupByGo]
  | x :: xs, last => by
    unfold listDedupByGo
    split
    · exact dedupGo_chain same xs last
    · rename_i h
      rw [List.isChain_cons]
      refine ⟨?_, dedupGo_chain same xs x⟩
      intro y hy
      rw [dedupGo_head] at hy
      simp only [Option.mem_def, Option.some.injEq] at hy
      subst hy
      simpa using h

/-- a final element that is not `same` as any element before it is kept, as the final element -/
theorem dedupGo_getLast {α : Type} (same : α → α → Bool) (hi : α) : ∀ (init : List α) (last : α),
    (∀ y ∈ last :: init, same hi y = false) → (listDedupByGo same last (init ++ [hi])).getLast? = some hi
  | [], last, h => by
    have := h last (by simp)
    simp [listDedupByGo, this]
  | x :: xs, last, h => by
    rw [List.cons_append]
    unfold listDedupByGo
    split
    · exact dedupGo_getLast same hi xs last (fun y hy => h y (by
        rw [List.mem_cons] at hy ⊢
        rcases hy with rfl | hy
        · exact Or.inl rfl
        · exact Or.inr (List.mem_cons_of_mem _ hy)))
    · have ih := dedupGo_getLast same hi xs x (fun y hy => h y (List.mem_cons_of_mem _ hy))
      have hne : listDedupByGo same x (xs ++ [hi]) ≠ [] := by
        intro e; rw [e] at ih; simp at ih
      rw [List.getLast?_cons_of_ne_nil hne]; exact ih

/-- the relation of a chain holds for every window -/
theorem mem_windows2_of_isChain {α : Type} {R : α → α → Prop} : ∀ {l : List α}, l.IsChain R → ∀ w ∈ windows2 l, R w.t0 w.t1
  | [], _, w, hw => by simp [windows2] at hw
  | [_], _, w, hw => by simp [windows2] at hw
  | a :: b :: rest, h, w, hw => by
    rw [List.isChain_cons_cons] at h
    rw [windows2, List.mem_cons] at hw
    rcases hw with rfl | hw
    · exact h.1
    · exact mem_windows2_of_isChain h.2 w hw

/-- both ends of a window are elements of the list -/
theorem mem_of_mem_windows2 {α : Type} : ∀ {l : List α} (w : T2 α α), w ∈ windows2 l → w.t0 ∈ l ∧ w.t1 ∈ l
  | [], w, hw => by simp [windows2] at hw
  | [_], w, hw => by simp [windows2] at hw
  | a :: b :: rest, w, hw => by
    rw [windows2, List.mem_cons] at hw
    rcases hw with rfl | hw
    · simp
    · have := mem_of_mem_windows2 w hw
      exact ⟨List.mem_cons_of_mem _ this.1, List.mem_cons_of_mem _ this.2⟩

end sorting

/-! ### chains of offset pieces -/

/-- `cs` IS A CONCATENATION OF LEAF CURVES OVER SECTIONS THAT TILE THE PARAMETER RANGE `[u, v]`: each leaf `c` covers a section `sec`
    (original-curve range `[sec.t_c, sec.t_m + sec.t_c]`) and satisfies `IsLeaf sec c`; where two chains are glued the left one ends at
    the parameter `m` at which the right one starts. -/
inductive Pieces {K C : Type} [Add K] (IsLeaf : SectionT K → C → Prop) : K → K → List C → Prop
  | leaf (sec : SectionT K) (c : C) : IsLeaf sec c → Pieces IsLeaf sec.t_c (sec.t_m + sec.t_c) [c]
  | append {u m v : K} {xs ys : List C} : Pieces IsLeaf u m xs → Pieces IsLeaf m v ys → Pieces IsLeaf u v (xs ++ ys)

theorem Pieces.ne_nil {K C : Type} [Add K] {IsLeaf : SectionT K → C → Prop} {u v : K} {cs : List C}
    (h : Pieces IsLeaf u v cs) : cs ≠ [] := by
  induction h with
  | leaf => simp
  | append _ _ ih _ => simp [ih]

/-- a weaker leaf predicate -/
theorem Pieces.mono {K C : Type} [Add K] {IsLeaf IsLeaf' : SectionT K → C → Prop} {u v : K} {cs : List C}
    (h : Pieces IsLeaf u v cs) (himp : ∀ sec c, IsLeaf sec c → IsLeaf' sec c) : Pieces IsLeaf' u v cs := by
  induction h with
  | leaf sec c hl => exact Pieces.leaf sec c (himp sec c hl)
  | append _ _ ihx ihy => exact Pieces.append ihx ihy

/-- the first piece is a leaf over a section that starts at `u` -/
theorem Pieces.head {K C : Type} [Add K] {IsLeaf : SectionT K → C → Prop} {u v : K} {cs : List C}
    (h : Pieces IsLeaf u v cs) : ∃ c sec, cs.head? = some c ∧ sec.t_c = u ∧ IsLeaf sec c := by
  induction h with
  | leaf sec c hl => exact ⟨c, sec, rfl, rfl, hl⟩
  | append hx _ ihx _ =>
    obtain ⟨c, sec, h1, h2, h3⟩ := ihx
    exact ⟨c, sec, by rw [List.head?_append_of_ne_nil _ hx.ne_nil]; exact h1, h2, h3⟩

/-- the last piece is a leaf over a section that ends at `v` -/
theorem Pieces.last {K C : Type} [Add K] {IsLeaf : SectionT K → C → Prop} {u v : K} {cs : List C}
    (h : Pieces IsLeaf u v cs) : ∃ c sec, cs.getLast? = some c ∧ sec.t_m + sec.t_c = v ∧ IsLeaf sec c := by
  induction h with
  | leaf sec c hl => exact ⟨c, sec, rfl, rfl, hl⟩
  | append _ hy _ ihy =>
    obtain ⟨c, sec, h1, h2, h3⟩ := ihy
    exact ⟨c, sec, by rw [List.getLast?_append_of_ne_nil _ hy.ne_nil]; exact h1, h2, h3⟩

/-- consecutive pieces are leaves over sections that share their boundary parameter -/
theorem Pieces.joints {K C : Type} [Add K] {IsLeaf : SectionT K → C → Prop} {u v : K} {cs : List C}
    (h : Pieces IsLeaf u v cs) :
    cs.IsChain (fun c c' => ∃ sec sec', sec.t_m + sec.t_c = sec'.t_c ∧ IsLeaf sec c ∧ IsLeaf sec' c') := by
  induction h with
  | leaf => exact List.isChain_singleton _
  | append hx hy ihx ihy =>
    rw [List.isChain_append]
    refine ⟨ihx, ihy, ?_⟩
    intro x hxm y hym
    obtain ⟨c, sec, h1, h2, h3⟩ := hx.last
    obtain ⟨c', sec', h1', h2', h3'⟩ := hy.head
    have e1 : c = x := by rw [h1] at hxm; simpa using hxm
    have e2 : c' = y := by rw [h1'] at hym; simpa using hym
    subst e1; subst e2
    exact ⟨sec, sec', by rw [h2, h2'], h3, h3'⟩

/-- every piece is a leaf over a section inside the range (stated for a range-independent consequence `Q` of the leaf predicate) -/
theorem Pieces.all {K C : Type} [Add K] {IsLeaf : SectionT K → C → Prop} {u v : K} {cs : List C}
    (h : Pieces IsLeaf u v cs) : ∀ c ∈ cs, ∃ sec, IsLeaf sec c := by
  induction h with
  | leaf sec c hl => intro x hx; simp only [List.mem_singleton] at hx; subst hx; exact ⟨sec, hl⟩
  | append _ _ ihx ihy =>
    intro x hx
    rw [List.mem_append] at hx
    rcases hx with hx | hx
    · exact ihx x hx
    · exact ihy x hx

/-- glueing over a tiling: if `g s` is a chain of pieces over `[T s.t0, T s.t1]` for every section of a non-empty tiling of `[u, v]`
    (`T` maps the parameters of the tiling to those of the pieces), the concatenation is a chain of pieces over `[T u, T v]` -/
theorem Pieces.flatMap_tiles {K C : Type} [Add K] {IsLeaf : SectionT K → C → Prop} (T : K → K) (g : T2 K K → List C) :
    ∀ (secs : List (T2 K K)) (u v : K), secs ≠ [] → Tiles u v secs →
      (∀ s ∈ secs, Pieces IsLeaf (T s.t0) (T s.t1) (g s)) → Pieces IsLeaf (T u) (T v) (secs.flatMap g)
  | [], _, _, h, _, _ => absurd rfl h
  | [s], u, v, _, ht, hg => by
    obtain ⟨h0, h1⟩ := ht
    simp only [Tiles] at h1
    have := hg s (by simp)
    rw [h0, h1] at this
    simpa using this
  | s :: s' :: rest, u, v, _, ht, hg => by
    obtain ⟨h0, hr⟩ := ht
    have ih := Pieces.flatMap_tiles T g (s' :: rest) s.t1 v (by simp) hr (fun x hx => hg x (List.mem_cons_of_mem _ hx))
    have h1 := hg s (by simp)
    rw [h0] at h1
    rw [List.flatMap_cons]
    exact Pieces.append h1 ih

/-- the windows of a list with at least two elements tile the range from its first to its last element -/
theorem tiles_windows2 {K : Type} : ∀ (p : K) (rest : List K) (hne : rest ≠ []),
    Tiles p (rest.getLast hne) (windows2 (p :: rest)) ∧ windows2 (p :: rest) ≠ []
  | _, [], h => absurd rfl h
  | p, [q], _ => by simp [windows2, Tiles]
  | p, q :: r :: rest, _ => by
    have ih := tiles_windows2 q (r :: rest) (by simp)
    refine ⟨?_, by simp [windows2]⟩
    rw [windows2]
    refine ⟨rfl, ?_⟩
    simpa [List.getLast_cons] using ih.1

/-! ### points -/

section points
variable {K : Type} [Field K]

theorem V2.ext' {a b : V2 K} (hx : a.x = b.x) (hy : a.y = b.y) : a = b := by
  cases a; cases b; simp_all

@[simp] theorem V2.add_x (a b : V2 K) : (a + b).x = a.x + b.x := rfl
@[simp] theorem V2.add_y (a b : V2 K) : (a + b).y = a.y + b.y := rfl
@[simp] theorem V2.sub_x (a b : V2 K) : (a - b).x = a.x - b.x := rfl
@[simp] theorem V2.sub_y (a b : V2 K) : (a - b).y = a.y - b.y := rfl
@[simp] theorem V2.mul_x (a : V2 K) (k : K) : (a * k).x = a.x * k := rfl
@[simp] theorem V2.mul_y (a : V2 K) (k : K) : (a * k).y = a.y * k := rfl

end points

end C10
