import FloVerif.Lemmas.Graph
/-! C03 helper lemmas, part 2: `from_path` produces a well-formed graph. -/
set_option linter.unusedSectionVars false
set_option linter.unusedVariables false
set_option linter.unusedSimpArgs false
namespace Model.Graph

/-! ### from_path -/

theorem FolWf.nil : FolWf [] := ⟨by intro p e he; simp [edgesAt] at he, by intro p f hp; simp at hp⟩

theorem cntP_append_empty (q : Edge → Bool) (g : Graph) : cntP q (g ++ [Point.empty]) = cntP q g := by
  rw [cntP_append]
  have : cntP q [Point.empty] = 0 := by simp [cntP, allEdges, Point.empty]
  omega

theorem edgesAt_dropLast (g : Graph) (a : Nat) :
    edgesAt g.dropLast a = if a < g.length - 1 then edgesAt g a else [] := by
  unfold edgesAt
  rw [List.getElem?_dropLast]
  split_ifs with h
  · rfl
  · rfl

theorem cntP_dropLast (q : Edge → Bool) (g : Graph) (h : edgesAt g (g.length - 1) = []) : cntP q g.dropLast = cntP q g := by
  by_cases hg : g = []
  · subst hg; rfl
  · have e := List.dropLast_concat_getLast hg
    have hl : g.length - 1 < g.length := by
      have := List.length_pos_iff.mpr hg; omega
    have h2 : (g.getLast hg).edges = [] := by
      rw [List.getLast_eq_getElem, ← edgesAt_of_lt hl]; exact h
    conv_rhs => rw [← e]
    rw [cntP_append, cntP_cons, cntP_nil, h2]
    simp

/-- loop invariant of `from_clockwise_path`: an open chain `0 → 1 → … → last` -/
structure ChainInv (label : Nat) (st : FromPathState) : Prop where
  len : st.points.length = st.last + 1
  next : st.next = st.last + 1
  edges : ∀ a, edgesAt st.points a = if a < st.last then [⟨a + 1, 0, label, 0⟩] else []
  slot : ∀ p f, slotCount st.points p f = if 0 < p ∧ p ≤ st.last ∧ f = 0 then 1 else 0

theorem ChainInv.init (label : Nat) : ChainInv label { points := [Point.empty], last := 0, next := 1 } := by
  refine ⟨rfl, rfl, ?_, ?_⟩
  · intro a
    cases a <;> simp [edgesAt, Point.empty]
  · intro p f
    have : slotCount [Point.empty] p f = 0 := by simp [slotCount, allEdges, Point.empty]
    rw [this]
    simp
    omega

theorem ChainInv.step {label : Nat} {st : FromPathState} (h : ChainInv label st) (skip : Bool) :
    ChainInv label (fromPathStep label st skip) := by
  unfold fromPathStep
  split_ifs with hs
  · exact h
  · have hl := h.len
    have hlast : st.last < (st.points ++ [Point.empty]).length := by simp; omega
    refine ⟨by simp; omega, by simp [h.next], ?_, ?_⟩
    · intro a
      simp only
      rw [edgesAt_pushEdge, edgesAt_append_empty, edgesAt_append_empty, h.edges, h.edges, h.next]
      by_cases ha : a = st.last
      · subst ha
        rw [if_pos ⟨rfl, hlast⟩, if_neg (Nat.lt_irrefl _), if_pos (by omega)]
        rfl
      · simp only [ha, false_and, if_false]
        by_cases ha2 : a < st.last
        · rw [if_pos ha2, if_pos (by omega)]
        · rw [if_neg ha2, if_neg (by omega)]
    · intro p f
      simp only
      have c := cntP_pushEdge (pointsTo p f) (st.points ++ [Point.empty]) st.last
        { endIdx := st.next, fol := 0, label := label, kind := 0 } hlast
      have hs := h.slot p f
      rw [slotCount_eq] at hs ⊢
      rw [c, cntP_append_empty, hs, h.next]
      simp only [pointsTo_iff]
      split_ifs <;> omega

theorem ChainInv.fold {label : Nat} (skips : List Bool) : ∀ {st : FromPathState}, ChainInv label st →
    ChainInv label (skips.foldl (fromPathStep label) st) := by
  induction skips with
  | nil => intro st h; exact h
  | cons s skips ih => intro st h; exact ih (h.step s)

/-- the closing step of `from_clockwise_path` turns the open chain into a well-formed cycle -/
theorem ChainInv.close {label : Nat} {st : FromPathState} (h : ChainInv label st) (closed : Bool) :
    FolWf (if st.last > 0 then
      if closed then
        updEdge st.points.dropLast (st.last - 1) 0 fun e => { e with endIdx := 0 }
      else
        pushEdge st.points st.last { endIdx := 0, fol := 0, label := label, kind := 0 }
    else
      st.points.dropLast) := by
  have hl := h.len
  by_cases hpos : st.last > 0
  · rw [if_pos hpos]
    by_cases hc : closed = true
    · rw [if_pos hc]
      -- the last point goes away, the edge that reached it returns to the start
      have hold : edgeAt st.points.dropLast (st.last - 1) 0 = some ⟨st.last, 0, label, 0⟩ := by
        unfold edgeAt
        rw [edgesAt_dropLast, if_pos (by omega), h.edges, if_pos (by omega)]
        have : st.last - 1 + 1 = st.last := by omega
        simp [this]
      have hempty : edgesAt st.points (st.points.length - 1) = [] := by
        rw [h.edges, if_neg (by omega)]
      have hdl : st.points.dropLast.length = st.last := by simp; omega
      -- every remaining point has exactly one edge
      have hedges : ∀ p, p < st.last → edgesAt (updEdge st.points.dropLast (st.last - 1) 0 fun e => { e with endIdx := 0 }) p =
          [⟨if p = st.last - 1 then 0 else p + 1, 0, label, 0⟩] := by
        intro p hp
        rw [edgesAt_updEdge, hdl]
        by_cases hpl : p = st.last - 1
        · rw [if_pos ⟨hpl, by omega⟩, if_pos hpl, edgesAt_dropLast, if_pos (by omega), h.edges, if_pos (by omega)]
          rfl
        · rw [if_neg (by intro hh; exact hpl hh.1), if_neg hpl, edgesAt_dropLast, if_pos (by omega), h.edges, if_pos hp]
      refine ⟨?_, ?_⟩
      · intro p e he
        have hp := mem_edgesAt_lt he
        simp only [length_updEdge, hdl] at hp ⊢
        rw [hedges p hp] at he
        simp at he
        subst he
        simp only
        split_ifs <;> omega
      · intro p f hp
        simp only [length_updEdge, hdl] at hp
        have c := cntP_updEdge (pointsTo p f) st.points.dropLast (st.last - 1) 0 (fun e => { e with endIdx := 0 }) _ hold
        have hs := h.slot p f
        rw [slotCount_eq] at hs
        rw [cntP_dropLast _ _ hempty, hs] at c
        simp only [pointsTo_iff] at c
        rw [slotCount_eq, hedges p hp]
        simp only [List.length_singleton]
        split_ifs at c ⊢ <;> omega
    · rw [if_neg hc]
      have hlast : st.last < st.points.length := by omega
      have hedges : ∀ p, p ≤ st.last → edgesAt (pushEdge st.points st.last { endIdx := 0, fol := 0, label := label, kind := 0 }) p =
          [⟨if p = st.last then 0 else p + 1, 0, label, 0⟩] := by
        intro p hp
        rw [edgesAt_pushEdge]
        by_cases hpl : p = st.last
        · rw [if_pos ⟨hpl, hlast⟩, if_pos hpl, h.edges, if_neg (Nat.lt_irrefl _)]
          rfl
        · rw [if_neg (by intro hh; exact hpl hh.1), if_neg hpl, h.edges, if_pos (by omega)]
      refine ⟨?_, ?_⟩
      · intro p e he
        have hp := mem_edgesAt_lt he
        simp only [length_pushEdge] at hp ⊢
        rw [hedges p (by omega)] at he
        simp at he
        subst he
        simp only
        split_ifs <;> omega
      · intro p f hp
        simp only [length_pushEdge] at hp
        have c := cntP_pushEdge (pointsTo p f) st.points st.last { endIdx := 0, fol := 0, label := label, kind := 0 } hlast
        have hs := h.slot p f
        rw [slotCount_eq] at hs
        rw [hs] at c
        simp only [pointsTo_iff] at c
        rw [slotCount_eq, hedges p (by omega), c]
        simp only [List.length_singleton]
        split_ifs <;> omega
  · rw [if_neg hpos]
    have : st.points.dropLast = [] := by
      apply List.eq_nil_of_length_eq_zero; simp; omega
    rw [this]
    exact FolWf.nil

/-- `from_path` produces a well-formed graph, for every number of sections, every set of skipped sections, closed or not -/
theorem fromPath_wf (label : Nat) (skips : List Bool) (closed : Bool) : Wf (fromPath label skips closed) := by
  unfold fromPath
  apply recalc_wf
  exact (ChainInv.fold (label := label) skips (ChainInv.init label)).close closed

theorem fromPath_connExact (label : Nat) (skips : List Bool) (closed : Bool) : ConnExact (fromPath label skips closed) := by
  unfold fromPath
  exact (recalc_connOk ((ChainInv.fold (label := label) skips (ChainInv.init label)).close closed)).2

end Model.Graph
