/-
Finiteness algebra of `XQ` (IEEE-shaped exact numbers): which operations keep finite numbers finite, what the value of
the result is, and how comparisons behave on finite and on non-finite numbers.  Used by Props/C20.
-/
import FloVerif.Prelude.XQExt
import Mathlib.Tactic.Ring
import Mathlib.Tactic.Linarith
import Mathlib.Tactic.NormNum.OfScientific
import Mathlib.Tactic.FieldSimp
import Mathlib.Algebra.Order.Field.Basic
import Mathlib.Algebra.Order.Field.Rat

namespace Prelude
namespace XQ

theorem add_def (a b : XQ) : a + b = XQ.add a b := rfl
theorem sub_def (a b : XQ) : a - b = XQ.add a (XQ.neg b) := rfl
theorem mul_def (a b : XQ) : a * b = XQ.mul a b := rfl
theorem div_def (a b : XQ) : a / b = XQ.div a b := rfl
theorem neg_def (a : XQ) : -a = XQ.neg a := rfl
theorem lt_def (a b : XQ) : (a < b) = (XQ.lt a b = true) := rfl
theorem le_def (a b : XQ) : (a ≤ b) = (XQ.le a b = true) := rfl
theorem beq_def (a b : XQ) : (a == b) = XQ.feq a b := rfl

/-- a finite number is `fin q` or `−0` -/
theorem fin_cases {a : XQ} (h : Fin a) : (∃ q, a = fin q) ∨ a = nzero := by
  cases a <;> simp_all [Fin, isFinite]

@[simp] theorem fin_fin (q : ℚ) : Fin (fin q) := rfl
@[simp] theorem fin_nzero : Fin nzero := rfl
@[simp] theorem not_fin_pinf : ¬ Fin pinf := by simp [Fin, isFinite]
@[simp] theorem not_fin_ninf : ¬ Fin ninf := by simp [Fin, isFinite]
@[simp] theorem not_fin_nan : ¬ Fin nan := by simp [Fin, isFinite]
@[simp] theorem val_fin (q : ℚ) : val (fin q) = q := rfl
@[simp] theorem val_nzero : val nzero = 0 := rfl

/-! ### negation, addition, subtraction, multiplication: finite iff both operands are -/

theorem fin_neg_iff (a : XQ) : Fin (-a) ↔ Fin a := by
  cases a <;> simp only [neg_def, XQ.neg] <;> (try split_ifs) <;> simp [Fin, isFinite]

theorem val_neg (a : XQ) : val (-a) = - val a := by
  cases a <;> simp only [neg_def, XQ.neg] <;> (try split_ifs) <;> simp_all [val, toRat?]

theorem fin_add_iff (a b : XQ) : Fin (a + b) ↔ Fin a ∧ Fin b := by
  cases a <;> cases b <;> simp [add_def, XQ.add, Fin, isFinite]

theorem val_add {a b : XQ} (ha : Fin a) (hb : Fin b) : val (a + b) = val a + val b := by
  cases a <;> cases b <;> simp_all [add_def, XQ.add, val, toRat?, Fin, isFinite]

theorem fin_sub_iff (a b : XQ) : Fin (a - b) ↔ Fin a ∧ Fin b := by
  have : a - b = a + -b := rfl
  rw [this, fin_add_iff, fin_neg_iff]

theorem val_sub {a b : XQ} (ha : Fin a) (hb : Fin b) : val (a - b) = val a - val b := by
  have : a - b = a + -b := rfl
  rw [this, val_add ha ((fin_neg_iff b).2 hb), val_neg]; ring

theorem fin_mul_iff (a b : XQ) : Fin (a * b) ↔ Fin a ∧ Fin b := by
  cases a <;> cases b <;> simp only [mul_def, XQ.mul, toRat?, mkZero, mkInf] <;>
    (try split_ifs) <;> simp [Fin, isFinite]

theorem val_mul {a b : XQ} (ha : Fin a) (hb : Fin b) : val (a * b) = val a * val b := by
  cases a <;> cases b <;> simp only [mul_def, XQ.mul, toRat?, mkZero, mkInf] <;>
    (try split_ifs) <;> simp_all [val, toRat?, Fin, isFinite]

/-! ### division: the only arithmetic operation that turns finite numbers into non-finite ones -/

/-- finite / finite is finite exactly when the divisor is not (either) zero -/
theorem fin_div_iff {a b : XQ} (ha : Fin a) (hb : Fin b) : Fin (a / b) ↔ val b ≠ 0 := by
  cases a <;> cases b <;> simp only [div_def, XQ.div, toRat?, mkZero, mkInf] <;>
    (try split_ifs) <;> simp_all [val, toRat?, Fin, isFinite]

theorem fin_div {a b : XQ} (ha : Fin a) (hb : Fin b) (h : val b ≠ 0) : Fin (a / b) := (fin_div_iff ha hb).2 h

theorem val_div {a b : XQ} (ha : Fin a) (hb : Fin b) (h : val b ≠ 0) : val (a / b) = val a / val b := by
  cases a <;> cases b <;> simp only [div_def, XQ.div, toRat?, mkZero, mkInf] <;>
    (try split_ifs) <;> simp_all [val, toRat?, Fin, isFinite]

/-- a non-finite numerator never gives a finite quotient -/
theorem fin_div_left {a b : XQ} (h : Fin (a / b)) : Fin a := by
  cases a <;> cases b <;> simp only [div_def, XQ.div, toRat?, mkZero, mkInf] at h <;>
    (try split_ifs at h) <;> simp_all [Fin, isFinite]

/-- finite / zero is not finite (it is ±∞, or NaN for 0/0) -/
theorem not_fin_div_zero {a b : XQ} (hb : val b = 0) (hbf : Fin b) : ¬ Fin (a / b) := by
  cases a <;> cases b <;> simp only [div_def, XQ.div, toRat?, mkZero, mkInf] <;>
    (try split_ifs) <;> simp_all [val, toRat?, Fin, isFinite]

/-! ### comparisons -/

theorem lt_iff {a b : XQ} (ha : Fin a) (hb : Fin b) : a < b ↔ val a < val b := by
  cases a <;> cases b <;> simp_all [lt_def, XQ.lt, val, toRat?, Fin, isFinite] <;> exact decide_eq_true_iff

theorem le_iff {a b : XQ} (ha : Fin a) (hb : Fin b) : a ≤ b ↔ val a ≤ val b := by
  cases a <;> cases b <;> simp_all [le_def, XQ.le, val, toRat?, Fin, isFinite] <;> exact decide_eq_true_iff

theorem beq_iff {a b : XQ} (ha : Fin a) (hb : Fin b) : (a == b) = true ↔ val a = val b := by
  cases a <;> cases b <;> simp_all [beq_def, XQ.feq, val, toRat?, Fin, isFinite]

theorem bne_iff {a b : XQ} (ha : Fin a) (hb : Fin b) : (a != b) = true ↔ val a ≠ val b := by
  simp only [bne, Bool.not_eq_true', ne_eq, ← beq_iff ha hb]
  cases (a == b) <;> simp

/-- something between two finite numbers (closed range test as in `0.0 <= t && t <= 1.0`) is finite:
    range tests filter NaN and both infinities -/
theorem fin_of_le_of_le {lo a hi : XQ} (hlo : Fin lo) (hhi : Fin hi) (h1 : lo ≤ a) (h2 : a ≤ hi) : Fin a := by
  cases a <;> cases lo <;> cases hi <;> simp_all [le_def, XQ.le, Fin, isFinite]

/-- open range test as in `t > 0.0 && t < 1.0` -/
theorem fin_of_lt_of_lt {lo a hi : XQ} (hlo : Fin lo) (hhi : Fin hi) (h1 : lo < a) (h2 : a < hi) : Fin a := by
  cases a <;> cases lo <;> cases hi <;> simp_all [lt_def, XQ.lt, Fin, isFinite]

/-- a comparison with NaN is false -/
theorem not_lt_nan_left (b : XQ) : ¬ (nan < b) := by cases b <;> simp [lt_def, XQ.lt]
theorem not_lt_nan_right (a : XQ) : ¬ (a < nan) := by cases a <;> simp [lt_def, XQ.lt]
theorem not_le_nan_left (b : XQ) : ¬ (nan ≤ b) := by cases b <;> simp [le_def, XQ.le]
theorem not_le_nan_right (a : XQ) : ¬ (a ≤ nan) := by cases a <;> simp [le_def, XQ.le]

/-! ### abs, min, max, signum, sqrt, literals, integers -/

theorem fin_abs_iff (a : XQ) : Fin (fabs a) ↔ Fin a := by
  cases a <;> simp [fabs, Fin, isFinite]

theorem val_abs (a : XQ) : val (fabs a) = |val a| := by
  cases a <;> simp [fabs, val, toRat?]
  rename_i q
  split_ifs with h
  · rw [abs_of_neg h]
  · rw [abs_of_nonneg (not_lt.1 h)]

/-- `|x| < c` can only hold for a finite `x` (|±∞| = +∞ and NaN compare false) -/
theorem fin_of_abs_lt {a c : XQ} (h : fabs a < c) : Fin a := by
  cases a <;> cases c <;> simp_all [fabs, lt_def, XQ.lt, Fin, isFinite]

theorem fin_of_abs_lt' {a c : XQ} (h : fabs a < c) : Fin c ∨ c = pinf := by
  cases a <;> cases c <;> simp_all [fabs, lt_def, XQ.lt, Fin, isFinite]

theorem fin_fmin {a b : XQ} (ha : Fin a) (hb : Fin b) : Fin (fmin a b) := by
  unfold fmin; split_ifs <;> assumption

theorem fin_fmax {a b : XQ} (ha : Fin a) (hb : Fin b) : Fin (fmax a b) := by
  unfold fmax; split_ifs <;> assumption

theorem beq_self_of_fin {a : XQ} (ha : Fin a) : (a == a) = true := (beq_iff ha ha).2 rfl

theorem val_fmin {a b : XQ} (ha : Fin a) (hb : Fin b) : val (fmin a b) = min (val a) (val b) := by
  unfold fmin
  rw [beq_self_of_fin ha]
  by_cases h : b < a
  · rw [if_pos h, min_eq_right (le_of_lt ((lt_iff hb ha).1 h))]
  · rw [if_neg h, if_pos rfl, min_eq_left (not_lt.1 (fun h' => h ((lt_iff hb ha).2 h')))]

theorem val_fmax {a b : XQ} (ha : Fin a) (hb : Fin b) : val (fmax a b) = max (val a) (val b) := by
  unfold fmax
  rw [beq_self_of_fin ha]
  by_cases h : a < b
  · rw [if_pos h, max_eq_right (le_of_lt ((lt_iff ha hb).1 h))]
  · rw [if_neg h, if_pos rfl, max_eq_left (not_lt.1 (fun h' => h ((lt_iff ha hb).2 h')))]

/-- `x.max(lo).min(hi)` with finite bounds is finite WHATEVER `x` is (NaN is replaced by `lo`, ±∞ are clamped) -/
theorem fin_clamp (x : XQ) {lo hi : XQ} (hlo : Fin lo) (hhi : Fin hi) : Fin (fmin (fmax x lo) hi) := by
  have h1 : Fin (fmax x lo) ∨ fmax x lo = pinf := by
    unfold fmax
    cases x <;> cases lo <;> simp_all [lt_def, XQ.lt, beq_def, XQ.feq, Fin, isFinite, toRat?] <;> split_ifs <;> simp
  rcases h1 with h1 | h1
  · exact fin_fmin h1 hhi
  · rw [h1]; unfold fmin
    cases hi <;> simp_all [lt_def, XQ.lt, Fin, isFinite]

theorem fin_signum {a : XQ} (ha : Fin a) : Fin (fsignum a) := by
  cases a <;> simp_all [fsignum, Fin, isFinite] <;> split_ifs <;> simp

theorem fin_ofScientific (m : Nat) (s : Bool) (e : Nat) : Fin (OfScientific.ofScientific m s e : XQ) := rfl
theorem val_ofScientific (m : Nat) (s : Bool) (e : Nat) :
    val (OfScientific.ofScientific m s e : XQ) = (OfScientific.ofScientific m s e : ℚ) := rfl
theorem fin_ofNat (n : Nat) : Fin (OfNat.ofNat n : XQ) := rfl
theorem val_ofNat (n : Nat) : val (OfNat.ofNat n : XQ) = (n : ℚ) := rfl
theorem fin_ofInt (n : Int) : Fin (ofInt n : XQ) := rfl
theorem val_ofInt (n : Int) : val (ofInt n : XQ) = (n : ℚ) := rfl

section sqrt
variable (s : ℚ → ℚ)

theorem fin_sqrt {a : XQ} (ha : Fin a) (h0 : 0 ≤ val a) : Fin (sqrtWith s a) := by
  cases a <;> simp_all [sqrtWith, val, toRat?, Fin, isFinite]
  rename_i q; rw [if_neg (not_lt.2 h0)]

theorem val_sqrt (hs0 : s 0 = 0) {a : XQ} (ha : Fin a) (h0 : 0 ≤ val a) : val (sqrtWith s a) = s (val a) := by
  cases a <;> simp_all [sqrtWith, val, toRat?, Fin, isFinite]
  rename_i q; rw [if_neg (not_lt.2 h0)]; rfl

end sqrt

end XQ

/-! ### points -/

@[simp] theorem V2.add_x {K} [Add K] (a b : V2 K) : (a + b).x = a.x + b.x := rfl
@[simp] theorem V2.add_y {K} [Add K] (a b : V2 K) : (a + b).y = a.y + b.y := rfl
@[simp] theorem V2.sub_x {K} [Sub K] (a b : V2 K) : (a - b).x = a.x - b.x := rfl
@[simp] theorem V2.sub_y {K} [Sub K] (a b : V2 K) : (a - b).y = a.y - b.y := rfl
@[simp] theorem V2.smul_x {K} [Mul K] (a : V2 K) (k : K) : (a * k).x = a.x * k := rfl
@[simp] theorem V2.smul_y {K} [Mul K] (a : V2 K) (k : K) : (a * k).y = a.y * k := rfl
theorem V2.dot_def {K} [Add K] [Mul K] [OfScientific K] (a b : V2 K) : dot a b = ((0.0 : K) + a.x * b.x) + a.y * b.y := rfl

theorem V2.fin_iff (p : V2 XQ) : V2.Fin p ↔ XQ.Fin p.x ∧ XQ.Fin p.y := Iff.rfl
theorem V2.fin_mk (x y : XQ) : V2.Fin ⟨x, y⟩ ↔ XQ.Fin x ∧ XQ.Fin y := Iff.rfl
theorem V2.fin_add_iff (a b : V2 XQ) : V2.Fin (a + b) ↔ V2.Fin a ∧ V2.Fin b := by
  simp only [V2.Fin, V2.add_x, V2.add_y, XQ.fin_add_iff]; tauto
theorem V2.fin_sub_iff (a b : V2 XQ) : V2.Fin (a - b) ↔ V2.Fin a ∧ V2.Fin b := by
  simp only [V2.Fin, V2.sub_x, V2.sub_y, XQ.fin_sub_iff]; tauto
theorem V2.fin_smul_iff (a : V2 XQ) (k : XQ) : V2.Fin (a * k) ↔ V2.Fin a ∧ XQ.Fin k := by
  simp only [V2.Fin, V2.smul_x, V2.smul_y, XQ.fin_mul_iff]; tauto
theorem V2.fin_dot {a b : V2 XQ} (ha : V2.Fin a) (hb : V2.Fin b) : XQ.Fin (dot a b) := by
  simp only [V2.dot_def, XQ.fin_add_iff, XQ.fin_mul_iff, XQ.fin_ofScientific, true_and]
  exact ⟨⟨ha.1, hb.1⟩, ha.2, hb.2⟩

/-! ### guards -/
namespace XQ

theorem val_zero_lit : val (0.0 : XQ) = 0 := by rw [val_ofScientific]; norm_num
theorem val_one_lit : val (1.0 : XQ) = 1 := by rw [val_ofScientific]; norm_num
theorem fin_zero_lit : Fin (0.0 : XQ) := fin_ofScientific ..
theorem fin_one_lit : Fin (1.0 : XQ) := fin_ofScientific ..

/-- `|a| > |b|` (finite operands) implies `a ≠ 0` -/
theorem abs_gt_ne {a b : XQ} (ha : Fin a) (hb : Fin b) (h : fabs a > fabs b) : val a ≠ 0 := by
  rw [gt_iff_lt, lt_iff ((fin_abs_iff _).2 hb) ((fin_abs_iff _).2 ha), val_abs, val_abs] at h
  intro h0; rw [h0, abs_zero] at h; exact absurd h (not_lt.2 (abs_nonneg _))

/-- not `|a| > |b|` and not both zero implies `b ≠ 0` -/
theorem abs_not_gt_ne {a b : XQ} (ha : Fin a) (hb : Fin b) (h : ¬ fabs a > fabs b)
    (hz : ¬ ((a == (0.0 : XQ)) && (b == (0.0 : XQ))) = true) : val b ≠ 0 := by
  rw [gt_iff_lt, lt_iff ((fin_abs_iff _).2 hb) ((fin_abs_iff _).2 ha), val_abs, val_abs, not_lt] at h
  intro h0
  rw [h0, abs_zero] at h
  have ha0 : val a = 0 := abs_eq_zero.1 (le_antisymm h (abs_nonneg _))
  apply hz
  rw [Bool.and_eq_true, beq_iff ha fin_zero_lit, beq_iff hb fin_zero_lit, val_zero_lit]
  exact ⟨ha0, h0⟩

/-- `x == 0.0` is false (finite `x`) implies `x ≠ 0` -/
theorem ne_of_not_beq_zero {a : XQ} (ha : Fin a) (h : ¬ (a == (0.0 : XQ)) = true) : val a ≠ 0 := by
  intro h0; apply h; rw [beq_iff ha fin_zero_lit, val_zero_lit]; exact h0

/-- `|x| > c` for a finite `c ≥ 0` implies `x ≠ 0` -/
theorem ne_of_abs_gt {a c : XQ} (ha : Fin a) (hc : Fin c) (h0 : 0 ≤ val c) (h : fabs a > c) : val a ≠ 0 := by
  rw [gt_iff_lt, lt_iff hc ((fin_abs_iff _).2 ha), val_abs] at h
  intro hz; rw [hz, abs_zero] at h; exact absurd h (not_lt.2 h0)

/-- not `|x| < c` for a finite `c > 0` implies `x ≠ 0` -/
theorem ne_of_not_abs_lt {a c : XQ} (ha : Fin a) (hc : Fin c) (h0 : 0 < val c) (h : ¬ fabs a < c) : val a ≠ 0 := by
  rw [lt_iff ((fin_abs_iff _).2 ha) hc, val_abs, not_lt] at h
  intro hz; rw [hz, abs_zero] at h; exact absurd h0 (not_lt.2 h)

end XQ

/-- what the theorems need of `f64::sqrt`: a function on the rationals that is non-negative and vanishes only at 0
    (true of the exact square root and of the correctly rounded one) -/
class SqrtFn where
  s : ℚ → ℚ
  nonneg : ∀ q, 0 ≤ q → 0 ≤ s q
  zero_iff : ∀ q, 0 ≤ q → (s q = 0 ↔ q = 0)

namespace XQ
variable [S : SqrtFn]

/-- `f64::sqrt` of the theorems -/
instance instFSqrtOfSqrtFn : FSqrt XQ := ⟨sqrtWith S.s⟩

theorem fsqrt_def (a : XQ) : fsqrt a = sqrtWith S.s a := rfl

theorem sqrtFn_zero : S.s 0 = 0 := (S.zero_iff 0 le_rfl).2 rfl

theorem fin_fsqrt {a : XQ} (ha : Fin a) (h0 : 0 ≤ val a) : Fin (fsqrt a) := fin_sqrt _ ha h0
theorem val_fsqrt {a : XQ} (ha : Fin a) (h0 : 0 ≤ val a) : val (fsqrt a) = S.s (val a) := val_sqrt _ sqrtFn_zero ha h0
theorem val_fsqrt_nonneg {a : XQ} (ha : Fin a) (h0 : 0 ≤ val a) : 0 ≤ val (fsqrt a) := by
  rw [val_fsqrt ha h0]; exact S.nonneg _ h0
theorem val_fsqrt_eq_zero_iff {a : XQ} (ha : Fin a) (h0 : 0 ≤ val a) : val (fsqrt a) = 0 ↔ val a = 0 := by
  rw [val_fsqrt ha h0]; exact S.zero_iff _ h0

/-- `sqrt(x·x + y·y)` of finite numbers is finite -/
theorem fin_hypot {x y : XQ} (hx : Fin x) (hy : Fin y) : Fin (fsqrt (x * x + y * y)) := by
  have hf : Fin (x * x + y * y) := by simp only [fin_add_iff, fin_mul_iff, *, and_self]
  refine fin_fsqrt hf ?_
  rw [val_add ((fin_mul_iff _ _).2 ⟨hx, hx⟩) ((fin_mul_iff _ _).2 ⟨hy, hy⟩), val_mul hx hx, val_mul hy hy]
  nlinarith [mul_self_nonneg (val x), mul_self_nonneg (val y)]

omit S in
theorem val_sq_add_sq {x y : XQ} (hx : Fin x) (hy : Fin y) : val (x * x + y * y) = val x * val x + val y * val y := by
  rw [val_add ((fin_mul_iff _ _).2 ⟨hx, hx⟩) ((fin_mul_iff _ _).2 ⟨hy, hy⟩), val_mul hx hx, val_mul hy hy]

/-- `sqrt(x·x + y·y)` is zero only when both are -/
theorem val_hypot_eq_zero_iff {x y : XQ} (hx : Fin x) (hy : Fin y) : val (fsqrt (x * x + y * y)) = 0 ↔ val x = 0 ∧ val y = 0 := by
  have hf : Fin (x * x + y * y) := by simp only [fin_add_iff, fin_mul_iff, *, and_self]
  have h0 : 0 ≤ val (x * x + y * y) := by
    rw [val_sq_add_sq hx hy]; nlinarith [mul_self_nonneg (val x), mul_self_nonneg (val y)]
  rw [val_fsqrt_eq_zero_iff hf h0, val_sq_add_sq hx hy]
  constructor
  · intro h
    have h1 := mul_self_nonneg (val x); have h2 := mul_self_nonneg (val y)
    exact ⟨mul_self_eq_zero.1 (by linarith), mul_self_eq_zero.1 (by linarith)⟩
  · rintro ⟨h1, h2⟩; rw [h1, h2]; ring

end XQ

/-! ### loops and sentinels -/

/-- a `for` loop keeps an invariant that its body keeps -/
theorem foldlT_inv {α β : Type} (P : β → Prop) (l : List α) (init : β) (f : β → α → β)
    (h0 : P init) (hstep : ∀ b a, P b → P (f b a)) : P (foldlT l init f) := by
  unfold foldlT
  induction l generalizing init with
  | nil => exact h0
  | cons x xs ih => exact ih _ (hstep _ _ h0)

/-- the same, the body only being run on members of the list -/
theorem foldlT_inv_mem {α β : Type} (P : β → Prop) (l : List α) (init : β) (f : β → α → β)
    (h0 : P init) (hstep : ∀ b a, a ∈ l → P b → P (f b a)) : P (foldlT l init f) := by
  unfold foldlT
  induction l generalizing init with
  | nil => exact h0
  | cons x xs ih =>
    exact ih _ (hstep _ _ List.mem_cons_self h0) (fun b a ha hb => hstep b a (List.mem_cons_of_mem _ ha) hb)

/-- a `loop`/`while` with fuel keeps an invariant: if every step from a state satisfying `P` either continues in a state
    satisfying `P` or leaves the loop with a result satisfying `Q` (and running out of fuel does too) -/
theorem iterFuel_inv {σ ρ : Type} (P : σ → Prop) (Q : ρ → Prop) (step : σ → Sum σ ρ) (fin : σ → ρ)
    (hstep : ∀ s, P s → match step s with | .inl s' => P s' | .inr r => Q r) (hfin : ∀ s, P s → Q (fin s)) :
    ∀ n s, P s → Q (iterFuel n step fin s) := by
  intro n
  induction n with
  | zero => intro s hs; exact hfin s hs
  | succ n ih =>
    intro s hs
    have := hstep s hs
    simp only [iterFuel]
    split
    · rename_i s' h; rw [h] at this; exact ih s' this
    · rename_i r h; rw [h] at this; exact this

namespace XQ
/-- x / 0 for a finite non-zero x is +∞ or −∞ -/
theorem div_zero_inf {a b : XQ} (ha : Fin a) (hb : Fin b) (ha0 : val a ≠ 0) (hb0 : val b = 0) : a / b = pinf ∨ a / b = ninf := by
  cases a <;> cases b <;> simp only [div_def, XQ.div, toRat?, mkZero, mkInf] <;>
    (try split_ifs) <;> simp_all [val, toRat?, Fin, isFinite]

/-- `f64::MAX` and `f64::MIN` are finite numbers -/
theorem fin_fmaxval : Fin (fmaxval : XQ) := rfl
theorem fin_fminval : Fin (fminval : XQ) := rfl
theorem fin_feps : Fin (feps : XQ) := rfl

/-- a quotient of two literals with a non-zero divisor (`3.0/4.0`, `1.0/3.0`, …) -/
theorem fin_lit_div (m : Nat) (s : Bool) (e : Nat) (m' : Nat) (s' : Bool) (e' : Nat)
    (h : (OfScientific.ofScientific m' s' e' : ℚ) ≠ 0) :
    Fin ((OfScientific.ofScientific m s e : XQ) / (OfScientific.ofScientific m' s' e' : XQ)) :=
  fin_div (fin_ofScientific ..) (fin_ofScientific ..) (by rw [val_ofScientific]; exact h)

/-- one `t1 = t1.min(v); t2 = t2.max(v)` update -/
theorem fin_minmax_upd {t1 t2 v : XQ} (h1 : Fin t1) (h2 : Fin t2) (hv : Fin v) : Fin (fmin t1 v) ∧ Fin (fmax t2 v) :=
  ⟨fin_fmin h1 hv, fin_fmax h2 hv⟩
end XQ

/-- closes goals "this expression built from +, −, ·, unary −, abs, literals and point arithmetic is finite" from the
    finiteness of its leaves found among the hypotheses -/
macro "xq_fin" : tactic =>
  `(tactic| ((try simp only [V2.fin_iff] at *); simp only [XQ.fin_add_iff, XQ.fin_sub_iff, XQ.fin_mul_iff, XQ.fin_neg_iff, XQ.fin_abs_iff, XQ.fin_ofScientific,
      XQ.fin_ofNat, XQ.fin_ofInt, V2.fin_add_iff, V2.fin_sub_iff, V2.fin_smul_iff, V2.fin_mk, V2.add_x, V2.add_y, V2.sub_x, V2.sub_y,
      V2.smul_x, V2.smul_y, true_and, and_true, and_self, *] <;> try tauto))

namespace XQ
theorem val_1e8 : (0:ℚ) < val (0.00000001 : XQ) := by rw [val_ofScientific]; norm_num
theorem val_1e10 : val (1e-10 : XQ) = 1/10000000000 := by rw [val_ofScientific]; norm_num

/-- the step-size update of the even walk for a (nearly) stationary point (walk.rs:213-221): the ratio
    `distance / next_distance` is ±∞ when only `next_distance` vanishes and is then caught by one of the two comparisons;
    it is NaN only when both vanish -/
theorem ratio_branch_fin (ti d nd : XQ) (hti : Fin ti) (hd : Fin d) (hnd : Fin nd) (h : val nd ≠ 0 ∨ val d ≠ 0) :
    Fin (if decide (d / nd < (0.5 : XQ)) = true then ti * (0.5 : XQ)
      else if decide (d / nd > (1.5 : XQ)) = true then ti * (1.5 : XQ) else ti * (d / nd)) := by
  by_cases h0 : val nd = 0
  · have hd0 : val d ≠ 0 := by rcases h with h | h; exact absurd h0 h; exact h
    rcases div_zero_inf hd hnd hd0 h0 with e | e <;> rw [e]
    · have : ¬ (pinf < (0.5 : XQ)) := by decide +kernel
      have h2 : ((1.5 : XQ) < pinf) := by decide +kernel
      simp only [decide_eq_true_eq, this, if_false, gt_iff_lt, h2, if_true]
      xq_fin
    · have : (ninf < (0.5 : XQ)) := by decide +kernel
      simp only [decide_eq_true_eq, this, if_true]
      xq_fin
  · have := fin_div hd hnd h0
    split_ifs <;> xq_fin

end XQ

end Prelude
