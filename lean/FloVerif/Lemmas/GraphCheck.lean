import FloVerif.Lemmas.GraphCombine
import FloVerif.Lemmas.GraphBuild
import Mathlib.Data.List.Range
/-! C03 helper lemmas, part 5: the decidable checkers, balance, `reverse_edges_for_point`, the stage as a whole. -/
set_option linter.unusedSectionVars false
set_option linter.unusedVariables false
set_option linter.unusedSimpArgs false
namespace Model.Graph

/-! ### the checkers decide the invariant -/

theorem folWfCheck_iff (g : Graph) : folWfCheck g = true ↔ FolWf g := by
  unfold folWfCheck
  rw [Bool.and_eq_true, List.all_eq_true, List.all_eq_true]
  constructor
  · rintro ⟨h1, h2⟩
    have hv : ∀ a, ∀ e ∈ edgesAt g a, e.endIdx < g.length ∧ e.fol < (edgesAt g e.endIdx).length := by
      intro a e he
      have := h1 e (mem_allEdges.mpr ⟨a, he⟩)
      simpa using this
    refine ⟨fun a e he => (hv a e he).1, ?_⟩
    intro p f hp
    split_ifs with hf
    · have := h2 p (List.mem_range.mpr hp)
      rw [List.all_eq_true] at this
      have := this f (List.mem_range.mpr hf)
      simpa using this
    · rw [slotCount_eq]
      apply cntP_eq_zero
      intro a e he
      simp only [pointsTo, Bool.and_eq_false_imp, beq_iff_eq]
      intro h3
      have := (hv a e he).2
      rw [h3] at this
      simp only [beq_eq_false_iff_ne]
      omega
  · intro h
    refine ⟨?_, ?_⟩
    · intro e he
      obtain ⟨a, ha⟩ := mem_allEdges.mp he
      simp only [Bool.and_eq_true, decide_eq_true_eq]
      exact ⟨h.endValid a e ha, h.folValid ha⟩
    · intro p hp
      rw [List.all_eq_true]
      intro f hf
      have := h.slot p f (List.mem_range.mp hp)
      rw [if_pos (List.mem_range.mp hf)] at this
      simp [this]

theorem nodupCheck_iff (l : List Nat) : nodupCheck l = true ↔ l.Nodup := by
  induction l with
  | nil => simp [nodupCheck]
  | cons a l ih =>
    simp only [nodupCheck, Bool.and_eq_true, Bool.not_eq_true', List.nodup_cons, ih]
    constructor
    · rintro ⟨h1, h2⟩; exact ⟨by simpa using h1, h2⟩
    · rintro ⟨h1, h2⟩; exact ⟨by simpa using h1, h2⟩

theorem connOkCheck_iff (g : Graph) : connOkCheck g = true ↔ ConnOk g := by
  unfold connOkCheck
  rw [List.all_eq_true]
  constructor
  · intro h
    have hp : ∀ p, p < g.length → (∀ c ∈ connAt g p, c < g.length) ∧ (connAt g p).Nodup ∧
        ∀ e ∈ edgesAt g p, p ∈ connAt g e.endIdx := by
      intro p hp
      have := h p (List.mem_range.mpr hp)
      simp only [Bool.and_eq_true, List.all_eq_true, decide_eq_true_eq, nodupCheck_iff, List.contains_iff_mem] at this
      exact ⟨this.1.1, this.1.2, this.2⟩
    refine ⟨?_, ?_, ?_⟩
    · intro p c hc; exact (hp p (mem_connAt_lt hc)).1 c hc
    · intro p
      by_cases hl : p < g.length
      · exact (hp p hl).2.1
      · rw [connAt_of_ge (Nat.le_of_not_lt hl)]; exact List.nodup_nil
    · intro p e he; exact (hp p (mem_edgesAt_lt he)).2.2 e he
  · intro h p _
    simp only [Bool.and_eq_true, List.all_eq_true, decide_eq_true_eq, nodupCheck_iff, List.contains_iff_mem]
    exact ⟨⟨h.valid p, h.nodup p⟩, h.complete p⟩

theorem connExactCheck_iff (g : Graph) : connExactCheck g = true ↔ ConnExact g := by
  unfold connExactCheck ConnExact
  rw [List.all_eq_true]
  constructor
  · intro h p c hc
    have := h p (List.mem_range.mpr (mem_connAt_lt hc))
    rw [List.all_eq_true] at this
    have := this c hc
    rw [List.any_eq_true] at this
    obtain ⟨e, he, hep⟩ := this
    exact ⟨e, he, by simpa using hep⟩
  · intro h p _
    rw [List.all_eq_true]
    intro c hc
    rw [List.any_eq_true]
    obtain ⟨e, he, hep⟩ := h p c hc
    exact ⟨e, he, by simpa using hep⟩

theorem wfCheck_iff (g : Graph) : wfCheck g = true ↔ Wf g := by
  unfold wfCheck
  rw [Bool.and_eq_true, folWfCheck_iff, connOkCheck_iff]
  exact ⟨fun h => ⟨h.1, h.2⟩, fun h => ⟨h.fol, h.conn⟩⟩

/-! ### balance -/

theorem cntP_fol_lt (g : Graph) (p : Nat) : ∀ N, cntP (fun e => e.endIdx == p && decide (e.fol < N)) g =
    ((List.range N).map fun f => slotCount g p f).sum := by
  intro N
  induction N with
  | zero =>
    simp only [List.range_zero, List.map_nil, List.sum_nil]
    apply cntP_eq_zero
    intro a e _; simp
  | succ N ih =>
    rw [List.range_succ, List.map_append, List.sum_append, ← ih]
    simp only [List.map_cons, List.map_nil, List.sum_cons, List.sum_nil, Nat.add_zero]
    rw [slotCount_eq, ← cntP_or_disjoint _ _ _ (by
      intro x
      simp only [Bool.and_eq_true, beq_iff_eq, decide_eq_true_eq, pointsTo_iff]
      omega)]
    apply cntP_congr
    intro a e _
    rw [Bool.eq_iff_iff]
    simp only [Bool.and_eq_true, beq_iff_eq, decide_eq_true_eq, Bool.or_eq_true, pointsTo_iff]
    omega

theorem sum_range_indicator (L : Nat) : ∀ N, ((List.range N).map fun f => if f < L then 1 else 0).sum = min N L := by
  intro N
  induction N with
  | zero => simp
  | succ N ih =>
    rw [List.range_succ, List.map_append, List.sum_append, ih]
    simp only [List.map_cons, List.map_nil, List.sum_cons, List.sum_nil]
    split_ifs <;> omega

/-- in a well-formed graph every point has as many incoming as outgoing edges -/
theorem FolWf.balanced {g : Graph} (h : FolWf g) (p : Nat) : inDegree g p = outDegree g p := by
  unfold inDegree outDegree
  by_cases hp : p < g.length
  · have h1 : cntP (fun e => e.endIdx == p) g = cntP (fun e => e.endIdx == p && decide (e.fol < (edgesAt g p).length)) g := by
      apply cntP_congr
      intro a e he
      by_cases hep : e.endIdx = p
      · have := h.folValid he
        rw [hep] at this
        simp [hep, this]
      · simp [hep]
    show cntP (fun e => e.endIdx == p) g = _
    rw [h1, cntP_fol_lt]
    have : (List.range (edgesAt g p).length).map (fun f => slotCount g p f) =
        (List.range (edgesAt g p).length).map (fun f => if f < (edgesAt g p).length then 1 else 0) := by
      apply List.map_congr_left
      intro f _
      exact h.slot p f hp
    rw [this, sum_range_indicator]
    simp
  · rw [edgesAt_of_ge (Nat.le_of_not_lt hp)]
    show cntP (fun e => e.endIdx == p) g = _
    simp only [List.length_nil]
    apply cntP_eq_zero
    intro a e he
    have := h.endValid a e he
    simp only [beq_eq_false_iff_ne]
    omega

/-! ### reverse_edges_for_point -/

theorem mem_reverseEdges {g : Graph} {p c i : Nat} :
    (c, i) ∈ reverseEdges g p ↔ c ∈ connAt g p ∧ ∃ e, edgeAt g c i = some e ∧ e.endIdx = p := by
  unfold reverseEdges
  rw [List.mem_flatMap]
  constructor
  · rintro ⟨c', hc', hm⟩
    rw [List.mem_map] at hm
    obtain ⟨x, hx, hxe⟩ := hm
    rw [List.mem_filter] at hx
    simp only [Prod.mk.injEq] at hxe
    obtain ⟨rfl, rfl⟩ := hxe
    exact ⟨hc', x.1, List.mem_zipIdx_iff_getElem?.mp hx.1, by simpa using hx.2⟩
  · rintro ⟨hc, e, he, hep⟩
    refine ⟨c, hc, ?_⟩
    rw [List.mem_map]
    refine ⟨(e, i), ?_, rfl⟩
    rw [List.mem_filter]
    exact ⟨List.mem_zipIdx_iff_getElem?.mpr he, by simpa using hep⟩

theorem nodup_reverseEdges {g : Graph} (h : ∀ p, (connAt g p).Nodup) (p : Nat) : (reverseEdges g p).Nodup := by
  unfold reverseEdges
  rw [List.nodup_flatMap]
  refine ⟨?_, ?_⟩
  · intro c _
    apply List.Nodup.map_on
    · intro x hx y hy hxy
      simp only [Prod.mk.injEq, true_and] at hxy
      have hx' := List.mem_zipIdx_iff_getElem?.mp (List.mem_filter.mp hx).1
      have hy' := List.mem_zipIdx_iff_getElem?.mp (List.mem_filter.mp hy).1
      rw [hxy] at hx'
      rw [hx'] at hy'
      exact Prod.ext (Option.some.inj hy') hxy
    · apply List.Nodup.filter
      apply List.Nodup.of_map Prod.snd
      rw [List.zipIdx_map_snd]
      exact List.nodup_range' 1
  · apply List.Pairwise.imp _ (h p)
    intro a b hab
    intro x hxa hxb
    rw [List.mem_map] at hxa hxb
    obtain ⟨_, _, rfl⟩ := hxa
    obtain ⟨_, _, hh⟩ := hxb
    simp only [Prod.mk.injEq] at hh
    exact hab hh.1.symm

/-! ### the collision stage as a whole -/

section Whole
variable {K : Type} [LT K] [LE K] [DecidableLT K] [DecidableLE K] [OfNat K 0] [OfNat K 1]

theorem detectCollisions_wf {g : Graph} (h : Wf g) (cs : List (Collision K))
    (hcs : ∀ c ∈ cs, c.p1 < g.length ∧ c.p2 < g.length) (any : Bool) (accepted dec : List (Nat × Nat)) :
    ∃ g', detectCollisions g cs any accepted dec = some g' ∧ Wf g' ∧ g.length ≤ g'.length := by
  unfold detectCollisions
  split_ifs with hempty
  · obtain ⟨hw, hl, _⟩ := combine_wf h any accepted
    obtain ⟨g', dec', h1, h2, h3⟩ := removeAllVeryShort_wf hw dec
    exact ⟨g', by rw [h1]; rfl, h2, by rw [h3, hl]⟩
  · obtain ⟨hs, hsl⟩ := splitStage_folWf h.fol cs hcs
    have hr := recalc_wf hs
    obtain ⟨hw, hl, _⟩ := combine_wf hr any accepted
    obtain ⟨g', dec', h1, h2, h3⟩ := removeAllVeryShort_wf hw dec
    exact ⟨g', by rw [h1]; rfl, h2, by rw [h3, hl, length_recalc]; exact hsl⟩

theorem collide_wf {g h : Graph} (hg : Wf g) (hh : Wf h) (cs : List (Collision K))
    (hcs : ∀ c ∈ cs, c.p1 < g.length + h.length ∧ c.p2 < g.length + h.length) (any : Bool) (accepted dec : List (Nat × Nat)) :
    ∃ g', collide g h cs any accepted dec = some g' ∧ Wf g' ∧ g.length + h.length ≤ g'.length := by
  unfold collide
  have := detectCollisions_wf (merge_wf hg hh) cs (by rw [length_merge]; exact hcs) any accepted dec
  rw [length_merge] at this
  exact this

end Whole

end Model.Graph
