/-
Helper lemmas for C17Round: the rounding stage `rounded_intercepts_on_line` / `merge_overlapping_intercepts`
(`roundFrac`, `ceilRuns`, `mergeRuns` of `Model/Contour.lean`).

Layout
  1. `ceilUsize` against sampling at integer positions
  2. the contract of `intercepts_on_line` (`Ascending`) and what rounding makes of it (`AscN`, `Stair`)
  3. `mergeRuns` on a staircase: keeps the covered samples, produces a `Good` list
  4. a `Good` list is determined by the samples it covers (uniqueness of the run-length encoding)
  5. `roundFrac` = run-length encoding of the sampled row
  6. the flat sample vector of the bitmap contour types
-/
import FloVerif.Lemmas.Scan
import Mathlib.Data.Rat.Floor

namespace RoundLemmas
open Prelude Gen Model.Contour ScanLemmas

/-! ## 1. ceilings and sampling -/

theorem ceilUsize_le (q : Rat) (x : Nat) : ceilUsize q ≤ x ↔ q ≤ (x : Rat) := by
  unfold ceilUsize
  rw [Int.toNat_le, Rat.ceil_le_iff]
  simp

theorem lt_ceilUsize (q : Rat) (x : Nat) : x < ceilUsize q ↔ (x : Rat) < q := by
  rw [← Nat.not_le, ceilUsize_le, not_le]

theorem ceilUsize_mono {a b : Rat} (h : a ≤ b) : ceilUsize a ≤ ceilUsize b := by
  rw [ceilUsize_le]
  exact le_trans h ((ceilUsize_le b _).1 (Nat.le_refl _))

/-! ## 2. the contract and its image under rounding -/

/-- the documented contract of `SampledContour::intercepts_on_line`: "ascending order, not overlapping", i.e.
    `s₀ ≤ e₀ ≤ s₁ ≤ e₁ ≤ …` -/
def Ascending : List FRange → Prop
  | [] => True
  | [a] => a.1 ≤ a.2
  | a :: b :: rest => a.1 ≤ a.2 ∧ a.2 ≤ b.1 ∧ Ascending (b :: rest)

/-- the same for integer runs -/
def AscN : List Run → Prop
  | [] => True
  | [a] => a.1 ≤ a.2
  | a :: b :: rest => a.1 ≤ a.2 ∧ a.2 ≤ b.1 ∧ AscN (b :: rest)

/-- the weaker shape that is enough for `mergeRuns`: starts non-decreasing, ends non-decreasing, no run inverted
    (runs may overlap, but none is nested inside an earlier one) -/
def Stair : List Run → Prop
  | [] => True
  | [a] => a.1 ≤ a.2
  | a :: b :: rest => a.1 ≤ a.2 ∧ a.1 ≤ b.1 ∧ a.2 ≤ b.2 ∧ Stair (b :: rest)

def Ascending.dec : (l : List FRange) → Decidable (Ascending l)
  | [] => isTrue trivial
  | [a] => (inferInstance : Decidable (a.1 ≤ a.2))
  | a :: b :: rest =>
    have := Ascending.dec (b :: rest)
    (inferInstance : Decidable (a.1 ≤ a.2 ∧ a.2 ≤ b.1 ∧ Ascending (b :: rest)))
instance (l : List FRange) : Decidable (Ascending l) := Ascending.dec l

def AscN.dec : (l : List Run) → Decidable (AscN l)
  | [] => isTrue trivial
  | [a] => (inferInstance : Decidable (a.1 ≤ a.2))
  | a :: b :: rest =>
    have := AscN.dec (b :: rest)
    (inferInstance : Decidable (a.1 ≤ a.2 ∧ a.2 ≤ b.1 ∧ AscN (b :: rest)))
instance (l : List Run) : Decidable (AscN l) := AscN.dec l

def Stair.dec : (l : List Run) → Decidable (Stair l)
  | [] => isTrue trivial
  | [a] => (inferInstance : Decidable (a.1 ≤ a.2))
  | a :: b :: rest =>
    have := Stair.dec (b :: rest)
    (inferInstance : Decidable (a.1 ≤ a.2 ∧ a.1 ≤ b.1 ∧ a.2 ≤ b.2 ∧ Stair (b :: rest)))
instance (l : List Run) : Decidable (Stair l) := Stair.dec l

theorem Ascending.head {a : FRange} {l : List FRange} (h : Ascending (a :: l)) : a.1 ≤ a.2 := by
  cases l with
  | nil => exact h
  | cons b rest => exact h.1

theorem Ascending.tail {a : FRange} {l : List FRange} (h : Ascending (a :: l)) : Ascending l := by
  cases l with
  | nil => trivial
  | cons b rest => exact h.2.2

/-- in an ascending list every later range starts at or after the end of the head -/
theorem Ascending.head_le {a : FRange} : ∀ {l : List FRange}, Ascending (a :: l) → ∀ r ∈ l, a.2 ≤ r.1 ∧ a.2 ≤ r.2
  | [], _, r, hr => by cases hr
  | b :: rest, h, r, hr => by
    have hb : b.1 ≤ b.2 := Ascending.head h.2.2
    rcases List.mem_cons.1 hr with rfl | hr
    · exact ⟨h.2.1, le_trans h.2.1 hb⟩
    · have := Ascending.head_le h.2.2 r hr
      exact ⟨le_trans (le_trans h.2.1 hb) this.1, le_trans (le_trans h.2.1 hb) this.2⟩

theorem AscN.head {a : Run} {l : List Run} (h : AscN (a :: l)) : a.1 ≤ a.2 := by
  cases l with
  | nil => exact h
  | cons b rest => exact h.1

theorem AscN.tail {a : Run} {l : List Run} (h : AscN (a :: l)) : AscN l := by
  cases l with
  | nil => trivial
  | cons b rest => exact h.2.2

theorem AscN.head_le {a : Run} : ∀ {l : List Run}, AscN (a :: l) → ∀ r ∈ l, a.2 ≤ r.1
  | [], _, r, hr => by cases hr
  | b :: rest, h, r, hr => by
    have hb : b.1 ≤ b.2 := AscN.head h.2.2
    rcases List.mem_cons.1 hr with rfl | hr
    · exact h.2.1
    · have := AscN.head_le h.2.2 r hr
      have := h.2.1
      omega

/-- in particular a later run never starts or ends before the end of an earlier one -/
theorem AscN.pairwise : ∀ {l : List Run}, AscN l → l.Pairwise (fun a b => a.2 ≤ b.1 ∧ a.2 ≤ b.2)
  | [], _ => List.Pairwise.nil
  | a :: l, h => by
    refine List.Pairwise.cons ?_ (AscN.pairwise (AscN.tail h))
    intro r hr
    have h1 := AscN.head_le h r hr
    have h2 : r.1 ≤ r.2 := by
      have ht := AscN.tail h
      clear h h1
      induction l with
      | nil => cases hr
      | cons b rest ih =>
        rcases List.mem_cons.1 hr with rfl | hr
        · exact AscN.head ht
        · exact ih hr (AscN.tail ht)
    exact ⟨h1, by omega⟩

theorem AscN.cons {a : Run} {l : List Run} (ha : a.1 ≤ a.2) (hl : AscN l) (h : ∀ r ∈ l, a.2 ≤ r.1) : AscN (a :: l) := by
  cases l with
  | nil => exact ha
  | cons b rest => exact ⟨ha, h b (by simp), hl⟩

theorem AscN.stair : ∀ {l : List Run}, AscN l → Stair l
  | [], _ => trivial
  | [_], h => h
  | a :: b :: rest, h => by
    have hb : b.1 ≤ b.2 := AscN.head h.2.2
    exact ⟨h.1, by have := h.2.1; have := h.1; omega, by have := h.2.1; omega, AscN.stair h.2.2⟩

/-- ceilings keep the order; dropping the empty ranges keeps it too -/
theorem ceilRuns_ascN : ∀ {l : List FRange}, Ascending l → AscN (ceilRuns l) ∧ ∀ r ∈ ceilRuns l, ∀ a : FRange,
    (∀ q ∈ l, a.2 ≤ q.1 ∧ a.2 ≤ q.2) → ceilUsize a.2 ≤ r.1
  | [], _ => ⟨trivial, fun r hr => by cases hr⟩
  | a :: rest, h => by
    obtain ⟨ih1, ih2⟩ := ceilRuns_ascN (Ascending.tail h)
    have hstep : ceilRuns (a :: rest) =
        if ceilUsize a.1 != ceilUsize a.2 then (ceilUsize a.1, ceilUsize a.2) :: ceilRuns rest else ceilRuns rest := by
      simp only [ceilRuns, List.map_cons, List.filter_cons]
    rw [hstep]
    have ha : ceilUsize a.1 ≤ ceilUsize a.2 := ceilUsize_mono (Ascending.head h)
    split
    · refine ⟨AscN.cons ha ih1 (fun r hr => ih2 r hr a (Ascending.head_le h)), ?_⟩
      intro r hr c hc
      rcases List.mem_cons.1 hr with rfl | hr
      · exact ceilUsize_mono (hc a (by simp)).1
      · exact ih2 r hr c (fun q hq => hc q (List.mem_cons_of_mem _ hq))
    · exact ⟨ih1, fun r hr c hc => ih2 r hr c (fun q hq => hc q (List.mem_cons_of_mem _ hq))⟩

theorem mem_ceilRuns {l : List FRange} {r : Run} (h : r ∈ ceilRuns l) :
    r.1 ≠ r.2 ∧ ∃ q ∈ l, r = (ceilUsize q.1, ceilUsize q.2) := by
  unfold ceilRuns at h
  obtain ⟨h1, h2⟩ := List.mem_filter.1 h
  obtain ⟨q, hq, rfl⟩ := List.mem_map.1 h1
  exact ⟨by simpa using h2, q, hq, rfl⟩

/-- dropping the ranges that round to nothing loses no sample: the rounded ranges cover exactly the samples the
    fractional ranges cover -/
theorem inR_ceilRuns (l : List FRange) (x : Nat) : inR (ceilRuns l) x = covers l x := by
  induction l with
  | nil => rfl
  | cons a rest ih =>
    have hstep : ceilRuns (a :: rest) =
        if ceilUsize a.1 != ceilUsize a.2 then (ceilUsize a.1, ceilUsize a.2) :: ceilRuns rest else ceilRuns rest := by
      simp only [ceilRuns, List.map_cons, List.filter_cons]
    have hc : covers (a :: rest) x = ((decide (a.1 ≤ (x : Rat)) && decide ((x : Rat) < a.2)) || covers rest x) := by
      simp [covers]
    rw [hstep, hc, ← ih]
    have e1 : decide (a.1 ≤ (x : Rat)) = decide (ceilUsize a.1 ≤ x) := decide_eq_decide.2 (ceilUsize_le _ _).symm
    have e2 : decide ((x : Rat) < a.2) = decide (x < ceilUsize a.2) := decide_eq_decide.2 (lt_ceilUsize _ _).symm
    rw [e1, e2]
    split
    · rw [inR_cons]
    · rename_i hne
      have heq : ceilUsize a.1 = ceilUsize a.2 := by simpa using hne
      have : (decide (ceilUsize a.1 ≤ x) && decide (x < ceilUsize a.2)) = false := by
        rw [heq]; simp
      rw [this, Bool.false_or]

/-! ## 3. `mergeRuns` on a staircase -/

theorem Stair.head {a : Run} {l : List Run} (h : Stair (a :: l)) : a.1 ≤ a.2 := by
  cases l with
  | nil => exact h
  | cons b rest => exact h.1

theorem Stair.merge {a b : Run} {rest : List Run} (h : Stair (a :: b :: rest)) : Stair ((a.1, b.2) :: rest) := by
  have hb : b.1 ≤ b.2 := Stair.head h.2.2.2
  cases rest with
  | nil => show a.1 ≤ b.2; have := h.2.1; omega
  | cons c rest' =>
    have hc := h.2.2.2
    exact ⟨by show a.1 ≤ b.2; have := h.2.1; omega, by show a.1 ≤ c.1; have := h.2.1; have := hc.2.1; omega, hc.2.2.1, hc.2.2.2⟩

theorem mergeRuns_cons_cons (a b : Run) (rest : List Run) :
    mergeRuns (a :: b :: rest) = if a.2 ≥ b.1 then mergeRuns ((a.1, b.2) :: rest) else a :: mergeRuns (b :: rest) := by
  rw [mergeRuns]

/-- merging keeps the set of covered samples, as long as no run is nested inside an earlier one -/
theorem mergeRuns_inR : ∀ (n : Nat) (l : List Run), l.length ≤ n → Stair l → ∀ x, inR (mergeRuns l) x = inR l x
  | 0, l, h, _, x => by
    have : l = [] := List.length_eq_zero_iff.1 (Nat.le_zero.1 h)
    subst this; rw [mergeRuns_nil]
  | n + 1, [], _, _, x => by rw [mergeRuns_nil]
  | n + 1, [a], _, _, x => by rw [mergeRuns_single]
  | n + 1, a :: b :: rest, h, hs, x => by
    rw [mergeRuns_cons_cons]
    have hb : b.1 ≤ b.2 := Stair.head hs.2.2.2
    split
    · rename_i hge
      rw [mergeRuns_inR n _ (by simp at h ⊢; omega) hs.merge x, inR_cons, inR_cons, inR_cons, ← Bool.or_assoc]
      congr 1
      have h1 := hs.1; have h2 := hs.2.1; have h3 := hs.2.2.1
      by_cases c1 : a.1 ≤ x <;> by_cases c2 : x < a.2 <;> by_cases c3 : b.1 ≤ x <;> by_cases c4 : x < b.2 <;>
        simp [c1, c2, c3, c4] <;> omega
    · rw [inR_cons, inR_cons (l := b :: rest), mergeRuns_inR n _ (by simp at h ⊢; omega) hs.2.2.2 x]

/-- on a staircase of non-empty runs inside `[0, w]`, merging produces a `Good` list: non-empty runs, each starting
    strictly after the end of the one before -/
theorem mergeRuns_good {w : Nat} : ∀ (n : Nat) (l : List Run), l.length ≤ n → Stair l →
    (∀ r ∈ l, r.1 < r.2 ∧ r.2 ≤ w) → ∀ a, (∀ u t, l = u :: t → a ≤ u.1) → Good w a (mergeRuns l)
  | 0, l, h, _, _, _, _ => by
    have : l = [] := List.length_eq_zero_iff.1 (Nat.le_zero.1 h)
    subst this; rw [mergeRuns_nil]; trivial
  | n + 1, [], _, _, _, _, _ => by rw [mergeRuns_nil]; trivial
  | n + 1, [u], _, _, hne, a, ha => by
    rw [mergeRuns_single]
    exact ⟨ha u [] rfl, (hne u (by simp)).1, (hne u (by simp)).2, trivial⟩
  | n + 1, u :: v :: rest, h, hs, hne, a, ha => by
    rw [mergeRuns_cons_cons]
    have hu := hne u (by simp)
    have hv := hne v (by simp)
    split
    · refine mergeRuns_good n _ (by simp at h ⊢; omega) hs.merge ?_ a ?_
      · intro r hr
        rcases List.mem_cons.1 hr with rfl | hr
        · exact ⟨by show u.1 < v.2; have := hs.2.2.1; omega, hv.2⟩
        · exact hne r (by simp [hr])
      · intro p t hp
        have : p = (u.1, v.2) := (List.cons.inj hp.symm).1.symm ▸ rfl
        rw [this]; exact ha u _ rfl
    · rename_i hlt
      refine ⟨ha u _ rfl, hu.1, hu.2, ?_⟩
      refine mergeRuns_good n _ (by simp at h ⊢; omega) hs.2.2.2 (fun r hr => hne r (List.mem_cons_of_mem _ hr)) _ ?_
      intro p t hp
      have : p = v := (List.cons.inj hp).1.symm
      rw [this]; omega

/-! ## 4. a `Good` list is determined by the samples it covers -/

theorem _root_.ScanLemmas.Good.inR_start {w a : Nat} {u : Run} {l : List Run} (h : Good w a (u :: l)) : inR (u :: l) u.1 = true := by
  rw [inR_cons]
  have := h.2.1
  simp; left; omega

theorem good_eq_of_inR {w : Nat} : ∀ {l₁ l₂ : List Run} {a b : Nat}, Good w a l₁ → Good w b l₂ →
    (∀ x, inR l₁ x = inR l₂ x) → l₁ = l₂
  | [], [], _, _, _, _, _ => rfl
  | [], v :: s, _, _, _, g2, h => by
    have := h v.1
    rw [g2.inR_start] at this
    simp at this
  | u :: t, [], _, _, g1, _, h => by
    have := h u.1
    rw [g1.inR_start] at this
    simp at this
  | u :: t, v :: s, a, b, g1, g2, h => by
    have hu := g1.2.1
    have hv := g2.2.1
    -- the first covered sample
    have h1 : u.1 = v.1 := by
      rcases Nat.lt_trichotomy u.1 v.1 with hlt | heq | hgt
      · have e := h u.1
        rw [g1.inR_start, g2.raise_head.inR_false hlt] at e
        cases e
      · exact heq
      · have e := h v.1
        rw [g2.inR_start, g1.raise_head.inR_false hgt] at e
        cases e
    -- the first uncovered sample after it
    have h2 : u.2 = v.2 := by
      rcases Nat.lt_trichotomy u.2 v.2 with hlt | heq | hgt
      · have e := h u.2
        rw [g1.inR_head (Nat.le_refl _), g2.inR_head (Nat.le_of_lt hlt)] at e
        have : decide (u.2 < u.2) = false := by simp
        rw [this, Bool.and_false] at e
        have e1 : decide (v.1 ≤ u.2) = true := by apply decide_eq_true; omega
        have e2 : decide (u.2 < v.2) = true := by apply decide_eq_true; omega
        rw [e1, e2] at e
        cases e
      · exact heq
      · have e := h v.2
        rw [g2.inR_head (Nat.le_refl _), g1.inR_head (Nat.le_of_lt hgt)] at e
        have : decide (v.2 < v.2) = false := by simp
        rw [this, Bool.and_false] at e
        have e1 : decide (u.1 ≤ v.2) = true := by apply decide_eq_true; omega
        have e2 : decide (v.2 < u.2) = true := by apply decide_eq_true; omega
        rw [e1, e2] at e
        cases e
    have huv : u = v := Prod.ext h1 h2
    subst huv
    have ht : ∀ x, inR t x = inR s x := by
      intro x
      by_cases hx : u.2 < x
      · have := h x
        rwa [inR_cons_after hx, inR_cons_after hx] at this
      · rw [g1.tail.inR_false (by omega), g2.tail.inR_false (by omega)]
    rw [good_eq_of_inR g1.tail g2.tail ht]

/-! ## 5. `roundFrac` is the run-length encoding of the sampled row -/

theorem roundFrac_eq (l : List FRange) :
    roundFrac l = if (ceilRuns l).length ≤ 1 then ceilRuns l else mergeRuns (ceilRuns l) := rfl

theorem mergeRuns_short {l : List Run} (h : l.length ≤ 1) : mergeRuns l = l := by
  match l, h with
  | [], _ => exact mergeRuns_nil
  | [a], _ => exact mergeRuns_single a

theorem roundFrac_eq_merge (l : List FRange) : roundFrac l = mergeRuns (ceilRuns l) := by
  rw [roundFrac_eq]
  split
  · rename_i h; rw [mergeRuns_short h]
  · rfl

theorem ceilRuns_nonempty {l : List FRange} (h : Ascending l) {w : Nat} (hw : ∀ q ∈ l, q.2 ≤ (w : Rat)) :
    ∀ r ∈ ceilRuns l, r.1 < r.2 ∧ r.2 ≤ w := by
  intro r hr
  obtain ⟨hne, q, hq, rfl⟩ := mem_ceilRuns hr
  have hq12 : q.1 ≤ q.2 := by
    clear hne hr hw
    induction l with
    | nil => cases hq
    | cons a rest ih =>
      rcases List.mem_cons.1 hq with rfl | hq
      · exact Ascending.head h
      · exact ih (Ascending.tail h) hq
  have := ceilUsize_mono hq12
  exact ⟨by simp only at hne ⊢; omega, (ceilUsize_le _ _).2 (hw q hq)⟩

theorem roundFrac_good {l : List FRange} (h : Ascending l) {w : Nat} (hw : ∀ q ∈ l, q.2 ≤ (w : Rat)) :
    Good w 0 (roundFrac l) := by
  rw [roundFrac_eq_merge]
  exact mergeRuns_good _ _ (Nat.le_refl _) (ceilRuns_ascN h).1.stair (ceilRuns_nonempty h hw) 0 (fun _ _ _ => Nat.zero_le _)

theorem inR_roundFrac {l : List FRange} (h : Ascending l) (x : Nat) : inR (roundFrac l) x = covers l x := by
  rw [roundFrac_eq_merge, mergeRuns_inR _ _ (Nat.le_refl _) (ceilRuns_ascN h).1.stair, inR_ceilRuns]

theorem length_sampleRow (w : Nat) (l : List FRange) : (sampleRow w l).length = w := by
  simp [sampleRow]

theorem getD_sampleRow (w : Nat) (l : List FRange) (x : Nat) :
    (sampleRow w l).getD x false = (decide (x < w) && covers l x) := by
  unfold sampleRow
  by_cases hx : x < w
  · rw [List.getD_eq_getElem?_getD, List.getElem?_map, List.getElem?_range hx]
    simp [hx]
  · rw [List.getD_eq_getElem?_getD, List.getElem?_eq_none_iff.2 (by simp; omega)]
    simp [hx]

theorem covers_false_of_ge {l : List FRange} {w : Nat} (hw : ∀ q ∈ l, q.2 ≤ (w : Rat)) {x : Nat} (hx : w ≤ x) :
    covers l x = false := by
  unfold covers
  rw [List.any_eq_false]
  intro q hq
  have h1 := hw q hq
  have h2 : (w : Rat) ≤ (x : Rat) := by exact_mod_cast hx
  have : ¬ ((x : Rat) < q.2) := not_lt.2 (le_trans h1 h2)
  simp [this]

theorem roundFrac_eq_roundedRuns {l : List FRange} (h : Ascending l) {w : Nat} (hw : ∀ q ∈ l, q.2 ≤ (w : Rat)) :
    roundFrac l = roundedRuns (sampleRow w l) := by
  refine good_eq_of_inR (roundFrac_good h hw) (roundedRuns_good (w := w) _ (Nat.le_of_eq (length_sampleRow w l))) ?_
  intro x
  rw [inR_roundFrac h, inR_roundedRuns, getD_sampleRow]
  by_cases hx : x < w
  · simp [hx]
  · rw [covers_false_of_ge hw (by omega)]; simp

/-! ## 6. the flat sample vector -/

theorem index_div_mod {w x y : Nat} (hx : x < w) : (x + y * w) / w = y ∧ (x + y * w) % w = x := by
  have hw : 0 < w := by omega
  constructor
  · rw [Nat.add_mul_div_right _ _ hw, Nat.div_eq_of_lt hx, Nat.zero_add]
  · rw [Nat.add_mul_mod_self_right, Nat.mod_eq_of_lt hx]

theorem getD_range_map {α} (n : Nat) (f : Nat → α) (d : α) {i : Nat} (hi : i < n) :
    ((List.range n).map f).getD i d = f i := by
  rw [List.getD_eq_getElem?_getD, List.getElem?_map, List.getElem?_range hi]
  rfl

end RoundLemmas
