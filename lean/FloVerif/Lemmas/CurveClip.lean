/-
Helper lemmas for C02, part 2: sections, hulls and boxes; the generated `curve_intersects_curve_clip_inner` and
`curve_intersects_curve_clip` in compact form (`innerSpec`, `top_eq`: equal to the generated terms by `rfl`); the case analysis of one loop iteration.
-/
import FloVerif.Lemmas.ClipExact
import FloVerif.Props.C05
import FloVerif.Gen.CurveClip
import FloVerif.Model.CurveClip
import Mathlib.Tactic.Ring
import Mathlib.Tactic.NormNum.OfScientific
import Mathlib.Tactic.FieldSimp
import Mathlib.Tactic.Linarith
import Mathlib.Tactic.Positivity

set_option linter.unusedSectionVars false
set_option linter.unusedVariables false
namespace CurveClipLemmas
open Prelude Gen FatLineLemmas ClipExact Model.CurveClip

variable {K : Type} [Field K] [LinearOrder K] [IsStrictOrderedRing K] [Inhabited K]

local instance : FAbs K := ⟨fun a => |a|⟩

/-! # Part 1: sections -/

/-- a section of [0,1]: `0 ≤ t_c`, `0 ≤ t_m`, `t_c + t_m ≤ 1` -/
def Sub01 (S : SectionT K) : Prop := 0 ≤ S.t_c ∧ 0 ≤ S.t_m ∧ S.t_c + S.t_m ≤ 1

/-- the parameter `s` of the original curve belongs to the section `S` (at the section parameter `u ∈ [0,1]`) -/
def InSec (S : SectionT K) (s : K) : Prop := ∃ u, 0 ≤ u ∧ u ≤ 1 ∧ section_t_for_t S u = s

theorem lit05 : (0.5 : K) = 1/2 := by norm_num

theorem sub01_whole : Sub01 (section_new (0.0 : K) (1.0 : K)) := by
  simp only [Sub01, section_new, lit0, lit1]; norm_num

theorem inSec_whole (s : K) (h0 : 0 ≤ s) (h1 : s ≤ 1) : InSec (section_new (0.0 : K) (1.0 : K)) s := by
  refine ⟨s, h0, h1, ?_⟩
  simp only [section_t_for_t, section_new, lit0, lit1]; ring

theorem inSec_bounds (S : SectionT K) (hS : Sub01 S) (s : K) (h : InSec S s) : S.t_c ≤ s ∧ s ≤ S.t_c + S.t_m := by
  obtain ⟨u, u0, u1, rfl⟩ := h
  obtain ⟨_, m0, _⟩ := hS
  simp only [section_t_for_t]
  constructor
  · nlinarith
  · nlinarith

theorem inSec_of_bounds (S : SectionT K) (hS : Sub01 S) (s : K) (h0 : S.t_c ≤ s) (h1 : s ≤ S.t_c + S.t_m) : InSec S s := by
  obtain ⟨_, m0, _⟩ := hS
  rcases eq_or_lt_of_le m0 with e | hpos
  · refine ⟨0, le_rfl, zero_le_one, ?_⟩
    simp only [section_t_for_t]
    rw [← e] at h1 ⊢
    linarith
  · refine ⟨(s - S.t_c) / S.t_m, div_nonneg (by linarith) m0, (div_le_one hpos).2 (by linarith), ?_⟩
    simp only [section_t_for_t]
    field_simp
    ring

theorem inSec_01 (S : SectionT K) (hS : Sub01 S) (s : K) (h : InSec S s) : 0 ≤ s ∧ s ≤ 1 := by
  obtain ⟨a, b⟩ := inSec_bounds S hS s h
  obtain ⟨c0, _, c1⟩ := hS
  exact ⟨le_trans c0 a, le_trans b c1⟩

/-- a sub-range `0 ≤ a ≤ b ≤ 1` of a section of [0,1] is a section of [0,1] -/
theorem sub01_subsection (S : SectionT K) (hS : Sub01 S) (a b : K) (ha : 0 ≤ a) (hab : a ≤ b) (hb : b ≤ 1) :
    Sub01 (section_subsection S a b) := by
  obtain ⟨c0, m0, c1⟩ := hS
  simp only [Sub01, section_subsection, section_new, section_t_for_t]
  refine ⟨?_, ?_, ?_⟩
  · nlinarith
  · nlinarith
  · nlinarith

/-- a parameter of the section inside the sub-range stays inside the subsection -/
theorem inSec_subsection (S : SectionT K) (a b u : K) (hau : a ≤ u) (hub : u ≤ b) :
    InSec (section_subsection S a b) (section_t_for_t S u) := by
  rcases eq_or_lt_of_le (le_trans hau hub) with e | hlt
  · refine ⟨0, le_rfl, zero_le_one, ?_⟩
    have : u = a := le_antisymm (by rw [e]; exact hub) hau
    subst this
    simp only [section_t_for_t, section_subsection, section_new]
    ring
  · have hpos : 0 < b - a := by linarith
    refine ⟨(u - a) / (b - a), div_nonneg (by linarith) (le_of_lt hpos), (div_le_one hpos).2 (by linarith), ?_⟩
    simp only [section_t_for_t, section_subsection, section_new]
    field_simp
    ring

/-- the two halves cover the section -/
theorem inSec_halves (S : SectionT K) (s : K) (h : InSec S s) :
    InSec (section_subsection S (0.0 : K) (0.5 : K)) s ∨ InSec (section_subsection S (0.5 : K) (1.0 : K)) s := by
  obtain ⟨u, u0, u1, rfl⟩ := h
  rw [lit0, lit1, lit05]
  rcases le_total u (1/2) with hle | hge
  · exact Or.inl (inSec_subsection S 0 (1/2) u u0 hle)
  · exact Or.inr (inSec_subsection S (1/2) 1 u hge u1)

theorem sub01_halves (S : SectionT K) (hS : Sub01 S) :
    Sub01 (section_subsection S (0.0 : K) (0.5 : K)) ∧ Sub01 (section_subsection S (0.5 : K) (1.0 : K)) := by
  rw [lit0, lit1, lit05]
  exact ⟨sub01_subsection S hS 0 (1/2) le_rfl (by norm_num) (by norm_num),
         sub01_subsection S hS (1/2) 1 (by norm_num) (by norm_num) le_rfl⟩

/-- `t_for_t` of a section of [0,1] maps [0,1] into [0,1] -/
theorem t_for_t_01 (S : SectionT K) (hS : Sub01 S) (u : K) (u0 : 0 ≤ u) (u1 : u ≤ 1) :
    0 ≤ section_t_for_t S u ∧ section_t_for_t S u ≤ 1 :=
  inSec_01 S hS _ ⟨u, u0, u1, rfl⟩

/-- the mid-parameter the code reports for a section: `(t_min + t_max) * 0.5` of `original_curve_t_values` -/
def midT (S : SectionT K) : K :=
  ((section_original_curve_t_values S).t0 + (section_original_curve_t_values S).t1) * (0.5 : K)

theorem midT_eq (S : SectionT K) : midT S = S.t_c + S.t_m / 2 := by
  simp only [midT, section_original_curve_t_values, lit05]; ring

theorem midT_inSec (S : SectionT K) : InSec S (midT S) := by
  refine ⟨1/2, by norm_num, by norm_num, ?_⟩
  rw [midT_eq]; simp only [section_t_for_t]; ring

/-! ## the control points of a section describe the section (from C05) -/

/-- the point of the curve `w` at parameter `t` -/
abbrev ptOf (w1 w2 w3 w4 : V2 K) (t : K) : V2 K := curve_point_at_pos w1 w2 w3 w4 t

/-- SECTION POINTS: evaluating the four points the code computes for a section (start, the two cached control points,
    end) at `u` gives the point of the original curve at `t_for_t(u)`; for every section with `t_c ≤ 1` and
    (`t_c = 1 → t_m = 0`), in particular every section of [0,1].  (2-D form of C05's `section_control_points_same_cubic`.) -/
theorem sec_point (w1 w2 w3 w4 : V2 K) (S : SectionT K) (hc : S.t_c ≤ 1) (hm : S.t_c = 1 → S.t_m = 0) (u : K) :
    de_casteljau4 u (section_start_point w1 w2 w3 w4 S) (section_control_points w1 w2 w3 w4 S).t0
      (section_control_points w1 w2 w3 w4 S).t1 (section_end_point w1 w2 w3 w4 S)
      = ptOf w1 w2 w3 w4 (section_t_for_t S u) := by
  have hS : S = section_new S.t_c (S.t_c + S.t_m) := by
    cases S; simp only [section_new, add_sub_cancel_left]
  have hb : S.t_c = 1 → S.t_c + S.t_m = 1 := by intro e; rw [hm e, e]; ring
  have hx := C05.section_control_points_same_cubic S.t_c (S.t_c + S.t_m) u w1.x w2.x w3.x w4.x hc hb
  have hy := C05.section_control_points_same_cubic S.t_c (S.t_c + S.t_m) u w1.y w2.y w3.y w4.y hc hb
  simp only at hx hy
  rw [← hS] at hx hy
  obtain ⟨cx0, cx1⟩ := C05.section_control_points_V2 w1 w2 w3 w4 S
  have targ : S.t_c + u * (S.t_c + S.t_m - S.t_c) = section_t_for_t S u := by
    simp only [section_t_for_t]; ring
  rw [targ] at hx hy
  rw [← C05.basis_eq_de_casteljau4_V2, C05.basis_V2, cx0, cx1]
  show V2.mk _ _ = basis (section_t_for_t S u) w1 w2 w3 w4
  rw [C05.basis_V2]
  congr 1

theorem sec_point' (w1 w2 w3 w4 : V2 K) (S : SectionT K) (hS : Sub01 S) (u : K) :
    de_casteljau4 u (section_start_point w1 w2 w3 w4 S) (section_control_points w1 w2 w3 w4 S).t0
      (section_control_points w1 w2 w3 w4 S).t1 (section_end_point w1 w2 w3 w4 S)
      = ptOf w1 w2 w3 w4 (section_t_for_t S u) := by
  obtain ⟨c0, m0, c1⟩ := hS
  refine sec_point w1 w2 w3 w4 S (by linarith) ?_ u
  intro e; rw [e] at c1; linarith

/-! # Part 2: hulls and boxes -/

/-- a value between the least and the greatest of four numbers is within `√(3·Σ leg²)` of any other such value -/
theorem range4_sq (x0 x1 x2 x3 p z : K)
    (hp0 : min (min (min x0 x3) x1) x2 ≤ p) (hp1 : p ≤ max (max (max x0 x3) x1) x2)
    (hz0 : min (min (min x0 x3) x1) x2 ≤ z) (hz1 : z ≤ max (max (max x0 x3) x1) x2) :
    (p - z) ^ 2 ≤ 3 * ((x1 - x0) ^ 2 + (x2 - x1) ^ 2 + (x2 - x3) ^ 2) := by
  have hw : ∀ a b : K, (x0 = a ∨ x1 = a ∨ x2 = a ∨ x3 = a) → (x0 = b ∨ x1 = b ∨ x2 = b ∨ x3 = b) →
      (a - b) ^ 2 ≤ 3 * ((x1 - x0) ^ 2 + (x2 - x1) ^ 2 + (x2 - x3) ^ 2) := by
    intro a b ha hb
    rcases ha with rfl | rfl | rfl | rfl <;> rcases hb with rfl | rfl | rfl | rfl <;>
      linarith [sq_nonneg (x1 - x0), sq_nonneg (x2 - x1), sq_nonneg (x2 - x3),
        sq_nonneg ((x1 - x0) - (x2 - x1)), sq_nonneg ((x1 - x0) + (x2 - x3)), sq_nonneg ((x2 - x1) + (x2 - x3))]
  have hmax : ∃ a, (x0 = a ∨ x1 = a ∨ x2 = a ∨ x3 = a) ∧ max (max (max x0 x3) x1) x2 = a := by
    rcases max_choice (max (max x0 x3) x1) x2 with e | e
    · rcases max_choice (max x0 x3) x1 with e' | e'
      · rcases max_choice x0 x3 with e'' | e''
        · exact ⟨x0, Or.inl rfl, by rw [e, e', e'']⟩
        · exact ⟨x3, Or.inr (Or.inr (Or.inr rfl)), by rw [e, e', e'']⟩
      · exact ⟨x1, Or.inr (Or.inl rfl), by rw [e, e']⟩
    · exact ⟨x2, Or.inr (Or.inr (Or.inl rfl)), e⟩
  have hmin : ∃ b, (x0 = b ∨ x1 = b ∨ x2 = b ∨ x3 = b) ∧ min (min (min x0 x3) x1) x2 = b := by
    rcases min_choice (min (min x0 x3) x1) x2 with e | e
    · rcases min_choice (min x0 x3) x1 with e' | e'
      · rcases min_choice x0 x3 with e'' | e''
        · exact ⟨x0, Or.inl rfl, by rw [e, e', e'']⟩
        · exact ⟨x3, Or.inr (Or.inr (Or.inr rfl)), by rw [e, e', e'']⟩
      · exact ⟨x1, Or.inr (Or.inl rfl), by rw [e, e']⟩
    · exact ⟨x2, Or.inr (Or.inr (Or.inl rfl)), e⟩
  obtain ⟨a, ha, ea⟩ := hmax
  obtain ⟨b, hb, eb⟩ := hmin
  rw [ea] at hp1 hz1
  rw [eb] at hp0 hz0
  have hab := hw a b ha hb
  have h1 : p - z ≤ a - b := by linarith
  have h2 : z - p ≤ a - b := by linarith
  have h3 : 0 ≤ a - b := by linarith
  calc (p - z) ^ 2 ≤ (a - b) ^ 2 := by nlinarith
    _ ≤ _ := hab

theorem smallest_eq_min (a b : K) : f64_from_smallest_components a b = min a b := by
  simp only [f64_from_smallest_components, decide_eq_true_eq]
  rcases lt_or_ge a b with h | h
  · rw [if_pos h, min_eq_left (le_of_lt h)]
  · rw [if_neg (not_lt.2 h), min_eq_right h]

theorem biggest_eq_max (a b : K) : f64_from_biggest_components a b = max a b := by
  simp only [f64_from_biggest_components, decide_eq_true_eq, gt_iff_lt]
  rcases lt_or_ge b a with h | h
  · rw [if_pos h, max_eq_left (le_of_lt h)]
  · rw [if_neg (not_lt.2 h), max_eq_right h]

/-- a cubic stays between the least and the greatest of its four coefficients on [0,1] -/
theorem dc4_range (u x0 x1 x2 x3 : K) (u0 : 0 ≤ u) (u1 : u ≤ 1) :
    min (min (min x0 x3) x1) x2 ≤ de_casteljau4 u x0 x1 x2 x3 ∧
    de_casteljau4 u x0 x1 x2 x3 ≤ max (max (max x0 x3) x1) x2 := by
  rw [dc4_bernstein]
  refine C13.bernstein_between u x0 x1 x2 x3 _ _ u0 u1 ⟨?_, ?_⟩ ⟨?_, ?_⟩ ⟨?_, ?_⟩ ⟨?_, ?_⟩
  · exact le_trans (min_le_left _ _) (le_trans (min_le_left _ _) (min_le_left _ _))
  · exact le_trans (le_max_left _ _) (le_trans (le_max_left _ _) (le_max_left _ _))
  · exact le_trans (min_le_left _ _) (min_le_right _ _)
  · exact le_trans (le_max_right _ _) (le_max_left _ _)
  · exact min_le_right _ _
  · exact le_max_right _ _
  · exact le_trans (min_le_left _ _) (le_trans (min_le_left _ _) (min_le_right _ _))
  · exact le_trans (le_max_right _ _) (le_trans (le_max_left _ _) (le_max_left _ _))

/-- the point `q` lies in the box `b` -/
def InBox (b : Bounds2 K) (q : V2 K) : Prop := b.min_.x ≤ q.x ∧ q.x ≤ b.max_.x ∧ b.min_.y ≤ q.y ∧ q.y ≤ b.max_.y

/-- two boxes with a common point overlap -/
theorem overlaps_of_common (b1 b2 : Bounds2 K) (q : V2 K) (h1 : InBox b1 q) (h2 : InBox b2 q) :
    bounds_overlaps b1 b2 = true := by
  obtain ⟨a0, a1, a2, a3⟩ := h1
  obtain ⟨c0, c1, c2, c3⟩ := h2
  have e1 : ¬ (b1.min_.x > b2.max_.x) := not_lt.2 (le_trans a0 c1)
  have e2 : ¬ (b2.min_.x > b1.max_.x) := not_lt.2 (le_trans c0 a1)
  have e3 : ¬ (b1.min_.y > b2.max_.y) := not_lt.2 (le_trans a2 c3)
  have e4 : ¬ (b2.min_.y > b1.max_.y) := not_lt.2 (le_trans c2 a3)
  simp [bounds_overlaps, getc, e1, e2, e3, e4]

/-- two overlapping boxes have a common point -/
theorem common_of_overlaps (b1 b2 : Bounds2 K) (hb1 : b1.min_.x ≤ b1.max_.x ∧ b1.min_.y ≤ b1.max_.y)
    (hb2 : b2.min_.x ≤ b2.max_.x ∧ b2.min_.y ≤ b2.max_.y) (h : bounds_overlaps b1 b2 = true) :
    ∃ q, InBox b1 q ∧ InBox b2 q := by
  have e1 : b1.min_.x ≤ b2.max_.x := by
    by_contra hc
    have : bounds_overlaps b1 b2 = false := by simp [bounds_overlaps, getc, not_le.1 hc]
    rw [this] at h; exact absurd h (by simp)
  have e2 : b2.min_.x ≤ b1.max_.x := by
    by_contra hc
    have : bounds_overlaps b1 b2 = false := by simp [bounds_overlaps, getc, not_lt.2 e1, not_le.1 hc]
    rw [this] at h; exact absurd h (by simp)
  have e3 : b1.min_.y ≤ b2.max_.y := by
    by_contra hc
    have : bounds_overlaps b1 b2 = false := by simp [bounds_overlaps, getc, not_lt.2 e1, not_lt.2 e2, not_le.1 hc]
    rw [this] at h; exact absurd h (by simp)
  have e4 : b2.min_.y ≤ b1.max_.y := by
    by_contra hc
    have : bounds_overlaps b1 b2 = false := by
      simp [bounds_overlaps, getc, not_lt.2 e1, not_lt.2 e2, not_lt.2 e3, not_le.1 hc]
    rw [this] at h; exact absurd h (by simp)
  refine ⟨⟨max b1.min_.x b2.min_.x, max b1.min_.y b2.min_.y⟩, ⟨le_max_left _ _, max_le hb1.1 e2, le_max_left _ _, max_le hb1.2 e4⟩,
    ⟨le_max_right _ _, max_le e1 hb2.1, le_max_right _ _, max_le e3 hb2.2⟩⟩

/-- the box the code computes for a section: least / greatest coordinates of its four points -/
theorem box_eq (w1 w2 w3 w4 : V2 K) (S : SectionT K) :
    let p0 := section_start_point w1 w2 w3 w4 S
    let p1 := (section_control_points w1 w2 w3 w4 S).t0
    let p2 := (section_control_points w1 w2 w3 w4 S).t1
    let p3 := section_end_point w1 w2 w3 w4 S
    section_fast_bounding_box w1 w2 w3 w4 S =
      { min_ := ⟨min (min (min p0.x p3.x) p1.x) p2.x, min (min (min p0.y p3.y) p1.y) p2.y⟩,
        max_ := ⟨max (max (max p0.x p3.x) p1.x) p2.x, max (max (max p0.y p3.y) p1.y) p2.y⟩ } := by
  simp only [section_fast_bounding_box, coord2_from_smallest_components, coord2_from_biggest_components,
    smallest_eq_min, biggest_eq_max]

/-- every point of a section lies in the box of the section -/
theorem sec_point_in_box (w1 w2 w3 w4 : V2 K) (S : SectionT K) (hS : Sub01 S) (s : K) (h : InSec S s) :
    InBox (section_fast_bounding_box w1 w2 w3 w4 S) (ptOf w1 w2 w3 w4 s) := by
  obtain ⟨u, u0, u1, rfl⟩ := h
  rw [← sec_point' w1 w2 w3 w4 S hS u, box_eq]
  simp only [InBox, dc4_x, dc4_y]
  obtain ⟨a, b⟩ := dc4_range u (section_start_point w1 w2 w3 w4 S).x (section_control_points w1 w2 w3 w4 S).t0.x
    (section_control_points w1 w2 w3 w4 S).t1.x (section_end_point w1 w2 w3 w4 S).x u0 u1
  obtain ⟨c, d⟩ := dc4_range u (section_start_point w1 w2 w3 w4 S).y (section_control_points w1 w2 w3 w4 S).t0.y
    (section_control_points w1 w2 w3 w4 S).t1.y (section_end_point w1 w2 w3 w4 S).y u0 u1
  exact ⟨a, b, c, d⟩

/-- squared distance of two points -/
def dist2 (p q : V2 K) : K := (p.x - q.x) ^ 2 + (p.y - q.y) ^ 2

/-- the hull length of a section that is not `is_tiny` -/
theorem hull_length_of_not_tiny (w1 w2 w3 w4 : V2 K) (S : SectionT K) (h : section_is_tiny S = false) :
    curve_hull_length_sq w1 w2 w3 w4 S =
      dist2 (section_control_points w1 w2 w3 w4 S).t0 (section_start_point w1 w2 w3 w4 S) +
      dist2 (section_control_points w1 w2 w3 w4 S).t1 (section_control_points w1 w2 w3 w4 S).t0 +
      dist2 (section_control_points w1 w2 w3 w4 S).t1 (section_end_point w1 w2 w3 w4 S) := by
  simp only [curve_hull_length_sq, h, Bool.false_eq_true, if_false, dist2, dot, lit0, V2_sub_x, V2_sub_y]
  ring

/-- a `is_tiny` section has hull length 0 whatever its size -/
theorem hull_length_of_tiny (w1 w2 w3 w4 : V2 K) (S : SectionT K) (h : section_is_tiny S = true) :
    curve_hull_length_sq w1 w2 w3 w4 S = 0 := by
  simp only [curve_hull_length_sq, h, if_true, lit0]

/-- any two points of the box of a section that is not tiny are within `√(3·hull_length_sq)` of each other -/
theorem box_diameter (w1 w2 w3 w4 : V2 K) (S : SectionT K) (h : section_is_tiny S = false) (p q : V2 K)
    (hp : InBox (section_fast_bounding_box w1 w2 w3 w4 S) p) (hq : InBox (section_fast_bounding_box w1 w2 w3 w4 S) q) :
    dist2 p q ≤ 3 * curve_hull_length_sq w1 w2 w3 w4 S := by
  rw [hull_length_of_not_tiny w1 w2 w3 w4 S h]
  rw [box_eq] at hp hq
  simp only [InBox] at hp hq
  obtain ⟨p0, p1, p2, p3⟩ := hp
  obtain ⟨q0, q1, q2, q3⟩ := hq
  have hx := range4_sq _ _ _ _ p.x q.x p0 p1 q0 q1
  have hy := range4_sq _ _ _ _ p.y q.y p2 p3 q2 q3
  simp only [dist2]
  linarith

theorem dist2_triangle (p q z : V2 K) : dist2 p q ≤ 2 * (dist2 p z + dist2 q z) := by
  simp only [dist2]
  nlinarith [sq_nonneg ((p.x - z.x) + (q.x - z.x)), sq_nonneg ((p.y - z.y) + (q.y - z.y))]

/-- the box of a section is not inverted -/
theorem box_ordered (w1 w2 w3 w4 : V2 K) (S : SectionT K) :
    (section_fast_bounding_box w1 w2 w3 w4 S).min_.x ≤ (section_fast_bounding_box w1 w2 w3 w4 S).max_.x ∧
    (section_fast_bounding_box w1 w2 w3 w4 S).min_.y ≤ (section_fast_bounding_box w1 w2 w3 w4 S).max_.y := by
  rw [box_eq]
  simp only
  constructor
  · exact le_trans (le_trans (min_le_left _ _) (le_trans (min_le_left _ _) (min_le_left _ _)))
      (le_trans (le_max_left _ _) (le_trans (le_max_left _ _) (le_max_left _ _)))
  · exact le_trans (le_trans (min_le_left _ _) (le_trans (min_le_left _ _) (min_le_left _ _)))
      (le_trans (le_max_left _ _) (le_trans (le_max_left _ _) (le_max_left _ _)))

/-! # Part 3: the generated function in compact form -/

section Spec
variable [FSqrt K] [FConsts K]

abbrev Hits (K : Type) := List (T2 K K)
/-- loop state, in the order the translator threads it: `(curve2, curve1, curve1_last_len, curve2_last_len)` -/
abbrev St (K : Type) := T4 (SectionT K) (SectionT K) K K
abbrev Exit (K : Type) := Sum (St K) (LoopExit (St K) (Hits K))

variable (rec_ : SectionT K → SectionT K → K → K → Hits K) (cx : Ctx K) (acc acc2 : K)

/-- `clip(&curve1, &curve2)`: the section `S1` of the first curve clipped against the section `S2` of the second -/
def clipAB (S1 S2 : SectionT K) : ClipResult K :=
  clip (section_start_point cx.a1 cx.a2 cx.a3 cx.a4 S1) (section_control_points cx.a1 cx.a2 cx.a3 cx.a4 S1).t0
    (section_control_points cx.a1 cx.a2 cx.a3 cx.a4 S1).t1 (section_end_point cx.a1 cx.a2 cx.a3 cx.a4 S1)
    (section_start_point cx.b1 cx.b2 cx.b3 cx.b4 S2) (section_control_points cx.b1 cx.b2 cx.b3 cx.b4 S2).t0
    (section_control_points cx.b1 cx.b2 cx.b3 cx.b4 S2).t1 (section_end_point cx.b1 cx.b2 cx.b3 cx.b4 S2)

/-- `clip(&curve2, &curve1)` -/
def clipBA (S2 S1 : SectionT K) : ClipResult K :=
  clip (section_start_point cx.b1 cx.b2 cx.b3 cx.b4 S2) (section_control_points cx.b1 cx.b2 cx.b3 cx.b4 S2).t0
    (section_control_points cx.b1 cx.b2 cx.b3 cx.b4 S2).t1 (section_end_point cx.b1 cx.b2 cx.b3 cx.b4 S2)
    (section_start_point cx.a1 cx.a2 cx.a3 cx.a4 S1) (section_control_points cx.a1 cx.a2 cx.a3 cx.a4 S1).t0
    (section_control_points cx.a1 cx.a2 cx.a3 cx.a4 S1).t1 (section_end_point cx.a1 cx.a2 cx.a3 cx.a4 S1)

/-- `curve_hull_length_sq` of a section of the first / second curve -/
def len1 (S : SectionT K) : K := curve_hull_length_sq cx.a1 cx.a2 cx.a3 cx.a4 S
def len2 (S : SectionT K) : K := curve_hull_length_sq cx.b1 cx.b2 cx.b3 cx.b4 S
def box1 (S : SectionT K) : Bounds2 K := section_fast_bounding_box cx.a1 cx.a2 cx.a3 cx.a4 S
def box2 (S : SectionT K) : Bounds2 K := section_fast_bounding_box cx.b1 cx.b2 cx.b3 cx.b4 S
/-- point of the first / second curve -/
def ptA (t : K) : V2 K := ptOf cx.a1 cx.a2 cx.a3 cx.a4 t
def ptB (t : K) : V2 K := ptOf cx.b1 cx.b2 cx.b3 cx.b4 t

/-- both hulls are short: the convergence test -/
def convB (l1 l2 : K) : Bool := decide (l1 ≤ acc2) && decide (l2 ≤ acc2)
/-- neither curve shrank by 20 % -/
def stuckB (l1 l2 last1 last2 : K) : Bool := decide (last1 * (0.8 : K) ≤ l1) && decide (last2 * (0.8 : K) ≤ l2)

/-- split of the first curve's section -/
def split1 (c1 c2 : SectionT K) : Hits K :=
  join_subsections cx.a1 cx.a2 cx.a3 cx.a4 c1 (rec_ (section_subsection c1 (0.0 : K) (0.5 : K)) c2 acc acc2)
    (rec_ (section_subsection c1 (0.5 : K) (1.0 : K)) c2 acc acc2) acc2
/-- split of the second curve's section -/
def split2 (c1 c2 : SectionT K) : Hits K :=
  join_subsections cx.a1 cx.a2 cx.a3 cx.a4 c1 (rec_ c1 (section_subsection c2 (0.0 : K) (0.5 : K)) acc acc2)
    (rec_ c1 (section_subsection c2 (0.5 : K) (1.0 : K)) acc acc2) acc2

/-- the end of an iteration: convergence test, 20 % test, next state -/
def tail (c1 c2 : SectionT K) (l1 l2 last1 last2 : K) : Exit K :=
  if convB acc2 l1 l2 then
    (if bounds_overlaps (box1 cx c1) (box2 cx c2) then Sum.inr (LoopExit.ret [T2.mk (midT c1) (midT c2)])
     else Sum.inr (LoopExit.ret []))
  else if stuckB l1 l2 last1 last2 then
    (if decide (l1 / last1 > l2 / last2) then Sum.inr (LoopExit.ret (split1 rec_ cx acc acc2 c1 c2))
     else Sum.inr (LoopExit.ret (split2 rec_ cx acc acc2 c1 c2)))
  else Sum.inl (T4.mk c2 c1 l1 l2)

/-- second half of an iteration: clip the first curve against the second -/
def phase1 (c1 c2 : SectionT K) (l2 last1 last2 : K) : Exit K :=
  if decide (last1 > acc2) then
    match clipAB cx c1 c2 with
    | ClipResult.None => Sum.inr (LoopExit.ret [])
    | ClipResult.Some r =>
      tail rec_ cx acc acc2 (section_subsection c1 r.t0 r.t1) c2 (len1 cx (section_subsection c1 r.t0 r.t1)) l2 last1 last2
    | ClipResult.SecondCurveIsLinear =>
      Sum.inr (LoopExit.ret (List.map (fun h => T2.mk (section_t_for_t c1 h.t1) (section_t_for_t c2 h.t0)) (cx.lin21 c2 c1 acc)))
  else tail rec_ cx acc acc2 c1 c2 last1 l2 last1 last2

/-- one iteration of the loop of `curve_intersects_curve_clip_inner` -/
def step (st : St K) : Exit K :=
  if decide (st.t3 > acc2) then
    match clipBA cx st.t0 st.t1 with
    | ClipResult.None => Sum.inr (LoopExit.ret [])
    | ClipResult.Some r =>
      phase1 rec_ cx acc acc2 st.t1 (section_subsection st.t0 r.t0 r.t1) (len2 cx (section_subsection st.t0 r.t0 r.t1)) st.t2 st.t3
    | ClipResult.SecondCurveIsLinear =>
      Sum.inr (LoopExit.ret (List.map (fun h => T2.mk (section_t_for_t st.t1 h.t0) (section_t_for_t st.t0 h.t1)) (cx.lin12 st.t1 st.t0 acc)))
  else phase1 rec_ cx acc acc2 st.t1 st.t0 st.t3 st.t2 st.t3

/-- the loop with `n` iterations of fuel -/
def loopRun (n : Nat) (st : St K) : LoopExit (St K) (Hits K) :=
  iterFuel n (step rec_ cx acc acc2) (fun st => LoopExit.brk st) st

/-- the answer of the overlap shortcut -/
def overlapHits (c1 c2 : SectionT K) (o : T2 (T2 K K) (T2 K K)) : Hits K :=
  if (section_t_for_t c1 o.t0.t0 == section_t_for_t c1 o.t0.t1) || (section_t_for_t c2 o.t1.t0 == section_t_for_t c2 o.t1.t1) then
    [T2.mk (section_t_for_t c1 o.t0.t0) (section_t_for_t c2 o.t1.t0)]
  else [T2.mk (section_t_for_t c1 o.t0.t0) (section_t_for_t c2 o.t1.t0), T2.mk (section_t_for_t c1 o.t0.t1) (section_t_for_t c2 o.t1.t1)]

/-- `curve_intersects_curve_clip_inner`, compact -/
def innerSpec (n : Nat) (c1 c2 : SectionT K) : Hits K :=
  if len1 cx c1 == (0.0 : K) then []
  else if len2 cx c2 == (0.0 : K) then []
  else match loopRun rec_ cx acc acc2 n (T4.mk c2 c1 (len1 cx c1) (len2 cx c2)) with
    | LoopExit.brk _ => []
    | LoopExit.ret r => r

/-- the loop fuel the translator gives the generated function -/
def genFuel : Nat := 100000

/-- the step function inside the generated term is `step` -/
theorem inner_eq (c1 c2 : SectionT K) :
    curve_intersects_curve_clip_inner rec_ cx.lin12 cx.lin21 cx.a1 cx.a2 cx.a3 cx.a4 cx.b1 cx.b2 cx.b3 cx.b4 c1 c2 acc acc2
      = innerSpec rec_ cx acc acc2 genFuel c1 c2 := by
  rfl

/-- the public wrapper, compact: overlap shortcut on the two whole curves, then the inner function -/
theorem top_eq (inner : SectionT K → SectionT K → K → K → Hits K) :
    curve_intersects_curve_clip inner cx.ovl acc =
      match cx.ovl (section_new (0.0 : K) (1.0 : K)) (section_new (0.0 : K) (1.0 : K)) with
      | some o => overlapHits (section_new (0.0 : K) (1.0 : K)) (section_new (0.0 : K) (1.0 : K)) o
      | none => inner (section_new (0.0 : K) (1.0 : K)) (section_new (0.0 : K) (1.0 : K)) acc (acc * acc) := by
  unfold curve_intersects_curve_clip
  show (match cx.ovl (section_new (0.0 : K) (1.0 : K)) (section_new (0.0 : K) (1.0 : K)) with
    | some (T2.mk (T2.mk c1_t1 c1_t2) (T2.mk c2_t1 c2_t2)) =>
      overlapHits (section_new (0.0 : K) (1.0 : K)) (section_new (0.0 : K) (1.0 : K)) (T2.mk (T2.mk c1_t1 c1_t2) (T2.mk c2_t1 c2_t2))
    | _ => inner (section_new (0.0 : K) (1.0 : K)) (section_new (0.0 : K) (1.0 : K)) acc (acc * acc)) = _
  cases h : cx.ovl (section_new (0.0 : K) (1.0 : K)) (section_new (0.0 : K) (1.0 : K)) with
  | none => rfl
  | some o =>
    obtain ⟨⟨p, q⟩, ⟨u, v⟩⟩ := o
    rfl

end Spec

/-! # Part 4: what one iteration can do -/

section Cases
variable [FSqrt K] [FConsts K]
variable (rec_ : SectionT K → SectionT K → K → K → Hits K) (cx : Ctx K) (acc acc2 : K)

/-- first half of an iteration: the second curve's section is left alone (its hull is short) or clipped against the first -/
def Phase2 (st : St K) (c2' : SectionT K) (l2 : K) : Prop :=
  (¬ st.t3 > acc2 ∧ c2' = st.t0 ∧ l2 = st.t3) ∨
  (st.t3 > acc2 ∧ ∃ r, clipBA cx st.t0 st.t1 = ClipResult.Some r ∧ c2' = section_subsection st.t0 r.t0 r.t1 ∧ l2 = len2 cx c2')

/-- second half: the first curve's section is left alone or clipped against the (new) section of the second -/
def Phase1 (st : St K) (c2' c1' : SectionT K) (l1 : K) : Prop :=
  (¬ st.t2 > acc2 ∧ c1' = st.t1 ∧ l1 = st.t2) ∨
  (st.t2 > acc2 ∧ ∃ r, clipAB cx st.t1 c2' = ClipResult.Some r ∧ c1' = section_subsection st.t1 r.t0 r.t1 ∧ l1 = len1 cx c1')

/-- the ways an iteration can go up to the end of the two clip phases -/
inductive StepOut (st : St K) : Exit K → Prop
  | none2 : st.t3 > acc2 → clipBA cx st.t0 st.t1 = ClipResult.None → StepOut st (Sum.inr (LoopExit.ret []))
  | lin12 : st.t3 > acc2 → clipBA cx st.t0 st.t1 = ClipResult.SecondCurveIsLinear →
      StepOut st (Sum.inr (LoopExit.ret (List.map (fun h => T2.mk (section_t_for_t st.t1 h.t0) (section_t_for_t st.t0 h.t1))
        (cx.lin12 st.t1 st.t0 acc))))
  | none1 (c2' : SectionT K) (l2 : K) : Phase2 cx acc2 st c2' l2 → st.t2 > acc2 → clipAB cx st.t1 c2' = ClipResult.None →
      StepOut st (Sum.inr (LoopExit.ret []))
  | lin21 (c2' : SectionT K) (l2 : K) : Phase2 cx acc2 st c2' l2 → st.t2 > acc2 →
      clipAB cx st.t1 c2' = ClipResult.SecondCurveIsLinear →
      StepOut st (Sum.inr (LoopExit.ret (List.map (fun h => T2.mk (section_t_for_t st.t1 h.t1) (section_t_for_t c2' h.t0))
        (cx.lin21 c2' st.t1 acc))))
  | tail (c2' c1' : SectionT K) (l2 l1 : K) : Phase2 cx acc2 st c2' l2 → Phase1 cx acc2 st c2' c1' l1 →
      StepOut st (tail rec_ cx acc acc2 c1' c2' l1 l2 st.t2 st.t3)

theorem phase1_out (st : St K) (c2' : SectionT K) (l2 : K) (h2 : Phase2 cx acc2 st c2' l2) :
    StepOut rec_ cx acc acc2 st (phase1 rec_ cx acc acc2 st.t1 c2' l2 st.t2 st.t3) := by
  unfold phase1
  by_cases hc : st.t2 > acc2
  · rw [if_pos (by simpa using hc)]
    cases hr : clipAB cx st.t1 c2' with
    | None => exact StepOut.none1 c2' l2 h2 hc hr
    | Some r => exact StepOut.tail c2' _ l2 _ h2 (Or.inr ⟨hc, r, hr, rfl, rfl⟩)
    | SecondCurveIsLinear => exact StepOut.lin21 c2' l2 h2 hc hr
  · rw [if_neg (by simpa using hc)]
    exact StepOut.tail c2' _ l2 _ h2 (Or.inl ⟨hc, rfl, rfl⟩)

/-- every iteration is one of the five cases of `StepOut` -/
theorem step_out (st : St K) : StepOut rec_ cx acc acc2 st (step rec_ cx acc acc2 st) := by
  unfold step
  by_cases hc : st.t3 > acc2
  · rw [if_pos (by simpa using hc)]
    cases hr : clipBA cx st.t0 st.t1 with
    | None => exact StepOut.none2 hc hr
    | Some r => exact phase1_out rec_ cx acc acc2 st _ _ (Or.inr ⟨hc, r, hr, rfl, rfl⟩)
    | SecondCurveIsLinear => exact StepOut.lin12 hc hr
  · rw [if_neg (by simpa using hc)]
    exact phase1_out rec_ cx acc acc2 st _ _ (Or.inl ⟨hc, rfl, rfl⟩)

/-- the ways the end of an iteration can go -/
inductive TailOut (c1 c2 : SectionT K) (l1 l2 last1 last2 : K) : Exit K → Prop
  | hit : convB acc2 l1 l2 = true → bounds_overlaps (box1 cx c1) (box2 cx c2) = true →
      TailOut c1 c2 l1 l2 last1 last2 (Sum.inr (LoopExit.ret [T2.mk (midT c1) (midT c2)]))
  | reject : convB acc2 l1 l2 = true → bounds_overlaps (box1 cx c1) (box2 cx c2) = false →
      TailOut c1 c2 l1 l2 last1 last2 (Sum.inr (LoopExit.ret []))
  | split1 : convB acc2 l1 l2 = false → stuckB l1 l2 last1 last2 = true → l1 / last1 > l2 / last2 →
      TailOut c1 c2 l1 l2 last1 last2 (Sum.inr (LoopExit.ret (split1 rec_ cx acc acc2 c1 c2)))
  | split2 : convB acc2 l1 l2 = false → stuckB l1 l2 last1 last2 = true → ¬ l1 / last1 > l2 / last2 →
      TailOut c1 c2 l1 l2 last1 last2 (Sum.inr (LoopExit.ret (split2 rec_ cx acc acc2 c1 c2)))
  | next : convB acc2 l1 l2 = false → stuckB l1 l2 last1 last2 = false →
      TailOut c1 c2 l1 l2 last1 last2 (Sum.inl (T4.mk c2 c1 l1 l2))

theorem tail_out (c1 c2 : SectionT K) (l1 l2 last1 last2 : K) :
    TailOut rec_ cx acc acc2 c1 c2 l1 l2 last1 last2 (tail rec_ cx acc acc2 c1 c2 l1 l2 last1 last2) := by
  unfold tail
  cases hconv : convB acc2 l1 l2 with
  | true =>
    rw [if_pos rfl]
    cases hov : bounds_overlaps (box1 cx c1) (box2 cx c2) with
    | true => rw [if_pos rfl]; exact TailOut.hit hconv hov
    | false => rw [if_neg (by simp)]; exact TailOut.reject hconv hov
  | false =>
    rw [if_neg (by simp)]
    cases hst : stuckB l1 l2 last1 last2 with
    | true =>
      rw [if_pos rfl]
      by_cases hc : l1 / last1 > l2 / last2
      · rw [if_pos (by simpa using hc)]; exact TailOut.split1 hconv hst hc
      · rw [if_neg (by simpa using hc)]; exact TailOut.split2 hconv hst hc
    | false => rw [if_neg (by simp)]; exact TailOut.next hconv hst

/-- unfolding the loop by one iteration -/
theorem loopRun_succ (n : Nat) (st : St K) :
    loopRun rec_ cx acc acc2 (n + 1) st =
      match step rec_ cx acc acc2 st with
      | Sum.inl st' => loopRun rec_ cx acc acc2 n st'
      | Sum.inr r => r := by
  simp only [loopRun, iterFuel]
  cases step rec_ cx acc acc2 st <;> rfl

theorem loopRun_zero (st : St K) : loopRun rec_ cx acc acc2 0 st = LoopExit.brk st := by
  simp only [loopRun, iterFuel]

/-! ## `join_subsections` -/

/-- the condition under which `join_subsections` drops the first hit of `right`: both lists non-empty, the section
    parameters (on the first curve) of the last hit of `left` and the first hit of `right` differ by less than 0.1, and the
    two points of the first curve's section at those parameters are within `√(2·accuracy²)` of each other -/
def DropCond (w1 w2 w3 w4 : V2 K) (curve1 : SectionT K) (left right : Hits K) (acc2 : K) : Prop :=
  left ≠ [] ∧ right ≠ [] ∧
  |section_t_for_original_t curve1 (listGet right 0).t0 - section_t_for_original_t curve1 (listGet left (left.length - 1)).t0| < 1/10 ∧
  dist2 (section_point_at_pos w1 w2 w3 w4 curve1 (section_t_for_original_t curve1 (listGet right 0).t0))
        (section_point_at_pos w1 w2 w3 w4 curve1 (section_t_for_original_t curve1 (listGet left (left.length - 1)).t0)) ≤ acc2 * 2

theorem lit01 : (0.1 : K) = 1/10 := by norm_num
theorem lit2 : (2.0 : K) = 2 := by norm_num

/-- `join_subsections` is `left ++ right`, or `left ++ right.tail` exactly when `DropCond` holds -/
theorem join_eq (w1 w2 w3 w4 : V2 K) (curve1 : SectionT K) (left right : Hits K) (acc2 : K) :
    (DropCond w1 w2 w3 w4 curve1 left right acc2 ∧ join_subsections w1 w2 w3 w4 curve1 left right acc2 = left ++ right.drop 1) ∨
    (¬ DropCond w1 w2 w3 w4 curve1 left right acc2 ∧ join_subsections w1 w2 w3 w4 curve1 left right acc2 = left ++ right) := by
  unfold join_subsections
  cases left with
  | nil => right; exact ⟨fun h => h.1 rfl, by simp⟩
  | cons a l =>
    cases right with
    | nil => right; exact ⟨fun h => h.2.1 rfl, by simp⟩
    | cons b r =>
      simp only [List.isEmpty_cons, Bool.false_eq_true, if_false, decide_eq_true_eq, lit01, lit2]
      by_cases hclose : |section_t_for_original_t curve1 (listGet (b :: r) 0).t0 -
          section_t_for_original_t curve1 (listGet (a :: l) ((a :: l).length - 1)).t0| < 1/10
      · have hc' : fabs (section_t_for_original_t curve1 (listGet (b :: r) 0).t0 -
            section_t_for_original_t curve1 (listGet (a :: l) ((a :: l).length - 1)).t0) < 1/10 := hclose
        rw [if_pos hc']
        by_cases hd : dist2 (section_point_at_pos w1 w2 w3 w4 curve1 (section_t_for_original_t curve1 (listGet (b :: r) 0).t0))
            (section_point_at_pos w1 w2 w3 w4 curve1 (section_t_for_original_t curve1 (listGet (a :: l) ((a :: l).length - 1)).t0))
            ≤ acc2 * 2
        · left
          refine ⟨⟨by simp, by simp, hclose, hd⟩, ?_⟩
          rw [if_pos]
          simp only [dist2, dot, lit0, V2_sub_x, V2_sub_y] at hd ⊢
          linarith
        · right
          refine ⟨fun h => hd h.2.2.2, ?_⟩
          rw [if_neg]
          simp only [dist2, dot, lit0, V2_sub_x, V2_sub_y] at hd ⊢
          intro hle; apply hd; linarith
      · right
        have hc' : ¬ fabs (section_t_for_original_t curve1 (listGet (b :: r) 0).t0 -
            section_t_for_original_t curve1 (listGet (a :: l) ((a :: l).length - 1)).t0) < 1/10 := hclose
        rw [if_neg hc']
        exact ⟨fun h => hclose h.2.2.1, rfl⟩

theorem join_mem_left (w1 w2 w3 w4 : V2 K) (curve1 : SectionT K) (left right : Hits K) (acc2 : K) (h : T2 K K)
    (hl : h ∈ left) : h ∈ join_subsections w1 w2 w3 w4 curve1 left right acc2 := by
  rcases join_eq w1 w2 w3 w4 curve1 left right acc2 with ⟨_, e⟩ | ⟨_, e⟩ <;> rw [e] <;> exact List.mem_append_left _ hl

theorem join_subset (w1 w2 w3 w4 : V2 K) (curve1 : SectionT K) (left right : Hits K) (acc2 : K) (h : T2 K K)
    (hj : h ∈ join_subsections w1 w2 w3 w4 curve1 left right acc2) : h ∈ left ∨ h ∈ right := by
  rcases join_eq w1 w2 w3 w4 curve1 left right acc2 with ⟨_, e⟩ | ⟨_, e⟩ <;> rw [e] at hj
  · rcases List.mem_append.1 hj with h1 | h1
    · exact Or.inl h1
    · exact Or.inr (List.mem_of_mem_drop h1)
  · exact List.mem_append.1 hj

end Cases

end CurveClipLemmas
