/-
Helper lemma for C14 (per-edge parity): a real polynomial that does not vanish at 0 and 1 has an odd number of roots in
(0,1), counted with multiplicity, exactly when its values at 0 and 1 have opposite signs.
-/
import Mathlib.Algebra.Polynomial.Roots
import Mathlib.Topology.Algebra.Polynomial
import Mathlib.Topology.Order.IntermediateValue
import Mathlib.Topology.Instances.Real.Lemmas
import Mathlib.Tactic.Linarith
import Mathlib.Tactic.Ring
import Mathlib.Tactic.Positivity

namespace RayPoly
open Polynomial

/-- the roots in the open unit interval, with multiplicity -/
noncomputable def innerRoots (p : ℝ[X]) : Multiset ℝ := p.roots.filter fun r => 0 < r ∧ r < 1

/-- intermediate value theorem: no root in (0,1) and non-zero end values means equal signs at the ends -/
theorem same_sign_of_no_root (p : ℝ[X]) (h0 : p.eval 0 ≠ 0) (h1 : p.eval 1 ≠ 0)
    (hno : ∀ x : ℝ, 0 < x → x < 1 → p.eval x ≠ 0) : 0 < p.eval 0 * p.eval 1 := by
  by_contra hc
  have hlt : p.eval 0 * p.eval 1 < 0 := lt_of_le_of_ne (not_lt.1 hc) (mul_ne_zero h0 h1)
  have hcont : ContinuousOn (fun x => p.eval x) (Set.Icc (0 : ℝ) 1) := p.continuous.continuousOn
  rcases lt_or_gt_of_ne h0 with hneg | hpos
  · have hp1 : 0 < p.eval 1 := by
      by_contra h; have : p.eval 1 < 0 := lt_of_le_of_ne (not_lt.1 h) h1
      nlinarith
    obtain ⟨c, hc, hpc⟩ := intermediate_value_Icc (zero_le_one' ℝ) hcont ⟨le_of_lt hneg, le_of_lt hp1⟩
    have hc0 : c ≠ 0 := fun e => h0 (by subst e; exact hpc)
    have hc1 : c ≠ 1 := fun e => h1 (by subst e; exact hpc)
    exact hno c (lt_of_le_of_ne hc.1 (Ne.symm hc0)) (lt_of_le_of_ne hc.2 hc1) hpc
  · have hp1 : p.eval 1 < 0 := by
      by_contra h; have : 0 < p.eval 1 := lt_of_le_of_ne (not_lt.1 h) (Ne.symm h1)
      nlinarith
    have hcont' : ContinuousOn (fun x => (-p).eval x) (Set.Icc (0 : ℝ) 1) := (-p).continuous.continuousOn
    obtain ⟨c, hc, hpc⟩ := intermediate_value_Icc (zero_le_one' ℝ) hcont'
      (show (0 : ℝ) ∈ Set.Icc ((-p).eval 0) ((-p).eval 1) by
        simp only [eval_neg, Set.mem_Icc]; constructor <;> linarith)
    have hpc' : p.eval c = 0 := by simpa using hpc
    have hc0 : c ≠ 0 := fun e => h0 (by subst e; exact hpc')
    have hc1 : c ≠ 1 := fun e => h1 (by subst e; exact hpc')
    exact hno c (lt_of_le_of_ne hc.1 (Ne.symm hc0)) (lt_of_le_of_ne hc.2 hc1) hpc'

/-- parity of the number of roots in (0,1), with multiplicity -/
theorem inner_roots_parity : ∀ (n : ℕ) (p : ℝ[X]), p.natDegree ≤ n → p.eval 0 ≠ 0 → p.eval 1 ≠ 0 →
    (Multiset.card (innerRoots p) % 2 = 1 ↔ p.eval 0 * p.eval 1 < 0) := by
  intro n
  induction n with
  | zero =>
    intro p hd h0 h1
    have hp : p = C (p.coeff 0) := eq_C_of_natDegree_le_zero hd
    have hr : p.roots = 0 := by rw [hp]; exact roots_C _
    have hno : ∀ x : ℝ, 0 < x → x < 1 → p.eval x ≠ 0 := by
      intro x _ _ hx
      apply h0
      rw [hp] at hx ⊢
      simpa using hx
    have := same_sign_of_no_root p h0 h1 hno
    simp only [innerRoots, hr, Multiset.filter_zero, Multiset.card_zero]
    constructor
    · intro h; omega
    · intro h; linarith
  | succ n ih =>
    intro p hd h0 h1
    have hp0 : p ≠ 0 := fun e => h0 (by rw [e]; simp)
    by_cases hex : ∃ r : ℝ, 0 < r ∧ r < 1 ∧ p.eval r = 0
    · obtain ⟨r, hr0, hr1, hr⟩ := hex
      obtain ⟨q, hq⟩ : X - C r ∣ p := dvd_iff_isRoot.2 hr
      have hq0 : q ≠ 0 := fun e => hp0 (by rw [hq, e, mul_zero])
      have hXr : (X - C r : ℝ[X]) ≠ 0 := X_sub_C_ne_zero r
      have hdeg : q.natDegree ≤ n := by
        have := natDegree_mul hXr hq0
        rw [← hq, natDegree_X_sub_C] at this
        omega
      have e0 : p.eval 0 = (0 - r) * q.eval 0 := by rw [hq]; simp
      have e1 : p.eval 1 = (1 - r) * q.eval 1 := by rw [hq]; simp
      have hq0' : q.eval 0 ≠ 0 := fun e => h0 (by rw [e0, e, mul_zero])
      have hq1' : q.eval 1 ≠ 0 := fun e => h1 (by rw [e1, e, mul_zero])
      have hroots : innerRoots p = r ::ₘ innerRoots q := by
        unfold innerRoots
        rw [hq, roots_mul (by rw [← hq]; exact hp0), roots_X_sub_C, Multiset.filter_add]
        rw [Multiset.filter_singleton, if_pos ⟨hr0, hr1⟩, Multiset.singleton_add]
      have ihq := ih q hdeg hq0' hq1'
      rw [hroots, Multiset.card_cons, e0, e1]
      have hpos : 0 < r * (1 - r) := mul_pos hr0 (by linarith)
      have hprod : (0 - r) * q.eval 0 * ((1 - r) * q.eval 1) = -(r * (1 - r)) * (q.eval 0 * q.eval 1) := by ring
      rw [hprod]
      have hqne : q.eval 0 * q.eval 1 ≠ 0 := mul_ne_zero hq0' hq1'
      constructor
      · intro h
        have : ¬ (Multiset.card (innerRoots q) % 2 = 1) := by omega
        have hnn : ¬ (q.eval 0 * q.eval 1 < 0) := fun hh => this (ihq.2 hh)
        have : 0 < q.eval 0 * q.eval 1 := lt_of_le_of_ne (not_lt.1 hnn) (Ne.symm hqne)
        nlinarith
      · intro h
        have : 0 < q.eval 0 * q.eval 1 := by
          by_contra hh
          have : q.eval 0 * q.eval 1 < 0 := lt_of_le_of_ne (not_lt.1 hh) hqne
          nlinarith
        have hnot : ¬ (Multiset.card (innerRoots q) % 2 = 1) := fun hh => by
          have := ihq.1 hh; linarith
        omega
    · have hno : ∀ x : ℝ, 0 < x → x < 1 → p.eval x ≠ 0 := fun x hx0 hx1 hx => hex ⟨x, hx0, hx1, hx⟩
      have hempty : innerRoots p = 0 := by
        unfold innerRoots
        rw [Multiset.filter_eq_nil]
        intro a ha hc
        exact hno a hc.1 hc.2 ((mem_roots hp0).1 ha)
      have := same_sign_of_no_root p h0 h1 hno
      rw [hempty, Multiset.card_zero]
      constructor
      · intro h; omega
      · intro h; linarith

/-- a real polynomial that does not vanish at 0 and 1 has an odd number of roots in (0,1), counted with multiplicity,
    exactly when its values at 0 and 1 have opposite signs -/
theorem roots_parity (p : ℝ[X]) (h0 : p.eval 0 ≠ 0) (h1 : p.eval 1 ≠ 0) :
    Multiset.card (innerRoots p) % 2 = 1 ↔ p.eval 0 * p.eval 1 < 0 :=
  inner_roots_parity p.natDegree p le_rfl h0 h1

end RayPoly
