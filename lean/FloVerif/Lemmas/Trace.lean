/-
Helper lemmas for C17Trace.
Part 1: the abstract loop-following argument on association-list graphs (`graphRemove`, `followLoop`,
`traceLoops`).
Part 2: `graphInsert` / `buildGraph` as a sequence of arc insertions, and the arcs produced by the mixed cells
of a bitmap (every boundary edge is the source of exactly two arcs, no other id is a source).
-/
import FloVerif.Model.Contour
import FloVerif.Props.C17
import Mathlib.Tactic.Ring
import Mathlib.Tactic.NormNum
import Mathlib.Tactic.SplitIfs
import Mathlib.Tactic.ByContra
import Mathlib.Data.List.Chain
import Mathlib.Data.List.Perm.Basic
import Mathlib.Data.List.Count
import Mathlib.Data.List.Nodup
import Mathlib.Algebra.BigOperators.Group.List.Basic

set_option linter.unusedSimpArgs false

namespace Trace
open Prelude Gen Model.Contour

/-! ### Part 1: the abstract tracer -/

/-- the keys of the association list, in order -/
def keys (g : Graph) : List Nat := g.map (·.1)

/-- the neighbour list stored under a key (first match), `[]` when the key is absent -/
def nb : Graph → Nat → List Nat
  | [], _ => []
  | (k, vs) :: g, a => if k = a then vs else nb g a

@[simp] theorem keys_nil : keys [] = [] := rfl
@[simp] theorem keys_cons (e : Nat × List Nat) (g : Graph) : keys (e :: g) = e.1 :: keys g := rfl
@[simp] theorem nb_nil (a : Nat) : nb [] a = [] := rfl
@[simp] theorem nb_cons (k : Nat) (vs : List Nat) (g : Graph) (a : Nat) :
    nb ((k, vs) :: g) a = if k = a then vs else nb g a := rfl

theorem nb_of_not_mem {g : Graph} {a : Nat} (h : a ∉ keys g) : nb g a = [] := by
  induction g with
  | nil => rfl
  | cons e g ih =>
    obtain ⟨k, vs⟩ := e
    simp only [keys_cons, List.mem_cons, not_or] at h
    rw [nb_cons, if_neg (fun hk => h.1 hk.symm), ih h.2]

theorem mem_of_mem_keys {g : Graph} {a : Nat} (h : a ∈ keys g) : (a, nb g a) ∈ g := by
  induction g with
  | nil => simp at h
  | cons e g ih =>
    obtain ⟨k, vs⟩ := e
    rw [nb_cons]
    by_cases hk : k = a
    · subst hk; simp
    · rw [if_neg hk]
      simp only [keys_cons, List.mem_cons] at h
      rcases h with h | h
      · exact absurd h.symm hk
      · exact List.mem_cons_of_mem _ (ih h)

theorem nb_of_mem {g : Graph} (hnd : (keys g).Nodup) {e : Nat × List Nat} (he : e ∈ g) : nb g e.1 = e.2 := by
  induction g with
  | nil => simp at he
  | cons e' g ih =>
    obtain ⟨k, vs⟩ := e'
    simp only [keys_cons, List.nodup_cons] at hnd
    rw [nb_cons]
    rcases List.mem_cons.1 he with h | h
    · subst h; simp
    · have : e.1 ∈ keys g := List.mem_map.2 ⟨e, h, rfl⟩
      rw [if_neg (fun hk : k = e.1 => hnd.1 (hk ▸ this)), ih hnd.2 h]

theorem key_mem_of_mem {g : Graph} {e : Nat × List Nat} (he : e ∈ g) : e.1 ∈ keys g :=
  List.mem_map.2 ⟨e, he, rfl⟩

/-- what `graphRemove` does on a graph with distinct keys -/
theorem graphRemove_spec (g : Graph) (a : Nat) (hnd : (keys g).Nodup) (ha : a ∈ keys g) :
    ∃ g', graphRemove g a = some (nb g a, g') ∧ (keys g).Perm (a :: keys g') ∧
      (∀ x, x ≠ a → nb g' x = nb g x) ∧ (∀ e ∈ g', e ∈ g) ∧ g'.length + 1 = g.length := by
  induction g with
  | nil => simp at ha
  | cons e g ih =>
    obtain ⟨k, vs⟩ := e
    simp only [keys_cons, List.nodup_cons] at hnd
    by_cases hk : k = a
    · subst hk
      refine ⟨g, ?_, List.Perm.refl _, ?_, fun e he => List.mem_cons_of_mem _ he, rfl⟩
      · simp [graphRemove]
      · intro x hx
        rw [nb_cons, if_neg (fun h => hx h.symm)]
    · simp only [keys_cons, List.mem_cons] at ha
      have ha' : a ∈ keys g := by
        rcases ha with h | h
        · exact absurd h.symm hk
        · exact h
      obtain ⟨g', h1, h2, h3, h4, h5⟩ := ih hnd.2 ha'
      refine ⟨(k, vs) :: g', ?_, ?_, ?_, ?_, ?_⟩
      · simp only [graphRemove, beq_iff_eq, hk, if_false, h1, nb_cons]
      · simp only [keys_cons]
        exact (List.Perm.cons k h2).trans (List.Perm.swap _ _ _)
      · intro x hx
        rw [nb_cons, nb_cons, h3 x hx]
      · intro e he
        rcases List.mem_cons.1 he with h | h
        · subst h; exact List.mem_cons_self
        · exact List.mem_cons_of_mem _ (h4 e h)
      · simp only [List.length_cons]; omega

/-- indicator -/
def ind (p : Prop) [Decidable p] : Nat := if p then 1 else 0

/-- entries are well-formed: two neighbours, no self reference, related by `R` -/
def EntOK (R : Nat → Nat → Prop) (g : Graph) : Prop :=
  ∀ e ∈ g, e.2.length = 2 ∧ e.1 ∉ e.2 ∧ ∀ v ∈ e.2, R e.1 v

/-- a closed 2-regular graph: distinct keys, two neighbours each (a neighbour may be listed twice), no self
    references, and `b` is listed under `a` as often as `a` under `b` -/
structure Good (R : Nat → Nat → Prop) (g : Graph) : Prop where
  nodup : (keys g).Nodup
  ent : EntOK R g
  sym : ∀ a b, (nb g a).count b = (nb g b).count a

/-- the invariant of the `while current_edge != first_edge` loop: the graph is symmetric except for the two
    dangling references `z → first` and `cur → prev` whose partners have been removed -/
structure Inv (R : Nat → Nat → Prop) (g : Graph) (first z prev cur : Nat) : Prop where
  nodup : (keys g).Nodup
  ent : EntOK R g
  hfirst : first ∉ keys g
  hprev : prev ∉ keys g
  hne : cur ≠ prev
  bal : ∀ a b, (nb g a).count b + ind (a = first ∧ b = z) + ind (a = prev ∧ b = cur) =
    (nb g b).count a + ind (b = first ∧ a = z) + ind (b = prev ∧ a = cur)

theorem count_pair (x y b : Nat) : [x, y].count b = ind (b = x) + ind (b = y) := by
  simp only [List.count_cons, List.count_nil, ind, beq_iff_eq]
  have e1 : (x = b) = (b = x) := propext eq_comm
  have e2 : (y = b) = (b = y) := propext eq_comm
  simp only [e1, e2]
  omega

theorem followLoop_spec (R : Nat → Nat → Prop) : ∀ (fuel : Nat) (g : Graph) (first z prev cur : Nat) (acc : List Nat),
    Inv R g first z prev cur → g.length < fuel → (acc ++ [cur]).IsChain R →
    ∃ rem g', followLoop fuel g first prev cur acc = some (acc ++ rem, g') ∧ Good R g' ∧
      (keys g).Perm (rem ++ keys g') ∧ (acc ++ rem ++ [first]).IsChain R ∧ g'.length ≤ g.length
  | 0, g, first, z, prev, cur, acc, _, hf, _ => by omega
  | fuel + 1, g, first, z, prev, cur, acc, inv, hf, hch => by
    rw [followLoop]
    by_cases hcf : cur = first
    · subst hcf
      refine ⟨[], g, by simp, ?_, by simp, by simpa using hch, le_refl _⟩
      -- closed again
      have hpz : prev = z := by
        have h := inv.bal prev cur
        rw [nb_of_not_mem inv.hprev, nb_of_not_mem inv.hfirst] at h
        have hne := inv.hne
        simp only [ind, List.count_nil, eq_self_iff_true, and_self, and_true, true_and, if_true] at h
        by_contra hc
        simp [hc, Ne.symm hne] at h
      subst hpz
      refine ⟨inv.nodup, inv.ent, ?_⟩
      intro a b
      have h := inv.bal a b
      simp only [ind, eq_self_iff_true, and_self, and_true, true_and, if_true] at h
      split_ifs at h <;> omega
    · rw [if_neg (by simpa using hcf)]
      -- `cur` is still a key
      have hcp : (nb g cur).count prev = 1 + ind (prev = first ∧ cur = z) := by
        have h := inv.bal prev cur
        rw [nb_of_not_mem inv.hprev] at h
        have hne := inv.hne
        simp only [ind, List.count_nil, eq_self_iff_true, and_self, and_true, true_and, if_true] at h ⊢
        split_ifs at h ⊢ <;> omega
      have hck : cur ∈ keys g := by
        by_contra hc
        rw [nb_of_not_mem hc] at hcp
        simp at hcp
        omega
      obtain ⟨g', hrem, hperm, hnb, hsub, hlen⟩ := graphRemove_spec g cur inv.nodup hck
      rw [hrem]
      have hent := inv.ent _ (mem_of_mem_keys hck)
      simp only at hent
      obtain ⟨hl2, hself, hR⟩ := hent
      have hprevmem : prev ∈ nb g cur := by
        apply List.count_pos_iff.1
        omega
      have hnd' : (cur :: keys g').Nodup := hperm.nodup_iff.1 inv.nodup
      have hcur' : cur ∉ keys g' := (List.nodup_cons.1 hnd').1
      have hsubk : ∀ x, x ∈ keys g' → x ∈ keys g := fun x hx => hperm.symm.subset (List.mem_cons_of_mem _ hx)
      -- the chosen successor `nx`, with `nb g cur` a rearrangement of `[prev, nx]`
      have key : ∀ nx, nx ∈ nb g cur → (∀ b, (nb g cur).count b = ind (b = prev) + ind (b = nx)) →
          ∃ rem g'', followLoop fuel g' first cur nx (acc ++ [cur]) = some (acc ++ rem, g'') ∧ Good R g'' ∧
            (keys g).Perm (rem ++ keys g'') ∧ (acc ++ rem ++ [first]).IsChain R ∧ g''.length ≤ g.length := by
        intro nx hnx hcnt
        have inv' : Inv R g' first z cur nx := by
          refine ⟨(List.nodup_cons.1 hnd').2, fun e he => inv.ent e (hsub e he),
            fun h => inv.hfirst (hsubk _ h), hcur', fun h => hself (h ▸ hnx), ?_⟩
          intro a b
          by_cases ha : a = cur
          · by_cases hb : b = cur
            · subst ha; subst hb; rfl
            · subst ha
              rw [nb_of_not_mem hcur', hnb b hb]
              have h := inv.bal a b
              rw [hcnt b] at h
              have hne := inv.hne
              simp only [ind, List.count_nil, eq_self_iff_true, and_self, and_true, true_and, if_true] at h ⊢
              split_ifs at h ⊢ <;> omega
          · by_cases hb : b = cur
            · subst hb
              rw [nb_of_not_mem hcur', hnb a ha]
              have h := inv.bal a b
              rw [hcnt a] at h
              have hne := inv.hne
              simp only [ind, List.count_nil, eq_self_iff_true, and_self, and_true, true_and, if_true] at h ⊢
              split_ifs at h ⊢ <;> omega
            · rw [hnb a ha, hnb b hb]
              have h := inv.bal a b
              simp only [ind, eq_self_iff_true, and_self, and_true, true_and, if_true] at h ⊢
              split_ifs at h ⊢ <;> omega
        have hch' : (acc ++ [cur] ++ [nx]).IsChain R := by
          refine List.IsChain.append hch (List.isChain_singleton _) ?_
          intro x hx y hy
          simp only [List.getLast?_concat, Option.mem_def, Option.some.injEq, List.head?_cons] at hx hy
          subst hx; subst hy
          exact hR _ hnx
        obtain ⟨rem, g'', h1, h2, h3, h4, h5⟩ :=
          followLoop_spec R fuel g' first z cur nx (acc ++ [cur]) inv' (by omega) hch'
        refine ⟨cur :: rem, g'', ?_, h2, ?_, ?_, by omega⟩
        · rw [h1]; simp
        · exact hperm.trans (by simpa using List.Perm.cons cur h3)
        · simpa using h4
      match hfol : nb g cur, hl2 with
      | [f0, f1], _ =>
        rw [hfol] at key hprevmem
        simp only
        by_cases h0 : f0 = prev
        · subst h0
          rw [if_neg (by simp)]
          exact key f1 (by simp) (fun b => count_pair _ _ b)
        · rw [if_pos (by simpa using h0)]
          have h1 : f1 = prev := by
            simp only [List.mem_cons, List.not_mem_nil, or_false] at hprevmem
            rcases hprevmem with h | h
            · exact absurd h.symm h0
            · exact h.symm
          subst h1
          exact key f0 (by simp) (fun b => by rw [count_pair]; omega)

/-- the abstract tracing theorem: on a closed 2-regular graph the tracer does not fail, every loop is closed
    and follows `R`, and the loops use every key exactly once -/
theorem traceLoops_spec (R : Nat → Nat → Prop) : ∀ (fuel : Nat) (g : Graph), Good R g → g.length < fuel →
    ∃ loops, traceLoops fuel g = some loops ∧
      (∀ l ∈ loops, 2 ≤ l.length ∧ l.head? = l.getLast? ∧ l.IsChain R) ∧
      (loops.flatMap (·.dropLast)).Perm (keys g)
  | 0, g, _, hf => by omega
  | fuel + 1, [], _, _ => ⟨[], by simp [traceLoops], by simp, by simp⟩
  | fuel + 1, (first, following) :: g', good, hf => by
    have hent := good.ent _ List.mem_cons_self
    simp only at hent
    obtain ⟨hl2, hself, hR⟩ := hent
    have hnd := good.nodup
    simp only [keys_cons, List.nodup_cons] at hnd
    match following, hl2 with
    | [nxt, z], _ =>
      have inv : Inv R g' first z first nxt := by
        refine ⟨hnd.2, fun e he => good.ent e (List.mem_cons_of_mem _ he), hnd.1, hnd.1,
          fun h => hself (by simp [h]), ?_⟩
        intro a b
        have h := good.sym a b
        simp only [nb_cons] at h
        by_cases ha : first = a
        · by_cases hb : first = b
          · subst ha; subst hb; rfl
          · subst ha
            rw [if_pos rfl, if_neg hb, count_pair] at h
            rw [nb_of_not_mem hnd.1]
            simp only [ind, List.count_nil, eq_self_iff_true, and_self, and_true, true_and, if_true] at h ⊢
            split_ifs at h ⊢ <;> omega
        · by_cases hb : first = b
          · subst hb
            rw [if_pos rfl, if_neg ha, count_pair] at h
            rw [nb_of_not_mem hnd.1]
            simp only [ind, List.count_nil, eq_self_iff_true, and_self, and_true, true_and, if_true] at h ⊢
            split_ifs at h ⊢ <;> omega
          · rw [if_neg ha, if_neg hb] at h
            simp only [ind]
            split_ifs <;> omega
      have hch : ([first] ++ [nxt]).IsChain R := by
        simp only [List.cons_append, List.nil_append, List.isChain_pair]
        exact hR _ (by simp)
      obtain ⟨rem, g'', h1, h2, h3, h4, h5⟩ :=
        followLoop_spec R (((first, [nxt, z]) :: g').length + 1) g' first z first nxt [first] inv
          (by simp only [List.length_cons]; omega) hch
      obtain ⟨more, m1, m2, m3⟩ := traceLoops_spec R fuel g'' h2 (by simp at hf; omega)
      refine ⟨([first] ++ rem ++ [first]) :: more, ?_, ?_, ?_⟩
      · rw [traceLoops]
        simp only [h1, m1]
      · intro l hl
        rcases List.mem_cons.1 hl with h | h
        · subst h
          refine ⟨by simp, ?_, h4⟩
          rw [List.getLast?_concat]; rfl
        · exact m2 l h
      · simp only [List.flatMap_cons, List.dropLast_concat, keys_cons]
        have : (first :: keys g').Perm (first :: (rem ++ keys g'')) := List.Perm.cons _ h3
        refine List.Perm.trans ?_ this.symm
        simpa using List.Perm.append_left rem m3

/-! ### Part 2: `graphInsert` and sequences of insertions -/

theorem nb_graphInsert (g : Graph) (a b x : Nat) :
    nb (graphInsert g a b) x = if x = a then nb g a ++ [b] else nb g x := by
  induction g with
  | nil =>
    simp only [graphInsert, nb_cons, nb_nil, List.nil_append]
    by_cases h : a = x
    · subst h; simp
    · rw [if_neg h, if_neg (fun h' => h h'.symm)]
  | cons e g ih =>
    obtain ⟨k, vs⟩ := e
    simp only [graphInsert, beq_iff_eq]
    by_cases hk : k = a
    · subst hk
      simp only [if_true, nb_cons]
      by_cases hx : k = x
      · subst hx; simp
      · have hx' : ¬ x = k := fun h' => hx h'.symm
        simp only [if_neg hx, if_neg hx']
    · rw [if_neg hk, nb_cons, ih, nb_cons, nb_cons, if_neg hk]
      by_cases hx : x = a
      · subst hx
        rw [if_pos rfl, if_pos rfl, if_neg hk]
      · rw [if_neg hx, if_neg hx]

theorem keys_graphInsert (g : Graph) (a b : Nat) :
    keys (graphInsert g a b) = if a ∈ keys g then keys g else keys g ++ [a] := by
  induction g with
  | nil => simp [graphInsert]
  | cons e g ih =>
    obtain ⟨k, vs⟩ := e
    simp only [graphInsert, beq_iff_eq]
    by_cases hk : k = a
    · subst hk
      simp
    · rw [if_neg hk, keys_cons, ih]
      simp only [keys_cons, List.mem_cons]
      by_cases hm : a ∈ keys g
      · rw [if_pos hm, if_pos (Or.inr hm)]
      · rw [if_neg hm, if_neg (by rintro (h | h); exact hk h.symm; exact hm h)]
        rfl

/-- insert a list of arcs `(a, b)` (meaning: push `b` under key `a`) -/
def insAll (arcs : List (Nat × Nat)) (g : Graph) : Graph := arcs.foldl (fun g p => graphInsert g p.1 p.2) g

theorem nb_insAll (arcs : List (Nat × Nat)) (g : Graph) (x : Nat) :
    nb (insAll arcs g) x = nb g x ++ (arcs.filter (fun p => p.1 = x)).map (·.2) := by
  induction arcs generalizing g with
  | nil => simp [insAll]
  | cons p arcs ih =>
    have : insAll (p :: arcs) g = insAll arcs (graphInsert g p.1 p.2) := rfl
    rw [this, ih, nb_graphInsert]
    by_cases h : x = p.1
    · subst h
      simp
    · rw [if_neg h, List.filter_cons_of_neg (by simpa using fun h' => h h'.symm)]

theorem mem_keys_insAll (arcs : List (Nat × Nat)) (g : Graph) (x : Nat) :
    x ∈ keys (insAll arcs g) ↔ x ∈ keys g ∨ ∃ p ∈ arcs, p.1 = x := by
  induction arcs generalizing g with
  | nil => simp [insAll]
  | cons p arcs ih =>
    have : insAll (p :: arcs) g = insAll arcs (graphInsert g p.1 p.2) := rfl
    rw [this, ih, keys_graphInsert]
    by_cases hm : p.1 ∈ keys g
    · rw [if_pos hm]
      constructor
      · rintro (h | ⟨q, hq, rfl⟩)
        · exact Or.inl h
        · exact Or.inr ⟨q, List.mem_cons_of_mem _ hq, rfl⟩
      · rintro (h | ⟨q, hq, rfl⟩)
        · exact Or.inl h
        · rcases List.mem_cons.1 hq with h | h
          · subst h; exact Or.inl hm
          · exact Or.inr ⟨q, h, rfl⟩
    · rw [if_neg hm]
      simp only [List.mem_append, List.mem_singleton]
      constructor
      · rintro ((h | h) | ⟨q, hq, rfl⟩)
        · exact Or.inl h
        · exact Or.inr ⟨p, List.mem_cons_self, h.symm⟩
        · exact Or.inr ⟨q, List.mem_cons_of_mem _ hq, rfl⟩
      · rintro (h | ⟨q, hq, rfl⟩)
        · exact Or.inl (Or.inl h)
        · rcases List.mem_cons.1 hq with h | h
          · subst h; exact Or.inl (Or.inr rfl)
          · exact Or.inr ⟨q, h, rfl⟩

theorem nodup_keys_insAll (arcs : List (Nat × Nat)) (g : Graph) (h : (keys g).Nodup) :
    (keys (insAll arcs g)).Nodup := by
  induction arcs generalizing g with
  | nil => simpa [insAll] using h
  | cons p arcs ih =>
    have : insAll (p :: arcs) g = insAll arcs (graphInsert g p.1 p.2) := rfl
    rw [this]
    apply ih
    rw [keys_graphInsert]
    by_cases hm : p.1 ∈ keys g
    · rw [if_pos hm]; exact h
    · rw [if_neg hm]
      exact List.Nodup.append h (List.nodup_singleton _) (by simpa using hm)

theorem count_filter_map (arcs : List (Nat × Nat)) (a b : Nat) :
    ((arcs.filter (fun p => p.1 = a)).map (·.2)).count b = arcs.count (a, b) := by
  induction arcs with
  | nil => rfl
  | cons p arcs ih =>
    obtain ⟨u, v⟩ := p
    by_cases h : u = a
    · subst h
      rw [List.filter_cons_of_pos (by simp), List.map_cons, List.count_cons, List.count_cons, ih]
      simp
    · rw [List.filter_cons_of_neg (by simpa using h), ih, List.count_cons]
      simp [h]

theorem length_filter_eq_count (arcs : List (Nat × Nat)) (a : Nat) :
    (arcs.filter (fun p => p.1 = a)).length = (arcs.map (·.1)).count a := by
  induction arcs with
  | nil => rfl
  | cons p arcs ih =>
    by_cases h : p.1 = a
    · rw [List.filter_cons_of_pos (by simpa using h), List.map_cons, List.count_cons, List.length_cons, ih]
      simp [h]
    · rw [List.filter_cons_of_neg (by simpa using h), List.map_cons, List.count_cons, ih]
      simp [h]

/-- a symmetric list of arcs in which every source occurs exactly twice and no arc is a self loop builds a
    closed 2-regular graph -/
theorem good_insAll (R : Nat → Nat → Prop) (arcs : List (Nat × Nat))
    (hsym : ∀ a b, arcs.count (a, b) = arcs.count (b, a))
    (hdeg : ∀ p ∈ arcs, (arcs.map (·.1)).count p.1 = 2)
    (hnl : ∀ p ∈ arcs, p.1 ≠ p.2)
    (hR : ∀ p ∈ arcs, R p.1 p.2) : Good R (insAll arcs []) := by
  have hnd : (keys (insAll arcs [])).Nodup := nodup_keys_insAll arcs [] (by simp)
  have hnb : ∀ x, nb (insAll arcs []) x = (arcs.filter (fun p => p.1 = x)).map (·.2) := by
    intro x; rw [nb_insAll]; simp
  refine ⟨hnd, ?_, ?_⟩
  · intro e he
    have hk := (mem_keys_insAll arcs [] e.1).1 (key_mem_of_mem he)
    simp only [keys_nil, List.not_mem_nil, false_or] at hk
    obtain ⟨p, hp, hpe⟩ := hk
    rw [← nb_of_mem hnd he, hnb]
    refine ⟨?_, ?_, ?_⟩
    · rw [List.length_map, length_filter_eq_count, ← hpe]
      exact hdeg p hp
    · intro hm
      obtain ⟨q, hq, hqe⟩ := List.mem_map.1 hm
      obtain ⟨hq1, hq2⟩ := List.mem_filter.1 hq
      simp only [decide_eq_true_eq] at hq2
      exact hnl q hq1 (hq2.trans hqe.symm)
    · intro v hv
      obtain ⟨q, hq, hqe⟩ := List.mem_map.1 hv
      obtain ⟨hq1, hq2⟩ := List.mem_filter.1 hq
      simp only [decide_eq_true_eq] at hq2
      rw [← hq2, ← hqe]
      exact hR q hq1
  · intro a b
    rw [hnb, hnb, count_filter_map, count_filter_map, hsym]

/-! ### the arcs of a list of cells -/

/-- the arcs inserted for one cell -/
def cellArcs (w : Nat) (c : (Nat × Nat) × Nat) : List (Nat × Nat) :=
  (cell_connected_edges c.2).flatMap fun p =>
    [(edge_at_coordinates p.1 w c.1.1 c.1.2, edge_at_coordinates p.2 w c.1.1 c.1.2),
     (edge_at_coordinates p.2 w c.1.1 c.1.2, edge_at_coordinates p.1 w c.1.1 c.1.2)]

def arcsOf (w : Nat) (cells : List ((Nat × Nat) × Nat)) : List (Nat × Nat) := cells.flatMap (cellArcs w)

theorem buildGraph_eq (w : Nat) (cells : List ((Nat × Nat) × Nat)) :
    buildGraph w cells = insAll (arcsOf w cells) [] := by
  simp only [buildGraph, insAll, arcsOf, cellArcs, List.foldl_flatMap, List.foldl_cons, List.foldl_nil]

theorem count_flatMap_congr {α β : Type} [BEq β] (l : List α) (f : α → List β) (a b : β)
    (h : ∀ x ∈ l, (f x).count a = (f x).count b) : (l.flatMap f).count a = (l.flatMap f).count b := by
  induction l with
  | nil => rfl
  | cons x l ih =>
    rw [List.flatMap_cons, List.count_append, List.count_append, h x List.mem_cons_self,
      ih (fun y hy => h y (List.mem_cons_of_mem _ hy))]

theorem arcsOf_sym (w : Nat) (cells : List ((Nat × Nat) × Nat)) (a b : Nat) :
    (arcsOf w cells).count (a, b) = (arcsOf w cells).count (b, a) := by
  apply count_flatMap_congr
  intro c _
  apply count_flatMap_congr
  intro p _
  simp only [List.count_cons, List.count_nil, beq_iff_eq, Prod.mk.injEq]
  split_ifs <;> omega

/-! ### sums over ranges -/

/-- `Σ_{i<n} f i` -/
def rsum (n : Nat) (f : Nat → Nat) : Nat := ((List.range n).map f).sum

theorem rsum_add (n : Nat) (f g : Nat → Nat) : rsum n (fun i => f i + g i) = rsum n f + rsum n g :=
  List.sum_map_add

theorem rsum_congr (n : Nat) (f g : Nat → Nat) (h : ∀ i < n, f i = g i) : rsum n f = rsum n g := by
  unfold rsum
  congr 1
  exact List.map_congr_left (fun i hi => h i (List.mem_range.1 hi))

theorem rsum_zero (n : Nat) (f : Nat → Nat) (h : ∀ i < n, f i = 0) : rsum n f = 0 := by
  unfold rsum
  apply List.sum_eq_zero
  intro x hx
  obtain ⟨i, hi, rfl⟩ := List.mem_map.1 hx
  exact h i (List.mem_range.1 hi)

theorem rsum_shift (n : Nat) (f : Nat → Nat) (h0 : f 0 = 0) (hn : f (n + 1) = 0) :
    rsum (n + 1) (fun i => f (i + 1)) = rsum (n + 1) f := by
  unfold rsum
  rw [List.sum_range_succ, List.sum_range_succ', hn, h0]
  simp

/-! ### the grid of a bitmap -/

theorem corner_left (rows : List (List Bool)) (y : Nat) : corner rows 0 y = false := by
  simp [corner]

theorem corner_top (rows : List (List Bool)) (x : Nat) : corner rows x 0 = false := by
  simp [corner]

theorem corner_bottom (rows : List (List Bool)) (x : Nat) : corner rows x (rows.length + 1) = false := by
  simp [corner, List.getD_eq_getElem?_getD]

theorem corner_right (w : Nat) (rows : List (List Bool)) (hrows : ∀ r ∈ rows, r.length = w) (y : Nat) :
    corner rows (w + 1) y = false := by
  unfold corner
  split_ifs with h
  · rfl
  · simp only [List.getD_eq_getElem?_getD, Nat.add_sub_cancel]
    by_cases hy : y - 1 < rows.length
    · have hm : rows[y - 1] ∈ rows := List.getElem_mem hy
      have hl := hrows _ hm
      rw [List.getElem?_eq_getElem hy, Option.getD_some, List.getElem?_eq_none (le_of_eq hl)]
      rfl
    · rw [List.getElem?_eq_none (l := rows) (by omega)]
      rfl

/-- the cell value at position (x, y) -/
def cellAt (rows : List (List Bool)) (x y : Nat) : Nat :=
  cell_from_corners (corner rows x y) (corner rows (x + 1) y) (corner rows x (y + 1)) (corner rows (x + 1) (y + 1))

/-- indicator: `e` is the top side of position (x, y) and that side separates inside from outside -/
def tInd (w : Nat) (rows : List (List Bool)) (e x y : Nat) : Nat :=
  ind (corner rows x y ≠ corner rows (x + 1) y ∧ e = edge_at_coordinates edge_top w x y)

/-- indicator: `e` is the left side of position (x, y) and that side separates inside from outside -/
def lInd (w : Nat) (rows : List (List Bool)) (e x y : Nat) : Nat :=
  ind (corner rows x y ≠ corner rows x (y + 1) ∧ e = edge_at_coordinates edge_left w x y)

theorem flatMap_filterMap_ite {α β γ : Type} (l : List α) (p : α → Bool) (f : α → β) (g : β → List γ)
    (h : ∀ x, p x = false → g (f x) = []) :
    (l.filterMap (fun x => if p x then some (f x) else none)).flatMap g = l.flatMap (fun x => g (f x)) := by
  induction l with
  | nil => rfl
  | cons x l ih =>
    rw [List.filterMap_cons, List.flatMap_cons]
    cases hp : p x
    · simp only [Bool.false_eq_true, if_false]
      rw [ih, h x hp, List.nil_append]
    · simp only [if_true]
      rw [List.flatMap_cons, ih]

theorem cellArcs_nil (w x y : Nat) : ∀ tl tr bl br : Bool,
    ((tl || tr || bl || br) && !(tl && tr && bl && br)) = false →
    cellArcs w ((x, y), cell_from_corners tl tr bl br) = [] := by
  intro tl tr bl br
  cases tl <;> cases tr <;> cases bl <;> cases br <;>
    simp [cellArcs, cell_from_corners, cell_connected_edges]

/-- the arcs of the mixed cells, written as a sum over all grid positions -/
theorem arcs_mixed (w : Nat) (rows : List (List Bool)) :
    arcsOf w (mixedCells w rows) = (List.range (rows.length + 1)).flatMap fun y =>
      (List.range (w + 1)).flatMap fun x => cellArcs w ((x, y), cellAt rows x y) := by
  simp only [arcsOf, mixedCells, List.flatMap_assoc]
  congr 1
  funext y
  exact flatMap_filterMap_ite (List.range (w + 1))
    (fun x => (corner rows x y || corner rows (x + 1) y || corner rows x (y + 1) || corner rows (x + 1) (y + 1)) &&
      !(corner rows x y && corner rows (x + 1) y && corner rows x (y + 1) && corner rows (x + 1) (y + 1)))
    (fun x => ((x, y), cellAt rows x y)) (cellArcs w) (fun x hx => cellArcs_nil w x y _ _ _ _ hx)

theorem count_srcs_cell (w x y e : Nat) : ∀ tl tr bl br : Bool,
    ((cellArcs w ((x, y), cell_from_corners tl tr bl br)).map (·.1)).count e =
      ind (tl ≠ tr ∧ e = edge_at_coordinates edge_top w x y) + ind (tl ≠ bl ∧ e = edge_at_coordinates edge_left w x y) +
      ind (tr ≠ br ∧ e = edge_at_coordinates edge_left w (x + 1) y) +
      ind (bl ≠ br ∧ e = edge_at_coordinates edge_top w x (y + 1)) := by
  intro tl tr bl br
  rw [← (C17.edge_ids_shared w x y).1, ← (C17.edge_ids_shared w x y).2]
  simp only [cellArcs, List.map_flatMap, List.map_cons, List.map_nil]
  generalize hf : (fun s => edge_at_coordinates s w x y) = f
  have hf' : ∀ s, edge_at_coordinates s w x y = f s := fun s => by rw [← hf]
  simp only [hf']
  cases tl <;> cases tr <;> cases bl <;> cases br <;>
    simp [cell_from_corners, cell_connected_edges, ind, List.count_cons, edge_left, edge_top, edge_right,
      edge_bottom] <;>
    (try split_ifs) <;> (try omega)

/-- how often `e` occurs as the source of an arc -/
theorem count_srcs (w : Nat) (rows : List (List Bool)) (e : Nat) :
    ((arcsOf w (mixedCells w rows)).map (·.1)).count e =
      rsum (rows.length + 1) fun y => rsum (w + 1) fun x =>
        tInd w rows e x y + lInd w rows e x y + lInd w rows e (x + 1) y + tInd w rows e x (y + 1) := by
  rw [arcs_mixed]
  simp only [List.map_flatMap, List.count_flatMap, rsum]
  congr 1
  apply List.map_congr_left
  intro y _
  simp only [Function.comp, List.count_flatMap]
  congr 1
  apply List.map_congr_left
  intro x _
  exact count_srcs_cell w x y e _ _ _ _

theorem count_bcell (e T L : Nat) (a b c : Bool) :
    ((if a != b then [T] else []) ++ (if a != c then [L] else [])).count e =
      ind (a ≠ b ∧ e = T) + ind (a ≠ c ∧ e = L) := by
  cases a <;> cases b <;> cases c <;> simp [ind, List.count_cons] <;> (try split_ifs) <;> (try omega)

theorem count_boundary (w : Nat) (rows : List (List Bool)) (e : Nat) :
    (boundaryEdges w rows).count e =
      rsum (rows.length + 1) fun y => rsum (w + 1) fun x => tInd w rows e x y + lInd w rows e x y := by
  simp only [boundaryEdges, List.count_flatMap, rsum]
  congr 1
  apply List.map_congr_left
  intro y _
  simp only [Function.comp, List.count_flatMap]
  congr 1
  apply List.map_congr_left
  intro x _
  exact count_bcell _ _ _ _ _ _

/-- every edge id is the source of twice as many arcs as it occurs among the boundary edges -/
theorem count_srcs_eq (w : Nat) (rows : List (List Bool)) (hrows : ∀ r ∈ rows, r.length = w) (e : Nat) :
    ((arcsOf w (mixedCells w rows)).map (·.1)).count e = 2 * (boundaryEdges w rows).count e := by
  rw [count_srcs, count_boundary]
  have hinner : ∀ y, (rsum (w + 1) fun x =>
      tInd w rows e x y + lInd w rows e x y + lInd w rows e (x + 1) y + tInd w rows e x (y + 1)) =
      rsum (w + 1) (fun x => tInd w rows e x y) + rsum (w + 1) (fun x => lInd w rows e x y) +
      rsum (w + 1) (fun x => lInd w rows e x y) + rsum (w + 1) (fun x => tInd w rows e x (y + 1)) := by
    intro y
    simp only [rsum_add]
    rw [rsum_shift (w) (fun x => lInd w rows e x y)]
    · simp [lInd, ind, corner_left]
    · simp [lInd, ind, corner_right w rows hrows]
  simp only [hinner, rsum_add]
  rw [rsum_shift (rows.length) (fun y => rsum (w + 1) (fun x => tInd w rows e x y))]
  · ring
  · exact rsum_zero _ _ (fun x _ => by simp [tInd, ind, corner_top])
  · exact rsum_zero _ _ (fun x _ => by simp [tInd, ind, corner_bottom])

/-! ### the boundary edges are distinct -/

/-- the boundary edges contributed by position (x, y) -/
def bcell (w : Nat) (rows : List (List Bool)) (x y : Nat) : List Nat :=
  (if corner rows x y != corner rows (x + 1) y then [edge_at_coordinates edge_top w x y] else []) ++
  (if corner rows x y != corner rows x (y + 1) then [edge_at_coordinates edge_left w x y] else [])

def brow (w : Nat) (rows : List (List Bool)) (y : Nat) : List Nat :=
  (List.range (w + 1)).flatMap fun x => bcell w rows x y

theorem boundaryEdges_eq (w : Nat) (rows : List (List Bool)) :
    boundaryEdges w rows = (List.range (rows.length + 1)).flatMap (brow w rows) := rfl

theorem mem_bcell {w : Nat} {rows : List (List Bool)} {x y e : Nat} (h : e ∈ bcell w rows x y) :
    e = edge_at_coordinates edge_top w x y ∨ e = edge_at_coordinates edge_left w x y := by
  unfold bcell at h
  rcases List.mem_append.1 h with h | h
  · split_ifs at h
    · exact Or.inl (List.mem_singleton.1 h)
    · simp at h
  · split_ifs at h
    · exact Or.inr (List.mem_singleton.1 h)
    · simp at h

theorem nodup_bcell (w : Nat) (rows : List (List Bool)) (x y : Nat) : (bcell w rows x y).Nodup := by
  have hne : edge_at_coordinates edge_top w x y ≠ edge_at_coordinates edge_left w x y := by
    obtain ⟨h1, h2, _, _⟩ := C17.at_coordinates_eq w x y
    rw [h1, h2]; omega
  unfold bcell
  split_ifs <;> simp [hne]

theorem bcell_inj {w : Nat} {rows : List (List Bool)} {x y x' y' e : Nat} (hx : x ≤ w) (hx' : x' ≤ w)
    (h : e ∈ bcell w rows x y) (h' : e ∈ bcell w rows x' y') : x = x' ∧ y = y' := by
  obtain ⟨i1, i2, i3⟩ := C17.edge_id_injective w x y x' y' hx hx'
  obtain ⟨_, _, j3⟩ := C17.edge_id_injective w x' y' x y hx' hx
  rcases mem_bcell h with h | h <;> rcases mem_bcell h' with h' | h'
  · exact i2 (h.symm.trans h')
  · exact absurd (h'.symm.trans h) j3
  · exact absurd (h.symm.trans h') i3
  · exact i1 (h.symm.trans h')

theorem mem_brow {w : Nat} {rows : List (List Bool)} {y e : Nat} (h : e ∈ brow w rows y) :
    ∃ x, x ≤ w ∧ e ∈ bcell w rows x y := by
  obtain ⟨x, hx, he⟩ := List.mem_flatMap.1 h
  exact ⟨x, by have := List.mem_range.1 hx; omega, he⟩

theorem nodup_boundaryEdges (w : Nat) (rows : List (List Bool)) : (boundaryEdges w rows).Nodup := by
  rw [boundaryEdges_eq, List.nodup_flatMap]
  refine ⟨fun y _ => ?_, ?_⟩
  · unfold brow
    rw [List.nodup_flatMap]
    refine ⟨fun x _ => nodup_bcell w rows x y, ?_⟩
    apply List.Nodup.pairwise_of_forall_ne List.nodup_range
    intro a ha b hb hab e h1 h2
    have ha' := List.mem_range.1 ha
    have hb' := List.mem_range.1 hb
    exact hab (bcell_inj (by omega) (by omega) h1 h2).1
  · apply List.Nodup.pairwise_of_forall_ne List.nodup_range
    intro a _ b _ hab e h1 h2
    obtain ⟨x, hx, he⟩ := mem_brow h1
    obtain ⟨x', hx', he'⟩ := mem_brow h2
    exact hab (bcell_inj hx hx' he he').2

/-! ### the arcs join distinct edges of one cell -/

theorem connected_edges_ge (c : Nat) (h : 16 ≤ c) : cell_connected_edges c = [] := by
  unfold cell_connected_edges
  split <;> first | rfl | omega

theorem connected_edges_sides (c : Nat) (q : Nat × Nat) (hq : q ∈ cell_connected_edges c) :
    q.1 ≠ q.2 ∧ q.1 < 4 ∧ q.2 < 4 := by
  by_cases hc : c < 16
  · exact (C17.table_spec c hc).2 q hq
  · rw [connected_edges_ge c (by omega)] at hq
    simp at hq

theorem side_ids_distinct (w x y s t : Nat) (hs : s < 4) (ht : t < 4) (hst : s ≠ t) :
    edge_at_coordinates s w x y ≠ edge_at_coordinates t w x y := by
  obtain ⟨h0, h1, h2, h3⟩ := C17.at_coordinates_eq w x y
  change edge_at_coordinates 0 w x y = _ at h0
  change edge_at_coordinates 1 w x y = _ at h1
  change edge_at_coordinates 2 w x y = _ at h2
  change edge_at_coordinates 3 w x y = _ at h3
  interval_cases s <;> interval_cases t <;> first | exact absurd rfl hst | (simp only [h0, h1, h2, h3]; omega)

theorem mem_arcsOf {w : Nat} {cells : List ((Nat × Nat) × Nat)} {p : Nat × Nat} (hp : p ∈ arcsOf w cells) :
    ∃ c ∈ cells, ∃ q ∈ cell_connected_edges c.2,
      (p.1 = edge_at_coordinates q.1 w c.1.1 c.1.2 ∧ p.2 = edge_at_coordinates q.2 w c.1.1 c.1.2) ∨
      (p.2 = edge_at_coordinates q.1 w c.1.1 c.1.2 ∧ p.1 = edge_at_coordinates q.2 w c.1.1 c.1.2) := by
  obtain ⟨c, hc, hp⟩ := List.mem_flatMap.1 hp
  obtain ⟨q, hq, hp⟩ := List.mem_flatMap.1 hp
  refine ⟨c, hc, q, hq, ?_⟩
  simp only [List.mem_cons, List.not_mem_nil, or_false] at hp
  rcases hp with rfl | rfl
  · exact Or.inl ⟨rfl, rfl⟩
  · exact Or.inr ⟨rfl, rfl⟩

theorem arcsOf_ne {w : Nat} {cells : List ((Nat × Nat) × Nat)} {p : Nat × Nat} (hp : p ∈ arcsOf w cells) :
    p.1 ≠ p.2 := by
  obtain ⟨c, _, q, hq, h⟩ := mem_arcsOf hp
  obtain ⟨hne, h1, h2⟩ := connected_edges_sides c.2 q hq
  rcases h with ⟨e1, e2⟩ | ⟨e1, e2⟩
  · rw [e1, e2]; exact side_ids_distinct w _ _ _ _ h1 h2 hne
  · rw [e1, e2]; exact side_ids_distinct w _ _ _ _ h2 h1 (Ne.symm hne)

/-! ### the graph of a bitmap -/

theorem mem_srcs_iff (w : Nat) (rows : List (List Bool)) (hrows : ∀ r ∈ rows, r.length = w) (e : Nat) :
    e ∈ (arcsOf w (mixedCells w rows)).map (·.1) ↔ e ∈ boundaryEdges w rows := by
  rw [← List.count_pos_iff, ← List.count_pos_iff (l := boundaryEdges w rows), count_srcs_eq w rows hrows]
  omega

/-- the graph built from the mixed cells of a bitmap is closed and 2-regular -/
theorem build_good (w : Nat) (rows : List (List Bool)) (hrows : ∀ r ∈ rows, r.length = w)
    (R : Nat → Nat → Prop) (hR : ∀ p ∈ arcsOf w (mixedCells w rows), R p.1 p.2) :
    Good R (buildGraph w (mixedCells w rows)) := by
  rw [buildGraph_eq]
  refine good_insAll R _ (arcsOf_sym w _) ?_ (fun p hp => arcsOf_ne hp) hR
  intro p hp
  have hm : p.1 ∈ (arcsOf w (mixedCells w rows)).map (·.1) := List.mem_map.2 ⟨p, hp, rfl⟩
  rw [count_srcs_eq w rows hrows,
    List.count_eq_one_of_mem (nodup_boundaryEdges w rows) ((mem_srcs_iff w rows hrows _).1 hm)]

/-- its keys are the boundary edges -/
theorem build_keys (w : Nat) (rows : List (List Bool)) (hrows : ∀ r ∈ rows, r.length = w) :
    (keys (buildGraph w (mixedCells w rows))).Perm (boundaryEdges w rows) := by
  rw [buildGraph_eq]
  rw [List.perm_ext_iff_of_nodup (nodup_keys_insAll _ [] (by simp)) (nodup_boundaryEdges w rows)]
  intro e
  rw [mem_keys_insAll, ← mem_srcs_iff w rows hrows]
  simp

end Trace
