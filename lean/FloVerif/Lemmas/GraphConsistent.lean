import FloVerif.Lemmas.GraphLabel
import Mathlib.Data.List.Perm.Basic
import Mathlib.Data.List.Count
/-! C03 helper lemmas, part 7: the library's own `check_following_edge_consistency` is the invariant `FolWf`. -/
set_option linter.unusedSectionVars false
set_option linter.unusedVariables false
set_option linter.unusedSimpArgs false
namespace Model.Graph

/-- `check_following_edge_consistency` (path_collision.rs:662, compiled in test builds only): every edge ends at an existing
point, names an existing edge there, and no two edges name the same following edge (`used_edges[end_idx].contains(..)`) -/
structure Consistent (g : Graph) : Prop where
  valid : ∀ a, ∀ e ∈ edgesAt g a, e.endIdx < g.length ∧ e.fol < (edgesAt g e.endIdx).length
  unique : ((allEdges g).map fun e => (e.endIdx, e.fol)).Nodup

/-- all existing (point, edge index) pairs -/
def allSlots (g : Graph) : List (Nat × Nat) :=
  (List.range g.length).flatMap fun p => (List.range (edgesAt g p).length).map fun f => (p, f)

theorem mem_allSlots {g : Graph} {s : Nat × Nat} : s ∈ allSlots g ↔ s.1 < g.length ∧ s.2 < (edgesAt g s.1).length := by
  unfold allSlots
  rw [List.mem_flatMap]
  constructor
  · rintro ⟨p, hp, hs⟩
    rw [List.mem_map] at hs
    obtain ⟨f, hf, rfl⟩ := hs
    exact ⟨List.mem_range.mp hp, List.mem_range.mp hf⟩
  · rintro ⟨h1, h2⟩
    exact ⟨s.1, List.mem_range.mpr h1, List.mem_map.mpr ⟨s.2, List.mem_range.mpr h2, rfl⟩⟩

theorem nodup_allSlots (g : Graph) : (allSlots g).Nodup := by
  unfold allSlots
  rw [List.nodup_flatMap]
  refine ⟨?_, ?_⟩
  · intro p _
    exact List.Nodup.map (fun a b h => by simpa using h) List.nodup_range
  · apply List.Pairwise.imp _ List.nodup_range
    intro a b hab x hxa hxb
    rw [List.mem_map] at hxa hxb
    obtain ⟨_, _, rfl⟩ := hxa
    obtain ⟨_, _, hh⟩ := hxb
    simp only [Prod.mk.injEq] at hh
    exact hab hh.1.symm

theorem length_allEdges (g : Graph) : (allEdges g).length = ((List.range g.length).map fun a => (edgesAt g a).length).sum := by
  have := cntP_eq_sum_range (fun _ => true) g
  simp only [cntP, List.countP_true] at this
  exact this

theorem length_allSlots (g : Graph) : (allSlots g).length = (allEdges g).length := by
  rw [length_allEdges]
  unfold allSlots
  rw [List.length_flatMap]
  congr 1
  apply List.map_congr_left
  intro a _
  simp

theorem slotCount_eq_count (g : Graph) (p f : Nat) :
    slotCount g p f = List.count (p, f) ((allEdges g).map fun e => (e.endIdx, e.fol)) := by
  rw [List.count_eq_countP, List.countP_map]
  unfold slotCount
  apply List.countP_congr
  intro e _
  simp [Prod.ext_iff]

/-- the library's consistency check holds exactly for the graphs with a well-formed following-edge structure: if no two
edges name the same following edge then (pigeonhole) every edge is named by exactly one -/
theorem consistent_iff_folWf (g : Graph) : Consistent g ↔ FolWf g := by
  constructor
  · intro h
    refine ⟨fun a e he => (h.valid a e he).1, ?_⟩
    -- the named slots are a duplicate-free list of existing slots, as long as the list of all existing slots
    have hsub : ((allEdges g).map fun e => (e.endIdx, e.fol)) ⊆ allSlots g := by
      intro s hs
      rw [List.mem_map] at hs
      obtain ⟨e, he, rfl⟩ := hs
      obtain ⟨a, ha⟩ := mem_allEdges.mp he
      exact mem_allSlots.mpr (h.valid a e ha)
    have hperm := (List.subperm_of_subset h.unique hsub).perm_of_length_le
      (by rw [length_allSlots, List.length_map])
    intro p f hp
    rw [slotCount_eq_count, hperm.count_eq]
    split_ifs with hf
    · exact List.count_eq_one_of_mem (nodup_allSlots g) (mem_allSlots.mpr ⟨hp, hf⟩)
    · rw [List.count_eq_zero]
      intro hm
      exact hf (mem_allSlots.mp hm).2
  · intro h
    refine ⟨fun a e he => ⟨h.endValid a e he, h.folValid he⟩, ?_⟩
    rw [List.nodup_iff_count_le_one]
    intro s
    rw [← slotCount_eq_count g s.1 s.2]
    by_cases hp : s.1 < g.length
    · rw [h.slot s.1 s.2 hp]; split_ifs <;> omega
    · have : slotCount g s.1 s.2 = 0 := by
        rw [slotCount_eq]
        apply cntP_eq_zero
        intro a e he
        have := h.endValid a e he
        simp only [pointsTo, Bool.and_eq_false_imp, beq_iff_eq]
        intro h1; omega
      omega

/-- the iteration counter of the model's `while` loop is exact: started with `k = len - edge_idx` iterations it stops exactly
when `edge_idx` reaches the end of the list - more iterations would change nothing (every iteration either advances
`edge_idx` or removes one edge of the point) -/
theorem removeShortAt_fuel (p : Nat) : ∀ (k : Nat) (g : Graph) (e : Nat) (dec : List (Nat × Nat)), Wf g →
    k + e = (edgesAt g p).length → ∀ j, removeShortAt p (k + j) g e dec = removeShortAt p k g e dec := by
  intro k
  induction k with
  | zero =>
    intro g e dec _ hk j
    cases j with
    | zero => rfl
    | succ j =>
      have : edgeAt g p e = none := by
        unfold edgeAt
        apply List.getElem?_eq_none
        omega
      simp only [Nat.zero_add]
      unfold removeShortAt
      rw [this]
  | succ k ih =>
    intro g e dec h hk j
    have hkj : k + 1 + j = (k + j) + 1 := by omega
    rw [hkj]
    unfold removeShortAt
    cases he : edgeAt g p e with
    | none => rfl
    | some ed =>
      simp only
      split_ifs with hc
      · obtain ⟨g', hg', hw, _, hlen, _⟩ := removeEdge_wf h he hc.1
        rw [hg']
        simp only
        have := hlen p
        simp only [if_true] at this
        exact ih g' e dec.tail hw (by omega) j
      · exact ih g (e + 1) dec h (by omega) j

end Model.Graph
