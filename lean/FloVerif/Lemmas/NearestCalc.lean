/-
Helper lemmas for C09 over ℝ: a differentiable function on [0,1] whose derivative is `2·Q` attains its minimum at an
end point or at an interior zero of `Q` at which `Q` is not locally non-negative (Fermat + monotonicity), so a
candidate set that contains those zeros contains a global minimiser; Lipschitz version for approximate zeros.
-/
import Mathlib.Analysis.Calculus.Deriv.Pow
import Mathlib.Analysis.Calculus.Deriv.Mul
import Mathlib.Analysis.Calculus.Deriv.Add
import Mathlib.Analysis.Calculus.LocalExtr.Basic
import Mathlib.Analysis.Calculus.Deriv.MeanValue
import Mathlib.Analysis.Calculus.MeanValue
import Mathlib.Topology.Order.Compact
import Mathlib.Topology.Order.LocalExtr
import Mathlib.Tactic.Linarith
import Mathlib.Tactic.Ring

namespace C09L
open Set

/-- derivative of a cubic in monomial form -/
theorem cubic_hasDerivAt (a b c d t : ℝ) :
    HasDerivAt (fun t : ℝ => a + b * t + c * t ^ 2 + d * t ^ 3) (b + 2 * c * t + 3 * d * t ^ 2) t := by
  have h := (((hasDerivAt_const t a).add ((hasDerivAt_id t).const_mul b)).add ((hasDerivAt_pow 2 t).const_mul c)).add
    ((hasDerivAt_pow 3 t).const_mul d)
  exact h.congr_deriv (by simp; ring)

/-- derivative of the squared distance of a differentiable plane curve to a fixed point -/
theorem distSq_hasDerivAt_aux (X Y X' Y' : ℝ → ℝ) (px py t : ℝ) (hX : HasDerivAt X (X' t) t) (hY : HasDerivAt Y (Y' t) t) :
    HasDerivAt (fun t => (X t - px) * (X t - px) + (Y t - py) * (Y t - py))
      (2 * ((X t - px) * X' t + (Y t - py) * Y' t)) t := by
  have h := ((hX.sub_const px).mul (hX.sub_const px)).add ((hY.sub_const py).mul (hY.sub_const py))
  exact h.congr_deriv (by ring)

/-- the set of global minimisers of a continuous function on [0,1] has a least element -/
theorem exists_least_minimiser (D : ℝ → ℝ) (hc : Continuous D) :
    ∃ ts, 0 ≤ ts ∧ ts ≤ 1 ∧ (∀ t, 0 ≤ t → t ≤ 1 → D ts ≤ D t) ∧
      ∀ s, 0 ≤ s → s ≤ 1 → (∀ t, 0 ≤ t → t ≤ 1 → D s ≤ D t) → ts ≤ s := by
  obtain ⟨t0, ht0, hmin⟩ := isCompact_Icc.exists_isMinOn (nonempty_Icc.2 (zero_le_one' ℝ)) hc.continuousOn
  have hS : IsCompact (Icc (0 : ℝ) 1 ∩ D ⁻¹' {D t0}) :=
    isCompact_Icc.inter_right (isClosed_singleton.preimage hc)
  obtain ⟨ts, ⟨⟨h0, h1⟩, hv⟩, hleast⟩ := hS.exists_isLeast ⟨t0, ht0, rfl⟩
  have hv' : D ts = D t0 := hv
  refine ⟨ts, h0, h1, fun t a b => ?_, fun s a b hs => ?_⟩
  · rw [hv']; exact hmin ⟨a, b⟩
  · apply hleast
    refine ⟨⟨a, b⟩, ?_⟩
    show D s = D t0
    exact le_antisymm (hs t0 ht0.1 ht0.2) (hmin ⟨a, b⟩)

/-- at the least global minimiser, if it is interior: `Q` vanishes and is not non-negative on any neighbourhood -/
theorem least_minimiser_interior (D Q : ℝ → ℝ) (hD : ∀ t, HasDerivAt D (2 * Q t) t) (ts : ℝ) (h0 : 0 < ts) (h1 : ts < 1)
    (hmin : ∀ t, 0 ≤ t → t ≤ 1 → D ts ≤ D t)
    (hleast : ∀ s, 0 ≤ s → s ≤ 1 → (∀ t, 0 ≤ t → t ≤ 1 → D s ≤ D t) → ts ≤ s) :
    Q ts = 0 ∧ ¬ ∃ lo hi, lo < ts ∧ ts < hi ∧ ∀ y, lo ≤ y → y ≤ hi → 0 ≤ Q y := by
  constructor
  · have hloc : IsLocalMin D ts := by
      have : IsMinOn D (Icc 0 1) ts := fun t ht => hmin t ht.1 ht.2
      exact this.isLocalMin (Icc_mem_nhds h0 h1)
    have := hloc.hasDerivAt_eq_zero (hD ts)
    linarith
  · rintro ⟨lo, hi, hlo, hhi, hnn⟩
    have hmono : MonotoneOn D (Icc lo hi) := by
      apply monotoneOn_of_deriv_nonneg (convex_Icc lo hi)
      · exact fun x _ => (hD x).continuousAt.continuousWithinAt
      · exact fun x _ => (hD x).differentiableAt.differentiableWithinAt
      · intro x hx
        rw [interior_Icc] at hx
        rw [(hD x).deriv]
        have := hnn x hx.1.le hx.2.le
        linarith
    set s := max lo 0 with hs
    have hs0 : 0 ≤ s := le_max_right _ _
    have hslt : s < ts := max_lt hlo h0
    have hDs : D s ≤ D ts := hmono ⟨le_max_left _ _, le_trans hslt.le hhi.le⟩ ⟨hlo.le, hhi.le⟩ hslt.le
    have : ts ≤ s := hleast s hs0 (le_trans hslt.le h1.le) (fun t a b => le_trans hDs (hmin t a b))
    linarith

/-- GLOBAL MINIMUM FROM CANDIDATES: `r` is at least as good as 0, 1 and every member of `S` in (0,1); `S` contains
    every interior zero of `Q` except those around which `Q ≥ 0`. Then `r` minimises `D` over [0,1]. -/
theorem global_min_of_candidates (D Q : ℝ → ℝ) (hD : ∀ t, HasDerivAt D (2 * Q t) t) (S : Set ℝ) (r : ℝ)
    (hr0 : D r ≤ D 0) (hr1 : D r ≤ D 1) (hS : ∀ t ∈ S, 0 < t → t < 1 → D r ≤ D t)
    (hc : ∀ t, 0 < t → t < 1 → Q t = 0 → t ∈ S ∨ ∃ lo hi, lo < t ∧ t < hi ∧ ∀ y, lo ≤ y → y ≤ hi → 0 ≤ Q y) :
    ∀ t, 0 ≤ t → t ≤ 1 → D r ≤ D t := by
  have hcont : Continuous D := continuous_iff_continuousAt.2 fun t => (hD t).continuousAt
  obtain ⟨ts, h0, h1, hmin, hleast⟩ := exists_least_minimiser D hcont
  intro t ht0 ht1
  refine le_trans ?_ (hmin t ht0 ht1)
  rcases eq_or_lt_of_le h0 with e | h0'
  · rw [← e]; exact hr0
  rcases eq_or_lt_of_le h1 with e | h1'
  · rw [e]; exact hr1
  obtain ⟨hq, hnn⟩ := least_minimiser_interior D Q hD ts h0' h1' hmin hleast
  rcases hc ts h0' h1' hq with hmem | hloc
  · exact hS ts hmem h0' h1'
  · exact absurd hloc hnn

/-- APPROXIMATE VERSION: every relevant interior zero of `Q` is within `δ` of a member of `S`, and `|Q| ≤ M` on [0,1]:
    `r` is within `2·M·δ` of the minimum of `D` -/
theorem approx_min_of_candidates (D Q : ℝ → ℝ) (hD : ∀ t, HasDerivAt D (2 * Q t) t) (S : Set ℝ) (r δ M : ℝ)
    (hδ : 0 ≤ δ) (hr0 : D r ≤ D 0) (hr1 : D r ≤ D 1) (hS : ∀ t ∈ S, 0 < t → t < 1 → D r ≤ D t)
    (hM : ∀ t, 0 ≤ t → t ≤ 1 → |Q t| ≤ M)
    (hc : ∀ t, 0 < t → t < 1 → Q t = 0 →
      (∃ v ∈ S, |v - t| ≤ δ) ∨ ∃ lo hi, lo < t ∧ t < hi ∧ ∀ y, lo ≤ y → y ≤ hi → 0 ≤ Q y) :
    ∀ t, 0 ≤ t → t ≤ 1 → D r ≤ D t + 2 * M * δ := by
  have hcont : Continuous D := continuous_iff_continuousAt.2 fun t => (hD t).continuousAt
  obtain ⟨ts, h0, h1, hmin, hleast⟩ := exists_least_minimiser D hcont
  have hM0 : 0 ≤ M := le_trans (abs_nonneg _) (hM 0 le_rfl zero_le_one)
  have hlip : ∀ x y, 0 ≤ x → x ≤ 1 → 0 ≤ y → y ≤ 1 → D y ≤ D x + 2 * M * |y - x| := by
    intro x y hx0 hx1 hy0 hy1
    have := (convex_Icc (0 : ℝ) 1).norm_image_sub_le_of_norm_hasDerivWithin_le (f := D) (f' := fun t => 2 * Q t)
      (C := 2 * M) (fun t _ => (hD t).hasDerivWithinAt) (fun t ht => by
        rw [Real.norm_eq_abs, abs_mul, abs_two]
        have := hM t ht.1 ht.2
        linarith) (x := x) (y := y) ⟨hx0, hx1⟩ ⟨hy0, hy1⟩
    rw [Real.norm_eq_abs, Real.norm_eq_abs] at this
    have h2 := le_abs_self (D y - D x)
    linarith
  intro t ht0 ht1
  have hMδ : 0 ≤ 2 * M * δ := mul_nonneg (mul_nonneg zero_le_two hM0) hδ
  suffices h : D r ≤ D ts + 2 * M * δ by have := hmin t ht0 ht1; linarith
  rcases eq_or_lt_of_le h0 with e | h0'
  · have : D r ≤ D ts := by rw [← e]; exact hr0
    linarith
  rcases eq_or_lt_of_le h1 with e | h1'
  · have : D r ≤ D ts := by rw [e]; exact hr1
    linarith
  obtain ⟨hq, hnn⟩ := least_minimiser_interior D Q hD ts h0' h1' hmin hleast
  rcases hc ts h0' h1' hq with ⟨v, hvS, hvd⟩ | hloc
  · -- the candidate nearest to v inside [0,1]
    rcases le_or_gt v 0 with hv0 | hv0
    · -- v ≤ 0: the end 0 is within δ of ts
      have h2 := hlip ts 0 h0 h1 le_rfl zero_le_one
      have h3 : |0 - ts| ≤ δ := by
        rw [abs_sub_comm] at hvd ⊢
        rw [abs_of_nonneg (by linarith : 0 ≤ ts - 0)]
        have := le_abs_self (ts - v)
        linarith
      have := mul_le_mul_of_nonneg_left h3 (mul_nonneg zero_le_two hM0)
      linarith
    rcases le_or_gt 1 v with hv1 | hv1
    · have h2 := hlip ts 1 h0 h1 zero_le_one le_rfl
      have h3 : |1 - ts| ≤ δ := by
        rw [abs_of_nonneg (by linarith : 0 ≤ 1 - ts)]
        have := le_abs_self (v - ts)
        linarith
      have := mul_le_mul_of_nonneg_left h3 (mul_nonneg zero_le_two hM0)
      linarith
    · have h2 := hlip ts v h0 h1 hv0.le hv1.le
      have := mul_le_mul_of_nonneg_left hvd (mul_nonneg zero_le_two hM0)
      have := hS v hvS hv0 hv1
      linarith
  · exact absurd hloc hnn

end C09L
