/-
Helper lemmas for C16 (scan conversion of a path): the list mechanism between the root solver and the returned ranges.

Layout
  1. ranges and membership; the clip stage `raycast_intercepts_on_line`
  2. `tuples()` pairing of a sorted list: order and crossing parity
  3. the stable insertion sort `listSortBy`
  4. `remove_duplicate_intercepts`: the generated loop equals a fuel-free recursion `dedupe`
  5. the row and column closures as compositions of these stages
-/
import FloVerif.Model.PathContour
import Mathlib.Tactic.Ring
import Mathlib.Tactic.Linarith
import Mathlib.Tactic.SplitIfs
import Mathlib.Tactic.NormNum.OfScientific
import Mathlib.Algebra.Order.Field.Basic
import Mathlib.Algebra.Order.AbsoluteValue.Basic
import Mathlib.Data.List.Perm.Basic
import Mathlib.Data.List.Nodup
import Mathlib.Tactic.Positivity
import Mathlib.Tactic.LinearCombination
import Mathlib.Tactic.Tauto
import Mathlib.Tactic.NormNum

set_option linter.unusedSectionVars false
set_option linter.unusedVariables false
namespace PathContourLemmas
open Prelude Gen Model.PathContour

variable {K : Type} [Field K] [LinearOrder K] [IsStrictOrderedRing K] [Inhabited K] [FSqrt K] [FSignum K]

/-- in exact arithmetic `f64::abs` is the absolute value -/
scoped instance : FAbs K := ⟨fun a => |a|⟩
/-- `n as f64` -/
scoped instance : OfInt K := ⟨fun z => (z : K)⟩
/-- without NaN and signed zeros `total_cmp` is `≤` -/
scoped instance : FTotalLe K := ⟨fun a b => decide (a ≤ b)⟩

/-! ## 1. ranges, membership, clipping -/

/-- `x` lies in the half-open range `start..end` -/
def InR (x : K) (r : RangeT K) : Prop := r.start ≤ x ∧ x < r.end_

/-- `x` lies in one of the ranges -/
def inRanges (x : K) (rs : List (RangeT K)) : Prop := ∃ r ∈ rs, InR x r

/-- each range ends at or before the start of every later one -/
def Ordered (rs : List (RangeT K)) : Prop := rs.Pairwise (fun a b => a.end_ ≤ b.start)

/-- the `map` step of `raycast_intercepts_on_line` -/
def clipR (w : K) (r : RangeT K) : RangeT K :=
  RangeT.mk (if r.start < 0 then 0 else r.start) (if r.end_ ≥ w then w else r.end_)

theorem fabs_eq (a : K) : fabs a = |a| := rfl
theorem lit0 : (0.0 : K) = 0 := by norm_num
theorem lit1 : (1.0 : K) = 1 := by norm_num
theorem lit3 : (3.0 : K) = 3 := by norm_num

/-- the generated clip stage as filter / map / filter -/
theorem raycast_eq (f : K → List (RangeT K)) (y s : K) (w : Nat) :
    raycast_intercepts_on_line f y s w =
      (((f (y * s)).filter (fun r => decide (r.end_ ≥ 0) && decide (r.start < (w : K)))).map (clipR (w : K))).filter
        (fun r => decide (r.start < r.end_)) := by
  simp only [raycast_intercepts_on_line, ofInt, lit0, Int.cast_natCast, decide_eq_true_eq]
  rfl

theorem clipR_start_le (w : K) (r : RangeT K) : r.start ≤ (clipR w r).start := by
  simp only [clipR]; split_ifs with h
  · exact le_of_lt h
  · exact le_refl _

theorem clipR_end_le (w : K) (r : RangeT K) : (clipR w r).end_ ≤ r.end_ := by
  simp only [clipR]; split_ifs with h
  · exact h
  · exact le_refl _

theorem clipR_start_nonneg (w : K) (r : RangeT K) : 0 ≤ (clipR w r).start := by
  simp only [clipR]; split_ifs with h
  · exact le_refl _
  · exact not_lt.1 h

theorem clipR_end_le_w (w : K) (r : RangeT K) : (clipR w r).end_ ≤ w := by
  simp only [clipR]; split_ifs with h
  · exact le_refl _
  · exact le_of_lt (not_le.1 h)

/-- membership in a clipped range -/
theorem inR_clipR (w x : K) (r : RangeT K) : InR x (clipR w r) ↔ InR x r ∧ 0 ≤ x ∧ x < w := by
  simp only [InR, clipR]
  constructor
  · rintro ⟨h1, h2⟩
    split_ifs at h1 h2 with ha hb hb
    · exact ⟨⟨le_trans (le_of_lt ha) h1, lt_of_lt_of_le h2 hb⟩, h1, h2⟩
    · exact ⟨⟨le_trans (le_of_lt ha) h1, h2⟩, h1, lt_trans h2 (not_le.1 hb)⟩
    · exact ⟨⟨h1, lt_of_lt_of_le h2 hb⟩, le_trans (not_lt.1 ha) h1, h2⟩
    · exact ⟨⟨h1, h2⟩, le_trans (not_lt.1 ha) h1, lt_trans h2 (not_le.1 hb)⟩
  · rintro ⟨⟨h1, h2⟩, h3, h4⟩
    constructor
    · split_ifs <;> assumption
    · split_ifs <;> assumption

/-! ## 2. pairing -/

/-- the ranges made from consecutive pairs of positions -/
def pairRanges (l : List K) : List (RangeT K) := (listPairs l).map (fun p => RangeT.mk p.t0 p.t1)

@[simp] theorem pairRanges_nil : pairRanges ([] : List K) = [] := rfl
@[simp] theorem pairRanges_one (a : K) : pairRanges [a] = [] := rfl
@[simp] theorem pairRanges_cons2 (a b : K) (l : List K) : pairRanges (a :: b :: l) = RangeT.mk a b :: pairRanges l := rfl

/-- number of positions at or left of `x` -/
def countLe (x : K) (l : List K) : Nat := (l.filter (fun a => decide (a ≤ x))).length

@[simp] theorem countLe_nil (x : K) : countLe x [] = 0 := rfl
theorem countLe_cons (x a : K) (l : List K) : countLe x (a :: l) = (if a ≤ x then 1 else 0) + countLe x l := by
  simp only [countLe, List.filter_cons]
  by_cases h : a ≤ x
  · simp [h]; omega
  · simp [h]

theorem countLe_eq_zero {x : K} {l : List K} (h : ∀ y ∈ l, x < y) : countLe x l = 0 := by
  simp only [countLe, List.length_eq_zero_iff, List.filter_eq_nil_iff, decide_eq_true_eq, not_le]
  exact h

theorem countLe_perm {x : K} {l l' : List K} (h : l.Perm l') : countLe x l = countLe x l' :=
  (h.filter _).length_eq

/-- every start of a pair range is at or before its end, for a sorted list -/
theorem pairRanges_nonneg : ∀ (l : List K), l.Pairwise (· ≤ ·) → ∀ r ∈ pairRanges l, r.start ≤ r.end_
  | [], _, r, hr => by simp at hr
  | [_], _, r, hr => by simp at hr
  | a :: b :: rest, hs, r, hr => by
    rw [pairRanges_cons2, List.mem_cons] at hr
    rcases hr with rfl | hr
    · exact (List.pairwise_cons.1 hs).1 b (by simp)
    · exact pairRanges_nonneg rest (List.pairwise_cons.1 (List.pairwise_cons.1 hs).2).2 r hr

/-- every pair range of a list whose members are all `≥ m` starts at or after `m` -/
theorem pairRanges_start_ge (m : K) : ∀ (l : List K), (∀ y ∈ l, m ≤ y) → ∀ r ∈ pairRanges l, m ≤ r.start
  | [], _, r, hr => by simp at hr
  | [_], _, r, hr => by simp at hr
  | a :: b :: rest, h, r, hr => by
    rw [pairRanges_cons2, List.mem_cons] at hr
    rcases hr with rfl | hr
    · exact h a (by simp)
    · exact pairRanges_start_ge m rest (fun y hy => h y (by simp [hy])) r hr

/-- the pair ranges of a sorted list are in ascending order and do not overlap -/
theorem pairRanges_ordered : ∀ (l : List K), l.Pairwise (· ≤ ·) → Ordered (pairRanges l)
  | [], _ => List.Pairwise.nil
  | [_], _ => List.Pairwise.nil
  | a :: b :: rest, hs => by
    have hbr : ∀ y ∈ rest, b ≤ y := (List.pairwise_cons.1 (List.pairwise_cons.1 hs).2).1
    have hs' : rest.Pairwise (· ≤ ·) := (List.pairwise_cons.1 (List.pairwise_cons.1 hs).2).2
    rw [pairRanges_cons2]
    exact List.Pairwise.cons (fun r hr => pairRanges_start_ge b rest hbr r hr) (pairRanges_ordered rest hs')

/-- EVEN-ODD RULE on a sorted list of crossings, any length: `x` is in a pair range iff the number of crossings at or
    left of `x` is odd and `x` is left of the unpaired last crossing if there is one (odd length: `tuples()` drops it) -/
theorem pairs_parity (x : K) : ∀ (l : List K), l.Pairwise (· ≤ ·) →
    (inRanges x (pairRanges l) ↔ countLe x l % 2 = 1 ∧ (l.length % 2 = 0 ∨ ∀ z ∈ l.getLast?, x < z))
  | [], _ => by simp [inRanges]
  | [a], _ => by
    simp only [inRanges, pairRanges_one, List.not_mem_nil, false_and, exists_false, countLe_cons, countLe_nil,
      List.length_singleton, List.getLast?_singleton, Option.mem_def, Option.some.injEq, forall_eq', false_iff]
    rintro ⟨h1, h2 | h2⟩
    · omega
    · by_cases h : a ≤ x
      · exact absurd h2 (not_lt.2 h)
      · simp [h] at h1
  | a :: b :: rest, hs => by
    have hab : a ≤ b := (List.pairwise_cons.1 hs).1 b (by simp)
    have hbr : ∀ y ∈ rest, b ≤ y := (List.pairwise_cons.1 (List.pairwise_cons.1 hs).2).1
    have hs' : rest.Pairwise (· ≤ ·) := (List.pairwise_cons.1 (List.pairwise_cons.1 hs).2).2
    have ih := pairs_parity x rest hs'
    have hlast : (rest.length % 2 = 0 ∨ ∀ z ∈ rest.getLast?, x < z) ↔
        ((a :: b :: rest).length % 2 = 0 ∨ ∀ z ∈ (a :: b :: rest).getLast?, x < z) := by
      cases rest with
      | nil => simp
      | cons c r =>
        have e1 : (a :: b :: c :: r).getLast? = (c :: r).getLast? := by simp [List.getLast?_cons_cons]
        have e2 : (a :: b :: c :: r).length % 2 = (c :: r).length % 2 := by simp only [List.length_cons]; omega
        rw [e1, e2]
    have hin : inRanges x (pairRanges (a :: b :: rest)) ↔ (a ≤ x ∧ x < b) ∨ inRanges x (pairRanges rest) := by
      simp only [inRanges, pairRanges_cons2, List.mem_cons, exists_eq_or_imp, InR]
    rw [hin, ← hlast, countLe_cons, countLe_cons]
    by_cases h1 : a ≤ x
    · by_cases h2 : b ≤ x
      · simp only [h1, h2, if_true, not_lt.2 h2, and_false, false_or]
        rw [ih]
        constructor
        · rintro ⟨h, h'⟩; exact ⟨by omega, h'⟩
        · rintro ⟨h, h'⟩; exact ⟨by omega, h'⟩
      · have hx : x < b := not_le.1 h2
        have h0 : countLe x rest = 0 := countLe_eq_zero (fun y hy => lt_of_lt_of_le hx (hbr y hy))
        have hl : rest.length % 2 = 0 ∨ ∀ z ∈ rest.getLast?, x < z := by
          right; intro z hz
          exact lt_of_lt_of_le hx (hbr z (List.mem_of_getLast? hz))
        rw [h0]; simp only [h1, h2, if_true, if_false]
        constructor
        · intro _; exact ⟨by norm_num, hl⟩
        · intro _; exact Or.inl ⟨trivial, hx⟩
    · have hxa : x < a := not_le.1 h1
      have h2 : ¬ b ≤ x := fun h => h1 (le_trans hab h)
      have h0 : countLe x rest = 0 :=
        countLe_eq_zero (fun y hy => lt_of_lt_of_le (lt_of_lt_of_le hxa hab) (hbr y hy))
      have : ¬ inRanges x (pairRanges rest) := by rw [ih, h0]; omega
      simp [h1, h2, h0, this]

/-! ## 3. the stable insertion sort -/

section SortSec
variable {α β : Type}

theorem insertSorted_perm (le : α → α → Bool) (x : α) : ∀ l : List α, (insertSorted le x l).Perm (x :: l)
  | [] => List.Perm.refl _
  | y :: ys => by
    simp only [insertSorted]
    split_ifs
    · exact ((insertSorted_perm le x ys).cons y).trans (List.Perm.swap x y ys)
    · exact List.Perm.refl _

theorem foldl_insertSorted_perm (le : α → α → Bool) : ∀ (l acc : List α),
    (l.foldl (fun acc x => insertSorted le x acc) acc).Perm (acc ++ l)
  | [], acc => by simp
  | x :: l, acc => by
    simp only [List.foldl_cons]
    refine (foldl_insertSorted_perm le l _).trans ?_
    refine ((insertSorted_perm le x acc).append_right l).trans ?_
    simpa using (List.perm_middle (l₁ := acc) (l₂ := l) (a := x)).symm

/-- sorting permutes -/
theorem listSortBy_perm (le : α → α → Bool) (l : List α) : (listSortBy le l).Perm l := by
  simpa [listSortBy] using foldl_insertSorted_perm le l []

theorem insertSorted_sorted (le : α → α → Bool) (htot : ∀ a b, le a b = true ∨ le b a = true)
    (htr : ∀ a b c, le a b = true → le b c = true → le a c = true) (x : α) :
    ∀ l : List α, l.Pairwise (fun a b => le a b = true) → (insertSorted le x l).Pairwise (fun a b => le a b = true)
  | [], _ => by simp [insertSorted]
  | y :: ys, h => by
    have hy := (List.pairwise_cons.1 h)
    simp only [insertSorted]
    split_ifs with hle
    · refine List.pairwise_cons.2 ⟨?_, insertSorted_sorted le htot htr x ys hy.2⟩
      intro z hz
      rcases List.mem_cons.1 ((insertSorted_perm le x ys).subset hz) with rfl | hz
      · exact hle
      · exact hy.1 z hz
    · have hxy : le x y = true := (htot x y).resolve_right hle
      refine List.pairwise_cons.2 ⟨?_, h⟩
      intro z hz
      rcases List.mem_cons.1 hz with rfl | hz
      · exact hxy
      · exact htr _ _ _ hxy (hy.1 z hz)

/-- sorting by a total preorder sorts -/
theorem listSortBy_sorted (le : α → α → Bool) (htot : ∀ a b, le a b = true ∨ le b a = true)
    (htr : ∀ a b c, le a b = true → le b c = true → le a c = true) (l : List α) :
    (listSortBy le l).Pairwise (fun a b => le a b = true) := by
  have : ∀ (l acc : List α), acc.Pairwise (fun a b => le a b = true) →
      (l.foldl (fun acc x => insertSorted le x acc) acc).Pairwise (fun a b => le a b = true) := by
    intro l
    induction l with
    | nil => intro acc h; simpa using h
    | cons x l ih => intro acc h; exact ih _ (insertSorted_sorted le htot htr x acc h)
  exact this l [] List.Pairwise.nil

theorem map_insertSorted (f : α → β) (le : α → α → Bool) (le' : β → β → Bool) (h : ∀ a b, le a b = le' (f a) (f b)) (x : α) :
    ∀ l : List α, (insertSorted le x l).map f = insertSorted le' (f x) (l.map f)
  | [] => rfl
  | y :: ys => by
    simp only [insertSorted, List.map_cons, h y x]
    split_ifs
    · simp [map_insertSorted f le le' h x ys]
    · simp

/-- sorting records by a key and projecting the key is sorting the keys (the sort is stable) -/
theorem map_listSortBy (f : α → β) (le : α → α → Bool) (le' : β → β → Bool) (h : ∀ a b, le a b = le' (f a) (f b)) (l : List α) :
    (listSortBy le l).map f = listSortBy le' (l.map f) := by
  have : ∀ (l acc : List α), (l.foldl (fun acc x => insertSorted le x acc) acc).map f =
      (l.map f).foldl (fun acc x => insertSorted le' x acc) (acc.map f) := by
    intro l
    induction l with
    | nil => intro acc; rfl
    | cons x l ih => intro acc; simp only [List.foldl_cons, List.map_cons]; rw [ih, map_insertSorted f le le' h]
  simpa [listSortBy] using this l []

/-- a sorted list is left alone by the sort -/
theorem insertSorted_of_le (le : α → α → Bool) (x : α) : ∀ l : List α, (∀ y ∈ l, le y x = true) → insertSorted le x l = l ++ [x]
  | [], _ => rfl
  | y :: ys, h => by
    simp only [insertSorted, h y (by simp), if_true, List.cons_append]
    rw [insertSorted_of_le le x ys (fun z hz => h z (by simp [hz]))]

end SortSec

/-- the order the row closure sorts by -/
def leX (a b : InterceptT K) : Bool := ftotalLe a.x_pos b.x_pos

theorem leX_iff (a b : InterceptT K) : leX a b = true ↔ a.x_pos ≤ b.x_pos := by
  simp [leX, ftotalLe]

/-- hits in ascending x order -/
def SortedX (l : List (InterceptT K)) : Prop := l.Pairwise (fun a b => a.x_pos ≤ b.x_pos)

theorem sortedX_sort (l : List (InterceptT K)) : SortedX (listSortBy leX l) := by
  have := listSortBy_sorted (leX (K := K)) (fun a b => by simp only [leX_iff]; exact le_total _ _)
    (fun a b c => by simp only [leX_iff]; exact le_trans) l
  exact this.imp (fun h => (leX_iff _ _).1 h)

theorem SortedX.map {l : List (InterceptT K)} (h : SortedX l) : (l.map (·.x_pos)).Pairwise (· ≤ ·) :=
  List.pairwise_map.2 h

theorem sortedK_sort (l : List K) : (listSortBy (fun a b => ftotalLe a b) l).Pairwise (· ≤ ·) := by
  have := listSortBy_sorted (fun a b : K => ftotalLe a b) (fun a b => by simp only [ftotalLe, decide_eq_true_eq]; exact le_total _ _)
    (fun a b c => by simp only [ftotalLe, decide_eq_true_eq]; exact le_trans) l
  exact this.imp (fun h => by simpa [ftotalLe] using h)

/-! ## 4. remove_duplicate_intercepts -/

/-- the part of curve `h.curve_idx` between the hit and the nearer end of the curve, as the control points (x and y) of the
    `CurveSection` the code builds (`section(0, t)` for `t < 0.5`, `section(t, 1)` otherwise) -/
def hitSection (curves : List (CurveRow K)) (h : InterceptT K) : T2 (T3 K (T2 K K) K) (T3 K (T2 K K) K) :=
  let c := listGet curves h.curve_idx
  if decide (h.t < 0.5) then
    T2.mk (section_all_points c.t0.t0 c.t0.t1 c.t0.t2 c.t0.t3 (section_new (0.0 : K) h.t))
      (section_all_points c.t1.t0 c.t1.t1 c.t1.t2 c.t1.t3 (section_new (0.0 : K) h.t))
  else
    T2.mk (section_all_points c.t0.t0 c.t0.t1 c.t0.t2 c.t0.t3 (section_new h.t (1.0 : K)))
      (section_all_points c.t1.t0 c.t1.t1 c.t1.t2 c.t1.t3 (section_new h.t (1.0 : K)))

/-- the length the code compares with `MIN_DISTANCE`: 0 for an exact end-to-start pair, otherwise the control polygon length
    of the two curve pieces between the hits and the ends of their curves -/
def joinLength (curves : List (CurveRow K)) (prev next : InterceptT K) : K :=
  if ((prev.t == (0.0 : K)) && (next.t == (1.0 : K))) || ((prev.t == (1.0 : K)) && (next.t == (0.0 : K))) then (0.0 : K)
  else contour_control_polygon_length (hitSection curves prev).t0 (hitSection curves prev).t1 +
    contour_control_polygon_length (hitSection curves next).t0 (hitSection curves next).t1

/-- the whole condition under which `remove_duplicate_intercepts` removes `prev` because of `next` (path_contour.rs:172, 192) -/
def dupPair (curves : List (CurveRow K)) (prev next : InterceptT K) : Bool :=
  (curves_are_neighbors curves.length prev.curve_idx next.curve_idx && decide (|prev.x_pos - next.x_pos| ≤ (1e-6 : K))) &&
    (decide (joinLength curves prev next ≤ (1e-6 : K)) && points_are_same_side_horiz curves prev next)

/-- the index the loop compares `idx` with: the next one, the first one for the last -/
def nextIdx (n idx : Nat) : Nat := if decide (idx < n - 1) then idx + 1 else 0

/-- the decision of one loop iteration on the current list -/
def removeAt (curves : List (CurveRow K)) (l : List (InterceptT K)) (idx : Nat) : Bool :=
  dupPair curves (listGet l idx) (listGet l (nextIdx l.length idx))

section Dedupe
variable {ι : Type}

/-- one iteration of the loop with the decision abstracted -/
def stepSpec (rm : List ι → Nat → Bool) (st : T2 (List ι) Nat) : Sum (T2 (List ι) Nat) (T2 (List ι) Nat) :=
  if decide (st.t1 < st.t0.length) then
    if rm st.t0 st.t1 then Sum.inl (T2.mk (st.t0.eraseIdx st.t1) st.t1) else Sum.inl (T2.mk st.t0 (st.t1 + 1))
  else Sum.inr st

/-- the loop without fuel: at `idx`, remove the element if the decision says so (and look at the same index again),
    otherwise move on; stop at the end of the list -/
def dedupe (rm : List ι → Nat → Bool) (l : List ι) (idx : Nat) : List ι :=
  if h : idx < l.length then
    if rm l idx then dedupe rm (l.eraseIdx idx) idx else dedupe rm l (idx + 1)
  else l
termination_by l.length - idx
decreasing_by
  · simp only [List.length_eraseIdx, h, if_true]; omega
  · omega

/-- fuel `remaining + 1` is enough: every iteration removes an element or advances -/
theorem iterFuel_stepSpec (rm : List ι → Nat → Bool) : ∀ (fuel : Nat) (l : List ι) (idx : Nat), l.length - idx + 1 ≤ fuel →
    (iterFuel fuel (stepSpec rm) (fun st => st) (T2.mk l idx)).t0 = dedupe rm l idx
  | 0, l, idx, h => by omega
  | fuel + 1, l, idx, h => by
    rw [dedupe]
    simp only [iterFuel, stepSpec, decide_eq_true_eq]
    by_cases hi : idx < l.length
    · by_cases hr : rm l idx = true
      · simp only [hi, hr, if_true, dif_pos]
        exact iterFuel_stepSpec rm fuel _ idx (by simp only [List.length_eraseIdx, hi, if_true]; omega)
      · simp only [hi, hr, if_true, dif_pos]
        exact iterFuel_stepSpec rm fuel l (idx + 1) (by omega)
    · simp only [hi, if_false, dif_neg, not_false_eq_true]

theorem dedupe_sublist (rm : List ι → Nat → Bool) (l : List ι) (idx : Nat) : (dedupe rm l idx).Sublist l := by
  fun_induction dedupe rm l idx with
  | case1 l idx h hr ih => exact ih.trans (List.eraseIdx_sublist l idx)
  | case2 l idx h hr ih => exact ih
  | case3 l idx h => exact List.Sublist.refl l

/-- a chain of removals, each one licensed by the decision on the list as it was at that moment -/
inductive Removals (rm : List ι → Nat → Bool) : List ι → List ι → Prop
  | done (l : List ι) : Removals rm l l
  | step {l l' : List ι} (idx : Nat) (h : idx < l.length) (hr : rm l idx = true) :
      Removals rm (l.eraseIdx idx) l' → Removals rm l l'

theorem dedupe_removals (rm : List ι → Nat → Bool) (l : List ι) (idx : Nat) : Removals rm l (dedupe rm l idx) := by
  fun_induction dedupe rm l idx with
  | case1 l idx h hr ih => exact Removals.step idx h hr ih
  | case2 l idx h hr ih => exact ih
  | case3 l idx h => exact Removals.done l

/-- if the decision is negative everywhere on the list, nothing is removed -/
theorem dedupe_id (rm : List ι → Nat → Bool) (l : List ι) (idx : Nat) (h : ∀ i, i < l.length → rm l i = false) :
    dedupe rm l idx = l := by
  fun_induction dedupe rm l idx with
  | case1 l idx hi hr ih => rw [h idx hi] at hr; exact absurd hr (by simp)
  | case2 l idx hi hr ih => exact ih h
  | case3 l idx hi => rfl

end Dedupe

theorem nextIdx_lt {n idx : Nat} (h : idx < n) : nextIdx n idx < n := by
  simp only [nextIdx, decide_eq_true_eq]; split_ifs <;> omega

theorem listGet_mem {α : Type} [Inhabited α] {l : List α} {i : Nat} (h : i < l.length) : listGet l i ∈ l := by
  simp only [listGet, getElem!_pos l i h]
  exact List.getElem_mem h

theorem step_shape {σ : Type} (c a b d e : Bool) (A B C : σ) :
    (if c = true then (if (a && b) = true then (if (d && e) = true then A else B) else B) else C) =
    (if c = true then (if ((a && b) && (d && e)) = true then A else B) else C) := by
  cases c <;> cases a <;> cases b <;> cases d <;> cases e <;> rfl

/-- THE GENERATED LOOP IS THE FUEL-FREE RECURSION: `iterFuel (len + 1)` never runs out, for every input list -/
theorem rdi_eq_dedupe (curves : List (CurveRow K)) (l : List (InterceptT K)) :
    remove_duplicate_intercepts curves l = dedupe (removeAt curves) l 0 := by
  rw [← iterFuel_stepSpec (removeAt curves) (l.length + 1) l 0 (by omega)]
  unfold remove_duplicate_intercepts
  simp only []
  congr 2
  funext st
  exact (step_shape _ _ _ _ _ _ _ _).trans rfl

/-- if no two hits of the list (a hit with itself included) satisfy the duplicate condition, the list is returned unchanged -/
theorem rdi_untouched (curves : List (CurveRow K)) (l : List (InterceptT K))
    (h : ∀ a ∈ l, ∀ b ∈ l, dupPair curves a b = false) : remove_duplicate_intercepts curves l = l := by
  rw [rdi_eq_dedupe]
  apply dedupe_id
  intro i hi
  exact h _ (listGet_mem hi) _ (listGet_mem (nextIdx_lt hi))

theorem rdi_sublist (curves : List (CurveRow K)) (l : List (InterceptT K)) :
    (remove_duplicate_intercepts curves l).Sublist l := by
  rw [rdi_eq_dedupe]; exact dedupe_sublist _ _ _

theorem SortedX.sublist {l l' : List (InterceptT K)} (h : SortedX l) (hs : l'.Sublist l) : SortedX l' :=
  List.Pairwise.sublist hs h

/-! ## 5. the closures -/

theorem foldl_skip_append {α β : Type} (c : β → Bool) (g : β → List α) : ∀ (l : List β) (init : List α),
    l.foldl (fun acc it => if c it = true then acc else acc ++ g it) init =
      init ++ l.flatMap (fun it => if c it = true then [] else g it)
  | [], init => by simp
  | x :: l, init => by
    simp only [List.foldl_cons, List.flatMap_cons]
    rw [foldl_skip_append c g l]
    split_ifs <;> simp

theorem listPairs_map {α β : Type} (f : α → β) : ∀ l : List α, listPairs (l.map f) = (listPairs l).map (fun p => T2.mk (f p.t0) (f p.t1))
  | [] => rfl
  | [_] => rfl
  | a :: b :: rest => by simp [listPairs, listPairs_map f rest]

/-- the hits the row closure records for one curve (`it.t0` is the index of the curve in `PathContour::curves`): none if `y` is
    outside the curve's bounding box, otherwise one per solver parameter `t` (`t ≥ 0`, or any `t` for a single curve),
    at `x = curve_x(t)` -/
def rowHits (solve : K → K → K → K → K → List K) (one : Bool) (y : K) (it : T2 Nat (CurveRow K)) : List (InterceptT K) :=
  if (decide (y < it.t1.t2.t0.y) || decide (y > it.t1.t2.t1.y)) = true then []
  else List.map
      (fun t => ({ curve_idx := it.t0, t := t, x_pos := curve_point_at_pos it.t1.t0.t0 it.t1.t0.t1 it.t1.t0.t2 it.t1.t0.t3 t } : InterceptT K))
      (List.filter (fun t => decide (t ≥ (0.0 : K)) || one) (solve it.t1.t1.t0 it.t1.t1.t1 it.t1.t1.t2 it.t1.t1.t3 y))

/-- all hits of the scanline `y`, in curve order, before sorting -/
def rowRaw (solve : K → K → K → K → K → List K) (curves : List (CurveRow K)) (y : K) : List (InterceptT K) :=
  (listEnum curves).flatMap (rowHits solve (curves.length == 1) y)

/-- THE ROW CLOSURE: gather, sort by x, remove duplicates, pair up -/
theorem row_intercepts_eq (solve : K → K → K → K → K → List K) (curves : List (CurveRow K)) (y : K) :
    row_intercepts solve curves y =
      pairRanges ((remove_duplicate_intercepts curves (listSortBy leX (rowRaw solve curves y))).map (·.x_pos)) := by
  unfold row_intercepts
  simp only [foldlT]
  rw [foldl_skip_append]
  simp only [pairRanges, listPairs_map, List.map_map, List.nil_append]
  rfl

/-- the positions the column closure records for one curve: none if `x` is outside the bounding box, otherwise `curve_y(t)`
    for every solver parameter `t > 0` -/
def colHits (solve : K → K → K → K → K → List K) (x : K) (c : CurveRow K) : List K :=
  if (decide (x < c.t2.t0.x) || decide (x > c.t2.t1.x)) = true then []
  else List.map (fun t => curve_point_at_pos c.t1.t0 c.t1.t1 c.t1.t2 c.t1.t3 t)
      (List.filter (fun t => decide (t > (0.0 : K))) (solve c.t0.t0 c.t0.t1 c.t0.t2 c.t0.t3 x))

/-- THE COLUMN CLOSURE: gather, sort, pair up (no duplicate removal) -/
theorem column_intercepts_eq (solve : K → K → K → K → K → List K) (curves : List (CurveRow K)) (x : K) :
    column_intercepts solve curves x =
      pairRanges (listSortBy (fun a b => ftotalLe a b) (curves.flatMap (colHits solve x))) := by
  unfold column_intercepts
  simp only [foldlT]
  rw [foldl_skip_append]
  simp only [pairRanges, List.nil_append]
  rfl

theorem listEnumFrom_map {α β : Type} (f : α → β) : ∀ (n : Nat) (l : List α),
    listEnumFrom n (l.map f) = (listEnumFrom n l).map (fun p => T2.mk p.t0 (f p.t1))
  | _, [] => rfl
  | n, a :: l => by simp [listEnumFrom, listEnumFrom_map f (n + 1) l]

theorem flatMap_listEnumFrom {α β : Type} (g : α → List β) : ∀ (n : Nat) (l : List α),
    (listEnumFrom n l).flatMap (fun p => g p.t1) = l.flatMap g
  | _, [] => rfl
  | n, a :: l => by simp [listEnumFrom, flatMap_listEnumFrom g (n + 1) l]

/-- one curve: the column hits are the row hits of the transposed curve with a parameter `t > 0`, projected to their position -/
theorem colHits_eq_rowHits (solve : K → K → K → K → K → List K) (one : Bool) (x : K) (i : Nat) (c : CurveRow K) :
    colHits solve x c =
      ((rowHits solve one x (T2.mk i (T3.mk c.t1 c.t0 (T2.mk (V2.mk c.t2.t0.y c.t2.t0.x) (V2.mk c.t2.t1.y c.t2.t1.x))))).filter
        (fun h => decide (h.t > (0.0 : K)))).map (·.x_pos) := by
  simp only [colHits, rowHits]
  split_ifs with hc
  · rfl
  · simp only [List.filter_map, List.map_map, List.filter_filter]
    congr 1
    apply List.filter_congr
    intro t _
    simp only [Function.comp, lit0, ge_iff_le, gt_iff_lt]
    by_cases ht : 0 < t
    · simp [ht, le_of_lt ht]
    · simp [ht]

/-- COLUMN = ROW OF THE TRANSPOSED PATHS WITHOUT DUPLICATE REMOVAL AND WITHOUT THE `t = 0` HITS -/
theorem colRaw_eq_rowRaw_transpose (solve : K → K → K → K → K → List K) (curves : List (CurveRow K)) (x : K) :
    curves.flatMap (colHits solve x) =
      ((rowRaw solve (transpose curves) x).filter (fun h => decide (h.t > (0.0 : K)))).map (·.x_pos) := by
  simp only [rowRaw, listEnum, transpose, listEnumFrom_map, List.flatMap_map, List.filter_flatMap, List.map_flatMap]
  rw [← flatMap_listEnumFrom (colHits solve x) 0 curves]
  apply List.flatMap_congr
  intro p _
  exact colHits_eq_rowHits solve _ x p.t0 p.t1

/-! ## 6. the hits of a scanline as a set -/

theorem mem_listEnumFrom {α : Type} : ∀ (n : Nat) (l : List α) (p : T2 Nat α),
    p ∈ listEnumFrom n l ↔ n ≤ p.t0 ∧ l[p.t0 - n]? = some p.t1
  | n, [], p => by simp [listEnumFrom]
  | n, a :: l, p => by
    simp only [listEnumFrom, List.mem_cons, mem_listEnumFrom (n + 1) l p]
    constructor
    · rintro (rfl | ⟨h1, h2⟩)
      · simp
      · refine ⟨by omega, ?_⟩
        have : p.t0 - n = (p.t0 - (n + 1)) + 1 := by omega
        rw [this, List.getElem?_cons_succ]; exact h2
    · rintro ⟨h1, h2⟩
      by_cases h : p.t0 = n
      · left
        rw [h, Nat.sub_self, List.getElem?_cons_zero, Option.some.injEq] at h2
        cases p; simp_all
      · right
        refine ⟨by omega, ?_⟩
        have : p.t0 - n = (p.t0 - (n + 1)) + 1 := by omega
        rw [this, List.getElem?_cons_succ] at h2; exact h2

theorem mem_listEnum {α : Type} (l : List α) (p : T2 Nat α) : p ∈ listEnum l ↔ l[p.t0]? = some p.t1 := by
  simp [listEnum, mem_listEnumFrom]

theorem pairwise_listEnumFrom {α : Type} : ∀ (n : Nat) (l : List α), (listEnumFrom n l).Pairwise (fun p q => p.t0 < q.t0)
  | _, [] => List.Pairwise.nil
  | n, a :: l => by
    simp only [listEnumFrom]
    refine List.Pairwise.cons ?_ (pairwise_listEnumFrom (n + 1) l)
    intro q hq
    have := ((mem_listEnumFrom (n + 1) l q).1 hq).1
    simp only; omega

/-- membership in the hits of one curve -/
theorem mem_rowHits (solve : K → K → K → K → K → List K) (one : Bool) (y : K) (it : T2 Nat (CurveRow K)) (h : InterceptT K) :
    h ∈ rowHits solve one y it ↔
      ¬ (y < it.t1.t2.t0.y ∨ y > it.t1.t2.t1.y) ∧
      h.curve_idx = it.t0 ∧ h.t ∈ solve it.t1.t1.t0 it.t1.t1.t1 it.t1.t1.t2 it.t1.t1.t3 y ∧ (0 ≤ h.t ∨ one = true) ∧
      h.x_pos = curve_point_at_pos it.t1.t0.t0 it.t1.t0.t1 it.t1.t0.t2 it.t1.t0.t3 h.t := by
  simp only [rowHits, Bool.or_eq_true, decide_eq_true_eq, lit0, ge_iff_le]
  split_ifs with hc
  · simp [hc]
  · simp only [hc, not_false_eq_true, true_and, List.mem_map, List.mem_filter, Bool.or_eq_true, decide_eq_true_eq]
    constructor
    · rintro ⟨t, ⟨ht, hf⟩, rfl⟩
      exact ⟨rfl, ht, hf, rfl⟩
    · rintro ⟨h1, h2, h3, h4⟩
      refine ⟨h.t, ⟨h2, h3⟩, ?_⟩
      cases h; simp_all

end PathContourLemmas
