/-
Helper lemmas for C14: under the property's precondition the collinear bookkeeping, the vertex filter and the tangent
filter of `ray_collisions` do nothing, so the collisions before the sort are the solver's hits on the edges that pass
the side test, in edge order, with their intersection flags.
-/
import FloVerif.Lemmas.RaySide
import FloVerif.Model.Ray

set_option linter.unusedSectionVars false
set_option linter.unusedVariables false
namespace RayPipeline
open Prelude Gen Model.Ray RaySide

variable {K : Type} [Field K] [LinearOrder K] [IsStrictOrderedRing K] [Inhabited K] [FSqrt K] [FConsts K]

local instance : FAbs K := ⟨fun a => |a|⟩
local instance : FSignum K := ⟨fun a => if a < 0 then -1 else 1⟩
local instance : OfInt K := ⟨fun n => (n : K)⟩

/-- a hit of `curve_intersects_ray` on edge `e`, as `crossing_and_collinear_collisions` stores it -/
def mkHit (e : EdgeRef) (h : T3 K K (V2 K)) : Hit K := T4.mk e h.t0 h.t1 h.t2

/-- what the loop of `crossing_and_collinear_collisions` adds for one edge when no edge is collinear -/
def rawOf (path : RayPathI K) (co : T3 K K K) (cir : EdgeRef → List (T3 K K (V2 K))) (e : EdgeRef) : List (Hit K) :=
  if ray_can_intersect (path.get_edge e) co = RayCanIntersect.CrossesRay then (cir e).map (mkHit e) else []

/-- `Collinear` is reported exactly for the edges `curve_is_collinear` accepts -/
theorem rci_collinear_iff (e : Curve4 K) (co : T3 K K K) :
    ray_can_intersect e co = RayCanIntersect.Collinear ↔ curve_is_collinear e co = true := by
  rw [rci_unfold, cic_unfold]
  constructor
  · intro h
    split_ifs at h with h1 h2
    exact h1
  · intro h
    rw [if_pos h]

theorem ccStep_inert (path : RayPathI K) (co : T3 K K K) (cir : EdgeRef → List (T3 K K (V2 K))) (st : CCState K) (e : EdgeRef)
    (h : curve_is_collinear (path.get_edge e) co = false) :
    ccStep path co cir st e = { st with raw := st.raw ++ rawOf path co cir e } := by
  have hne : ray_can_intersect (path.get_edge e) co ≠ RayCanIntersect.Collinear := by
    intro hc; rw [(rci_collinear_iff _ _).1 hc] at h; exact Bool.noConfusion h
  unfold ccStep rawOf
  cases hr : ray_can_intersect (path.get_edge e) co
  · simp only [hr]; simp
  · exact absurd hr hne
  · simp only [hr]; simp [mkHit]

theorem cc_fold_inert (path : RayPathI K) (co : T3 K K K) (cir : EdgeRef → List (T3 K K (V2 K))) :
    ∀ (l : List EdgeRef) (st : CCState K), (∀ e ∈ l, curve_is_collinear (path.get_edge e) co = false) →
      l.foldl (ccStep path co cir) st = { st with raw := st.raw ++ l.flatMap (rawOf path co cir) }
  | [], st, _ => by simp
  | e :: l, st, h => by
    rw [List.foldl_cons, ccStep_inert path co cir st e (h e (by simp)),
      cc_fold_inert path co cir l _ (fun e' he' => h e' (List.mem_cons_of_mem _ he'))]
    simp [List.flatMap_cons, List.append_assoc]

/-- without collinear edges `crossing_and_collinear_collisions` returns the hits of the edges that pass the side test and
    no collinear collisions -/
theorem cc_inert (path : RayPathI K) (ray : T2 (V2 K) (V2 K)) (cir : EdgeRef → List (T3 K K (V2 K)))
    (h : ∀ e ∈ allEdgeRefs path, curve_is_collinear (path.get_edge e) (line_coefficients_2d ray) = false) :
    crossing_and_collinear_collisions path ray cir =
      T2.mk ((allEdgeRefs path).flatMap (rawOf path (line_coefficients_2d ray) cir)) [] := by
  unfold crossing_and_collinear_collisions
  simp only [cc_fold_inert path _ cir _ _ h]
  simp

/-- every raw collision names an edge of the graph and a hit of the solver on it -/
theorem mem_raw (path : RayPathI K) (co : T3 K K K) (cir : EdgeRef → List (T3 K K (V2 K))) (x : Hit K)
    (hx : x ∈ (allEdgeRefs path).flatMap (rawOf path co cir)) :
    ∃ e ∈ allEdgeRefs path, ray_can_intersect (path.get_edge e) co = RayCanIntersect.CrossesRay ∧ ∃ h ∈ cir e, x = mkHit e h := by
  rw [List.mem_flatMap] at hx
  obtain ⟨e, he, hx⟩ := hx
  unfold rawOf at hx
  split_ifs at hx with hc
  · rw [List.mem_map] at hx
    obtain ⟨h, hh, rfl⟩ := hx
    exact ⟨e, he, hc, h, hh, rfl⟩
  · exact absurd hx (by simp)

/-- `remove_collisions_before_or_after_collinear_section` keeps everything when no edge leaving the end point or arriving at
    the start point of a collision's edge is collinear -/
theorem remove_before_after_inert (path : RayPathI K) (ray : T2 (V2 K) (V2 K)) (l : List (Hit K))
    (hf : ∀ x ∈ l, ∀ e ∈ path.edges_for_point (path.edge_end_point_idx x.t0),
      curve_is_collinear (path.get_edge e) (line_coefficients_2d ray) = false)
    (hr : ∀ x ∈ l, ∀ e ∈ path.reverse_edges_for_point (path.edge_start_point_idx x.t0),
      curve_is_collinear (path.get_edge e) (line_coefficients_2d ray) = false) :
    remove_collisions_before_or_after_collinear_section path ray l = l := by
  unfold remove_collisions_before_or_after_collinear_section
  apply List.filter_eq_self.2
  intro a ha
  have h1 : (List.any (List.map (fun edge => path.get_edge edge) (path.edges_for_point (path.edge_end_point_idx a.t0)))
      fun next => curve_is_collinear next (line_coefficients_2d ray)) = false := by
    rw [List.any_eq_false]
    intro x hx
    rw [List.mem_map] at hx
    obtain ⟨e, he, rfl⟩ := hx
    simp [hf a ha e he]
  have h2 : (List.any (List.map (fun edge => path.get_edge edge) (path.reverse_edges_for_point (path.edge_start_point_idx a.t0)))
      fun previous => curve_is_collinear previous (line_coefficients_2d ray)) = false := by
    rw [List.any_eq_false]
    intro x hx
    rw [List.mem_map] at hx
    obtain ⟨e, he, rfl⟩ := hx
    simp [hr a ha e he]
  simp only [h1, h2, Bool.and_false, Bool.false_eq_true, if_false]
  split_ifs <;> rfl

/-- `move_collinear_collisions_to_end` leaves a collision on a non-collinear edge alone -/
theorem move_collinear_inert (path : RayPathI K) (co : T3 K K K) (x : Hit K)
    (h : curve_is_collinear (path.get_edge x.t0) co = false) : move_collinear_collision_to_end path co x = x := by
  unfold move_collinear_collision_to_end
  simp only [h, Bool.false_eq_true, if_false]

/-- the vertex filter passes a collision that is neither at the start nor at the end of its edge, without touching its state -/
theorem nearVertexStep_inert (path : RayPathI K) (co : T3 K K K) (cir : EdgeRef → List (T3 K K (V2 K))) (visited : List (List Nat))
    (x : Hit K) (hs : collision_is_at_start path x.t0 x.t1 x.t3 = false) (he : collision_is_at_end path x.t0 x.t1 x.t3 = false) :
    nearVertexStep path co cir visited x = (visited, some x) := by
  unfold nearVertexStep
  simp only [hs, he, Bool.and_false, Bool.or_self, Bool.false_eq_true, if_false]

theorem nearVertexLoop_inert (path : RayPathI K) (co : T3 K K K) (cir : EdgeRef → List (T3 K K (V2 K))) :
    ∀ (l : List (Hit K)) (visited : List (List Nat)),
      (∀ x ∈ l, collision_is_at_start path x.t0 x.t1 x.t3 = false ∧ collision_is_at_end path x.t0 x.t1 x.t3 = false) →
      nearVertexLoop path co cir visited l = l
  | [], _, _ => rfl
  | x :: l, visited, h => by
    have hx := h x (by simp)
    unfold nearVertexLoop
    rw [nearVertexStep_inert path co cir visited x hx.1 hx.2]
    simp only
    rw [nearVertexLoop_inert path co cir l visited fun y hy => h y (List.mem_cons_of_mem _ hy)]

/-- the tangent filter is a `filter`: it keeps a list all of whose elements it keeps one by one -/
theorem remove_tangent_inert (path : RayPathI K) (ray : T2 (V2 K) (V2 K)) (l : List (Hit K))
    (h : ∀ x ∈ l, remove_tangent_collisions path ray [x] = [x]) : remove_tangent_collisions path ray l = l := by
  unfold remove_tangent_collisions at h ⊢
  show List.filter _ l = l
  apply List.filter_eq_self.2
  intro x hx
  exact List.filter_eq_self.1 (h x hx) x (List.mem_singleton.2 rfl)

/-- the tangent filter only ever removes collisions -/
theorem remove_tangent_sublist (path : RayPathI K) (ray : T2 (V2 K) (V2 K)) (l : List (Hit K)) :
    (remove_tangent_collisions path ray l).Sublist l := by
  unfold remove_tangent_collisions
  exact List.filter_sublist

/-- the flagging stage keeps edge, parameters and position of every collision, in order -/
theorem flag_spec (path : RayPathI K) (l : List (Hit K)) :
    (flag_collisions_at_intersections path l).map (fun c => (T4.mk c.t0.edge c.t1 c.t2 c.t3 : Hit K)) = l := by
  unfold flag_collisions_at_intersections
  rw [List.map_map]
  conv_rhs => rw [← List.map_id l]
  apply List.map_congr_left
  intro x _
  simp only [Function.comp]
  split_ifs <;> rfl

theorem flag_length (path : RayPathI K) (l : List (Hit K)) : (flag_collisions_at_intersections path l).length = l.length := by
  unfold flag_collisions_at_intersections
  simp

/-- what `flag_collisions_at_intersections` does with one collision (ray.rs:680-694) -/
def flagOne (path : RayPathI K) (x : Hit K) : Collision K :=
  if x.t1 ≤ 0 ∧ path.num_edges x.t0.start_idx > 1 then T4.mk (GraphRayCollision.Intersection x.t0) x.t1 x.t2 x.t3
  else T4.mk (GraphRayCollision.SingleEdge x.t0) x.t1 x.t2 x.t3

theorem flag_eq_map (path : RayPathI K) (l : List (Hit K)) :
    flag_collisions_at_intersections path l = l.map (flagOne path) := by
  have h0 : (0.000 : K) = 0 := by norm_num
  unfold flag_collisions_at_intersections
  apply List.map_congr_left
  intro x _
  simp only [flagOne, h0]
  by_cases h1 : x.t1 ≤ 0
  · by_cases h2 : path.num_edges x.t0.start_idx > 1
    · simp [h1, h2]
    · simp [h1, h2]
  · simp [h1]

theorem flagOne_spec (path : RayPathI K) (x : Hit K) :
    (flagOne path x).t0.edge = x.t0 ∧ (flagOne path x).t1 = x.t1 ∧ (flagOne path x).t2 = x.t2 ∧ (flagOne path x).t3 = x.t3 ∧
      ((flagOne path x).t0 = GraphRayCollision.SingleEdge x.t0 ∨
        ((flagOne path x).t0 = GraphRayCollision.Intersection x.t0 ∧ x.t1 ≤ 0)) := by
  unfold flagOne
  split_ifs with h
  · exact ⟨rfl, rfl, rfl, rfl, Or.inr ⟨rfl, h.1⟩⟩
  · exact ⟨rfl, rfl, rfl, rfl, Or.inl rfl⟩

/-- one step of the vertex filter passes the collision, drops it, or re-labels it as the start (`t = 0`) of the following edge,
    keeping line position and point -/
theorem nearVertexStep_cases (path : RayPathI K) (co : T3 K K K) (cir : EdgeRef → List (T3 K K (V2 K))) (visited : List (List Nat))
    (x : Hit K) :
    (nearVertexStep path co cir visited x).2 = none ∨ (nearVertexStep path co cir visited x).2 = some x ∨
      ∃ y, (nearVertexStep path co cir visited x).2 = some y ∧ y.t1 = 0 ∧ y.t2 = x.t2 ∧ y.t3 = x.t3 := by
  have h0 : (0.0 : K) = 0 := by norm_num
  unfold nearVertexStep
  simp only
  split_ifs
  all_goals first
    | exact Or.inl rfl
    | exact Or.inr (Or.inl rfl)
    | exact Or.inr (Or.inr ⟨_, rfl, h0, rfl, rfl⟩)

/-- the vertex filter never invents a collision: what it returns is, element by element, an input collision or an input collision
    re-labelled to parameter 0 of the following edge with the same line position and point; and it never returns more than it got -/
theorem nearVertexLoop_only_removes (path : RayPathI K) (co : T3 K K K) (cir : EdgeRef → List (T3 K K (V2 K))) :
    ∀ (l : List (Hit K)) (visited : List (List Nat)),
      (nearVertexLoop path co cir visited l).length ≤ l.length ∧
      ∀ y ∈ nearVertexLoop path co cir visited l, ∃ x ∈ l, y.t2 = x.t2 ∧ y.t3 = x.t3 ∧ (y = x ∨ y.t1 = 0)
  | [], _ => by simp [nearVertexLoop]
  | x :: l, visited => by
    have ih := nearVertexLoop_only_removes path co cir l (nearVertexStep path co cir visited x).1
    unfold nearVertexLoop
    rcases nearVertexStep_cases path co cir visited x with h | h | ⟨z, h, hz1, hz2, hz3⟩
    · simp only [h]
      refine ⟨by simp only [List.length_cons]; omega, ?_⟩
      intro y hy
      obtain ⟨x', hx', hh⟩ := ih.2 y hy
      exact ⟨x', List.mem_cons_of_mem _ hx', hh⟩
    · simp only [h]
      refine ⟨by simp only [List.length_cons]; omega, ?_⟩
      intro y hy
      rcases List.mem_cons.1 hy with rfl | hy
      · exact ⟨y, by simp, rfl, rfl, Or.inl rfl⟩
      · obtain ⟨x', hx', hh⟩ := ih.2 y hy
        exact ⟨x', List.mem_cons_of_mem _ hx', hh⟩
    · simp only [h]
      refine ⟨by simp only [List.length_cons]; omega, ?_⟩
      intro y hy
      rcases List.mem_cons.1 hy with rfl | hy
      · exact ⟨x, by simp, hz2, hz3, Or.inr hz1⟩
      · obtain ⟨x', hx', hh⟩ := ih.2 y hy
        exact ⟨x', List.mem_cons_of_mem _ hx', hh⟩

/-- the tangent filter keeps a collision exactly when `| |u·τ| - 1 | ≥ 1e-8` for the unit vector `u` of the ray and the unit
    tangent `τ` of the edge at the collision (ray.rs:647-666) -/
theorem tangent_keep_iff (path : RayPathI K) (ray : T2 (V2 K) (V2 K)) (x : Hit K) :
    remove_tangent_collisions path ray [x] = [x] ↔
      ¬ (-0.00000001 < |dot (to_unit_vector (line_point_at_pos ray 1 - line_point_at_pos ray 0))
            (to_unit_vector (ray_tangent_at_pos (path.get_edge x.t0) x.t1))| - 1 ∧
          |dot (to_unit_vector (line_point_at_pos ray 1 - line_point_at_pos ray 0))
            (to_unit_vector (ray_tangent_at_pos (path.get_edge x.t0) x.t1))| - 1 < (0.00000001 : K)) := by
  have h0 : (0.0 : K) = 0 := by norm_num
  have h1 : (1.0 : K) = 1 := by norm_num
  unfold remove_tangent_collisions
  simp only [List.filter_cons, List.filter_nil, fabs, h0, h1, gt_iff_lt, Bool.and_eq_true, decide_eq_true_eq]
  by_cases hc : -0.00000001 < |dot (to_unit_vector (line_point_at_pos ray 1 - line_point_at_pos ray 0))
            (to_unit_vector (ray_tangent_at_pos (path.get_edge x.t0) x.t1))| - 1 ∧
          |dot (to_unit_vector (line_point_at_pos ray 1 - line_point_at_pos ray 0))
            (to_unit_vector (ray_tangent_at_pos (path.get_edge x.t0) x.t1))| - 1 < (0.00000001 : K)
  · simp [hc]
  · simp [hc]

/-- a collision whose curve parameter is above 0.1 is not "at the start" of its edge, one below 0.9 not "at the end" -/
theorem not_at_start_of_mid (path : RayPathI K) (e : EdgeRef) (t : K) (p : V2 K) (h : 0.1 < t) :
    collision_is_at_start path e t p = false := by
  unfold collision_is_at_start
  simp [h]

theorem not_at_end_of_mid (path : RayPathI K) (e : EdgeRef) (t : K) (p : V2 K) (h : t < 0.9) :
    collision_is_at_end path e t p = false := by
  unfold collision_is_at_end
  simp [h]

theorem rayPathOf_ends (g : GraphPathM K) (e : EdgeRef) (he : e.reverse = false) :
    ((rayPathOf g).get_edge e).t0 = (rayPathOf g).point_position ((rayPathOf g).edge_start_point_idx e) ∧
    ((rayPathOf g).get_edge e).t3 = (rayPathOf g).point_position ((rayPathOf g).edge_end_point_idx e) := by
  simp [rayPathOf, curveOf, ge_start_point, ge_end_point, ge_start_point_index, ge_end_point_index, ge_edge, gp_get_edge,
    gp_point_position, gp_edge_start_point_idx, gp_edge_end_point_idx, he]

theorem allEdgeRefs_reverse_false (path : RayPathI K) (e : EdgeRef) (he : e ∈ allEdgeRefs path) : e.reverse = false := by
  unfold allEdgeRefs at he
  simp only [List.mem_flatMap, List.mem_map, List.mem_range] at he
  obtain ⟨_, _, _, _, rfl⟩ := he
  rfl

/-- The property's precondition, stated on what the code computes.  `ends`: the path interface is coherent (true for `GraphPath`,
    `graph_path_ends`).  `not_collinear*`: no edge of the graph, and no edge around the end points of an edge, passes the
    collinearity test (implied by: every vertex is at least `SMALL_DISTANCE` from the ray, `collinear_needs_near_vertices`).
    `not_at_vertex`: no hit is within `SMALL_DISTANCE` of the start or end vertex of its edge.  `not_tangent`: the tangent filter
    keeps every hit (the ray is nowhere tangent to an edge). -/
structure Precondition (path : RayPathI K) (ray : T2 (V2 K) (V2 K)) (cir : EdgeRef → List (T3 K K (V2 K))) : Prop where
  ends : ∀ e ∈ allEdgeRefs path, (path.get_edge e).t0 = path.point_position (path.edge_start_point_idx e) ∧
    (path.get_edge e).t3 = path.point_position (path.edge_end_point_idx e)
  not_collinear : ∀ e ∈ allEdgeRefs path, curve_is_collinear (path.get_edge e) (line_coefficients_2d ray) = false
  not_collinear_next : ∀ e ∈ allEdgeRefs path, ∀ e' ∈ path.edges_for_point (path.edge_end_point_idx e),
    curve_is_collinear (path.get_edge e') (line_coefficients_2d ray) = false
  not_collinear_prev : ∀ e ∈ allEdgeRefs path, ∀ e' ∈ path.reverse_edges_for_point (path.edge_start_point_idx e),
    curve_is_collinear (path.get_edge e') (line_coefficients_2d ray) = false
  not_at_vertex : ∀ e ∈ allEdgeRefs path, ∀ h ∈ cir e,
    collision_is_at_start path e h.t0 h.t2 = false ∧ collision_is_at_end path e h.t0 h.t2 = false
  not_tangent : ∀ e ∈ allEdgeRefs path, ∀ h ∈ cir e, remove_tangent_collisions path ray [mkHit e h] = [mkHit e h]

/-- under the precondition the pipeline before the sort is the flagged list of raw hits -/
theorem unsorted_inert (path : RayPathI K) (ray : T2 (V2 K) (V2 K)) (cir : EdgeRef → List (T3 K K (V2 K)))
    (pre : Precondition path ray cir) :
    ray_collisions_unsorted path ray cir =
      flag_collisions_at_intersections path ((allEdgeRefs path).flatMap (rawOf path (line_coefficients_2d ray) cir)) := by
  have hmem := mem_raw path (line_coefficients_2d ray) cir
  unfold ray_collisions_unsorted
  simp only [cc_inert path ray cir pre.not_collinear, List.nil_append]
  rw [remove_before_after_inert path ray _
    (fun x hx e' he' => by obtain ⟨e, he, _, h, _, rfl⟩ := hmem x hx; exact pre.not_collinear_next e he e' he')
    (fun x hx e' he' => by obtain ⟨e, he, _, h, _, rfl⟩ := hmem x hx; exact pre.not_collinear_prev e he e' he')]
  have hmap : List.map (move_collinear_collision_to_end path (line_coefficients_2d ray))
      ((allEdgeRefs path).flatMap (rawOf path (line_coefficients_2d ray) cir)) =
      (allEdgeRefs path).flatMap (rawOf path (line_coefficients_2d ray) cir) := by
    conv_rhs => rw [← List.map_id ((allEdgeRefs path).flatMap (rawOf path (line_coefficients_2d ray) cir))]
    apply List.map_congr_left
    intro x hx
    obtain ⟨e, he, _, h, _, rfl⟩ := hmem x hx
    exact move_collinear_inert path _ _ (pre.not_collinear e he)
  rw [hmap]
  unfold filter_collisions_near_vertices
  rw [nearVertexLoop_inert path _ cir _ _ (fun x hx => by
    obtain ⟨e, he, _, h, hh, rfl⟩ := hmem x hx; exact pre.not_at_vertex e he h hh)]
  rw [remove_tangent_inert path ray _ (fun x hx => by
    obtain ⟨e, he, _, h, hh, rfl⟩ := hmem x hx; exact pre.not_tangent e he h hh)]

end RayPipeline
