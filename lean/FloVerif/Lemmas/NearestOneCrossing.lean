/-
Helper lemmas for C09: a six-point control polygon with exactly one crossing (in the sense of the code's
`count_x_axis_crossings`) has at most one zero of its Bernstein polynomial in the open interval (0,1).
-/
import FloVerif.Lemmas.Nearest
import FloVerif.Lemmas.NearestDescartes
import Mathlib.Tactic.IntervalCases

set_option linter.unusedSectionVars false
set_option linter.unusedVariables false
namespace C09L
open Prelude Gen Model.Nearest Finset

variable {K : Type} [Field K] [LinearOrder K] [IsStrictOrderedRing K] [Inhabited K]

/-- coefficient list as a function of the index -/
def cf6 (c0 c1 c2 c3 c4 c5 : K) (i : ℕ) : K := [c0, c1, c2, c3, c4, c5].getD i 0

theorem bern5_eq_sum (c0 c1 c2 c3 c4 c5 t : K) :
    bern5 c0 c1 c2 c3 c4 c5 t = ∑ i ∈ range (5 + 1), cf6 c0 c1 c2 c3 c4 c5 i * bernB 5 i t := by
  simp [Finset.sum_range_succ, bernB, cf6, bern5, Nat.choose]
  ring

/-- crossing test on the signs only -/
def cb (a b : Bool) : Nat := if a != b then 1 else 0

theorem cross_eq_cb (a b : K) : cross a b = cb (decide (a < 0)) (decide (b < 0)) := by
  unfold cross cb
  by_cases ha : a < 0 <;> by_cases hb : b < 0 <;> simp [ha, hb, not_lt.1]

theorem bool_pattern : ∀ s0 s1 s2 s3 s4 s5 : Bool, cb s0 s1 + cb s1 s2 + cb s2 s3 + cb s3 s4 + cb s4 s5 = 1 →
    (s1 = !s0 ∧ s2 = !s0 ∧ s3 = !s0 ∧ s4 = !s0 ∧ s5 = !s0) ∨
    (s1 = s0 ∧ s2 = !s0 ∧ s3 = !s0 ∧ s4 = !s0 ∧ s5 = !s0) ∨
    (s1 = s0 ∧ s2 = s0 ∧ s3 = !s0 ∧ s4 = !s0 ∧ s5 = !s0) ∨
    (s1 = s0 ∧ s2 = s0 ∧ s3 = s0 ∧ s4 = !s0 ∧ s5 = !s0) ∨
    (s1 = s0 ∧ s2 = s0 ∧ s3 = s0 ∧ s4 = s0 ∧ s5 = !s0) := by
  intro s0 s1 s2 s3 s4 s5
  cases s0 <;> cases s1 <;> cases s2 <;> cases s3 <;> cases s4 <;> cases s5 <;> decide

/-- split pattern at `k`: negative below, non-negative from `k` on: at most one zero in (0,1) -/
theorem one_zero_neg_nonneg (c0 c1 c2 c3 c4 c5 : K) (k : ℕ) (hk1 : 1 ≤ k) (hk5 : k ≤ 5)
    (h : ∀ i, i < 6 → if i < k then cf6 c0 c1 c2 c3 c4 c5 i < 0 else 0 ≤ cf6 c0 c1 c2 c3 c4 c5 i)
    {t1 t2 : K} (h0 : 0 < t1) (h12 : t1 < t2) (h1 : t2 < 1)
    (hz1 : bern5 c0 c1 c2 c3 c4 c5 t1 = 0) (hz2 : bern5 c0 c1 c2 c3 c4 c5 t2 = 0) : False := by
  rw [bern5_eq_sum] at hz1 hz2
  have hall := bern_one_change (n := 5) (k := k) hk5 (cf6 c0 c1 c2 c3 c4 c5)
    (fun i hi => by have := h i (by omega); rw [if_pos hi] at this; exact this.le)
    (fun i hki hi => by have := h i (by omega); rw [if_neg (by omega)] at this; exact this)
    h0 h12 h1 hz1 hz2
  have h00 := h 0 (by omega)
  rw [if_pos (by omega)] at h00
  rw [hall 0 (by omega)] at h00
  exact lt_irrefl _ h00

/-- split pattern at `k`: non-negative below, negative from `k` on: at most one zero in (0,1) -/
theorem one_zero_nonneg_neg (c0 c1 c2 c3 c4 c5 : K) (k : ℕ) (hk1 : 1 ≤ k) (hk5 : k ≤ 5)
    (h : ∀ i, i < 6 → if i < k then 0 ≤ cf6 c0 c1 c2 c3 c4 c5 i else cf6 c0 c1 c2 c3 c4 c5 i < 0)
    {t1 t2 : K} (h0 : 0 < t1) (h12 : t1 < t2) (h1 : t2 < 1)
    (hz1 : bern5 c0 c1 c2 c3 c4 c5 t1 = 0) (hz2 : bern5 c0 c1 c2 c3 c4 c5 t2 = 0) : False := by
  rw [bern5_eq_sum] at hz1 hz2
  have neg_sum : ∀ t : K, ∑ i ∈ range (5 + 1), (fun i => - cf6 c0 c1 c2 c3 c4 c5 i) i * bernB 5 i t =
      - ∑ i ∈ range (5 + 1), cf6 c0 c1 c2 c3 c4 c5 i * bernB 5 i t := by
    intro t; rw [← sum_neg_distrib]; apply sum_congr rfl; intro i _; ring
  have hall := bern_one_change (n := 5) (k := k) hk5 (fun i => - cf6 c0 c1 c2 c3 c4 c5 i)
    (fun i hi => by have := h i (by omega); rw [if_pos hi] at this; show - cf6 c0 c1 c2 c3 c4 c5 i ≤ 0; linarith)
    (fun i hki hi => by have := h i (by omega); rw [if_neg (by omega)] at this; show 0 ≤ - cf6 c0 c1 c2 c3 c4 c5 i; linarith)
    h0 h12 h1 (by rw [neg_sum, hz1, neg_zero]) (by rw [neg_sum, hz2, neg_zero])
  have h55 := h 5 (by omega)
  rw [if_neg (by omega)] at h55
  have h5' : - cf6 c0 c1 c2 c3 c4 c5 5 = 0 := hall 5 (by omega)
  linarith

/-- ONE CROSSING, AT MOST ONE ZERO (variation diminishing, the case the code relies on): six coefficients whose
    polygon has exactly one crossing in the sense of `count_x_axis_crossings` -/
theorem one_crossing_zero_unique (c0 c1 c2 c3 c4 c5 : K)
    (hc : cross c0 c1 + cross c1 c2 + cross c2 c3 + cross c3 c4 + cross c4 c5 = 1)
    {t1 t2 : K} (h0 : 0 < t1) (h12 : t1 < t2) (h1 : t2 < 1)
    (hz1 : bern5 c0 c1 c2 c3 c4 c5 t1 = 0) (hz2 : bern5 c0 c1 c2 c3 c4 c5 t2 = 0) : False := by
  simp only [cross_eq_cb] at hc
  have hpat := bool_pattern _ _ _ _ _ _ hc
  by_cases hs : c0 < 0
  · -- starts negative
    simp only [hs, decide_true, Bool.not_true, decide_eq_true_eq, decide_eq_false_iff_not, not_lt] at hpat
    rcases hpat with ⟨a1, a2, a3, a4, a5⟩ | ⟨a1, a2, a3, a4, a5⟩ | ⟨a1, a2, a3, a4, a5⟩ | ⟨a1, a2, a3, a4, a5⟩ | ⟨a1, a2, a3, a4, a5⟩
    · exact one_zero_neg_nonneg c0 c1 c2 c3 c4 c5 1 (by omega) (by omega)
        (fun i hi => by interval_cases i <;> simp [cf6] <;> assumption) h0 h12 h1 hz1 hz2
    · exact one_zero_neg_nonneg c0 c1 c2 c3 c4 c5 2 (by omega) (by omega)
        (fun i hi => by interval_cases i <;> simp [cf6] <;> assumption) h0 h12 h1 hz1 hz2
    · exact one_zero_neg_nonneg c0 c1 c2 c3 c4 c5 3 (by omega) (by omega)
        (fun i hi => by interval_cases i <;> simp [cf6] <;> assumption) h0 h12 h1 hz1 hz2
    · exact one_zero_neg_nonneg c0 c1 c2 c3 c4 c5 4 (by omega) (by omega)
        (fun i hi => by interval_cases i <;> simp [cf6] <;> assumption) h0 h12 h1 hz1 hz2
    · exact one_zero_neg_nonneg c0 c1 c2 c3 c4 c5 5 (by omega) (by omega)
        (fun i hi => by interval_cases i <;> simp [cf6] <;> assumption) h0 h12 h1 hz1 hz2
  · simp only [hs, decide_false, Bool.not_false, decide_eq_true_eq, decide_eq_false_iff_not, not_lt] at hpat
    have hs' : 0 ≤ c0 := not_lt.1 hs
    rcases hpat with ⟨a1, a2, a3, a4, a5⟩ | ⟨a1, a2, a3, a4, a5⟩ | ⟨a1, a2, a3, a4, a5⟩ | ⟨a1, a2, a3, a4, a5⟩ | ⟨a1, a2, a3, a4, a5⟩
    · exact one_zero_nonneg_neg c0 c1 c2 c3 c4 c5 1 (by omega) (by omega)
        (fun i hi => by interval_cases i <;> simp [cf6] <;> assumption) h0 h12 h1 hz1 hz2
    · exact one_zero_nonneg_neg c0 c1 c2 c3 c4 c5 2 (by omega) (by omega)
        (fun i hi => by interval_cases i <;> simp [cf6] <;> assumption) h0 h12 h1 hz1 hz2
    · exact one_zero_nonneg_neg c0 c1 c2 c3 c4 c5 3 (by omega) (by omega)
        (fun i hi => by interval_cases i <;> simp [cf6] <;> assumption) h0 h12 h1 hz1 hz2
    · exact one_zero_nonneg_neg c0 c1 c2 c3 c4 c5 4 (by omega) (by omega)
        (fun i hi => by interval_cases i <;> simp [cf6] <;> assumption) h0 h12 h1 hz1 hz2
    · exact one_zero_nonneg_neg c0 c1 c2 c3 c4 c5 5 (by omega) (by omega)
        (fun i hi => by interval_cases i <;> simp [cf6] <;> assumption) h0 h12 h1 hz1 hz2

end C09L
