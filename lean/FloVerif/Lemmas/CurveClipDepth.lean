/-
Helper lemmas for C02, part 4: the recursion of `curve_intersects_curve_clip_inner` is bounded.

Every recursive call is made on a half of a section that is not `is_tiny` (parameter length at least 0.001), clipping never
lengthens a section, and a call on an `is_tiny` section returns at once.  So a call on sections of parameter lengths below
`0.001·2^j1` and `0.001·2^j2` recurses to depth at most `j1 + j2`, and the depth parameter of the model is irrelevant from
`j1 + j2 + 1` on (`clipInner_depth`): for the two whole curves from depth 21 on.
-/
import FloVerif.Lemmas.CurveClipRun

set_option linter.unusedSectionVars false
set_option linter.unusedVariables false
namespace CurveClipLemmas
open Prelude Gen FatLineLemmas ClipExact Model.CurveClip

variable {K : Type} [Field K] [LinearOrder K] [IsStrictOrderedRing K] [Inhabited K] [FSqrt K] [FConsts K]

local instance : FAbs K := ⟨fun a => |a|⟩

/-- a section of non-negative parameter length is `is_tiny` iff that length is below 0.001 -/
theorem tiny_iff (S : SectionT K) (hm : 0 ≤ S.t_m) : section_is_tiny S = true ↔ S.t_m < 1/1000 := by
  have e : (0.001 : K) = 1/1000 := by norm_num
  simp only [section_is_tiny, section_t_for_t, SMALL_DISTANCE, decide_eq_true_eq, lit1, e]
  have : (1 : K) * S.t_m + S.t_c - S.t_c = S.t_m := by ring
  show |(1 : K) * S.t_m + S.t_c - S.t_c| < 1/1000 ↔ _
  rw [this, abs_of_nonneg hm]

/-- hull lengths are not negative -/
theorem hull_length_nonneg (w1 w2 w3 w4 : V2 K) (S : SectionT K) : 0 ≤ curve_hull_length_sq w1 w2 w3 w4 S := by
  cases h : section_is_tiny S with
  | true => rw [hull_length_of_tiny _ _ _ _ S h]
  | false =>
    rw [hull_length_of_not_tiny _ _ _ _ S h]
    simp only [dist2]
    positivity

/-- a section with non-zero hull length has parameter length at least 0.001 -/
theorem long_of_length_ne_zero (w1 w2 w3 w4 : V2 K) (S : SectionT K) (hm : 0 ≤ S.t_m)
    (h : curve_hull_length_sq w1 w2 w3 w4 S ≠ 0) : 1/1000 ≤ S.t_m := by
  by_contra hlt
  exact h (hull_length_of_tiny _ _ _ _ S ((tiny_iff S hm).2 (not_le.1 hlt)))

theorem subsection_width (S : SectionT K) (a b : K) : (section_subsection S a b).t_m = (b - a) * S.t_m := by
  simp only [section_subsection, section_new, section_t_for_t]; ring

theorem half_width (S : SectionT K) :
    (section_subsection S (0.0 : K) (0.5 : K)).t_m = S.t_m / 2 ∧ (section_subsection S (0.5 : K) (1.0 : K)).t_m = S.t_m / 2 := by
  rw [subsection_width, subsection_width, lit0, lit1, lit05]
  constructor <;> ring

variable (cx : Ctx K) (acc acc2 : K)
variable (rec_ rec' : SectionT K → SectionT K → K → K → Hits K)

/-- the two functions agree on the children of a split of `(c1, c2)` -/
def AgreeOn (c1 c2 : SectionT K) (l1 l2 last1 last2 : K) : Prop :=
  (l1 / last1 > l2 / last2 →
    rec_ (section_subsection c1 (0.0 : K) (0.5 : K)) c2 acc acc2 = rec' (section_subsection c1 (0.0 : K) (0.5 : K)) c2 acc acc2 ∧
    rec_ (section_subsection c1 (0.5 : K) (1.0 : K)) c2 acc acc2 = rec' (section_subsection c1 (0.5 : K) (1.0 : K)) c2 acc acc2) ∧
  (¬ l1 / last1 > l2 / last2 →
    rec_ c1 (section_subsection c2 (0.0 : K) (0.5 : K)) acc acc2 = rec' c1 (section_subsection c2 (0.0 : K) (0.5 : K)) acc acc2 ∧
    rec_ c1 (section_subsection c2 (0.5 : K) (1.0 : K)) acc acc2 = rec' c1 (section_subsection c2 (0.5 : K) (1.0 : K)) acc acc2)

theorem tail_congr (c1 c2 : SectionT K) (l1 l2 last1 last2 : K)
    (h : convB acc2 l1 l2 = false → stuckB l1 l2 last1 last2 = true → AgreeOn acc acc2 rec_ rec' c1 c2 l1 l2 last1 last2) :
    tail rec_ cx acc acc2 c1 c2 l1 l2 last1 last2 = tail rec' cx acc acc2 c1 c2 l1 l2 last1 last2 := by
  unfold tail
  cases hconv : convB acc2 l1 l2 with
  | true => rfl
  | false =>
    cases hst : stuckB l1 l2 last1 last2 with
    | false => rfl
    | true =>
      obtain ⟨a, b⟩ := h hconv hst
      simp only [Bool.false_eq_true, if_false, if_true]
      by_cases hc : l1 / last1 > l2 / last2
      · obtain ⟨e1, e2⟩ := a hc
        simp only [hc, decide_true, if_true, split1, e1, e2]
      · obtain ⟨e1, e2⟩ := b hc
        simp only [hc, decide_false, Bool.false_eq_true, if_false, split2, e1, e2]

theorem phase1_congr (st : St K) (c2' : SectionT K) (l2 : K)
    (h : ∀ c1' l1, Phase1 cx acc2 st c2' c1' l1 → convB acc2 l1 l2 = false → stuckB l1 l2 st.t2 st.t3 = true →
      AgreeOn acc acc2 rec_ rec' c1' c2' l1 l2 st.t2 st.t3) :
    phase1 rec_ cx acc acc2 st.t1 c2' l2 st.t2 st.t3 = phase1 rec' cx acc acc2 st.t1 c2' l2 st.t2 st.t3 := by
  unfold phase1
  by_cases hc : st.t2 > acc2
  · rw [if_pos (by simpa using hc), if_pos (by simpa using hc)]
    cases hr : clipAB cx st.t1 c2' with
    | None => rfl
    | SecondCurveIsLinear => rfl
    | Some r =>
      simp only
      exact tail_congr cx acc acc2 rec_ rec' _ _ _ _ _ _ (h _ _ (Or.inr ⟨hc, r, hr, rfl, rfl⟩))
  · rw [if_neg (by simpa using hc), if_neg (by simpa using hc)]
    exact tail_congr cx acc acc2 rec_ rec' _ _ _ _ _ _ (h _ _ (Or.inl ⟨hc, rfl, rfl⟩))

theorem step_congr (st : St K)
    (h : ∀ c2' l2 c1' l1, Phase2 cx acc2 st c2' l2 → Phase1 cx acc2 st c2' c1' l1 → convB acc2 l1 l2 = false →
      stuckB l1 l2 st.t2 st.t3 = true → AgreeOn acc acc2 rec_ rec' c1' c2' l1 l2 st.t2 st.t3) :
    step rec_ cx acc acc2 st = step rec' cx acc acc2 st := by
  unfold step
  by_cases hc : st.t3 > acc2
  · rw [if_pos (by simpa using hc), if_pos (by simpa using hc)]
    cases hr : clipBA cx st.t0 st.t1 with
    | None => rfl
    | SecondCurveIsLinear => rfl
    | Some r =>
      simp only
      exact phase1_congr cx acc acc2 rec_ rec' st _ _ (fun c1' l1 => h _ _ c1' l1 (Or.inr ⟨hc, r, hr, rfl, rfl⟩))
  · rw [if_neg (by simpa using hc), if_neg (by simpa using hc)]
    exact phase1_congr cx acc acc2 rec_ rec' st _ _ (fun c1' l1 => h _ _ c1' l1 (Or.inl ⟨hc, rfl, rfl⟩))

/-- the two functions agree on every pair of sections of [0,1] that can be a child of a split below the bounds `B1`, `B2` on
    the parameter lengths: one length is halved, and it was at least 0.001 before -/
def Agree (B1 B2 : K) : Prop :=
  ∀ k1 k2, Sub01 k1 → Sub01 k2 →
    ((k1.t_m ≤ B1 / 2 ∧ 1/1000 ≤ B1 ∧ k2.t_m ≤ B2) ∨ (k1.t_m ≤ B1 ∧ k2.t_m ≤ B2 / 2 ∧ 1/1000 ≤ B2)) →
    rec_ k1 k2 acc acc2 = rec' k1 k2 acc acc2

theorem phase2_width (hM : 1 ≤ (fmaxval : K)) (hm : (fminval : K) ≤ 0) (st : St K) (hi : SubInv cx st) (c2' : SectionT K) (l2 : K)
    (h : Phase2 cx acc2 st c2' l2) : c2'.t_m ≤ st.t0.t_m := by
  rcases h with ⟨_, rfl, rfl⟩ | ⟨_, r, hr, rfl, rfl⟩
  · exact le_rfl
  · obtain ⟨a, b, c⟩ := clip_range hM hm _ _ _ _ _ _ _ _ r hr
    rw [subsection_width]
    have := hi.2.1.2.1
    nlinarith

theorem phase1_width (hM : 1 ≤ (fmaxval : K)) (hm : (fminval : K) ≤ 0) (st : St K) (hi : SubInv cx st) (c2' c1' : SectionT K) (l1 : K)
    (h : Phase1 cx acc2 st c2' c1' l1) : c1'.t_m ≤ st.t1.t_m := by
  rcases h with ⟨_, rfl, rfl⟩ | ⟨_, r, hr, rfl, rfl⟩
  · exact le_rfl
  · obtain ⟨a, b, c⟩ := clip_range hM hm _ _ _ _ _ _ _ _ r hr
    rw [subsection_width]
    have := hi.1.2.1
    nlinarith

/-- the loop does not depend on what the recursive-call function does outside the children below the bounds -/
theorem loop_congr (hM : 1 ≤ (fmaxval : K)) (hm : (fminval : K) ≤ 0) (hacc : 0 ≤ acc2) (B1 B2 : K)
    (hag : Agree acc acc2 rec_ rec' B1 B2) :
    ∀ (n : Nat) (st : St K), SubInv cx st → st.t1.t_m ≤ B1 → st.t0.t_m ≤ B2 →
      loopRun rec_ cx acc acc2 n st = loopRun rec' cx acc acc2 n st := by
  intro n
  induction n with
  | zero => intro st _ _ _; rw [loopRun_zero, loopRun_zero]
  | succ n ih =>
    intro st hi w1 w2
    rw [loopRun_succ, loopRun_succ]
    have hstep : step rec_ cx acc acc2 st = step rec' cx acc acc2 st := by
      refine step_congr cx acc acc2 rec_ rec' st ?_
      intro c2' l2 c1' l1 h2 h1 hconv hst
      obtain ⟨sb2, e2⟩ := phase2_sub cx acc2 hM hm st hi c2' l2 h2
      obtain ⟨sb1, e1⟩ := phase1_sub cx acc2 hM hm st hi c2' c1' l1 h1
      have ww2 := le_trans (phase2_width cx acc2 hM hm st hi c2' l2 h2) w2
      have ww1 := le_trans (phase1_width cx acc2 hM hm st hi c2' c1' l1 h1) w1
      have n1 : 0 ≤ l1 := by rw [e1]; exact hull_length_nonneg _ _ _ _ _
      have n2 : 0 ≤ l2 := by rw [e2]; exact hull_length_nonneg _ _ _ _ _
      have nl1 : 0 ≤ st.t2 := by rw [hi.2.2.1]; exact hull_length_nonneg _ _ _ _ _
      have nl2 : 0 ≤ st.t3 := by rw [hi.2.2.2]; exact hull_length_nonneg _ _ _ _ _
      obtain ⟨hl, hr⟩ := sub01_halves c1' sb1
      obtain ⟨hl2, hr2⟩ := sub01_halves c2' sb2
      obtain ⟨wl, wr⟩ := half_width c1'
      obtain ⟨wl2, wr2⟩ := half_width c2'
      constructor
      · intro hgt
        -- the first curve's section is split: it is not tiny
        have hpos : l1 ≠ 0 := by
          intro e
          rw [e, zero_div] at hgt
          exact absurd (div_nonneg n2 nl2) (not_le.2 hgt)
        have hlong : 1/1000 ≤ c1'.t_m := by
          rw [e1] at hpos; exact long_of_length_ne_zero _ _ _ _ c1' sb1.2.1 hpos
        have hB : 1/1000 ≤ B1 := le_trans hlong ww1
        exact ⟨hag _ _ hl sb2 (Or.inl ⟨by rw [wl]; linarith, hB, ww2⟩),
               hag _ _ hr sb2 (Or.inl ⟨by rw [wr]; linarith, hB, ww2⟩)⟩
      · intro hngt
        -- the second curve's section is split: it is not tiny
        have hpos : l2 ≠ 0 := by
          intro e
          -- then `l2 = 0 ≤ accuracy²`, so (not converged) `l1 > accuracy² ≥ 0`, so curve1 was clipped or `last1 = l1 > 0`
          have hc1 : ¬ l1 ≤ acc2 := by
            intro hle
            have : convB acc2 l1 l2 = true := (convB_iff acc2 l1 l2).2 ⟨hle, by rw [e]; exact hacc⟩
            rw [this] at hconv; exact absurd hconv (by simp)
          have hl1 : 0 < l1 := lt_of_le_of_lt hacc (not_le.1 hc1)
          have hlast : 0 < st.t2 := by
            rcases h1 with ⟨hnc, _, el⟩ | ⟨hc, _⟩
            · rw [← el]; exact hl1
            · exact lt_of_le_of_lt hacc hc
          apply hngt
          rw [e, zero_div]
          exact div_pos hl1 hlast
        have hlong : 1/1000 ≤ c2'.t_m := by
          rw [e2] at hpos; exact long_of_length_ne_zero _ _ _ _ c2' sb2.2.1 hpos
        have hB : 1/1000 ≤ B2 := le_trans hlong ww2
        exact ⟨hag _ _ sb1 hl2 (Or.inr ⟨ww1, by rw [wl2]; linarith, hB⟩),
               hag _ _ sb1 hr2 (Or.inr ⟨ww1, by rw [wr2]; linarith, hB⟩)⟩
    rw [← hstep]
    -- the next state keeps the invariant and the bounds
    have hso := step_out rec_ cx acc acc2 st
    generalize hs : step rec_ cx acc acc2 st = e at hso
    cases hso with
    | none2 _ _ => rfl
    | lin12 _ _ => rfl
    | none1 _ _ _ _ _ => rfl
    | lin21 _ _ _ _ _ => rfl
    | tail c2' c1' l2 l1 h2 h1 =>
      obtain ⟨sb2, e2⟩ := phase2_sub cx acc2 hM hm st hi c2' l2 h2
      obtain ⟨sb1, e1⟩ := phase1_sub cx acc2 hM hm st hi c2' c1' l1 h1
      have ww2 := le_trans (phase2_width cx acc2 hM hm st hi c2' l2 h2) w2
      have ww1 := le_trans (phase1_width cx acc2 hM hm st hi c2' c1' l1 h1) w1
      have hto := tail_out rec_ cx acc acc2 c1' c2' l1 l2 st.t2 st.t3
      generalize htail : tail rec_ cx acc acc2 c1' c2' l1 l2 st.t2 st.t3 = e' at hto
      cases hto with
      | hit _ _ => rfl
      | reject _ _ => rfl
      | split1 _ _ _ => rfl
      | split2 _ _ _ => rfl
      | next _ _ => exact ih _ ⟨sb1, sb2, e1, e2⟩ ww1 ww2

/-- BOUNDED RECURSION: on sections of [0,1] with parameter lengths below `0.001·2^j1` and `0.001·2^j2` the model with any
    depth `d ≥ j1 + j2 + 1` returns what the model with depth `j1 + j2 + 1` returns -/
theorem clipInner_depth (hM : 1 ≤ (fmaxval : K)) (hm : (fminval : K) ≤ 0) (hacc : 0 ≤ acc2) :
    ∀ (m j1 j2 : Nat), j1 + j2 = m → ∀ d, m + 1 ≤ d → ∀ c1 c2, Sub01 c1 → Sub01 c2 →
      c1.t_m < 1/1000 * 2 ^ j1 → c2.t_m < 1/1000 * 2 ^ j2 →
      clipInner cx d c1 c2 acc acc2 = clipInner cx (m + 1) c1 c2 acc acc2 := by
  intro m
  induction m with
  | zero =>
    intro j1 j2 hj d hd c1 c2 h1 h2 w1 w2
    have e1 : j1 = 0 := by omega
    have e2 : j2 = 0 := by omega
    subst e1 e2
    obtain ⟨d', rfl⟩ : ∃ d', d = d' + 1 := ⟨d - 1, by omega⟩
    simp only [clipInner]
    rw [inner_eq, inner_eq]
    unfold innerSpec
    have t1 : len1 cx c1 = 0 := hull_length_of_tiny _ _ _ _ c1 ((tiny_iff c1 h1.2.1).2 (by simpa using w1))
    rw [if_pos (by rw [lit0]; simpa using t1), if_pos (by rw [lit0]; simpa using t1)]
  | succ m ih =>
    intro j1 j2 hj d hd c1 c2 h1 h2 w1 w2
    obtain ⟨d', rfl⟩ : ∃ d', d = d' + 1 := ⟨d - 1, by omega⟩
    have hd' : m + 1 ≤ d' := by omega
    simp only [clipInner]
    rw [inner_eq, inner_eq]
    unfold innerSpec
    have hag : Agree acc acc2 (clipInner cx d') (clipInner cx (m + 1)) c1.t_m c2.t_m := by
      intro k1 k2 s1 s2 hk
      rcases hk with ⟨a, b, c⟩ | ⟨a, b, c⟩
      · -- `j1 ≥ 1`, and the child has rank `(j1 - 1, j2)`
        have hj1 : 1 ≤ j1 := by
          by_contra h0
          have : j1 = 0 := by omega
          subst this
          simp only [pow_zero, mul_one] at w1
          linarith
        obtain ⟨i1, rfl⟩ : ∃ i1, j1 = i1 + 1 := ⟨j1 - 1, by omega⟩
        have hk1 : k1.t_m < 1/1000 * 2 ^ i1 := by
          rw [pow_succ] at w1
          linarith
        have hk2 : k2.t_m < 1/1000 * 2 ^ j2 := lt_of_le_of_lt c w2
        rw [ih i1 j2 (by omega) d' hd' k1 k2 s1 s2 hk1 hk2]
      · have hj2 : 1 ≤ j2 := by
          by_contra h0
          have : j2 = 0 := by omega
          subst this
          simp only [pow_zero, mul_one] at w2
          linarith
        obtain ⟨i2, rfl⟩ : ∃ i2, j2 = i2 + 1 := ⟨j2 - 1, by omega⟩
        have hk2 : k2.t_m < 1/1000 * 2 ^ i2 := by
          rw [pow_succ] at w2
          linarith
        have hk1 : k1.t_m < 1/1000 * 2 ^ j1 := lt_of_le_of_lt a w1
        rw [ih j1 i2 (by omega) d' hd' k1 k2 s1 s2 hk1 hk2]
    rw [loop_congr cx acc acc2 (clipInner cx d') (clipInner cx (m + 1)) hM hm hacc c1.t_m c2.t_m hag genFuel
      (T4.mk c2 c1 (len1 cx c1) (len2 cx c2)) ⟨h1, h2, rfl, rfl⟩ le_rfl le_rfl]
    rfl

end CurveClipLemmas
