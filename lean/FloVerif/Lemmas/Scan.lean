/-
Helper lemmas for C17Scan: the scan-line iterator of `Model/Contour.lean` yields exactly the mixed 2×2 cells.

Layout
  1. `Good w a l`: runs non-empty, strictly separated, starts ≥ a, ends ≤ w; point membership `inL` / `inR`
  2. row level: `roundedRuns row = rowRuns row`, it is `Good`, and membership is the sample
  3. scanline specification `cellAt`, `lineFrom`, `restCells`
  4. one step of `next` (`step`), the invariant `Inv`, the remaining-cells function `S`, the potential `Φ`
  5. `next` / `cellsGo` against `S`
  6. `restCells` against `mixedCells`
-/
import FloVerif.Model.Contour
import Mathlib.Tactic.Ring
import Mathlib.Tactic.Linarith
import Mathlib.Tactic.SplitIfs

namespace ScanLemmas
open Prelude Gen Model.Contour

/-! ## 1. good run lists and point membership -/

/-- runs are non-empty, start at or after `a`, end at or before `w`, and each starts strictly after the
    end of the one before -/
def Good (w : Nat) : Nat → List Run → Prop
  | _, [] => True
  | a, r :: rest => a ≤ r.1 ∧ r.1 < r.2 ∧ r.2 ≤ w ∧ Good w (r.2 + 1) rest

/-- the sample right of position `x` (sample index `x`) is inside some run -/
def inR (l : List Run) (x : Nat) : Bool := l.any fun r => decide (r.1 ≤ x) && decide (x < r.2)

/-- the sample left of position `x` (sample index `x - 1`) is inside some run -/
def inL (l : List Run) (x : Nat) : Bool := l.any fun r => decide (r.1 < x) && decide (x ≤ r.2)

@[simp] theorem inR_nil (x : Nat) : inR [] x = false := rfl
@[simp] theorem inL_nil (x : Nat) : inL [] x = false := rfl

theorem inR_cons (r : Run) (l : List Run) (x : Nat) :
    inR (r :: l) x = ((decide (r.1 ≤ x) && decide (x < r.2)) || inR l x) := by
  simp [inR]

theorem inL_cons (r : Run) (l : List Run) (x : Nat) :
    inL (r :: l) x = ((decide (r.1 < x) && decide (x ≤ r.2)) || inL l x) := by
  simp [inL]

theorem inL_eq_inR (l : List Run) (x : Nat) : inL l x = (decide (1 ≤ x) && inR l (x - 1)) := by
  induction l with
  | nil => simp
  | cons r l ih =>
    rw [inL_cons, inR_cons, ih]
    by_cases h : 1 ≤ x
    · have e1 : decide (r.1 < x) = decide (r.1 ≤ x - 1) := by apply decide_eq_decide.2; omega
      have e2 : decide (x ≤ r.2) = decide (x - 1 < r.2) := by apply decide_eq_decide.2; omega
      rw [e1, e2]; simp [h]
    · have e1 : decide (r.1 < x) = false := by apply decide_eq_false; omega
      simp [h, e1]

theorem Good.mono {w : Nat} : ∀ {l : List Run} {a b : Nat}, Good w a l → b ≤ a → Good w b l
  | [], _, _, _, _ => trivial
  | _ :: _, _, _, h, hb => ⟨Nat.le_trans hb h.1, h.2.1, h.2.2.1, h.2.2.2⟩

theorem Good.mem {w : Nat} : ∀ {l : List Run} {a : Nat}, Good w a l → ∀ r ∈ l, a ≤ r.1 ∧ r.1 < r.2 ∧ r.2 ≤ w
  | [], _, _, r, hr => by cases hr
  | u :: l, a, h, r, hr => by
    rcases List.mem_cons.1 hr with rfl | hr
    · exact ⟨h.1, h.2.1, h.2.2.1⟩
    · have := Good.mem h.2.2.2 r hr
      exact ⟨by have := h.1; have := h.2.1; omega, this.2⟩

theorem Good.tail {w a : Nat} {u : Run} {l : List Run} (h : Good w a (u :: l)) : Good w (u.2 + 1) l := h.2.2.2

theorem Good.drop {w : Nat} : ∀ (n : Nat) {l : List Run} {a : Nat}, Good w a l → Good w a (l.drop n)
  | 0, _, _, h => by simpa using h
  | _ + 1, [], _, _ => by simp [Good]
  | n + 1, u :: l, a, h => by
    rw [List.drop_succ_cons]
    exact Good.drop n (h.tail.mono (by have := h.1; have := h.2.1; omega))

/-- a good list inside `[0, w]` has at most `w` runs -/
theorem Good.length_le {w : Nat} : ∀ {l : List Run} {a : Nat}, Good w a l → l ≠ [] → a + l.length ≤ w
  | [], _, _, hne => absurd rfl hne
  | [u], a, h, _ => by
    have := h.1; have := h.2.1; have := h.2.2.1
    simp only [List.length_cons, List.length_nil]; omega
  | u :: v :: l, a, h, _ => by
    have ih := Good.length_le h.tail (by simp)
    have := h.1; have := h.2.1
    simp only [List.length_cons] at ih ⊢; omega

theorem Good.length_le' {w a : Nat} {l : List Run} (h : Good w a l) : l.length ≤ w := by
  cases l with
  | nil => simp
  | cons u l => have := h.length_le (by simp); omega

/-- nothing is inside before the lower bound -/
theorem Good.inR_false {w a : Nat} {l : List Run} (h : Good w a l) {x : Nat} (hx : x < a) : inR l x = false := by
  unfold inR
  rw [List.any_eq_false]
  intro r hr
  have := (h.mem r hr).1
  simp; omega

theorem Good.inL_false {w a : Nat} {l : List Run} (h : Good w a l) {x : Nat} (hx : x ≤ a) : inL l x = false := by
  unfold inL
  rw [List.any_eq_false]
  intro r hr
  have := (h.mem r hr).1
  simp; omega

/-- at or before the end of the head run, membership is decided by the head run alone -/
theorem Good.inR_head {w a : Nat} {u : Run} {l : List Run} (h : Good w a (u :: l)) {x : Nat} (hx : x ≤ u.2) :
    inR (u :: l) x = (decide (u.1 ≤ x) && decide (x < u.2)) := by
  rw [inR_cons, h.tail.inR_false (by omega), Bool.or_false]

theorem Good.inL_head {w a : Nat} {u : Run} {l : List Run} (h : Good w a (u :: l)) {x : Nat} (hx : x ≤ u.2) :
    inL (u :: l) x = (decide (u.1 < x) && decide (x ≤ u.2)) := by
  rw [inL_cons, h.tail.inL_false (by omega), Bool.or_false]

/-- beyond the end of the head run, the head run can be dropped -/
theorem inR_cons_after {u : Run} {l : List Run} {x : Nat} (hx : u.2 < x) : inR (u :: l) x = inR l x := by
  rw [inR_cons]
  have : decide (x < u.2) = false := by apply decide_eq_false; omega
  simp [this]

theorem inL_cons_after {u : Run} {l : List Run} {x : Nat} (hx : u.2 < x) : inL (u :: l) x = inL l x := by
  rw [inL_cons]
  have : decide (x ≤ u.2) = false := by apply decide_eq_false; omega
  simp [this]

/-! ## 2. row level -/

theorem rowRunsGo_nil_none (x : Nat) : rowRunsGo x none [] = [] := by simp [rowRunsGo]
theorem rowRunsGo_nil_some (x s : Nat) : rowRunsGo x (some s) [] = [(s, x)] := by simp [rowRunsGo]
theorem rowRunsGo_true_none (x : Nat) (r : List Bool) :
    rowRunsGo x none (true :: r) = rowRunsGo (x + 1) (some x) r := by simp [rowRunsGo]
theorem rowRunsGo_false_some (x s : Nat) (r : List Bool) :
    rowRunsGo x (some s) (false :: r) = (s, x) :: rowRunsGo (x + 1) none r := by simp [rowRunsGo]
theorem rowRunsGo_false_none (x : Nat) (r : List Bool) :
    rowRunsGo x none (false :: r) = rowRunsGo (x + 1) none r := by simp [rowRunsGo]
theorem rowRunsGo_true_some (x s : Nat) (r : List Bool) :
    rowRunsGo x (some s) (true :: r) = rowRunsGo (x + 1) (some s) r := by simp [rowRunsGo]

theorem getD_cons_sub {b : Bool} {r : List Bool} {x z : Nat} (h : x + 1 ≤ z) :
    (b :: r).getD (z - x) false = r.getD (z - (x + 1)) false := by
  have : z - x = (z - (x + 1)) + 1 := by omega
  rw [this, List.getD_cons_succ]

theorem rowRunsGo_spec : ∀ (r : List Bool) (x : Nat),
    (Good (x + r.length) x (rowRunsGo x none r) ∧
      ∀ z, inR (rowRunsGo x none r) z = (decide (x ≤ z) && r.getD (z - x) false)) ∧
    (∀ s, s < x → Good (x + r.length) s (rowRunsGo x (some s) r) ∧
      ∀ z, inR (rowRunsGo x (some s) r) z =
        ((decide (s ≤ z) && decide (z < x)) || (decide (x ≤ z) && r.getD (z - x) false)))
  | [], x => by
    refine ⟨⟨by rw [rowRunsGo_nil_none]; trivial, fun z => by rw [rowRunsGo_nil_none]; simp⟩, fun s hs => ?_⟩
    rw [rowRunsGo_nil_some]
    refine ⟨⟨Nat.le_refl _, hs, by simp, trivial⟩, fun z => ?_⟩
    simp [inR]
  | b :: r, x => by
    obtain ⟨⟨ihn, ihnz⟩, ihs⟩ := rowRunsGo_spec r (x + 1)
    have hlen : x + (b :: r).length = x + 1 + r.length := by simp only [List.length_cons]; omega
    rw [hlen]
    cases b with
    | true =>
      refine ⟨?_, fun s hs => ?_⟩
      · rw [rowRunsGo_true_none]
        obtain ⟨g, gz⟩ := ihs x (by omega)
        refine ⟨g, fun z => ?_⟩
        rw [gz z]
        by_cases h1 : x + 1 ≤ z
        · rw [getD_cons_sub h1]
          have : decide (z < x + 1) = false := by apply decide_eq_false; omega
          have h2 : decide (x ≤ z) = true := by apply decide_eq_true; omega
          simp [this, h2, h1]
        · by_cases h2 : x ≤ z
          · have : z = x := by omega
            subst this
            simp
          · have e1 : decide (x ≤ z) = false := decide_eq_false h2
            have e2 : decide (x + 1 ≤ z) = false := decide_eq_false h1
            simp [e1, e2]
      · rw [rowRunsGo_true_some]
        obtain ⟨g, gz⟩ := ihs s (by omega)
        refine ⟨g, fun z => ?_⟩
        rw [gz z]
        by_cases h1 : x + 1 ≤ z
        · rw [getD_cons_sub h1]
          have e1 : decide (z < x + 1) = false := by apply decide_eq_false; omega
          have e2 : decide (z < x) = false := by apply decide_eq_false; omega
          have e3 : decide (x ≤ z) = true := by apply decide_eq_true; omega
          simp [e1, e2, e3, h1]
        · by_cases h2 : x ≤ z
          · have : z = x := by omega
            subst this
            simp; omega
          · have e1 : decide (x ≤ z) = false := decide_eq_false h2
            have e2 : decide (x + 1 ≤ z) = false := decide_eq_false h1
            have e3 : decide (z < x + 1) = decide (z < x) := by apply decide_eq_decide.2; omega
            simp [e1, e2, e3]
    | false =>
      refine ⟨?_, fun s hs => ?_⟩
      · rw [rowRunsGo_false_none]
        refine ⟨ihn.mono (by omega), fun z => ?_⟩
        rw [ihnz z]
        by_cases h1 : x + 1 ≤ z
        · rw [getD_cons_sub h1]
          have e3 : decide (x ≤ z) = true := by apply decide_eq_true; omega
          simp [e3, h1]
        · by_cases h2 : x ≤ z
          · have : z = x := by omega
            subst this
            simp
          · have e1 : decide (x ≤ z) = false := decide_eq_false h2
            have e2 : decide (x + 1 ≤ z) = false := decide_eq_false h1
            simp [e1, e2]
      · rw [rowRunsGo_false_some]
        refine ⟨⟨Nat.le_refl _, hs, by omega, ihn⟩, fun z => ?_⟩
        rw [inR_cons, ihnz z]
        by_cases h1 : x + 1 ≤ z
        · rw [getD_cons_sub h1]
          have e3 : decide (x ≤ z) = true := by apply decide_eq_true; omega
          simp [e3, h1]
        · by_cases h2 : x ≤ z
          · have : z = x := by omega
            subst this
            simp
          · have e1 : decide (x ≤ z) = false := decide_eq_false h2
            have e2 : decide (x + 1 ≤ z) = false := decide_eq_false h1
            simp [e1, e2]

theorem mergeRuns_nil : mergeRuns [] = [] := by simp [mergeRuns]
theorem mergeRuns_single (a : Run) : mergeRuns [a] = [a] := by simp [mergeRuns]

/-- merging leaves a good list alone -/
theorem Good.mergeRuns_eq {w : Nat} : ∀ {l : List Run} {a : Nat}, Good w a l → mergeRuns l = l
  | [], _, _ => mergeRuns_nil
  | [u], _, _ => mergeRuns_single u
  | u :: v :: l, a, h => by
    have h1 := h.tail.1
    rw [mergeRuns, if_neg (by omega), Good.mergeRuns_eq h.tail]

theorem Good.filter_eq {w a : Nat} {l : List Run} (h : Good w a l) : l.filter (fun r => r.1 != r.2) = l := by
  rw [List.filter_eq_self]
  intro r hr
  have := (h.mem r hr).2.1
  simp; omega

theorem rowRuns_good (row : List Bool) : Good row.length 0 (rowRuns row) := by
  have := (rowRunsGo_spec row 0).1.1
  simpa [rowRuns] using this

theorem roundedRuns_eq (row : List Bool) : roundedRuns row = rowRuns row := by
  have g := rowRuns_good row
  unfold roundedRuns
  simp only [g.filter_eq]
  split
  · rfl
  · exact g.mergeRuns_eq

theorem Good.widen {w w' : Nat} (hw : w ≤ w') : ∀ {l : List Run} {a : Nat}, Good w a l → Good w' a l
  | [], _, _ => trivial
  | _ :: _, _, h => ⟨h.1, h.2.1, Nat.le_trans h.2.2.1 hw, Good.widen hw h.2.2.2⟩

theorem roundedRuns_good {w : Nat} (row : List Bool) (h : row.length ≤ w) : Good w 0 (roundedRuns row) := by
  rw [roundedRuns_eq]; exact (rowRuns_good row).widen h

theorem inR_roundedRuns (row : List Bool) (x : Nat) : inR (roundedRuns row) x = row.getD x false := by
  rw [roundedRuns_eq]
  have := (rowRunsGo_spec row 0).1.2 x
  simpa [rowRuns] using this

theorem inL_roundedRuns (row : List Bool) (x : Nat) :
    inL (roundedRuns row) x = (decide (1 ≤ x) && row.getD (x - 1) false) := by
  rw [inL_eq_inR, inR_roundedRuns]

/-! ## 3. scanline specification -/

abbrev Cell := (Nat × Nat) × Nat

/-- a cell is reported when its corners are mixed -/
def cellOf (tl tr bl br : Bool) (x y : Nat) : Option Cell :=
  if (tl || tr || bl || br) && !(tl && tr && bl && br) then some ((x, y), cell_from_corners tl tr bl br) else none

/-- the cell at position `x` of the scanline between run lists `p` (above) and `c` (below) -/
def cellAt (p c : List Run) (y x : Nat) : Option Cell := cellOf (inL p x) (inR p x) (inL c x) (inR c x) x y

/-- the reported cells at positions `x0 … w` -/
def lineFrom (f : Nat → Option Cell) (w x0 : Nat) : List Cell := (List.range' x0 (w + 1 - x0)).filterMap f

theorem cellOf_false (x y : Nat) : cellOf false false false false x y = none := rfl
theorem cellOf_true (x y : Nat) : cellOf true true true true x y = none := rfl

theorem filterMap_congr' {α β} {f g : α → Option β} : ∀ {l : List α}, (∀ a ∈ l, f a = g a) →
    l.filterMap f = l.filterMap g
  | [], _ => rfl
  | a :: l, h => by
    rw [List.filterMap_cons, List.filterMap_cons, h a (by simp),
      filterMap_congr' (fun b hb => h b (List.mem_cons_of_mem _ hb))]

theorem lineFrom_gt {f : Nat → Option Cell} {w x0 : Nat} (h : w < x0) : lineFrom f w x0 = [] := by
  unfold lineFrom; rw [show w + 1 - x0 = 0 by omega]; rfl

theorem lineFrom_unfold {f : Nat → Option Cell} {w x0 : Nat} (h : x0 ≤ w) :
    lineFrom f w x0 = (f x0).toList ++ lineFrom f w (x0 + 1) := by
  unfold lineFrom
  rw [show w + 1 - x0 = (w + 1 - (x0 + 1)) + 1 by omega, List.range'_succ, List.filterMap_cons]
  cases f x0 <;> simp

theorem lineFrom_none {f : Nat → Option Cell} {w x0 : Nat} (h : f x0 = none) :
    lineFrom f w x0 = lineFrom f w (x0 + 1) := by
  by_cases hw : x0 ≤ w
  · rw [lineFrom_unfold hw, h]; rfl
  · rw [lineFrom_gt (by omega), lineFrom_gt (by omega)]

theorem lineFrom_some {f : Nat → Option Cell} {w x0 : Nat} {c : Cell} (hw : x0 ≤ w) (h : f x0 = some c) :
    lineFrom f w x0 = c :: lineFrom f w (x0 + 1) := by
  rw [lineFrom_unfold hw, h]; rfl

theorem lineFrom_skip_add {f : Nat → Option Cell} {w x0 : Nat} : ∀ k : Nat,
    (∀ x', x0 ≤ x' → x' < x0 + k → f x' = none) → lineFrom f w x0 = lineFrom f w (x0 + k)
  | 0, _ => rfl
  | k + 1, h => by
    rw [lineFrom_skip_add k (fun x' h1 h2 => h x' h1 (by omega)),
      lineFrom_none (h (x0 + k) (by omega) (by omega))]
    rfl

theorem lineFrom_skip {f : Nat → Option Cell} {w x0 nx : Nat} (hle : x0 ≤ nx)
    (h : ∀ x', x0 ≤ x' → x' < nx → f x' = none) : lineFrom f w x0 = lineFrom f w nx := by
  have := lineFrom_skip_add (f := f) (w := w) (x0 := x0) (nx - x0) (fun x' h1 h2 => h x' h1 (by omega))
  rwa [show x0 + (nx - x0) = nx by omega] at this

theorem lineFrom_congr {f g : Nat → Option Cell} {w x0 : Nat} (h : ∀ x', x0 ≤ x' → f x' = g x') :
    lineFrom f w x0 = lineFrom g w x0 := by
  unfold lineFrom
  apply filterMap_congr'
  intro x' hx'
  exact h x' (List.mem_range'_1.1 hx').1

theorem lineFrom_all_none {f : Nat → Option Cell} {w x0 : Nat} (h : ∀ x, f x = none) : lineFrom f w x0 = [] := by
  unfold lineFrom
  rw [List.filterMap_eq_nil_iff]
  intro a _; exact h a

theorem lineFrom_length_le (f : Nat → Option Cell) (w x0 : Nat) : (lineFrom f w x0).length ≤ w + 1 := by
  unfold lineFrom
  have := List.length_filterMap_le f (List.range' x0 (w + 1 - x0))
  rw [List.length_range'] at this
  omega

theorem cellAt_nil_nil (y x : Nat) : cellAt [] [] y x = none := rfl

/-- the cells of all scanlines from `y` on: `cur` is the run list above scanline `y`, `lines` are the run lists
    from scanline `y` downwards, and the last scanline has nothing below it -/
def restCells (w : Nat) : Nat → List Run → List (List Run) → List Cell
  | y, cur, [] => lineFrom (cellAt cur [] y) w 0
  | y, cur, l :: rest => lineFrom (cellAt cur l y) w 0 ++ restCells w (y + 1) l rest

theorem restCells_length_le (w : Nat) : ∀ (lines : List (List Run)) (y : Nat) (cur : List Run),
    (restCells w y cur lines).length ≤ (lines.length + 1) * (w + 1)
  | [], y, cur => by
    simp only [restCells, List.length_nil, Nat.zero_add, Nat.one_mul]
    exact lineFrom_length_le _ _ _
  | l :: rest, y, cur => by
    simp only [restCells, List.length_append, List.length_cons]
    have h1 := lineFrom_length_le (cellAt cur l y) w 0
    have h2 := restCells_length_le w rest (y + 1) l
    have := Nat.add_one_mul (rest.length + 1) (w + 1)
    omega

/-! ## 4. one step of `next` -/

inductive StepR where
  | done
  | cont (it : It)
  | emit (c : Cell) (it : It)

/-- the body of `next` with the recursive calls replaced by `.cont` -/
def stepCore (it : It) (upper lower : Option Run) : StepR :=
    if it.finished && it.prev.isEmpty then .done else
    if omap upper false (fun u => decide (it.xpos > u.2)) then .cont { it with prevPos := it.prevPos + 1 } else
    if omap lower false (fun l => decide (it.xpos > l.2)) then .cont { it with curPos := it.curPos + 1 } else
    if upper.isNone && lower.isNone then .cont (loadLine it.ypos it.lines it.cur (it.ypos + 1)) else
    if omap upper true (fun u => decide (it.xpos < u.1)) && omap lower true (fun l => decide (it.xpos < l.1)) then
      .cont { it with xpos := match upper, lower with
        | some u, some l => min u.1 l.1
        | some u, none => u.1
        | none, some l => l.1
        | none, none => it.xpos }
    else if omap upper false (fun u => decide (it.xpos > u.1) && decide (it.xpos < u.2)) &&
            omap lower false (fun l => decide (it.xpos > l.1) && decide (it.xpos < l.2)) then
      .cont { it with xpos := match upper, lower with
        | some u, some l => min u.2 l.2
        | _, _ => it.xpos }
    else
      .emit ((it.xpos, it.ypos), cell_from_corners
          (omap upper false (fun u => decide (it.xpos > u.1) && decide (it.xpos ≤ u.2)))
          (omap upper false (fun u => decide (it.xpos ≥ u.1) && decide (it.xpos < u.2)))
          (omap lower false (fun l => decide (it.xpos > l.1) && decide (it.xpos ≤ l.2)))
          (omap lower false (fun l => decide (it.xpos ≥ l.1) && decide (it.xpos < l.2))))
        { it with xpos := it.xpos + 1 }

def step (it : It) : StepR := stepCore it it.prev[it.prevPos]? it.cur[it.curPos]?

theorem next_succ (fuel : Nat) (it : It) : next (fuel + 1) it =
    match step it with
    | .done => none
    | .cont it' => next fuel it'
    | .emit c it' => some (c, it') := by
  rw [next]
  unfold step stepCore
  simp only []
  split_ifs <;> rfl

/-- what is known of an iterator state between two steps (nothing about the cursors is needed: the
    specification `S` below only looks at the runs from the cursors on) -/
structure Inv (w N : Nat) (it : It) : Prop where
  gp : Good w 0 it.prev
  gc : Good w 0 it.cur
  gl : ∀ l ∈ it.lines, Good w 0 l
  fin : it.finished = true → it.cur = [] ∧ it.lines = []
  len : it.lines.length ≤ N

/-- the cells still to be yielded from a state -/
def S (w : Nat) (it : It) : List Cell :=
  lineFrom (cellAt (it.prev.drop it.prevPos) (it.cur.drop it.curPos) it.ypos) w it.xpos ++
    restCells w (it.ypos + 1) it.cur it.lines

/-- potential of the cursors on the current scanline -/
def lineP (w : Nat) (it : It) : Nat :=
  (w + 1 - it.xpos) + (it.prev.length - it.prevPos) + (it.cur.length - it.curPos)

def tailCost (w : Nat) (it : It) : Nat :=
  if it.finished then 1 else (it.lines.length + 1) * (3 * w + 3) + 1

/-- an upper bound of the number of steps one `next` call can take from a state -/
def Φ (w : Nat) (it : It) : Nat :=
  if it.finished && it.prev.isEmpty then 1 else lineP w it + 1 + tailCost w it

def StepOK (w N : Nat) (it : It) : StepR → Prop
  | .done => S w it = []
  | .cont it' => Inv w N it' ∧ S w it' = S w it ∧ Φ w it' < Φ w it
  | .emit c it' => Inv w N it' ∧ S w it = c :: S w it'

theorem lineP_le {w N : Nat} {it : It} (h : Inv w N it) : lineP w it ≤ 3 * w + 1 := by
  have := h.gp.length_le'
  have := h.gc.length_le'
  unfold lineP; omega

theorem Φ_pos (w : Nat) (it : It) : 1 ≤ Φ w it := by
  unfold Φ; split <;> omega

theorem Φ_le {w N : Nat} {it : It} (h : Inv w N it) : Φ w it ≤ (N + 2) * (3 * w + 3) := by
  have h1 := lineP_le h
  have h2 := h.len
  have h3 : (it.lines.length + 1) * (3 * w + 3) ≤ (N + 1) * (3 * w + 3) := Nat.mul_le_mul_right _ (by omega)
  have h4 : (N + 2) * (3 * w + 3) = (N + 1) * (3 * w + 3) + (3 * w + 3) := Nat.add_one_mul (N + 1) _
  unfold Φ tailCost
  split
  · omega
  · split <;> omega

/-! ### `loadLine` -/

theorem firstX_none {p c : List Run} (h : firstX p c = none) : p = [] ∧ c = [] := by
  cases p <;> cases c <;> simp [firstX] at h ⊢

theorem firstX_some_le {p c : List Run} {x : Nat} (h : firstX p c = some x) :
    (∀ u t, p = u :: t → x ≤ u.1) ∧ (∀ u t, c = u :: t → x ≤ u.1) := by
  cases p <;> cases c <;> simp [firstX] at h ⊢ <;> omega

theorem Good.raise {w a x : Nat} {l : List Run} (h : Good w a l) (hx : ∀ u t, l = u :: t → x ≤ u.1) : Good w x l := by
  cases l with
  | nil => trivial
  | cons u t => exact ⟨hx u t rfl, h.2⟩

theorem cellAt_none_before {w x x' y : Nat} {p c : List Run} (hp : Good w x p) (hc : Good w x c) (h : x' < x) :
    cellAt p c y x' = none := by
  unfold cellAt
  rw [hp.inL_false (by omega), hp.inR_false h, hc.inL_false (by omega), hc.inR_false h]
  rfl

theorem lineFrom_nil_nil (y w x0 : Nat) : lineFrom (cellAt [] [] y) w x0 = [] :=
  lineFrom_all_none (fun _ => rfl)

theorem Φ_of_not_done {w : Nat} {it : It} (h : (it.finished && it.prev.isEmpty) = false) :
    Φ w it = lineP w it + 1 + tailCost w it := by
  unfold Φ; rw [h]; rfl

theorem loadLine_spec (w N : Nat) : ∀ (lines : List (List Run)) (cur : List Run) (y oldY : Nat),
    Good w 0 cur → (∀ l ∈ lines, Good w 0 l) → lines.length ≤ N →
    Inv w N (loadLine oldY lines cur y) ∧ S w (loadLine oldY lines cur y) = restCells w y cur lines ∧
    Φ w (loadLine oldY lines cur y) ≤ (lines.length + 1) * (3 * w + 3) ∧
    (lines = [] → cur = [] → Φ w (loadLine oldY lines cur y) = 1)
  | [], cur, y, oldY, gc, gl, hN => by
    rw [loadLine]
    split
    · rename_i x hx
      have hr := firstX_some_le hx
      have gcx : Good w x cur := gc.raise hr.1
      have inv : Inv w N { lines := [], finished := true, ypos := y, prev := cur, cur := [], prevPos := 0, curPos := 0, xpos := x } :=
        ⟨gc, trivial, by simp, fun _ => ⟨rfl, rfl⟩, by simp⟩
      refine ⟨inv, ?_, ?_, ?_⟩
      · simp only [S, List.drop_zero, restCells]
        rw [lineFrom_all_none (f := cellAt [] [] (y + 1)) (fun _ => rfl), List.append_nil]
        exact (lineFrom_skip (Nat.zero_le x) (fun x' _ h => cellAt_none_before gcx (show Good w x [] from trivial) h)).symm
      · have := lineP_le inv
        simp only [Φ, tailCost, List.length_nil, if_true, eq_self]
        split <;> omega
      · intro _ hc; subst hc; simp [firstX] at hx
    · rename_i hx
      have hc := (firstX_none hx).1
      subst hc
      have inv : Inv w N { lines := [], finished := true, ypos := oldY, prev := [], cur := [], prevPos := 0, curPos := 0, xpos := 0 } :=
        ⟨trivial, trivial, by simp, fun _ => ⟨rfl, rfl⟩, by simp⟩
      refine ⟨inv, ?_, ?_, ?_⟩
      · simp only [S, List.drop_zero, restCells]
        rw [lineFrom_all_none (f := cellAt [] [] (oldY + 1)) (fun _ => rfl), 
          lineFrom_all_none (f := cellAt [] [] oldY) (fun _ => rfl),
          lineFrom_all_none (f := cellAt [] [] y) (fun _ => rfl)]
        rfl
      · simp [Φ]
      · intro _ _; simp [Φ]
  | line :: rest, cur, y, oldY, gc, gl, hN => by
    rw [loadLine]
    have gline : Good w 0 line := gl line (by simp)
    have grest : ∀ l ∈ rest, Good w 0 l := fun l hl => gl l (List.mem_cons_of_mem _ hl)
    simp only [List.length_cons] at hN
    split
    · rename_i x hx
      have hr := firstX_some_le hx
      have gcx : Good w x cur := gc.raise hr.1
      have glx : Good w x line := gline.raise hr.2
      have inv : Inv w N { lines := rest, finished := false, ypos := y, prev := cur, cur := line, prevPos := 0, curPos := 0, xpos := x } :=
        ⟨gc, gline, grest, fun h => (by cases h), (by show rest.length ≤ N; omega)⟩
      refine ⟨inv, ?_, ?_, ?_⟩
      · simp only [S, List.drop_zero, restCells]
        rw [lineFrom_skip (Nat.zero_le x) (fun x' _ h => cellAt_none_before gcx glx h)]
      · have := lineP_le inv
        have := Nat.add_one_mul (rest.length + 1) (3 * w + 3)
        unfold Φ tailCost
        simp only [List.length_cons, Bool.false_and]
        simp only [Bool.false_eq_true, if_false]
        omega
      · intro h; cases h
    · rename_i hx
      obtain ⟨hc, hl⟩ := firstX_none hx
      subst hc; subst hl
      obtain ⟨i1, i2, i3, _⟩ := loadLine_spec w N rest [] (y + 1) oldY trivial grest (by omega)
      refine ⟨i1, ?_, ?_, ?_⟩
      · rw [i2, restCells, lineFrom_all_none (f := cellAt [] [] y) (fun _ => rfl)]; rfl
      · have := Nat.add_one_mul (rest.length + 1) (3 * w + 3)
        simp only [List.length_cons]
        omega
      · intro h; cases h


theorem Inv.set_xpos {w N : Nat} {it : It} (h : Inv w N it) (nx : Nat) : Inv w N { it with xpos := nx } :=
  ⟨h.gp, h.gc, h.gl, h.fin, h.len⟩
theorem Inv.set_prevPos {w N : Nat} {it : It} (h : Inv w N it) (n : Nat) : Inv w N { it with prevPos := n } :=
  ⟨h.gp, h.gc, h.gl, h.fin, h.len⟩
theorem Inv.set_curPos {w N : Nat} {it : It} (h : Inv w N it) (n : Nat) : Inv w N { it with curPos := n } :=
  ⟨h.gp, h.gc, h.gl, h.fin, h.len⟩

theorem ok_done {w N : Nat} {it : It} (h : Inv w N it) (hd : (it.finished && it.prev.isEmpty) = true) :
    StepOK w N it .done := by
  show S w it = []
  simp only [Bool.and_eq_true, List.isEmpty_iff] at hd
  obtain ⟨hc, hl⟩ := h.fin hd.1
  unfold S
  rw [hd.2, hc, hl]
  simp only [List.drop_nil, restCells]
  rw [lineFrom_nil_nil, lineFrom_nil_nil]; rfl

theorem ok_xpos {w N : Nat} {it : It} (h : Inv w N it) (hnd : (it.finished && it.prev.isEmpty) = false) (nx : Nat)
    (hlt : it.xpos < nx) (hle : it.xpos ≤ w)
    (hnone : ∀ x', it.xpos ≤ x' → x' < nx →
      cellAt (it.prev.drop it.prevPos) (it.cur.drop it.curPos) it.ypos x' = none) :
    StepOK w N it (.cont { it with xpos := nx }) := by
  refine ⟨h.set_xpos nx, ?_, ?_⟩
  · simp only [S]
    rw [lineFrom_skip (Nat.le_of_lt hlt) hnone]
  · rw [Φ_of_not_done hnd, Φ_of_not_done (it := { it with xpos := nx }) hnd]
    simp only [lineP, tailCost]
    omega

theorem drop_succ_of_drop_eq_cons {α} {l : List α} {n : Nat} {u : α} {t : List α} (h : l.drop n = u :: t) :
    l.drop (n + 1) = t := by
  rw [← List.tail_drop, h]; rfl

theorem lt_length_of_drop_eq_cons {α} {l : List α} {n : Nat} {u : α} {t : List α} (h : l.drop n = u :: t) :
    n < l.length := by
  by_contra hn
  rw [List.drop_eq_nil_iff.2 (by omega)] at h
  cases h

theorem ok_prevPos {w N : Nat} {it : It} (h : Inv w N it) (hnd : (it.finished && it.prev.isEmpty) = false)
    {u : Run} {pd' : List Run} (hu : it.prev.drop it.prevPos = u :: pd') (hx : u.2 < it.xpos) :
    StepOK w N it (.cont { it with prevPos := it.prevPos + 1 }) := by
  refine ⟨h.set_prevPos _, ?_, ?_⟩
  · simp only [S]
    rw [drop_succ_of_drop_eq_cons hu, hu]
    congr 1
    apply lineFrom_congr
    intro x' hx'
    unfold cellAt
    rw [inL_cons_after (by omega), inR_cons_after (by omega)]
  · rw [Φ_of_not_done hnd, Φ_of_not_done (it := { it with prevPos := it.prevPos + 1 }) hnd]
    have := lt_length_of_drop_eq_cons hu
    simp only [lineP, tailCost]
    omega

theorem ok_curPos {w N : Nat} {it : It} (h : Inv w N it) (hnd : (it.finished && it.prev.isEmpty) = false)
    {u : Run} {cd' : List Run} (hu : it.cur.drop it.curPos = u :: cd') (hx : u.2 < it.xpos) :
    StepOK w N it (.cont { it with curPos := it.curPos + 1 }) := by
  refine ⟨h.set_curPos _, ?_, ?_⟩
  · simp only [S]
    rw [drop_succ_of_drop_eq_cons hu, hu]
    congr 1
    apply lineFrom_congr
    intro x' hx'
    unfold cellAt
    rw [inL_cons_after (by omega), inR_cons_after (by omega)]
  · rw [Φ_of_not_done hnd, Φ_of_not_done (it := { it with curPos := it.curPos + 1 }) hnd]
    have := lt_length_of_drop_eq_cons hu
    simp only [lineP, tailCost]
    omega

theorem ok_load {w N : Nat} {it : It} (h : Inv w N it) (hnd : (it.finished && it.prev.isEmpty) = false)
    (hpd : it.prev.drop it.prevPos = []) (hcd : it.cur.drop it.curPos = []) :
    StepOK w N it (.cont (loadLine it.ypos it.lines it.cur (it.ypos + 1))) := by
  obtain ⟨i1, i2, i3, i4⟩ := loadLine_spec w N it.lines it.cur (it.ypos + 1) it.ypos h.gc h.gl h.len
  refine ⟨i1, ?_, ?_⟩
  · rw [i2, S, hpd, hcd, lineFrom_nil_nil]; rfl
  · rw [Φ_of_not_done hnd]
    unfold tailCost
    split
    · rename_i hf
      obtain ⟨hc, hl⟩ := h.fin hf
      rw [i4 hl hc]; omega
    · omega

theorem ok_emit {w N : Nat} {it : It} (h : Inv w N it) {c : Cell} (hle : it.xpos ≤ w)
    (hc : cellAt (it.prev.drop it.prevPos) (it.cur.drop it.curPos) it.ypos it.xpos = some c) :
    StepOK w N it (.emit c { it with xpos := it.xpos + 1 }) := by
  refine ⟨h.set_xpos _, ?_⟩
  simp only [S]
  rw [lineFrom_some hle hc]; rfl


theorem Good.raise_head {w a : Nat} {u : Run} {t : List Run} (h : Good w a (u :: t)) : Good w u.1 (u :: t) :=
  ⟨Nat.le_refl _, h.2⟩

theorem step_ok {w N : Nat} {it : It} (h : Inv w N it) : StepOK w N it (step it) := by
  unfold step
  have gpd := h.gp.drop it.prevPos
  have gcd := h.gc.drop it.curPos
  by_cases hd : (it.finished && it.prev.isEmpty) = true
  · have : stepCore it it.prev[it.prevPos]? it.cur[it.curPos]? = .done := by unfold stepCore; rw [if_pos hd]
    rw [this]; exact ok_done h hd
  have hnd : (it.finished && it.prev.isEmpty) = false := by simpa using hd
  rw [← List.head?_drop, ← List.head?_drop]
  unfold stepCore
  rw [if_neg hd]
  rcases hpd : it.prev.drop it.prevPos with _ | ⟨u, pd'⟩ <;> rcases hcd : it.cur.drop it.curPos with _ | ⟨l, cd'⟩
  · simp only [List.head?_nil, omap, Option.isNone_none, Bool.and_self, if_true, Bool.false_eq_true, if_false]
    exact ok_load h hnd hpd hcd
  · simp only [List.head?_nil, List.head?_cons, omap, Option.isNone_none, Option.isNone_some,
      Bool.and_false, Bool.false_and, Bool.true_and, Bool.false_eq_true, if_false, decide_eq_true_eq]
    rw [hcd] at gcd
    have hl12 := gcd.2.1
    have hlw := gcd.2.2.1
    split_ifs with h1 h2
    · exact ok_curPos h hnd hcd h1
    · refine ok_xpos h hnd l.1 h2 (by omega) ?_
      intro x' _ hx2
      rw [hpd, hcd]
      exact cellAt_none_before (w := w) (x := l.1) trivial gcd.raise_head hx2
    · have hx : it.xpos ≤ l.2 := by omega
      refine ok_emit h (by omega) ?_
      rw [hpd, hcd]
      unfold cellAt
      rw [gcd.inL_head hx, gcd.inR_head hx]
      simp only [inL_nil, inR_nil]
      unfold cellOf
      rw [if_pos]
      simp; omega
  · simp only [List.head?_nil, List.head?_cons, omap, Option.isNone_none, Option.isNone_some,
      Bool.and_false, Bool.and_true, Bool.false_eq_true, if_false, decide_eq_true_eq]
    rw [hpd] at gpd
    have hu12 := gpd.2.1
    have huw := gpd.2.2.1
    split_ifs with h1 h2
    · exact ok_prevPos h hnd hpd h1
    · refine ok_xpos h hnd u.1 h2 (by omega) ?_
      intro x' _ hx2
      rw [hpd, hcd]
      exact cellAt_none_before (w := w) (x := u.1) gpd.raise_head trivial hx2
    · have hx : it.xpos ≤ u.2 := by omega
      refine ok_emit h (by omega) ?_
      rw [hpd, hcd]
      unfold cellAt
      rw [gpd.inL_head hx, gpd.inR_head hx]
      simp only [inL_nil, inR_nil]
      unfold cellOf
      rw [if_pos]
      simp; omega
  · simp only [List.head?_cons, omap, Option.isNone_some,
      Bool.and_false, Bool.false_eq_true, if_false, decide_eq_true_eq, Bool.and_eq_true]
    rw [hpd] at gpd
    rw [hcd] at gcd
    have hu12 := gpd.2.1
    have huw := gpd.2.2.1
    have hl12 := gcd.2.1
    have hlw := gcd.2.2.1
    split_ifs with h1 h2 h3 h4
    · exact ok_prevPos h hnd hpd h1
    · exact ok_curPos h hnd hcd h2
    · refine ok_xpos h hnd (min u.1 l.1) (by omega) (by omega) ?_
      intro x' _ hx2
      rw [hpd, hcd]
      exact cellAt_none_before (w := w) (x := min u.1 l.1) (gpd.raise_head.mono (by omega))
        (gcd.raise_head.mono (by omega)) hx2
    · refine ok_xpos h hnd (min u.2 l.2) (by omega) (by omega) ?_
      intro x' hx1 hx2
      rw [hpd, hcd]
      unfold cellAt
      rw [gpd.inL_head (by omega), gpd.inR_head (by omega), gcd.inL_head (by omega), gcd.inR_head (by omega)]
      have e1 : decide (u.1 < x') = true := by apply decide_eq_true; omega
      have e2 : decide (x' ≤ u.2) = true := by apply decide_eq_true; omega
      have e3 : decide (u.1 ≤ x') = true := by apply decide_eq_true; omega
      have e4 : decide (x' < u.2) = true := by apply decide_eq_true; omega
      have e5 : decide (l.1 < x') = true := by apply decide_eq_true; omega
      have e6 : decide (x' ≤ l.2) = true := by apply decide_eq_true; omega
      have e7 : decide (l.1 ≤ x') = true := by apply decide_eq_true; omega
      have e8 : decide (x' < l.2) = true := by apply decide_eq_true; omega
      rw [e1, e2, e3, e4, e5, e6, e7, e8]
      rfl
    · have hxu : it.xpos ≤ u.2 := by omega
      have hxl : it.xpos ≤ l.2 := by omega
      refine ok_emit h (by omega) ?_
      rw [hpd, hcd]
      unfold cellAt
      rw [gpd.inL_head hxu, gpd.inR_head hxu, gcd.inL_head hxl, gcd.inR_head hxl]
      unfold cellOf
      rw [if_pos]
      simp; omega


/-! ## 5. `next` and `cellsGo` against `S` -/

theorem next_spec {w N : Nat} : ∀ (fuel : Nat) (it : It), Inv w N it → Φ w it ≤ fuel →
    (S w it = [] ∧ next fuel it = none) ∨
    (∃ c it', next fuel it = some (c, it') ∧ S w it = c :: S w it' ∧ Inv w N it')
  | 0, it, _, hΦ => by have := Φ_pos w it; omega
  | fuel + 1, it, h, hΦ => by
    rw [next_succ]
    have ok := step_ok h
    cases hs : step it with
    | done => rw [hs] at ok; left; exact ⟨ok, rfl⟩
    | cont it' =>
      rw [hs] at ok
      obtain ⟨i1, i2, i3⟩ := ok
      rw [← i2]
      exact next_spec fuel it' i1 (by omega)
    | emit c it' => rw [hs] at ok; right; exact ⟨c, it', rfl, ok.2, ok.1⟩

theorem cellsGo_spec {w N fuel : Nat} (hfuel : (N + 2) * (3 * w + 3) ≤ fuel) : ∀ (n : Nat) (it : It),
    Inv w N it → (S w it).length ≤ n → cellsGo fuel n it = S w it
  | 0, it, _, hn => by
    have : S w it = [] := List.length_eq_zero_iff.1 (by omega)
    rw [this]; rfl
  | n + 1, it, h, hn => by
    rw [cellsGo]
    rcases next_spec fuel it h (Nat.le_trans (Φ_le h) hfuel) with ⟨hS, hnone⟩ | ⟨c, it', hsome, hS, hinv⟩
    · rw [hnone, hS]
    · rw [hsome, hS]
      rw [hS, List.length_cons] at hn
      simp only
      rw [cellsGo_spec hfuel n it' hinv (by omega)]

/-! ## 6. `restCells` against `mixedCells` -/

/-- the row above scanline `y` -/
def prevRow (rows : List (List Bool)) (y : Nat) : List Bool := if y = 0 then [] else rows.getD (y - 1) []

theorem corner_eq (rows : List (List Bool)) (x y : Nat) :
    corner rows x y = (decide (1 ≤ x) && (prevRow rows y).getD (x - 1) false) := by
  unfold corner prevRow
  by_cases hx : x = 0
  · subst hx; simp
  · by_cases hy : y = 0
    · subst hy; simp
    · have : 1 ≤ x := by omega
      simp [hx, hy, this]

theorem prevRow_succ (rows : List (List Bool)) (y : Nat) : prevRow rows (y + 1) = rows.getD y [] := by
  simp [prevRow]

def mixedLine (w : Nat) (rows : List (List Bool)) (y : Nat) : List Cell :=
  (List.range (w + 1)).filterMap fun (x : Nat) =>
      let tl := corner rows x y
      let tr := corner rows (x + 1) y
      let bl := corner rows x (y + 1)
      let br := corner rows (x + 1) (y + 1)
      if (tl || tr || bl || br) && !(tl && tr && bl && br) then some ((x, y), cell_from_corners tl tr bl br) else none

theorem mixedCells_eq (w : Nat) (rows : List (List Bool)) :
    mixedCells w rows = (List.range (rows.length + 1)).flatMap (mixedLine w rows) := rfl

theorem mixedLine_eq (w : Nat) (rows : List (List Bool)) (y : Nat) :
    mixedLine w rows y =
      lineFrom (cellAt (roundedRuns (prevRow rows y)) (roundedRuns (prevRow rows (y + 1))) y) w 0 := by
  unfold mixedLine lineFrom
  rw [Nat.sub_zero, List.range_eq_range']
  apply filterMap_congr'
  intro x _
  unfold cellAt
  rw [inL_roundedRuns, inR_roundedRuns, inL_roundedRuns, inR_roundedRuns]
  have e1 := corner_eq rows x y
  have e2 : corner rows (x + 1) y = (prevRow rows y).getD x false := by rw [corner_eq]; simp
  have e3 := corner_eq rows x (y + 1)
  have e4 : corner rows (x + 1) (y + 1) = (prevRow rows (y + 1)).getD x false := by rw [corner_eq]; simp
  rw [← e1, ← e2, ← e3, ← e4]
  rfl

theorem roundedRuns_nil : roundedRuns [] = [] := by decide

theorem restCells_eq (w : Nat) (rows : List (List Bool)) : ∀ (sfx : List (List Bool)) (y : Nat), rows.drop y = sfx →
    restCells w y (roundedRuns (prevRow rows y)) (sfx.map roundedRuns) =
      (List.range' y (sfx.length + 1)).flatMap (mixedLine w rows)
  | [], y, hs => by
    have hlen : rows.length ≤ y := List.drop_eq_nil_iff.1 hs
    have : prevRow rows (y + 1) = [] := by
      rw [prevRow_succ, List.getD_eq_getElem?_getD, List.getElem?_eq_none_iff.2 hlen]; rfl
    simp only [List.map_nil, restCells, List.length_nil, Nat.zero_add, List.range'_one, List.flatMap_cons,
      List.flatMap_nil, List.append_nil]
    rw [mixedLine_eq, this, roundedRuns_nil]
  | r :: rest, y, hs => by
    have hr : prevRow rows (y + 1) = r := by
      rw [prevRow_succ, List.getD_eq_getElem?_getD, ← List.head?_drop, hs]; rfl
    have ih := restCells_eq w rows rest (y + 1) (drop_succ_of_drop_eq_cons hs)
    rw [hr] at ih
    rw [List.length_cons, List.range'_succ, List.flatMap_cons, List.map_cons, restCells, ih, mixedLine_eq, hr]

end ScanLemmas
