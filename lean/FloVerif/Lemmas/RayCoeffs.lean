/-
Helper lemma for C14: the normalised coefficients the side test works with (`Line2D::coefficients`, i.e.
`line_coefficients_2d`) and the unnormalised ones `curve_intersects_ray` computes for itself describe the same line:
the two signed distances differ by a non-zero constant factor.
-/
import FloVerif.Props.C04
import FloVerif.Lemmas.RaySide

set_option linter.unusedSectionVars false
set_option linter.unusedVariables false
namespace RayCoeffs
open Prelude Gen C04 RaySide FatLineLemmas

variable {K : Type} [Field K] [LinearOrder K] [IsStrictOrderedRing K] [Inhabited K] [FSqrt K] [FConsts K]

local instance : FAbs K := ⟨fun a => |a|⟩
local instance : FSignum K := ⟨fun a => if a < 0 then -1 else 1⟩
local instance : OfInt K := ⟨fun n => (n : K)⟩

/-- the unnormalised coefficients of `line_coefficients_2d_unnormalized` are a non-zero multiple of `(lineA, lineB, lineC)` -/
theorem unnormalized_proportional (l : T2 (V2 K) (V2 K)) (hne : lineA l ≠ 0 ∨ lineB l ≠ 0) :
    ∃ k : K, k ≠ 0 ∧ line_coefficients_2d_unnormalized l = T3.mk (k * lineA l) (k * lineB l) (k * lineC l) := by
  have h0 : (0.0 : K) = 0 := by norm_num
  have h1 : (1.0 : K) = 1 := by norm_num
  have hpt : ¬ ((l.t1.x - l.t0.x == 0) && (l.t1.y - l.t0.y == 0)) = true := by
    simp only [Bool.and_eq_true, beq_iff_eq, not_and]
    intro hx hy
    rcases hne with h | h
    · exact h (by simp only [lineA]; exact hy)
    · exact h (by simp only [lineB]; linarith)
  simp only [line_coefficients_2d_unnormalized, V2_sub_x, V2_sub_y, h0, h1, fabs, hpt, Bool.false_eq_true, if_false]
  by_cases hc : |l.t1.x - l.t0.x| > |l.t1.y - l.t0.y|
  · have hdx : l.t1.x - l.t0.x ≠ 0 := abs_pos.1 (lt_of_le_of_lt (abs_nonneg _) hc)
    simp only [hc, decide_true, if_true]
    by_cases hs : l.t1.x - l.t0.x > 0
    · refine ⟨-(1 / (l.t1.x - l.t0.x)), by simp [hdx], ?_⟩
      simp only [hs, decide_true, if_true, lineA, lineB, lineC, T3.mk.injEq]
      refine ⟨?_, ?_, ?_⟩ <;> field_simp <;> ring
    · refine ⟨1 / (l.t1.x - l.t0.x), by simp [hdx], ?_⟩
      simp only [hs, decide_false, Bool.false_eq_true, if_false, lineA, lineB, lineC, T3.mk.injEq]
      refine ⟨?_, ?_, ?_⟩ <;> field_simp <;> ring
  · simp only [hc, decide_false, Bool.false_eq_true, if_false]
    have hdy : l.t1.y - l.t0.y ≠ 0 := by
      intro e
      rw [e, abs_zero] at hc
      have hx0 : l.t1.x - l.t0.x = 0 := abs_eq_zero.1 (le_antisymm (not_lt.1 hc) (abs_nonneg _))
      apply hpt
      simp [hx0, e]
    by_cases hs : l.t1.y - l.t0.y > 0
    · refine ⟨1 / (l.t1.y - l.t0.y), by simp [hdy], ?_⟩
      simp only [hs, decide_true, if_true, lineA, lineB, lineC, T3.mk.injEq]
      refine ⟨?_, ?_, ?_⟩ <;> field_simp <;> ring
    · refine ⟨-(1 / (l.t1.y - l.t0.y)), by simp [hdy], ?_⟩
      simp only [hs, decide_false, Bool.false_eq_true, if_false, lineA, lineB, lineC, T3.mk.injEq]
      refine ⟨?_, ?_, ?_⟩ <;> field_simp <;> ring

/-- the normalisation factor `line_coefficients_2d` divides by -/
def normFactor (l : T2 (V2 K) (V2 K)) : K :=
  fsqrt ((line_coefficients_2d_unnormalized l).t0 * (line_coefficients_2d_unnormalized l).t0 +
    (line_coefficients_2d_unnormalized l).t1 * (line_coefficients_2d_unnormalized l).t1)

/-- the distance the side test measures is a non-zero multiple of the distance whose cubic the solver is given -/
theorem side_dist_proportional (l : T2 (V2 K) (V2 K)) (hne : lineA l ≠ 0 ∨ lineB l ≠ 0) (hf : normFactor l ≠ 0) :
    ∃ k : K, k ≠ 0 ∧ ∀ q : V2 K, sdist (line_coefficients_2d l) q = k * lineDist l q := by
  obtain ⟨k, hk, hu⟩ := unnormalized_proportional l hne
  have h0 : (0.0 : K) = 0 := by norm_num
  have hf' : ¬ (normFactor l == 0) = true := by simpa using hf
  refine ⟨k / normFactor l, div_ne_zero hk hf, ?_⟩
  intro q
  have : line_coefficients_2d l = T3.mk ((line_coefficients_2d_unnormalized l).t0 / normFactor l)
      ((line_coefficients_2d_unnormalized l).t1 / normFactor l) ((line_coefficients_2d_unnormalized l).t2 / normFactor l) := by
    simp only [line_coefficients_2d, h0]
    unfold normFactor at hf'
    simp only [hf', Bool.false_eq_true, if_false]
    rfl
  rw [this, hu]
  simp only [sdist, lineDist]
  field_simp

end RayCoeffs
