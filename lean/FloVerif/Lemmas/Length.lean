/-
Helper lemmas for C19 (arc length): a reusable loop-invariant rule and a measure rule for `iterFuel`, the section
geometry in blossom form (a `CurveSection`'s start / control / end points are the Bézier points of the restriction of
the cubic; `subsection(0, 0.5)` / `subsection(0.5, 1)` are its de Casteljau halves), the step function of the generated
`section_length` loop and what one iteration does to the stack.
-/
import FloVerif.Gen.Length
import Mathlib.Analysis.Normed.Module.Basic
import Mathlib.Tactic.Ring
import Mathlib.Tactic.NormNum.OfScientific
import Mathlib.Tactic.Linarith
import Mathlib.Tactic.Module
import Mathlib.Tactic.FieldSimp

set_option linter.unusedSectionVars false
set_option linter.unusedSimpArgs false
namespace LengthL
open Prelude Gen

/-! ### `iterFuel`: invariant rule and measure rule (reusable) -/

/-- LOOP INVARIANT RULE for the generated loops. If `Inv` holds of the initial state, every continuing iteration
    preserves it, every exit taken from inside the body (`Sum.inr`: `break`, `return`, `while` condition false) and the
    out-of-fuel exit produce a result satisfying `Post`, then `Post` holds of the loop's result - for every fuel and
    whichever way the loop ends. -/
theorem iterFuel_invariant {σ ρ : Type} (Inv : σ → Prop) (Post : ρ → Prop) (step : σ → Sum σ ρ) (fin : σ → ρ)
    (hcont : ∀ s s', Inv s → step s = Sum.inl s' → Inv s')
    (hexit : ∀ s r, Inv s → step s = Sum.inr r → Post r)
    (hfin : ∀ s, Inv s → Post (fin s)) :
    ∀ (fuel : Nat) (s : σ), Inv s → Post (iterFuel fuel step fin s) := by
  intro fuel
  induction fuel with
  | zero => intro s hs; exact hfin s hs
  | succ n ih =>
    intro s hs
    unfold iterFuel
    cases hst : step s with
    | inl s' => exact ih s' (hcont s s' hs hst)
    | inr r => exact hexit s r hs hst

/-- MEASURE RULE: if every continuing iteration strictly decreases a natural-number measure `μ` (as long as `Inv`
    holds), exits from inside the body satisfy `Post`, and a state of measure 0 satisfies `Post` when the fuel ends
    there, then any fuel `≥ μ s` makes the loop end in a `Post` state: the fuel is never what stops it. -/
theorem iterFuel_measure {σ ρ : Type} (Inv : σ → Prop) (μ : σ → Nat) (Post : ρ → Prop) (step : σ → Sum σ ρ) (fin : σ → ρ)
    (hcont : ∀ s s', Inv s → step s = Sum.inl s' → Inv s' ∧ μ s' < μ s)
    (hexit : ∀ s r, Inv s → step s = Sum.inr r → Post r)
    (hfin : ∀ s, Inv s → μ s = 0 → Post (fin s)) :
    ∀ (fuel : Nat) (s : σ), Inv s → μ s ≤ fuel → Post (iterFuel fuel step fin s) := by
  intro fuel
  induction fuel with
  | zero => intro s hs hm; exact hfin s hs (Nat.le_zero.1 hm)
  | succ n ih =>
    intro s hs hm
    unfold iterFuel
    cases hst : step s with
    | inl s' =>
      have h := hcont s s' hs hst
      exact ih s' h.1 (by omega)
    | inr r => exact hexit s r hs hst

/-! ### points of a real vector space as the code's `Coordinate` -/

/-- a point of the space, as the code's `Coordinate`: `+`, `-` and `p * k` (scalar multiplication) -/
structure Pt (E : Type) where
  v : E

section vec
variable {E : Type} [AddCommGroup E] [Module ℝ E]

instance : Add (Pt E) := ⟨fun a b => ⟨a.v + b.v⟩⟩
instance : Sub (Pt E) := ⟨fun a b => ⟨a.v - b.v⟩⟩
instance : HMul (Pt E) ℝ (Pt E) := ⟨fun a k => ⟨k • a.v⟩⟩

theorem Pt.ext' {a b : Pt E} (h : a.v = b.v) : a = b := by cases a; cases b; simp_all
@[simp] theorem add_v (a b : Pt E) : (a + b).v = a.v + b.v := rfl
@[simp] theorem sub_v (a b : Pt E) : (a - b).v = a.v - b.v := rfl
@[simp] theorem mul_v (a : Pt E) (k : ℝ) : (a * k).v = k • a.v := rfl

theorem T4.ext' {α β γ δ : Type} {x y : T4 α β γ δ} (h0 : x.t0 = y.t0) (h1 : x.t1 = y.t1) (h2 : x.t2 = y.t2)
    (h3 : x.t3 = y.t3) : x = y := by cases x; cases y; simp_all

theorem lit10 : (1.0 : ℝ) = 1 := by norm_num
theorem lit00 : (0.0 : ℝ) = 0 := by norm_num
theorem lit05 : (0.5 : ℝ) = 1/2 := by norm_num
theorem lit20 : (2.0 : ℝ) = 2 := by norm_num
theorem lit30 : (3.0 : ℝ) = 3 := by norm_num
theorem lit40 : (4.0 : ℝ) = 4 := by norm_num

/-- blossom (polar form) of the cubic with control points `w1 … w4`: symmetric, affine in each argument,
    `bl t t t` is the curve point at `t` -/
def bl (w1 w2 w3 w4 : E) (u v x : ℝ) : E :=
  ((1-u)*(1-v)*(1-x)) • w1 + (u*(1-v)*(1-x) + (1-u)*v*(1-x) + (1-u)*(1-v)*x) • w2
    + (u*v*(1-x) + u*(1-v)*x + (1-u)*v*x) • w3 + (u*v*x) • w4

/-- the four points (start, control 1, control 2, end) of a section exactly as `section_length` obtains them:
    `start_point()`, `control_points()`, `end_point()` of the `CurveSection` -/
noncomputable def secPts (w1 w2 w3 w4 : Pt E) (s : SectionT ℝ) : T4 (Pt E) (Pt E) (Pt E) (Pt E) :=
  T4.mk (section_start_point w1 w2 w3 w4 s) (section_control_points w1 w2 w3 w4 s).t0
    (section_control_points w1 w2 w3 w4 s).t1 (section_end_point w1 w2 w3 w4 s)

/-- a section `[a, a+m]` with `a < 1` (the branch of `control_points` that divides by `1 - t_c`): its four points
    are the blossom values `b(a,a,a), b(a,a,b), b(a,b,b), b(b,b,b)`, i.e. the Bézier points of the cubic restricted
    to `[a, b]` -/
theorem secPts_bl (w1 w2 w3 w4 : Pt E) (s : SectionT ℝ) (ha : s.t_c < 1) :
    secPts w1 w2 w3 w4 s = T4.mk ⟨bl w1.v w2.v w3.v w4.v s.t_c s.t_c s.t_c⟩
      ⟨bl w1.v w2.v w3.v w4.v s.t_c s.t_c (s.t_c + s.t_m)⟩
      ⟨bl w1.v w2.v w3.v w4.v s.t_c (s.t_c + s.t_m) (s.t_c + s.t_m)⟩
      ⟨bl w1.v w2.v w3.v w4.v (s.t_c + s.t_m) (s.t_c + s.t_m) (s.t_c + s.t_m)⟩ := by
  obtain ⟨a, m⟩ := s
  obtain ⟨w1⟩ := w1; obtain ⟨w2⟩ := w2; obtain ⟨w3⟩ := w3; obtain ⟨w4⟩ := w4
  simp only at ha
  have h1 : (1 : ℝ) - a ≠ 0 := by linarith
  obtain ⟨τ, rfl⟩ : ∃ τ, m = τ * (1 - a) := ⟨m / (1 - a), by field_simp⟩
  have hge : ¬ (a ≥ (1 : ℝ)) := not_le.2 ha
  simp only [secPts, section_control_points, section_start_point, section_end_point, section_t_for_t,
      curve_point_at_pos, de_casteljau2, basis, lit10, lit00, lit30, hge, decide_false, Bool.false_eq_true, if_false,
      mul_div_cancel_right₀ τ h1, T4.mk.injEq, bl]
  refine ⟨?_, ?_, ?_, ?_⟩ <;> apply Pt.ext' <;> simp only [add_v, mul_v] <;> module

/-- the sections that `curve_length` can ever hold: inside `[0,1]`-to-the-right (`t_c < 1`, `0 ≤ t_m`,
    `t_c + t_m ≤ 1`) - `section_new 0 1` and everything obtained from it by halving -/
def Valid (s : SectionT ℝ) : Prop := s.t_c < 1 ∧ 0 ≤ s.t_m ∧ s.t_c + s.t_m ≤ 1

theorem valid_whole : Valid (section_new (0.0 : ℝ) (1.0 : ℝ)) := by
  simp only [Valid, section_new, lit00, lit10]; norm_num

theorem sub_left_eq (s : SectionT ℝ) :
    section_subsection s (0.0 : ℝ) (0.5 : ℝ) = ⟨s.t_c, s.t_m / 2⟩ := by
  obtain ⟨a, m⟩ := s
  simp only [section_subsection, section_new, section_t_for_t, lit00, lit05, SectionT.mk.injEq]
  constructor <;> ring

theorem sub_right_eq (s : SectionT ℝ) :
    section_subsection s (0.5 : ℝ) (1.0 : ℝ) = ⟨s.t_c + s.t_m / 2, s.t_m / 2⟩ := by
  obtain ⟨a, m⟩ := s
  simp only [section_subsection, section_new, section_t_for_t, lit10, lit05, SectionT.mk.injEq]
  constructor <;> ring

theorem valid_left {s : SectionT ℝ} (h : Valid s) : Valid (section_subsection s (0.0 : ℝ) (0.5 : ℝ)) := by
  rw [sub_left_eq]; obtain ⟨h1, h2, h3⟩ := h; refine ⟨h1, ?_, ?_⟩ <;> simp only <;> linarith

theorem valid_right {s : SectionT ℝ} (h : Valid s) : Valid (section_subsection s (0.5 : ℝ) (1.0 : ℝ)) := by
  rw [sub_right_eq]; obtain ⟨h1, h2, h3⟩ := h; refine ⟨?_, ?_, ?_⟩ <;> simp only <;> linarith

/-- SPLIT = DE CASTELJAU: for a valid section, the points of `subsection(0, 0.5)` and `subsection(0.5, 1)` are exactly
    the two halves that the generated `subdivide4 0.5` makes of the section's own four points -/
theorem secPts_halves (w1 w2 w3 w4 : Pt E) (s : SectionT ℝ) (h : Valid s) :
    let c := secPts w1 w2 w3 w4 s
    secPts w1 w2 w3 w4 (section_subsection s (0.0 : ℝ) (0.5 : ℝ)) = (subdivide4 (0.5 : ℝ) c.t0 c.t1 c.t2 c.t3).t0 ∧
    secPts w1 w2 w3 w4 (section_subsection s (0.5 : ℝ) (1.0 : ℝ)) = (subdivide4 (0.5 : ℝ) c.t0 c.t1 c.t2 c.t3).t1 := by
  intro c
  have hl := valid_left h
  have hr := valid_right h
  have e0 : c = _ := secPts_bl w1 w2 w3 w4 s h.1
  rw [secPts_bl w1 w2 w3 w4 _ hl.1, secPts_bl w1 w2 w3 w4 _ hr.1, e0, sub_left_eq, sub_right_eq]
  obtain ⟨a, m⟩ := s
  obtain ⟨w1⟩ := w1; obtain ⟨w2⟩ := w2; obtain ⟨w3⟩ := w3; obtain ⟨w4⟩ := w4
  refine ⟨T4.ext' ?_ ?_ ?_ ?_, T4.ext' ?_ ?_ ?_ ?_⟩ <;> apply Pt.ext' <;>
    simp only [subdivide4, de_casteljau2, lit10, lit05, bl, add_v, mul_v] <;> module

end vec

/-! ### the generated loop of `section_length`, one iteration at a time (any point type, any distance function) -/

section loop
variable {P : Type} [Add P] [Sub P] [HMul P ℝ P]

/-- state of the loop: `(total_length, waiting)`; the top of the stack is the LAST element of the list -/
abbrev St := T2 ℝ (List (T2 (SectionT ℝ) ℝ))

/-- `control_polygon_length(&section)` as `section_length` evaluates it -/
noncomputable def polyOf (dist : P → P → ℝ) (w1 w2 w3 w4 : P) (s : SectionT ℝ) : ℝ :=
  control_polygon_length dist (section_start_point w1 w2 w3 w4 s) (section_control_points w1 w2 w3 w4 s).t0
    (section_control_points w1 w2 w3 w4 s).t1 (section_end_point w1 w2 w3 w4 s)

/-- `chord_length(&section)` as `section_length` evaluates it -/
noncomputable def chordOf (dist : P → P → ℝ) (w1 w2 w3 w4 : P) (s : SectionT ℝ) : ℝ :=
  chord_length dist (section_start_point w1 w2 w3 w4 s) (section_control_points w1 w2 w3 w4 s).t0
    (section_control_points w1 w2 w3 w4 s).t1 (section_end_point w1 w2 w3 w4 s)

/-- the acceptance test `error < max_error || max_error <= MIN_ERROR` -/
def Accept (dist : P → P → ℝ) (w1 w2 w3 w4 : P) (s : SectionT ℝ) (e : ℝ) : Prop :=
  (polyOf dist w1 w2 w3 w4 s - chordOf dist w1 w2 w3 w4 s) * (polyOf dist w1 w2 w3 w4 s - chordOf dist w1 w2 w3 w4 s) < e
    ∨ e ≤ (1e-12 : ℝ)

/-- the value added for an accepted piece, `(2·chord + 2·polygon)/4` -/
noncomputable def estimateOf (dist : P → P → ℝ) (w1 w2 w3 w4 : P) (s : SectionT ℝ) : ℝ :=
  ((2.0 : ℝ) * chordOf dist w1 w2 w3 w4 s + (2.0 : ℝ) * polyOf dist w1 w2 w3 w4 s) / (4.0 : ℝ)

/-- the body of the generated `while let Some((section, max_error)) = waiting.pop()` loop, copied from
    `Gen.section_length`; `section_length_eq` below is checked by the kernel against the regenerated definition, so
    this copy cannot drift from the Rust source unnoticed -/
noncomputable def lengthStep (dist : P → P → ℝ) (w1 w2 w3 w4 : P) : St → Sum St St := fun st_1 =>
  let MIN_ERROR := (1e-12 : ℝ)
  let total_length := st_1.t0
  let waiting := st_1.t1
  (match (List.getLast? waiting) with
  | some popped_ =>
  let waiting := (List.dropLast waiting)
  let section_ := popped_.t0
  let max_error := popped_.t1
  let polygon_length := (control_polygon_length dist (section_start_point w1 w2 w3 w4 section_) (section_control_points w1 w2 w3 w4 section_).t0 (section_control_points w1 w2 w3 w4 section_).t1 (section_end_point w1 w2 w3 w4 section_))
  let chord_length := (chord_length dist (section_start_point w1 w2 w3 w4 section_) (section_control_points w1 w2 w3 w4 section_).t0 (section_control_points w1 w2 w3 w4 section_).t1 (section_end_point w1 w2 w3 w4 section_))
  let error := ((polygon_length - chord_length) * (polygon_length - chord_length))
  (if ((decide (error < max_error)) || (decide (max_error ≤ MIN_ERROR))) then
  let total_length := (total_length + ((((2.0 : ℝ) * chord_length) + ((2.0 : ℝ) * polygon_length)) / (4.0 : ℝ)))
  (Sum.inl (T2.mk total_length waiting))
  else
  let left := (section_subsection section_ (0.0 : ℝ) (0.5 : ℝ))
  let right := (section_subsection section_ (0.5 : ℝ) (1.0 : ℝ))
  let subsection_error := (max_error / (2.0 : ℝ))
  let waiting := (waiting ++ [(T2.mk left subsection_error)])
  let waiting := (waiting ++ [(T2.mk right subsection_error)])
  (Sum.inl (T2.mk total_length waiting)))
  | none =>
  (Sum.inr (T2.mk total_length waiting)))

/-- the state in which the generated loop of `section_length` ends when given `fuel` iterations -/
noncomputable def lengthLoop (fuel : Nat) (dist : P → P → ℝ) (w1 w2 w3 w4 : P) (s : SectionT ℝ) (e : ℝ) : St :=
  iterFuel fuel (lengthStep dist w1 w2 w3 w4) (fun st => st) (T2.mk (0.0 : ℝ) [T2.mk s e])

/-- TIE of the loop lemmas to the generated code: `Gen.section_length` IS the total of `lengthLoop` (by `rfl`:
    any change of the Rust loop breaks this line) -/
theorem section_length_eq (fuel : Nat) (dist : P → P → ℝ) (w1 w2 w3 w4 : P) (s : SectionT ℝ) (e : ℝ) :
    section_length fuel dist w1 w2 w3 w4 s e = (lengthLoop fuel dist w1 w2 w3 w4 s e).t0 := by
  unfold section_length lengthLoop lengthStep
  simp only []
  congr 2
  funext st
  cases h : st.t1.getLast? <;> rfl

/-- empty stack: the loop is left, state unchanged -/
theorem step_nil (dist : P → P → ℝ) (w1 w2 w3 w4 : P) (total : ℝ) :
    lengthStep dist w1 w2 w3 w4 (T2.mk total []) = Sum.inr (T2.mk total []) := rfl

/-- one iteration on a non-empty stack: the top piece is either accepted (its estimate is added, the piece is gone) or
    replaced by its two halves with half the tolerance (right half on top) -/
theorem step_concat (dist : P → P → ℝ) (w1 w2 w3 w4 : P) (total : ℝ) (rest : List (T2 (SectionT ℝ) ℝ))
    (s : SectionT ℝ) (e : ℝ) [Decidable (Accept dist w1 w2 w3 w4 s e)] :
    lengthStep dist w1 w2 w3 w4 (T2.mk total (rest ++ [T2.mk s e])) =
      if Accept dist w1 w2 w3 w4 s e then Sum.inl (T2.mk (total + estimateOf dist w1 w2 w3 w4 s) rest)
      else Sum.inl (T2.mk total (rest ++ [T2.mk (section_subsection s (0.0 : ℝ) (0.5 : ℝ)) (e / (2.0 : ℝ))]
              ++ [T2.mk (section_subsection s (0.5 : ℝ) (1.0 : ℝ)) (e / (2.0 : ℝ))])) := by
  simp only [lengthStep, List.getLast?_concat, List.dropLast_concat]
  by_cases h : Accept dist w1 w2 w3 w4 s e
  · have h' := h
    simp only [Accept, polyOf, chordOf] at h'
    simp only [if_pos h, estimateOf, polyOf, chordOf]
    rw [if_pos]
    simpa only [Bool.or_eq_true, decide_eq_true_eq] using h'
  · have h' := h
    simp only [Accept, polyOf, chordOf] at h'
    simp only [if_neg h]
    rw [if_neg]
    simpa only [Bool.or_eq_true, decide_eq_true_eq] using h'

end loop

/-! ### points of a real normed space: distance, the sums of the invariant, the whole section -/

section normed
variable {E : Type} [NormedAddCommGroup E] [NormedSpace ℝ E]

/-- `distance_to` -/
noncomputable def pdist (a b : Pt E) : ℝ := ‖a.v - b.v‖

/-- Σ over the stack of the control polygon lengths of the waiting pieces -/
noncomputable def sumPoly (w1 w2 w3 w4 : Pt E) (l : List (T2 (SectionT ℝ) ℝ)) : ℝ :=
  (l.map (fun x => polyOf pdist w1 w2 w3 w4 x.t0)).sum

/-- Σ over the stack of the chord lengths of the waiting pieces -/
noncomputable def sumChord (w1 w2 w3 w4 : Pt E) (l : List (T2 (SectionT ℝ) ℝ)) : ℝ :=
  (l.map (fun x => chordOf pdist w1 w2 w3 w4 x.t0)).sum

/-- the invariant of the `section_length` loop started on the section `s0`:
    every waiting section is valid,
    `U = total + Σ_waiting polygon ≤ polygon(s0)`, `L = total + Σ_waiting chord ≥ chord(s0)`, and `total ≥ 0` -/
def Inv (w1 w2 w3 w4 : Pt E) (s0 : SectionT ℝ) (st : St) : Prop :=
  (∀ x ∈ st.t1, Valid x.t0) ∧
  st.t0 + sumPoly w1 w2 w3 w4 st.t1 ≤ polyOf pdist w1 w2 w3 w4 s0 ∧
  chordOf pdist w1 w2 w3 w4 s0 ≤ st.t0 + sumChord w1 w2 w3 w4 st.t1 ∧
  0 ≤ st.t0

theorem polyOf_nonneg (w1 w2 w3 w4 : Pt E) (s : SectionT ℝ) : 0 ≤ polyOf pdist w1 w2 w3 w4 s := by
  simp only [polyOf, control_polygon_length, pdist]; positivity

theorem chordOf_nonneg (w1 w2 w3 w4 : Pt E) (s : SectionT ℝ) : 0 ≤ chordOf pdist w1 w2 w3 w4 s := by
  simp only [chordOf, chord_length, pdist]; positivity

theorem sumPoly_nonneg (w1 w2 w3 w4 : Pt E) (l : List (T2 (SectionT ℝ) ℝ)) : 0 ≤ sumPoly w1 w2 w3 w4 l := by
  unfold sumPoly
  apply List.sum_nonneg
  intro x hx
  obtain ⟨y, _, rfl⟩ := List.mem_map.1 hx
  exact polyOf_nonneg w1 w2 w3 w4 y.t0

/-- the section `[0,1]` that `curve_length` starts with has exactly the curve's own four points -/
theorem secPts_whole (w1 w2 w3 w4 : Pt E) :
    secPts w1 w2 w3 w4 (section_new (0.0 : ℝ) (1.0 : ℝ)) = T4.mk w1 w2 w3 w4 := by
  rw [secPts_bl w1 w2 w3 w4 _ valid_whole.1]
  obtain ⟨w1⟩ := w1; obtain ⟨w2⟩ := w2; obtain ⟨w3⟩ := w3; obtain ⟨w4⟩ := w4
  refine T4.ext' ?_ ?_ ?_ ?_ <;> apply Pt.ext' <;> simp only [section_new, lit00, lit10, bl] <;> module

theorem polyOf_whole (w1 w2 w3 w4 : Pt E) :
    polyOf pdist w1 w2 w3 w4 (section_new (0.0 : ℝ) (1.0 : ℝ)) = control_polygon_length pdist w1 w2 w3 w4 := by
  have h := secPts_whole w1 w2 w3 w4
  change control_polygon_length pdist (secPts w1 w2 w3 w4 _).t0 (secPts w1 w2 w3 w4 _).t1 (secPts w1 w2 w3 w4 _).t2
    (secPts w1 w2 w3 w4 _).t3 = _
  rw [h]

theorem chordOf_whole (w1 w2 w3 w4 : Pt E) :
    chordOf pdist w1 w2 w3 w4 (section_new (0.0 : ℝ) (1.0 : ℝ)) = chord_length pdist w1 w2 w3 w4 := by
  have h := secPts_whole w1 w2 w3 w4
  change chord_length pdist (secPts w1 w2 w3 w4 _).t0 (secPts w1 w2 w3 w4 _).t1 (secPts w1 w2 w3 w4 _).t2
    (secPts w1 w2 w3 w4 _).t3 = _
  rw [h]

/-- example curve for the non-vacuity checks: the 1-D cubic with control values 0, 3, −3, 0 has control polygon 12 … -/
theorem ex_poly : control_polygon_length pdist (⟨0⟩ : Pt ℝ) ⟨3⟩ ⟨-3⟩ ⟨0⟩ = 12 := by
  simp only [control_polygon_length, pdist, Real.norm_eq_abs]; norm_num [abs_of_nonneg, abs_of_nonpos]

/-- … and chord 0 -/
theorem ex_chord : chord_length pdist (⟨0⟩ : Pt ℝ) ⟨3⟩ ⟨-3⟩ ⟨0⟩ = 0 := by
  simp only [chord_length, pdist, Real.norm_eq_abs]; norm_num

end normed

section loop
variable {P : Type} [Add P] [Sub P] [HMul P ℝ P]

/-! ### levels of a tolerance: how many halvings until `max_error <= MIN_ERROR` -/

theorem exists_level (e : ℝ) : ∃ n : Nat, e ≤ (1e-12 : ℝ) * 2 ^ n := by
  obtain ⟨n, hn⟩ := pow_unbounded_of_one_lt (e / (1e-12 : ℝ)) (one_lt_two : (1 : ℝ) < 2)
  refine ⟨n, ?_⟩
  have hpos : (0 : ℝ) < 1e-12 := by norm_num
  have := (div_lt_iff₀ hpos).1 hn
  linarith

/-- the least `n` with `e ≤ MIN_ERROR · 2ⁿ`: after `n` halvings a tolerance `e` is at or below the floor -/
noncomputable def lvl (e : ℝ) : Nat := by
  classical exact Nat.find (exists_level e)

theorem lvl_spec (e : ℝ) : e ≤ (1e-12 : ℝ) * 2 ^ lvl e := by
  classical exact Nat.find_spec (exists_level e)

theorem lvl_le {e : ℝ} {n : Nat} (h : e ≤ (1e-12 : ℝ) * 2 ^ n) : lvl e ≤ n := by
  classical exact Nat.find_min' (exists_level e) h

/-- above the floor, halving the tolerance lowers its level by at least one -/
theorem lvl_half {e : ℝ} (h : ¬ e ≤ (1e-12 : ℝ)) : lvl (e / (2.0 : ℝ)) + 1 ≤ lvl e := by
  have hs := lvl_spec e
  cases hk : lvl e with
  | zero => rw [hk] at hs; exact absurd (by simpa using hs) h
  | succ j =>
    rw [hk] at hs
    have : lvl (e / (2.0 : ℝ)) ≤ j := by
      apply lvl_le
      rw [lit20]
      rw [pow_succ] at hs
      linarith
    omega

/-- work still to do for a stack: `Σ (2^(lvl e + 1) - 1)` over the waiting pieces - the size of the full binary tree
    below each of them -/
noncomputable def work (l : List (T2 (SectionT ℝ) ℝ)) : Nat :=
  (l.map (fun x => 2 ^ (lvl x.t1 + 1) - 1)).sum

theorem work_append (l m : List (T2 (SectionT ℝ) ℝ)) : work (l ++ m) = work l + work m := by
  simp [work, List.map_append, List.sum_append]

theorem work_single (x : T2 (SectionT ℝ) ℝ) : work [x] = 2 ^ (lvl x.t1 + 1) - 1 := by simp [work]

theorem work_eq_zero {l : List (T2 (SectionT ℝ) ℝ)} (h : work l = 0) : l = [] := by
  cases l with
  | nil => rfl
  | cons x xs =>
    have h1 : 1 ≤ 2 ^ (lvl x.t1 + 1) - 1 := by
      have : 2 ≤ 2 ^ (lvl x.t1 + 1) := by
        calc 2 = 2 ^ 1 := rfl
          _ ≤ 2 ^ (lvl x.t1 + 1) := Nat.pow_le_pow_right (by norm_num) (by omega)
      omega
    simp [work] at h
    omega

/-- EVERY CONTINUING ITERATION DOES AT LEAST ONE UNIT OF THE WORK: the potential `work(waiting)` strictly decreases
    (accepted piece: its whole subtree is gone; split piece: two subtrees one level lower, `2·(2^k − 1) < 2^(k+1) − 1`).
    Holds for any point type and any distance function: only the tolerances matter. -/
theorem step_work (dist : P → P → ℝ) (w1 w2 w3 w4 : P) (st st' : St)
    (h : lengthStep dist w1 w2 w3 w4 st = Sum.inl st') : work st'.t1 < work st.t1 := by
  obtain ⟨total, waiting⟩ := st
  rcases List.eq_nil_or_concat waiting with rfl | ⟨rest, ⟨s, e⟩, rfl⟩
  · rw [step_nil] at h; exact absurd h (by simp)
  · rw [List.concat_eq_append] at h ⊢
    classical
    rw [step_concat] at h
    have h2 : 2 ≤ 2 ^ (lvl e + 1) := by
      calc 2 = 2 ^ 1 := rfl
        _ ≤ 2 ^ (lvl e + 1) := Nat.pow_le_pow_right (by norm_num) (by omega)
    by_cases hacc : Accept dist w1 w2 w3 w4 s e
    · simp only [if_pos hacc, Sum.inl.injEq] at h
      subst h
      simp only [work_append, work_single]
      omega
    · simp only [if_neg hacc, Sum.inl.injEq] at h
      subst h
      have hne : ¬ e ≤ (1e-12 : ℝ) := fun hle => hacc (Or.inr hle)
      have hl := lvl_half hne
      have hp : 2 ^ (lvl (e / (2.0 : ℝ)) + 1) ≤ 2 ^ (lvl e) := Nat.pow_le_pow_right (by norm_num) hl
      have hq : 2 ^ (lvl e + 1) = 2 * 2 ^ (lvl e) := by rw [pow_succ]; ring
      have h1 : 1 ≤ 2 ^ (lvl (e / (2.0 : ℝ)) + 1) := Nat.one_le_two_pow
      simp only [work_append, work_single]
      omega

/-- the loop can only be left from inside (`Sum.inr`) with an empty stack, state unchanged -/
theorem step_exit (dist : P → P → ℝ) (w1 w2 w3 w4 : P) (st r : St)
    (h : lengthStep dist w1 w2 w3 w4 st = Sum.inr r) : r = st ∧ st.t1 = [] := by
  obtain ⟨total, waiting⟩ := st
  rcases List.eq_nil_or_concat waiting with rfl | ⟨rest, ⟨s, e⟩, rfl⟩
  · rw [step_nil] at h; exact ⟨(Sum.inr.inj h).symm, rfl⟩
  · rw [List.concat_eq_append] at h
    classical
    rw [step_concat] at h
    split at h <;> exact absurd h (by simp)

/-- once the loop has ended with an empty stack, more fuel changes nothing -/
theorem iterFuel_stable {σ : Type} (step : σ → Sum σ σ) :
    ∀ (n : Nat) (s : σ), step (iterFuel n step (fun x => x) s) = Sum.inr (iterFuel n step (fun x => x) s) →
      ∀ k, iterFuel (n + k) step (fun x => x) s = iterFuel n step (fun x => x) s := by
  intro n
  induction n with
  | zero =>
    intro s h k
    simp only [iterFuel] at h
    cases k with
    | zero => rfl
    | succ k => simp only [Nat.zero_add, iterFuel, h]
  | succ n ih =>
    intro s h k
    have e1 : n + 1 + k = (n + k) + 1 := by omega
    rw [e1]
    unfold iterFuel at h ⊢
    cases hst : step s with
    | inl s' => simp only [hst] at h ⊢; exact ih s' h k
    | inr r => simp only [hst]

/-! ### stack discipline: the piece at height `i` of the stack has tolerance at most `e / 2^i` -/

/-- every piece of the list, the `k`-th counted from `i`, has tolerance `≤ e / 2^(i+k)` -/
def TolOK (e : ℝ) : Nat → List (T2 (SectionT ℝ) ℝ) → Prop
  | _, [] => True
  | i, x :: xs => x.t1 ≤ e / 2 ^ i ∧ TolOK e (i + 1) xs

theorem tolOK_append (e : ℝ) : ∀ (l m : List (T2 (SectionT ℝ) ℝ)) (i : Nat),
    TolOK e i (l ++ m) ↔ TolOK e i l ∧ TolOK e (i + l.length) m := by
  intro l
  induction l with
  | nil => intro m i; simp [TolOK]
  | cons x xs ih =>
    intro m i
    simp only [List.cons_append, TolOK, ih, List.length_cons, and_assoc]
    have : i + 1 + xs.length = i + (xs.length + 1) := by omega
    rw [this]

/-! ### the stack loop computes the recursion -/

open Classical in
/-- the recursion that the explicit stack unfolds (Graphics Gems V IV.7): accept the piece, or add the lengths of
    the two halves at half the tolerance; `n` = levels still allowed (never the limiting factor once `lvl e ≤ n`) -/
noncomputable def recLen (dist : P → P → ℝ) (w1 w2 w3 w4 : P) : Nat → SectionT ℝ → ℝ → ℝ
  | 0, s, _ => estimateOf dist w1 w2 w3 w4 s
  | n + 1, s, e =>
    if Accept dist w1 w2 w3 w4 s e then estimateOf dist w1 w2 w3 w4 s
    else recLen dist w1 w2 w3 w4 n (section_subsection s (0.0 : ℝ) (0.5 : ℝ)) (e / (2.0 : ℝ)) +
         recLen dist w1 w2 w3 w4 n (section_subsection s (0.5 : ℝ) (1.0 : ℝ)) (e / (2.0 : ℝ))

theorem iterFuel_succ_inl {σ ρ : Type} (step : σ → Sum σ ρ) (fin : σ → ρ) (n : Nat) (s s' : σ)
    (h : step s = Sum.inl s') : iterFuel (n + 1) step fin s = iterFuel n step fin s' := by
  simp only [iterFuel, h]

/-- with an empty stack the loop is over, whatever fuel is left -/
theorem iterFuel_nil (dist : P → P → ℝ) (w1 w2 w3 w4 : P) (t : ℝ) (j : Nat) :
    iterFuel j (lengthStep dist w1 w2 w3 w4) (fun x => x) (T2.mk t []) = T2.mk t [] := by
  cases j with
  | zero => rfl
  | succ j => simp only [iterFuel, step_nil]

/-- STACK DISCIPLINE: started with a piece `(s, e)` on top of any stack `rest`, the loop spends some `k ≤ 2^(n+1) − 1`
    iterations (`n ≥ lvl e`) after which the piece is gone, `rest` is untouched and the total has grown by exactly
    `recLen n s e` -/
theorem loop_runs_rec (dist : P → P → ℝ) (w1 w2 w3 w4 : P) :
    ∀ (n : Nat) (s : SectionT ℝ) (e : ℝ), lvl e ≤ n →
      ∃ k : Nat, k ≤ 2 ^ (n + 1) - 1 ∧ ∀ (total : ℝ) (rest : List (T2 (SectionT ℝ) ℝ)) (j : Nat),
        iterFuel (k + j) (lengthStep dist w1 w2 w3 w4) (fun x => x) (T2.mk total (rest ++ [T2.mk s e]))
          = iterFuel j (lengthStep dist w1 w2 w3 w4) (fun x => x) (T2.mk (total + recLen dist w1 w2 w3 w4 n s e) rest) := by
  classical
  intro n
  induction n with
  | zero =>
    intro s e hl
    have hle : e ≤ (1e-12 : ℝ) := by
      have := lvl_spec e
      rw [Nat.le_zero.1 hl] at this
      simpa using this
    have hacc : Accept dist w1 w2 w3 w4 s e := Or.inr hle
    refine ⟨1, by norm_num, fun total rest j => ?_⟩
    rw [Nat.add_comm 1 j]
    exact iterFuel_succ_inl _ _ j _ _ (by rw [step_concat, if_pos hacc]; rfl)
  | succ n ih =>
    intro s e hl
    by_cases hacc : Accept dist w1 w2 w3 w4 s e
    · refine ⟨1, ?_, fun total rest j => ?_⟩
      · have : 2 ≤ 2 ^ (n + 1 + 1) := by
          calc 2 = 2 ^ 1 := rfl
            _ ≤ 2 ^ (n + 1 + 1) := Nat.pow_le_pow_right (by norm_num) (by omega)
        omega
      · rw [Nat.add_comm 1 j]
        refine iterFuel_succ_inl _ _ j _ _ ?_
        rw [step_concat, if_pos hacc]
        simp only [recLen, if_pos hacc]
    · have hne : ¬ e ≤ (1e-12 : ℝ) := fun hle => hacc (Or.inr hle)
      have hl2 : lvl (e / (2.0 : ℝ)) ≤ n := by have := lvl_half hne; omega
      obtain ⟨kr, hkr, hr⟩ := ih (section_subsection s (0.5 : ℝ) (1.0 : ℝ)) (e / (2.0 : ℝ)) hl2
      obtain ⟨kl, hkl, hlft⟩ := ih (section_subsection s (0.0 : ℝ) (0.5 : ℝ)) (e / (2.0 : ℝ)) hl2
      refine ⟨1 + kr + kl, ?_, fun total rest j => ?_⟩
      · have : 2 ^ (n + 1 + 1) = 2 * 2 ^ (n + 1) := by rw [pow_succ]; ring
        have : 1 ≤ 2 ^ (n + 1) := Nat.one_le_two_pow
        omega
      · have e1 : 1 + kr + kl + j = (kr + (kl + j)) + 1 := by omega
        rw [e1, iterFuel_succ_inl _ _ _ _ _ (by rw [step_concat, if_neg hacc]), hr, hlft]
        congr 2
        simp only [recLen, if_neg hacc]
        ring

/-- THE STACK LOOP IS THE RECURSION: with `e ≤ MIN_ERROR · 2^D` and fuel `≥ 2^(D+1) − 1`, `section_length` returns
    exactly `0.0 + recLen D s e` -/
theorem section_length_eq_rec (fuel D : Nat) (dist : P → P → ℝ) (w1 w2 w3 w4 : P) (s : SectionT ℝ) (e : ℝ)
    (hD : e ≤ (1e-12 : ℝ) * 2 ^ D) (hf : 2 ^ (D + 1) - 1 ≤ fuel) :
    section_length fuel dist w1 w2 w3 w4 s e = recLen dist w1 w2 w3 w4 D s e := by
  obtain ⟨k, hk, hrun⟩ := loop_runs_rec dist w1 w2 w3 w4 D s e (lvl_le hD)
  have e1 : fuel = k + (fuel - k) := by omega
  have h := hrun (0.0 : ℝ) [] (fuel - k)
  rw [← e1, iterFuel_nil] at h
  rw [section_length_eq]
  show (iterFuel fuel (lengthStep dist w1 w2 w3 w4) (fun st => st) (T2.mk (0.0 : ℝ) ([] ++ [T2.mk s e]))).t0 = _
  rw [h]
  simp only [lit00, zero_add]

end loop
/-! ### reversal: a section of the reversed curve is the mirrored section of the curve -/

section reversal
variable {E : Type} [NormedAddCommGroup E] [NormedSpace ℝ E]

/-- `[a, a+m]` of the reversed curve covers `[1-a-m, 1-a]` of the curve -/
def mirror (s : SectionT ℝ) : SectionT ℝ := ⟨1 - s.t_c - s.t_m, s.t_m⟩

/-- sections of positive width inside `[0,1]`: `section_new 0 1` and all its dyadic pieces -/
def Inner (s : SectionT ℝ) : Prop := 0 ≤ s.t_c ∧ 0 < s.t_m ∧ s.t_c + s.t_m ≤ 1

theorem Inner.valid {s : SectionT ℝ} (h : Inner s) : Valid s := by
  obtain ⟨h1, h2, h3⟩ := h; exact ⟨by linarith, h2.le, h3⟩

theorem Inner.mirror {s : SectionT ℝ} (h : Inner s) : Inner (mirror s) := by
  obtain ⟨h1, h2, h3⟩ := h; refine ⟨?_, ?_, ?_⟩ <;> simp only [LengthL.mirror] <;> linarith

theorem inner_whole : Inner (section_new (0.0 : ℝ) (1.0 : ℝ)) := by
  simp only [Inner, section_new, lit00, lit10]; norm_num

theorem inner_left {s : SectionT ℝ} (h : Inner s) : Inner (section_subsection s (0.0 : ℝ) (0.5 : ℝ)) := by
  rw [sub_left_eq]; obtain ⟨h1, h2, h3⟩ := h; refine ⟨h1, ?_, ?_⟩ <;> simp only <;> linarith

theorem inner_right {s : SectionT ℝ} (h : Inner s) : Inner (section_subsection s (0.5 : ℝ) (1.0 : ℝ)) := by
  rw [sub_right_eq]; obtain ⟨h1, h2, h3⟩ := h; refine ⟨?_, ?_, ?_⟩ <;> simp only <;> linarith

theorem mirror_whole : mirror (section_new (0.0 : ℝ) (1.0 : ℝ)) = section_new (0.0 : ℝ) (1.0 : ℝ) := by
  simp only [mirror, section_new, lit00, lit10, SectionT.mk.injEq]; norm_num

theorem mirror_left (s : SectionT ℝ) :
    mirror (section_subsection s (0.0 : ℝ) (0.5 : ℝ)) = section_subsection (mirror s) (0.5 : ℝ) (1.0 : ℝ) := by
  rw [sub_left_eq, sub_right_eq]; simp only [mirror]; congr 1; ring

theorem mirror_right (s : SectionT ℝ) :
    mirror (section_subsection s (0.5 : ℝ) (1.0 : ℝ)) = section_subsection (mirror s) (0.0 : ℝ) (0.5 : ℝ) := by
  rw [sub_left_eq, sub_right_eq]; simp only [mirror]; congr 1; ring

/-- the points of a section of the reversed curve are the points of the mirrored section, in reverse order -/
theorem secPts_reverse (w1 w2 w3 w4 : Pt E) (s : SectionT ℝ) (h : Inner s) :
    secPts w4 w3 w2 w1 s = T4.mk (secPts w1 w2 w3 w4 (mirror s)).t3 (secPts w1 w2 w3 w4 (mirror s)).t2
      (secPts w1 w2 w3 w4 (mirror s)).t1 (secPts w1 w2 w3 w4 (mirror s)).t0 := by
  rw [secPts_bl w4 w3 w2 w1 s h.valid.1, secPts_bl w1 w2 w3 w4 (mirror s) h.mirror.valid.1]
  obtain ⟨a, m⟩ := s
  obtain ⟨w1⟩ := w1; obtain ⟨w2⟩ := w2; obtain ⟨w3⟩ := w3; obtain ⟨w4⟩ := w4
  refine T4.ext' ?_ ?_ ?_ ?_ <;> apply Pt.ext' <;> simp only [mirror, bl] <;> module

theorem polyOf_reverse (w1 w2 w3 w4 : Pt E) (s : SectionT ℝ) (h : Inner s) :
    polyOf pdist w4 w3 w2 w1 s = polyOf pdist w1 w2 w3 w4 (mirror s) := by
  have hr := secPts_reverse w1 w2 w3 w4 s h
  change control_polygon_length pdist (secPts w4 w3 w2 w1 s).t0 (secPts w4 w3 w2 w1 s).t1 (secPts w4 w3 w2 w1 s).t2
    (secPts w4 w3 w2 w1 s).t3 = control_polygon_length pdist (secPts w1 w2 w3 w4 (mirror s)).t0
      (secPts w1 w2 w3 w4 (mirror s)).t1 (secPts w1 w2 w3 w4 (mirror s)).t2 (secPts w1 w2 w3 w4 (mirror s)).t3
  rw [hr]
  simp only [control_polygon_length, pdist]
  generalize secPts w1 w2 w3 w4 (mirror s) = X
  rw [norm_sub_rev X.t3.v X.t2.v, norm_sub_rev X.t2.v X.t1.v, norm_sub_rev X.t1.v X.t0.v]
  ring

theorem chordOf_reverse (w1 w2 w3 w4 : Pt E) (s : SectionT ℝ) (h : Inner s) :
    chordOf pdist w4 w3 w2 w1 s = chordOf pdist w1 w2 w3 w4 (mirror s) := by
  have hr := secPts_reverse w1 w2 w3 w4 s h
  change chord_length pdist (secPts w4 w3 w2 w1 s).t0 (secPts w4 w3 w2 w1 s).t1 (secPts w4 w3 w2 w1 s).t2
    (secPts w4 w3 w2 w1 s).t3 = chord_length pdist (secPts w1 w2 w3 w4 (mirror s)).t0
      (secPts w1 w2 w3 w4 (mirror s)).t1 (secPts w1 w2 w3 w4 (mirror s)).t2 (secPts w1 w2 w3 w4 (mirror s)).t3
  rw [hr]
  simp only [chord_length, pdist]
  exact norm_sub_rev _ _

/-- the recursion on the reversed curve is the recursion on the curve, mirrored (the two halves swap) -/
theorem recLen_reverse (w1 w2 w3 w4 : Pt E) :
    ∀ (n : Nat) (s : SectionT ℝ) (e : ℝ), Inner s →
      recLen pdist w4 w3 w2 w1 n s e = recLen pdist w1 w2 w3 w4 n (mirror s) e := by
  intro n
  induction n with
  | zero =>
    intro s e h
    simp only [recLen, estimateOf, polyOf_reverse w1 w2 w3 w4 s h, chordOf_reverse w1 w2 w3 w4 s h]
  | succ n ih =>
    intro s e h
    have hacc : Accept pdist w4 w3 w2 w1 s e ↔ Accept pdist w1 w2 w3 w4 (mirror s) e := by
      simp only [Accept, polyOf_reverse w1 w2 w3 w4 s h, chordOf_reverse w1 w2 w3 w4 s h]
    by_cases ha : Accept pdist w1 w2 w3 w4 (mirror s) e
    · simp only [recLen, if_pos ha, if_pos (hacc.2 ha), estimateOf, polyOf_reverse w1 w2 w3 w4 s h,
        chordOf_reverse w1 w2 w3 w4 s h]
    · simp only [recLen, if_neg ha, if_neg (fun hh => ha (hacc.1 hh))]
      rw [ih _ _ (inner_left h), ih _ _ (inner_right h), mirror_left, mirror_right, add_comm]

end reversal

end LengthL
