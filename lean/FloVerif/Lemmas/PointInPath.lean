/-
Helper definitions and lemmas for C07 (`path_contains_point`): what the counting loop computes, the direction test,
behaviour under re-indexing / reversal of the collision list, and the combinatorial winding number of a closed
polygon (signed crossings of a ray) with its independence of the ray.
-/
import FloVerif.Gen.PointInPath
import Mathlib.Tactic.Ring
import Mathlib.Tactic.NormNum.OfScientific
import Mathlib.Tactic.Linarith
import Mathlib.Tactic.FieldSimp
import Mathlib.Tactic.LinearCombination
import Mathlib.Algebra.Order.Field.Basic
import Mathlib.Data.List.Rotate
import Mathlib.Algebra.BigOperators.Group.List.Basic
import Mathlib.Analysis.Calculus.Deriv.Pow
import Mathlib.Analysis.Calculus.Deriv.Add
import Mathlib.Analysis.Calculus.Deriv.Mul

set_option linter.unusedSectionVars false
namespace PIP
open Prelude Gen

/-- `x as i32` is only ever applied to the result of `signum`: all that is used about it -/
class I32Spec (K : Type) [One K] [Neg K] [FToI32 K] : Prop where
  one : toInt_i32 (1 : K) = 1
  neg_one : toInt_i32 (-1 : K) = -1

/-- `f64::signum` on an ordered field (no NaN, no negative zero): `signum 0 = 1` as for `+0.0` -/
scoped instance signumInst {K : Type} [Field K] [LinearOrder K] : FSignum K := ⟨fun x => if x < 0 then -1 else 1⟩
scoped instance absInst {K : Type} [Field K] [LinearOrder K] : FAbs K := ⟨fun a => |a|⟩
scoped instance ofIntInst {K : Type} [Field K] : OfInt K := ⟨fun z => (z : K)⟩

/-! ### the loop -/

section Loop
variable {α : Type}

/-- a `for` loop that adds `f x` until the first element with `stop x` -/
theorem foldlBrk_sum (stop : α → Bool) (f : α → Int) (l : List α) (s : Int) :
    foldlBrk l s (fun st it => if stop it then Sum.inr st else Sum.inl (st + f it)) =
      s + ((l.takeWhile (fun x => !stop x)).map f).sum := by
  induction l generalizing s with
  | nil => simp [foldlBrk]
  | cons x xs ih =>
    by_cases h : stop x
    · simp [foldlBrk, h]
    · simp [foldlBrk, h, ih, add_assoc]

end Loop

variable {K : Type} [Field K] [LinearOrder K] [IsStrictOrderedRing K] [Inhabited K] [FSqrt K] [FConsts K] [FToI32 K]

abbrev Curve (K : Type) := T4 (V2 K) (V2 K) (V2 K) (V2 K)
abbrev Coll (K : Type) := T4 Nat K K (V2 K)

/-- the ray of `path_contains_point`: from just beyond the maximum corner of the bounding box to the point -/
def rayOf (bounds : T2 (V2 K) (V2 K)) (point : V2 K) : T2 (V2 K) (V2 K) :=
  T2.mk (bounds.t1 + V2.mk (0.01 : K) (0.01 : K)) point

/-- the bounds test at the start of `path_contains_point` -/
def outsideBox (bounds : T2 (V2 K) (V2 K)) (point : V2 K) : Prop :=
  bounds.t0.x > point.x ∨ bounds.t1.x < point.x ∨ bounds.t0.y > point.y ∨ bounds.t1.y < point.y

instance (bounds : T2 (V2 K) (V2 K)) (point : V2 K) : Decidable (outsideBox bounds point) := by
  unfold outsideBox; infer_instance

/-- the curve a collision refers to -/
def curveOf (curves : List (Curve K)) (c : Coll K) : Curve K := listGet curves c.t0

/-- the normal the loop computes for a collision -/
def normalOf (curves : List (Curve K)) (c : Coll K) : V2 K :=
  normal_at_pos (curveOf curves c).t0 (curveOf curves c).t1 (curveOf curves c).t2 (curveOf curves c).t3 c.t1

/-- the summand of one collision: `ray_direction.dot(&normal).signum() as i32` -/
def dirOf (curves : List (Curve K)) (rd : V2 K) (c : Coll K) : Int :=
  toInt_i32 (fsignum (dot rd (normalOf curves c)))

/-- the collisions the loop reaches: those before the first one with `line_t > 1.0` -/
def counted (l : List (Coll K)) : List (Coll K) := l.takeWhile (fun c => !decide (c.t2 > (1.0 : K)))

/-- the total of the loop -/
def signedSum (curves : List (Curve K)) (rd : V2 K) (l : List (Coll K)) : Int :=
  ((counted l).map (dirOf curves rd)).sum

theorem bne_zero_eq_decide (x : Int) : (x != 0) = decide (x ≠ 0) := by
  by_cases hx : x = 0
  · subst hx; rfl
  · rw [decide_eq_true hx]; exact bne_iff_ne.2 hx

theorem loop_eq (curves : List (Curve K)) (rd : V2 K) (l : List (Coll K)) :
    foldlBrk l (0 : Int) (fun st it =>
        if decide (it.t2 > (1.0 : K)) then Sum.inr st
        else Sum.inl (st + toInt_i32 (fsignum (dot rd (normal_at_pos (listGet curves it.t0).t0 (listGet curves it.t0).t1
          (listGet curves it.t0).t2 (listGet curves it.t0).t3 it.t1))))) = signedSum curves rd l := by
  have := foldlBrk_sum (fun c : Coll K => decide (c.t2 > (1.0 : K))) (dirOf curves rd) l 0
  rw [zero_add] at this
  exact this

theorem contains_eq (rc : List (Curve K) → T2 (V2 K) (V2 K) → List (Coll K)) (bounds : T2 (V2 K) (V2 K))
    (curves : List (Curve K)) (point : V2 K) :
    path_contains_point rc bounds curves point =
      if outsideBox bounds point then false
      else decide (signedSum curves (point - (rayOf bounds point).t0) (rc curves (rayOf bounds point)) ≠ 0) := by
  unfold path_contains_point
  by_cases h : outsideBox bounds point
  · rw [if_pos h, if_pos]
    simpa [outsideBox, or_assoc] using h
  · rw [if_neg h, if_neg (by simpa [outsideBox, or_assoc] using h)]
    have := loop_eq curves (point - (rayOf bounds point).t0) (rc curves (rayOf bounds point))
    simp only [rayOf] at this ⊢
    rw [this]
    exact bne_zero_eq_decide _

/-! ### points -/

theorem V2.ext' {a b : V2 K} (hx : a.x = b.x) (hy : a.y = b.y) : a = b := by
  cases a; cases b; simp_all

@[simp] theorem add_x (a b : V2 K) : (a + b).x = a.x + b.x := rfl
@[simp] theorem add_y (a b : V2 K) : (a + b).y = a.y + b.y := rfl
@[simp] theorem sub_x (a b : V2 K) : (a - b).x = a.x - b.x := rfl
@[simp] theorem sub_y (a b : V2 K) : (a - b).y = a.y - b.y := rfl
@[simp] theorem mul_x (a : V2 K) (k : K) : (a * k).x = a.x * k := rfl
@[simp] theorem mul_y (a : V2 K) (k : K) : (a * k).y = a.y * k := rfl

theorem lit0 : (0.0 : K) = 0 := by norm_num
theorem lit1 : (1.0 : K) = 1 := by norm_num
theorem lit3 : (3.0 : K) = 3 := by norm_num
theorem lit001 : (0.01 : K) = 1 / 100 := by norm_num

/-- 2-D cross product -/
def cross (a b : V2 K) : K := a.x * b.y - a.y * b.x

/-- `Coordinate::dot` in 2-D -/
theorem dot_eq (a b : V2 K) : dot a b = a.x * b.x + a.y * b.y := by
  show ((0.0 : K) + a.x * b.x) + a.y * b.y = _
  rw [lit0, zero_add]

/-! ### the direction test -/

/-- the parameter at which `tangent_at_pos` / `normal_at_pos` evaluate: `0` and `1` are moved inwards by `f64::EPSILON` -/
def nudge (t : K) : K :=
  let t := if t == (0.0 : K) then (feps : K) else t
  if t == (1.0 : K) then (1.0 : K) - (feps : K) else t

theorem nudge_of_ne (t : K) (h0 : t ≠ 0) (h1 : t ≠ 1) : nudge t = t := by
  simp [nudge, lit0, lit1, h0, h1]

/-- the hodograph: the quadratic Bezier curve through the scaled differences of the control points -/
def hodograph (w1 w2 w3 w4 : V2 K) (s : K) : V2 K :=
  de_casteljau3 s ((w2 - w1) * (3.0 : K)) ((w3 - w2) * (3.0 : K)) ((w4 - w3) * (3.0 : K))

theorem tangent_at_pos_eq (w1 w2 w3 w4 : V2 K) (t : K) :
    tangent_at_pos w1 w2 w3 w4 t = hodograph w1 w2 w3 w4 (nudge t) := rfl

/-- the normal is the tangent turned by a quarter turn anticlockwise -/
theorem normal_at_pos_eq (w1 w2 w3 w4 : V2 K) (t : K) :
    normal_at_pos w1 w2 w3 w4 t = V2.mk (-(tangent_at_pos w1 w2 w3 w4 t).y) (tangent_at_pos w1 w2 w3 w4 t).x := by
  simp [normal_at_pos, tangent_at_pos, to_normal, listGet]

theorem dot_normal_eq_cross (w1 w2 w3 w4 rd : V2 K) (t : K) :
    dot rd (normal_at_pos w1 w2 w3 w4 t) = cross (tangent_at_pos w1 w2 w3 w4 t) rd := by
  rw [dot_eq, normal_at_pos_eq, cross]; ring

theorem fsignum_eq (x : K) : fsignum x = if x < 0 then (-1 : K) else 1 := rfl

theorem dir_eq [I32Spec K] (x : K) : toInt_i32 (fsignum x) = if x < 0 then (-1 : Int) else 1 := by
  rw [fsignum_eq]; split
  · exact I32Spec.neg_one
  · exact I32Spec.one

/-- the tangent the loop uses for a collision -/
def tangentOf (curves : List (Curve K)) (c : Coll K) : V2 K :=
  tangent_at_pos (curveOf curves c).t0 (curveOf curves c).t1 (curveOf curves c).t2 (curveOf curves c).t3 c.t1

theorem dirOf_eq [I32Spec K] (curves : List (Curve K)) (rd : V2 K) (c : Coll K) :
    dirOf curves rd c = if cross (tangentOf curves c) rd < 0 then (-1 : Int) else 1 := by
  rw [dirOf, normalOf, dot_normal_eq_cross, dir_eq]; rfl

/-! ### order of the collision list -/

/-- no collision the loop would count comes after one that stops it (true of every list sorted by `line_t`) -/
def StopClosed (l : List (Coll K)) : Prop := l.Pairwise (fun a b => a.t2 > (1.0 : K) → b.t2 > (1.0 : K))

theorem stopClosed_of_sorted {l : List (Coll K)} (h : l.Pairwise (fun a b => a.t2 ≤ b.t2)) : StopClosed l :=
  h.imp (fun hab ha => lt_of_lt_of_le ha hab)

theorem counted_eq_filter {l : List (Coll K)} (h : StopClosed l) :
    counted l = l.filter (fun c => !decide (c.t2 > (1.0 : K))) := by
  induction l with
  | nil => rfl
  | cons a l ih =>
    rw [StopClosed, List.pairwise_cons] at h
    by_cases ha : a.t2 > (1.0 : K)
    · have hnil : l.filter (fun c => !decide (c.t2 > (1.0 : K))) = [] := by
        rw [List.filter_eq_nil_iff]; intro b hb; simp [h.1 b hb ha]
      simp [counted, List.takeWhile, ha, hnil]
    · have := ih h.2
      simp only [counted] at this ⊢
      simp [List.takeWhile, ha, this]

theorem counted_subset (l : List (Coll K)) : ∀ c ∈ counted l, c ∈ l :=
  fun _ hc => (List.takeWhile_sublist _).subset hc

/-- the total only depends on the collisions as a multiset, as long as both orders are stop-closed -/
theorem signedSum_perm (curves : List (Curve K)) (rd : V2 K) {l l' : List (Coll K)} (h : l.Perm l')
    (hs : StopClosed l) (hs' : StopClosed l') : signedSum curves rd l = signedSum curves rd l' := by
  rw [signedSum, signedSum, counted_eq_filter hs, counted_eq_filter hs']
  exact ((h.filter _).map _).sum_eq

/-- re-labelling of the collisions that keeps their ray positions and their summands -/
theorem signedSum_map (curves curves' : List (Curve K)) (rd rd' : V2 K) (σ : Coll K → Coll K) (l : List (Coll K))
    (hσ : ∀ c, (σ c).t2 = c.t2) (hdir : ∀ c ∈ l, dirOf curves' rd' (σ c) = dirOf curves rd c) :
    signedSum curves' rd' (l.map σ) = signedSum curves rd l := by
  have hc : counted (l.map σ) = (counted l).map σ := by
    simp only [counted, List.takeWhile_map]
    congr 2
    funext c; simp [hσ c]
  rw [signedSum, signedSum, hc, List.map_map]
  congr 1
  apply List.map_congr_left
  intro c hc
  exact hdir c (counted_subset l c hc)

/-- every summand negated -/
theorem signedSum_map_neg (curves curves' : List (Curve K)) (rd rd' : V2 K) (σ : Coll K → Coll K) (l : List (Coll K))
    (hσ : ∀ c, (σ c).t2 = c.t2) (hdir : ∀ c ∈ counted l, dirOf curves' rd' (σ c) = - dirOf curves rd c) :
    signedSum curves' rd' (l.map σ) = - signedSum curves rd l := by
  have hc : counted (l.map σ) = (counted l).map σ := by
    simp only [counted, List.takeWhile_map]
    congr 2
    funext c; simp [hσ c]
  rw [signedSum, signedSum, hc, List.map_map]
  generalize counted l = m at hdir
  induction m with
  | nil => simp
  | cons a m ih =>
    simp only [List.map_cons, List.sum_cons, Function.comp]
    rw [hdir a (by simp), neg_add]
    congr 1
    exact ih (fun c hc => hdir c (by simp [hc]))

/-! ### another starting vertex -/

/-- the label of a collision after the path has been re-started at its `k`-th curve (`n` curves) -/
def rotColl (n k : Nat) (c : Coll K) : Coll K := T4.mk ((c.t0 + (n - k % n)) % n) c.t1 c.t2 c.t3

theorem listGet_of_lt {α : Type} [Inhabited α] (l : List α) (i : Nat) (h : i < l.length) : listGet l i = l[i] := by
  simp [listGet, h]

theorem rot_index (n k i : Nat) (hi : i < n) : ((i + (n - k % n)) % n + k) % n = i := by
  have hn : 0 < n := by omega
  have hr : k % n < n := Nat.mod_lt _ hn
  rw [Nat.add_mod, Nat.mod_mod, ← Nat.add_mod]
  have hk : k = n * (k / n) + k % n := (Nat.div_add_mod k n).symm
  have : i + (n - k % n) + k = i + n * (k / n + 1) := by
    rw [Nat.mul_add, Nat.mul_one]; omega
  rw [this, Nat.add_mul_mod_self_left, Nat.mod_eq_of_lt hi]

theorem listGet_rotate (curves : List (Curve K)) (k i : Nat) (hi : i < curves.length) :
    listGet (curves.rotate k) ((i + (curves.length - k % curves.length)) % curves.length) = listGet curves i := by
  have hn : 0 < curves.length := by omega
  have hj : (i + (curves.length - k % curves.length)) % curves.length < (curves.rotate k).length := by
    rw [List.length_rotate]; exact Nat.mod_lt _ hn
  rw [listGet_of_lt _ _ hj, listGet_of_lt _ _ hi, List.getElem_rotate]
  congr 1
  exact rot_index _ _ _ hi

theorem dirOf_rot (curves : List (Curve K)) (rd : V2 K) (k : Nat) (c : Coll K) (hi : c.t0 < curves.length) :
    dirOf (curves.rotate k) rd (rotColl curves.length k c) = dirOf curves rd c := by
  simp only [dirOf, normalOf, curveOf, rotColl, listGet_rotate curves k c.t0 hi]

/-! ### the other direction -/

/-- `BezierCurve::reverse` on a control point tuple -/
def revCurve (c : Curve K) : Curve K := curve_reverse c.t0 c.t1 c.t2 c.t3

/-- the curves of the reversed path: reversed order, each curve reversed -/
def reversePath (curves : List (Curve K)) : List (Curve K) := curves.reverse.map revCurve

/-- the label of a collision on the reversed path -/
def revColl (n : Nat) (c : Coll K) : Coll K := T4.mk (n - 1 - c.t0) ((1.0 : K) - c.t1) c.t2 c.t3

theorem nudge_one_sub (heps : (feps : K) ≠ 1) (t : K) : nudge ((1.0 : K) - t) = (1.0 : K) - nudge t := by
  have e1 : ∀ a b : K, (a == b) = decide (a = b) := fun a b => rfl
  by_cases h0 : t = 0
  · subst h0
    simp [nudge, lit0, lit1, heps]
  · by_cases h1 : t = 1
    · subst h1
      simp [nudge, lit0, lit1, heps]
    · have h0' : (1 : K) - t ≠ 0 := sub_ne_zero.2 (Ne.symm h1)
      have h1' : (1 : K) - t ≠ 1 := by intro h; apply h0; linarith
      simp [nudge, lit0, lit1, h0, h1, h0', h1']

theorem hodograph_rev (w1 w2 w3 w4 : V2 K) (s : K) :
    hodograph w4 w3 w2 w1 ((1.0 : K) - s) = V2.mk (-(hodograph w1 w2 w3 w4 s).x) (-(hodograph w1 w2 w3 w4 s).y) := by
  apply V2.ext' <;> simp [hodograph, de_casteljau3, de_casteljau2, lit1, lit3] <;> ring

theorem listGet_reversePath (curves : List (Curve K)) (i : Nat) (hi : i < curves.length) :
    listGet (reversePath curves) (curves.length - 1 - i) = revCurve (listGet curves i) := by
  have hj : curves.length - 1 - i < (reversePath curves).length := by simp [reversePath]; omega
  rw [listGet_of_lt _ _ hj, listGet_of_lt _ _ hi]
  simp only [reversePath, List.getElem_map, List.getElem_reverse]
  congr 2
  omega

theorem tangentOf_rev (heps : (feps : K) ≠ 1) (curves : List (Curve K)) (c : Coll K) (hi : c.t0 < curves.length) :
    tangentOf (reversePath curves) (revColl curves.length c) =
      V2.mk (-(tangentOf curves c).x) (-(tangentOf curves c).y) := by
  simp only [tangentOf, curveOf, revColl, listGet_reversePath curves c.t0 hi, tangent_at_pos_eq, revCurve, curve_reverse,
    nudge_one_sub heps, hodograph_rev]

theorem dirOf_rev [I32Spec K] (heps : (feps : K) ≠ 1) (curves : List (Curve K)) (rd : V2 K) (c : Coll K)
    (hi : c.t0 < curves.length) (hne : cross (tangentOf curves c) rd ≠ 0) :
    dirOf (reversePath curves) rd (revColl curves.length c) = - dirOf curves rd c := by
  rw [dirOf_eq, dirOf_eq, tangentOf_rev heps curves c hi]
  have : cross (V2.mk (-(tangentOf curves c).x) (-(tangentOf curves c).y)) rd = - cross (tangentOf curves c) rd := by
    simp only [cross]; ring
  rw [this]
  rcases lt_or_gt_of_ne hne with h | h
  · have h' : ¬ (-cross (tangentOf curves c) rd < 0) := by linarith
    simp [h, h']
  · have h' : (-cross (tangentOf curves c) rd < 0) := by linarith
    have h'' : ¬ (cross (tangentOf curves c) rd < 0) := by linarith
    simp [h', h'']

/-! ### winding number of a closed polygon by signed ray crossings -/

/-- signed crossing of the open ray `{l·d | l > 0}` from the origin by the segment from `a` to `b`:
    `+1` when the segment passes the ray anticlockwise, `-1` clockwise, `0` when it does not meet the ray
    (written with the sides `cross d a`, `cross d b` of the end points and the orientation `cross a b`) -/
def rayCross0 (d a b : V2 K) : Int :=
  if cross d a < 0 ∧ 0 < cross d b ∧ 0 < cross a b then 1
  else if cross d b < 0 ∧ 0 < cross d a ∧ cross a b < 0 then -1 else 0

/-- signed crossing of the ray from `p` in direction `d` by the segment from `a` to `b` -/
def rayCross (p d a b : V2 K) : Int := rayCross0 d (a - p) (b - p)

/-- the edges of the closed polygon with vertices `vs` (the last vertex is joined to the first) -/
def edges (vs : List (V2 K)) : List (V2 K × V2 K) := vs.zip (vs.rotate 1)

/-- winding number of the closed polygon about `p`, counted along the ray from `p` in direction `d` -/
def wind (p d : V2 K) (vs : List (V2 K)) : Int := ((edges vs).map (fun e => rayCross p d e.1 e.2)).sum

/-- `p` is not on the closed segment from `a` to `b` (both relative to `p`) -/
def OffSegment (a b : V2 K) : Prop := cross a b = 0 → 0 < dot a b

/-- signed crossing in terms of the sides of the end points (`x`, `x'`) and the orientation `g` of the segment -/
def rcS (x x' g : K) : Int := if x < 0 ∧ 0 < x' ∧ 0 < g then 1 else if x' < 0 ∧ 0 < x ∧ g < 0 then -1 else 0
/-- indicator of the sector anticlockwise from ray 1 to ray 2 -/
def indS (x y : K) : Int := if 0 < x ∧ y < 0 then 1 else 0

theorem trichotomy_facts (γ : K) : (γ < 0 ∧ ¬ 0 < γ) ∨ (¬ γ < 0 ∧ 0 < γ) ∨ (¬ γ < 0 ∧ ¬ 0 < γ) := by
  rcases lt_trichotomy γ 0 with g | g | g
  · exact Or.inl ⟨g, not_lt_of_gt g⟩
  · exact Or.inr (Or.inr ⟨by rw [g]; exact lt_irrefl 0, by rw [g]; exact lt_irrefl 0⟩)
  · exact Or.inr (Or.inl ⟨not_lt_of_gt g, g⟩)

/-- two rays with `d1 × d2 > 0`: per edge, the difference of the crossing numbers is the change of the indicator of the
    sector between the rays.  `D γ = α β' − α' β` is the Plücker relation between the six cross products. -/
theorem sector_scalar (α α' β β' γ D : K) (hD : 0 < D) (hpl : D * γ = α * β' - α' * β)
    (hα : α ≠ 0) (hα' : α' ≠ 0) (hβ : β ≠ 0) (hβ' : β' ≠ 0) (hγ1 : α * α' < 0 → γ ≠ 0) :
    rcS α α' γ - rcS β β' γ = indS α' β' - indS α β := by
  rcases lt_or_gt_of_ne hα with a1 | a1 <;> rcases lt_or_gt_of_ne hα' with a2 | a2 <;>
  rcases lt_or_gt_of_ne hβ with b1 | b1 <;> rcases lt_or_gt_of_ne hβ' with b2 | b2 <;>
  rcases trichotomy_facts γ with ⟨gn, gp⟩ | ⟨gn, gp⟩ | ⟨gn, gp⟩ <;>
  simp only [rcS, indS, a1, a2, b1, b2, gn, gp, not_lt_of_gt a1, not_lt_of_gt a2, not_lt_of_gt b1, not_lt_of_gt b2,
    and_true, and_false, and_self, if_true, if_false] <;>
  first
  | rfl
  | (exfalso; first
      | exact hγ1 (by nlinarith) (le_antisymm (not_lt.1 gp) (not_lt.1 gn))
      | nlinarith [mul_pos hD hD])

/-- two opposite rays: the sides with respect to the second are the negated sides with respect to the first -/
theorem opposite_scalar (α α' β β' γ : K) (hα : α ≠ 0) (hα' : α' ≠ 0)
    (hβ : β < 0 ↔ 0 < α) (hβp : 0 < β ↔ α < 0) (hβ' : β' < 0 ↔ 0 < α') (hβp' : 0 < β' ↔ α' < 0)
    (hγ1 : α * α' < 0 → γ ≠ 0) :
    rcS α α' γ - rcS β β' γ = indS α' β' - indS α β := by
  rcases lt_or_gt_of_ne hα with a1 | a1 <;> rcases lt_or_gt_of_ne hα' with a2 | a2 <;>
  rcases trichotomy_facts γ with ⟨gn, gp⟩ | ⟨gn, gp⟩ | ⟨gn, gp⟩ <;>
  simp only [rcS, indS, hβ, hβp, hβ', hβp', a1, a2, gn, gp, not_lt_of_gt a1, not_lt_of_gt a2,
    and_true, and_false, and_self, if_true, if_false] <;>
  first
  | rfl
  | (exfalso; exact hγ1 (by nlinarith) (le_antisymm (not_lt.1 gp) (not_lt.1 gn)))

theorem plucker (d1 d2 a b : V2 K) :
    cross d1 d2 * cross a b = cross d1 a * cross d2 b - cross d1 b * cross d2 a := by
  simp only [cross]; ring

/-- components of `b` along `a` and across it -/
theorem cross_decomp (d a b : V2 K) :
    cross d b * dot a a = dot a b * cross d a + cross a b * dot d a := by
  simp only [cross, dot_eq]; ring

/-- an edge whose end points are strictly on opposite sides of a line through `p` and which does not contain `p`
    is not collinear with `p` -/
theorem cross_ne_zero_of_straddle (d a b : V2 K) (hoff : OffSegment a b) (h : cross d a * cross d b < 0) :
    cross a b ≠ 0 := by
  intro h0
  have hab := hoff h0
  have hdec := cross_decomp d a b
  rw [h0, zero_mul, add_zero] at hdec
  have haa : 0 ≤ dot a a := by rw [dot_eq]; nlinarith [mul_self_nonneg a.x, mul_self_nonneg a.y]
  -- (d×a)(d×b)(a·a) = (a·b)(d×a)² ≥ 0
  have : cross d a * cross d b * dot a a = dot a b * (cross d a * cross d a) := by
    rw [mul_assoc, hdec]; ring
  have hda : cross d a ≠ 0 := by
    intro h'; rw [h', zero_mul] at h; exact lt_irrefl _ h
  have hpos := mul_pos hab (mul_self_pos.2 hda)
  have hle : cross d a * cross d b * dot a a ≤ 0 := mul_nonpos_of_nonpos_of_nonneg (le_of_lt h) haa
  linarith

/-- the sector between two rays (relative to `p` = origin): strictly left of ray 1 and strictly right of ray 2 -/
def sectorInd (d1 d2 x : V2 K) : Int := indS (cross d1 x) (cross d2 x)

theorem rayCross0_eq_rcS (d a b : V2 K) : rayCross0 d a b = rcS (cross d a) (cross d b) (cross a b) := rfl

/-- per edge: rays with `d1 × d2 > 0` -/
theorem rayCross0_sector (d1 d2 a b : V2 K) (hD : 0 < cross d1 d2)
    (h1a : cross d1 a ≠ 0) (h1b : cross d1 b ≠ 0) (h2a : cross d2 a ≠ 0) (h2b : cross d2 b ≠ 0)
    (hoff : OffSegment a b) :
    rayCross0 d1 a b - rayCross0 d2 a b = sectorInd d1 d2 b - sectorInd d1 d2 a := by
  rw [rayCross0_eq_rcS, rayCross0_eq_rcS]
  exact sector_scalar _ _ _ _ _ _ hD (plucker d1 d2 a b) h1a h1b h2a h2b (cross_ne_zero_of_straddle d1 a b hoff)

/-- sides with respect to a parallel direction -/
theorem cross_parallel (d1 d2 x : V2 K) (h : cross d1 d2 = 0) :
    cross d2 x * dot d1 d1 = dot d1 d2 * cross d1 x := by
  have := cross_decomp x d1 d2
  rw [h, zero_mul, add_zero] at this
  have e1 : cross x d2 = - cross d2 x := by simp only [cross]; ring
  have e2 : cross x d1 = - cross d1 x := by simp only [cross]; ring
  rw [e1, e2] at this
  linarith

theorem dot_self_pos_of_cross_ne (d x : V2 K) (h : cross d x ≠ 0) : 0 < dot d d := by
  rw [dot_eq]
  have : d.x ≠ 0 ∨ d.y ≠ 0 := by
    by_contra hc
    rw [not_or, not_not, not_not] at hc
    apply h; simp [cross, hc.1, hc.2]
  rcases this with hx | hy
  · nlinarith [mul_self_pos.2 hx, mul_self_nonneg d.y]
  · nlinarith [mul_self_pos.2 hy, mul_self_nonneg d.x]

/-- per edge: opposite rays (`d1 × d2 = 0`, `d1 · d2 < 0`) -/
theorem rayCross0_opposite (d1 d2 a b : V2 K) (hD : cross d1 d2 = 0) (hneg : dot d1 d2 < 0)
    (h1a : cross d1 a ≠ 0) (h1b : cross d1 b ≠ 0) (hoff : OffSegment a b) :
    rayCross0 d1 a b - rayCross0 d2 a b = sectorInd d1 d2 b - sectorInd d1 d2 a := by
  rw [rayCross0_eq_rcS, rayCross0_eq_rcS]
  have hdd := dot_self_pos_of_cross_ne d1 a h1a
  have key : ∀ x : V2 K, (cross d2 x < 0 ↔ 0 < cross d1 x) ∧ (0 < cross d2 x ↔ cross d1 x < 0) := by
    intro x
    have hx := cross_parallel d1 d2 x hD
    constructor <;> constructor <;> intro hh <;> nlinarith
  exact opposite_scalar _ _ _ _ _ h1a h1b (key a).1 (key a).2 (key b).1 (key b).2
    (cross_ne_zero_of_straddle d1 a b hoff)

/-- per edge: rays in the same direction (`d1 × d2 = 0`, `d1 · d2 > 0`) have the same crossings -/
theorem rayCross0_same (d1 d2 a b : V2 K) (hD : cross d1 d2 = 0) (hpos : 0 < dot d1 d2) (h1a : cross d1 a ≠ 0) :
    rayCross0 d1 a b = rayCross0 d2 a b := by
  have hdd := dot_self_pos_of_cross_ne d1 a h1a
  have key : ∀ x : V2 K, (cross d2 x < 0 ↔ cross d1 x < 0) ∧ (0 < cross d2 x ↔ 0 < cross d1 x) := by
    intro x
    have hx := cross_parallel d1 d2 x hD
    constructor <;> constructor <;> intro hh <;> nlinarith
  simp only [rayCross0, (key a).1, (key a).2, (key b).1, (key b).2]

/-! sums over the closed cycle -/

theorem sum_map_sub {α : Type} (f g : α → Int) (l : List α) :
    (l.map (fun e => f e - g e)).sum = (l.map f).sum - (l.map g).sum := by
  induction l with
  | nil => simp
  | cons a l ih => simp only [List.map_cons, List.sum_cons, ih]; ring

theorem sum_zip_diff {α : Type} (f : α → Int) : ∀ (l l' : List α), l.length = l'.length →
    ((l.zip l').map (fun e => f e.2 - f e.1)).sum = (l'.map f).sum - (l.map f).sum
  | [], [], _ => by simp
  | [], _ :: _, h => by simp at h
  | _ :: _, [], h => by simp at h
  | a :: l, b :: l', h => by
    simp only [List.zip_cons_cons, List.map_cons, List.sum_cons]
    rw [sum_zip_diff f l l' (by simpa using h)]; ring

/-- around a closed polygon the changes of any vertex function add up to zero -/
theorem sum_cycle (f : V2 K → Int) (vs : List (V2 K)) : ((edges vs).map (fun e => f e.2 - f e.1)).sum = 0 := by
  rw [edges, sum_zip_diff f vs (vs.rotate 1) (by simp)]
  rw [((List.rotate_perm vs 1).map f).sum_eq]; ring

theorem mem_edges {vs : List (V2 K)} {e : V2 K × V2 K} (h : e ∈ edges vs) : e.1 ∈ vs ∧ e.2 ∈ vs := by
  obtain ⟨a, b⟩ := e
  have := List.of_mem_zip h
  exact ⟨this.1, List.mem_rotate.1 this.2⟩

/-- no vertex lies on the line through `p` with direction `d` -/
def LineAvoids (p d : V2 K) (vs : List (V2 K)) : Prop := ∀ v ∈ vs, cross d (v - p) ≠ 0

/-- `p` lies on no edge of the closed polygon -/
def OffBoundary (p : V2 K) (vs : List (V2 K)) : Prop := ∀ e ∈ edges vs, OffSegment (e.1 - p) (e.2 - p)

theorem wind_eq_of_edge_identity (p d1 d2 : V2 K) (vs : List (V2 K)) (f : V2 K → Int)
    (h : ∀ e ∈ edges vs, rayCross p d1 e.1 e.2 - rayCross p d2 e.1 e.2 = f e.2 - f e.1) :
    wind p d1 vs = wind p d2 vs := by
  have h0 : wind p d1 vs - wind p d2 vs = 0 := by
    rw [wind, wind, ← sum_map_sub, List.map_congr_left h, sum_cycle]
  omega

/-- RAY INDEPENDENCE -/
theorem wind_ray_independent (p d1 d2 : V2 K) (vs : List (V2 K)) (h1 : LineAvoids p d1 vs) (h2 : LineAvoids p d2 vs)
    (hoff : OffBoundary p vs) : wind p d1 vs = wind p d2 vs := by
  rcases lt_trichotomy (cross d1 d2) 0 with hD | hD | hD
  · -- d2 × d1 > 0
    have hD' : 0 < cross d2 d1 := by
      have : cross d2 d1 = - cross d1 d2 := by simp only [cross]; ring
      rw [this]; linarith
    symm
    apply wind_eq_of_edge_identity p d2 d1 vs (fun v => sectorInd d2 d1 (v - p))
    intro e he
    have hm := mem_edges he
    exact rayCross0_sector d2 d1 _ _ hD' (h2 _ hm.1) (h2 _ hm.2) (h1 _ hm.1) (h1 _ hm.2) (hoff e he)
  · rcases lt_trichotomy (dot d1 d2) 0 with hd | hd | hd
    · apply wind_eq_of_edge_identity p d1 d2 vs (fun v => sectorInd d1 d2 (v - p))
      intro e he
      have hm := mem_edges he
      exact rayCross0_opposite d1 d2 _ _ hD hd (h1 _ hm.1) (h1 _ hm.2) (hoff e he)
    · -- d2 = 0 (or no vertices)
      rcases vs with _ | ⟨v, vs⟩
      · rfl
      · exfalso
        have hv1 := h1 v (by simp)
        have hv2 := h2 v (by simp)
        have hdd := dot_self_pos_of_cross_ne d1 _ hv1
        have := cross_parallel d1 d2 (v - p) hD
        rw [hd, zero_mul] at this
        rcases mul_eq_zero.1 this with h | h
        · exact hv2 h
        · exact (ne_of_gt hdd) h
    · rw [wind, wind]
      congr 1
      apply List.map_congr_left
      intro e he
      have hm := mem_edges he
      exact rayCross0_same d1 d2 _ _ hD hd (h1 _ hm.1)
  · apply wind_eq_of_edge_identity p d1 d2 vs (fun v => sectorInd d1 d2 (v - p))
    intro e he
    have hm := mem_edges he
    exact rayCross0_sector d1 d2 _ _ hD (h1 _ hm.1) (h1 _ hm.2) (h2 _ hm.1) (h2 _ hm.2) (hoff e he)

/-! ### a point separated from the polygon by a line -/

theorem dot_self_nonneg (u : V2 K) : 0 ≤ dot u u := by
  rw [dot_eq]; nlinarith [mul_self_nonneg u.x, mul_self_nonneg u.y]

theorem dot_decomp (d a b : V2 K) : dot d b * dot a a = dot a b * dot d a - cross a b * cross d a := by
  simp only [cross, dot_eq]; ring

theorem offSegment_of_behind (u a b : V2 K) (ha : dot u a < 0) (hb : dot u b < 0) : OffSegment a b := by
  intro h0
  have hd := dot_decomp u a b
  rw [h0, zero_mul, sub_zero] at hd
  have haa : 0 < dot a a := by
    rcases (dot_self_nonneg a).lt_or_eq with h | h
    · exact h
    · exfalso
      have hax : a.x = 0 ∧ a.y = 0 := by
        rw [dot_eq] at h
        constructor <;> nlinarith [mul_self_nonneg a.x, mul_self_nonneg a.y]
      rw [dot_eq, hax.1, hax.2] at ha; simp at ha
  by_contra hab
  have hab' : dot a b ≤ 0 := not_lt.1 hab
  nlinarith [mul_neg_of_neg_of_pos hb haa, mul_nonneg_of_nonpos_of_nonpos hab' (le_of_lt ha)]

/-! ### straight edges: the summand of the loop is the signed crossing -/

/-- a straight edge run from `c.t0` to `c.t3`: every step of the control polygon is a positive multiple of the chord
    (`line_to` makes the multiples 0.3334, 0.3333, 0.3333) -/
def StraightEdge (c : Curve K) : Prop :=
  ∃ k1 k2 k3 : K, 0 < k1 ∧ 0 < k2 ∧ 0 < k3 ∧ c.t1 - c.t0 = (c.t3 - c.t0) * k1 ∧ c.t2 - c.t1 = (c.t3 - c.t0) * k2 ∧
    c.t3 - c.t2 = (c.t3 - c.t0) * k3

theorem hodograph_straight (c : Curve K) (h : StraightEdge c) (s : K) (hs0 : 0 ≤ s) (hs1 : s ≤ 1) :
    ∃ κ : K, 0 < κ ∧ hodograph c.t0 c.t1 c.t2 c.t3 s = (c.t3 - c.t0) * κ := by
  obtain ⟨k1, k2, k3, h1, h2, h3, e1, e2, e3⟩ := h
  refine ⟨3 * ((1 - s) * (1 - s) * k1 + 2 * ((1 - s) * s) * k2 + s * s * k3), ?_, ?_⟩
  · have hu : 0 ≤ 1 - s := by linarith
    have t2 : 0 ≤ 2 * ((1 - s) * s) * k2 := by positivity
    rcases hs1.lt_or_eq with hlt | heq
    · have hu' : 0 < 1 - s := by linarith
      have t1 : 0 < (1 - s) * (1 - s) * k1 := by positivity
      have t3 : 0 ≤ s * s * k3 := by positivity
      linarith
    · subst heq
      simp; exact h3
  · simp only [hodograph, e1, e2, e3]
    apply V2.ext' <;> simp [de_casteljau3, de_casteljau2, lit1, lit3] <;> ring

/-- the edge `BezierPathBuilder::line_to` appends: control points `b − 0.6666 (b − a)` and `b − 0.3333 (b − a)` -/
def lineTo (a b : V2 K) : Curve K := T4.mk a (b - (b - a) * (0.6666 : K)) (b - (b - a) * (0.3333 : K)) b

theorem lineTo_straight (a b : V2 K) : StraightEdge (lineTo a b) := by
  refine ⟨0.3334, 0.3333, 0.3333, by norm_num, by norm_num, by norm_num, ?_, ?_, ?_⟩ <;>
    apply V2.ext' <;> simp [lineTo] <;> norm_num <;> ring

theorem nudge_mem (h0e : 0 ≤ (feps : K)) (h1e : (feps : K) ≤ 1) (t : K) (h0 : 0 ≤ t) (h1 : t ≤ 1) :
    0 ≤ nudge t ∧ nudge t ≤ 1 := by
  unfold nudge
  simp only [lit0, lit1]
  split_ifs <;> constructor <;> linarith

theorem dirOf_straight [I32Spec K] (h0e : 0 ≤ (feps : K)) (h1e : (feps : K) ≤ 1) (curves : List (Curve K))
    (corner p : V2 K) (c : Coll K) (hst : StraightEdge (curveOf curves c)) (ht0 : 0 ≤ c.t1) (ht1 : c.t1 ≤ 1)
    (hx : rayCross p (corner - p) (curveOf curves c).t0 (curveOf curves c).t3 ≠ 0) :
    dirOf curves (p - corner) c = rayCross p (corner - p) (curveOf curves c).t0 (curveOf curves c).t3 := by
  obtain ⟨hn0, hn1⟩ := nudge_mem h0e h1e c.t1 ht0 ht1
  obtain ⟨κ, hκ, hh⟩ := hodograph_straight _ hst (nudge c.t1) hn0 hn1
  rw [dirOf_eq, tangentOf, tangent_at_pos_eq, hh]
  set a := (curveOf curves c).t0
  set b := (curveOf curves c).t3
  have hc : cross ((b - a) * κ) (p - corner) = κ * (cross (corner - p) (b - p) - cross (corner - p) (a - p)) := by
    simp only [cross, sub_x, sub_y, mul_x, mul_y]; ring
  rw [hc]
  by_cases c1 : cross (corner - p) (a - p) < 0 ∧ 0 < cross (corner - p) (b - p) ∧ 0 < cross (a - p) (b - p)
  · have e : rayCross p (corner - p) a b = 1 := by simp only [rayCross, rayCross0]; rw [if_pos c1]
    rw [e, if_neg]
    exact not_lt.2 (le_of_lt (mul_pos hκ (by linarith [c1.1, c1.2.1])))
  · by_cases c2 : cross (corner - p) (b - p) < 0 ∧ 0 < cross (corner - p) (a - p) ∧ cross (a - p) (b - p) < 0
    · have e : rayCross p (corner - p) a b = -1 := by simp only [rayCross, rayCross0]; rw [if_neg c1, if_pos c2]
      rw [e, if_pos]
      exact mul_neg_of_pos_of_neg hκ (by linarith [c2.1, c2.2.1])
    · exfalso; apply hx
      simp only [rayCross, rayCross0]; rw [if_neg c1, if_neg c2]

/-! ### a polygon given as a path of straight edges -/

/-- signed crossing of the ray by the `i`-th edge of the closed polygon -/
def edgeCross (p d : V2 K) (vs : List (V2 K)) (i : Nat) : Int :=
  rayCross p d (listGet vs i) (listGet vs ((i + 1) % vs.length))

theorem edges_eq_range (vs : List (V2 K)) :
    edges vs = (List.range vs.length).map (fun i => (listGet vs i, listGet vs ((i + 1) % vs.length))) := by
  apply List.ext_getElem
  · simp [edges]
  · intro i h1 h2
    have hi : i < vs.length := by simpa [edges] using h1
    have hn : 0 < vs.length := by omega
    simp only [edges, List.getElem_zip, List.getElem_map, List.getElem_range, List.getElem_rotate]
    rw [listGet_of_lt _ _ hi, listGet_of_lt _ _ (Nat.mod_lt _ hn)]

theorem wind_eq_sum_range (p d : V2 K) (vs : List (V2 K)) :
    wind p d vs = ((List.range vs.length).map (edgeCross p d vs)).sum := by
  rw [wind, edges_eq_range, List.map_map]; rfl

theorem sum_filter_ne_zero (g : Nat → Int) (l : List Nat) :
    ((l.filter (fun i => decide (g i ≠ 0))).map g).sum = (l.map g).sum := by
  induction l with
  | nil => rfl
  | cons a l ih =>
    by_cases h : g a = 0
    · rw [List.filter_cons_of_neg (by simpa using h), ih, List.map_cons, List.sum_cons, h, zero_add]
    · rw [List.filter_cons_of_pos (by simpa using h), List.map_cons, List.sum_cons, ih, List.map_cons, List.sum_cons]

/-- the curve list of the closed polygon `vs`: curve `i` is a straight edge from vertex `i` to vertex `i+1` -/
def IsPolygonPath (curves : List (Curve K)) (vs : List (V2 K)) : Prop :=
  ∀ i < vs.length, StraightEdge (listGet curves i) ∧ (listGet curves i).t0 = listGet vs i ∧
    (listGet curves i).t3 = listGet vs ((i + 1) % vs.length)

/-- the collision list is faithful for the ray from `p` in direction `d`: the collisions the loop counts are, up to
    order, exactly one for every edge that crosses the ray, each with a curve parameter in `[0,1]` -/
def Faithful (p d : V2 K) (vs : List (V2 K)) (l : List (Coll K)) : Prop :=
  ((counted l).map (fun c => c.t0)).Perm ((List.range vs.length).filter (fun i => decide (edgeCross p d vs i ≠ 0))) ∧
  ∀ c ∈ counted l, 0 ≤ c.t1 ∧ c.t1 ≤ 1

theorem signedSum_polygon [I32Spec K] (h0e : 0 ≤ (feps : K)) (h1e : (feps : K) ≤ 1) (curves : List (Curve K))
    (vs : List (V2 K)) (corner p : V2 K) (l : List (Coll K)) (hpoly : IsPolygonPath curves vs)
    (hf : Faithful p (corner - p) vs l) :
    signedSum curves (p - corner) l = wind p (corner - p) vs := by
  obtain ⟨hperm, ht⟩ := hf
  have hd : ∀ c ∈ counted l, dirOf curves (p - corner) c = edgeCross p (corner - p) vs c.t0 := by
    intro c hc
    have hmem : c.t0 ∈ (List.range vs.length).filter (fun i => decide (edgeCross p (corner - p) vs i ≠ 0)) :=
      hperm.mem_iff.1 (List.mem_map.2 ⟨c, hc, rfl⟩)
    rw [List.mem_filter, List.mem_range, decide_eq_true_eq] at hmem
    obtain ⟨hst, e0, e3⟩ := hpoly c.t0 hmem.1
    have hx : rayCross p (corner - p) (curveOf curves c).t0 (curveOf curves c).t3 ≠ 0 := by
      rw [curveOf, e0, e3]; exact hmem.2
    rw [dirOf_straight h0e h1e curves corner p c hst (ht c hc).1 (ht c hc).2 hx, curveOf, e0, e3]; rfl
  rw [signedSum, List.map_congr_left hd, wind_eq_sum_range, ← sum_filter_ne_zero, ← (hperm.map _).sum_eq, List.map_map]
  rfl

/-! ### what a non-zero crossing number means -/

/-- the segment from `a` to `b` meets the open ray from the origin in direction `d` in a point strictly inside the segment -/
def MeetsRay (d a b : V2 K) : Prop := ∃ l m : K, 0 < l ∧ 0 < m ∧ m < 1 ∧ d * l = a + (b - a) * m

theorem meets_of_rayCross0_ne_zero (d a b : V2 K) (h : rayCross0 d a b ≠ 0) : MeetsRay d a b := by
  have key : (cross d a < 0 ∧ 0 < cross d b ∧ 0 < cross a b) ∨ (cross d b < 0 ∧ 0 < cross d a ∧ cross a b < 0) := by
    by_contra hc
    rw [not_or] at hc
    apply h; unfold rayCross0; rw [if_neg hc.1, if_neg hc.2]
  have hD : cross d b - cross d a ≠ 0 := by
    rcases key with k | k
    · exact ne_of_gt (by linarith [k.1, k.2.1])
    · exact ne_of_lt (by linarith [k.1, k.2.1])
  refine ⟨cross a b / (cross d b - cross d a), -cross d a / (cross d b - cross d a), ?_, ?_, ?_, ?_⟩
  · rcases key with k | k
    · exact div_pos k.2.2 (by linarith [k.1, k.2.1])
    · exact div_pos_of_neg_of_neg k.2.2 (by linarith [k.1, k.2.1])
  · rcases key with k | k
    · exact div_pos (by linarith [k.1]) (by linarith [k.1, k.2.1])
    · exact div_pos_of_neg_of_neg (by linarith [k.2.1]) (by linarith [k.1, k.2.1])
  · rcases key with k | k
    · rw [div_lt_one (by linarith [k.1, k.2.1])]; linarith [k.2.1]
    · rw [div_lt_one_of_neg (by linarith [k.1, k.2.1])]; linarith [k.1]
  · apply V2.ext'
    · simp only [mul_x, add_x, sub_x]
      field_simp
      simp only [cross]; ring
    · simp only [mul_y, add_y, sub_y]
      field_simp
      simp only [cross]; ring

theorem rayCross0_ne_zero_iff (d a b : V2 K) (ha : cross d a ≠ 0) (hb : cross d b ≠ 0) :
    rayCross0 d a b ≠ 0 ↔ MeetsRay d a b := by
  constructor
  · exact meets_of_rayCross0_ne_zero d a b
  · rintro ⟨l, m, hl, hm0, hm1, hv⟩
    have hx : d.x * l = a.x + (b.x - a.x) * m := by simpa using congrArg V2.x hv
    have hy : d.y * l = a.y + (b.y - a.y) * m := by simpa using congrArg V2.y hv
    have e1 : cross d a + m * (cross d b - cross d a) = 0 := by
      simp only [cross]; linear_combination (-d.x) * hy + d.y * hx
    have e2 : cross a b = l * (cross d b - cross d a) := by
      simp only [cross]; linear_combination (-(b.y - a.y)) * hx + (b.x - a.x) * hy
    rcases lt_or_gt_of_ne ha with h | h
    · have hb' : 0 < cross d b := by
        by_contra hc
        have : cross d b < 0 := lt_of_le_of_ne (not_lt.1 hc) hb
        nlinarith
      have hg : 0 < cross a b := by rw [e2]; exact mul_pos hl (by linarith)
      unfold rayCross0; rw [if_pos ⟨h, hb', hg⟩]; decide
    · have hb' : cross d b < 0 := by
        by_contra hc
        have : 0 < cross d b := lt_of_le_of_ne (not_lt.1 hc) (Ne.symm hb)
        nlinarith
      have hg : cross a b < 0 := by rw [e2]; exact mul_neg_of_pos_of_neg hl (by linarith)
      unfold rayCross0; rw [if_neg (by intro q; linarith [q.1]), if_pos ⟨hb', h, hg⟩]; decide

/-- a segment strictly behind a line `n · x = 0` does not meet a ray that never goes behind that line -/
theorem rayCross0_eq_zero_of_separated (n d a b : V2 K) (hd : 0 ≤ dot n d) (ha : dot n a < 0) (hb : dot n b < 0) :
    rayCross0 d a b = 0 := by
  by_contra h
  obtain ⟨l, m, hl, hm0, hm1, hv⟩ := meets_of_rayCross0_ne_zero d a b h
  have hx : d.x * l = a.x + (b.x - a.x) * m := by simpa using congrArg V2.x hv
  have hy : d.y * l = a.y + (b.y - a.y) * m := by simpa using congrArg V2.y hv
  have e : l * dot n d = (1 - m) * dot n a + m * dot n b := by
    simp only [dot_eq]; linear_combination n.x * hx + n.y * hy
  nlinarith [mul_nonneg (le_of_lt hl) hd, mul_neg_of_pos_of_neg (show 0 < 1 - m by linarith) ha,
    mul_neg_of_pos_of_neg hm0 hb]

theorem wind_eq_zero_of_separated (p n d : V2 K) (vs : List (V2 K)) (hd : 0 ≤ dot n d)
    (h : ∀ v ∈ vs, dot n (v - p) < 0) : wind p d vs = 0 := by
  rw [wind]
  apply List.sum_eq_zero
  intro x hx
  obtain ⟨e, he, rfl⟩ := List.mem_map.1 hx
  have hm := mem_edges he
  exact rayCross0_eq_zero_of_separated n d _ _ hd (h _ hm.1) (h _ hm.2)

theorem lineAvoids_neg {p d : V2 K} {vs : List (V2 K)} (h : LineAvoids p d vs) :
    LineAvoids p (V2.mk (-d.x) (-d.y)) vs := by
  intro v hv hc
  apply h v hv
  have : cross (V2.mk (-d.x) (-d.y)) (v - p) = - cross d (v - p) := by simp only [cross]; ring
  rw [this] at hc; linarith

/-- a point separated from all vertices by a line has winding number 0 along every ray that avoids the vertices -/
theorem wind_eq_zero_of_separated_any (p n d : V2 K) (vs : List (V2 K)) (h : ∀ v ∈ vs, dot n (v - p) < 0)
    (hd : LineAvoids p d vs) : wind p d vs = 0 := by
  rcases le_or_gt 0 (dot n d) with h0 | h0
  · exact wind_eq_zero_of_separated p n d vs h0 h
  · have hoff : OffBoundary p vs := by
      intro e he
      have hm := mem_edges he
      exact offSegment_of_behind n _ _ (h _ hm.1) (h _ hm.2)
    rw [wind_ray_independent p d _ vs hd (lineAvoids_neg hd) hoff]
    apply wind_eq_zero_of_separated p n _ vs _ h
    rw [dot_eq] at h0 ⊢
    simp only
    linarith

theorem stopClosed_map (σ : Coll K → Coll K) (hσ : ∀ c, (σ c).t2 = c.t2) {l : List (Coll K)} (h : StopClosed l) :
    StopClosed (l.map σ) := by
  rw [StopClosed, List.pairwise_map]
  simp only [hσ]
  exact h

/-! ### the ray and the box -/

theorem ray_start_gt (bounds : T2 (V2 K) (V2 K)) (point : V2 K) :
    bounds.t1.x < (rayOf bounds point).t0.x ∧ bounds.t1.y < (rayOf bounds point).t0.y := by
  simp only [rayOf, add_x, add_y, lit001]
  constructor <;> linarith [show (0 : K) < 1 / 100 by norm_num]

/-- every point where an edge with both end points in the box meets the ray from `p` towards a corner beyond the box
    lies before that corner -/
theorem meets_before_corner (mx corner p a b : V2 K) (hc : mx.x < corner.x) (hp : p.x ≤ mx.x)
    (ha : a.x ≤ mx.x) (hb : b.x ≤ mx.x) (l m : K) (hm0 : 0 ≤ m) (hm1 : m ≤ 1)
    (hv : (corner - p) * l = (a - p) + ((b - p) - (a - p)) * m) : l < 1 := by
  have hx : (corner.x - p.x) * l = (a.x - p.x) + ((b.x - p.x) - (a.x - p.x)) * m := by simpa using congrArg V2.x hv
  have hq : (a.x - p.x) + ((b.x - p.x) - (a.x - p.x)) * m ≤ mx.x - p.x := by
    nlinarith [mul_nonneg hm0 (sub_nonneg.2 hb), mul_nonneg (sub_nonneg.2 hm1) (sub_nonneg.2 ha)]
  by_contra hl
  have hl' : 1 ≤ l := not_lt.1 hl
  nlinarith [mul_le_mul_of_nonneg_left hl' (le_of_lt (show 0 < corner.x - p.x by linarith))]

/-! ### the tangent is the derivative of the curve (real numbers) -/

theorem de_casteljau4_x (s : K) (w1 w2 w3 w4 : V2 K) :
    (de_casteljau4 s w1 w2 w3 w4).x
      = (w4.x - 3*w3.x + 3*w2.x - w1.x) * s^3 + (3*w3.x - 6*w2.x + 3*w1.x) * s^2 + (3*w2.x - 3*w1.x) * s + w1.x := by
  simp [de_casteljau4, de_casteljau3, de_casteljau2, lit1]; ring

theorem de_casteljau4_y (s : K) (w1 w2 w3 w4 : V2 K) :
    (de_casteljau4 s w1 w2 w3 w4).y
      = (w4.y - 3*w3.y + 3*w2.y - w1.y) * s^3 + (3*w3.y - 6*w2.y + 3*w1.y) * s^2 + (3*w2.y - 3*w1.y) * s + w1.y := by
  simp [de_casteljau4, de_casteljau3, de_casteljau2, lit1]; ring

theorem hodograph_x (s : K) (w1 w2 w3 w4 : V2 K) :
    (hodograph w1 w2 w3 w4 s).x
      = 3 * (w4.x - 3*w3.x + 3*w2.x - w1.x) * s^2 + 2 * (3*w3.x - 6*w2.x + 3*w1.x) * s + (3*w2.x - 3*w1.x) := by
  simp [hodograph, de_casteljau3, de_casteljau2, lit1, lit3]; ring

theorem hodograph_y (s : K) (w1 w2 w3 w4 : V2 K) :
    (hodograph w1 w2 w3 w4 s).y
      = 3 * (w4.y - 3*w3.y + 3*w2.y - w1.y) * s^2 + 2 * (3*w3.y - 6*w2.y + 3*w1.y) * s + (3*w2.y - 3*w1.y) := by
  simp [hodograph, de_casteljau3, de_casteljau2, lit1, lit3]; ring

theorem cubic_hasDerivAt (a b c d t : ℝ) :
    HasDerivAt (fun s : ℝ => a*s^3+b*s^2+c*s+d) (3*a*t^2 + 2*b*t + c) t := by
  have := ((((hasDerivAt_pow 3 t).const_mul a).add ((hasDerivAt_pow 2 t).const_mul b)).add
    ((hasDerivAt_id t).const_mul c)).add_const d
  have h : HasDerivAt (fun s : ℝ => a*s^3+b*s^2+c*s+d) _ t := this
  exact h.congr_deriv (by norm_num; ring)

theorem hodograph_hasDerivAt [Inhabited ℝ] [FSqrt ℝ] [FConsts ℝ] [FToI32 ℝ] (w1 w2 w3 w4 : V2 ℝ) (s : ℝ) :
    HasDerivAt (fun r => (de_casteljau4 r w1 w2 w3 w4).x) (hodograph w1 w2 w3 w4 s).x s ∧
    HasDerivAt (fun r => (de_casteljau4 r w1 w2 w3 w4).y) (hodograph w1 w2 w3 w4 s).y s := by
  constructor
  · have h := cubic_hasDerivAt (w4.x - 3*w3.x + 3*w2.x - w1.x) (3*w3.x - 6*w2.x + 3*w1.x) (3*w2.x - 3*w1.x) w1.x s
    have hf : (fun r => (de_casteljau4 r w1 w2 w3 w4).x) = fun r : ℝ =>
        (w4.x - 3*w3.x + 3*w2.x - w1.x) * r^3 + (3*w3.x - 6*w2.x + 3*w1.x) * r^2 + (3*w2.x - 3*w1.x) * r + w1.x := by
      funext r; exact de_casteljau4_x r w1 w2 w3 w4
    rw [hf, hodograph_x]; exact h
  · have h := cubic_hasDerivAt (w4.y - 3*w3.y + 3*w2.y - w1.y) (3*w3.y - 6*w2.y + 3*w1.y) (3*w2.y - 3*w1.y) w1.y s
    have hf : (fun r => (de_casteljau4 r w1 w2 w3 w4).y) = fun r : ℝ =>
        (w4.y - 3*w3.y + 3*w2.y - w1.y) * r^3 + (3*w3.y - 6*w2.y + 3*w1.y) * r^2 + (3*w2.y - 3*w1.y) * r + w1.y := by
      funext r; exact de_casteljau4_y r w1 w2 w3 w4
    rw [hf, hodograph_y]; exact h

end PIP
