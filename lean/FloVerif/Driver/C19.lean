import FloVerif.Driver.Util
import FloVerif.Driver.C05
import FloVerif.Gen.Length
import FloVerif.Gen.Walk
/-!
Correspondence for C19: the GENERATED `Gen.curve_length` (whole `section_length` stack loop, `CurveSection` arithmetic,
chord and polygon; distance = the generated `Coord2::distance_to`) is run at `Float` and must reproduce
`curve_length`, `chord_length`, `control_polygon_length` of the implementation BIT FOR BIT.

Fuel: the loop of the implementation has no iteration bound; the mirror gives the generated loop `mirrorFuel`
iterations.  A curve that needed more would show up as a DIFF (the mirror's total would be short), it would not pass.
-/
namespace Driver.C19
open Prelude Gen Driver Driver.C05

/-- iterations granted to the generated loop by the mirror (the largest run of the thorough transcript uses < 2^17) -/
def mirrorFuel : Nat := 4000000

def bitsSame (a : Float) (b : FV) : Bool := a.toBits == b.bits || (a.isNaN && b.f.isNaN)

def handle (op : String) (ins outs : List String) : List Out :=
  match op with
  | "len" =>
    let iv : List FV := ins.map (fun s => ⟨parseHex s⟩)
    let ov : List FV := outs.map (fun s => ⟨parseHex s⟩)
    let p (i : Nat) : V2 Float := ⟨(iv.getD (2*i) default).f, (iv.getD (2*i+1) default).f⟩
    let e := (iv.getD 8 default).f
    let dist : V2 Float → V2 Float → Float := coord2_distance_to
    let len := curve_length mirrorFuel dist (p 0) (p 1) (p 2) (p 3) e
    let chord := chord_length dist (p 0) (p 1) (p 2) (p 3)
    let poly := control_polygon_length dist (p 0) (p 1) (p 2) (p 3)
    let o (i : Nat) := (ov.getD i default)
    let exact (a : Float) (b : FV) : Cmp :=
      if bitsSame a b then .same 0 else .diff s!"model={a} ({a.toBits}) impl={b.f} ({b.bits}) [bit-exact comparison]"
    [{ field := "curve_length", cmp := exact len (o 0), fbit := some (bitsSame len (o 0)) },
     { field := "chord_length", cmp := exact chord (o 1), fbit := some (bitsSame chord (o 1)) },
     { field := "control_polygon_length", cmp := exact poly (o 2), fbit := some (bitsSame poly (o 2)) }]
  | _ => [{ field := "unknown-op " ++ op, cmp := .diff "driver does not know this operation", fbit := none }]

end Driver.C19
