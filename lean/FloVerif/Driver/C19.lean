import FloVerif.Driver.Util
import FloVerif.Driver.C05
import FloVerif.Model.Length
/-! Correspondence for C19: Float mirror of the `section_length` model against `curve_length`. -/
namespace Driver.C19
open Prelude Gen Driver Driver.C05 Model.Length

def distF (a b : V2 Float) : Float :=
  let dx := b.x - a.x
  let dy := b.y - a.y
  Float.sqrt (dx * dx + dy * dy)

def handle (op : String) (ins outs : List String) : List Out :=
  match op with
  | "len" =>
    let iv : List FV := ins.map (fun s => ⟨parseHex s⟩)
    let ov : List FV := outs.map (fun s => ⟨parseHex s⟩)
    let p (i : Nat) : V2 Float := ⟨(iv.getD (2*i) default).f, (iv.getD (2*i+1) default).f⟩
    let e := (iv.getD 8 default).f
    let c : T4 (V2 Float) (V2 Float) (V2 Float) (V2 Float) := T4.mk (p 0) (p 1) (p 2) (p 3)
    let len := curveLength distF c e
    let chord := chord_length distF c.t0 c.t1 c.t2 c.t3
    let poly := control_polygon_length distF c.t0 c.t1 c.t2 c.t3
    let o (i : Nat) := (ov.getD i default)
    let close (a : Float) (b : FV) (rel : Float) : Cmp :=
      if a.toBits == b.bits || (a - b.f).abs ≤ rel * (1 + a.abs) then .same 0 else .diff s!"model={a} impl={b.f}"
    [{ field := "curve_length", cmp := close len (o 0) 1e-9, fbit := some (len.toBits == (o 0).bits) },
     { field := "chord_length", cmp := close chord (o 1) 1e-15, fbit := some (chord.toBits == (o 1).bits) },
     { field := "control_polygon_length", cmp := close poly (o 2) 1e-15, fbit := some (poly.toBits == (o 2).bits) },
     { field := "bracket(model)", cmp := if chord ≤ len + 1e-9 && len ≤ poly + 1e-9 then .same 0 else .diff s!"chord={chord} len={len} polygon={poly}", fbit := none }]
  | _ => [{ field := "unknown-op " ++ op, cmp := .diff "driver does not know this operation", fbit := none }]

end Driver.C19
