import FloVerif.Prelude.XQ
/-! Line protocol helpers for the correspondence driver: every f64 travels as its 16-hex-digit bit pattern. -/
namespace Driver
open Prelude

def hexVal (c : Char) : Nat :=
  if c.isDigit then c.toNat - '0'.toNat
  else if 'a' ≤ c && c ≤ 'f' then c.toNat - 'a'.toNat + 10
  else c.toNat - 'A'.toNat + 10

def parseHex (s : String) : UInt64 := (s.toList.foldl (fun acc c => acc * 16 + hexVal c) 0).toUInt64

/-- exact decoding of a binary64 bit pattern -/
def bitsToXQ (b : UInt64) : XQ :=
  let sign := (b >>> 63) != 0
  let e := ((b >>> 52) &&& 0x7ff).toNat
  let m := (b &&& 0xfffffffffffff).toNat
  if e == 0x7ff then (if m != 0 then .nan else if sign then .ninf else .pinf) else
  if e == 0 && m == 0 then (if sign then .nzero else .fin 0) else
  let (mant, ex) : Nat × Int := if e == 0 then (m, -1074) else (m + 2^52, (e : Int) - 1075)
  let r : Rat := if ex ≥ 0 then ((mant * 2^ex.toNat : Nat) : Rat) else (mant : Rat) / ((2^(-ex).toNat : Nat) : Rat)
  .fin (if sign then -r else r)

def bitsToRat (b : UInt64) : Rat := (bitsToXQ b).toRat?.getD 0

def ratAbs (x : Rat) : Rat := if x < 0 then -x else x
def ratMax (a b : Rat) : Rat := if a < b then b else a
def ulp52 : Rat := 1 / ((2^52 : Nat) : Rat)

/-- a number read from the transcript -/
structure FV where
  bits : UInt64
deriving Inhabited
def FV.f (v : FV) : Float := Float.ofBits v.bits
def FV.x (v : FV) : XQ := bitsToXQ v.bits
def FV.q (v : FV) : Rat := bitsToRat v.bits

/-- result of comparing one output -/
inductive Cmp where
  | same (err : Rat)     -- agrees; `err` in units of 2⁻⁵²·scale (0 when exact)
  | diff (msg : String)

/-- compare a model value with the implementation's bits. stream "D": exact; "R": within `c` units of 2⁻⁵²·scale -/
def cmpXQ (stream : String) (c : Nat) (scale : Rat) (model : XQ) (impl : UInt64) : Cmp :=
  let iv := bitsToXQ impl
  match model, iv with
  | .nan, .nan => .same 0
  | .pinf, .pinf => .same 0
  | .ninf, .ninf => .same 0
  | m, i =>
    match m.toRat?, i.toRat? with
    | some a, some b =>
      if a == b then .same 0
      else if stream == "D" then .diff s!"model={XQ.toStr m} impl={XQ.toStr i} (exact stream)"
      else
        let unit := ulp52 * ratMax scale (1 / ((2^200 : Nat) : Rat))
        let err := ratAbs (a - b) / unit
        if err ≤ (c : Rat) then .same err else .diff s!"model={XQ.toStr m} impl={XQ.toStr i} err={err.floor}u > {c}u"
    | _, _ => .diff s!"model={XQ.toStr m} impl={XQ.toStr i}"

/-- per-operation statistics -/
structure Stat where
  n : Nat := 0
  diffs : Nat := 0
  bitEq : Nat := 0
  bitCmp : Nat := 0
  exactEq : Nat := 0
  maxErr : Rat := 0
deriving Inhabited

def splitBar (ws : List String) : List String × List String :=
  let pre := ws.takeWhile (· != "|")
  (pre, (ws.dropWhile (· != "|")).drop 1)

def parseNat (s : String) : Nat := (s.toList.filter Char.isDigit).foldl (fun a c => a * 10 + (c.toNat - '0'.toNat)) 0
def parseInt (s : String) : Int := if s.toList.contains (Char.ofNat 45) then -(parseNat s : Int) else (parseNat s : Int)

end Driver
