import FloVerif.Driver.Util
import FloVerif.Driver.C05
import FloVerif.Gen.Offset
import FloVerif.Model.Offset
import FloVerif.Model.FitKernel
/-!
Correspondence for C10: the generated definitions of `Gen/Offset.lean` (normal.rs, characteristics.rs, offset_lms.rs, offset.rs,
offset_scaling.rs) and the fuel knot of `Model/Offset.lean`, run at `Float`, against the implementation BIT FOR BIT
(the model follows the Rust operation order, `+ − * / sqrt` are IEEE-exact on both sides; NaN is compared as NaN).

Not translated, hence an INPUT of the model taken from the transcript: `find_self_intersection_point(curve, 0.01)` (the loop
position).  Not observable through the public API, hence not compared: the sample POINTS of `offset_lms_sampling` other than the
first and the last (the sample PARAMETERS are observed through the offset closure), and the intermediate sections of
`subdivide_offset` (their effect is observed: every control point of every returned curve is compared).
-/
namespace Driver.C10
open Prelude Gen Driver Driver.C05 Model.Offset

def biteq (a b : Float) : Bool := a.toBits == b.toBits || (a.isNaN && b.isNaN)
def allBiteq (a b : List Float) : Bool := a.length == b.length && (a.zip b).all (fun (x, y) => biteq x y)

def out (field : String) (ok : Bool) (msg : String) : Out :=
  { field := field, cmp := if ok then .same 0 else .diff msg, fbit := some ok }

def hexF (f : Float) : String := String.ofList (Nat.toDigits 16 f.toBits.toNat)
def showL (l : List Float) : String := " ".intercalate (l.map fun f => s!"{f}[{hexF f}]")

def v2l (p : V2 Float) : List Float := [p.x, p.y]
def cubl (c : Cubic Float) : List Float := v2l c.t0 ++ v2l c.t1 ++ v2l c.t2 ++ v2l c.t3

def catCode : CurveCategory → Nat
  | .Point => 0 | .Linear => 1 | .Arch => 2 | .SingleInflectionPoint => 3 | .DoubleInflectionPoint => 4
  | .Parabolic => 5 | .Cusp => 6 | .Loop => 7

def featCode : CurveFeatures Float → Nat × Float × Float
  | .Point => (0, 0.0, 0.0) | .Linear => (1, 0.0, 0.0) | .Arch => (2, 0.0, 0.0)
  | .SingleInflectionPoint t => (3, t, 0.0) | .DoubleInflectionPoint a b => (4, a, b)
  | .Parabolic => (5, 0.0, 0.0) | .Cusp => (6, 0.0, 0.0) | .Loop a b => (7, a, b)

/-- the curve (first 8 numbers) -/
def curveOf (iv : List Float) : V2 Float × V2 Float × V2 Float × V2 Float :=
  let g (i : Nat) : Float := iv.getD i 0.0
  (⟨g 0, g 1⟩, ⟨g 2, g 3⟩, ⟨g 4, g 5⟩, ⟨g 6, g 7⟩)

/-- `features_for_curve(curve, accuracy)` of the model, with the loop position taken from the transcript -/
def featuresOf (w : V2 Float × V2 Float × V2 Float × V2 Float) (hint : Option (T2 Float Float)) (accuracy : Float) : CurveFeatures Float :=
  features_for_cubic_bezier (fun _ _ => hint) w.1 w.2.1 w.2.2.1 w.2.2.2 accuracy

def hintOf (flag : String) (a b : Float) : Option (T2 Float Float) := if parseNat flag == 1 then some ⟨a, b⟩ else none

def fl (s : String) : Float := Float.ofBits (parseHex s)

/-- the fitter stand-in: one "curve" that records the first and the last sample point (what `fit_curve_cubic` interpolates) -/
def endsFitter (pts : List (V2 Float)) (_ _ : V2 Float) (_ : Float) : List (V2 Float × V2 Float) :=
  [(pts.headD default, pts.getLastD default)]

def cmpEnds (name : String) (model : Option (List (V2 Float × V2 Float))) (outs : List String) : List Out :=
  -- outs: #m [first(2) last(2)]
  let m := parseNat (outs.getD 0 "0")
  let impl := (outs.drop 1).map fl
  match model with
  | some [(a, b)] =>
    if m == 0 then [out name false s!"model has a chain from {showL (v2l a)} to {showL (v2l b)}, implementation returned no curve"]
    else [out (name ++ ".first_point") (allBiteq (v2l a) (impl.take 2)) s!"model {showL (v2l a)} impl {showL (impl.take 2)}",
          out (name ++ ".last_point") (allBiteq (v2l b) ((impl.drop 2).take 2)) s!"model {showL (v2l b)} impl {showL ((impl.drop 2).take 2)}"]
  | _ => [out name (m == 0) s!"model returns no chain, implementation {m} curves"]

/-- the GENERATED fitter as `offset_lms_sampling` calls it (`C10Fit.genFitter`) -/
def genFit (ps : List (V2 Float)) (st et : V2 Float) (e : Float) : List (Cubic Float) :=
  Model.FitKernel.fitCubicGen (ps.length + 1) ps st et e

/-- every control point of every curve of the chain (tail of the output: `#m` then 8 numbers per curve) -/
def cmpAll (name : String) (model : Option (List (Cubic Float))) (tail : List String) : List Out :=
  let m := parseNat (tail.getD 0 "0")
  let impl := ((tail.drop 1).take (8 * m)).map fl
  match model with
  | some cs =>
    let flat := cs.flatMap cubl
    [out (name ++ ".curve_count") (cs.length == m) s!"model {cs.length} curves, implementation {m}",
     out (name ++ ".all_control_points") (allBiteq flat impl) s!"model {showL (flat.take 8)}… impl {showL (impl.take 8)}…"]
  | none => [out (name ++ ".curve_count") (m == 0) s!"model returns no chain, implementation {m} curves"]

def handle (op : String) (ins outs : List String) : List Out :=
  match op with
  | "normal" =>
    -- ins: w(8) t; outs: tangent(2) normal(2) unit tangent(2) unit normal(2)
    let iv := ins.map fl
    let w := curveOf iv
    let t := iv.getD 8 0.0
    let tg := tangent_at_pos w.1 w.2.1 w.2.2.1 w.2.2.2 t
    let nm := normal_at_pos w.1 w.2.1 w.2.2.1 w.2.2.2 t
    let model := v2l tg ++ v2l nm ++ v2l (to_unit_vector tg) ++ v2l (to_unit_vector nm)
    let impl := outs.map fl
    let part (name : String) (k : Nat) : Out :=
      out name (allBiteq ((model.drop k).take 2) ((impl.drop k).take 2)) s!"model {showL ((model.drop k).take 2)} impl {showL ((impl.drop k).take 2)}"
    [part "tangent_at_pos" 0, part "normal_at_pos" 2, part "tangent.to_unit_vector" 4, part "normal.to_unit_vector" 6]
  | "features" =>
    -- ins: w(8) #hint t1 t2; outs: #category #features p1 p2
    let iv := (ins.take 8).map fl
    let w := curveOf iv
    let hint := hintOf (ins.getD 8 "") (fl (ins.getD 9 "0")) (fl (ins.getD 10 "0"))
    let cat := catCode (characterize_cubic_bezier w.1 w.2.1 w.2.2.1 w.2.2.2)
    let (fk, p1, p2) := featCode (featuresOf w hint 0.01)
    let icat := parseNat (outs.getD 0 "")
    let ifk := parseNat (outs.getD 1 "")
    let ip := (outs.drop 2).map fl
    [out "characterize_curve" (cat == icat) s!"model category {cat} impl {icat}",
     out "features_for_curve" (fk == ifk && allBiteq [p1, p2] ip) s!"model {fk} {showL [p1, p2]} impl {ifk} {showL ip}"]
  | "lms" =>
    -- ins: w(8) #subdivisions d0 d1 toff #hint t1 t2; outs: #some #k ts(k) #m [first(2) last(2)]
    let iv := (ins.take 8).map fl
    let w := curveOf iv
    let n := parseNat (ins.getD 8 "")
    let d0 := fl (ins.getD 9 "0"); let d1 := fl (ins.getD 10 "0"); let toff := fl (ins.getD 11 "0")
    let hint := hintOf (ins.getD 12 "") (fl (ins.getD 13 "0")) (fl (ins.getD 14 "0"))
    let feat := featuresOf w hint
    let implSome := parseNat (outs.getD 0 "") == 1
    let k := parseNat (outs.getD 1 "")
    let implTs := ((outs.drop 2).take k).map fl
    let modelTs := offset_lms_sample_ts feat n
    let chain := offset_lms_sampling feat endsFitter w.1 w.2.1 w.2.2.1 w.2.2.2 (fun t => (d1 - d0) * t + d0) (fun _ => toff) n 0.1
    [out "offset_lms_sampling.is_some" (modelTs.isSome == implSome && chain.isSome == implSome) s!"subdivisions={n}: model {modelTs.isSome} impl {implSome}",
     out "offset_lms_sampling.sample_parameters" (allBiteq (modelTs.getD []) implTs)
       s!"subdivisions={n}: model {(modelTs.getD []).length} parameters {showL ((modelTs.getD []).take 6)}… impl {k} parameters {showL (implTs.take 6)}…"]
    ++ cmpEnds "offset_lms_sampling" chain (outs.drop (2 + k))
    ++ cmpAll "offset_lms_sampling" (offset_lms_sampling feat genFit w.1 w.2.1 w.2.2.1 w.2.2.2 (fun t => (d1 - d0) * t + d0) (fun _ => toff) n 0.1) (outs.drop (2 + k + 5))
  | "offset" =>
    -- ins: w(8) d0 d1 #hint t1 t2; outs: #m [first(2) last(2)]
    let iv := (ins.take 8).map fl
    let w := curveOf iv
    let d0 := fl (ins.getD 8 "0"); let d1 := fl (ins.getD 9 "0")
    let hint := hintOf (ins.getD 10 "") (fl (ins.getD 11 "0")) (fl (ins.getD 12 "0"))
    let chain := offset (featuresOf w hint) endsFitter w.1 w.2.1 w.2.2.1 w.2.2.2 d0 d1
    cmpEnds "offset" (some chain) outs
    ++ cmpAll "offset" (some (offset (featuresOf w hint) genFit w.1 w.2.1 w.2.2.1 w.2.2.2 d0 d1)) (outs.drop 5)
  | "scaling" =>
    -- ins: w(8) d0 d1 #hint t1 t2; outs: #m curves(8m)
    let iv := (ins.take 8).map fl
    let w := curveOf iv
    let d0 := fl (ins.getD 8 "0"); let d1 := fl (ins.getD 9 "0")
    let hint := hintOf (ins.getD 10 "") (fl (ins.getD 11 "0")) (fl (ins.getD 12 "0"))
    let model := offsetScaling (featuresOf w hint) w.1 w.2.1 w.2.2.1 w.2.2.2 d0 d1
    let m := parseNat (outs.getD 0 "")
    let impl := (outs.drop 1).map fl
    let mflat := model.flatMap cubl
    let firstBad := ((List.range (min mflat.length impl.length)).find? (fun i => !biteq (mflat.getD i 0.0) (impl.getD i 0.0))).getD 0
    [out "offset_scaling.curve_count" (model.length == m) s!"model {model.length} curves impl {m}",
     out "offset_scaling.control_points" (allBiteq mflat impl)
       s!"model {model.length} curves impl {m}; first difference at curve {firstBad / 8} coordinate {firstBad % 8}: model {showL ((mflat.drop firstBad).take 1)} impl {showL ((impl.drop firstBad).take 1)}"]
  | _ => [out ("unknown-op " ++ op) false "driver does not know this operation"]

end Driver.C10
