import FloVerif.Driver.Util
import FloVerif.Driver.C05
import FloVerif.Prelude.XQExt
import FloVerif.Gen.Section
import FloVerif.Gen.Lines
import FloVerif.Gen.FatLine
import FloVerif.Gen.CurveLine
import FloVerif.Gen.CurveBounds
import FloVerif.Gen.Walk
import FloVerif.Gen.Length
import FloVerif.Gen.Total
import FloVerif.Gen.PointInPath
import FloVerif.Model.Total
import FloVerif.Gen.SelfIntersect
import FloVerif.Model.SelfIntersect
/-!
Correspondence for C20: the generated definitions the finiteness theorems of `Props/C20.lean` are about, evaluated
* at `Float` (bit mirror of the Rust arithmetic) and
* at `XQ` (the very instance of the theorems: exact, IEEE-shaped),
against the implementation on the degenerate input classes of the property.

Every output number is first compared for its CLASS (finite / NaN / +∞ / −∞): the Float mirror must be in the same class
as the implementation, and the exact model must be finite exactly when the implementation is (a finite exact value with a
non-finite implementation value would be an overflow/underflow or a guard that only holds in exact arithmetic; a non-finite
exact value with a finite implementation value would be a mistake in `XQ`).  Then the values: the Float mirror within
1e-9 relative (bit equality is counted), and the exact model EXACTLY on the dyadic stream for the rounding-free kernels.

`f64::sqrt` at `XQ`: exact on perfect squares (which is what the degenerate inputs produce: zero vectors, axis-parallel
offsets, 3-4-5 triangles), the correctly rounded binary64 root otherwise (then only the class is compared).
-/
namespace Driver.C20
open Prelude Gen Driver Driver.C05

/-- integer square root (Newton), exact on perfect squares -/
def natSqrt (n : Nat) : Nat := Nat.sqrt n

def drvSqrt (q : Rat) : Rat :=
  if q ≤ 0 then 0 else
  let n := q.num.toNat
  let d := q.den
  let sn := natSqrt n
  let sd := natSqrt d
  if sn * sn == n && sd * sd == d then (sn : Rat) / (sd : Rat)
  else
    -- correctly rounded binary64 square root of the nearest double, decoded exactly; never 0 for q > 0
    let f := Float.sqrt (Float.ofScientific n false 0 / Float.ofScientific d false 0)
    let r := bitsToRat f.toBits
    if r ≤ 0 then q else r

local instance : FSqrt XQ := ⟨XQ.sqrtWith drvSqrt⟩

def clsF (x : Float) : Nat := if x.isNaN then 2 else if x.isInf then (if x > 0 then 3 else 4) else 0
def clsX : XQ → Nat | .nan => 2 | .pinf => 3 | .ninf => 4 | _ => 0
def clsName (c : Nat) : String := match c with | 0 => "finite" | 2 => "NaN" | 3 => "+inf" | _ => "-inf"

def closeF (a b : Float) : Bool :=
  a.toBits == b.toBits || (a - b).abs ≤ 1e-9 * (a.abs + b.abs) || (a - b).abs ≤ 1e-300

/-- one output number: class first, then value. `exact`: the exact model must reproduce the implementation exactly -/
def chk (exact : Bool) (name : String) (mx : Option XQ) (mf : Float) (i : FV) : Out :=
  let ci := clsF i.f
  let cf := clsF mf
  let fb := some (mf.toBits == i.bits || (mf.isNaN && i.f.isNaN))
  if cf != ci then
    { field := name, cmp := .diff s!"CLASS float mirror={clsName cf} ({mf}) impl={clsName ci} ({i.f})", fbit := fb }
  else
    match mx with
    | some x =>
      if (clsX x == 0) != (ci == 0) then
        { field := name, cmp := .diff s!"CLASS exact model={XQ.toStr x} impl={clsName ci} ({i.f})", fbit := fb }
      else if ci != 0 then { field := name, cmp := .same 0, fbit := fb }
      else if exact then { field := name, cmp := cmpXQ "D" 0 1 x i.bits, fbit := fb }
      else if closeF mf i.f then { field := name, cmp := .same 0, fbit := fb }
      else { field := name, cmp := .diff s!"float mirror={mf} impl={i.f}", fbit := fb }
    | none =>
      if ci != 0 || closeF mf i.f then { field := name, cmp := .same 0, fbit := fb }
      else { field := name, cmp := .diff s!"float mirror={mf} impl={i.f}", fbit := fb }

def ptF (l : List FV) (i : Nat) : V2 Float := ⟨(l.getD i default).f, (l.getD (i+1) default).f⟩
def ptX (l : List FV) (i : Nat) : V2 XQ := ⟨(l.getD i default).x, (l.getD (i+1) default).x⟩

def chk2 (exact : Bool) (name : String) (mx : V2 XQ) (mf : V2 Float) (o : List FV) (i : Nat) : List Out :=
  [chk exact (name ++ ".x") (some mx.x) mf.x (o.getD i default), chk exact (name ++ ".y") (some mx.y) mf.y (o.getD (i+1) default)]

def chkCurve (exact : Bool) (name : String) (mx : T4 (V2 XQ) (V2 XQ) (V2 XQ) (V2 XQ)) (mf : T4 (V2 Float) (V2 Float) (V2 Float) (V2 Float))
    (o : List FV) (i : Nat) : List Out :=
  chk2 exact (name ++ ".0") mx.t0 mf.t0 o i ++ chk2 exact (name ++ ".1") mx.t1 mf.t1 o (i+2) ++
  chk2 exact (name ++ ".2") mx.t2 mf.t2 o (i+4) ++ chk2 exact (name ++ ".3") mx.t3 mf.t3 o (i+6)

def bad (name msg : String) : Out := { field := name, cmp := .diff msg, fbit := none }
def good (name : String) : Out := { field := name, cmp := .same 0, fbit := none }

/-- `Option` of a point / pair as `#flag a b` -/
def chkOpt2 (strict : Bool) (name : String) (mx : Option (XQ × XQ)) (mf : Option (Float × Float)) (flag : Nat) (a b : FV) : List Out :=
  match mf, flag with
  | none, 0 =>
    (if strict && mx.isSome then [bad (name ++ ".some/none") "exact model=some impl=none (exact stream)"] else []) ++ [good (name ++ ".none")]
  | some r, 1 =>
    (if strict && mx.isNone then [bad (name ++ ".some/none") "exact model=none impl=some (exact stream)"] else []) ++
    [chk false (name ++ ".0") (mx.map (·.1)) r.1 a, chk false (name ++ ".1") (mx.map (·.2)) r.2 b]
  | _, _ => [bad (name ++ ".some/none") s!"float mirror={if mf.isSome then "some" else "none"} impl flag={flag}"]

def evenGoF (w1 w2 w3 w4 : V2 Float) (d : T3 (V2 Float) (V2 Float) (V2 Float)) (dist err : Float) :
    Nat → Float → V2 Float → Float → List (Float × Float)
  | 0, _, _, _ => []
  | n + 1, lastT, lastP, lastInc =>
    let r := even_walk_next w1 w2 w3 w4 d dist err lastT lastP lastInc
    match r.t0 with
    | none => []
    | some sec => (sec.t0, sec.t1) :: evenGoF w1 w2 w3 w4 d dist err n r.t1.t0 r.t1.t1 r.t1.t2

/-- a varied walk: `Model.Total.varyUpdate` with the next distance of the cycle, then the generated `even_walk_next` -/
def varyGoF (w1 w2 w3 w4 : V2 Float) (d : T3 (V2 Float) (V2 Float) (V2 Float)) (err : Float) (vs : List Float) :
    Nat → Nat → Float → Float → V2 Float → Float → List (Float × Float)
  | 0, _, _, _, _, _ => []
  | n + 1, k, dist, lastT, lastP, lastInc =>
    let u := Model.Total.varyUpdate (if vs.isEmpty then none else some (vs.getD (k % vs.length) 0.0)) dist lastInc
    let r := even_walk_next w1 w2 w3 w4 d u.t0 err lastT lastP u.t1
    match r.t0 with
    | none => []
    | some sec => (sec.t0, sec.t1) :: varyGoF w1 w2 w3 w4 d err vs n (k + 1) u.t0 r.t1.t0 r.t1.t1 r.t1.t2

def unevenGo (K : Type) [Div K] [OfInt K] (n : Nat) : Nat → Nat → List (K × K)
  | 0, _ => []
  | f + 1, k =>
    let r := uneven_walk_next (K := K) n k
    match r.t0 with
    | none => []
    | some sec => (sec.t0, sec.t1) :: unevenGo K n f r.t1

def isNat (s : String) : Bool := s.startsWith "#"

def handle (op stream : String) (ins outs : List String) : List Out :=
  let dy := stream == "D"
  let iv : List FV := (ins.filter (fun s => !isNat s)).map (fun s => ⟨parseHex s⟩)
  let inat : List Nat := (ins.filter isNat).map parseNat
  let ov : List FV := (outs.filter (fun s => !isNat s)).map (fun s => ⟨parseHex s⟩)
  let onat : List Nat := (outs.filter isNat).map parseNat
  let wF (i : Nat) : V2 Float := ptF iv (2*i)
  let wX (i : Nat) : V2 XQ := ptX iv (2*i)
  let o (i : Nat) : FV := ov.getD i default
  match op with
  | "eval" =>
    -- ins: w(8) t; outs: point(2) tangent(2) normal(2) unit tangent(2) unit normal(2) left(8) right(8)
    let t := iv.getD 8 default
    let tanX := tangent_at_pos (wX 0) (wX 1) (wX 2) (wX 3) t.x
    let tanF := tangent_at_pos (wF 0) (wF 1) (wF 2) (wF 3) t.f
    let nrmX := normal_at_pos (wX 0) (wX 1) (wX 2) (wX 3) t.x
    let nrmF := normal_at_pos (wF 0) (wF 1) (wF 2) (wF 3) t.f
    let subX := curve_subdivide (wX 0) (wX 1) (wX 2) (wX 3) t.x
    let subF := curve_subdivide (wF 0) (wF 1) (wF 2) (wF 3) t.f
    -- the unit vectors are taken of the implementation's own (rounded) tangent and normal
    chk2 dy "point_at_pos" (curve_point_at_pos (wX 0) (wX 1) (wX 2) (wX 3) t.x) (curve_point_at_pos (wF 0) (wF 1) (wF 2) (wF 3) t.f) ov 0 ++
    chk2 false "tangent_at_pos" tanX tanF ov 2 ++ chk2 false "normal_at_pos" nrmX nrmF ov 4 ++
    chk2 false "tangent.to_unit_vector" (to_unit_vector (ptX ov 2)) (to_unit_vector (ptF ov 2)) ov 6 ++
    chk2 false "normal.to_unit_vector" (to_unit_vector (ptX ov 4)) (to_unit_vector (ptF ov 4)) ov 8 ++
    chkCurve dy "subdivide.left" subX.t0 subF.t0 ov 10 ++ chkCurve dy "subdivide.right" subX.t1 subF.t1 ov 18
  | "sec" =>
    -- ins: w(8) a b t; outs: cp1(2) cp2(2) start(2) end(2) point(2) t_for_t section_t_for_original_t
    let a := iv.getD 8 default; let b := iv.getD 9 default; let t := iv.getD 10 default
    let sx := section_new a.x b.x
    let sf := section_new a.f b.f
    let cpX := section_control_points (wX 0) (wX 1) (wX 2) (wX 3) sx
    let cpF := section_control_points (wF 0) (wF 1) (wF 2) (wF 3) sf
    chk2 dy "section.cp1" cpX.t0 cpF.t0 ov 0 ++ chk2 dy "section.cp2" cpX.t1 cpF.t1 ov 2 ++
    chk2 dy "section.start_point" (section_start_point (wX 0) (wX 1) (wX 2) (wX 3) sx) (section_start_point (wF 0) (wF 1) (wF 2) (wF 3) sf) ov 4 ++
    chk2 dy "section.end_point" (section_end_point (wX 0) (wX 1) (wX 2) (wX 3) sx) (section_end_point (wF 0) (wF 1) (wF 2) (wF 3) sf) ov 6 ++
    chk2 dy "section.point_at_pos" (section_point_at_pos (wX 0) (wX 1) (wX 2) (wX 3) sx t.x) (section_point_at_pos (wF 0) (wF 1) (wF 2) (wF 3) sf t.f) ov 8 ++
    [chk dy "section.t_for_t" (some (section_t_for_t sx t.x)) (section_t_for_t sf t.f) (o 10),
     chk false "section.section_t_for_original_t" (some (section_t_for_original_t sx t.x)) (section_t_for_original_t sf t.f) (o 11)]
  | "line" =>
    -- ins: line(4) probe(2); outs: unnormalised(3) coefficients(3) distance nearest(2) pos_for_point nearest_pos
    let lX : T2 (V2 XQ) (V2 XQ) := ⟨ptX iv 0, ptX iv 2⟩
    let lF : T2 (V2 Float) (V2 Float) := ⟨ptF iv 0, ptF iv 2⟩
    let pX := ptX iv 4; let pF := ptF iv 4
    let unX := line_coefficients_2d_unnormalized lX; let unF := line_coefficients_2d_unnormalized lF
    let coX := line_coefficients_2d lX; let coF := line_coefficients_2d lF
    let npX := coefficients_nearest_point coX pX; let npF := coefficients_nearest_point coF pF
    [chk false "unnormalized.a" (some unX.t0) unF.t0 (o 0), chk false "unnormalized.b" (some unX.t1) unF.t1 (o 1),
     chk false "unnormalized.c" (some unX.t2) unF.t2 (o 2),
     chk false "coefficients.a" (some coX.t0) coF.t0 (o 3), chk false "coefficients.b" (some coX.t1) coF.t1 (o 4),
     chk false "coefficients.c" (some coX.t2) coF.t2 (o 5),
     chk false "distance_to" (some (coefficients_distance_to coX pX)) (coefficients_distance_to coF pF) (o 6),
     chk false "nearest_point.x" (some npX.x) npF.x (o 7), chk false "nearest_point.y" (some npX.y) npF.y (o 8),
     chk false "pos_for_point" (some (tot_line_pos_for_point lX pX)) (tot_line_pos_for_point lF pF) (o 9),
     -- nearest_pos = pos_for_point of the implementation's own nearest point
     chk false "nearest_pos" (some (tot_line_pos_for_point lX (ptX ov 7))) (tot_line_pos_for_point lF (ptF ov 7)) (o 10)]
  | "lines" =>
    -- ins: l1(4) l2(4); outs: (#flag x y) for line/line, line/ray, ray/ray
    let aX : T2 (V2 XQ) (V2 XQ) := ⟨ptX iv 0, ptX iv 2⟩; let bX : T2 (V2 XQ) (V2 XQ) := ⟨ptX iv 4, ptX iv 6⟩
    let aF : T2 (V2 Float) (V2 Float) := ⟨ptF iv 0, ptF iv 2⟩; let bF : T2 (V2 Float) (V2 Float) := ⟨ptF iv 4, ptF iv 6⟩
    let px (r : Option (V2 XQ)) := r.map (fun p => (p.x, p.y))
    let pf (r : Option (V2 Float)) := r.map (fun p => (p.x, p.y))
    chkOpt2 false "line_intersects_line" (px (line_intersects_line aX bX)) (pf (line_intersects_line aF bF)) (onat.getD 0 0) (o 0) (o 1) ++
    chkOpt2 false "line_intersects_ray" (px (line_intersects_ray aX bX)) (pf (line_intersects_ray aF bF)) (onat.getD 1 0) (o 2) (o 3) ++
    chkOpt2 false "ray_intersects_ray" (px (ray_intersects_ray aX bX)) (pf (ray_intersects_ray aF bF)) (onat.getD 2 0) (o 4) (o 5)
  | "fat" =>
    -- ins: against(8) curve(8); outs: from_curve(5) perpendicular(5) clip_t(#flag t1 t2) clip_t perpendicular(#flag t1 t2)
    let flX := fat_from_curve (wX 0) (wX 1) (wX 2) (wX 3); let flF := fat_from_curve (wF 0) (wF 1) (wF 2) (wF 3)
    let plX := fat_from_curve_perpendicular (wX 0) (wX 1) (wX 2) (wX 3); let plF := fat_from_curve_perpendicular (wF 0) (wF 1) (wF 2) (wF 3)
    let ctX := clip_t flX (wX 4) (wX 5) (wX 6) (wX 7); let ctF := clip_t flF (wF 4) (wF 5) (wF 6) (wF 7)
    let cpX := clip_t plX (wX 4) (wX 5) (wX 6) (wX 7); let cpF := clip_t plF (wF 4) (wF 5) (wF 6) (wF 7)
    [chk false "from_curve.d_min" (some flX.d_min) flF.d_min (o 0), chk false "from_curve.d_max" (some flX.d_max) flF.d_max (o 1),
     chk false "from_curve.a" (some flX.coeff.t0) flF.coeff.t0 (o 2), chk false "from_curve.b" (some flX.coeff.t1) flF.coeff.t1 (o 3),
     chk false "from_curve.c" (some flX.coeff.t2) flF.coeff.t2 (o 4),
     chk false "perpendicular.d_min" (some plX.d_min) plF.d_min (o 5), chk false "perpendicular.d_max" (some plX.d_max) plF.d_max (o 6),
     chk false "perpendicular.a" (some plX.coeff.t0) plF.coeff.t0 (o 7), chk false "perpendicular.b" (some plX.coeff.t1) plF.coeff.t1 (o 8),
     chk false "perpendicular.c" (some plX.coeff.t2) plF.coeff.t2 (o 9)] ++
    -- the exact model's range may differ from the rounded one (snapping windows, strip edges): only its finiteness is used
    (match ctX with | some r => if clsX r.t0 == 0 && clsX r.t1 == 0 then [good "clip_t.exact_finite"] else [bad "clip_t.exact_finite" s!"exact model returns {XQ.toStr r.t0} {XQ.toStr r.t1}"] | none => []) ++
    (match cpX with | some r => if clsX r.t0 == 0 && clsX r.t1 == 0 then [good "clip_t(perp).exact_finite"] else [bad "clip_t(perp).exact_finite" s!"exact model returns {XQ.toStr r.t0} {XQ.toStr r.t1}"] | none => []) ++
    chkOpt2 false "clip_t" none (ctF.map (fun r => (r.t0, r.t1))) (onat.getD 0 0) (o 10) (o 11) ++
    chkOpt2 false "clip_t(perpendicular)" none (cpF.map (fun r => (r.t0, r.t1))) (onat.getD 1 0) (o 12) (o 13)
  | "bbox" =>
    -- ins: w(8); outs: min(2) max(2) fast min(2) fast max(2); per axis (the implementation shares the extremities of both
    -- axes, which adds curve points only: same box up to the rounding of those evaluations)
    (List.range 2).flatMap fun k =>
      let cF (i : Nat) : Float := (iv.getD (2*i+k) default).f
      let cX (i : Nat) : XQ := (iv.getD (2*i+k) default).x
      let bF := bounding_box4 (cF 0) (cF 1) (cF 2) (cF 3); let bX := bounding_box4 (cX 0) (cX 1) (cX 2) (cX 3)
      let fF := fast_bounding_box (cF 0) (cF 1) (cF 2) (cF 3); let fX := fast_bounding_box (cX 0) (cX 1) (cX 2) (cX 3)
      [chk false s!"bounding_box.min.{k}" (some bX.t0) bF.t0 (o k), chk false s!"bounding_box.max.{k}" (some bX.t1) bF.t1 (o (2+k)),
       chk dy s!"fast_bounding_box.min.{k}" (some fX.t0) fF.t0 (o (4+k)), chk dy s!"fast_bounding_box.max.{k}" (some fX.t1) fF.t1 (o (6+k))]
  | "cray" =>
    -- ins: w(8) line(4) #n roots(n) (the raw roots of the external solver, hook H3); outs: #hits (t s x y)*
    let lF : T2 (V2 Float) (V2 Float) := ⟨ptF iv 8, ptF iv 10⟩
    let lX : T2 (V2 XQ) (V2 XQ) := ⟨ptX iv 8, ptX iv 10⟩
    let roots := iv.drop 12
    let mF := curve_intersects_ray (fun _ => roots.map (·.f)) (wF 0) (wF 1) (wF 2) (wF 3) lF
    let mX := curve_intersects_ray (fun _ => roots.map (·.x)) (wX 0) (wX 1) (wX 2) (wX 3) lX
    let hits := chunk 4 ov
    let xfin := mX.all (fun h => clsX h.t0 == 0 && clsX h.t1 == 0 && clsX h.t2.x == 0 && clsX h.t2.y == 0)
    (if xfin then [good "cray.exact_finite"] else [bad "cray.exact_finite" "the exact model returns a non-finite hit"]) ++
    (if mF.length != hits.length then [bad "cray.count" s!"float mirror: {mF.length} hits from the solver's {roots.length} roots, impl: {hits.length}"]
     else (mF.zip hits).flatMap fun (m, h) =>
      [chk false "cray.t" none m.t0 (h.getD 0 default), chk false "cray.s" none m.t1 (h.getD 1 default),
       chk false "cray.x" none m.t2.x (h.getD 2 default), chk false "cray.y" none m.t2.y (h.getD 3 default)])
  | "walk" =>
    -- ins: w(8) distance max_error #cap; outs: #n (a b)*
    let cap := inat.getD 0 0
    let st := walk_curve_evenly (wF 0) (wF 1) (wF 2) (wF 3) (iv.getD 8 default).f (iv.getD 9 default).f
    let stX := walk_curve_evenly (wX 0) (wX 1) (wX 2) (wX 3) (iv.getD 8 default).x (iv.getD 9 default).x
    let model := (evenGoF (wF 0) (wF 1) (wF 2) (wF 3) st.derivative st.distance st.max_error (cap + 1) st.last_t st.last_point st.last_increment).take cap
    let secs := chunk 2 ov
    let xfin := clsX stX.last_increment == 0 && clsX stX.distance == 0 && clsX stX.max_error == 0
    (if xfin then [good "walk.constructor.exact_finite"] else [bad "walk.constructor.exact_finite" s!"exact model: increment {XQ.toStr stX.last_increment}"]) ++
    (if model.length != secs.length then [bad "walk.count" s!"float mirror: {model.length} sections, impl: {secs.length}"]
     else (model.zip secs).flatMap fun (m, s) =>
      [chk false "walk.section.start" none m.1 (s.getD 0 default), chk false "walk.section.end" none m.2 (s.getD 1 default)])
  | "vary" =>
    -- ins: w(8) distance max_error v1 v2 v3 #cap; outs: #n (a b)*
    let cap := inat.getD 0 0
    let st := walk_curve_evenly (wF 0) (wF 1) (wF 2) (wF 3) (iv.getD 8 default).f (iv.getD 9 default).f
    let vs := ((iv.drop 10).take 3).map (·.f)
    let model := (varyGoF (wF 0) (wF 1) (wF 2) (wF 3) st.derivative st.max_error vs (cap + 1) 0 st.distance st.last_t st.last_point st.last_increment).take cap
    let secs := chunk 2 ov
    if model.length != secs.length then [bad "vary.count" s!"float mirror: {model.length} sections, impl: {secs.length}"]
    else [good "vary.count"] ++ (model.zip secs).flatMap fun (m, s) =>
      [chk false "vary.section.start" none m.1 (s.getD 0 default), chk false "vary.section.end" none m.2 (s.getD 1 default)]
  | "uneven" =>
    let n := inat.getD 0 0
    let mF := unevenGo Float n (n + 2) 0
    let mX := unevenGo XQ n (n + 2) 0
    let secs := chunk 2 ov
    if mF.length != secs.length || mX.length != secs.length then [bad "uneven.count" s!"model: {mF.length}/{mX.length} sections, impl: {secs.length}"]
    else [good "uneven.count"] ++ ((mF.zip mX).zip secs).flatMap fun ((f, x), s) =>
      [chk false "uneven.section.start" (some x.1) f.1 (s.getD 0 default), chk false "uneven.section.end" (some x.2) f.2 (s.getD 1 default)]
  | "len" =>
    -- ins: w(8) e; outs: curve_length chord polygon
    let e := iv.getD 8 default
    let lF := tot_section_length (wF 0) (wF 1) (wF 2) (wF 3) (section_new (0.0 : Float) (1.0 : Float)) e.f
    -- the exact model is only run where its loop is short (the work bound of the loop is 2·e/1e-12 pieces)
    let lX : Option XQ := if dy then some (section_length_fuel 4000 (wX 0) (wX 1) (wX 2) (wX 3) (section_new (0.0 : XQ) (1.0 : XQ)) e.x) else none
    [chk false "curve_length" none lF (o 0)] ++
    (match lX with | some x => if clsX x == 0 then [good "curve_length.exact_finite"] else [bad "curve_length.exact_finite" s!"exact model {XQ.toStr x}"] | none => []) ++
    [chk false "chord_length" (some (chord_length coord2_distance_to (wX 0) (wX 1) (wX 2) (wX 3))) (chord_length coord2_distance_to (wF 0) (wF 1) (wF 2) (wF 3)) (o 1),
     chk false "control_polygon_length" (some (control_polygon_length coord2_distance_to (wX 0) (wX 1) (wX 2) (wX 3))) (control_polygon_length coord2_distance_to (wF 0) (wF 1) (wF 2) (wF 3)) (o 2)]
  | "unit" =>
    -- ins: v(2); outs: unit(2) magnitude
    chk2 false "to_unit_vector" (to_unit_vector (ptX iv 0)) (to_unit_vector (ptF iv 0)) ov 0 ++
    [chk false "magnitude" (some (magnitude (ptX iv 0))) (magnitude (ptF iv 0)) (o 2)]
  | "selfint" =>
    -- ins: w(8) accuracy la lb ra rb #k (u1 u2)*; outs: #flag t1 t2 (flag 0 none, 1 some, 2 panic).  The clipper's answer on the
    -- two terminal halves is the implementation's own (`curve_intersects_curve_clip` on sections of sections is outside the generated
    -- clipper's control-point interface); the recursion, the categories of the halves, the choice among the clipper's pairs and
    -- the mapping back through `t_for_t` are the generated code's, compared bit for bit
    let acc := (iv.getD 8 default).f
    let tv := ((iv.drop 9).take 4).map (·.bits)
    let pairs : List (T2 Float Float) := (chunk 2 (iv.drop 13)).map (fun p => T2.mk (p.getD 0 default).f (p.getD 1 default).f)
    let nan : Float := 0.0 / 0.0
    let clipF : SectionT Float → SectionT Float → Float → List (T2 Float Float) := fun l r _ =>
      let lt := section_original_curve_t_values l
      let rt := section_original_curve_t_values r
      if [lt.t0.toBits, lt.t1.toBits, rt.t0.toBits, rt.t1.toBits] == tv then pairs else [T2.mk nan nan]
    let m := Model.SelfIntersect.findSelfIntersection clipF (some (T2.mk 2.0 2.0)) (some (T2.mk 3.0 3.0)) 4000 (wF 0) (wF 1) (wF 2) (wF 3) acc
    let flag := onat.getD 0 0
    let bit (name : String) (mf : Float) (i : FV) : Out :=
      if mf.toBits == i.bits then { field := name, cmp := .same 0, fbit := some true }
      else { field := name, cmp := .diff s!"generated code={mf} impl={i.f}", fbit := some false }
    match m, flag with
    | none, 0 => [good "selfint.none"]
    | some r, 2 => if r.t0 == 2.0 && r.t1 == 2.0 then [good "selfint.unimplemented"] else [bad "selfint.unimplemented" s!"impl panics, generated code: ({r.t0}, {r.t1})"]
    | some r, 1 =>
      if r.t0 == 2.0 && r.t1 == 2.0 then [bad "selfint.some" "generated code reaches the (Loop, Loop) arm, impl returns a pair"]
      else if r.t0 == 3.0 && r.t1 == 3.0 then [bad "selfint.some" "generated code out of fuel (4000 levels)"]
      else [bit "selfint.t1" r.t0 (o 0), bit "selfint.t2" r.t1 (o 1)]
    | _, _ => [bad "selfint.some/none" s!"generated code={if m.isSome then "some" else "none"} impl flag={flag}"]
  | _ => [{ field := "unknown-op " ++ op, cmp := .diff "driver does not know this operation", fbit := none }]

end Driver.C20
