import FloVerif.Driver.Util
import FloVerif.Driver.C05
import FloVerif.Model.Nearest
/-!
Correspondence for C09: the Float instance of the generated root finder (`Gen.find_bezier_roots` with everything it
calls: `count_x_axis_crossings`, `flat_enough`, `find_x_intercept`, `find_x_intercept_newton_raphson`, `de_casteljau_n`,
`derivative_n`, `subdivide_n`, `line_coefficients_2d`), of the generated candidate loop
(`Gen.nearest_point_on_curve_bezier_root_finder`), of `nearest_point` / `distance_to` / `path_closest_point`, and of the
hand model of `distance_in_bezier_form`, against the implementation - bit for bit (every operation is an IEEE
operation in the same order, so there is no tolerance).
-/
namespace Driver.C09
open Prelude Gen Driver Driver.C05 Model.Nearest

def fv (l : List FV) (i : Nat) : Float := (l.getD i default).f
def pt (l : List FV) (i : Nat) : V2 Float := ⟨fv l i, fv l (i + 1)⟩

def bitsEq (a : Float) (b : FV) : Bool := a.toBits == b.bits || (a.isNaN && b.f.isNaN)

/-- bit-exact comparison of one number -/
def bit (field : String) (model : Float) (impl : FV) : Out :=
  let ok := bitsEq model impl
  { field := field, cmp := if ok then .same 0 else .diff s!"model={model} (bits {model.toBits}) impl={impl.f} (bits {impl.bits})",
    fbit := some ok }

def flag (field : String) (ok : Bool) (msg : String) : Out :=
  { field := field, cmp := if ok then .same 0 else .diff msg, fbit := none }

/-- the number of iterations the loop of `find_bezier_roots` performs on `pts` (same tests as the generated loop, which
    has fuel 100000): reported so that every compared run is known to end far below the fuel -/
def loopIterations (n : Nat) (pts : List (V2 Float)) : Nat :=
  let rec go (fuel : Nat) (stack : List (List (V2 Float) × Nat)) (count : Nat) : Nat :=
    match fuel with
    | 0 => count
    | fuel + 1 =>
      match stack with
      | [] => count
      | (s, d) :: rest =>
        let c := count_x_axis_crossings n s
        if c == 0 then go fuel rest (count + 1)
        else if c == 1 && flat_enough n s then go fuel rest (count + 1)
        else if d ≥ 48 then go fuel rest (count + 1)
        else
          let h := subdivide_n n (0.5 : Float) s
          go fuel ((h.t0, d + 1) :: (h.t1, d + 1) :: rest) (count + 1)
  go 100000 [(pts, 0)] 0

def handle (op : String) (ins outs : List String) : List Out :=
  match op with
  | "roots" =>
    -- ins: #N (x y)*N ; outs: #k r*k
    let n := parseNat (ins.headD "0")
    let iv : List FV := (ins.drop 1).map (fun s => ⟨parseHex s⟩)
    let pts : List (V2 Float) := (List.range n).map (fun i => pt iv (2 * i))
    let k := parseNat (outs.headD "0")
    let ov : List FV := (outs.drop 1).map (fun s => ⟨parseHex s⟩)
    let model := find_bezier_roots (K := Float) n pts
    let its := loopIterations n pts
    flag "loop_iterations<=2000" (its ≤ 2000) s!"the loop needs {its} iterations (fuel of the generated loop: 100000)" ::
    flag "number_of_roots" (model.length == k) s!"model returns {model} ({model.length} values), implementation {k}" ::
      (List.range (min k model.length)).map (fun i => bit s!"root" (model.getD i 0) (ov.getD i default))
  | "nearest" =>
    -- ins: w1 w2 w3 w4 q ; outs: t(root finder) t(nearest_t) nearest_point.x .y distance_to
    let iv : List FV := ins.map (fun s => ⟨parseHex s⟩)
    let ov : List FV := outs.map (fun s => ⟨parseHex s⟩)
    let (w1, w2, w3, w4, q) := (pt iv 0, pt iv 2, pt iv 4, pt iv 6, pt iv 8)
    -- everything generated, incl. the Bézier form (`gen_distance_in_bezier_form`); the hand model of the Bézier form is run alongside
    let t := nearest_t_gen w1 w2 w3 w4 q
    let th := nearest_t w1 w2 w3 w4 q
    let its := loopIterations 6 (gen_distance_in_bezier_form w1 w2 w3 w4 q)
    let p := curve_nearest_point nearest_t_gen w1 w2 w3 w4 q
    let d := curve_distance_to nearest_t_gen w1 w2 w3 w4 q
    [flag "loop_iterations<=2000" (its ≤ 2000) s!"the loop needs {its} iterations (fuel of the generated loop: 100000)",
     bit "nearest_point_on_curve_bezier_root_finder" t (ov.getD 0 default), bit "nearest_t" t (ov.getD 1 default),
     bit "nearest_t(hand model of the Bezier form)" th (ov.getD 1 default),
     bit "nearest_point.x" p.x (ov.getD 2 default), bit "nearest_point.y" p.y (ov.getD 3 default),
     bit "distance_to" d (ov.getD 4 default)]
  | "quintic" =>
    -- ins: w1 w2 w3 w4 q ; outs: (x y)*6 of distance_in_bezier_form (hook H3)
    let iv : List FV := ins.map (fun s => ⟨parseHex s⟩)
    let ov : List FV := outs.map (fun s => ⟨parseHex s⟩)
    let c := gen_distance_in_bezier_form (pt iv 0) (pt iv 2) (pt iv 4) (pt iv 6) (pt iv 8)
    flag "number_of_points" (c.length == 6 && ov.length == 12) s!"model has {c.length} points, implementation {ov.length / 2}" ::
      (List.range 6).flatMap (fun i => [bit s!"x{i}" (c.getD i default).x (ov.getD (2 * i) default),
                                         bit s!"y{i}" (c.getD i default).y (ov.getD (2 * i + 1) default)])
  | "path" =>
    -- ins: #n (w1 w2 w3 w4)*n q ; outs: #idx t distance point.x point.y
    let n := parseNat (ins.headD "0")
    let iv : List FV := (ins.drop 1).map (fun s => ⟨parseHex s⟩)
    let curves : List (T4 (V2 Float) (V2 Float) (V2 Float) (V2 Float)) :=
      (List.range n).map (fun i => T4.mk (pt iv (8 * i)) (pt iv (8 * i + 2)) (pt iv (8 * i + 4)) (pt iv (8 * i + 6)))
    let q := pt iv (8 * n)
    let idx := parseNat (outs.headD "0")
    let ov : List FV := (outs.drop 1).map (fun s => ⟨parseHex s⟩)
    let r := path_closest_gen curves q
    [flag "curve_index" (r.t0 == idx) s!"model index {r.t0}, implementation {idx}",
     bit "t" r.t1 (ov.getD 0 default), bit "distance" r.t2 (ov.getD 1 default),
     bit "point.x" r.t3.x (ov.getD 2 default), bit "point.y" r.t3.y (ov.getD 3 default)]
  | "poly" =>
    -- ins: #n c0 .. c(n-1); outs: (x y)*n of polynomial_to_bezier::<Coord2, N>.  Generated function at Float, bit for bit.
    let n := parseNat (ins.headD "0")
    let cs : List Float := ((ins.drop 1).take n).map (fun s => (⟨parseHex s⟩ : FV).f)
    let ov : List FV := outs.map (fun s => ⟨parseHex s⟩)
    let c := polynomial_to_bezier cs
    flag "number_of_points" (c.length == n && ov.length == 2 * n) s!"model has {c.length} points, implementation {ov.length / 2}" ::
      (List.range n).flatMap (fun i => [bit s!"poly.x" (c.getD i default).x (ov.getD (2 * i) default),
                                         bit s!"poly.y" (c.getD i default).y (ov.getD (2 * i + 1) default)])
  | _ => [flag ("unknown-op " ++ op) false "driver does not know this operation"]

end Driver.C09
