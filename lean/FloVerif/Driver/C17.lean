import FloVerif.Driver.Util
import FloVerif.Driver.C18
import FloVerif.Model.Contour
/-! Correspondence for C17: literal model of the scan iterator and of the tracer against the implementation (exact). -/
namespace Driver.C17
open Prelude Driver Model Driver.C18

def parseBits (w h : Nat) (s : String) : List (List Bool) :=
  let bs := if s == "-" then [] else s.toList.map (· == '1')
  (List.range h).map fun y => (bs.drop (y * w)).take w

def sortNats (l : List Nat) : List Nat := l.mergeSort (fun a b => decide (a ≤ b))

def rotateToMin (l : List Nat) : List Nat :=
  match l.min? with
  | none => []
  | some m =>
    let i := (l.findIdx? (· == m)).getD 0
    l.drop i ++ l.take i

/-- canonical form of a closed loop (last element repeats the first): rotate to the least id, pick the direction
    with the smaller second element -/
def canonLoop (l : List Nat) : List Nat :=
  let body := l.dropLast
  let a := rotateToMin body
  let b := rotateToMin body.reverse
  if (a.getD 1 0) ≤ (b.getD 1 0) then a else b

def lexLe : List Nat → List Nat → Bool
  | [], _ => true
  | _ :: _, [] => false
  | a :: as, b :: bs => if a < b then true else if a > b then false else lexLe as bs

def canonLoops (ls : List (List Nat)) : List (List Nat) := (ls.map canonLoop).mergeSort lexLe

def handle (op : String) (ins outs : List String) : List Out :=
  match op with
  | "bitmap" =>
    let ((w, h, bits), _) := (do let w ← nat; let h ← nat; let b ← tok; return (w, h, b) : P _).run ins
    let rows := parseBits w h bits
    let parsed := (do
        let n ← nat
        let cells ← many n (do let x ← nat; let y ← nat; let c ← nat; return ((x, y), c))
        let _ ← tok
        let k ← nat
        let loops ← many k natList
        return (cells, loops) : P _).run outs
    let (cells, loops) := parsed.1
    let modelCells := Contour.edgeCells w rows
    let specCells := Contour.mixedCells w rows
    let modelLoops := Contour.traceContours w rows
    let implCanon := canonLoops loops
    let used := sortNats (loops.flatMap (·.dropLast))
    let boundary := sortNats (Contour.boundaryEdges w rows)
    [mk "scan_cells(model iterator)" (modelCells == cells) s!"model={modelCells} impl={cells}",
     mk "scan_cells(spec: mixed cells)" (specCells == cells) s!"spec={specCells} impl={cells}",
     mk "loops(model tracer)" (match modelLoops with | some ml => canonLoops ml == implCanon | none => false)
        s!"model={modelLoops.map canonLoops} impl={implCanon}",
     mk "loops(spec: every boundary edge once)" (used == boundary) s!"used={used} boundary={boundary}"]
  | _ => [mk ("unknown-op " ++ op) false "driver does not know this operation"]

end Driver.C17
