import FloVerif.Driver.Util
import FloVerif.Driver.C18
import FloVerif.Model.Contour
/-! Correspondence for C17: literal model of the rounding stage, of the scan iterator and of the tracer against the
implementation (exact), for every kind of contour the harness builds (`bitmap` = BoolSampledContour, `bitmap_u8` =
U8SampledContour, `frac` = a contour given by fractional intercepts, `scaled` = the library's ScaledContour, `round` =
`rounded_intercepts_on_line` on its own). -/
namespace Driver.C17
open Prelude Driver Model Driver.C18

/-- the samples as the harness handed them to the contour type (a flat, row-major vector); '0' is outside, any other
    hex digit is that non-zero byte value -/
def parseFlat (s : String) : List Nat := if s == "-" then [] else s.toList.map hexVal

/-- the bitmap the harness meant: row `y` is the slice `[y*w, (y+1)*w)` of the flat vector -/
def parseBits (w h : Nat) (s : String) : List (List Bool) :=
  let bs := (parseFlat s).map (· != 0)
  (List.range h).map fun y => (bs.drop (y * w)).take w

def sortNats (l : List Nat) : List Nat := l.mergeSort (fun a b => decide (a ≤ b))

def rotateToMin (l : List Nat) : List Nat :=
  match l.min? with
  | none => []
  | some m =>
    let i := (l.findIdx? (· == m)).getD 0
    l.drop i ++ l.take i

/-- canonical form of a closed loop (last element repeats the first): rotate to the least id, pick the direction
    with the smaller second element -/
def canonLoop (l : List Nat) : List Nat :=
  let body := l.dropLast
  let a := rotateToMin body
  let b := rotateToMin body.reverse
  if (a.getD 1 0) ≤ (b.getD 1 0) then a else b

def lexLe : List Nat → List Nat → Bool
  | [], _ => true
  | _ :: _, [] => false
  | a :: as, b :: bs => if a < b then true else if a > b then false else lexLe as bs

def canonLoops (ls : List (List Nat)) : List (List Nat) := (ls.map canonLoop).mergeSort lexLe

abbrev Cells := List ((Nat × Nat) × Nat)

/-- `many` with a linear-time accumulator (the cell and loop lists of a 64×64 bitmap have thousands of entries) -/
def manyL {β} (n : Nat) (p : P β) : P (List β) := do
  let mut out := []
  for _ in [0:n] do
    out := (← p) :: out
  return out.reverse

def parseOuts (outs : List String) : Cells × List (List Nat) :=
  ((do
    let n ← nat
    let cells ← manyL n (do let x ← nat; let y ← nat; let c ← nat; return ((x, y), c))
    let _ ← tok
    let k ← nat
    let loops ← manyL k (do let m ← nat; manyL m nat)
    return (cells, loops) : P _).run outs).1

/-- the four comparisons of one contour: the model of the scan and of the tracer (run on what the model of the contour
    type feeds them) and the specification (mixed cells / boundary edges of the bitmap `spec` the contour stands for) -/
def compare (w : Nat) (modelCells : Cells) (modelLoops : Option (List (List Nat))) (spec : List (List Bool))
    (outs : List String) : List Out :=
  let (cells, loops) := parseOuts outs
  let specCells := Contour.mixedCells w spec
  let implCanon := canonLoops loops
  let used := sortNats (loops.flatMap (·.dropLast))
  let boundary := sortNats (Contour.boundaryEdges w spec)
  [mk "scan_cells(model iterator)" (modelCells == cells) s!"model={modelCells} impl={cells}",
   mk "scan_cells(spec: mixed cells)" (specCells == cells) s!"spec={specCells} impl={cells}",
   mk "loops(model tracer)" (match modelLoops with | some ml => canonLoops ml == implCanon | none => false)
      s!"model={modelLoops.map canonLoops} impl={implCanon}",
   mk "loops(spec: every boundary edge once)" (used == boundary) s!"used={used} boundary={boundary}"]

def franges : P (List Contour.FRange) := do
  let k ← nat
  manyL k (do let s ← rat; let e ← rat; return (s, e))

def handle (op : String) (ins outs : List String) : List Out :=
  match op with
  | "bitmap" =>
    let ((w, h, bits), _) := (do let w ← nat; let h ← nat; let b ← tok; return (w, h, b) : P _).run ins
    -- what the code reads out of the sample vector (index computed by the generated `bool_point_index`)
    let rows := Contour.boolRows w h ((parseFlat bits).map (· != 0))
    compare w (Contour.edgeCells w rows) (Contour.traceContours w rows) (parseBits w h bits) outs
  | "bitmap_u8" =>
    let ((w, h, bits), _) := (do let w ← nat; let h ← nat; let b ← tok; return (w, h, b) : P _).run ins
    let rows := Contour.u8Rows w h (parseFlat bits)
    compare w (Contour.edgeCells w rows) (Contour.traceContours w rows) (parseBits w h bits) outs
  | "frac" | "scaled" =>
    let ((w, h, bits, lines), _) := (do
        let w ← nat; let h ← nat; let b ← tok
        let lines ← manyL h franges
        return (w, h, b, lines) : P _).run ins
    let spec := parseBits w h bits
    let sampled := lines.map (Contour.sampleRow w)
    mk "intercepts sample to the bitmap" (sampled == spec) s!"sampled={sampled} bitmap={spec}" ::
      compare w (Contour.edgeCellsFrac w lines) (Contour.traceContoursFrac w lines) spec outs
  | "round" =>
    let (l, _) := (franges : P _).run ins
    let (impl, _) := (do let m ← nat; manyL m (do let s ← nat; let e ← nat; return (s, e)) : P _).run outs
    let model := Contour.roundFrac l
    [mk "rounded_intercepts_on_line(model roundFrac)" (model == impl) s!"ranges={l} model={model} impl={impl}"]
  | _ => [mk ("unknown-op " ++ op) false "driver does not know this operation"]

end Driver.C17
