import FloVerif.Driver.Util
import FloVerif.Driver.C18
import FloVerif.Gen.Fit
import FloVerif.Driver.C10
import FloVerif.Model.FitKernel
/-! Correspondence for C08: the block boundaries the generated block loop predicts must be joints of the real result. -/
namespace Driver.C08
open Prelude Gen Driver Driver.C18
open Driver.C10 (biteq allBiteq fl showL v2l cubl)

/-- block start indices as the generated `fit_curve` computes them (a fitter that records its slice's first index) -/
def blockStarts (n : Nat) : List Nat :=
  let pts := List.range n
  match fit_curve (K := Float) (P := Nat) (C := Nat) (fun ps _ _ _ => [ps.headD 0]) (fun _ => 0) (fun _ => 0) pts 1.0 with
  | some l => l
  | none => []

def pts : List Float → List (V2 Float)
  | x :: y :: rest => ⟨x, y⟩ :: pts rest
  | _ => []

def handle (op : String) (ins outs : List String) : List Out :=
  match op with
  | "blocks" =>
    -- ins: n ; outs: isSome k joints[k] (indices of input points that are joints between consecutive result curves, plus 0)
    let n := parseNat (ins.getD 0 "0")
    let isSome := parseNat (outs.getD 0 "0")
    let (joints, _) := (do let _ ← tok; natList : P _).run outs
    let starts := blockStarts n
    let modelSome := (fit_curve (K := Float) (P := Nat) (C := Nat) (fun ps _ _ _ => [ps.headD 0]) (fun _ => 0) (fun _ => 0) (List.range n) 1.0).isSome
    [mk "none_iff" (modelSome == (isSome == 1)) s!"n={n}: model some={modelSome} impl some={isSome}",
     mk "block_starts_are_joints" (starts.all (fun s => joints.contains s)) s!"n={n}: model block starts {starts} not all among the implementation's joints {joints}"]
  | "fit" =>
    -- ins: max_error #n x0 y0 x1 y1 ...; outs: #isSome #k then 8 numbers per curve.  The WHOLE generated fitter at Float, bit for bit.
    let me := fl (ins.getD 0 "0")
    let n := parseNat (ins.getD 1 "0")
    let coords := ((ins.drop 2).take (2 * n)).map fl
    let model := Model.FitKernel.fitCurveGen (K := Float) (pts coords) me
    let isSome := parseNat (outs.getD 0 "0")
    let k := parseNat (outs.getD 1 "0")
    let impl := ((outs.drop 2).take (8 * k)).map fl
    if isSome == 2 then [mk "fit_curve.panic" false s!"the implementation panicked on {n} points with max_error {me}; the generated fitter returns {if model.isSome then "a chain" else "None"}"] else
    match model with
    | none => [mk "fit_curve.none_iff" (isSome == 0) s!"model None, implementation Some of {k} curves"]
    | some cs =>
      let flat := cs.flatMap cubl
      [mk "fit_curve.none_iff" (isSome == 1) "model Some, implementation None",
       mk "fit_curve.curve_count" (cs.length == k) s!"model {cs.length} curves, implementation {k}",
       mk "fit_curve.control_points" (allBiteq flat impl) s!"model {showL (flat.take 16)} ... impl {showL (impl.take 16)} ..."]
  | "fitloop" =>
    -- ins / outs as "fit"; `fit_curve_loop` (generated) at Float, bit for bit
    let me := fl (ins.getD 0 "0")
    let n := parseNat (ins.getD 1 "0")
    let coords := ((ins.drop 2).take (2 * n)).map fl
    let model := Model.FitKernel.fitCurveLoopGen (K := Float) (pts coords) me
    let isSome := parseNat (outs.getD 0 "0")
    let k := parseNat (outs.getD 1 "0")
    let impl := ((outs.drop 2).take (8 * k)).map fl
    if isSome == 2 then [mk "fit_curve_loop.panic" false s!"the implementation panicked on {n} points with max_error {me}"] else
    match model with
    | none => [mk "fit_curve_loop.none_iff" (isSome == 0) s!"model None, implementation Some of {k} curves"]
    | some cs =>
      let flat := cs.flatMap cubl
      [mk "fit_curve_loop.none_iff" (isSome == 1) "model Some, implementation None",
       mk "fit_curve_loop.curve_count" (cs.length == k) s!"model {cs.length} curves, implementation {k}",
       mk "fit_curve_loop.control_points" (allBiteq flat impl) s!"model {showL (flat.take 16)} ... impl {showL (impl.take 16)} ..."]
  | "cubic" =>
    -- ins: max_error st(2) et(2) #n points; outs: #k curves.  `fit_curve_cubic` with the caller's tangents, bit for bit.
    let hd := (ins.take 5).map fl
    let n := parseNat (ins.getD 5 "0")
    let ps := pts (((ins.drop 6).take (2 * n)).map fl)
    let model := Model.FitKernel.fitCubicGen (K := Float) (ps.length + 1) ps ⟨hd.getD 1 0, hd.getD 2 0⟩ ⟨hd.getD 3 0, hd.getD 4 0⟩ (hd.getD 0 0)
    let k := parseNat (outs.getD 0 "0")
    let impl := ((outs.drop 1).take (8 * k)).map fl
    let flat := model.flatMap cubl
    [mk "fit_curve_cubic.curve_count" (model.length == k) s!"model {model.length} curves, implementation {k}",
     mk "fit_curve_cubic.control_points" (allBiteq flat impl) s!"model {showL (flat.take 16)} ... impl {showL (impl.take 16)} ..."]
  | _ => [mk ("unknown-op " ++ op) false "driver does not know this operation"]

end Driver.C08
