import FloVerif.Driver.Util
import FloVerif.Driver.C18
import FloVerif.Gen.Fit
/-! Correspondence for C08: the block boundaries the generated block loop predicts must be joints of the real result. -/
namespace Driver.C08
open Prelude Gen Driver Driver.C18

/-- block start indices as the generated `fit_curve` computes them (a fitter that records its slice's first index) -/
def blockStarts (n : Nat) : List Nat :=
  let pts := List.range n
  match fit_curve (K := Float) (P := Nat) (C := Nat) (fun ps _ _ _ => [ps.headD 0]) (fun _ => 0) (fun _ => 0) pts 1.0 with
  | some l => l
  | none => []

def handle (op : String) (ins outs : List String) : List Out :=
  match op with
  | "blocks" =>
    -- ins: n ; outs: isSome k joints[k] (indices of input points that are joints between consecutive result curves, plus 0)
    let n := parseNat (ins.getD 0 "0")
    let isSome := parseNat (outs.getD 0 "0")
    let (joints, _) := (do let _ ← tok; natList : P _).run outs
    let starts := blockStarts n
    let modelSome := (fit_curve (K := Float) (P := Nat) (C := Nat) (fun ps _ _ _ => [ps.headD 0]) (fun _ => 0) (fun _ => 0) (List.range n) 1.0).isSome
    [mk "none_iff" (modelSome == (isSome == 1)) s!"n={n}: model some={modelSome} impl some={isSome}",
     mk "block_starts_are_joints" (starts.all (fun s => joints.contains s)) s!"n={n}: model block starts {starts} not all among the implementation's joints {joints}"]
  | _ => [mk ("unknown-op " ++ op) false "driver does not know this operation"]

end Driver.C08
