import FloVerif.Driver.Util
import FloVerif.Driver.C05
import FloVerif.Gen.CurveClip
import FloVerif.Model.CurveClip
import FloVerif.Gen.Overlaps
import FloVerif.Gen.LinearFallback
/-!
Correspondence for C02: the generated `curve_intersects_curve_clip` (the whole recursion, `Gen.CurveClip` + the knot in
`Model.CurveClip`) run at `Float` against the real function, bit for bit.

The two callees outside the translated subset (`overlapping_region`, asked once by the wrapper, and
`intersections_with_linear_section`) are answered from the tables the harness recorded (keyed by the bit patterns of the `original_curve_t_values` of the two sections);
a question that is not in the tables is answered with NaN, which then shows up as a difference of the result.
-/
namespace Driver.C02
open Prelude Gen Driver Driver.C05 Model.CurveClip

abbrev Key := UInt64 × UInt64 × UInt64 × UInt64

def keyOf (a b : SectionT Float) : Key :=
  let p := section_original_curve_t_values a
  let q := section_original_curve_t_values b
  (p.t0.toBits, p.t1.toBits, q.t0.toBits, q.t1.toBits)

def nan : Float := Float.ofBits 0x7ff8000000000000

structure Tables where
  ovl : List (Key × Option (T2 (T2 Float Float) (T2 Float Float))) := []
  lin : List (Nat × Key × List (T2 Float Float)) := []

def hexF (s : String) : Float := Float.ofBits (parseHex s)
def key4 (l : List String) : Key := (parseHex (l.getD 0 "0"), parseHex (l.getD 1 "0"), parseHex (l.getD 2 "0"), parseHex (l.getD 3 "0"))

def pairs : Nat → List String → List (T2 Float Float)
  | 0, _ => []
  | n + 1, a :: b :: rest => T2.mk (hexF a) (hexF b) :: pairs n rest
  | _, _ => []

/-- `n` entries `k k k k #0` / `k k k k #1 r r r r` -/
def parseOvl : Nat → List String → List (Key × Option (T2 (T2 Float Float) (T2 Float Float))) × List String
  | 0, l => ([], l)
  | n + 1, l =>
    let k := key4 l
    let l := l.drop 4
    if parseNat (l.headD "#0") == 0 then
      let (r, rest) := parseOvl n (l.drop 1)
      ((k, none) :: r, rest)
    else
      let v := (l.drop 1).take 4
      let o := T2.mk (T2.mk (hexF (v.getD 0 "0")) (hexF (v.getD 1 "0"))) (T2.mk (hexF (v.getD 2 "0")) (hexF (v.getD 3 "0")))
      let (r, rest) := parseOvl n (l.drop 5)
      ((k, some o) :: r, rest)

/-- `n` entries `#which k k k k #m (t t)*m` -/
def parseLin : Nat → List String → List (Nat × Key × List (T2 Float Float)) × List String
  | 0, l => ([], l)
  | n + 1, l =>
    let w := parseNat (l.headD "#0")
    let k := key4 (l.drop 1)
    let m := parseNat (l.getD 5 "#0")
    let hits := pairs m (l.drop 6)
    let (r, rest) := parseLin n (l.drop (6 + 2 * m))
    ((w, k, hits) :: r, rest)

def lookupOvl (tb : Tables) (a b : SectionT Float) : Option (T2 (T2 Float Float) (T2 Float Float)) :=
  match tb.ovl.find? (fun e => e.1 == keyOf a b) with
  | some e => e.2
  | none => some (T2.mk (T2.mk nan nan) (T2.mk nan nan))      -- not asked by the implementation: poison

def lookupLin (tb : Tables) (which : Nat) (linear curved : SectionT Float) : List (T2 Float Float) :=
  match tb.lin.find? (fun e => e.1 == which && e.2.1 == keyOf linear curved) with
  | some e => e.2.2
  | none => [T2.mk nan nan]

def showHits (l : List (T2 Float Float)) : String := toString (l.map fun h => (h.t0, h.t1))

def cmpHits (field : String) (m i : List (T2 Float Float)) : List Out :=
  if m.length != i.length then
    [{ field := field ++ ".count", cmp := .diff s!"model={showHits m} impl={showHits i}", fbit := none }]
  else
    { field := field ++ ".count", cmp := .same 0, fbit := none } ::
    (m.zip i).flatMap fun (a, b) =>
      let one (n : String) (x y : Float) : Out :=
        { field := field ++ n, cmp := if x.toBits == y.toBits then .same 0 else .diff s!"model={x} impl={y} (NaN = a section pair the implementation never asked its callee about)",
          fbit := some (x.toBits == y.toBits) }
      [one ".t1" a.t0 b.t0, one ".t2" a.t1 b.t1]

/-- recursion depth given to the model (`C02.recursion_depth_irrelevant`: any depth from 21 on gives the same result in exact
    arithmetic; the implementation's depth is bounded by the zero-length test at entry) -/
def depth : Nat := 200

def handle (op : String) (ins outs : List String) : List Out :=
  match op with
  | "clip" =>
    let pt (i : Nat) : V2 Float := ⟨hexF (ins.getD (2*i) "0"), hexF (ins.getD (2*i+1) "0")⟩
    let acc := hexF (ins.getD 16 "0")
    let rest := ins.drop 17
    let (ovl, rest) := parseOvl (parseNat (rest.headD "#0")) (rest.drop 1)
    let (lin, _) := parseLin (parseNat (rest.headD "#0")) (rest.drop 1)
    let tb : Tables := { ovl := ovl, lin := lin }
    let cx : Ctx Float := { ovl := lookupOvl tb, lin12 := fun l c _ => lookupLin tb 0 l c, lin21 := fun l c _ => lookupLin tb 1 l c,
                            a1 := pt 0, a2 := pt 1, a3 := pt 2, a4 := pt 3, b1 := pt 4, b2 := pt 5, b3 := pt 6, b4 := pt 7 }
    let model := clipTop cx depth acc
    let impl := pairs (parseNat (outs.headD "#0")) (outs.drop 1)
    cmpHits "clip" model impl
  | "shadow" =>
    -- the harness' own copy of the private inner function (it only supplies the tables) against the real function
    let sh := pairs (parseNat (ins.headD "#0")) (ins.drop 1)
    let impl := pairs (parseNat (outs.headD "#0")) (outs.drop 1)
    cmpHits "shadow" sh impl
  | "tfp" =>
    -- ins: curve(8) point(2) accuracy #nx roots_x #ny roots_y; outs: #isSome [t].  `solve_curve_for_t_along_axis` (generated) with the
    -- answers of `solve_basis_for_t` from the table, bit for bit
    let pt (i : Nat) : V2 Float := ⟨hexF (ins.getD (2*i) "0"), hexF (ins.getD (2*i+1) "0")⟩
    let point := pt 4
    let acc := hexF (ins.getD 10 "0")
    let nx := parseNat (ins.getD 11 "#0")
    let rx := ((ins.drop 12).take nx).map hexF
    let ny := parseNat (ins.getD (12 + nx) "#0")
    let ry := ((ins.drop (13 + nx)).take ny).map hexF
    -- the table is keyed by the whole question (equal questions have equal answers)
    let solver (w1 w2 w3 w4 p : Float) : List Float :=
      if w1.toBits == (pt 0).x.toBits && w2.toBits == (pt 1).x.toBits && w3.toBits == (pt 2).x.toBits && w4.toBits == (pt 3).x.toBits
          && p.toBits == point.x.toBits then rx
      else if w1.toBits == (pt 0).y.toBits && w2.toBits == (pt 1).y.toBits && w3.toBits == (pt 2).y.toBits && w4.toBits == (pt 3).y.toBits
          && p.toBits == point.y.toBits then ry
      else [nan]
    let model := solve_curve_for_t_along_axis solver (pt 0) (pt 1) (pt 2) (pt 3) point acc
    let implSome := parseNat (outs.headD "#0") == 1
    let implT := hexF (outs.getD 1 "0")
    let ok := match model with
      | none => !implSome
      | some t => implSome && t.toBits == implT.toBits
    [{ field := "solve_curve_for_t_along_axis", cmp := if ok then .same 0 else .diff s!"model {model} impl {if implSome then some implT else none}", fbit := some ok }]
  | "ovl" =>
    -- ins: curve1(8) curve2(8) then four optional t_for_point answers (c1(c2.start), c1(c2.end), c2(c1.start), c2(c1.end));
    -- outs: #isSome [4 numbers].  `overlapping_region` (generated), bit for bit
    let pt (i : Nat) : V2 Float := ⟨hexF (ins.getD (2*i) "0"), hexF (ins.getD (2*i+1) "0")⟩
    let rec opts : Nat → List String → List (Option Float)
      | 0, _ => []
      | k + 1, l => if parseNat (l.headD "#0") == 1 then some (hexF (l.getD 1 "0")) :: opts k (l.drop 2) else none :: opts k (l.drop 1)
    let q := opts 4 (ins.drop 16)
    let same (a b : V2 Float) : Bool := a.x.toBits == b.x.toBits && a.y.toBits == b.y.toBits
    let c1 : T4 (V2 Float) (V2 Float) (V2 Float) (V2 Float) := ⟨pt 0, pt 1, pt 2, pt 3⟩
    let c2 : T4 (V2 Float) (V2 Float) (V2 Float) (V2 Float) := ⟨pt 4, pt 5, pt 6, pt 7⟩
    let t1 (p : V2 Float) : Option Float := if same p c2.t0 then (q.getD 0 none) else if same p c2.t3 then (q.getD 1 none) else some nan
    let t2 (p : V2 Float) : Option Float := if same p c1.t0 then (q.getD 2 none) else if same p c1.t3 then (q.getD 3 none) else some nan
    let model := overlapping_region t1 t2 c1 c2
    let implSome := parseNat (outs.headD "#0") == 1
    let impl := ((outs.drop 1).take 4).map hexF
    let ok := match model with
      | none => !implSome
      | some r => implSome && [r.t0.t0, r.t0.t1, r.t1.t0, r.t1.t1].map (·.toBits) == impl.map (·.toBits)
    let show_ : String := match model with
      | none => "none"
      | some r => s!"some (({r.t0.t0}, {r.t0.t1}), ({r.t1.t0}, {r.t1.t1}))"
    [{ field := "overlapping_region", cmp := if ok then .same 0 else .diff s!"model {show_} impl some={implSome} {impl}", fbit := some ok }]
  | "lin" =>
    -- ins: curve1(8) curve2(8) t_min t_max (linear section of curve 1) t_min t_max (curved section of curve 2) accuracy poly(4) #k raw[k]
    --      #h then per ray hit: pos(2) #nx roots_x #ny roots_y; outs: #m (linear_t, curved_t)*.
    -- `intersections_with_linear_section` (generated; the real one through hook H6), the external solver's roots of this very call
    -- (hook H3) and the `solve_basis_for_t` answers per hit from the tables, bit for bit
    let pt (i : Nat) : V2 Float := ⟨hexF (ins.getD (2*i) "0"), hexF (ins.getD (2*i+1) "0")⟩
    let f (i : Nat) : Float := hexF (ins.getD i "0")
    let linS := section_new (f 16) (f 17)
    let curS := section_new (f 18) (f 19)
    let acc := f 20
    let poly : T4 Float Float Float Float := ⟨f 21, f 22, f 23, f 24⟩
    let k := parseNat (ins.getD 25 "#0")
    let raw := ((ins.drop 26).take k).map hexF
    let rest := ins.drop (26 + k)
    let h := parseNat (rest.headD "#0")
    let rec tables : Nat → List String → List (UInt64 × UInt64 × List Float × List Float)
      | 0, _ => []
      | n + 1, l =>
        let px := parseHex (l.getD 0 "0")
        let py := parseHex (l.getD 1 "0")
        let nx := parseNat (l.getD 2 "#0")
        let rx := ((l.drop 3).take nx).map hexF
        let ny := parseNat (l.getD (3 + nx) "#0")
        let ry := ((l.drop (4 + nx)).take ny).map hexF
        (px, py, rx, ry) :: tables n (l.drop (4 + nx + ny))
    let tb := tables h (rest.drop 1)
    let l1 := section_start_point (pt 0) (pt 1) (pt 2) (pt 3) linS
    let lcp := section_control_points (pt 0) (pt 1) (pt 2) (pt 3) linS
    let l4 := section_end_point (pt 0) (pt 1) (pt 2) (pt 3) linS
    let same4 (w1 w2 w3 w4 a b c d : Float) : Bool := w1.toBits == a.toBits && w2.toBits == b.toBits && w3.toBits == c.toBits && w4.toBits == d.toBits
    let solveBasis (w1 w2 w3 w4 p : Float) : List Float :=
      if same4 w1 w2 w3 w4 l1.x lcp.t0.x lcp.t1.x l4.x then
        match tb.find? (fun e => e.1 == p.toBits) with
        | some e => e.2.2.1
        | none => if same4 w1 w2 w3 w4 l1.y lcp.t0.y lcp.t1.y l4.y then (match tb.find? (fun e => e.2.1 == p.toBits) with | some e => e.2.2.2 | none => [nan]) else [nan]
      else if same4 w1 w2 w3 w4 l1.y lcp.t0.y lcp.t1.y l4.y then
        match tb.find? (fun e => e.2.1 == p.toBits) with
        | some e => e.2.2.2
        | none => [nan]
      else [nan]
    let solveRoots (p : T4 Float Float Float Float) : List Float :=
      if same4 p.t0 p.t1 p.t2 p.t3 poly.t0 poly.t1 poly.t2 poly.t3 || (p.t0.isNaN && poly.t0.isNaN) then raw else [nan]
    let model := intersections_with_linear_section solveRoots solveBasis (pt 0) (pt 1) (pt 2) (pt 3) (pt 4) (pt 5) (pt 6) (pt 7) linS curS acc
    let impl := pairs (parseNat (outs.headD "#0")) (outs.drop 1)
    cmpHits "lin" model impl
  | _ => [{ field := "unknown-op " ++ op, cmp := .diff "driver does not know this operation", fbit := none }]

end Driver.C02
