import FloVerif.Driver.Util
import FloVerif.Driver.C05
import FloVerif.Gen.CurveClip
import FloVerif.Model.CurveClip
/-!
Correspondence for C02: the generated `curve_intersects_curve_clip` (the whole recursion, `Gen.CurveClip` + the knot in
`Model.CurveClip`) run at `Float` against the real function, bit for bit.

The two callees outside the translated subset (`overlapping_region`, asked once by the wrapper, and
`intersections_with_linear_section`) are answered from the tables the harness recorded (keyed by the bit patterns of the `original_curve_t_values` of the two sections);
a question that is not in the tables is answered with NaN, which then shows up as a difference of the result.
-/
namespace Driver.C02
open Prelude Gen Driver Driver.C05 Model.CurveClip

abbrev Key := UInt64 × UInt64 × UInt64 × UInt64

def keyOf (a b : SectionT Float) : Key :=
  let p := section_original_curve_t_values a
  let q := section_original_curve_t_values b
  (p.t0.toBits, p.t1.toBits, q.t0.toBits, q.t1.toBits)

def nan : Float := Float.ofBits 0x7ff8000000000000

structure Tables where
  ovl : List (Key × Option (T2 (T2 Float Float) (T2 Float Float))) := []
  lin : List (Nat × Key × List (T2 Float Float)) := []

def hexF (s : String) : Float := Float.ofBits (parseHex s)
def key4 (l : List String) : Key := (parseHex (l.getD 0 "0"), parseHex (l.getD 1 "0"), parseHex (l.getD 2 "0"), parseHex (l.getD 3 "0"))

def pairs : Nat → List String → List (T2 Float Float)
  | 0, _ => []
  | n + 1, a :: b :: rest => T2.mk (hexF a) (hexF b) :: pairs n rest
  | _, _ => []

/-- `n` entries `k k k k #0` / `k k k k #1 r r r r` -/
def parseOvl : Nat → List String → List (Key × Option (T2 (T2 Float Float) (T2 Float Float))) × List String
  | 0, l => ([], l)
  | n + 1, l =>
    let k := key4 l
    let l := l.drop 4
    if parseNat (l.headD "#0") == 0 then
      let (r, rest) := parseOvl n (l.drop 1)
      ((k, none) :: r, rest)
    else
      let v := (l.drop 1).take 4
      let o := T2.mk (T2.mk (hexF (v.getD 0 "0")) (hexF (v.getD 1 "0"))) (T2.mk (hexF (v.getD 2 "0")) (hexF (v.getD 3 "0")))
      let (r, rest) := parseOvl n (l.drop 5)
      ((k, some o) :: r, rest)

/-- `n` entries `#which k k k k #m (t t)*m` -/
def parseLin : Nat → List String → List (Nat × Key × List (T2 Float Float)) × List String
  | 0, l => ([], l)
  | n + 1, l =>
    let w := parseNat (l.headD "#0")
    let k := key4 (l.drop 1)
    let m := parseNat (l.getD 5 "#0")
    let hits := pairs m (l.drop 6)
    let (r, rest) := parseLin n (l.drop (6 + 2 * m))
    ((w, k, hits) :: r, rest)

def lookupOvl (tb : Tables) (a b : SectionT Float) : Option (T2 (T2 Float Float) (T2 Float Float)) :=
  match tb.ovl.find? (fun e => e.1 == keyOf a b) with
  | some e => e.2
  | none => some (T2.mk (T2.mk nan nan) (T2.mk nan nan))      -- not asked by the implementation: poison

def lookupLin (tb : Tables) (which : Nat) (linear curved : SectionT Float) : List (T2 Float Float) :=
  match tb.lin.find? (fun e => e.1 == which && e.2.1 == keyOf linear curved) with
  | some e => e.2.2
  | none => [T2.mk nan nan]

def showHits (l : List (T2 Float Float)) : String := toString (l.map fun h => (h.t0, h.t1))

def cmpHits (field : String) (m i : List (T2 Float Float)) : List Out :=
  if m.length != i.length then
    [{ field := field ++ ".count", cmp := .diff s!"model={showHits m} impl={showHits i}", fbit := none }]
  else
    { field := field ++ ".count", cmp := .same 0, fbit := none } ::
    (m.zip i).flatMap fun (a, b) =>
      let one (n : String) (x y : Float) : Out :=
        { field := field ++ n, cmp := if x.toBits == y.toBits then .same 0 else .diff s!"model={x} impl={y} (NaN = a section pair the implementation never asked its callee about)",
          fbit := some (x.toBits == y.toBits) }
      [one ".t1" a.t0 b.t0, one ".t2" a.t1 b.t1]

/-- recursion depth given to the model (`C02.recursion_depth_irrelevant`: any depth from 21 on gives the same result in exact
    arithmetic; the implementation's depth is bounded by the zero-length test at entry) -/
def depth : Nat := 200

def handle (op : String) (ins outs : List String) : List Out :=
  match op with
  | "clip" =>
    let pt (i : Nat) : V2 Float := ⟨hexF (ins.getD (2*i) "0"), hexF (ins.getD (2*i+1) "0")⟩
    let acc := hexF (ins.getD 16 "0")
    let rest := ins.drop 17
    let (ovl, rest) := parseOvl (parseNat (rest.headD "#0")) (rest.drop 1)
    let (lin, _) := parseLin (parseNat (rest.headD "#0")) (rest.drop 1)
    let tb : Tables := { ovl := ovl, lin := lin }
    let cx : Ctx Float := { ovl := lookupOvl tb, lin12 := fun l c _ => lookupLin tb 0 l c, lin21 := fun l c _ => lookupLin tb 1 l c,
                            a1 := pt 0, a2 := pt 1, a3 := pt 2, a4 := pt 3, b1 := pt 4, b2 := pt 5, b3 := pt 6, b4 := pt 7 }
    let model := clipTop cx depth acc
    let impl := pairs (parseNat (outs.headD "#0")) (outs.drop 1)
    cmpHits "clip" model impl
  | "shadow" =>
    -- the harness' own copy of the private inner function (it only supplies the tables) against the real function
    let sh := pairs (parseNat (ins.headD "#0")) (ins.drop 1)
    let impl := pairs (parseNat (outs.headD "#0")) (outs.drop 1)
    cmpHits "shadow" sh impl
  | _ => [{ field := "unknown-op " ++ op, cmp := .diff "driver does not know this operation", fbit := none }]

end Driver.C02
