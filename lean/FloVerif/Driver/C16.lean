import FloVerif.Driver.Util
import FloVerif.Driver.C18
import FloVerif.Model.PathContour
/-!
Correspondence for C16: the generated scan-conversion kernels at `Float` (bit mirror) against the implementation.

* `clip`  – `RayCastContour::intercepts_on_line` (= `raycast_intercepts_on_line`) on an arbitrary list of ranges:
            the `y` handed to the closure and every returned range, bit for bit.
* `solve` – `solve_basis_for_t` with the answers of the external root finders (crate `roots`) as input: the coefficients
            the harness computed the way solve.rs does must be the generated ones bit for bit, and so must the roots.
* `row` / `col` – `PathContour::intercepts_on_line` / `intercepts_on_column` on a whole scene: the curve table (built by the
            harness through the public functions `from_path` calls) and the real `solve_basis_for_t` roots of every curve go
            in; gather, sort, `remove_duplicate_intercepts` (sections, control polygon lengths, tangent signs), pairing and
            clipping are the generated definitions; the returned ranges must agree bit for bit.
            Rust's `sort_unstable_by` is a stable insertion sort up to 20 elements; for longer lists with equal keys the
            order among the equal keys is unspecified and such lines are counted as `…unstable_sort_ties_not_compared`.
-/
namespace Driver.C16
open Prelude Gen Driver Driver.C18 Model.PathContour

def flt : P Float := do return Float.ofBits (parseHex (← tok))

def rangeP : P (RangeT Float) := do
  let s ← flt
  let e ← flt
  return RangeT.mk s e

def showR (l : List (RangeT Float)) : String :=
  "[" ++ ", ".intercalate (l.map fun r => s!"{r.start}..{r.end_}") ++ "]"

def sameRanges (a b : List (RangeT Float)) : Bool :=
  a.length == b.length && (a.zip b).all fun (x, y) => x.start.toBits == y.start.toBits && x.end_.toBits == y.end_.toBits

def sameFloats (a b : List Float) : Bool :=
  a.length == b.length && (a.zip b).all fun (x, y) => x.toBits == y.toBits

structure CurveIn where
  row : CurveRow Float
  roots : List Float

def curveP : P CurveIn := do
  let cx ← many 4 flt
  let cy ← many 4 flt
  let bb ← many 4 flt
  let k ← nat
  let roots ← many k flt
  let g (l : List Float) (i : Nat) : Float := l.getD i 0.0
  return { row := T3.mk (T4.mk (g cx 0) (g cx 1) (g cx 2) (g cx 3)) (T4.mk (g cy 0) (g cy 1) (g cy 2) (g cy 3))
                    (T2.mk (V2.mk (g bb 0) (g bb 1)) (V2.mk (g bb 2) (g bb 3))),
           roots := roots }

/-- the real solver's answers as a function of the control values (identical control values have identical answers) -/
def solverOf (table : List (List UInt64 × List Float)) (w1 w2 w3 w4 _p : Float) : List Float :=
  match table.find? (fun e => e.1 == [w1.toBits, w2.toBits, w3.toBits, w4.toBits]) with
  | some e => e.2
  | none => [0.125, 0.25, 0.5, 0.75]   -- four hits (more than a cubic has) make the failed lookup visible

def hasDup : List UInt64 → Bool
  | [] => false
  | a :: l => l.contains a || hasDup l

def handleScan (column : Bool) (ins outs : List String) : List Out :=
  let parsed := (do
      let pos ← flt
      let limit ← nat
      let n ← nat
      let cs ← many n curveP
      return (pos, limit, cs) : P _).run ins
  let (pos, limit, cs) := parsed.1
  let (impl, _) := (do let m ← nat; many m rangeP : P _).run outs
  let curves := cs.map (·.row)
  let key (c : CurveIn) : List UInt64 :=
    let w := if column then c.row.t0 else c.row.t1
    [w.t0.toBits, w.t1.toBits, w.t2.toBits, w.t3.toBits]
  let solve := solverOf (cs.map fun c => (key c, c.roots))
  let model := if column then interceptsOnColumn solve curves limit pos else interceptsOnLine solve curves limit pos
  let name := if column then "intercepts_on_column" else "intercepts_on_line"
  -- positions of all candidate hits (for the tie test only)
  let xs : List UInt64 := cs.flatMap fun c =>
    let w := if column then c.row.t1 else c.row.t0
    c.roots.map fun t => (curve_point_at_pos w.t0 w.t1 w.t2 w.t3 t).toBits
  if xs.length > 20 && hasDup xs && !sameRanges model impl then
    [mk (name ++ ".unstable_sort_ties_not_compared") true ""]
  else
    [mk name (sameRanges model impl) s!"pos={pos} limit={limit} curves={curves.length} model={showR model} impl={showR impl}"]

def handle (op : String) (ins outs : List String) : List Out :=
  match op with
  | "clip" =>
    let parsed := (do
        let y ← flt
        let s ← flt
        let w ← nat
        let n ← nat
        let rs ← many n rangeP
        return (y, s, w, rs) : P _).run ins
    let (y, s, w, rs) := parsed.1
    let parsedO := (do let seen ← flt; let m ← nat; let o ← many m rangeP; return (seen, o) : P _).run outs
    let (seen, impl) := parsedO.1
    let model := raycast_intercepts_on_line (fun _ => rs) y s w
    let ySeen := y * s
    [mk "closure_argument" (ySeen.toBits == seen.toBits) s!"y={y} scale={s} model={ySeen} impl={seen}",
     mk "raycast_intercepts_on_line" (sameRanges model impl) s!"width={w} in={showR rs} model={showR model} impl={showR impl}"]
  | "solve" =>
    let parsed := (do
        let w ← many 5 flt
        let co ← many 4 flt
        let nq ← nat
        let rq ← many nq flt
        let nc ← nat
        let rc ← many nc flt
        return (w, co, rq, rc) : P _).run ins
    let (w, co, rq, rc) := parsed.1
    let (impl, _) := (do let m ← nat; many m flt : P _).run outs
    let g (l : List Float) (i : Nat) : Float := l.getD i 0.0
    -- the finders answer only for the coefficients the harness computed; anything else gets four roots (impossible), i.e. a DIFF
    let eqb (a b : Float) : Bool := a.toBits == b.toBits
    let fq (b c d : Float) : List Float := if eqb b (g co 1) && eqb c (g co 2) && eqb d (g co 3) then rq else [0.125, 0.25, 0.5, 0.75]
    let fc (a b c d : Float) : List Float :=
      if eqb a (g co 0) && eqb b (g co 1) && eqb c (g co 2) && eqb d (g co 3) then rc else [0.125, 0.25, 0.5, 0.75]
    let model := solve_basis_for_t fq fc (g w 0) (g w 1) (g w 2) (g w 3) (g w 4)
    [mk "solve_basis_for_t" (sameFloats model impl) s!"w={w} p model={model} impl={impl}"]
  | "row" => handleScan false ins outs
  | "col" => handleScan true ins outs
  | _ => [mk ("unknown-op " ++ op) false "driver does not know this operation"]

end Driver.C16
