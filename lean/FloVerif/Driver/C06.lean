import FloVerif.Driver.Util
import FloVerif.Driver.C05
import FloVerif.Gen.CurveBounds
import FloVerif.Gen.PathBounds2
/-! Correspondence for C06: the generated 1-D bounding-box kernels (Float mirror) against the implementation, per axis. -/
namespace Driver.C06
open Prelude Gen Driver Driver.C05

def closeF (a b scale : Float) : Bool := a.toBits == b.toBits || (a - b).abs ≤ 1e-12 * scale

def handle (op stream : String) (ins outs : List String) : List Out :=
  match op with
  | "box" =>
    -- ins: d w1[d] w2[d] w3[d] w4[d]; outs: min[d] max[d] fastmin[d] fastmax[d] n ext[n]
    let d := parseNat (ins.headD "1")
    let iv : List FV := (ins.drop 1).map (fun s => ⟨parseHex s⟩)
    let ov : List FV := (outs.take (4*d)).map (fun s => ⟨parseHex s⟩)
    let n := parseNat ((outs.drop (4*d)).headD "0")
    let ext : List FV := ((outs.drop (4*d+1)).take n).map (fun s => ⟨parseHex s⟩)
    let pts := chunk d iv
    let scale := (iv.foldl (fun m v => if v.f.abs > m then v.f.abs else m) 0.0) + 1e-300
    let perAxis := (List.range d).flatMap fun k =>
      let w (i : Nat) : Float := ((pts.getD i []).getD k default).f
      let box := bounding_box4 (w 0) (w 1) (w 2) (w 3)
      let fast := fast_bounding_box (w 0) (w 1) (w 2) (w 3)
      let o (j : Nat) : FV := ov.getD (j*d + k) default
      let mkc (name : String) (m : Float) (i : FV) : Out :=
        { field := name, cmp := if closeF m i.f scale then .same 0 else .diff s!"axis {k}: model={m} impl={i.f}", fbit := some (m.toBits == i.bits) }
      [mkc "bounding_box.min" box.t0 (o 0), mkc "bounding_box.max" box.t1 (o 1),
       mkc "fast_bounding_box.min" fast.t0 (o 2), mkc "fast_bounding_box.max" fast.t1 (o 3)]
    -- the implementation's extremity list is the concatenation over the axes of the model's per-axis lists (after the leading 1.0)
    let modelExt : List Float := [1.0] ++ (List.range d).flatMap fun k =>
      let w (i : Nat) : Float := ((pts.getD i []).getD k default).f
      (find_extremities (w 0) (w 1) (w 2) (w 3)).drop 1
    let implExt := ext.map (·.f)
    let extOk := modelExt.length == implExt.length && (modelExt.zip implExt).all (fun (a, b) => a.toBits == b.toBits || (a - b).abs ≤ 1e-9)
    perAxis ++ [{ field := "find_extremities", cmp := if extOk then .same 0 else .diff s!"model={modelExt} impl={implExt}",
                  fbit := some (modelExt.map (·.toBits) == implExt.map (·.toBits)) }]
  | "union" =>
    -- ins: a.min a.max b.min b.max ; outs: min max (1-D boxes)
    let iv : List FV := ins.map (fun s => ⟨parseHex s⟩)
    let ov : List FV := outs.map (fun s => ⟨parseHex s⟩)
    let f (i : Nat) := (iv.getD i default).f
    let u := union_bounds (T2.mk (f 0) (f 1)) (T2.mk (f 2) (f 3))
    [{ field := "union.min", cmp := if u.t0.toBits == (ov.getD 0 default).bits then .same 0 else .diff s!"model={u.t0} impl={(ov.getD 0 default).f}", fbit := some true },
     { field := "union.max", cmp := if u.t1.toBits == (ov.getD 1 default).bits then .same 0 else .diff s!"model={u.t1} impl={(ov.getD 1 default).f}", fbit := some true }]
  | "pbox" =>
    -- ins: #k start then (cp1 cp2 end) per curve of a 1-D path ; outs: box.min box.max fast.min fast.max
    let vals : List Float := (ins.drop 1).map (fun s => (⟨parseHex s⟩ : FV).f)
    let ov : List FV := outs.map (fun s => ⟨parseHex s⟩)
    let k := parseNat (ins.headD "#0")
    let curves : List (T4 Float Float Float Float) := (List.range k).map fun i =>
      T4.mk (vals.getD (3*i) 0) (vals.getD (3*i+1) 0) (vals.getD (3*i+2) 0) (vals.getD (3*i+3) 0)
    let b := path_bounding_box curves
    let f := path_fast_bounding_box curves
    let one (name : String) (m : Float) (i : Nat) : Out :=
      { field := name, cmp := if m.toBits == (ov.getD i default).bits then .same 0 else .diff s!"model={m} impl={(ov.getD i default).f}", fbit := some (m.toBits == (ov.getD i default).bits) }
    [one "pbox.min" b.t0 0, one "pbox.max" b.t1 1, one "pbox.fast_min" f.t0 2, one "pbox.fast_max" f.t1 3]
  | "pbox2" =>
    -- ins: #k, k boxes (minx miny maxx maxy) of the curves, k fast boxes; outs: path box (4), path fast box (4)
    let k := parseNat (ins.headD "#0")
    let vals : List Float := (ins.drop 1).map (fun s => (⟨parseHex s⟩ : FV).f)
    let ov : List FV := outs.map (fun s => ⟨parseHex s⟩)
    let boxAt (off i : Nat) : T2 (V2 Float) (V2 Float) :=
      T2.mk ⟨vals.getD (off + 4*i) 0, vals.getD (off + 4*i+1) 0⟩ ⟨vals.getD (off + 4*i+2) 0, vals.getD (off + 4*i+3) 0⟩
    let b := path_bounding_box2 (List.range k) (boxAt 0)
    let f := path_fast_bounding_box2 (List.range k) (boxAt (4*k))
    let one (name : String) (m : Float) (i : Nat) : Out :=
      { field := name, cmp := if m.toBits == (ov.getD i default).bits then .same 0 else .diff s!"model={m} impl={(ov.getD i default).f}", fbit := some (m.toBits == (ov.getD i default).bits) }
    [one "pbox2.min.x" b.t0.x 0, one "pbox2.min.y" b.t0.y 1, one "pbox2.max.x" b.t1.x 2, one "pbox2.max.y" b.t1.y 3,
     one "pbox2.fast_min.x" f.t0.x 4, one "pbox2.fast_min.y" f.t0.y 5, one "pbox2.fast_max.x" f.t1.x 6, one "pbox2.fast_max.y" f.t1.y 7]
  | _ => [{ field := "unknown-op " ++ op, cmp := .diff "driver does not know this operation", fbit := none }]

end Driver.C06
