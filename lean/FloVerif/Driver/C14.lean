import FloVerif.Driver.Util
import FloVerif.Driver.C18
import FloVerif.Model.Ray
/-!
Correspondence for C14: the model of `ray_collisions` (generated kernels + hand-written glue, `Model.Ray`) at `Float`
against the real `GraphPath::ray_collisions`, for the graph as the `RayPath` interface exposes it and the real
`curve_intersects_ray` results per edge.  Everything is compared exactly (bit patterns, edge references, flags).

Order of the output: Rust's `sort_by` and the model's `sortBy` are both stable, so they agree whenever the comparator
is a total preorder on the collisions at hand; the driver tests that (all pairs and triples) with the GENERATED
comparator and compares the order exactly in that case.  When the comparator is inconsistent on the list (the
known defect) the result of a sort is unspecified: then only the multiset is compared, and a panic of the real
sort is accepted exactly in this case.
-/
namespace Driver.C14
open Prelude Gen Driver Driver.C18 Model.Ray

/-- one comparison; `exact` marks the exact-order comparison (counted separately in the summary) -/
structure Out14 where
  field : String
  ok : Bool
  msg : String
  exact : Bool := false

def mk14 (field : String) (ok : Bool) (msg : String) : Out14 := { field := field, ok := ok, msg := if ok then "" else msg }

def flt : P Float := do return (FV.mk (parseHex (← tok))).f
def pt : P (V2 Float) := do let x ← flt; let y ← flt; return ⟨x, y⟩

def parseEdge : P (GraphPathEdgeM Float) := do
  let cp1 ← pt; let cp2 ← pt; let e ← nat; let f ← nat
  return { cp1 := cp1, cp2 := cp2, end_idx := e, following_edge_idx := f }

def parseRef : P EdgeRef := do
  let s ← nat; let e ← nat; let r ← nat
  return { start_idx := s, edge_idx := e, reverse := r == 1 }

def parsePoint : P (GraphPathPointM Float × List EdgeRef) := do
  let pos ← pt
  let ne ← nat
  let edges ← many ne parseEdge
  let cf ← natList
  let nr ← nat
  let rev ← many nr parseRef
  return ({ position := pos, forward_edges := edges, connected_from := cf }, rev)

def parseHit : P (T3 Float Float (V2 Float)) := do
  let t ← flt; let s ← flt; let p ← pt
  return T3.mk t s p

def parseCollision : P (Collision Float) := do
  let kind ← nat
  let r ← parseRef
  let t ← flt; let s ← flt; let p ← pt
  return T4.mk (if kind == 1 then .Intersection r else .SingleEdge r) t s p

def bitsEq (a b : Float) : Bool := a.toBits == b.toBits || (a.isNaN && b.isNaN)

def colEq (a b : Collision Float) : Bool :=
  a.t0 == b.t0 && bitsEq a.t1 b.t1 && bitsEq a.t2 b.t2 && bitsEq a.t3.x b.t3.x && bitsEq a.t3.y b.t3.y

def listEq (a b : List (Collision Float)) : Bool := a.length == b.length && (a.zip b).all fun (x, y) => colEq x y

def showRef (r : EdgeRef) : String := s!"({r.start_idx},{r.edge_idx}{if r.reverse then ",rev" else ""})"
def showCol (c : Collision Float) : String :=
  let k := match c.t0 with | .Intersection _ => "I" | .SingleEdge _ => "S"
  s!"{k}{showRef c.t0.edge} t={c.t1} s={c.t2} pos=({c.t3.x},{c.t3.y})"
def showCols (l : List (Collision Float)) : String := "[" ++ "; ".intercalate (l.map showCol) ++ "]"

/-- canonical order for the multiset comparison -/
def canonKey (c : Collision Float) : List Nat :=
  [c.t0.edge.start_idx, c.t0.edge.edge_idx, (if c.t0.edge.reverse then 1 else 0),
   (match c.t0 with | .Intersection _ => 1 | .SingleEdge _ => 0), c.t1.toBits.toNat, c.t2.toBits.toNat, c.t3.x.toBits.toNat, c.t3.y.toBits.toNat]
def lexLe : List Nat → List Nat → Bool
  | [], _ => true
  | _ :: _, [] => false
  | a :: as, b :: bs => a < b || (a == b && lexLe as bs)
def canon (l : List (Collision Float)) : List (Collision Float) := l.mergeSort fun a b => lexLe (canonKey a) (canonKey b)

/-- the comparator is a total preorder on the list: `cmp a b` and `cmp b a` are opposite, and `≤` is transitive -/
def consistentOn (cmp : Collision Float → Collision Float → Ordering) (l : List (Collision Float)) : Bool :=
  let le (a b : Collision Float) : Bool := cmp a b != .gt
  l.all (fun a => l.all fun b => cmp a b == (cmp b a).swap) &&
  l.all (fun a => l.all fun b => l.all fun c => !(le a b && le b c) || le a c)

def handle (op : String) (ins outs : List String) : List Out14 :=
  match op with
  | "ray" =>
    let parsed := (do
      let np ← nat
      let pts ← many np parsePoint
      let p1 ← pt
      let p2 ← pt
      let g : GraphPathM Float := { points := pts.map (·.1) }
      let path := rayPathOf g
      let refs := allEdgeRefs path
      let hits ← many refs.length (do let n ← nat; many n parseHit)
      return (g, pts.map (·.2), T2.mk p1 p2, refs.zip hits) : P _).run ins
    let (g, revs, ray, hitTable) := parsed.1
    let path := rayPathOf g
    let cir (e : EdgeRef) : List (T3 Float Float (V2 Float)) :=
      match hitTable.find? (fun p => p.1 == e) with
      | some p => p.2
      | none => []
    let (ok, panicTotalOrder, impl) := ((do
      let ok ← nat
      if ok == 0 then
        let p ← nat
        return (false, p == 1, [])
      else
        let n ← nat
        let cols ← many n parseCollision
        return (true, false, cols) : P _).run outs).1
    let modelRev := (List.range path.num_points).map path.reverse_edges_for_point
    let unsorted := ray_collisions_unsorted path ray cir
    let cmp := collision_order path (ray.t1 - ray.t0)
    let consistent := consistentOn cmp unsorted
    let model := sortBy cmp unsorted
    let revOut := mk14 "reverse_edges_for_point" (modelRev == revs) s!"model={repr modelRev} impl={repr revs}"
    -- every graph the implementation builds is balanced (hypothesis of `C14.collisions_even`; the test is proven sound)
    let balOut := mk14 "graph_is_balanced" (balancedB (edgeList path)) s!"edges (start,end) = {edgeList path}"
    if !ok then
      [revOut, balOut,
       mk14 "panic_only_if_comparator_inconsistent" (panicTotalOrder && !consistent)
         s!"the implementation panicked (total-order panic: {panicTotalOrder}) but the model comparator is consistent={consistent} on {showCols unsorted}"]
    else
      -- ordered by the generated comparator: every earlier collision compares `≠ Greater` to every later one
      -- (`C14.sorted_up_to_ties`: then ordered by line position up to ties); required when the comparator is consistent on the list
      let rec pairwiseOk : List (Collision Float) → Bool
        | [] => true
        | a :: rest => rest.all (fun b => cmp a b != .gt) && pairwiseOk rest
      [revOut, balOut,
       mk14 "collisions_as_multiset" (listEq (canon model) (canon impl)) s!"model={showCols model} impl={showCols impl}",
       mk14 "impl_output_ordered_by_model_comparator" (consistent == false || pairwiseOk impl)
         s!"an earlier collision of the implementation's output compares Greater to a later one: {showCols impl}"] ++
      (if consistent then [{ mk14 "collisions_in_order" (listEq model impl) s!"model={showCols model} impl={showCols impl}" with exact := true }] else [])
  | _ => [mk14 ("unknown-op " ++ op) false "driver does not know this operation"]

end Driver.C14
