import FloVerif.Driver.Util
import FloVerif.Driver.C18
import FloVerif.Model.RayCast
/-! Correspondence for C01/C11/C12: replay of the ray-cast traces recorded through hook H2 by the model machine. -/
namespace Driver.C01
open Prelude Gen Driver Model.RayCast Driver.C18

def predOf (op : Nat) : List Int → Bool :=
  match op with
  | 0 => pred_add
  | 1 => pred_sub
  | 2 => pred_intersect
  | 3 => pred_remove_interior
  | _ => pred_chain

def int : P Int := do return parseInt (← tok)

def hit : P Hit := do
  let s ← nat; let e ← nat; let l ← nat; let sd ← int; let ne ← nat; let ix ← nat
  return { startIdx := s, edgeIdx := e, label := l, side := sd, isIntersection := ix != 0, nearEnd := ne != 0 }

def isSortedBy (le : Nat → Nat → Bool) : List Nat → Bool
  | a :: b :: rest => le a b && isSortedBy le (b :: rest)
  | _ => true

/-- symbolic path: a leaf (by fingerprint) or the result of an operation on symbolic path sets -/
inductive Term where
  | leaf (fp : String)
  | op (kind : String) (args : List (List Term))
deriving Inhabited

def symOps : Ops Term where
  removeInterior p := [Term.op "remove_interior" [p]]
  addChain ls := [Term.op "add_chain" ls]
  sub a b := [Term.op "sub" [a, b]]
  intersect a b := [Term.op "intersect" [a, b]]

partial def Term.key : Term → String
  | .leaf fp => "L" ++ fp
  | .op k args => k ++ "(" ++ ",".intercalate (args.map fun a => "[" ++ ";".intercalate (a.map Term.key) ++ "]") ++ ")"

/-- the operations behind a symbolic value in evaluation order (operands first, left to right) -/
partial def opsOf (fuel : Nat) : Term → List (String × List (List Term))
  | .leaf _ => []
  | .op k args => (args.flatMap fun a => a.flatMap (opsOf fuel)) ++ [(k, args)]

instance : Inhabited (Combine Term) := ⟨.path []⟩

/-- prefix-form expression tree -/
partial def parseTree (fuel : Nat) : P (Combine Term) := do
  let t ← tok
  match t with
  | "P" => let fp ← tok; return .path [Term.leaf fp]
  | "R" => let fp ← tok; return .removeInterior [Term.leaf fp]
  | "A" => let n ← nat; let cs ← many n (parseTree fuel); return .add cs
  | "S" => let n ← nat; let cs ← many n (parseTree fuel); return .subtract cs
  | _ => let n ← nat; let cs ← many n (parseTree fuel); return .intersect cs

/-- compares the model's operation list with the observed one; `none` = they agree -/
def matchOps (emptyFp : String) : List (String × List (List Term)) → List (String × List String) → List (String × String) → Option String
  | [], [], _ => none
  | [], o :: _, _ => some s!"the implementation performs an extra operation {o.1}"
  | e :: _, [], _ => some s!"the implementation does not perform the model's operation {e.1}"
  | e :: es, o :: os, env =>
    if e.1 != o.1 then some s!"model performs {e.1} where the implementation performs {o.1}"
    else if e.2.length != o.2.length then some s!"{e.1}: model has {e.2.length} operands, implementation {o.2.length}"
    else
      let step := (e.2.zip o.2).foldl (fun (st : Option String × List (String × String)) (arg, fp) =>
        match st.1 with
        | some _ => st
        | none =>
          match arg with
          | [Term.leaf l] => if l == fp then st else (some s!"{e.1}: operand is leaf {l} in the model but {fp} in the implementation", st.2)
          | [t] =>
            let k := t.key
            match st.2.find? (·.1 == k) with
            | some (_, f) => if f == fp then st else (some s!"{e.1}: the same intermediate result has two fingerprints", st.2)
            | none => (none, (k, fp) :: st.2)
          | [] => if fp == emptyFp then st else (some s!"{e.1}: operand is the empty set in the model but {fp} in the implementation", st.2)
          | _ => (some s!"{e.1}: operand is not a single symbolic value", st.2)) (none, env)
      match step.1 with
      | some m => some m
      | none => matchOps emptyFp es os step.2

/-- ins: op ngroups (k hit*)* — groups in the order the implementation PROCESSED them (after its re-ordering);
    outs: nevents (start edge exterior)* -/
def handle (opName : String) (ins outs : List String) : List Out :=
  match opName with
  | "ray" =>
    let ((op, groups), _) := (do
        let op ← nat
        let n ← nat
        let gs ← many n (do let k ← nat; many k hit)
        return (op, gs) : P _).run ins
    let (events, _) := (do
        let n ← nat
        many n (do let s ← nat; let e ← nat; let x ← nat; return (s, e, x != 0)) : P _).run outs
    let pred := predOf op
    -- the recorded groups are already ordered: check that order against the model's rule, then replay
    let run := groups.foldl (fun (st : List Int × List SetEvent × Bool) g =>
        let cs := st.1
        let orderOk :=
          if g.length ≤ 1 then true
          else if !pred [listGet cs 0, 0] then isSortedBy (fun a b => decide (a ≥ b)) (g.map (·.edgeIdx))
          else isSortedBy (fun a b => decide (a ≤ b)) (g.map (·.edgeIdx))
        -- replay with the implementation's order (the model's stable sort of an already sorted group is the identity)
        let r := processGroup pred cs g
        (r.1, st.2.1 ++ r.2, st.2.2 && orderOk && (orderGroup pred cs g).map (·.edgeIdx) == g.map (·.edgeIdx))) ([0, 0], [], true)
    [mk "group_order" run.2.2 s!"a group is not in the order the model prescribes: {repr (groups.map (·.map (·.edgeIdx)))}",
     mk "set_edge_kind_events" (run.2.1 == events) s!"model={run.2.1} impl={events}",
     mk "counters_return_to_zero(info)" true ""]
  | "combine" =>
    -- ins: the expression tree in prefix form (P fp | R fp | A n … | S n … | I n …, fp = fingerprint of a leaf's paths);
    -- outs: the operations the implementation entered, in order, through hook H4: n (name k fp*)*.
    -- The model `combine` is run on symbolic path sets: the operations it performs, in evaluation order and with their
    -- operands, must be the implementation's (an operand that is a leaf by its fingerprint, an intermediate result by
    -- consistent binding of the fingerprint first seen for it).
    let (tree, _) := (parseTree 64 : P _).run ins
    let emptyFp := outs.headD ""
    let (obs, _) := (do
        let _ ← tok
        let n ← nat
        many n (do let name ← tok; let k ← nat; let fps ← many k tok; return (name, fps)) : P _).run outs
    let expected := (combine symOps tree).flatMap (opsOf 64)
    let res := matchOps emptyFp expected obs []
    [mk "combine_operation_sequence" res.isNone (res.getD "")]
  | _ => [mk ("unknown-op " ++ opName) false "driver does not know this operation"]

end Driver.C01
