import FloVerif.Driver.Util
import FloVerif.Driver.C18
import FloVerif.Model.RayCast
/-! Correspondence for C01/C11/C12: replay of the ray-cast traces recorded through hook H2 by the model machine. -/
namespace Driver.C01
open Prelude Gen Driver Model.RayCast Driver.C18

def predOf (op : Nat) : List Int → Bool :=
  match op with
  | 0 => pred_add
  | 1 => pred_sub
  | 2 => pred_intersect
  | 3 => pred_remove_interior
  | _ => pred_chain

def int : P Int := do return parseInt (← tok)

def hit : P Hit := do
  let s ← nat; let e ← nat; let l ← nat; let sd ← int; let ne ← nat; let ix ← nat
  return { startIdx := s, edgeIdx := e, label := l, side := sd, isIntersection := ix != 0, nearEnd := ne != 0 }

def isSortedBy (le : Nat → Nat → Bool) : List Nat → Bool
  | a :: b :: rest => le a b && isSortedBy le (b :: rest)
  | _ => true

/-- ins: op ngroups (k hit*)* — groups in the order the implementation PROCESSED them (after its re-ordering);
    outs: nevents (start edge exterior)* -/
def handle (opName : String) (ins outs : List String) : List Out :=
  match opName with
  | "ray" =>
    let ((op, groups), _) := (do
        let op ← nat
        let n ← nat
        let gs ← many n (do let k ← nat; many k hit)
        return (op, gs) : P _).run ins
    let (events, _) := (do
        let n ← nat
        many n (do let s ← nat; let e ← nat; let x ← nat; return (s, e, x != 0)) : P _).run outs
    let pred := predOf op
    -- the recorded groups are already ordered: check that order against the model's rule, then replay
    let run := groups.foldl (fun (st : List Int × List SetEvent × Bool) g =>
        let cs := st.1
        let orderOk :=
          if g.length ≤ 1 then true
          else if !pred [listGet cs 0, 0] then isSortedBy (fun a b => decide (a ≥ b)) (g.map (·.edgeIdx))
          else isSortedBy (fun a b => decide (a ≤ b)) (g.map (·.edgeIdx))
        -- replay with the implementation's order (the model's stable sort of an already sorted group is the identity)
        let r := processGroup pred cs g
        (r.1, st.2.1 ++ r.2, st.2.2 && orderOk && (orderGroup pred cs g).map (·.edgeIdx) == g.map (·.edgeIdx))) ([0, 0], [], true)
    [mk "group_order" run.2.2 s!"a group is not in the order the model prescribes: {repr (groups.map (·.map (·.edgeIdx)))}",
     mk "set_edge_kind_events" (run.2.1 == events) s!"model={run.2.1} impl={events}",
     mk "counters_return_to_zero(info)" true ""]
  | _ => [mk ("unknown-op " ++ opName) false "driver does not know this operation"]

end Driver.C01
