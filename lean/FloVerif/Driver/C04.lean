import FloVerif.Driver.Util
import FloVerif.Driver.C05
import FloVerif.Gen.Lines
import FloVerif.Gen.CurveLine
import FloVerif.Model.Clip
/-! Correspondence for C04: generated line/line and curve/line kernels at `XQ` and `Float` against the implementation. -/
namespace Driver.C04
open Prelude Gen Driver Driver.C05

def v2x (a b : FV) : V2 XQ := ⟨a.x, b.x⟩
def v2f (a b : FV) : V2 Float := ⟨a.f, b.f⟩

def lineX (l : List FV) (i : Nat) : T2 (V2 XQ) (V2 XQ) :=
  T2.mk (v2x (l.getD i default) (l.getD (i+1) default)) (v2x (l.getD (i+2) default) (l.getD (i+3) default))
def lineF (l : List FV) (i : Nat) : T2 (V2 Float) (V2 Float) :=
  T2.mk (v2f (l.getD i default) (l.getD (i+1) default)) (v2f (l.getD (i+2) default) (l.getD (i+3) default))

def q (x : XQ) : Rat := x.toRat?.getD 0

/-- conditioning-aware tolerance for a line/line meeting point: `64·2⁻⁵²·(scale + scale³(1+|ua|)/|D|)` -/
def meetTol (l1 l2 : T2 (V2 XQ) (V2 XQ)) (scale : Rat) : Rat × Rat × Rat :=
  let x1 := q l1.t0.x; let y1 := q l1.t0.y; let x2 := q l1.t1.x; let y2 := q l1.t1.y
  let x3 := q l2.t0.x; let y3 := q l2.t0.y; let x4 := q l2.t1.x; let y4 := q l2.t1.y
  let d := (y4-y3)*(x2-x1) - (x4-x3)*(y2-y1)
  let ua := if d == 0 then 0 else ((x4-x3)*(y1-y3) - (y4-y3)*(x1-x3)) / d
  let ub := if d == 0 then 0 else ((x2-x1)*(y1-y3) - (y2-y1)*(x1-x3)) / d
  let band := if d == 0 then 0 else 64 * ulp52 * scale * scale * (1 + ratAbs ua + ratAbs ub) / ratAbs d
  (band, ua, ub)

/-- is `u` within `band` of 0 or 1 (the range test may then legitimately differ between exact and rounded arithmetic) -/
def nearEdge (u band : Rat) : Bool := ratAbs u ≤ band || ratAbs (u - 1) ≤ band

def cmpOptPoint (stream field : String) (m : Option (V2 XQ)) (mf : Option (V2 Float)) (flag : Nat) (ox oy : FV)
    (scale tolUnits : Rat) (skipFlag : Bool) : List Out :=
  match m, flag with
  | none, 0 => [{ field := field ++ ".none", cmp := .same 0, fbit := some mf.isNone }]
  | some p, 1 =>
    let fx := mf.map (·.x); let fy := mf.map (·.y)
    [{ field := field ++ ".x", cmp := cmpXQ stream 64 (scale * tolUnits) p.x ox.bits, fbit := some (fx.map (·.toBits) == some ox.bits) },
     { field := field ++ ".y", cmp := cmpXQ stream 64 (scale * tolUnits) p.y oy.bits, fbit := some (fy.map (·.toBits) == some oy.bits) }]
  | _, _ =>
    if skipFlag then [{ field := field ++ ".edge-of-range(skipped)", cmp := .same 0, fbit := none }]
    else [{ field := field ++ ".some/none", cmp := .diff s!"model={if m.isSome then "some" else "none"} impl flag={flag}", fbit := none }]

def handle (op stream : String) (ins outs : List String) : List Out :=
  let iv : List FV := ins.map (fun s => ⟨parseHex s⟩)
  let flag := parseNat (outs.headD "0")
  let ov : List FV := (outs.drop 1).map (fun s => ⟨parseHex s⟩)
  let scale := ratMax 1 (maxAbs iv)
  match op with
  | "lil" | "lir" | "rir" =>
    let l1 := lineX iv 0; let l2 := lineX iv 4
    let f1 := lineF iv 0; let f2 := lineF iv 4
    let (band, ua, ub) := meetTol l1 l2 scale
    let m := if op == "lil" then line_intersects_line l1 l2 else if op == "lir" then line_intersects_ray l1 l2 else ray_intersects_ray l1 l2
    let mf := if op == "lil" then line_intersects_line f1 f2 else if op == "lir" then line_intersects_ray f1 f2 else ray_intersects_ray f1 f2
    let skip := stream != "D" && (if op == "lil" then nearEdge ua band || nearEdge ub band else if op == "lir" then nearEdge ua band
      else true)   -- rir: |divisor| against 2e-12 in rounded arithmetic
    -- tolerance in units of 2⁻⁵²·scale: conditioning factor scale²(1+|ua|)/|D|
    let x1 := q l1.t0.x; let y1 := q l1.t0.y; let x2 := q l1.t1.x; let y2 := q l1.t1.y
    let x3 := q l2.t0.x; let y3 := q l2.t0.y; let x4 := q l2.t1.x; let y4 := q l2.t1.y
    let d := (y4-y3)*(x2-x1) - (x4-x3)*(y2-y1)
    let cond := if d == 0 then 1 else 1 + scale * scale * (1 + ratAbs ua) / ratAbs d
    cmpOptPoint (if stream == "D" then "R" else stream) op m mf flag (ov.getD 0 default) (ov.getD 1 default) scale cond skip
  | "clip" =>
    let l := lineX iv 0; let b := lineX iv 4
    let lf := lineF iv 0; let bf := lineF iv 4
    -- the GENERATED function (C04Clip.generated_eq_model proves it equal to the hand model the theorems were first written for)
    let m := Gen.line_clip_to_bounds l b
    let mf := Gen.line_clip_to_bounds lf bf
    match m, flag with
    | none, 0 => [{ field := "clip.none", cmp := .same 0, fbit := some mf.isNone }]
    | some s, 1 =>
      let o (i : Nat) := ov.getD i default
      let fb (g : T2 (V2 Float) (V2 Float) → Float) (i : Nat) : Option Bool := some ((mf.map (fun r => (g r).toBits)) == some (o i).bits)
      [{ field := "clip.x1", cmp := cmpXQ "R" 64 (scale * scale) s.t0.x (o 0).bits, fbit := fb (·.t0.x) 0 },
       { field := "clip.y1", cmp := cmpXQ "R" 64 (scale * scale) s.t0.y (o 1).bits, fbit := fb (·.t0.y) 1 },
       { field := "clip.x2", cmp := cmpXQ "R" 64 (scale * scale) s.t1.x (o 2).bits, fbit := fb (·.t1.x) 2 },
       { field := "clip.y2", cmp := cmpXQ "R" 64 (scale * scale) s.t1.y (o 3).bits, fbit := fb (·.t1.y) 3 }]
    | _, _ =>
      if stream == "D" then [{ field := "clip.some/none", cmp := .diff s!"model={if m.isSome then "some" else "none"} impl flag={flag}", fbit := none }]
      else [{ field := "clip.edge-of-range(skipped)", cmp := .same 0, fbit := none }]
  | "cir" =>
    -- ins: w1..w4 (8) line (4) #k raw[k] poly[4]; outs: n then (t s x y)*.  The cubic/quadratic solver is an external crate:
    -- hook H3 hands over the polynomial it was given and the raw roots it returned inside this very call; with those as the
    -- `solve_roots` parameter the generated function (coefficients, polish_root, snapping, positions) must reproduce every
    -- hit bit for bit, and must have computed the same polynomial (otherwise the stand-in solver answers with a marker root).
    let w (i : Nat) : V2 Float := v2f (iv.getD (2*i) default) (iv.getD (2*i+1) default)
    let lf := lineF iv 8
    let k := parseNat (ins.getD 12 "#0")
    let raw := ((iv.drop 13).take k).map (·.f)
    let poly := (iv.drop (13 + k)).take 4
    let hits := chunk 4 ov
    let samePoly (q : T4 Float Float Float Float) : Bool :=
      q.t0.toBits == (poly.getD 0 default).bits && q.t1.toBits == (poly.getD 1 default).bits &&
      q.t2.toBits == (poly.getD 2 default).bits && q.t3.toBits == (poly.getD 3 default).bits
    let polyOk := (curve_intersects_ray (fun q => if samePoly q then [] else [0.5]) (w 0) (w 1) (w 2) (w 3) lf).isEmpty
    let model := curve_intersects_ray (fun _ => raw) (w 0) (w 1) (w 2) (w 3) lf
    let polyOut : Out := { field := "cir.poly", cmp := if polyOk then .same 0 else .diff "the generated code hands a different polynomial to the solver than the implementation did", fbit := some polyOk }
    if model.length != hits.length then
      [polyOut, { field := "cir.count", cmp := .diff s!"model yields {model.length} hits from the solver's {k} roots, the implementation {hits.length}", fbit := none }]
    else
      polyOut :: (model.zip hits).flatMap fun (m, h) =>
        let o (i : Nat) := h.getD i default
        let ok (a : Float) (i : Nat) : Cmp :=
          if a.toBits == (o i).bits || (a.isNaN && (o i).f.isNaN) then .same 0 else .diff s!"model={a} impl={(o i).f}"
        [{ field := "cir.t", cmp := ok m.t0 0, fbit := some (m.t0.toBits == (o 0).bits) },
         { field := "cir.s", cmp := ok m.t1 1, fbit := some (m.t1.toBits == (o 1).bits) },
         { field := "cir.x", cmp := ok m.t2.x 2, fbit := some (m.t2.x.toBits == (o 2).bits) },
         { field := "cir.y", cmp := ok m.t2.y 3, fbit := some (m.t2.y.toBits == (o 3).bits) }]
  | "lcoef" =>
    -- ins: line (4) point (2); outs: a b c distance (unnormalised coefficients)
    let l := lineX iv 0; let lf := lineF iv 0
    let c := line_coefficients_2d_unnormalized l
    let cf := line_coefficients_2d_unnormalized lf
    let p := v2x (iv.getD 4 default) (iv.getD 5 default)
    let pf := v2f (iv.getD 4 default) (iv.getD 5 default)
    let ovAll : List FV := outs.map (fun s => ⟨parseHex s⟩)
    let o (i : Nat) := ovAll.getD i default
    [one "R" 64 1 "coef.a" c.t0 cf.t0 (o 0), one "R" 64 1 "coef.b" c.t1 cf.t1 (o 1), one "R" 256 (scale * scale) "coef.c" c.t2 cf.t2 (o 2),
     one "R" 1024 (scale * scale) "coef.distance" (coefficients_distance_to c p) (coefficients_distance_to cf pf) (o 3)]
  | _ => [{ field := "unknown-op " ++ op, cmp := .diff "driver does not know this operation", fbit := none }]

end Driver.C04
