import FloVerif.Driver.Util
import FloVerif.Gen.Section
import FloVerif.Gen.PathRev
/-! Correspondence for C05: the generated kernels at `XQ` (exact) and `Float` (bit mirror) against the implementation. -/
namespace Driver.C05
open Prelude Gen Driver

structure Out where
  field : String
  cmp : Cmp
  fbit : Option Bool

def maxAbs (l : List FV) : Rat := l.foldl (fun m v => ratMax m (ratAbs v.q)) 0

/-- compare the `XQ` and `Float` model values of one component with the implementation -/
def one (stream : String) (c : Nat) (scale : Rat) (field : String) (mx : XQ) (mf : Float) (impl : FV) : Out :=
  { field := field, cmp := cmpXQ stream c scale mx impl.bits,
    fbit := some (mf.toBits == impl.bits || (mf.isNaN && impl.f.isNaN)) }

def chunkFuel (d : Nat) : Nat → List FV → List (List FV)
  | 0, _ => []
  | _, [] => []
  | n+1, l => l.take d :: chunkFuel d n (l.drop d)
def chunk (d : Nat) (l : List FV) : List (List FV) := if d == 0 then [] else chunkFuel d l.length l

def handle (op stream : String) (ins outs : List String) : List Out :=
  let iv : List FV := ins.map (fun s => ⟨parseHex s⟩)
  let ov : List FV := outs.map (fun s => ⟨parseHex s⟩)
  match op with
  | "basis" =>
    -- ins: d t w1[d] w2[d] w3[d] w4[d]; outs: point_at_pos[d] basis[d] de_casteljau4[d]
    let d := parseNat (ins.headD "1")
    let iv := iv.drop 1
    let t := iv.headD default
    let pts := chunk d (iv.drop 1)
    let scale := maxAbs (iv.drop 1)
    (List.range d).flatMap fun k =>
      let w (i : Nat) : FV := (pts.getD i []).getD k default
      let px := curve_point_at_pos (w 0).x (w 1).x (w 2).x (w 3).x t.x
      let pf := curve_point_at_pos (w 0).f (w 1).f (w 2).f (w 3).f t.f
      let bx := basis t.x (w 0).x (w 1).x (w 2).x (w 3).x
      let bf := basis t.f (w 0).f (w 1).f (w 2).f (w 3).f
      let dx := de_casteljau4 t.x (w 0).x (w 1).x (w 2).x (w 3).x
      let df := de_casteljau4 t.f (w 0).f (w 1).f (w 2).f (w 3).f
      [one stream 64 scale "point_at_pos" px pf (ov.getD k default),
       one stream 64 scale "basis" bx bf (ov.getD (d + k) default),
       one stream 64 scale "de_casteljau4" dx df (ov.getD (2*d + k) default)]
  | "subdivide" =>
    let d := parseNat (ins.headD "1")
    let iv := iv.drop 1
    let t := iv.headD default
    let pts := chunk d (iv.drop 1)
    let scale := maxAbs (iv.drop 1)
    (List.range d).flatMap fun k =>
      let w (i : Nat) : FV := (pts.getD i []).getD k default
      let sx := curve_subdivide (w 0).x (w 1).x (w 2).x (w 3).x t.x
      let sf := curve_subdivide (w 0).f (w 1).f (w 2).f (w 3).f t.f
      let o (j : Nat) : FV := ov.getD (j*d + k) default
      [one stream 64 scale "left.0" sx.t0.t0 sf.t0.t0 (o 0), one stream 64 scale "left.1" sx.t0.t1 sf.t0.t1 (o 1),
       one stream 64 scale "left.2" sx.t0.t2 sf.t0.t2 (o 2), one stream 64 scale "left.3" sx.t0.t3 sf.t0.t3 (o 3),
       one stream 64 scale "right.0" sx.t1.t0 sf.t1.t0 (o 4), one stream 64 scale "right.1" sx.t1.t1 sf.t1.t1 (o 5),
       one stream 64 scale "right.2" sx.t1.t2 sf.t1.t2 (o 6), one stream 64 scale "right.3" sx.t1.t3 sf.t1.t3 (o 7)]
  | "section" =>
    -- ins: d a b s w1..w4; outs: point[d] start[d] end[d] cp1[d] cp2[d] ta tb
    let d := parseNat (ins.headD "1")
    let iv := iv.drop 1
    let a := iv.getD 0 default
    let b := iv.getD 1 default
    let s := iv.getD 2 default
    let pts := chunk d (iv.drop 3)
    let scale := maxAbs (iv.drop 3)
    let secx := section_new a.x b.x
    let secf := section_new a.f b.f
    let tv := section_original_curve_t_values secx
    let tvf := section_original_curve_t_values secf
    ((List.range d).flatMap fun k =>
      let w (i : Nat) : FV := (pts.getD i []).getD k default
      let o (j : Nat) : FV := ov.getD (j*d + k) default
      let cpx := section_control_points (w 0).x (w 1).x (w 2).x (w 3).x secx
      let cpf := section_control_points (w 0).f (w 1).f (w 2).f (w 3).f secf
      [one stream 256 scale "point" (section_point_at_pos (w 0).x (w 1).x (w 2).x (w 3).x secx s.x)
          (section_point_at_pos (w 0).f (w 1).f (w 2).f (w 3).f secf s.f) (o 0),
       one stream 256 scale "start" (section_start_point (w 0).x (w 1).x (w 2).x (w 3).x secx)
          (section_start_point (w 0).f (w 1).f (w 2).f (w 3).f secf) (o 1),
       one stream 256 scale "end" (section_end_point (w 0).x (w 1).x (w 2).x (w 3).x secx)
          (section_end_point (w 0).f (w 1).f (w 2).f (w 3).f secf) (o 2),
       one stream 256 scale "cp1" cpx.t0 cpf.t0 (o 3),
       one stream 256 scale "cp2" cpx.t1 cpf.t1 (o 4)]) ++
    [one stream 4 1 "t_min" tv.t0 tvf.t0 (ov.getD (5*d) default),
     one stream 4 1 "t_max" tv.t1 tvf.t1 (ov.getD (5*d+1) default)]
  | "subsection" =>
    -- ins: d a b c e s w1..w4; outs: point[d] ta tb
    let d := parseNat (ins.headD "1")
    let iv := iv.drop 1
    let a := iv.getD 0 default
    let b := iv.getD 1 default
    let c := iv.getD 2 default
    let e := iv.getD 3 default
    let s := iv.getD 4 default
    let pts := chunk d (iv.drop 5)
    let scale := maxAbs (iv.drop 5)
    let secx := section_subsection (section_new a.x b.x) c.x e.x
    let secf := section_subsection (section_new a.f b.f) c.f e.f
    let tv := section_original_curve_t_values secx
    let tvf := section_original_curve_t_values secf
    ((List.range d).map fun k =>
      let w (i : Nat) : FV := (pts.getD i []).getD k default
      one stream 256 scale "point" (section_point_at_pos (w 0).x (w 1).x (w 2).x (w 3).x secx s.x)
          (section_point_at_pos (w 0).f (w 1).f (w 2).f (w 3).f secf s.f) (ov.getD k default)) ++
    [one stream 8 1 "t_min" tv.t0 tvf.t0 (ov.getD d default),
     one stream 8 1 "t_max" tv.t1 tvf.t1 (ov.getD (d+1) default)]
  | "reverse" =>
    let d := parseNat (ins.headD "1")
    let iv := iv.drop 1
    let pts := chunk d iv
    (List.range d).flatMap fun k =>
      let w (i : Nat) : FV := (pts.getD i []).getD k default
      let rx := curve_reverse (w 0).x (w 1).x (w 2).x (w 3).x
      let rf := curve_reverse (w 0).f (w 1).f (w 2).f (w 3).f
      let o (j : Nat) : FV := ov.getD (j*d + k) default
      [one "D" 0 1 "rev.0" rx.t0 rf.t0 (o 0), one "D" 0 1 "rev.1" rx.t1 rf.t1 (o 1),
       one "D" 0 1 "rev.2" rx.t2 rf.t2 (o 2), one "D" 0 1 "rev.3" rx.t3 rf.t3 (o 3)]
  | "pathrev" =>
    -- ins: start.x start.y then (cp1 cp2 end) x,y per curve ; outs: #n start.x start.y then triples of the reversed path
    let pt (l : List FV) (i : Nat) : V2 UInt64 := ⟨(l.getD i default).bits, (l.getD (i+1) default).bits⟩
    let triples (l : List FV) : List (T3 (V2 UInt64) (V2 UInt64) (V2 UInt64)) :=
      (List.range ((l.length - 2) / 6)).map fun k => T3.mk (pt l (2 + 6*k)) (pt l (4 + 6*k)) (pt l (6 + 6*k))
    let ovr : List FV := (outs.drop 1).map (fun s => ⟨parseHex s⟩)
    let m := path_reversed (⟨0, 0⟩ : V2 UInt64) (pt iv 0) (triples iv)
    let ok := m.t0 == pt ovr 0 && m.t1 == triples ovr && parseNat (outs.headD "") == m.t1.length
    [{ field := "path_reversed", cmp := if ok then .same 0 else .diff s!"model reversed path differs from the implementation's ({m.t1.length} curves)", fbit := some ok }]
  | "tfor" =>
    -- ins: a b t ; outs: t_for_t(t), section_t_for_original_t(that)
    let a := iv.getD 0 default
    let b := iv.getD 1 default
    let t := iv.getD 2 default
    let secx := section_new a.x b.x
    let secf := section_new a.f b.f
    let u := section_t_for_t secx t.x
    let uf := section_t_for_t secf t.f
    -- the inverse is evaluated at the implementation's own (rounded) `u`, so only its own rounding is compared;
    -- its error is relative to the quotient and to the cancellation in `u - t_c` (one ulp of 1 divided by t_m)
    let ui : FV := ov.getD 0 default
    let inv := section_t_for_original_t secx ui.x
    let tm := ratAbs ((secx.t_m).toRat?.getD 0)
    let scale := ratMax 1 (ratMax (ratAbs (inv.toRat?.getD 0)) (if tm == 0 then 0 else 1 / tm))
    [one stream 4 1 "t_for_t" u uf ui,
     one stream 16 scale "section_t_for_original_t" inv (section_t_for_original_t secf ui.f) (ov.getD 1 default)]
  | _ => [{ field := "unknown-op " ++ op, cmp := .diff "driver does not know this operation", fbit := none }]

end Driver.C05
