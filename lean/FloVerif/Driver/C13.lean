import FloVerif.Driver.Util
import FloVerif.Driver.C05
import FloVerif.Gen.FatLine
/-! Correspondence for C13: the generated fat-line kernels (Float mirror) against the implementation (hook H1). -/
namespace Driver.C13
open Prelude Gen Driver Driver.C05

def pt (l : List FV) (i : Nat) : V2 Float := ⟨(l.getD (2*i) default).f, (l.getD (2*i+1) default).f⟩

def closeF (a b : Float) : Bool :=
  a.toBits == b.toBits || (a.isNaN && b.isNaN) || (a - b).abs ≤ 1e-9 * (1 + a.abs)

def mkc (name : String) (m : Float) (i : FV) : Out :=
  { field := name, cmp := if closeF m i.f then .same 0 else .diff s!"model={m} impl={i.f}", fbit := some (m.toBits == i.bits || (m.isNaN && i.f.isNaN)) }

def cmpClip (name : String) (m : Option (T2 Float Float)) (flag : Nat) (a b : FV) : List Out :=
  match m, flag with
  | none, 0 => [{ field := name ++ ".none", cmp := .same 0, fbit := some true }]
  | some r, 1 => [mkc (name ++ ".t1") r.t0 a, mkc (name ++ ".t2") r.t1 b]
  | _, _ => [{ field := name ++ ".some/none", cmp := .diff s!"model={if m.isSome then "some" else "none"} impl flag={flag}", fbit := none }]

def handle (op : String) (ins outs : List String) : List Out :=
  let iv : List FV := ins.map (fun s => ⟨parseHex s⟩)
  match op with
  | "fat" =>
    let ov : List FV := outs.map (fun s => ⟨parseHex s⟩)
    let fl := fat_from_curve (pt iv 0) (pt iv 1) (pt iv 2) (pt iv 3)
    let pl := fat_from_curve_perpendicular (pt iv 0) (pt iv 1) (pt iv 2) (pt iv 3)
    let o (i : Nat) := ov.getD i default
    [mkc "from_curve.d_min" fl.d_min (o 0), mkc "from_curve.d_max" fl.d_max (o 1), mkc "from_curve.a" fl.coeff.t0 (o 2),
     mkc "from_curve.b" fl.coeff.t1 (o 3), mkc "from_curve.c" fl.coeff.t2 (o 4),
     mkc "perpendicular.d_min" pl.d_min (o 5), mkc "perpendicular.d_max" pl.d_max (o 6), mkc "perpendicular.a" pl.coeff.t0 (o 7),
     mkc "perpendicular.b" pl.coeff.t1 (o 8), mkc "perpendicular.c" pl.coeff.t2 (o 9)]
  | "clipt" =>
    -- ins: against (8) curve (8); outs: flag t1 t2 pflag pt1 pt2
    let fl := fat_from_curve (pt iv 0) (pt iv 1) (pt iv 2) (pt iv 3)
    let pl := fat_from_curve_perpendicular (pt iv 0) (pt iv 1) (pt iv 2) (pt iv 3)
    let c := clip_t fl (pt iv 4) (pt iv 5) (pt iv 6) (pt iv 7)
    let pc := clip_t pl (pt iv 4) (pt iv 5) (pt iv 6) (pt iv 7)
    let f (i : Nat) : FV := ⟨parseHex (outs.getD i "0")⟩
    cmpClip "clip_t" c (parseNat (outs.getD 0 "0")) (f 1) (f 2) ++ cmpClip "clip_t(perpendicular)" pc (parseNat (outs.getD 3 "0")) (f 4) (f 5)
  | _ => [{ field := "unknown-op " ++ op, cmp := .diff "driver does not know this operation", fbit := none }]

end Driver.C13
