import FloVerif.Driver.Util
import FloVerif.Driver.C05
import FloVerif.Gen.Walk
/-! Correspondence for C15: the generated walk iterators (Float mirror) run to exhaustion against the implementation's sections. -/
namespace Driver.C15
open Prelude Gen Driver Driver.C05

def evenGo (w1 w2 w3 w4 : V2 Float) (d : T3 (V2 Float) (V2 Float) (V2 Float)) (dist err : Float) :
    Nat → Float → V2 Float → Float → List (Float × Float)
  | 0, _, _, _ => []
  | n + 1, lastT, lastP, lastInc =>
    let r := even_walk_next w1 w2 w3 w4 d dist err lastT lastP lastInc
    match r.t0 with
    | none => []
    | some sec => (sec.t0, sec.t1) :: evenGo w1 w2 w3 w4 d dist err n r.t1.t0 r.t1.t1 r.t1.t2

def unevenGo (n : Nat) : Nat → Nat → List (Float × Float)
  | 0, _ => []
  | f + 1, k =>
    let r := uneven_walk_next (K := Float) n k
    match r.t0 with
    | none => []
    | some sec => (sec.t0, sec.t1) :: unevenGo n f r.t1

/-- a varied walk: the generated `vary_step` with the next distance (a finite list, cycled or used up), then the generated
    `even_walk_next`; `k` is the number of distances asked for so far -/
def varyGo (w1 w2 w3 w4 : V2 Float) (d : T3 (V2 Float) (V2 Float) (V2 Float)) (err : Float) (vs : List Float) (cyc : Bool) :
    Nat → Nat → Float → Float → V2 Float → Float → List (Float × Float)
  | 0, _, _, _, _, _ => []
  | n + 1, k, dist, lastT, lastP, lastInc =>
    let nextD : Option Float :=
      if vs.isEmpty then none else if cyc then some (vs.getD (k % vs.length) 0.0) else if k < vs.length then some (vs.getD k 0.0) else none
    let u : Float × Float := match nextD with
      | some x => let v := vary_step x dist lastInc; (v.t1.t0, v.t1.t1)
      | none => (dist, lastInc)
    let r := even_walk_next w1 w2 w3 w4 d u.1 err lastT lastP u.2
    match r.t0 with
    | none => []
    | some sec => (sec.t0, sec.t1) :: varyGo w1 w2 w3 w4 d err vs cyc n (k + 1) u.1 r.t1.t0 r.t1.t1 r.t1.t2

def cmpSections (name : String) (model : List (Float × Float)) (impl : List FV) (cap : Nat) : List Out :=
  let implPairs := (chunk 2 impl).map (fun p => ((p.getD 0 default).f, (p.getD 1 default).f))
  let m := model.take cap
  let same := m.length == implPairs.length &&
    (m.zip implPairs).all (fun (a, b) => (a.1.toBits == b.1.toBits || (a.1 - b.1).abs ≤ 1e-9) && (a.2.toBits == b.2.toBits || (a.2 - b.2).abs ≤ 1e-9))
  let bits := m.length == implPairs.length && (m.zip implPairs).all (fun (a, b) => a.1.toBits == b.1.toBits && a.2.toBits == b.2.toBits)
  [{ field := name, cmp := if same then .same 0 else .diff s!"model {m.length} sections {m.take 4}… impl {implPairs.length} sections {implPairs.take 4}…", fbit := some bits }]

def handle (op : String) (ins outs : List String) : List Out :=
  match op with
  | "even" =>
    -- ins: w (8) distance max_error cap; outs: n (a b)*   (at most `cap` sections were recorded)
    let iv : List FV := (ins.take 10).map (fun s => ⟨parseHex s⟩)
    let cap := parseNat (ins.getD 10 "0")
    let p (i : Nat) : V2 Float := ⟨(iv.getD (2*i) default).f, (iv.getD (2*i+1) default).f⟩
    let st := walk_curve_evenly (p 0) (p 1) (p 2) (p 3) (iv.getD 8 default).f (iv.getD 9 default).f
    let model := evenGo (p 0) (p 1) (p 2) (p 3) st.derivative st.distance st.max_error (cap + 1) st.last_t st.last_point st.last_increment
    cmpSections "walk_curve_evenly" model ((outs.drop 1).map (fun s => ⟨parseHex s⟩)) cap
  | "vary" =>
    -- ins: w (8) distance max_error #cyc #k v1..vk #cap; outs: n (a b)*
    let iv : List FV := (ins.take 10).map (fun s => ⟨parseHex s⟩)
    let cyc := parseNat (ins.getD 10 "0") == 1
    let k := parseNat (ins.getD 11 "0")
    let vs : List Float := ((ins.drop 12).take k).map (fun s => (⟨parseHex s⟩ : FV).f)
    let cap := parseNat (ins.getD (12 + k) "0")
    let p (i : Nat) : V2 Float := ⟨(iv.getD (2*i) default).f, (iv.getD (2*i+1) default).f⟩
    let st := walk_curve_evenly (p 0) (p 1) (p 2) (p 3) (iv.getD 8 default).f (iv.getD 9 default).f
    let model := varyGo (p 0) (p 1) (p 2) (p 3) st.derivative st.max_error vs cyc (cap + 1) 0 st.distance st.last_t st.last_point st.last_increment
    cmpSections "walk_curve_evenly.vary_by" model ((outs.drop 1).map (fun s => ⟨parseHex s⟩)) cap
  | "uneven" =>
    let n := parseNat (ins.getD 0 "0")
    cmpSections "walk_curve_unevenly" (unevenGo n (n + 2) 0) ((outs.drop 1).map (fun s => ⟨parseHex s⟩)) (n + 2)
  | _ => [{ field := "unknown-op " ++ op, cmp := .diff "driver does not know this operation", fbit := none }]

end Driver.C15
