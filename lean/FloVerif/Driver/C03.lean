import FloVerif.Driver.Util
import FloVerif.Model.Graph
import FloVerif.Model.GraphSplit
import FloVerif.Gen.Clockwise
/-!
Correspondence for C03: the hand model `Model.Graph` of the `GraphPath` structure against traces of the real
`from_path`, `merge` and `detect_collisions` (hook `verif_collide_trace`: private structure between the stages and
the geometric decisions). Everything is compared exactly (indices); the `t` values travel as bits and are compared
with `Float`'s `<`, `≤` exactly as the Rust code compares its `f64`s.
Also evaluates the proven checkers `folWfCheck` / `connOkCheck` / `connExactCheck` (Props/C03.lean) on the REAL graphs.
-/
namespace Driver.C03
open Driver Prelude Model Model.Graph

abbrev P := StateM (List String)

def tok : P String := do
  let s ← get
  match s with
  | [] => return ""
  | a :: r => set r; return a
def nat : P Nat := do return parseNat (← tok)
def bits : P UInt64 := do return parseHex (← tok)
def many {β} (n : Nat) (p : P β) : P (List β) := do
  let mut out := #[]
  for _ in [0:n] do
    out := out.push (← p)
  return out.toList

def unknown : Nat := 999999

/-- a graph block of the transcript -/
structure GDump where
  g : Graph
  pos : List (UInt64 × UInt64)
  cps : List (List (List UInt64))
  rev : List (Option (List (Nat × Nat)))
  connKnown : Bool
deriving Inhabited

def gdump : P GDump := do
  let np ← nat
  let pts ← many np (do
    let px ← bits; let py ← bits
    let ne ← nat
    let es ← many ne (do
      let e ← nat; let f ← nat; let l ← nat; let k ← nat
      let c ← many 4 bits
      return (({ endIdx := e, fol := f, label := l, kind := k } : Edge), c))
    let nr ← nat
    let rev ← if nr == unknown then pure none else do
      let r ← many nr (do let a ← nat; let b ← nat; return (a, b))
      pure (some r)
    let nc ← nat
    let conn ← if nc == unknown then pure none else do
      let c ← many nc nat
      pure (some c)
    return ((px, py), es, rev, conn))
  return {
    g := pts.map fun (_, es, _, conn) => { edges := es.map (·.1), conn := conn.getD [] }
    pos := pts.map (·.1)
    cps := pts.map fun (_, es, _, _) => es.map (·.2)
    rev := pts.map fun (_, _, rev, _) => rev
    connKnown := pts.all fun (_, _, _, conn) => conn.isSome }

structure Out where
  field : String
  ok : Bool
  msg : String

def mk (field : String) (ok : Bool) (msg : String) : Out := { field := field, ok := ok, msg := if ok then "" else msg }

def showEdge (e : Edge) : String := s!"({e.endIdx},{e.fol},l{e.label},k{e.kind})"
def showGraph (g : Graph) : String :=
  " ".intercalate (g.zipIdx.map fun (pt, i) => s!"{i}:[" ++ ",".intercalate (pt.edges.map showEdge) ++ s!"]<{pt.conn}")

def stripLabels (g : Graph) : Graph := g.map fun pt => { pt with edges := pt.edges.map fun e => { e with label := 0 } }
def stripConn (g : Graph) : Graph := g.map fun pt => { pt with conn := [] }

/-- structural comparison of the model's graph with a dump: edges (labels only when the dump has them), connected_from when the dump has it -/
def cmpGraph (field : String) (model : Graph) (d : GDump) (labels : Bool) : List Out :=
  let m1 := if labels then model else stripLabels model
  let d1 := if labels then d.g else stripLabels d.g
  [mk (field ++ ".edges") (stripConn m1 == stripConn d1) s!"model={showGraph m1} impl={showGraph d1}"] ++
  (if d.connKnown then [mk (field ++ ".connected_from") (model.map (·.conn) == d.g.map (·.conn)) s!"model={model.map (·.conn)} impl={d.g.map (·.conn)}"] else [])

/-- `reverse_edges_for_point` of the model against the real iterator, for every point -/
def cmpReverse (field : String) (model : Graph) (d : GDump) : List Out :=
  if d.rev.all (·.isSome) then
    let mr := (List.range model.length).map (reverseEdges model)
    let ir := d.rev.map (·.getD [])
    [mk (field ++ ".reverse_edges") (mr == ir) s!"model={mr} impl={ir}"]
  else []

/-- without the hook `connected_from` is only visible through `reverse_edges_for_point`: the start points it lists, in order -/
def withObservedConn (d : GDump) : Graph :=
  if d.connKnown then d.g else
  (d.g.zip d.rev).map fun (pt, r) => { pt with conn := dedupAdj ((r.getD []).map (·.1)) }

/-- the proven checkers on a REAL graph -/
def checks (field : String) (g : Graph) (conn exact : Bool) : List Out :=
  [mk (field ++ ".folWfCheck") (folWfCheck g) s!"following-edge structure of the real graph is not well formed: {showGraph g}"] ++
  (if conn then [mk (field ++ ".connOkCheck") (connOkCheck g) s!"connected_from of the real graph is incomplete, repeats a point or is out of range: {showGraph g}"] else []) ++
  (if exact then [mk (field ++ ".connExactCheck") (connExactCheck g) s!"connected_from of the real graph lists a point without an edge: {showGraph g}"] else []) ++
  [mk (field ++ ".balanced") ((List.range g.length).all fun p => inDegree g p == outDegree g p) s!"in-degree differs from out-degree: {showGraph g}"]

def handleFromPath (ins outs : List String) : List Out :=
  let ((label, skips, closed), _) := (do
      let label ← nat; let n ← nat
      let skips ← many n (do return (← nat) != 0)
      let closed ← nat
      return (label, skips, closed != 0) : P _).run ins
  let (d, _) := gdump.run outs
  let m := fromPath label skips closed
  cmpGraph "from_path" m d true ++ cmpReverse "from_path" m d ++
  checks "from_path.real" (withObservedConn d) true true

def handleMerge (ins outs : List String) : List Out :=
  let ((a, b), _) := (do let a ← gdump; let b ← gdump; return (a, b) : P _).run ins
  let (d, _) := gdump.run outs
  let m := merge (withObservedConn a) (withObservedConn b)
  cmpGraph "merge" m d true ++ cmpReverse "merge" m d ++ checks "merge.real" (withObservedConn d) true true

def collision : P (Collision Float) := do
  let p1 ← nat; let e1 ← nat; let t1 ← bits
  let p2 ← nat; let e2 ← nat; let t2 ← bits
  return { p1 := p1, e1 := e1, t1 := Float.ofBits t1, p2 := p2, e2 := e2, t2 := Float.ofBits t2 }

def pairs : P (List (Nat × Nat)) := do
  let n ← nat
  many n (do let a ← nat; let b ← nat; return (a, b))

/-- labels of the model graph carried over to a dump of the same shape that has none -/
def copyLabels (model dump : Graph) : Graph :=
  (dump.zip model).map fun (dp, mp) => { dp with edges := (dp.edges.zip mp.edges).map fun (de, me) => { de with label := me.label } }

def v2 (x y : UInt64) : V2 Float := ⟨Float.ofBits x, Float.ofBits y⟩
def v2bits (v : V2 Float) : List UInt64 := [v.x.toBits, v.y.toBits]

/-- control points of the edges that replace every divided edge: the Float mirror of `Model.GraphSplit.splitCurve`
(its subdivision is the generated `Gen.curve_subdivide`) against the bits of the real edges, walking the chain of
following edges from the divided edge in the model's graph `mS` (which the caller compares with the real one) -/
def cmpSplitGeometry (start : GDump) (g1 : Graph) (tbl : HitTable Float) (mS : Graph) (split : GDump) : List Out :=
  let posOf (d : GDump) (p : Nat) : V2 Float := match d.pos[p]? with | some (x, y) => v2 x y | none => ⟨0, 0⟩
  (tbl.zipIdx.flatMap fun (row?, p) =>
    match row? with
    | none => []
    | some row => row.zipIdx.flatMap fun (hits, e) =>
      let ts := ((sortHits hits).filter fun h => !tIsZero h.1).map (·.1)
      match ts, edgeAt g1 p e, (start.cps[p]?.bind (·[e]?)) with
      | _ :: _, some ed, some [c1x, c1y, c2x, c2y] =>
        let w : T4 (V2 Float) (V2 Float) (V2 Float) (V2 Float) := ⟨posOf start p, v2 c1x c1y, v2 c2x c2y, posOf start ed.endIdx⟩
        let pieces := GraphSplit.splitCurve w ts
        -- walk the chain
        let (_, outs) := pieces.foldl (fun (st : (Nat × Nat) × List Out) piece =>
          let (r, acc) := st
          match edgeAt mS r.1 r.2, (split.cps[r.1]?.bind (·[r.2]?)) with
          | some me, some real =>
            let model := v2bits piece.t1 ++ v2bits piece.t2
            ((me.endIdx, me.fol), acc ++ [mk "split.control_points" (model == real) s!"edge ({p},{e}) divided at {ts}: piece at ({r.1},{r.2}) model={model} impl={real}"])
          | _, _ => (r, acc ++ [mk "split.control_points" false s!"edge ({p},{e}): the chain of following edges leaves the graph at ({r.1},{r.2})"])) ((p, e), [])
        outs
      | _, _, _ => [])

def handleCollide (ins outs : List String) : List Out :=
  let ((start, cs, pts, any, acc, rem), _) := (do
      let start ← gdump
      let nc ← nat
      let cs ← many nc collision
      let np ← nat
      let pts ← many np nat
      let any ← nat
      let acc ← pairs
      let rem ← pairs
      return (start, cs, pts, any != 0, acc, rem) : P _).run ins
  let ((startHook, split?, combined, endD, final), _) := (do
      let sh ← gdump
      let hasSplit ← nat
      let split? ← if hasSplit != 0 then do
          let s ← gdump; let r ← gdump
          pure (some (s, r))
        else pure none
      let c ← gdump; let e ← gdump; let f ← gdump
      return (sh, split?, c, e, f) : P _).run outs
  let g0 := start.g
  -- connected_from of the start graph may already hold entries no edge justifies (a graph that was collided before)
  let exact0 := connExactCheck g0
  -- the hook's view of the start graph is the public view of the merged graph
  let o0 := cmpGraph "start" g0 startHook false
  -- the selection rule of find_collisions holds for every collision it returned
  let oSel := [mk "collisions.keepHit" (cs.all fun c => if c.p1 == c.p2 && c.e1 == c.e2 then keepSelfHit c.t1 c.t2 else keepHit c.t1 c.t2)
    "a collision at t>=1 or at the start of both edges was returned"]
  -- create_collision_points
  let mPts := (createCollisionPoints g0 cs).2.map (·.2)
  let oPts := if cs.isEmpty then [] else [mk "collision_points" (mPts == pts) s!"model={mPts} impl={pts}"]
  -- splitting, recalculate_reverse_connections
  let (g1, o1) := match split? with
    | none => (g0, [mk "no_split_stage" cs.isEmpty "the trace has no split stage although there were collisions"])
    | some (s, r) =>
      let mS := splitStage g0 cs
      let mR := recalc mS
      let cp := createCollisionPoints g0 cs
      (mR, [mk "split_stage_present" (!cs.isEmpty) "the trace has a split stage without collisions"] ++
        cmpGraph "split" mS s false ++ cmpGraph "recalc" mR r false ++
        cmpSplitGeometry start cp.1 (organize cp.1 cp.2) mS s ++
        checks "split.real" (copyLabels mS s.g) false false ++ checks "recalc.real" (copyLabels mR r.g) true true)
  -- combine_overlapping_points
  let mC := combine g1 any acc
  let o2 := cmpGraph "combined" mC combined false ++ checks "combined.real" combined.g true (split?.isSome || exact0)
  -- remove_all_very_short_edges
  let (mE, o3) := match removeAllVeryShort mC rem with
    | none => (mC, [mk "remove_edge" false "the model's remove_edge found no preceding edge (the real loop would not terminate)"])
    | some (g, left) => (g, [mk "removed_edges_consumed" left.isEmpty s!"removals of the trace the model did not perform: {left}"])
  let o4 := cmpGraph "end" mE endD false ++ checks "end.real" endD.g true false
  -- the graph the caller gets, through the public queries (labels, reverse edges)
  let o5 := cmpGraph "final" mE final true ++ cmpReverse "final" mE final
  o0 ++ oSel ++ oPts ++ o1 ++ o2 ++ o3 ++ o4 ++ o5

def handleFinal (ins outs : List String) : List Out :=
  let (labels, _) := (do let n ← nat; many n nat : P _).run ins
  let (d, _) := gdump.run outs
  let g := withObservedConn d
  checks "final.real" g true true ++
  [mk "final.labels" ((allEdges g).all fun e => labels.contains e.label) s!"an edge carries a label no input had: {showGraph g}"] ++
  cmpReverse "final" g d

def handle (op : String) (ins outs : List String) : List Out :=
  match op with
  | "from_path" => handleFromPath ins outs
  | "merge" => handleMerge ins outs
  | "collide" => handleCollide ins outs
  | "final" => handleFinal ins outs
  | "cw" =>
    -- ins: #n x0 y0 ...; outs: points_are_clockwise, path.is_clockwise() (the path's end points).  Generated function at Float.
    let n := parseNat (ins.headD "#0")
    let fl (s : String) : Float := Float.ofBits (parseHex s)
    let rec pts : List String → List (V2 Float)
      | x :: y :: rest => ⟨fl x, fl y⟩ :: pts rest
      | _ => []
    let model := Gen.points_are_clockwise (pts ((ins.drop 1).take (2 * n)))
    let a := parseNat (outs.getD 0 "#0") == 1
    let b := parseNat (outs.getD 1 "#0") == 1
    [mk "points_are_clockwise" (model == a) s!"model {model} impl {a}", mk "is_clockwise" (model == b) s!"model {model} path.is_clockwise {b}"]
  | _ => [mk ("unknown-op " ++ op) false "driver does not know this operation"]

end Driver.C03
