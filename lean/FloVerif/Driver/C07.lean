import FloVerif.Driver.Util
import FloVerif.Driver.C18
import FloVerif.Gen.PointInPath
/-!
Correspondence for C07: the generated `path_contains_point`, `normal_at_pos`, `tangent_at_pos` at `Float` (bit mirror of
the Rust arithmetic) against the implementation.  `ray_collisions` is a parameter of the generated function: the
driver passes the collision list that the real `ray_collisions` returned for the same path and ray.
-/
namespace Driver.C07
open Prelude Gen Driver Driver.C18

abbrev Cv := T4 (V2 Float) (V2 Float) (V2 Float) (V2 Float)
abbrev Coll := T4 Nat Float Float (V2 Float)

def flt : P Float := do return Float.ofBits (parseHex (← tok))
def pt : P (V2 Float) := do let x ← flt; let y ← flt; return ⟨x, y⟩
def sameF (a b : Float) : Bool := a.toBits == b.toBits || (a.isNaN && b.isNaN)
def sameP (a b : V2 Float) : Bool := sameF a.x b.x && sameF a.y b.y
def showP (a : V2 Float) : String := s!"({a.x}, {a.y})"

structure Query where
  point : V2 Float
  ray0 : V2 Float
  colls : List Coll

structure Answer where
  contains : Nat                          -- 0 / 1, 2 = the implementation panicked
  dirs : List (V2 Float × Int)            -- per collision: normal and direction as the implementation computes them

def handleContains (ins outs : List String) : List Out :=
  let ((curves, bounds, queries), _) := (do
      let n ← nat
      let curves ← many n (do let a ← pt; let b ← pt; let c ← pt; let d ← pt; return (T4.mk a b c d : Cv))
      let mn ← pt; let mx ← pt
      let m ← nat
      let qs ← many m (do
        let p ← pt; let r0 ← pt; let k ← nat
        let cs ← many k (do let i ← nat; let t ← flt; let lt ← flt; let pos ← pt; return (T4.mk i t lt pos : Coll))
        return ({ point := p, ray0 := r0, colls := cs } : Query))
      return (curves, (T2.mk mn mx : T2 (V2 Float) (V2 Float)), qs) : P _).run ins
  let (answers, _) := (do
      let mut out : List Answer := []
      for q in queries do
        let a ← nat
        let ds ← if a == 2 then pure [] else many q.colls.length (do let nrm ← pt; let d ← tok; return (nrm, parseInt d))
        out := out ++ [{ contains := a, dirs := ds }]
      return out : P _).run outs
  (queries.zip answers).flatMap fun (q, a) =>
    if a.contains == 2 then [] else
    let impl := a.contains == 1
    -- the model with the recorded collisions, whatever ray it asks for
    let m1 := path_contains_point (fun _ _ => q.colls) bounds curves q.point
    -- the model with the recorded collisions only for the ray the harness used (else a list that gives the other answer)
    let poison : List Coll := if impl then [] else [T4.mk 0 0.5 0.0 q.point]
    let m2 := path_contains_point (fun cs ray => if sameP ray.t0 q.ray0 && sameP ray.t1 q.point && cs.length == curves.length then q.colls else poison)
      bounds curves q.point
    let rd := q.point - q.ray0
    [mk "contains" (m1 == impl) s!"point={showP q.point}: model={m1} impl={impl} collisions={q.colls.length}",
     mk "ray_given_to_ray_collisions" (m1 != impl || m2 == impl) s!"point={showP q.point}: the model asks ray_collisions for another ray than {showP q.ray0} -> point"] ++
    (q.colls.zip a.dirs).map fun (c, (nrm, d)) =>
      let cv : Cv := listGet curves c.t0
      let mn := normal_at_pos cv.t0 cv.t1 cv.t2 cv.t3 c.t1
      let md := toInt_i32 (fsignum (dot rd mn))
      mk "normal_and_direction" (sameP mn nrm && md == d) s!"curve={c.t0} t={c.t1}: model normal={showP mn} direction={md} impl normal={showP nrm} direction={d}"

def handleNormal (ins outs : List String) : List Out :=
  let ((w1, w2, w3, w4, t), _) := (do let a ← pt; let b ← pt; let c ← pt; let d ← pt; let t ← flt; return (a, b, c, d, t) : P _).run ins
  let ((nrm, tan), _) := (do let n ← pt; let t ← pt; return (n, t) : P _).run outs
  let mn := normal_at_pos w1 w2 w3 w4 t
  let mt := tangent_at_pos w1 w2 w3 w4 t
  [mk "normal_at_pos" (sameP mn nrm) s!"t={t}: model={showP mn} impl={showP nrm}",
   mk "tangent_at_pos" (sameP mt tan) s!"t={t}: model={showP mt} impl={showP tan}"]

def handle (op : String) (ins outs : List String) : List Out :=
  match op with
  | "contains" => handleContains ins outs
  | "normal" => handleNormal ins outs
  | _ => [mk ("unknown-op " ++ op) false "driver does not know this operation"]

end Driver.C07
