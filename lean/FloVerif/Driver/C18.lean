import FloVerif.Driver.Util
import FloVerif.Model.Space1D
import FloVerif.Model.Sweep
/-! Correspondence for C18: the hand models of Space1D and the sweeps at `Rat` against the implementation (exact). -/
namespace Driver.C18
open Prelude Driver Model

abbrev P := StateM (List String)

def tok : P String := do
  let s ← get
  match s with
  | [] => return ""
  | a :: r => set r; return a
def nat : P Nat := do return parseNat (← tok)
def rat : P Rat := do return bitsToRat (parseHex (← tok))
def many {β} (n : Nat) (p : P β) : P (List β) := do
  let mut out := []
  for _ in [0:n] do
    out := out ++ [← p]
  return out
def natList : P (List Nat) := do let m ← nat; many m nat

def sortNat (l : List Nat) : List Nat := l.mergeSort (fun a b => decide (a ≤ b))
def sortPairs (l : List (Nat × Nat)) : List (Nat × Nat) :=
  l.mergeSort (fun a b => decide (a.1 < b.1) || (a.1 == b.1 && decide (a.2 ≤ b.2)))

structure Out where
  field : String
  ok : Bool
  msg : String

def mk (field : String) (ok : Bool) (msg : String) : Out := { field := field, ok := ok, msg := if ok then "" else msg }

def handleSpace (ins outs : List String) : List Out :=
  let (ranges, _) := (do let n ← nat; many n (do let s ← rat; let e ← rat; return (s, e)) : P _).run ins
  let sp := Space1D.fromData ranges
  let parsed := (do
      let k ← nat
      let regions ← many k (do let s ← rat; let e ← rat; let hs ← natList; return (s, e, hs))
      let _ ← tok
      let q ← nat
      let points ← many q (do let x ← rat; let hs ← natList; return (x, hs))
      let _ ← tok
      let r ← nat
      let regs ← many r (do let a ← rat; let b ← rat; let hs ← natList; let c ← nat; return (a, b, hs, c))
      return (regions, points, regs) : P _).run outs
  let (regions, points, regs) := parsed.1
  let modelRegions := sp.map (fun p => (p.s, p.e, sortNat p.hs))
  let implRegions := regions.map (fun (s, e, hs) => (s, e, sortNat hs))
  [mk "all_regions" (modelRegions == implRegions) s!"model={repr modelRegions} impl={repr implRegions}"] ++
  points.map (fun (x, hs) =>
    let m := sortNat (Space1D.dataAtPoint sp x)
    mk "data_at_point" (m == sortNat hs) s!"x={x} model={m} impl={sortNat hs}") ++
  regs.flatMap (fun (a, b, hs, c) =>
    let m := sortNat (Space1D.dataInRegion sp a b)
    let mc := (Space1D.regionsInRange sp a b).length
    [mk "data_in_region" (m == sortNat hs) s!"region={a}..{b} model={m} impl={sortNat hs}",
     mk "regions_in_range" (mc == c) s!"region={a}..{b} model count={mc} impl count={c}"])

def item : P (Sweep.Item Rat) := do
  let id ← nat
  let x0 ← rat; let x1 ← rat; let y0 ← rat; let y1 ← rat
  return { id := id, b := { min_ := ⟨x0, y0⟩, max_ := ⟨x1, y1⟩ } }

def handleSweepSelf (ins outs : List String) : List Out :=
  let (items, _) := (do let n ← nat; many n item : P _).run ins
  let (pairs, _) := (do let p ← nat; many p (do let a ← nat; let b ← nat; return (a, b)) : P _).run outs
  let canon (l : List (Nat × Nat)) := sortPairs (l.map fun (a, b) => (min a b, max a b))
  let m := canon ((Sweep.sweepSelf items).map fun (a, b) => (a.id, b.id))
  [mk "sweep_self" (m == canon pairs) s!"model={m} impl={canon pairs}"]

def handleSweepAgainst (ins outs : List String) : List Out :=
  let ((src, tgt), _) := (do let n ← nat; let s ← many n item; let k ← nat; let t ← many k item; return (s, t) : P _).run ins
  let (pairs, _) := (do let p ← nat; many p (do let a ← nat; let b ← nat; return (a, b)) : P _).run outs
  let m := sortPairs ((Sweep.sweepAgainst src tgt).map fun (a, b) => (a.id, b.id))
  [mk "sweep_against" (m == sortPairs pairs) s!"model={m} impl={sortPairs pairs}"]

def handle (op : String) (ins outs : List String) : List Out :=
  match op with
  | "space" => handleSpace ins outs
  | "sweep_self" => handleSweepSelf ins outs
  | "sweep_against" => handleSweepAgainst ins outs
  | _ => [mk ("unknown-op " ++ op) false "driver does not know this operation"]

end Driver.C18
