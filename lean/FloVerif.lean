import FloVerif.Prelude.Num
import FloVerif.Gen.Consts
import FloVerif.Gen.Basis
import FloVerif.Gen.Section
