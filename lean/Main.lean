import FloVerif.Driver.C05
import FloVerif.Driver.C08
import FloVerif.Driver.C15
import FloVerif.Driver.C19
import FloVerif.Driver.C01
import FloVerif.Driver.C13
import FloVerif.Driver.C06
import FloVerif.Driver.C04
import FloVerif.Driver.C18
import FloVerif.Driver.C17
import FloVerif.Driver.C16
import FloVerif.Driver.C07
import FloVerif.Driver.C09
import FloVerif.Driver.C14
import FloVerif.Driver.C03
import FloVerif.Driver.C10
import FloVerif.Driver.C02
import FloVerif.Driver.C20
/-!
`fvdriver`: reads correspondence transcripts (`<prop> <op> <stream> <inputs…> | <impl outputs…>`) on stdin,
evaluates the model on the same inputs and prints one `DIFF …` line per disagreement and a `SUMMARY` line.
-/
open Driver

def dispatch (prop op stream : String) (ins outs : List String) : List C05.Out :=
  match prop with
  | "C05" => C05.handle op stream ins outs
  | "C15" => C15.handle op ins outs
  | "C19" => C19.handle op ins outs
  | "C13" => C13.handle op ins outs
  | "C06" => C06.handle op stream ins outs
  | "C04" => C04.handle op stream ins outs
  | "C09" => C09.handle op ins outs
  | "C01" | "C11" | "C12" => (C01.handle op ins outs).map fun o =>
      { field := o.field, cmp := if o.ok then .same 0 else .diff o.msg, fbit := none }
  | "C08" => (C08.handle op ins outs).map fun o =>
      { field := o.field, cmp := if o.ok then .same 0 else .diff o.msg, fbit := none }
  | "C17" => (C17.handle op ins outs).map fun o =>
      { field := o.field, cmp := if o.ok then .same 0 else .diff o.msg, fbit := none }
  | "C14" => (C14.handle op ins outs).map fun o =>
      { field := o.field, cmp := if o.ok then .same 0 else .diff o.msg, fbit := if o.exact then some o.ok else none }
  | "C20" => C20.handle op stream ins outs
  | "C02" => C02.handle op ins outs
  | "C10" => C10.handle op ins outs
  | "C03" => (C03.handle op ins outs).map fun o =>
      { field := o.field, cmp := if o.ok then .same 0 else .diff o.msg, fbit := none }
  | "C07" => (C07.handle op ins outs).map fun o =>
      { field := o.field, cmp := if o.ok then .same 0 else .diff o.msg, fbit := none }
  | "C18" => (C18.handle op ins outs).map fun o =>
      { field := o.field, cmp := if o.ok then .same 0 else .diff o.msg, fbit := none }
  | "C16" => (C16.handle op ins outs).map fun o =>
      { field := o.field, cmp := if o.ok then .same 0 else .diff o.msg, fbit := some o.ok }
  | _ => [{ field := "unknown-property " ++ prop, cmp := .diff "driver does not know this property", fbit := none }]

def upd (m : List (String × Stat)) (k : String) (f : Stat → Stat) : List (String × Stat) :=
  if m.any (·.1 == k) then m.map (fun (a, s) => if a == k then (a, f s) else (a, s)) else m ++ [(k, f {})]

def b2n (b : Bool) : Nat := if b then 1 else 0

def addSame (err : Rat) (fbit : Option Bool) (s : Stat) : Stat :=
  { n := s.n + 1, diffs := s.diffs, exactEq := s.exactEq + b2n (err == 0), maxErr := ratMax s.maxErr err,
    bitCmp := s.bitCmp + b2n fbit.isSome, bitEq := s.bitEq + b2n (fbit == some true) }

def addDiff (s : Stat) : Stat := { s with n := s.n + 1, diffs := s.diffs + 1 }

partial def loop (h : IO.FS.Stream) (lineNo : Nat) (stats : List (String × Stat)) : IO (List (String × Stat)) := do
  let line ← h.getLine
  if line.isEmpty then return stats
  let ws := (line.trimAscii.toString.splitOn " ").filter (· != "")
  match ws with
  | "STATS" :: _ => loop h (lineNo + 1) stats
  | "FAIL" :: _ => loop h (lineNo + 1) stats
  | prop :: op :: stream :: rest =>
    let (ins, outs) := splitBar rest
    let res := dispatch prop op stream ins outs
    let mut stats := stats
    for o in res do
      let key := prop ++ "." ++ op ++ "." ++ stream
      match o.cmp with
      | .same err =>
        stats := upd stats key (addSame err o.fbit)
      | .diff msg =>
        stats := upd stats key addDiff
        IO.println s!"DIFF line={lineNo} {prop} {op} {stream} field={o.field} {msg}"
    loop h (lineNo + 1) stats
  | [] => loop h (lineNo + 1) stats
  | _ =>
    IO.println s!"DIFF line={lineNo} malformed line"
    loop h (lineNo + 1) stats

def main : IO Unit := do
  let stats ← loop (← IO.getStdin) 1 []
  let items := stats.map fun (k, s) =>
    "\"" ++ k ++ "\": {\"compared\": " ++ toString s.n ++ ", \"diffs\": " ++ toString s.diffs ++
      ", \"exactly_equal\": " ++ toString s.exactEq ++ ", \"float_mirror_compared\": " ++ toString s.bitCmp ++
      ", \"float_mirror_bit_equal\": " ++ toString s.bitEq ++ ", \"max_err_units\": " ++ toString s.maxErr.ceil ++ "}"
  IO.println ("SUMMARY {" ++ ", ".intercalate items ++ "}")
