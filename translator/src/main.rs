//! rs2lean: translates a fixed list of named functions / methods / closures of the Rust sources of
//! flo_curves into Lean 4 definitions (polymorphic over the number type `K`).
//!
//! usage: rs2lean <repo-root> <targets.json> <out-dir>
//!
//! Anything outside the supported subset inside a target is an error (exit status 2, message names the
//! target and the construct): the tie between the model and the code is then broken and the check that
//! called us reports it; nothing is ever skipped silently.

use quote::ToTokens;
use serde_json::Value;
use std::collections::{BTreeMap, BTreeSet};
use std::fmt::Write as _;
use syn::spanned::Spanned;
use syn::*;

type R<T> = std::result::Result<T, String>;

fn norm(s: &str) -> String {
    s.chars().filter(|c| !c.is_whitespace()).collect()
}

fn tok<T: ToTokens>(t: &T) -> String {
    norm(&t.to_token_stream().to_string())
}

const LEAN_KEYWORDS: &[&str] = &[
    "end", "at", "from", "to", "in", "do", "then", "else", "if", "let", "have", "show", "fun", "match", "with", "open",
    "by", "where", "section", "namespace", "variable", "universe", "def", "theorem", "lemma", "example", "instance",
    "structure", "class", "inductive", "deriving", "return", "for", "mut", "Type", "Prop", "Sort", "import", "export",
    "private", "protected", "noncomputable", "partial", "unsafe", "mutual", "macro", "syntax", "notation", "infix",
    "infixl", "infixr", "prefix", "postfix", "set_option", "attribute", "local", "scoped", "calc", "using", "obtain",
    "exact", "this", "abbrev", "axiom", "opaque", "nomatch", "nofun", "try", "catch", "finally", "unless", "break",
    "continue", "extends", "max", "min", "abs",
];

fn ident(s: &str) -> String {
    let s = s.trim_start_matches("r#");
    if LEAN_KEYWORDS.contains(&s) {
        format!("{}_", s)
    } else if s == "_" {
        "_".to_string()
    } else {
        s.to_string()
    }
}

#[derive(Clone, Default)]
struct Cfg {
    name: String,
    file: String,
    item: String,
    closure: Option<usize>,
    params: Option<String>,
    ret: Option<String>,
    subst: Vec<(String, String)>,
    types: BTreeMap<String, String>,
    int: String,
    point: String,
    methods: BTreeMap<String, String>,
    fns: BTreeMap<String, String>,
    pre: Vec<String>,
    consts: BTreeMap<String, String>,
    kind: String,
    noncomputable: bool,
    drop_fields: BTreeSet<String>,
    int_consts: BTreeMap<String, i64>,
    unreachable: Option<String>,
    take_stmts: Option<usize>,
    skip_stmts: usize,
    self_fields: Vec<String>,
    /// fuel of `iterFuel`: a number, or a Lean expression over the variables in scope where the loop starts
    loop_fuel: String,
    /// `x.m(a, b);` statements that mutate a local list: method -> template of the new value (`@k ` prefix: argument k is the list, not the receiver)
    stmt_methods: BTreeMap<String, String>,
    /// Rust enums translated to Lean inductives of the same name with the same constructor names
    enums: BTreeSet<String>,
    tail: Option<String>,
    /// path into nested `if` / `if let` bodies: (statement index, "then" | "else") steps; the statements of the block reached are the body
    inner_block: Vec<(usize, String)>,
    /// local fixed-size arrays (possibly nested) that are only ever indexed by literals: `c[0][1]` becomes the scalar variable `c_0_1`
    scalarize: Vec<String>,
}

fn default_methods() -> BTreeMap<String, String> {
    let mut m = BTreeMap::new();
    m.insert("flat_map".into(), "(List.flatMap {1} {0})".into());
    for id in ["clone", "into", "to_owned", "borrow", "copied", "cloned", "as_ref", "to_vec", "into_iter", "iter", "collect"] {
        m.insert(id.to_string(), "{0}".to_string());
    }
    m.insert("abs".into(), "(fabs {0})".into());
    m.insert("sqrt".into(), "(fsqrt {0})".into());
    m.insert("min".into(), "(fmin {0} {1})".into());
    m.insert("max".into(), "(fmax {0} {1})".into());
    m.insert("signum".into(), "(fsignum {0})".into());
    m.insert("floor".into(), "(ffloor {0})".into());
    m.insert("ceil".into(), "(fceil {0})".into());
    m.insert("is_nan".into(), "(fisnan {0})".into());
    m.insert("x".into(), "{0}.x".into());
    m.insert("y".into(), "{0}.y".into());
    m.insert("z".into(), "{0}.z".into());
    m.insert("dot".into(), "(dot {0} {1})".into());
    m.insert("is_empty".into(), "(List.isEmpty {0})".into());
    m.insert("map".into(), "(List.map {1} {0})".into());
    m.insert("filter".into(), "(List.filter {1} {0})".into());
    m.insert("fold".into(), "(List.foldl {2} {1} {0})".into());
    m.insert("chain".into(), "({0} ++ {1})".into());
    m.insert("len".into(), "(List.length {0})".into());
    m
}

fn default_fns() -> BTreeMap<String, String> {
    let mut m = BTreeMap::new();
    m.insert("f64::sqrt".into(), "(fsqrt {0})".into());
    m.insert("f64::abs".into(), "(fabs {0})".into());
    m.insert("f64::min".into(), "(fmin {0} {1})".into());
    m.insert("f64::max".into(), "(fmax {0} {1})".into());
    m.insert("f64::floor".into(), "(ffloor {0})".into());
    m.insert("f64::ceil".into(), "(fceil {0})".into());
    m.insert("f64::signum".into(), "(fsignum {0})".into());
    m.insert("Some".into(), "(some {0})".into());
    m.insert("iter::once".into(), "[{0}]".into());
    m
}

fn fill(template: &str, args: &[String]) -> R<String> {
    let mut out = template.to_string();
    for (i, a) in args.iter().enumerate() {
        out = out.replace(&format!("{{{}}}", i), a);
    }
    if out.contains("{0}") || out.contains("{1}") || out.contains("{2}") || out.contains("{3}") || out.contains("{4}") {
        return Err(format!("template `{}` needs more arguments than the {} given", template, args.len()));
    }
    Ok(out)
}

struct Tr<'a> {
    cfg: &'a Cfg,
    known: &'a BTreeSet<String>,
    ctr: std::cell::Cell<usize>,
    /// innermost loop last: (state variables, whether the loop body contains `return`)
    loops: std::cell::RefCell<Vec<(Vec<String>, bool)>>,
    /// nesting depth of `for` folds whose `continue` ends the current iteration
    /// (the flag says that the fold is a `foldlBrk`, whose body may also `break`)
    folds: std::cell::RefCell<Vec<(Vec<String>, bool)>>,
}

fn has_return_expr(e: &Expr) -> bool {
    struct V(bool);
    impl<'ast> visit::Visit<'ast> for V {
        fn visit_expr_return(&mut self, _: &'ast ExprReturn) {
            self.0 = true;
        }
        fn visit_expr_break(&mut self, _: &'ast ExprBreak) {
            self.0 = true;
        }
        fn visit_expr_continue(&mut self, _: &'ast ExprContinue) {
            self.0 = true;
        }
        fn visit_expr_closure(&mut self, _: &'ast ExprClosure) {}
    }
    let mut v = V(false);
    visit::Visit::visit_expr(&mut v, e);
    v.0
}

fn has_return_stmts(stmts: &[Stmt]) -> bool {
    struct V(bool);
    impl<'ast> visit::Visit<'ast> for V {
        fn visit_expr_return(&mut self, _: &'ast ExprReturn) {
            self.0 = true;
        }
        fn visit_expr_break(&mut self, _: &'ast ExprBreak) {
            self.0 = true;
        }
        fn visit_expr_continue(&mut self, _: &'ast ExprContinue) {
            self.0 = true;
        }
        fn visit_expr_closure(&mut self, _: &'ast ExprClosure) {}
    }
    let mut v = V(false);
    for s in stmts {
        visit::Visit::visit_stmt(&mut v, s);
    }
    v.0
}

thread_local! {
    /// mutating statement methods of the target being translated: method name -> index of the mutated expression (0 = receiver, k = argument k)
    static MUTATORS: std::cell::RefCell<BTreeMap<String, usize>> = std::cell::RefCell::new(BTreeMap::new());
}

/// splits the optional `@k ` prefix off a statement-method template
fn stmt_template(t: &str) -> (usize, &str) {
    if let Some(rest) = t.strip_prefix('@') {
        if let Some((k, body)) = rest.split_once(' ') {
            if let Ok(k) = k.parse::<usize>() {
                return (k, body);
            }
        }
    }
    (0, t)
}

/// the plain variable behind `x`, `&x`, `&mut x`
fn plain_var(e: &Expr) -> Option<String> {
    match e {
        Expr::Reference(r) => plain_var(&r.expr),
        Expr::Paren(p) => plain_var(&p.expr),
        Expr::Path(p) if p.path.segments.len() == 1 => Some(p.path.segments[0].ident.to_string()),
        _ => None,
    }
}

/// variables assigned (not declared) in a statement list
/// `self.a` / `self.a.b` (named fields only) as the dotted path "a" / "a.b"
fn self_field_path(e: &Expr) -> Option<String> {
    if let Expr::Field(f) = e {
        if let Member::Named(n) = &f.member {
            if let Expr::Path(bp) = &*f.base {
                if bp.path.is_ident("self") {
                    return Some(n.to_string());
                }
                return None;
            }
            return self_field_path(&f.base).map(|p| format!("{}.{}", p, n));
        }
    }
    None
}

/// `v[i]` / `v[i].N` with `v` a plain local variable: (v, index expression, tuple field)
fn indexed_target(e: &Expr) -> Option<(String, &Expr, Option<usize>)> {
    match e {
        Expr::Paren(p) => indexed_target(&p.expr),
        Expr::Index(i) => {
            if let Expr::Path(p) = &*i.expr {
                if p.path.segments.len() == 1 {
                    return Some((p.path.segments[0].ident.to_string(), &*i.index, None));
                }
            }
            None
        }
        Expr::Field(f) => {
            if let Member::Unnamed(n) = &f.member {
                if let Some((b, i, None)) = indexed_target(&f.base) {
                    return Some((b, i, Some(n.index as usize)));
                }
            }
            None
        }
        _ => None,
    }
}

fn self_field_var(path: &str) -> String {
    format!("self_{}", path.replace('.', "_"))
}

fn assigned_vars(stmts: &[Stmt], out: &mut Vec<String>) {
    struct V<'b> {
        out: &'b mut Vec<String>,
        declared: Vec<String>,
    }
    impl<'ast, 'b> visit::Visit<'ast> for V<'b> {
        fn visit_local(&mut self, l: &'ast Local) {
            if let Some(init) = &l.init {
                self.visit_expr(&init.expr);
            }
            struct PV<'c>(&'c mut Vec<String>);
            impl<'ast, 'c> visit::Visit<'ast> for PV<'c> {
                fn visit_pat_ident(&mut self, p: &'ast PatIdent) {
                    self.0.push(p.ident.to_string());
                }
            }
            visit::Visit::visit_pat(&mut PV(&mut self.declared), &l.pat);
        }
        fn visit_expr_assign(&mut self, a: &'ast ExprAssign) {
            if let Some(path) = self_field_path(&a.left) {
                let n = self_field_var(&path);
                if !self.out.contains(&n) {
                    self.out.push(n);
                }
            }
            if let Expr::Path(p) = &*a.left {
                let n = p.path.segments.last().unwrap().ident.to_string();
                if !self.declared.contains(&n) && !self.out.contains(&n) {
                    self.out.push(n);
                }
            }
            if let Some((n, _, _)) = indexed_target(&a.left) {
                if !self.declared.contains(&n) && !self.out.contains(&n) {
                    self.out.push(n);
                }
            }
            self.visit_expr(&a.right);
        }
        fn visit_expr_binary(&mut self, b: &'ast ExprBinary) {
            use BinOp::*;
            if matches!(b.op, AddAssign(_) | SubAssign(_) | MulAssign(_) | DivAssign(_) | BitAndAssign(_) | BitOrAssign(_) | BitXorAssign(_)) {
                if let Some(path) = self_field_path(&b.left) {
                    let n = self_field_var(&path);
                    if !self.out.contains(&n) {
                        self.out.push(n);
                    }
                }
                if let Expr::Path(p) = &*b.left {
                    let n = p.path.segments.last().unwrap().ident.to_string();
                    if !self.declared.contains(&n) && !self.out.contains(&n) {
                        self.out.push(n);
                    }
                }
                if let Some((n, _, _)) = indexed_target(&b.left) {
                    if !self.declared.contains(&n) && !self.out.contains(&n) {
                        self.out.push(n);
                    }
                }
            }
            self.visit_expr(&b.left);
            self.visit_expr(&b.right);
        }
        fn visit_expr_method_call(&mut self, m: &'ast ExprMethodCall) {
            if m.method == "push" || m.method == "extend" || m.method == "pop" {
                if let Expr::Path(p) = &*m.receiver {
                    let n = p.path.segments.last().unwrap().ident.to_string();
                    if !self.declared.contains(&n) && !self.out.contains(&n) {
                        self.out.push(n);
                    }
                }
            }
            if let Some(k) = MUTATORS.with(|mu| mu.borrow().get(&m.method.to_string()).copied()) {
                let target = if k == 0 { Some(&*m.receiver) } else { m.args.iter().nth(k - 1) };
                if let Some(n) = target.and_then(plain_var) {
                    if !self.declared.contains(&n) && !self.out.contains(&n) {
                        self.out.push(n);
                    }
                }
            }
            visit::visit_expr_method_call(self, m);
        }
        fn visit_expr_closure(&mut self, _: &'ast ExprClosure) {}
    }
    let mut v = V { out, declared: vec![] };
    for s in stmts {
        visit::Visit::visit_stmt(&mut v, s);
    }
}

const FIND_MARK: &str = "__find__";
const RET_MARK: &str = "__retfold__";

type K<'k> = &'k dyn Fn(String) -> R<String>;

impl<'a> Tr<'a> {
    fn ty(&self, t: &Type) -> R<String> {
        let key = tok(t);
        if let Some(v) = self.cfg.types.get(&key) {
            return Ok(v.clone());
        }
        match t {
            Type::Reference(r) => self.ty(&r.elem),
            Type::Paren(p) => self.ty(&p.elem),
            Type::Group(p) => self.ty(&p.elem),
            Type::Tuple(tt) => {
                if tt.elems.is_empty() {
                    return Ok("Unit".into());
                }
                let parts: R<Vec<String>> = tt.elems.iter().map(|e| self.ty(e)).collect();
                let parts = parts?;
                if parts.len() == 1 {
                    return Ok(parts[0].clone());
                }
                Ok(format!("(T{} {})", parts.len(), parts.join(" ")))
            }
            Type::Array(a) => Ok(format!("(List {})", self.ty(&a.elem)?)),
            Type::Slice(a) => Ok(format!("(List {})", self.ty(&a.elem)?)),
            Type::Path(p) => {
                let last = p.path.segments.last().unwrap();
                let name = last.ident.to_string();
                match name.as_str() {
                    "f64" => Ok("K".into()),
                    "bool" => Ok("Bool".into()),
                    "usize" | "u32" | "u64" | "u8" | "u16" => Ok("Nat".into()),
                    "i32" | "i64" | "isize" | "i8" | "i16" => Ok("Int".into()),
                    "Point" | "P" | "TPoint" | "Coord" | "Coord2" => Ok(self.cfg.point.clone()),
                    "Option" | "Vec" | "SmallVec" => {
                        if let PathArguments::AngleBracketed(ab) = &last.arguments {
                            for arg in &ab.args {
                                if let GenericArgument::Type(inner) = arg {
                                    let inner = self.ty(inner)?;
                                    return Ok(if name == "Option" { format!("(Option {})", inner) } else { inner_list(&inner) });
                                }
                            }
                        }
                        Err(format!("type `{}`: missing type argument", key))
                    }
                    _ => Err(format!("unsupported type `{}` (add it to \"types\")", key)),
                }
            }
            _ => Err(format!("unsupported type `{}`", key)),
        }
    }

    fn lit(&self, l: &Lit) -> R<String> {
        match l {
            Lit::Float(f) => {
                let mut d = f.base10_digits().replace('_', "");
                if d.ends_with('.') {
                    d.push('0');
                }
                if !d.contains('.') && !d.contains('e') && !d.contains('E') {
                    d.push_str(".0");
                }
                // Lean wants digits after the point before an exponent
                let d = d.replace(".e", ".0e").replace(".E", ".0e").replace('E', "e");
                Ok(format!("({} : K)", d))
            }
            Lit::Int(i) => {
                if i.suffix() == "f64" {
                    Ok(format!("({}.0 : K)", i.base10_digits()))
                } else {
                    Ok(i.base10_digits().to_string())
                }
            }
            Lit::Bool(b) => Ok(if b.value { "true".into() } else { "false".into() }),
            _ => Err(format!("unsupported literal `{}`", tok(l))),
        }
    }

    fn path_str(&self, p: &Path) -> String {
        p.segments.iter().map(|s| s.ident.to_string()).collect::<Vec<_>>().join("::")
    }

    fn expr(&self, e: &Expr) -> R<String> {
        let key = tok(e);
        for (k, v) in &self.cfg.subst {
            if *k == key {
                return Ok(v.clone());
            }
        }
        match e {
            Expr::Lit(l) => self.lit(&l.lit),
            Expr::Paren(p) => self.expr(&p.expr),
            Expr::Group(p) => self.expr(&p.expr),
            Expr::Reference(r) => self.expr(&r.expr),
            Expr::Unary(u) => {
                let inner = self.expr(&u.expr)?;
                match u.op {
                    UnOp::Deref(_) => Ok(inner),
                    UnOp::Neg(_) => Ok(format!("(-{})", inner)),
                    UnOp::Not(_) => Ok(format!("(!{})", inner)),
                    _ => Err("unsupported unary operator".into()),
                }
            }
            Expr::Path(p) => {
                let full = self.path_str(&p.path);
                if full == "None" {
                    return Ok("none".into());
                }
                if p.path.segments.len() == 1 {
                    let n = p.path.segments[0].ident.to_string();
                    if let Some(ty) = self.cfg.consts.get(&n) {
                        return Ok(format!("({} : {})", n, ty));
                    }
                    return Ok(ident(&n));
                }
                if full == "f64::min" {
                    return Ok("fmin".into());
                }
                if full == "f64::max" {
                    return Ok("fmax".into());
                }
                if full == "f64::EPSILON" {
                    return Ok("(feps : K)".into());
                }
                if full == "f64::MAX" {
                    return Ok("(fmaxval : K)".into());
                }
                if full == "f64::MIN" {
                    return Ok("(fminval : K)".into());
                }
                if full == "f64::INFINITY" {
                    return Ok("(finf : K)".into());
                }
                if full == "f64::NEG_INFINITY" {
                    return Ok("(fneginf : K)".into());
                }
                if p.path.segments.len() >= 2 {
                    // `Enum::Variant` of an enum listed in "enums"
                    let pre = p.path.segments[p.path.segments.len() - 2].ident.to_string();
                    if self.cfg.enums.contains(&pre) {
                        return Ok(format!("{}.{}", pre, p.path.segments.last().unwrap().ident));
                    }
                }
                Err(format!("unsupported path `{}`", full))
            }
            Expr::Binary(b) => {
                use BinOp::*;
                let l = self.expr(&b.left)?;
                let r = self.expr(&b.right)?;
                Ok(match b.op {
                    Add(_) => format!("({} + {})", l, r),
                    Sub(_) => format!("({} - {})", l, r),
                    Mul(_) => format!("({} * {})", l, r),
                    Div(_) => format!("({} / {})", l, r),
                    Rem(_) => format!("({} % {})", l, r),
                    And(_) => format!("({} && {})", l, r),
                    Or(_) => format!("({} || {})", l, r),
                    Lt(_) => format!("(decide ({} < {}))", l, r),
                    Le(_) => format!("(decide ({} ≤ {}))", l, r),
                    Gt(_) => format!("(decide ({} > {}))", l, r),
                    Ge(_) => format!("(decide ({} ≥ {}))", l, r),
                    Eq(_) => format!("({} == {})", l, r),
                    Ne(_) => format!("({} != {})", l, r),
                    BitAnd(_) => if self.cfg.int == "Nat" { format!("({} &&& {})", l, r) } else { format!("(bitand {} {})", l, r) },
                    BitOr(_) => if self.cfg.int == "Nat" { format!("({} ||| {})", l, r) } else { format!("(bitor {} {})", l, r) },
                    BitXor(_) => if self.cfg.int == "Nat" { format!("({} ^^^ {})", l, r) } else { format!("(bitxor {} {})", l, r) },
                    Shl(_) => format!("({} <<< {})", l, r),
                    Shr(_) => format!("({} >>> {})", l, r),
                    _ => return Err(format!("unsupported binary operator in `{}`", key)),
                })
            }
            Expr::Tuple(t) => {
                if t.elems.is_empty() {
                    return Ok("()".into());
                }
                let parts: R<Vec<String>> = t.elems.iter().map(|x| self.expr(x)).collect();
                let parts = parts?;
                if parts.len() == 1 {
                    return Ok(parts[0].clone());
                }
                Ok(format!("(T{}.mk {})", parts.len(), parts.join(" ")))
            }
            Expr::Field(f) => {
                if let Some(path) = self_field_path(e) {
                    if self.cfg.self_fields.contains(&path) {
                        return Ok(self_field_var(&path));
                    }
                }
                let base = self.expr(&f.base)?;
                match &f.member {
                    Member::Unnamed(i) => Ok(format!("{}.t{}", base, i.index)),
                    Member::Named(n) => Ok(format!("{}.{}", base, ident(&n.to_string()))),
                }
            }
            Expr::Index(i) => {
                let base = self.expr(&i.expr)?;
                if let Expr::Range(r) = &*i.index {
                    // `v[a..b]`, `v[a..=b]`, `v[a..]`, `v[..b]`
                    let lo = match &r.start { Some(x) => self.expr(x)?, None => "0".into() };
                    let hi = match &r.end {
                        Some(x) => {
                            let h = self.expr(x)?;
                            if matches!(r.limits, RangeLimits::Closed(_)) { format!("({} + 1)", h) } else { h }
                        }
                        None => format!("(List.length {})", base),
                    };
                    return Ok(format!("(listSlice {} {} {})", base, lo, hi));
                }
                let idx = self.expr(&i.index)?;
                Ok(format!("(listGet {} {})", base, idx))
            }
            Expr::Cast(c) => {
                let inner = self.expr(&c.expr)?;
                let t = tok(&*c.ty);
                match t.as_str() {
                    "f64" => Ok(format!("(ofInt {})", inner)),
                    "usize" | "i32" | "i64" | "u32" | "isize" | "u64" => Ok(format!("(toInt_{} {})", t, inner)),
                    _ => Err(format!("unsupported cast to `{}`", t)),
                }
            }
            Expr::If(_) | Expr::Block(_) | Expr::Match(_) => self.expr_k(e, &|v| Ok(v)),
            Expr::Array(a) => {
                let parts: R<Vec<String>> = a.elems.iter().map(|x| self.expr(x)).collect();
                Ok(format!("[{}]", parts?.join(", ")))
            }
            Expr::Macro(m) => {
                let name = self.path_str(&m.mac.path);
                if name == "vec" || name == "smallvec" {
                    let parser = punctuated::Punctuated::<Expr, Token![,]>::parse_terminated;
                    let elems = m.mac.parse_body_with(parser).map_err(|e| format!("cannot parse `{}!` body: {}", name, e))?;
                    let parts: R<Vec<String>> = elems.iter().map(|x| self.expr(x)).collect();
                    Ok(format!("[{}]", parts?.join(", ")))
                } else if matches!(name.as_str(), "unreachable" | "unimplemented" | "panic" | "todo") && self.cfg.unreachable.is_some() {
                    Ok(self.cfg.unreachable.clone().unwrap())
                } else {
                    Err(format!("unsupported macro `{}!`", name))
                }
            }
            Expr::MethodCall(m) => {
                let method = m.method.to_string();
                // range.contains(&x)
                if method == "contains" {
                    if let Some((lo, hi, inclusive)) = as_range(&m.receiver) {
                        let x = self.expr(&m.args[0])?;
                        let lo = self.expr(lo)?;
                        let hi = self.expr(hi)?;
                        return Ok(if inclusive {
                            format!("((decide ({} ≤ {})) && (decide ({} ≤ {})))", lo, x, x, hi)
                        } else {
                            format!("((decide ({} ≤ {})) && (decide ({} < {})))", lo, x, x, hi)
                        });
                    }
                }
                let template = self
                    .cfg
                    .methods
                    .get(&method)
                    .ok_or_else(|| format!("unsupported method `.{}()` in `{}` (add it to \"methods\" or \"subst\")", method, key))?;
                let mut args = vec![self.expr(&m.receiver)?];
                for a in &m.args {
                    args.push(self.expr(a)?);
                }
                fill(template, &args)
            }
            Expr::Call(c) => {
                let fname = match &*c.func {
                    Expr::Path(p) => self.path_str(&p.path),
                    _ => return Err(format!("unsupported call `{}`", key)),
                };
                let last = fname.rsplit("::").next().unwrap().to_string();
                if last == "from_components" {
                    // P::from_components(&[a, b])
                    let mut arg = &c.args[0];
                    while let Expr::Reference(r) = arg {
                        arg = &r.expr;
                    }
                    if let Expr::Array(a) = arg {
                        let parts: R<Vec<String>> = a.elems.iter().map(|x| self.expr(x)).collect();
                        let parts = parts?;
                        return Ok(format!("(V{}.mk {})", parts.len(), parts.join(" ")));
                    }
                    // any other argument (a vector computed elsewhere): needs a "fns" template for this call
                    if self.cfg.fns.get(&fname).or_else(|| self.cfg.fns.get(&last)).is_none() {
                        return Err(format!("unsupported from_components argument in `{}`", key));
                    }
                }
                let mut args = vec![];
                for a in &c.args {
                    args.push(self.expr(a)?);
                }
                if let Some(t) = self.cfg.fns.get(&fname).or_else(|| self.cfg.fns.get(&last)) {
                    return fill(t, &args);
                }
                if let Expr::Path(p) = &*c.func {
                    // `Enum::Variant(args)` of an enum listed in "enums"
                    let n = p.path.segments.len();
                    if n >= 2 && self.cfg.enums.contains(&p.path.segments[n - 2].ident.to_string()) {
                        return Ok(format!("({}.{} {})", p.path.segments[n - 2].ident, last, args.join(" ")));
                    }
                }
                if last == "Coord2" && args.len() == 2 {
                    return Ok(format!("(V2.mk {} {})", args[0], args[1]));
                }
                if self.known.contains(&last) {
                    return Ok(format!("({} {})", ident(&last), args.join(" ")));
                }
                Err(format!("call to `{}` which is neither a target nor in \"fns\"", fname))
            }
            Expr::Struct(s) => {
                let name = s.path.segments.last().unwrap().ident.to_string();
                let mut fields = vec![];
                for f in &s.fields {
                    let fname = match &f.member {
                        Member::Named(n) => ident(&n.to_string()),
                        Member::Unnamed(i) => format!("t{}", i.index),
                    };
                    if self.cfg.drop_fields.contains(&fname) {
                        continue;
                    }
                    fields.push(format!("{} := {}", fname, self.expr(&f.expr)?));
                }
                if s.rest.is_some() {
                    return Err("struct update syntax unsupported".into());
                }
                let tyname = self.cfg.types.get(&name).cloned().unwrap_or(name);
                Ok(format!("({{ {} : {} }})", fields.join(", "), tyname))
            }
            Expr::Closure(c) => {
                if has_return_expr(&c.body) {
                    return Err(format!("closure with `return` unsupported: `{}`", key));
                }
                let mut names = vec![];
                let mut binds = String::new();
                for (i, inp) in c.inputs.iter().enumerate() {
                    match inp {
                        Pat::Ident(pi) => names.push(ident(&pi.ident.to_string())),
                        Pat::Type(pt) => match &*pt.pat {
                            Pat::Ident(pi) => names.push(ident(&pi.ident.to_string())),
                            other => {
                                let n = format!("arg_{}", i);
                                self.bind_pat(other, &n, &mut binds)?;
                                names.push(n);
                            }
                        },
                        Pat::Wild(_) => names.push(format!("_arg{}", i)),
                        other => {
                            let n = format!("arg_{}", i);
                            self.bind_pat(other, &n, &mut binds)?;
                            names.push(n);
                        }
                    }
                }
                let body = self.expr(&c.body)?;
                if names.is_empty() {
                    // `|| e`: a function of the unit value
                    names.push("(_ : Unit)".to_string());
                }
                Ok(format!("(fun {} =>\n{}{})", names.join(" "), binds, body))
            }
            Expr::Range(r) => {
                // `a..b` as a value: `std::ops::Range { start, end }`
                match (&r.start, &r.end, &r.limits) {
                    (Some(lo), Some(hi), RangeLimits::HalfOpen(_)) => Ok(format!("(RangeT.mk {} {})", self.expr(lo)?, self.expr(hi)?)),
                    _ => Err(format!("unsupported range expression `{}`", key)),
                }
            }
            Expr::Return(_) => Err("`return` in expression position (internal: use expr_k)".into()),
            _ => Err(format!("unsupported expression `{}`", key)),
        }
    }

    /// expression whose value is passed to the continuation; `return` inside abandons the continuation
    fn expr_k(&self, e: &Expr, k: K) -> R<String> {
        let key = tok(e);
        for (sk, v) in &self.cfg.subst {
            if *sk == key {
                return k(v.clone());
            }
        }
        match e {
            Expr::Paren(p) => self.expr_k(&p.expr, k),
            Expr::Return(r) => self.ret_value(&r.expr),
            Expr::Break(_) => self.loop_jump(true),
            Expr::Continue(_) => self.loop_jump(false),
            Expr::If(i) => {
                let a = self.stmts(&i.then_branch.stmts, k)?;
                let b = match &i.else_branch {
                    Some((_, eb)) => self.expr_k(eb, k)?,
                    None => k("()".into())?,
                };
                if let Expr::Let(l) = &*i.cond {
                    // `if let Some(p) = v.pop() { a } else { b }`: the list loses its last element on the `Some` path (as `while let`)
                    if let (Expr::MethodCall(m), Pat::TupleStruct(ts)) = (&*l.expr, &*l.pat) {
                        if m.method == "pop" && m.args.is_empty() && self.path_str(&ts.path) == "Some" && ts.elems.len() == 1 {
                            let recv = self.assign_name(&m.receiver)?;
                            let mut binds = String::new();
                            self.bind_pat(&ts.elems[0], "popped_", &mut binds)?;
                            return Ok(format!("(match (List.getLast? {r}) with\n| some popped_ =>\nlet {r} := (List.dropLast {r})\n{bi}{a}\n| none =>\n{b})", r = recv, bi = binds, a = a, b = b));
                        }
                    }
                    let (scrut, pat) = self.if_let_parts(l)?;
                    return Ok(format!("(match {} with\n| {} =>\n{}\n| _ =>\n{})", scrut, pat, a, b));
                }
                let c = self.expr(&i.cond)?;
                Ok(format!("(if {} then\n{}\nelse\n{})", c, a, b))
            }
            Expr::Block(b) => self.stmts(&b.block.stmts, k),
            Expr::Match(m) => {
                let scrut = self.expr(&m.expr)?;
                self.match_arms(&scrut, &m.arms, k)
            }
            _ => {
                if has_return_expr(e) {
                    Err(format!("`return` nested inside unsupported expression `{}`", key))
                } else {
                    k(self.expr(e)?)
                }
            }
        }
    }

    /// `match` arms in order; an arm with a guard `pat if g => body` becomes `| pat => if g then body else REST | _ => REST`, where
    /// REST is the match on the same (pure) scrutinee over the remaining arms
    fn match_arms(&self, scrut: &str, arms: &[Arm], k: K) -> R<String> {
        let mut out = format!("(match {} with", scrut);
        for (i, arm) in arms.iter().enumerate() {
            let pat = self.match_pat(&arm.pat)?;
            let body = self.expr_k(&arm.body, k)?;
            if let Some((_, g)) = &arm.guard {
                if i + 1 >= arms.len() {
                    return Err("guard on the last match arm unsupported".into());
                }
                let rest = self.match_arms(scrut, &arms[i + 1..], k)?;
                let g = self.expr(g)?;
                write!(out, "\n| {} => (if {} then\n{}\nelse\n{})\n| _ => {})", pat, g, body, rest, rest).unwrap();
                return Ok(out);
            }
            write!(out, "\n| {} => {}", pat, body).unwrap();
        }
        out.push(')');
        Ok(out)
    }

    fn match_pat(&self, p: &Pat) -> R<String> {
        match p {
            Pat::Wild(_) => Ok("_".into()),
            Pat::Lit(l) => self.lit(&l.lit),
            Pat::Ident(i) => Ok(ident(&i.ident.to_string())),
            Pat::Tuple(t) => {
                let parts: R<Vec<String>> = t.elems.iter().map(|x| self.match_pat(x)).collect();
                let parts = parts?;
                Ok(format!("(T{}.mk {})", parts.len(), parts.join(" ")))
            }
            Pat::Or(o) => {
                let parts: R<Vec<String>> = o.cases.iter().map(|x| self.match_pat(x)).collect();
                Ok(parts?.join(" | "))
            }
            Pat::Path(pp) => {
                let full = self.path_str(&pp.path);
                if full == "None" {
                    return Ok("none".into());
                }
                let last = pp.path.segments.last().unwrap().ident.to_string();
                let pre = if pp.path.segments.len() >= 2 { pp.path.segments[pp.path.segments.len() - 2].ident.to_string() } else { String::new() };
                if pre.is_empty() { Ok(format!(".{}", last)) } else { Ok(format!("{}.{}", pre, last)) }
            }
            Pat::TupleStruct(ts) => {
                let full = self.path_str(&ts.path);
                let parts: R<Vec<String>> = ts.elems.iter().map(|x| self.match_pat(x)).collect();
                let parts = parts?;
                if full == "Some" {
                    return Ok(format!("(some {})", parts.join(" ")));
                }
                Ok(format!("({} {})", full.replace("::", "."), parts.join(" ")))
            }
            Pat::Reference(r) => self.match_pat(&r.pat),
            _ => Err(format!("unsupported match pattern `{}`", tok(p))),
        }
    }

    /// binds a (possibly nested tuple) pattern to the Lean term `v` with projections
    fn bind_pat(&self, p: &Pat, v: &str, out: &mut String) -> R<()> {
        match p {
            Pat::Ident(i) => {
                if i.subpat.is_some() {
                    return Err("`@` patterns unsupported".into());
                }
                writeln!(out, "let {} := {}", ident(&i.ident.to_string()), v).unwrap();
                Ok(())
            }
            Pat::Wild(_) => Ok(()),
            Pat::Type(t) => self.bind_pat(&t.pat, v, out),
            Pat::Reference(r) => self.bind_pat(&r.pat, v, out),
            Pat::Paren(r) => self.bind_pat(&r.pat, v, out),
            Pat::Tuple(t) => {
                if t.elems.len() == 1 {
                    return self.bind_pat(&t.elems[0], v, out);
                }
                // bind the whole value once unless it is already a plain name (that none of the pattern's own names shadows)
                struct PN(Vec<String>);
                impl<'ast> visit::Visit<'ast> for PN {
                    fn visit_pat_ident(&mut self, p: &'ast PatIdent) { self.0.push(ident(&p.ident.to_string())); }
                }
                let mut pn = PN(vec![]);
                visit::Visit::visit_pat(&mut pn, p);
                let root = v.split('.').next().unwrap_or("");
                let simple = v.chars().all(|c| c.is_alphanumeric() || c == '_' || c == '.') && !pn.0.iter().any(|n| n == root);
                let base = if simple {
                    v.to_string()
                } else {
                    self.ctr.set(self.ctr.get() + 1);
                    let n = format!("tup_{}", self.ctr.get());
                    writeln!(out, "let {} := {}", n, v).unwrap();
                    n
                };
                for (i, sub) in t.elems.iter().enumerate() {
                    self.bind_pat(sub, &format!("{}.t{}", base, i), out)?;
                }
                Ok(())
            }
            Pat::TupleStruct(ts) => {
                // `let Name(a, b, c) = v;` on a tuple struct translated to T<n>
                let simple = v.chars().all(|c| c.is_alphanumeric() || c == '_' || c == '.');
                let base = if simple {
                    v.to_string()
                } else {
                    self.ctr.set(self.ctr.get() + 1);
                    let n = format!("tup_{}", self.ctr.get());
                    writeln!(out, "let {} := {}", n, v).unwrap();
                    n
                };
                if ts.elems.len() == 1 {
                    return self.bind_pat(&ts.elems[0], &base, out);
                }
                for (i, sub) in ts.elems.iter().enumerate() {
                    self.bind_pat(sub, &format!("{}.t{}", base, i), out)?;
                }
                Ok(())
            }
            _ => Err(format!("unsupported let pattern `{}`", tok(p))),
        }
    }

    fn assign_name(&self, left: &Expr) -> R<String> {
        if let Some(path) = self_field_path(left) {
            if self.cfg.self_fields.contains(&path) {
                return Ok(self_field_var(&path));
            }
        }
        if let Expr::Path(p) = left {
            if p.path.segments.len() == 1 {
                return Ok(ident(&p.path.segments[0].ident.to_string()));
            }
        }
        Err(format!("assignment to `{}` unsupported (only plain variables)", tok(left)))
    }

    fn tuple_of(&self, vars: &[String]) -> String {
        match vars.len() {
            0 => "()".into(),
            1 => ident(&vars[0]),
            n => format!("(T{}.mk {})", n, vars.iter().map(|v| ident(v)).collect::<Vec<_>>().join(" ")),
        }
    }

    fn rebind(&self, vars: &[String], v: &str, out: &mut String) {
        match vars.len() {
            0 => {}
            1 => {
                writeln!(out, "let {} := {}", ident(&vars[0]), v).unwrap();
            }
            _ => {
                writeln!(out, "let upd_ := {}", v).unwrap();
                for (i, var) in vars.iter().enumerate() {
                    writeln!(out, "let {} := upd_.t{}", ident(var), i).unwrap();
                }
            }
        }
    }

    fn stmts(&self, stmts: &[Stmt], k: K) -> R<String> {
        if stmts.is_empty() {
            return k("()".into());
        }
        let (first, rest) = stmts.split_first().unwrap();
        // instrumentation that only exists under the verification cfg (hooks, add-only) is not part of the code being modelled
        if stmt_is_verif_hook(first) {
            return self.stmts(rest, k);
        }
        match first {
            Stmt::Local(l) => {
                if l.init.is_none() {
                    // `let mut x;` assigned later: start from the default value (never read before the first assignment in Rust)
                    let mut out = String::new();
                    self.bind_pat(&l.pat, "default", &mut out)?;
                    out.push_str(&self.stmts(rest, k)?);
                    return Ok(out);
                }
                let init = l.init.as_ref().ok_or_else(|| format!("`let` without initialiser: `{}`", tok(l)))?;
                if init.diverge.is_some() {
                    return Err("`let … else` unsupported".into());
                }
                if !has_return_expr(&init.expr) {
                    // no early return inside: translate the initialiser as a value (no duplication of the continuation)
                    let v = self.expr(&init.expr)?;
                    let mut out = String::new();
                    self.bind_pat(&l.pat, &v, &mut out)?;
                    out.push_str(&self.stmts(rest, k)?);
                    return Ok(out);
                }
                self.expr_k(&init.expr, &|v| {
                    let mut out = String::new();
                    self.bind_pat(&l.pat, &v, &mut out)?;
                    out.push_str(&self.stmts(rest, k)?);
                    Ok(out)
                })
            }
            Stmt::Item(Item::Const(c)) => {
                let v = self.expr(&c.expr)?;
                Ok(format!("let {} := {}\n{}", ident(&c.ident.to_string()), v, self.stmts(rest, k)?))
            }
            Stmt::Item(Item::Fn(_)) | Stmt::Item(Item::Use(_)) => self.stmts(rest, k),
            Stmt::Item(_) => Err("nested item unsupported".into()),
            Stmt::Macro(m) => {
                let name = self.path_str(&m.mac.path);
                if name == "debug_assert" || name == "assert" || name == "test_assert" || name == "debug_assert_eq" {
                    // assertions do not change the value computed
                    self.stmts(rest, k)
                } else if matches!(name.as_str(), "unreachable" | "unimplemented" | "panic" | "todo") && self.cfg.unreachable.is_some() {
                    Ok(self.cfg.unreachable.clone().unwrap())
                } else {
                    Err(format!("unsupported macro statement `{}!`", name))
                }
            }
            Stmt::Expr(e, semi) => {
                let is_last = rest.is_empty();
                match e {
                    Expr::Return(r) => self.ret_value(&r.expr),
                    Expr::Break(_) => self.loop_jump(true),
                    Expr::Continue(_) => self.loop_jump(false),
                    Expr::Loop(l) => self.loop_fuel(&l.body, None, rest, k),
                    Expr::While(w) => self.loop_fuel(&w.body, Some(&w.cond), rest, k),
                    Expr::Assign(a) if indexed_target(&a.left).is_some() && indexed_target(&a.left).unwrap().2.is_none() => {
                        // `v[i] = e` on a local list
                        let (base, idx_e, _) = indexed_target(&a.left).unwrap();
                        let base = ident(&base);
                        let idx = self.expr(idx_e)?;
                        let v = self.expr(&a.right)?;
                        Ok(format!("let {} := (List.set {} {} {})\n{}", base, base, idx, v, self.stmts(rest, k)?))
                    }
                    Expr::Assign(a) => {
                        let n = self.assign_name(&a.left)?;
                        let v = self.expr(&a.right)?;
                        Ok(format!("let {} := {}\n{}", n, v, self.stmts(rest, k)?))
                    }
                    Expr::Binary(b) if is_compound(&b.op) && indexed_target(&b.left).is_some() => {
                        // `v[i] op= e` / `v[i].N op= e` on a local list (`.N` of a 2-D point: its x / y component)
                        let (base, idx_e, field) = indexed_target(&b.left).unwrap();
                        let base = ident(&base);
                        let idx = self.expr(idx_e)?;
                        let r = self.expr(&b.right)?;
                        let op = compound_op(&b.op);
                        let cur = format!("(listGet {} {})", base, idx);
                        let newel = match field {
                            None => format!("({} {} {})", cur, op, r),
                            Some(0) => format!("(V2.mk ({}.x {} {}) {}.y)", cur, op, r, cur),
                            Some(1) => format!("(V2.mk {}.x ({}.y {} {}))", cur, cur, op, r),
                            Some(n) => return Err(format!("assignment to tuple field .{} of an indexed element unsupported", n)),
                        };
                        Ok(format!("let {} := (List.set {} {} {})\n{}", base, base, idx, newel, self.stmts(rest, k)?))
                    }
                    Expr::Binary(b) if is_compound(&b.op) => {
                        let n = self.assign_name(&b.left)?;
                        let r = self.expr(&b.right)?;
                        let op = compound_op(&b.op);
                        Ok(format!("let {} := ({} {} {})\n{}", n, n, op, r, self.stmts(rest, k)?))
                    }
                    Expr::If(i) if semi.is_some() || !is_last || i.else_branch.is_none() => self.if_stmt(i, rest, k),
                    Expr::ForLoop(f) => {
                        // only literal ranges: unrolled
                        let literal = match as_range(&f.expr) {
                            None => false,
                            Some((lo, hi, _)) => {
                                (int_lit(lo).is_some() || self.cfg.int_consts.contains_key(&tok(lo))) && (int_lit(hi).is_some() || self.cfg.int_consts.contains_key(&tok(hi)))
                            }
                        };
                        if !literal {
                            return self.for_fold(f, rest, k);
                        }
                        let var = match &*f.pat {
                            Pat::Ident(i) => i.ident.to_string(),
                            Pat::Wild(_) => "_".to_string(),
                            _ => return Err("`for` pattern unsupported".into()),
                        };
                        let (lo, hi, incl) = as_range(&f.expr).ok_or_else(|| format!("`for` over `{}` unsupported (only literal ranges are unrolled)", tok(&*f.expr)))?;
                        let lo = int_lit(lo).or_else(|| self.cfg.int_consts.get(&tok(lo)).copied()).ok_or("`for` range bound is not an integer literal")?;
                        let hi = int_lit(hi).or_else(|| self.cfg.int_consts.get(&tok(hi)).copied()).ok_or("`for` range bound is not an integer literal")?;
                        let hi = if incl { hi + 1 } else { hi };
                        let mut unrolled: Vec<Stmt> = vec![];
                        for i in lo..hi {
                            if var != "_" {
                                let s: Stmt = parse_str(&format!("let {} = {};", var, i)).unwrap();
                                unrolled.push(s);
                            }
                            unrolled.extend(f.body.stmts.iter().cloned());
                        }
                        unrolled.extend(rest.iter().cloned());
                        self.stmts(&unrolled, k)
                    }
                    Expr::Block(b) if semi.is_some() || !is_last => {
                        let mut all: Vec<Stmt> = b.block.stmts.clone();
                        all.extend(rest.iter().cloned());
                        self.stmts(&all, k)
                    }
                    _ => {
                        if is_last && semi.is_none() {
                            self.expr_k(e, k)
                        } else if let Expr::MethodCall(m) = e {
                            // configured mutating methods: `x.m(a, b);` becomes `let x := template`
                            if let Some(t) = self.cfg.stmt_methods.get(&m.method.to_string()) {
                                let (kidx, template) = stmt_template(t);
                                let target = if kidx == 0 { Some(&*m.receiver) } else { m.args.iter().nth(kidx - 1) };
                                let n = target.and_then(plain_var).ok_or_else(|| format!("statement `{}`: the mutated expression is not a plain variable", tok(e)))?;
                                let mut args = vec![self.expr(&m.receiver)?];
                                for a in &m.args {
                                    args.push(self.expr(a)?);
                                }
                                let v = fill(template, &args)?;
                                return Ok(format!("let {} := {}\n{}", ident(&n), v, self.stmts(rest, k)?));
                            }
                            // x.push(v) on a local list
                            if m.method == "retain" {
                                let n = self.assign_name(&m.receiver)?;
                                if let Some(Expr::Closure(c)) = m.args.first() {
                                    self.ctr.set(self.ctr.get() + 1);
                                    let it = format!("it_{}", self.ctr.get());
                                    let mut body = String::new();
                                    if c.inputs.len() != 1 {
                                        return Err("`retain` closure must take one argument".into());
                                    }
                                    self.bind_pat(&c.inputs[0], &it, &mut body)?;
                                    body.push_str(&self.expr(&c.body)?);
                                    return Ok(format!("let {} := (List.filter (fun {} =>\n{}) {})\n{}", n, it, body, n, self.stmts(rest, k)?));
                                }
                                return Err("`retain` without a closure argument".into());
                            }
                            if m.method == "push" {
                                let n = self.assign_name(&m.receiver)?;
                                let v = self.expr(&m.args[0])?;
                                Ok(format!("let {} := ({} ++ [{}])\n{}", n, n, v, self.stmts(rest, k)?))
                            } else if m.method == "extend" && m.args.len() == 1 {
                                // x.extend(vs) on a local list
                                let n = self.assign_name(&m.receiver)?;
                                let v = self.expr(&m.args[0])?;
                                Ok(format!("let {} := ({} ++ {})\n{}", n, n, v, self.stmts(rest, k)?))
                            } else {
                                Err(format!("unsupported statement `{}`", tok(e)))
                            }
                        } else {
                            Err(format!("unsupported statement `{}`", tok(e)))
                        }
                    }
                }
            }
        }
    }

    /// value of `return e` at the current position (inside a loop body it leaves the loop with a `ret` exit)
    fn ret_value(&self, e: &Option<Box<Expr>>) -> R<String> {
        let v = match e {
            Some(x) => self.expr(x)?,
            None => "()".into(),
        };
        let v = self.with_state(v);
        if self.folds.borrow().iter().any(|(vars, _)| vars.len() == 1 && vars[0] == FIND_MARK) {
            // inside a searching `for`: the value found
            return Ok(format!("(some {})", v));
        }
        if let Some((vars, _)) = self.folds.borrow().last() {
            if !vars.is_empty() && vars[0] == RET_MARK {
                // inside a `for` with state that can `return`: leave the fold with the value
                return Ok(format!("(Sum.inr {})", v));
            }
            return Err("`return` inside a `for` that is translated as a plain fold is unsupported".into());
        }
        if self.loops.borrow().is_empty() {
            Ok(v)
        } else {
            Ok(format!("(Sum.inr (LoopExit.ret {}))", v))
        }
    }

    /// with `self_fields`, every value the function returns is paired with the final values of those fields
    fn with_state(&self, v: String) -> String {
        if self.cfg.self_fields.is_empty() {
            v
        } else {
            let fields: Vec<String> = self.cfg.self_fields.iter().map(|f| self_field_var(f)).collect();
            format!("(T2.mk {} {})", v, self.tuple_of(&fields))
        }
    }

    fn loop_jump(&self, is_break: bool) -> R<String> {
        if let Some((vars, with_break)) = self.folds.borrow().last() {
            // innermost enclosing construct is a `for` fold
            if vars.len() == 1 && vars[0] == FIND_MARK {
                // a searching `for` (`List.findSome?`): `continue` = nothing found at this element
                return if is_break { Err("`break` inside a searching `for` is unsupported".into()) } else { Ok("none".into()) };
            }
            if !vars.is_empty() && vars[0] == RET_MARK {
                // a `for` with state that can `return` (`foldlRet`): `continue` = go on with the current state
                return if is_break { Err("`break` inside a returning `for` is unsupported".into()) } else { Ok(format!("(Sum.inl {})", self.tuple_of(&vars[1..]))) };
            }
            if *with_break {
                // `foldlBrk`: `inl` goes on with the next element, `inr` leaves the loop
                return Ok(format!("(Sum.{} {})", if is_break { "inr" } else { "inl" }, self.tuple_of(vars)));
            }
            if is_break {
                return Err("`break` inside a `for` that is translated as a fold is unsupported".into());
            }
            return Ok(self.tuple_of(vars));
        }
        let loops = self.loops.borrow();
        let (vars, has_ret) = loops.last().ok_or("`break`/`continue` outside a loop")?;
        let tuple = self.tuple_of(vars);
        Ok(if !is_break {
            format!("(Sum.inl {})", tuple)
        } else if *has_ret {
            format!("(Sum.inr (LoopExit.brk {}))", tuple)
        } else {
            format!("(Sum.inr {})", tuple)
        })
    }

    /// `loop { body }` / `while cond { body }` / `while let Some(p) = v.pop() { body }`: iteration with fuel over the tuple of
    /// variables the body assigns (`iterFuel`); `break`, `continue` and `return` inside the body become exits of the step function
    fn loop_fuel(&self, body: &Block, cond: Option<&Expr>, rest: &[Stmt], k: K) -> R<String> {
        let mut vars = vec![];
        assigned_vars(&body.stmts, &mut vars);
        // `while let Some(x) = stack.pop()`: the stack is state too
        let mut pop_of: Option<(String, &Pat)> = None;
        if let Some(Expr::Let(l)) = cond {
            if let Expr::MethodCall(m) = &*l.expr {
                if m.method == "pop" {
                    let recv = self.assign_name(&m.receiver)?;
                    if let Pat::TupleStruct(ts) = &*l.pat {
                        if self.path_str(&ts.path) == "Some" && ts.elems.len() == 1 {
                            if !vars.contains(&recv) { vars.push(recv.clone()); }
                            pop_of = Some((recv, &ts.elems[0]));
                        }
                    }
                }
            }
            if pop_of.is_none() {
                return Err(format!("`while let` only supported as `while let Some(p) = v.pop()`: `{}`", tok(l)));
            }
        }
        struct RV(bool);
        impl<'ast> visit::Visit<'ast> for RV {
            fn visit_expr_return(&mut self, _: &'ast ExprReturn) { self.0 = true; }
            fn visit_expr_closure(&mut self, _: &'ast ExprClosure) {}
        }
        let mut rv = RV(false);
        visit::Visit::visit_block(&mut rv, body);
        let has_ret = rv.0;
        struct BV(bool);
        impl<'ast> visit::Visit<'ast> for BV {
            fn visit_expr_break(&mut self, _: &'ast ExprBreak) { self.0 = true; }
            fn visit_expr_closure(&mut self, _: &'ast ExprClosure) {}
        }
        let mut bv = BV(false);
        visit::Visit::visit_block(&mut bv, body);
        // `loop { … }` that can only be left by `return`: the code after it is dead in Rust, so running out of fuel
        // (non-termination of the Rust loop) is mapped to the target's `unreachable` value
        let never_falls_through = cond.is_none() && !bv.0 && has_ret && self.cfg.unreachable.is_some();
        self.ctr.set(self.ctr.get() + 1);
        let n = self.ctr.get();
        let st = format!("st_{}", n);
        let tuple = self.tuple_of(&vars);
        self.loops.borrow_mut().push((vars.clone(), has_ret));
        let saved_folds = std::mem::take(&mut *self.folds.borrow_mut());
        let result: R<String> = (|| {
            let mut step = String::new();
            self.rebind_from(&vars, &st, &mut step);
            let brk = self.loop_jump(true)?;
            let mut body_code = self.stmts(&body.stmts, &|_| self.loop_jump(false))?;
            match (cond, &pop_of) {
                (Some(_), Some((recv, pat))) => {
                    let mut binds = String::new();
                    self.bind_pat(pat, "popped_", &mut binds)?;
                    body_code = format!("(match (List.getLast? {r}) with\n| some popped_ =>\nlet {r} := (List.dropLast {r})\n{b}{body}\n| none =>\n{brk})", r = recv, b = binds, body = body_code, brk = brk);
                }
                (Some(c), None) => {
                    let c = self.expr(c)?;
                    body_code = format!("(if {} then\n{}\nelse\n{})", c, body_code, brk);
                }
                (None, _) => {}
            }
            step.push_str(&body_code);
            Ok(step)
        })();
        self.loops.borrow_mut().pop();
        *self.folds.borrow_mut() = saved_folds;
        let step = result?;
        let fuel = self.cfg.loop_fuel.clone();
        let upd = format!("upd_{}", n);
        let mut out = String::new();
        if has_ret {
            writeln!(out, "let {} := (iterFuel {} (fun {} =>\n{}) (fun {} => LoopExit.brk {}) {})", upd, fuel, st, step, st, st, tuple).unwrap();
            let mut after = String::new();
            if never_falls_through {
                after.push_str(&self.cfg.unreachable.clone().unwrap());
            } else {
                self.rebind_from(&vars, "brk_", &mut after);
                after.push_str(&self.stmts(rest, k)?);
            }
            // a `ret` exit of an inner loop propagates as the value of the function (or as a `ret` exit of the enclosing loop)
            let ret_out = if self.loops.borrow().is_empty() { "ret_".to_string() } else { "(Sum.inr (LoopExit.ret ret_))".to_string() };
            write!(out, "(match {} with\n| LoopExit.brk brk_ =>\n{}\n| LoopExit.ret ret_ => {})", upd, after, ret_out).unwrap();
        } else {
            writeln!(out, "let {} := (iterFuel {} (fun {} =>\n{}) (fun {} => {}) {})", upd, fuel, st, step, st, st, tuple).unwrap();
            self.rebind_from(&vars, &upd, &mut out);
            out.push_str(&self.stmts(rest, k)?);
        }
        Ok(out)
    }

    /// the list a `for` iterates over: an integer range `lo..hi` / `lo..=hi` is the list of its elements, also under
    /// `.into_iter()` / `.iter()` and reversed by `.rev()`; anything else is translated as a value
    fn iter_expr(&self, e: &Expr) -> R<String> {
        if let Some((lo, hi, incl)) = as_range(e) {
            let lo = self.expr(lo)?;
            let hi = self.expr(hi)?;
            return Ok(if incl { format!("(List.range' {} (({} + 1) - {}))", lo, hi, lo) } else { format!("(List.range' {} ({} - {}))", lo, hi, lo) });
        }
        if let Expr::Paren(p) = e {
            return self.iter_expr(&p.expr);
        }
        if let Expr::MethodCall(m) = e {
            if m.args.is_empty() && (m.method == "into_iter" || m.method == "iter") && as_range_deep(&m.receiver) {
                return self.iter_expr(&m.receiver);
            }
            if m.args.is_empty() && m.method == "rev" && as_range_deep(&m.receiver) {
                return Ok(format!("(List.reverse {})", self.iter_expr(&m.receiver)?));
            }
        }
        self.expr(e)
    }

    /// `for pat in iter { body }` over a list: a left fold whose state is the tuple of variables the body assigns
    fn for_fold(&self, f: &ExprForLoop, rest: &[Stmt], k: K) -> R<String> {
        // a `break` inside a nested `while`/`loop` leaves that loop, not the `for`
        struct J(bool, usize);
        impl<'ast> visit::Visit<'ast> for J {
            fn visit_expr_break(&mut self, _: &'ast ExprBreak) { if self.1 == 0 { self.0 = true; } }
            fn visit_expr_return(&mut self, _: &'ast ExprReturn) { self.0 = true; }
            fn visit_expr_closure(&mut self, _: &'ast ExprClosure) {}
            fn visit_expr_while(&mut self, w: &'ast ExprWhile) { self.1 += 1; visit::visit_expr_while(self, w); self.1 -= 1; }
            fn visit_expr_loop(&mut self, l: &'ast ExprLoop) { self.1 += 1; visit::visit_expr_loop(self, l); self.1 -= 1; }
        }
        // `for x in xs { if c { return v; } }` (v independent of x): an existential test
        if f.body.stmts.len() == 1 {
            if let Stmt::Expr(Expr::If(i), _) = &f.body.stmts[0] {
                if i.else_branch.is_none() && i.then_branch.stmts.len() == 1 && !matches!(&*i.cond, Expr::Let(_)) && !has_return_expr(&i.cond) {
                    if let Stmt::Expr(Expr::Return(r), _) = &i.then_branch.stmts[0] {
                        let iter = self.iter_expr(&f.expr)?;
                        self.ctr.set(self.ctr.get() + 1);
                        let it = format!("it_{}", self.ctr.get());
                        let mut body = String::new();
                        self.bind_pat(&f.pat, &it, &mut body)?;
                        body.push_str(&self.expr(&i.cond)?);
                        let v = match &r.expr {
                            Some(x) => self.expr(x)?,
                            None => "()".into(),
                        };
                        let rest_code = self.stmts(rest, k)?;
                        return Ok(format!("(if (List.any {} (fun {} =>\n{})) then\n{}\nelse\n{})", iter, it, body, v, rest_code));
                    }
                }
            }
        }
        // a `break` of this loop itself (not of a loop nested in the body) and no `return`: a fold that can stop early
        struct JB { brk: bool, ret: bool }
        impl<'ast> visit::Visit<'ast> for JB {
            fn visit_expr_break(&mut self, _: &'ast ExprBreak) { self.brk = true; }
            fn visit_expr_return(&mut self, _: &'ast ExprReturn) { self.ret = true; }
            fn visit_expr_closure(&mut self, _: &'ast ExprClosure) {}
            fn visit_expr_loop(&mut self, _: &'ast ExprLoop) { self.ret = true; }
            fn visit_expr_while(&mut self, _: &'ast ExprWhile) { self.ret = true; }
            fn visit_expr_for_loop(&mut self, _: &'ast ExprForLoop) { self.ret = true; }
        }
        let mut jb = JB { brk: false, ret: false };
        visit::Visit::visit_block(&mut jb, &f.body);
        let with_break = jb.brk && !jb.ret;
        let mut j = J(false, 0);
        visit::Visit::visit_block(&mut j, &f.body);
        // a SEARCHING `for`: the body assigns no outer variable, has no `break` of its own, and leaves the function with `return v`
        // from some element (possibly from a nested searching `for`): `List.findSome?` over the elements, `continue` / falling
        // through = `none`, then the rest of the function if nothing was found
        {
            struct RV(bool, bool);
            impl<'ast> visit::Visit<'ast> for RV {
                fn visit_expr_return(&mut self, _: &'ast ExprReturn) { self.0 = true; }
                fn visit_expr_break(&mut self, _: &'ast ExprBreak) { self.1 = true; }
                fn visit_expr_loop(&mut self, _: &'ast ExprLoop) { self.1 = true; }
                fn visit_expr_while(&mut self, _: &'ast ExprWhile) { self.1 = true; }
                fn visit_expr_closure(&mut self, _: &'ast ExprClosure) {}
            }
            let mut rv = RV(false, false);
            visit::Visit::visit_block(&mut rv, &f.body);
            let mut vars = vec![];
            assigned_vars(&f.body.stmts, &mut vars);
            if rv.0 && !rv.1 && vars.is_empty() && self.cfg.self_fields.is_empty() && self.loops.borrow().is_empty() {
                let nested = self.folds.borrow().iter().any(|(v, _)| v.len() == 1 && v[0] == FIND_MARK);
                let iter = self.iter_expr(&f.expr)?;
                self.ctr.set(self.ctr.get() + 1);
                let it = format!("it_{}", self.ctr.get());
                let mut body = String::new();
                self.bind_pat(&f.pat, &it, &mut body)?;
                self.folds.borrow_mut().push((vec![FIND_MARK.to_string()], false));
                let body_code = self.stmts(&f.body.stmts, &|_| Ok("none".into()));
                self.folds.borrow_mut().pop();
                body.push_str(&body_code?);
                let rest_code = self.stmts(rest, k)?;
                let found = if nested { "(some ret_)" } else { "ret_" };
                return Ok(format!("(match (List.findSome? (fun {} =>\n{}) {}) with\n| some ret_ => {}\n| none =>\n{})", it, body, iter, found, rest_code));
            }
        }
        // a `for` WITH STATE that can `return` (no `break` of its own, no loop nested in its body, not inside an `iterFuel` loop):
        // `foldlRet` - `inl state` goes on, `inr value` leaves the function
        {
            struct RV(bool, bool);
            impl<'ast> visit::Visit<'ast> for RV {
                fn visit_expr_return(&mut self, _: &'ast ExprReturn) { self.0 = true; }
                fn visit_expr_break(&mut self, _: &'ast ExprBreak) { self.1 = true; }
                fn visit_expr_loop(&mut self, _: &'ast ExprLoop) { self.1 = true; }
                fn visit_expr_while(&mut self, _: &'ast ExprWhile) { self.1 = true; }
                fn visit_expr_for_loop(&mut self, _: &'ast ExprForLoop) { self.1 = true; }
                fn visit_expr_closure(&mut self, _: &'ast ExprClosure) {}
            }
            let mut rv = RV(false, false);
            visit::Visit::visit_block(&mut rv, &f.body);
            let mut vars = vec![];
            assigned_vars(&f.body.stmts, &mut vars);
            if rv.0 && !rv.1 && !vars.is_empty() && self.cfg.self_fields.is_empty() && self.loops.borrow().is_empty() && self.folds.borrow().is_empty() {
                let iter = self.iter_expr(&f.expr)?;
                self.ctr.set(self.ctr.get() + 1);
                let n = self.ctr.get();
                let st = format!("st_{}", n);
                let it = format!("it_{}", n);
                let mut body = String::new();
                self.rebind_from(&vars, &st, &mut body);
                self.bind_pat(&f.pat, &it, &mut body)?;
                let tuple = self.tuple_of(&vars);
                let mut marked = vec![RET_MARK.to_string()];
                marked.extend(vars.iter().cloned());
                self.folds.borrow_mut().push((marked, false));
                let body_code = self.stmts(&f.body.stmts, &|_| Ok(format!("(Sum.inl {})", tuple)));
                self.folds.borrow_mut().pop();
                body.push_str(&body_code?);
                let mut after = String::new();
                self.rebind_from(&vars, "fin_", &mut after);
                after.push_str(&self.stmts(rest, k)?);
                return Ok(format!("(match (foldlRet {} {} (fun {} {} =>\n{})) with\n| Sum.inr ret_ => ret_\n| Sum.inl fin_ =>\n{})", iter, tuple, st, it, body, after));
            }
        }
        if j.0 && !with_break {
            return Err(format!("`for` over `{}` with break/continue/return in its body is unsupported", tok(&*f.expr)));
        }
        let mut vars = vec![];
        assigned_vars(&f.body.stmts, &mut vars);
        if vars.is_empty() {
            return self.stmts(rest, k);
        }
        let iter = self.iter_expr(&f.expr)?;
        self.ctr.set(self.ctr.get() + 1);
        let n = self.ctr.get();
        let st = format!("st_{}", n);
        let it = format!("it_{}", n);
        let mut body = String::new();
        self.rebind_from(&vars, &st, &mut body);
        self.bind_pat(&f.pat, &it, &mut body)?;
        let tuple = self.tuple_of(&vars);
        self.folds.borrow_mut().push((vars.clone(), with_break));
        let body_code = self.stmts(&f.body.stmts, &|_| Ok(if with_break { format!("(Sum.inl {})", tuple) } else { tuple.clone() }));
        self.folds.borrow_mut().pop();
        body.push_str(&body_code?);
        let mut out = String::new();
        let folded = format!("({} {} {} (fun {} {} =>\n{}))", if with_break { "foldlBrk" } else { "foldlT" }, iter, tuple, st, it, body);
        let upd = format!("upd_{}", n);
        writeln!(out, "let {} := {}", upd, folded).unwrap();
        self.rebind_from(&vars, &upd, &mut out);
        out.push_str(&self.stmts(rest, k)?);
        Ok(out)
    }

    fn rebind_from(&self, vars: &[String], src: &str, out: &mut String) {
        if vars.len() == 1 {
            writeln!(out, "let {} := {}", ident(&vars[0]), src).unwrap();
        } else {
            for (i, var) in vars.iter().enumerate() {
                writeln!(out, "let {} := {}.t{}", ident(var), src, i).unwrap();
            }
        }
    }

    /// statement-level `if` (unit valued): updates of outer variables are threaded through a tuple
    fn if_let_parts(&self, l: &ExprLet) -> R<(String, String)> {
        let scrut = self.expr(&l.expr)?;
        let pat = self.match_pat(&l.pat)?;
        Ok((scrut, pat))
    }

    fn ite(&self, cond: &Expr, a: &str, b: &str) -> R<String> {
        if let Expr::Let(l) = cond {
            let (scrut, pat) = self.if_let_parts(l)?;
            return Ok(format!("(match {} with\n| {} =>\n{}\n| _ =>\n{})", scrut, pat, a, b));
        }
        let c = self.expr(cond)?;
        Ok(format!("(if {} then\n{}\nelse\n{})", c, a, b))
    }

    fn if_stmt(&self, i: &ExprIf, rest: &[Stmt], k: K) -> R<String> {
        let then_stmts = &i.then_branch.stmts;
        let else_stmts: Vec<Stmt> = match &i.else_branch {
            None => vec![],
            Some((_, eb)) => match &**eb {
                Expr::Block(b) => b.block.stmts.clone(),
                other => vec![Stmt::Expr(other.clone(), Some(Default::default()))],
            },
        };
        let any_return = has_return_stmts(then_stmts) || has_return_stmts(&else_stmts);
        if any_return {
            // duplicate the rest into both branches (a branch that returns never reaches it)
            let mut a: Vec<Stmt> = then_stmts.clone();
            a.extend(rest.iter().cloned());
            let mut b: Vec<Stmt> = else_stmts.clone();
            b.extend(rest.iter().cloned());
            let a = self.stmts(&a, k)?;
            let b = self.stmts(&b, k)?;
            return self.ite(&i.cond, &a, &b);
        }
        let mut vars = vec![];
        assigned_vars(then_stmts, &mut vars);
        assigned_vars(&else_stmts, &mut vars);
        // `push` on outer lists counts as an assignment
        let tuple = self.tuple_of(&vars);
        let a = self.stmts(then_stmts, &|_| Ok(tuple.clone()))?;
        let b = self.stmts(&else_stmts, &|_| Ok(tuple.clone()))?;
        let mut out = String::new();
        if vars.is_empty() {
            // no effect on the value computed
            return self.stmts(rest, k);
        }
        self.rebind(&vars, &self.ite(&i.cond, &a, &b)?, &mut out);
        out.push_str(&self.stmts(rest, k)?);
        Ok(out)
    }
}

fn inner_list(inner: &str) -> String {
    // SmallVec<[T; N]> arrives as (List T) already
    if inner.starts_with("(List ") {
        inner.to_string()
    } else {
        format!("(List {})", inner)
    }
}

fn is_compound(op: &BinOp) -> bool {
    use BinOp::*;
    matches!(op, AddAssign(_) | SubAssign(_) | MulAssign(_) | DivAssign(_))
}

fn compound_op(op: &BinOp) -> &'static str {
    use BinOp::*;
    match op {
        AddAssign(_) => "+",
        SubAssign(_) => "-",
        MulAssign(_) => "*",
        DivAssign(_) => "/",
        _ => "?",
    }
}

fn as_range(e: &Expr) -> Option<(&Expr, &Expr, bool)> {
    match e {
        Expr::Paren(p) => as_range(&p.expr),
        Expr::Range(r) => {
            let lo = r.start.as_ref()?;
            let hi = r.end.as_ref()?;
            Some((lo, hi, matches!(r.limits, RangeLimits::Closed(_))))
        }
        _ => None,
    }
}

/// an integer range, possibly under `.into_iter()` / `.iter()` / `.rev()` / parentheses
fn as_range_deep(e: &Expr) -> bool {
    if as_range(e).is_some() {
        return true;
    }
    match e {
        Expr::Paren(p) => as_range_deep(&p.expr),
        Expr::MethodCall(m) => m.args.is_empty() && (m.method == "into_iter" || m.method == "iter" || m.method == "rev") && as_range_deep(&m.receiver),
        _ => false,
    }
}

fn int_lit(e: &Expr) -> Option<i64> {
    if let Expr::Lit(l) = e {
        if let Lit::Int(i) = &l.lit {
            return i.base10_parse().ok();
        }
    }
    None
}

// ---------------------------------------------------------------------------------------------------
// finding items

enum Found<'a> {
    Fn(&'a Signature, &'a Block),
    Const(&'a ItemConst),
}

fn find_in_items<'a>(items: &'a [Item], want: &str, out: &mut Vec<Found<'a>>) {
    let (want_ty, want_fn) = match want.rsplit_once("::") {
        Some((a, b)) => (Some(a), b),
        None => (None, want),
    };
    for it in items {
        match it {
            Item::Fn(f) => {
                if want_ty.is_none() && f.sig.ident == want_fn {
                    out.push(Found::Fn(&f.sig, &f.block));
                }
            }
            Item::Const(c) => {
                if want_ty.is_none() && c.ident == want_fn {
                    out.push(Found::Const(c));
                }
            }
            Item::Mod(m) => {
                if let Some((_, items)) = &m.content {
                    // skip test modules
                    let is_test = m.attrs.iter().any(|a| tok(a).contains("cfg(test)"));
                    if !is_test {
                        find_in_items(items, want, out);
                    }
                }
            }
            Item::Impl(im) => {
                let self_ty = match &*im.self_ty {
                    Type::Path(p) => p.path.segments.last().map(|s| s.ident.to_string()).unwrap_or_default(),
                    other => tok(other),
                };
                let trait_name = im.trait_.as_ref().map(|(_, p, _)| p.segments.last().unwrap().ident.to_string());
                let matches_ty = match want_ty {
                    None => false,
                    Some(w) => {
                        w == self_ty
                            || trait_name.as_deref() == Some(w)
                            || trait_name.as_ref().map(|t| format!("{}for{}", t, self_ty)) == Some(norm(w))
                    }
                };
                if matches_ty {
                    for ii in &im.items {
                        if let ImplItem::Fn(f) = ii {
                            if f.sig.ident == want_fn {
                                out.push(Found::Fn(&f.sig, &f.block));
                            }
                        }
                    }
                }
            }
            Item::Trait(t) => {
                if want_ty == Some(t.ident.to_string().as_str()) {
                    for ti in &t.items {
                        if let TraitItem::Fn(f) = ti {
                            if f.sig.ident == want_fn {
                                if let Some(b) = &f.default {
                                    out.push(Found::Fn(&f.sig, b));
                                }
                            }
                        }
                    }
                }
            }
            _ => {}
        }
    }
}

fn nth_closure(block: &Block, n: usize) -> Option<ExprClosure> {
    struct V {
        n: usize,
        seen: usize,
        found: Option<ExprClosure>,
    }
    impl<'ast> visit::Visit<'ast> for V {
        fn visit_stmt(&mut self, s: &'ast Stmt) {
            // closures inside verification hooks do not count
            if !stmt_is_verif_hook(s) {
                visit::visit_stmt(self, s);
            }
        }
        fn visit_expr_closure(&mut self, c: &'ast ExprClosure) {
            if self.found.is_some() {
                return;
            }
            if self.seen == self.n {
                self.found = Some(c.clone());
                return;
            }
            self.seen += 1;
            visit::visit_expr_closure(self, c);
        }
    }
    let mut v = V { n, seen: 0, found: None };
    visit::Visit::visit_block(&mut v, block);
    v.found
}

fn fnv(s: &str) -> u64 {
    let mut h: u64 = 0xcbf29ce484222325;
    for b in s.bytes() {
        h ^= b as u64;
        h = h.wrapping_mul(0x100000001b3);
    }
    h
}

fn get_str(v: &Value, k: &str) -> Option<String> {
    v.get(k).and_then(|x| x.as_str()).map(|s| s.to_string())
}

fn get_map(v: &Value, k: &str) -> Vec<(String, String)> {
    let mut out = vec![];
    if let Some(Value::Object(m)) = v.get(k) {
        for (a, b) in m {
            if let Some(s) = b.as_str() {
                out.push((a.clone(), s.to_string()));
            }
        }
    }
    out
}

/// `#[cfg(flo_curves_verif)]` on a statement: a verification hook
/// `c[0][1]` (literal indices, `c` in `names`) -> "c_0_1"
fn scalar_name(e: &Expr, names: &[String]) -> Option<String> {
    match e {
        Expr::Paren(p) => scalar_name(&p.expr, names),
        Expr::Path(p) if p.path.segments.len() == 1 => {
            let n = p.path.segments[0].ident.to_string();
            if names.contains(&n) { Some(n) } else { None }
        }
        Expr::Index(i) => {
            let base = scalar_name(&i.expr, names)?;
            let k = int_lit(&i.index)?;
            Some(format!("{}_{}", base, k))
        }
        _ => None,
    }
}

fn scalar_leaves(prefix: &str, e: &Expr, out: &mut Vec<(String, Expr)>) {
    match e {
        Expr::Array(a) => {
            for (k, el) in a.elems.iter().enumerate() {
                scalar_leaves(&format!("{}_{}", prefix, k), el, out);
            }
        }
        other => out.push((prefix.to_string(), other.clone())),
    }
}

struct Scalarize<'n> {
    names: &'n [String],
}

impl<'n> Scalarize<'n> {
    fn expand(&mut self, stmts: Vec<Stmt>) -> Vec<Stmt> {
        let mut out = vec![];
        for mut st in stmts {
            if let Stmt::Local(l) = &st {
                if let (Pat::Ident(pi), Some(init)) = (&l.pat, &l.init) {
                    let n = pi.ident.to_string();
                    if self.names.contains(&n) && matches!(&*init.expr, Expr::Array(_)) {
                        let mut leaves = vec![];
                        scalar_leaves(&n, &init.expr, &mut leaves);
                        for (name, mut e) in leaves {
                            syn::visit_mut::VisitMut::visit_expr_mut(self, &mut e);
                            let mutk = if pi.mutability.is_some() { "mut " } else { "" };
                            let mut new: Stmt = parse_str(&format!("let {}{} = 0;", mutk, name)).unwrap();
                            if let Stmt::Local(nl) = &mut new {
                                nl.init.as_mut().unwrap().expr = Box::new(e);
                            }
                            out.push(new);
                        }
                        continue;
                    }
                }
            }
            syn::visit_mut::VisitMut::visit_stmt_mut(self, &mut st);
            out.push(st);
        }
        out
    }
}

impl<'n> syn::visit_mut::VisitMut for Scalarize<'n> {
    fn visit_expr_mut(&mut self, e: &mut Expr) {
        if matches!(e, Expr::Index(_)) {
            if let Some(n) = scalar_name(e, self.names) {
                *e = parse_str::<Expr>(&n).unwrap();
                return;
            }
        }
        syn::visit_mut::visit_expr_mut(self, e);
    }
    fn visit_block_mut(&mut self, b: &mut Block) {
        let stmts = std::mem::take(&mut b.stmts);
        b.stmts = self.expand(stmts);
    }
}

fn stmt_is_verif_hook(s: &Stmt) -> bool {
    fn has(attrs: &[Attribute]) -> bool {
        attrs.iter().any(|a| a.path().is_ident("cfg") && tok(&a.meta).replace(' ', "").contains("cfg(flo_curves_verif)"))
    }
    match s {
        Stmt::Local(l) => has(&l.attrs),
        Stmt::Macro(m) => has(&m.attrs),
        Stmt::Expr(e, _) => match e {
            Expr::Call(x) => has(&x.attrs),
            Expr::MethodCall(x) => has(&x.attrs),
            Expr::Block(x) => has(&x.attrs),
            Expr::If(x) => has(&x.attrs),
            Expr::Macro(x) => has(&x.attrs),
            Expr::Assign(x) => has(&x.attrs),
            _ => false,
        },
        _ => false,
    }
}

fn main() {
    let args: Vec<String> = std::env::args().collect();
    if args.len() != 4 {
        eprintln!("usage: rs2lean <repo-root> <targets.json> <out-dir>");
        std::process::exit(2);
    }
    let repo = &args[1];
    let spec: Value = serde_json::from_str(&std::fs::read_to_string(&args[2]).expect("read targets")).expect("parse targets json");
    let out_dir = &args[3];
    std::fs::create_dir_all(out_dir).unwrap();

    let header = get_str(&spec, "header").unwrap_or_default();
    let global_methods = get_map(&spec, "methods");
    let global_fns = get_map(&spec, "fns");
    let global_types = get_map(&spec, "types");
    let modules = spec.get("modules").and_then(|m| m.as_array()).expect("modules");

    // names of all targets (callable from each other)
    let mut known = BTreeSet::new();
    let mut consts: BTreeMap<String, String> = BTreeMap::new();
    for m in modules {
        for t in m.get("targets").and_then(|t| t.as_array()).expect("targets") {
            let name = get_str(t, "name").expect("target name");
            if get_str(t, "kind").as_deref() == Some("const") {
                consts.insert(name.clone(), get_str(t, "ret").unwrap_or_else(|| "K".to_string()));
            }
            known.insert(name);
        }
    }

    let mut errors: Vec<String> = vec![];
    let mut summary = vec![];
    let mut parsed: BTreeMap<String, File> = BTreeMap::new();

    for m in modules {
        let mname = get_str(m, "name").expect("module name");
        let imports: Vec<String> = m.get("imports").and_then(|x| x.as_array()).map(|a| a.iter().filter_map(|x| x.as_str().map(|s| s.to_string())).collect()).unwrap_or_default();
        let mut text = String::new();
        writeln!(text, "-- GENERATED by rs2lean from the Rust sources of flo_curves. Do not edit: regenerated on every check.").unwrap();
        writeln!(text, "import FloVerif.Prelude.Num").unwrap();
        for i in &imports {
            writeln!(text, "import {}", i).unwrap();
        }
        writeln!(text, "set_option linter.unusedVariables false").unwrap();
        let mheader = get_str(m, "header").unwrap_or_else(|| header.clone());
        writeln!(text, "namespace Gen\nopen Prelude\n{}\n", mheader).unwrap();

        for t in m.get("targets").and_then(|t| t.as_array()).unwrap() {
            let mut cfg = Cfg::default();
            cfg.name = get_str(t, "name").unwrap();
            cfg.file = get_str(t, "file").or_else(|| get_str(m, "file")).expect("file");
            cfg.item = get_str(t, "item").unwrap_or_else(|| cfg.name.clone());
            cfg.closure = t.get("closure").and_then(|x| x.as_u64()).map(|x| x as usize);
            cfg.params = get_str(t, "params");
            cfg.ret = get_str(t, "ret");
            cfg.kind = get_str(t, "kind").unwrap_or_else(|| "fn".into());
            cfg.int = get_str(t, "int").unwrap_or_else(|| "Nat".into());
            cfg.point = get_str(t, "point").or_else(|| get_str(m, "point")).unwrap_or_else(|| "P".into());
            cfg.noncomputable = t.get("noncomputable").and_then(|x| x.as_bool()).unwrap_or(false);
            cfg.subst = get_map(t, "subst").into_iter().map(|(a, b)| (norm(&a), b)).collect();
            cfg.methods = default_methods();
            for (a, b) in global_methods.iter().chain(get_map(m, "methods").iter()).chain(get_map(t, "methods").iter()) {
                cfg.methods.insert(a.clone(), b.clone());
            }
            cfg.fns = default_fns();
            for (a, b) in global_fns.iter().chain(get_map(m, "fns").iter()).chain(get_map(t, "fns").iter()) {
                cfg.fns.insert(a.clone(), b.clone());
            }
            for (a, b) in global_types.iter().chain(get_map(m, "types").iter()).chain(get_map(t, "types").iter()) {
                cfg.types.insert(norm(a), b.clone());
            }
            cfg.pre = t.get("pre").and_then(|x| x.as_array()).map(|a| a.iter().filter_map(|x| x.as_str().map(|s| s.to_string())).collect()).unwrap_or_default();
            cfg.consts = consts.clone();
            cfg.unreachable = get_str(t, "unreachable");
            cfg.take_stmts = t.get("take_stmts").and_then(|x| x.as_u64()).map(|x| x as usize);
            cfg.skip_stmts = t.get("skip_stmts").and_then(|x| x.as_u64()).map(|x| x as usize).unwrap_or(0);
            cfg.tail = get_str(t, "tail");
            cfg.inner_block = t.get("inner_block").and_then(|x| x.as_array()).map(|a| a.iter().filter_map(|st| { let st = st.as_array()?; Some((st.get(0)?.as_u64()? as usize, st.get(1)?.as_str()?.to_string())) }).collect()).unwrap_or_default();
            cfg.scalarize = t.get("scalarize").and_then(|x| x.as_array()).map(|a| a.iter().filter_map(|x| x.as_str().map(|s| s.to_string())).collect()).unwrap_or_default();
            cfg.self_fields = t.get("self_fields").and_then(|x| x.as_array()).map(|a| a.iter().filter_map(|x| x.as_str().map(|s| s.to_string())).collect()).unwrap_or_default();
            cfg.loop_fuel = match t.get("loop_fuel") {
                Some(Value::String(e)) => e.clone(),
                Some(v) => v.as_u64().unwrap_or(100000).to_string(),
                None => "100000".to_string(),
            };
            cfg.stmt_methods = get_map(t, "stmt_methods").into_iter().collect();
            MUTATORS.with(|mu| {
                let mut mu = mu.borrow_mut();
                mu.clear();
                mu.insert("retain".to_string(), 0);
                for (name, t) in &cfg.stmt_methods {
                    mu.insert(name.clone(), stmt_template(t).0);
                }
            });
            if let Some(Value::Object(m)) = t.get("int_consts") {
                for (a, b) in m {
                    if let Some(v) = b.as_i64() {
                        cfg.int_consts.insert(norm(a), v);
                    }
                }
            }
            for src in [m, t] {
                if let Some(a) = src.get("enums").and_then(|x| x.as_array()) {
                    cfg.enums.extend(a.iter().filter_map(|x| x.as_str().map(|s| s.to_string())));
                }
            }
            cfg.drop_fields = t.get("drop_fields").and_then(|x| x.as_array()).map(|a| a.iter().filter_map(|x| x.as_str().map(|s| s.to_string())).collect()).unwrap_or_default();

            let path = format!("{}/{}", repo, cfg.file);
            if !parsed.contains_key(&path) {
                let src = match std::fs::read_to_string(&path) {
                    Ok(s) => s,
                    Err(e) => {
                        errors.push(format!("{}: cannot read {}: {}", cfg.name, path, e));
                        continue;
                    }
                };
                match parse_file(&src) {
                    Ok(f) => {
                        parsed.insert(path.clone(), f);
                    }
                    Err(e) => {
                        errors.push(format!("{}: cannot parse {}: {}", cfg.name, path, e));
                        continue;
                    }
                }
            }
            let file = &parsed[&path];
            let mut found = vec![];
            find_in_items(&file.items, &cfg.item, &mut found);
            if found.len() != 1 {
                errors.push(format!("{}: item `{}` found {} times in {}", cfg.name, cfg.item, found.len(), cfg.file));
                continue;
            }
            let tr = Tr { cfg: &cfg, known: &known, ctr: std::cell::Cell::new(0), loops: std::cell::RefCell::new(vec![]), folds: std::cell::RefCell::new(vec![]) };
            // a constant declared inside a function: `kind = const`, `item` = the function, `name` = the constant
            let inner_const: Option<ItemConst> = if cfg.kind == "const" {
                if let Found::Fn(_, block) = &found[0] {
                    block.stmts.iter().find_map(|st| if let Stmt::Item(Item::Const(c)) = st { if c.ident == cfg.name.as_str() { Some(c.clone()) } else { None } } else { None })
                } else { None }
            } else { None };
            if cfg.kind == "const" && inner_const.is_none() && matches!(&found[0], Found::Fn(..)) {
                errors.push(format!("{}: constant not found inside `{}`", cfg.name, cfg.item));
                continue;
            }
            // a function declared inside a function: `inner_fn` = its name, `item` = the enclosing function
            let inner_fn: Option<ItemFn> = match (get_str(t, "inner_fn"), &found[0]) {
                (Some(n), Found::Fn(_, block)) => block.stmts.iter().find_map(|st| if let Stmt::Item(Item::Fn(f)) = st { if f.sig.ident == n.as_str() { Some(f.clone()) } else { None } } else { None }),
                _ => None,
            };
            if get_str(t, "inner_fn").is_some() && inner_fn.is_none() {
                errors.push(format!("{}: inner function not found inside `{}`", cfg.name, cfg.item));
                continue;
            }
            let found0 = match &inner_const { Some(c) => Found::Const(c), None => match (&inner_fn, &found[0]) { (Some(f), _) => Found::Fn(&f.sig, &f.block), (None, Found::Fn(a, b)) => Found::Fn(a, b), (None, Found::Const(c)) => Found::Const(c) } };
            let result: R<(String, usize, usize, String)> = (|| match &found0 {
                Found::Const(c) => {
                    let v = tr.expr(&c.expr)?;
                    let ty = match &cfg.ret {
                        Some(r) => r.clone(),
                        None => tr.ty(&c.ty)?,
                    };
                    Ok((format!("def {} : {} := {}\n", ident(&cfg.name), ty, v), c.span().start().line, c.span().end().line, tok(*c)))
                }
                Found::Fn(sig, block) => {
                    let (params, ret, body_stmts, lo, hi, text): (String, String, Vec<Stmt>, usize, usize, String) = match cfg.closure {
                        None => {
                            let params = match &cfg.params {
                                Some(p) => p.clone(),
                                None => {
                                    let mut ps = vec![];
                                    for inp in &sig.inputs {
                                        match inp {
                                            FnArg::Receiver(_) => {}
                                            FnArg::Typed(pt) => {
                                                let n = match &*pt.pat {
                                                    Pat::Ident(i) => ident(&i.ident.to_string()),
                                                    other => return Err(format!("parameter pattern `{}` unsupported", tok(other))),
                                                };
                                                ps.push(format!("({} : {})", n, tr.ty(&pt.ty)?));
                                            }
                                        }
                                    }
                                    ps.join(" ")
                                }
                            };
                            let ret = match &cfg.ret {
                                Some(r) => r.clone(),
                                None => match &sig.output {
                                    ReturnType::Default => "Unit".to_string(),
                                    ReturnType::Type(_, t) => tr.ty(t)?,
                                },
                            };
                            (params, ret, block.stmts.clone(), sig.span().start().line, block.span().end().line, format!("{}{}", tok(*sig), tok(*block)))
                        }
                        Some(n) => {
                            let c = nth_closure(block, n).ok_or_else(|| format!("closure #{} not found", n))?;
                            let params = cfg.params.clone().ok_or("closure targets need \"params\"")?;
                            let ret = cfg.ret.clone().ok_or("closure targets need \"ret\"")?;
                            let stmts = match &*c.body {
                                Expr::Block(b) => b.block.stmts.clone(),
                                other => vec![Stmt::Expr(other.clone(), None)],
                            };
                            (params, ret, stmts, c.span().start().line, c.span().end().line, tok(&c))
                        }
                    };
                    let mut body = String::new();
                    for p in &cfg.pre {
                        writeln!(body, "{}", p).unwrap();
                    }
                    let mut body_stmts: Vec<Stmt> = body_stmts.into_iter().filter(|s| !stmt_is_verif_hook(s)).collect();
                    for (idx, branch) in &cfg.inner_block {
                        // descend into the body of a nested `if` / `if let`: what the conditions bind is a parameter of the target
                        let st = body_stmts.get(*idx).cloned().ok_or_else(|| format!("inner_block: no statement {}", idx))?;
                        let ife = match &st { Stmt::Expr(Expr::If(i), _) => i.clone(), other => return Err(format!("inner_block: statement {} is not an `if`: `{}`", idx, tok(other))) };
                        let inner: Vec<Stmt> = match branch.as_str() {
                            "then" => ife.then_branch.stmts.clone(),
                            "else" => match ife.else_branch.as_ref().map(|(_, e)| &**e) { Some(Expr::Block(b)) => b.block.stmts.clone(), _ => return Err("inner_block: no else block".to_string()) },
                            other => return Err(format!("inner_block: unknown branch `{}`", other)),
                        };
                        body_stmts = inner.into_iter().filter(|s| !stmt_is_verif_hook(s)).collect();
                    }
                    if !cfg.scalarize.is_empty() {
                        body_stmts = Scalarize { names: &cfg.scalarize }.expand(body_stmts);
                    }
                    if cfg.skip_stmts > 0 {
                        // the first n statements are not translated: what they compute is a parameter of the target (see `params`, `subst`)
                        if cfg.skip_stmts > body_stmts.len() {
                            return Err(format!("skip_stmts {} exceeds the {} statements of the body", cfg.skip_stmts, body_stmts.len()));
                        }
                        body_stmts.drain(0..cfg.skip_stmts);
                    }
                    if let Some(n) = cfg.take_stmts {
                        // only the first n statements are translated; the rest of the body is the opaque `tail` expression
                        body_stmts.truncate(n);
                        let tail = cfg.tail.clone().ok_or("take_stmts needs \"tail\"")?;
                        let tail_key = "verif_tail_placeholder()";
                        body_stmts.push(parse_str::<Stmt>(&format!("return {};", tail_key)).unwrap());
                        let mut cfg2 = cfg.clone();
                        cfg2.subst.push((norm(tail_key), tail));
                        let tr2 = Tr { cfg: &cfg2, known: &known, ctr: std::cell::Cell::new(0), loops: std::cell::RefCell::new(vec![]), folds: std::cell::RefCell::new(vec![]) };
                        body.push_str(&tr2.stmts(&body_stmts, &|v| Ok(v))?);
                    } else {
                        body.push_str(&tr.stmts(&body_stmts, &|v| Ok(tr.with_state(v)))?);
                    }
                    let nc = if cfg.noncomputable { "noncomputable " } else { "" };
                    Ok((format!("{}def {} {} : {} :=\n{}\n", nc, ident(&cfg.name), params, ret, body), lo, hi, text))
                }
            })();
            match result {
                Ok((def, lo, hi, src_text)) => {
                    let h = fnv(&src_text);
                    writeln!(text, "-- source: {}:{}-{} item `{}`{} hash {:016x}", cfg.file, lo, hi, cfg.item, cfg.closure.map(|c| format!(" closure #{}", c)).unwrap_or_default(), h).unwrap();
                    text.push_str(&def);
                    text.push('\n');
                    summary.push(serde_json::json!({"name": cfg.name, "module": mname, "file": cfg.file, "lines": [lo, hi], "hash": format!("{:016x}", h)}));
                }
                Err(e) => errors.push(format!("{} ({} `{}`): {}", cfg.name, cfg.file, cfg.item, e)),
            }
        }
        writeln!(text, "end Gen").unwrap();
        let out_path = format!("{}/{}.lean", out_dir, mname);
        // only touch the file when its content changed, so lake does not rebuild needlessly
        let old = std::fs::read_to_string(&out_path).unwrap_or_default();
        if old != text {
            std::fs::write(&out_path, text).unwrap();
        }
    }
    let report = serde_json::json!({"targets": summary, "errors": errors});
    println!("{}", serde_json::to_string_pretty(&report).unwrap());
    if !errors.is_empty() {
        for e in &errors {
            eprintln!("rs2lean: {}", e);
        }
        std::process::exit(2);
    }
}
