# seed_table.py <rig>/logs > seeded/RESULTS.md : the table of DESIGN.md 8.6 from the logs bin/mutcheck leaves in <rig>/logs
import re,os,json,glob
rows=[]
import sys
LOGS = sys.argv[1] if len(sys.argv) > 1 else '/tmp/mt2/logs'
for f in sorted(glob.glob(LOGS + '/*.out')):
    base=os.path.basename(f)[:-4]
    sid,prop=base.rsplit('-',1)
    if not os.path.isdir('/verif/seeded/%s'%sid): continue   # logs of other patches run through the rig
    out=open(f).read()
    m=re.search(r'^%s (quick|thorough): (\d+)/(\d+) theorems checked.*?\((\d+) diffs\).*?\((\d+) failures, (\d+) listed' % prop, out, re.M)
    viol='VIOLATION' in out
    thms=sorted(set(re.findall(r'no longer checks: theorem (\S+?):', out)))
    lean=sorted(set(re.findall(r'no longer checks: lean-build (\S+?):', out)))
    trans=sorted(set(re.findall(r'no longer checks: translator (\S+?):', out)))
    corr=len(re.findall(r'no longer checks: correspondence', out))
    keys=[]
    for k in re.findall(r'failing input: (\S+)', out):
        k=re.sub(r'\.input_[0-9a-f]+','',k)
        if k not in keys: keys.append(k)
    title=''
    mp='/verif/seeded/%s/meta.json'%sid
    if os.path.exists(mp):
        try:
            md=json.load(open(mp)); title=md.get('title','')
        except Exception: pass
    layers=[]
    if thms or lean: layers.append('P '+', '.join([t.split('.')[-1] for t in thms][:4] + [os.path.basename(l) for l in lean][:2]))
    if trans: layers.append('T '+', '.join(trans[:3]))
    if m and int(m.group(4))>0 or corr: layers.append('X %s diffs' % (m.group(4) if m else '?'))
    if keys: layers.append('S '+', '.join(keys[:3]))
    if 'harness-run' in out: layers.append('harness aborted')
    nf='no-failing-input-found' in out
    neutral=os.path.exists('/verif/seeded/%s/NEUTRALISED.txt'%sid)
    if neutral and not viol:
        rows.append((sid,prop,'no (correctly)','the change no longer breaks the property on the current tree - its own demonstration passes; see seeded/%s/NEUTRALISED.txt'%sid,title))
        continue
    rows.append((sid,prop,'yes' if viol else '**NO**', '; '.join(layers) + (' (no failing input found)' if nf else ''), title))
print('| seed | property | reported | what fired (P theorem / T translator / X correspondence / S search key) | change |')
print('|---|---|---|---|---|')
for r in rows: print('| %s | %s | %s | %s | %s |' % (r[0],r[1],r[2],r[3].replace('|','/'),r[4][:140].replace('|','/')))
